package main

// oracle_fees — who gets block space without paying for it (C13: "because these transactions pay no
// fee and get top priority, each validator gets at most the per-round limit … and nobody else gets any").
//
// The fee-less path of the ante chain (app/ante/cosmos: context.go, fees.go, txsize_gas.go,
// sigverify.go) is taken by a transaction iff ALL its messages are MsgCreatePrice. This domain sends,
// through the real CheckTx and DeliverTx, in block 1 and in later blocks, the transactions on both
// sides of that line and measures what each one paid (balance of the fee payer, balance of the fee
// collector) and what it used (GasUsed):
//
//	price txs       plain (gas 0, no fee) · with a gas limit and a fee declared (must not be charged)
//	ordinary txs    bank send by a funded account: fee = base fee x gas limit (control) · zero fee ·
//	                one unit short · gas limit far below what the tx needs (fee paid for that limit) ·
//	                gas limit 0 · fee above the balance (of the deliver and of the check state)
//	mixed txs       one price message + one bank send (not a price tx: must pay like any other tx):
//	                zero fee with gas 0 / with a gas limit · fully paid (ante passes, the price message of
//	                a non-validator then fails, the fee stays paid) · with a validator's price message
//	                (second signer = its ed25519 consensus key: unsupported on the ordinary path)
//
// Model: Model/OracleFees.lean (`admit`), replayed by Driver/OracleFees.lean from the op lines
// `fee.tx …`; the inputs that are not decided by the ante chain (does the gas limit cover the tx, is the
// nonce the expected one, do the messages succeed) are declared by the row. Monitors (independent of
// the model): C13.feeless — a tx that is not a price tx and gets past the ante chain has paid its
// declared fee, and that fee covers the gas it used at the base fee (nobody else rides for free);
// a price tx is never charged.

import (
	"fmt"
	"math/big"
	"strings"
	"time"

	abci "github.com/cometbft/cometbft/abci/types"
	cryptotypes "github.com/cosmos/cosmos-sdk/crypto/types"
	sdk "github.com/cosmos/cosmos-sdk/types"
	"github.com/cosmos/cosmos-sdk/types/tx/signing"
	authsigning "github.com/cosmos/cosmos-sdk/x/auth/signing"
	authtypes "github.com/cosmos/cosmos-sdk/x/auth/types"
	banktypes "github.com/cosmos/cosmos-sdk/x/bank/types"

	"github.com/ExocoreNetwork/exocore/utils"
)

func init() { register("oracle_fees", domOracleFees) }

type feeRow struct {
	kind     string
	nPrice   int  // price messages
	nOther   int  // bank sends
	valPrice bool // the price message is a validator's (signed by its consensus key); else the payer's own
	gas      uint64
	fee      *big.Int
	// declared by the row (not decided by the ante chain)
	gasEnough bool // the gas limit covers the tx (irrelevant for price txs)
	msgsOK    bool // the messages succeed once the ante chain has passed
}

type feeSigner struct {
	priv cryptotypes.PrivKey
	addr sdk.AccAddress
}

// feeSign builds a tx signed by every signer with SIGN_MODE_DIRECT over the ordinary sign doc (account
// number / sequence of the deliver state; 0/0 for an account that does not exist).
func feeSign(c *Chain, msgs []sdk.Msg, signers []feeSigner, gas uint64, fee sdk.Coins) ([]byte, error) {
	txCfg := c.App.GetTxConfig()
	b := txCfg.NewTxBuilder()
	if err := b.SetMsgs(msgs...); err != nil {
		return nil, err
	}
	b.SetGasLimit(gas)
	b.SetFeeAmount(fee)
	mode := txCfg.SignModeHandler().DefaultMode()
	type an struct{ num, seq uint64 }
	var ans []an
	var sigs []signing.SignatureV2
	for _, s := range signers {
		var x an
		if acc := c.App.AccountKeeper.GetAccount(c.Ctx, s.addr); acc != nil {
			x = an{acc.GetAccountNumber(), acc.GetSequence()}
		}
		ans = append(ans, x)
		sigs = append(sigs, signing.SignatureV2{PubKey: s.priv.PubKey(), Data: &signing.SingleSignatureData{SignMode: mode}, Sequence: x.seq})
	}
	if err := b.SetSignatures(sigs...); err != nil {
		return nil, err
	}
	for i, s := range signers {
		sd := authsigning.SignerData{ChainID: c.Cfg.ChainID, AccountNumber: ans[i].num, Sequence: ans[i].seq, PubKey: s.priv.PubKey(), Address: s.addr.String()}
		bz, err := txCfg.SignModeHandler().GetSignBytes(mode, sd, b.GetTx())
		if err != nil {
			return nil, err
		}
		sg, err := s.priv.Sign(bz)
		if err != nil {
			return nil, err
		}
		sigs[i].Data = &signing.SingleSignatureData{SignMode: mode, Signature: sg}
	}
	if err := b.SetSignatures(sigs...); err != nil {
		return nil, err
	}
	return txCfg.TxEncoder()(b.GetTx())
}

func feeClass(code uint32, anteMoved bool) string {
	switch {
	case code == 0:
		return "ok"
	case code == 111222:
		return "panic"
	case anteMoved:
		return "msgfail"
	}
	return "rej"
}

func domOracleFees(env *Env) error {
	env.Report.Domain = "oracle_fees"
	seed := env.Report.Seed
	spec := orcSpec{Powers: []int64{10, 10, 10}, MaxNonce: 3, ThA: 2, ThB: 3, MaxDetID: 5, MaxSize: 100,
		Sources: [][2]bool{{true, true}}, Rules: [][]uint64{{0}, {1}}, TokenDec: []int32{0},
		Feeders: []orcFeeder{{Token: 1, Rule: 2, StartRound: 2, StartBase: 1, Interval: 6}}, GenNext: []uint64{2}, GenPrice: []string{"1"}}
	o := newOrc(env, 131900+seed, spec, nil)
	c := o.c
	_ = o.initAgc() // what x/oracle's BeginBlock does once per process
	d := newOrcDriver(o, NewRNG(seed*31+7))
	var hist []string
	op := func(line, obs string) {
		env.Op(line, obs)
		hist = append(hist, line)
	}
	// the payer is a genesis account (known to the check state from the first block on)
	payer := c.Funded
	rcpt := NewActor(seed, "fee-rcpt", 0)
	denom := utils.BaseDenom
	collector := authtypes.NewModuleAddress(authtypes.FeeCollectorName)
	bal := func(a sdk.AccAddress) *big.Int { return c.App.BankKeeper.GetBalance(o.ctx(), a, denom).Amount.BigInt() }
	baseFee := func() *big.Int {
		b := c.App.FeeMarketKeeper.GetBaseFee(o.ctx())
		if b == nil {
			return big.NewInt(0)
		}
		return b
	}
	// CheckTx runs on the state of the last commit, whose base fee is the previous block's
	baseFeeCheck := func() *big.Int {
		b := c.App.FeeMarketKeeper.GetBaseFee(c.App.BaseApp.NewContext(true, c.Header))
		if b == nil {
			return big.NewInt(0)
		}
		return b
	}
	op("fee.reset", "ok")
	const gasHi, gasLo = 400000, 1000
	nBlocks := env.Int("blocks", 9)
	for b := 0; b < nBlocks; b++ {
		h := uint64(c.Header.Height)
		bf := baseFee()
		env.Outcome(fmt.Sprintf("basefee>0=%v", bf.Sign() > 0))
		// in the first block there is no committed state yet: CheckTx has nothing to run on
		firstBlock := h == 1
		bfc := big.NewInt(0)
		if !firstBlock {
			bfc = baseFeeCheck()
		}
		need := func(g uint64) *big.Int { return new(big.Int).Mul(bf, new(big.Int).SetUint64(g)) }
		// "paid" rows pay for the higher of the two base fees: admitted by CheckTx and by DeliverTx
		bfMax := bf
		if bfc.Cmp(bf) > 0 {
			bfMax = bfc
		}
		needMax := func(g uint64) *big.Int { return new(big.Int).Mul(bfMax, new(big.Int).SetUint64(g)) }
		openBase := spec.openBase(0, h)
		rows := []feeRow{
			{kind: "send-paid", nOther: 1, gas: gasHi, fee: needMax(gasHi), gasEnough: true, msgsOK: true},
			{kind: "send-zero-fee", nOther: 1, gas: gasHi, fee: big.NewInt(0), gasEnough: true, msgsOK: true},
			{kind: "send-one-short", nOther: 1, gas: gasHi, fee: new(big.Int).Sub(need(gasHi), big.NewInt(1)), gasEnough: true, msgsOK: true},
			{kind: "send-low-gas-limit", nOther: 1, gas: gasLo, fee: need(gasLo), gasEnough: false, msgsOK: true},
			{kind: "send-zero-gas", nOther: 1, gas: 0, fee: big.NewInt(0), gasEnough: false, msgsOK: true},
			{kind: "send-fee-above-balance", nOther: 1, gas: gasHi, fee: new(big.Int).Add(bal(payer.Acc), big.NewInt(1000000)), gasEnough: true, msgsOK: true},
			{kind: "mixed-zero-gas", nPrice: 1, nOther: 1, gas: 0, fee: big.NewInt(0), gasEnough: false, msgsOK: false},
			{kind: "mixed-zero-fee", nPrice: 1, nOther: 1, gas: gasHi, fee: big.NewInt(0), gasEnough: true, msgsOK: false},
			{kind: "mixed-paid", nPrice: 1, nOther: 1, gas: gasHi, fee: needMax(gasHi), gasEnough: true, msgsOK: false},
			{kind: "mixed-validator-price", nPrice: 1, nOther: 1, valPrice: true, gas: gasHi, fee: needMax(gasHi), gasEnough: true, msgsOK: false},
			{kind: "price-plain", nPrice: 1, valPrice: true, gas: 0, fee: big.NewInt(0), msgsOK: true},
			{kind: "price-fee-declared", nPrice: 1, valPrice: true, gas: gasHi, fee: needMax(gasHi), msgsOK: true},
			{kind: "price-low-gas-limit", nPrice: 1, valPrice: true, gas: 1, fee: big.NewInt(0), msgsOK: true},
			{kind: "send-paid-again", nOther: 1, gas: gasHi, fee: needMax(gasHi), gasEnough: true, msgsOK: true},
		}
		valTurn := 0
		for _, r := range rows {
			// ---- build
			var msgs []sdk.Msg
			signers := []feeSigner{}
			addSigner := func(s feeSigner) {
				for _, x := range signers {
					if x.addr.Equals(s.addr) {
						return
					}
				}
				signers = append(signers, s)
			}
			for i := 0; i < r.nOther; i++ { // the bank send first: its sender is the fee payer
				msgs = append(msgs, &banktypes.MsgSend{FromAddress: payer.Acc.String(), ToAddress: rcpt.Acc.String(), Amount: sdk.NewCoins(sdk.NewInt64Coin(denom, 1))})
				addSigner(feeSigner{payer.Priv, payer.Acc})
			}
			nonceOK := false
			val := -1
			for i := 0; i < r.nPrice; i++ {
				if r.valPrice {
					val = valTurn % len(spec.Powers)
					valTurn++
					n, has := d.nonceOf(val, 1)
					m := orcMsg{Creator: val, Feeder: 1, Based: openBase, Nonce: n + 1, Srcs: []orcSource{{ID: 1, Prices: []orcPrice{{Price: "2", Dec: 0, Ts: c.Header.Time.Unix(), DetID: fmt.Sprint(9 + h)}}}}}
					msgs = append(msgs, o.toMsg(m))
					nonceOK = has && n+1 <= spec.MaxNonce
					// counted only while the round is open and this validator has not reported the det id yet
					r.msgsOK = nonceOK && openBase > 0 && d.roundStatus(1) == 1 && n == 0
					addSigner(feeSigner{o.privOf(val), sdk.AccAddress(o.privOf(val).PubKey().Address())})
				} else {
					pm := o.toMsg(orcMsg{Creator: 0, Feeder: 1, Based: openBase, Nonce: 1, Srcs: []orcSource{{ID: 1, Prices: []orcPrice{{Price: "2", Dec: 0, Ts: c.Header.Time.Unix(), DetID: "9"}}}}})
					pm.Creator = payer.Acc.String()
					msgs = append(msgs, pm)
					addSigner(feeSigner{payer.Priv, payer.Acc})
				}
			}
			isPrice := r.nOther == 0 && r.nPrice > 0
			var bz []byte
			var err error
			fee := sdk.Coins{}
			if r.fee.Sign() > 0 {
				fee = sdk.NewCoins(sdk.NewCoin(denom, sdk.NewIntFromBigInt(r.fee)))
			}
			if isPrice {
				// the feeder's signing convention (sign doc over the chain id only), with the row's gas / fee
				bz, err = feeSignPrice(o, msgs, val, r.gas, fee)
			} else {
				bz, err = feeSign(c, msgs, signers, r.gas, fee)
			}
			if err != nil {
				env.Note("fees-build-error:" + r.kind + ":" + firstN(err.Error(), 60))
				continue
			}
			// ---- CheckTx, then DeliverTx
			balP, balC := bal(payer.Acc), bal(collector)
			var valBal *big.Int
			if val >= 0 {
				valBal = bal(sdk.AccAddress(o.privOf(val).PubKey().Address()))
			}
			var seq0 uint64
			if acc := c.App.AccountKeeper.GetAccount(o.ctx(), payer.Acc); acc != nil {
				seq0 = acc.GetSequence()
			}
			nonce0, _ := d.nonceOf(maxInt(val, 0), 1)
			chk := "rej"
			if firstBlock {
				chk = "-"
			}
			func() {
				if firstBlock {
					return
				}
				defer func() {
					if rec := recover(); rec != nil {
						chk = "panic"
					}
				}()
				cr := c.App.CheckTx(abci.RequestCheckTx{Tx: bz, Type: abci.CheckTxType_New})
				if cr.Code == 0 {
					chk = "ok"
				}
			}()
			var dr abci.ResponseDeliverTx
			func() {
				defer func() {
					if rec := recover(); rec != nil {
						dr = abci.ResponseDeliverTx{Code: 111222, Log: fmt.Sprint(rec)}
					}
				}()
				dr = c.App.DeliverTx(abci.RequestDeliverTx{Tx: bz})
			}()
			var seq1 uint64
			if acc := c.App.AccountKeeper.GetAccount(o.ctx(), payer.Acc); acc != nil {
				seq1 = acc.GetSequence()
			}
			nonce1, _ := d.nonceOf(maxInt(val, 0), 1)
			anteMoved := seq1 != seq0 || (isPrice && nonce1 != nonce0)
			dlv := feeClass(dr.Code, anteMoved)
			paid := new(big.Int).Sub(bal(collector), balC)
			payerDelta := new(big.Int).Sub(balP, bal(payer.Acc))
			admitted := dlv == "ok" || dlv == "msgfail"
			// ---- op / obs
			line := fmt.Sprintf("fee.tx %s %d %d %d %s %s %s %d %d %d %d %d", r.kind, r.nPrice, r.nOther, r.gas, r.fee, bf, map[bool]string{true: "-", false: bfc.String()}[firstBlock], b2i(r.gasEnough), b2i(r.valPrice && !isPrice),
				b2i(nonceOK), b2i(r.msgsOK), b2i(balP.Cmp(r.fee) >= 0))
			op(line, fmt.Sprintf("chk=%s dlv=%s paid=%s", chk, dlv, paid))
			env.Outcome("fees:" + r.kind + ":chk=" + chk + ",dlv=" + dlv)
			env.DistinctKey(r.kind + "|" + chk + "|" + dlv)
			if dlv == "rej" && dr.Code != 0 {
				env.Note(fmt.Sprintf("fees-rej:%s:%s/%d", r.kind, dr.Codespace, dr.Code))
			}
			// ---- monitors
			env.Eval("C13.feeless")
			what := fmt.Sprintf("block %d, %s (price msgs %d, other msgs %d, gas limit %d, declared fee %s, base fee %s): CheckTx %s, DeliverTx %s (code %d), gas used %d, fee collector +%s, payer -%s",
				h, r.kind, r.nPrice, r.nOther, r.gas, r.fee, bf, chk, dlv, dr.Code, dr.GasUsed, paid, payerDelta)
			if !isPrice && (admitted || chk == "ok") && bf.Sign() > 0 {
				used := new(big.Int).Mul(bf, big.NewInt(dr.GasUsed))
				switch {
				case chk == "ok" && (r.fee.Cmp(new(big.Int).Mul(bfc, new(big.Int).SetUint64(maxU(r.gas, 1)))) < 0 || !r.gasEnough):
					env.Violate("C13.feeless", "feeless-ordinary-tx-admitted:checktx", "CheckTx admitted a transaction that is not a price submission with a fee below base fee x gas limit: "+what, hist)
				case admitted && paid.Cmp(r.fee) != 0:
					env.Violate("C13.feeless", "feeless-ordinary-tx-admitted:fee-not-collected", "a transaction that is not a price submission got past the ante chain without its declared fee being collected: "+what, hist)
				case admitted && paid.Cmp(used) < 0:
					env.Violate("C13.feeless", "feeless-ordinary-tx-admitted:gas-not-paid", "a transaction that is not a price submission used more gas than its fee pays for at the base fee: "+what, hist)
				}
			}
			if !isPrice && admitted {
				sent := int64(0)
				if dlv == "ok" {
					sent = int64(r.nOther)
				}
				if new(big.Int).Sub(payerDelta, big.NewInt(sent)).Cmp(paid) != 0 {
					env.Violate("C13.feeless", "fee-payer-mismatch", "what the fee collector received is not what the fee payer paid: "+what, hist)
				}
			}
			if isPrice {
				if paid.Sign() != 0 || payerDelta.Sign() != 0 || (valBal != nil && bal(sdk.AccAddress(o.privOf(val).PubKey().Address())).Cmp(valBal) != 0) {
					env.Violate("C13.feeless", "price-tx-charged", "a price submission was charged a fee: "+what, hist)
				}
			}
			if !admitted && dlv != "panic" && (paid.Sign() != 0 || payerDelta.Sign() != 0) {
				env.Violate("C13.feeless", "rejected-but-charged", "a transaction refused by the ante chain moved funds: "+what, hist)
			}
		}
		// ---- next block
		if _, halted := o.endBlockQuiet(); halted {
			env.Violate("C13.halt", "halt", "EndBlock panicked: "+o.halted, hist)
			return nil
		}
		if !o.commitBeginQuiet(2 * time.Second) {
			env.Violate("C13.halt", "halt", "Commit/BeginBlock panicked: "+o.halted, hist)
			return nil
		}
		op(fmt.Sprintf("fee.block %d", c.Header.Height), "ok")
	}
	env.Report.Histories++
	env.Sample(strings.Join(hist[:min(len(hist), 20)], " ; "))
	return nil
}

func maxInt(a, b int) int {
	if a > b {
		return a
	}
	return b
}

func maxU(a, b uint64) uint64 {
	if a > b {
		return a
	}
	return b
}

// feeSignPrice: a price tx as the feeder signs it (dom_oracle.go: build), with a gas limit and a fee.
func feeSignPrice(o *orc, msgs []sdk.Msg, val int, gas uint64, fee sdk.Coins) ([]byte, error) {
	txCfg := o.c.App.GetTxConfig()
	b := txCfg.NewTxBuilder()
	if err := b.SetMsgs(msgs...); err != nil {
		return nil, err
	}
	b.SetGasLimit(gas)
	b.SetFeeAmount(fee)
	mode := txCfg.SignModeHandler().DefaultMode()
	priv := o.privOf(val)
	sig := signing.SignatureV2{PubKey: priv.PubKey(), Data: &signing.SingleSignatureData{SignMode: mode}, Sequence: 0}
	if err := b.SetSignatures(sig); err != nil {
		return nil, err
	}
	bz, err := txCfg.SignModeHandler().GetSignBytes(mode, authsigning.SignerData{ChainID: o.c.Cfg.ChainID}, b.GetTx())
	if err != nil {
		return nil, err
	}
	sg, err := priv.Sign(bz)
	if err != nil {
		return nil, err
	}
	sig.Data = &signing.SingleSignatureData{SignMode: mode, Signature: sg}
	if err := b.SetSignatures(sig); err != nil {
		return nil, err
	}
	return txCfg.TxEncoder()(b.GetTx())
}

// endBlockQuiet / commitBeginQuiet: the block boundary without `orc.*` op lines (this domain has its own
// driver).
func (o *orc) endBlockQuiet() (struct{}, bool) {
	func() {
		defer recoverTo(&o.halted, "EndBlock")
		o.c.App.EndBlock(abci.RequestEndBlock{Height: o.c.Header.Height})
	}()
	return struct{}{}, o.halted != ""
}

func (o *orc) commitBeginQuiet(d time.Duration) bool {
	func() {
		defer recoverTo(&o.halted, "Commit")
		cm := o.c.App.Commit()
		h := o.c.Header
		h.Height++
		h.Time = h.Time.Add(d)
		h.AppHash = cm.Data
		o.c.Header = h
	}()
	if o.halted == "" {
		func() {
			defer recoverTo(&o.halted, "BeginBlock")
			o.c.App.BeginBlock(abci.RequestBeginBlock{Header: o.c.Header})
		}()
	}
	if o.halted != "" {
		return false
	}
	o.c.Ctx = o.ctx()
	return true
}
