package main

// C07 / C06 — jail status per chain (x/operator/keeper/slash.go: IsOperatorJailedForChainID,
// SetJailedState) as the SDK's slashing and evidence modules see it through x/dogfood's staking
// interface (impl_sdk.go: IsValidatorJailed, ValidatorByConsAddr(...).IsJailed, Jail, Unjail).
//
//   * every state line of the conskeys domain carries, for every resolvable consensus address,
//     the jail status reported by IsValidatorJailed (R=key:operator:jailed) — the Lean model
//     prints `jailedView`;
//   * `ck.unjailmsg` = MsgUnjail through the slashing module's message server (the only way an
//     operator gets out of jail): validator lookup, self-delegation check, "is it jailed at
//     all", jail period, then dogfood.Unjail — model `ExoVerif.ConsKeys.unjailMsg`;
//   * monitor C07.slashable/jail-status-mismatch: for every resolvable address the reported
//     status equals the Jailed flag of the operator's opt-in record (the flag that decides
//     eligibility in GetActiveOperatorsForChainID);
//   * a directed jail cycle (genesis validator jailed through the slashing keeper, drops out at
//     the epoch end, MsgUnjail, comes back at the next epoch end) runs in every conskeys run.

import (
	"errors"
	"fmt"
	"time"

	sdk "github.com/cosmos/cosmos-sdk/types"
	slashingkeeper "github.com/cosmos/cosmos-sdk/x/slashing/keeper"
	slashingtypes "github.com/cosmos/cosmos-sdk/x/slashing/types"

	epochstypes "github.com/ExocoreNetwork/exocore/x/epochs/types"
)

func unjailErrClass(err error) string {
	if err == nil {
		return "ok"
	}
	if len(err.Error()) >= 6 && err.Error()[:6] == "panic:" {
		return "panic"
	}
	for _, e := range []struct {
		err  error
		name string
	}{
		{slashingtypes.ErrNoValidatorForAddress, "ErrNoValidatorForAddress"},
		{slashingtypes.ErrMissingSelfDelegation, "ErrMissingSelfDelegation"},
		{slashingtypes.ErrSelfDelegationTooLowToUnjail, "ErrSelfDelegationTooLowToUnjail"},
		{slashingtypes.ErrValidatorNotJailed, "ErrValidatorNotJailed"},
		{slashingtypes.ErrValidatorJailed, "ErrValidatorJailed"},
	} {
		if errors.Is(err, e.err) {
			return e.name
		}
	}
	return "rej"
}

// jailViewOf: the jail status the staking interface reports for a consensus address, both ways
// the SDK asks for it. val = -1 when ValidatorByConsAddr returns nil.
func jailViewOf(c *Chain, ctx sdk.Context, ca sdk.ConsAddress) (isJailed bool, val int) {
	sk := c.App.StakingKeeper
	isJailed = sk.IsValidatorJailed(ctx, ca)
	val = -1
	func() {
		defer func() { _ = recover() }()
		if v := sk.ValidatorByConsAddr(ctx, ca); v != nil {
			val = 0
			if v.IsJailed() {
				val = 1
			}
		}
	}()
	return
}

func (w *ckWorld) jailViewMonitor(ctx sdk.Context, pfx string) {
	w.env.Eval("C07.slashable")
	for k := range w.Keys {
		o := w.RevOp(ctx, k)
		if o < 0 {
			continue
		}
		_, flag := w.OptState(ctx, o)
		rep, val := jailViewOf(w.C, ctx, w.Keys[k].ToConsAddr())
		if rep != flag || (val >= 0 && (val == 1) != flag) {
			w.viol("C07.slashable", pfx+"jail-status-mismatch", fmt.Sprintf("consensus address of key %d resolves to operator %d whose opt-in record says jailed=%v, but the staking interface reports IsValidatorJailed=%v, ValidatorByConsAddr.IsJailed=%d (-1 = no validator)", k, o, flag, rep, val), w.hist)
		}
	}
}

// unjailInputs reads what slashing.Unjail will be told about the operator's value: whole-number
// total and self USD value (-1: not available) and the AVS minimum self delegation; timeOK = the
// signing info (if any) is not tombstoned and its jail period is over.
func (w *ckWorld) unjailInputs(op int) (total, self, min int64, timeOK bool, ok bool) {
	c := w.C
	defer func() {
		if r := recover(); r != nil {
			ok = false
		}
	}()
	total, self = -1, -1
	if v, err := c.App.OperatorKeeper.GetOrCalculateOperatorUSDValues(c.Ctx, w.Ops[op].Acc, c.AVSAddr); err == nil {
		if v.TotalUSDValue.IsNil() || v.SelfUSDValue.IsNil() {
			return 0, 0, 0, false, false
		}
		total, self = v.TotalUSDValue.TruncateInt64(), v.SelfUSDValue.TruncateInt64()
	}
	m, err := c.App.AVSManagerKeeper.GetAVSMinimumSelfDelegation(c.Ctx, c.AVSAddr)
	if err != nil {
		return 0, 0, 0, false, false
	}
	min = m.TruncateInt64()
	timeOK = true
	if k := w.CurKey(c.Ctx, op); k >= 0 {
		if info, found := c.App.SlashingKeeper.GetValidatorSigningInfo(c.Ctx, w.Keys[k].ToConsAddr()); found {
			timeOK = !info.Tombstoned && !c.Ctx.BlockHeader().Time.Before(info.JailedUntil)
		}
	}
	return total, self, min, timeOK, true
}

// doUnjailMsg sends MsgUnjail for the operator through x/slashing's message server.
func (w *ckWorld) doUnjailMsg(op int) string {
	c := w.C
	total, self, min, timeOK, ok := w.unjailInputs(op)
	if !ok {
		return "skipped"
	}
	_, wasJailed := w.OptState(c.Ctx, op)
	srv := slashingkeeper.NewMsgServerImpl(c.App.SlashingKeeper)
	out := unjailErrClass(c.CachedDo(func(ctx sdk.Context) error {
		_, err := srv.Unjail(sdk.WrapSDKContext(ctx), &slashingtypes.MsgUnjail{ValidatorAddr: sdk.ValAddress(w.Ops[op].Acc).String()})
		return err
	}))
	t := 0
	if timeOK {
		t = 1
	}
	w.env.Eval("C07.guards")
	if _, still := w.OptState(c.Ctx, op); out == "ok" && (still || !wasJailed) {
		w.viol("C07.guards", "unjail-without-effect", fmt.Sprintf("MsgUnjail of operator %d accepted, jailed before=%v after=%v", op, wasJailed, still), w.hist)
	}
	w.emit(fmt.Sprintf("ck.unjailmsg %d %d %d %d %d", op, total, self, min, t), out)
	return out
}

// scenarioJailCycle: a genesis validator is jailed the way the slashing module does it
// (slashing keeper Jail -> dogfood.Jail -> operator.SetJailedState), must be reported as jailed
// through every view, drops out of the validator set when the epoch ends, leaves jail with
// MsgUnjail and is back in the set one epoch later. A second, never jailed validator is refused
// by MsgUnjail.
func scenarioJailCycle(env *Env) {
	cfg := DefaultCfg(env.Report.Seed*1000 + 997)
	cfg.EpochID = epochstypes.MinuteEpochID
	cfg.EpochsUntilUnbonded = 1
	cfg.MinSelfDelegation = 1
	w := newCkWorld(env, cfg, 3, 4)
	c := w.C
	g, other := -1, -1
	for op := range w.Ops {
		if w.Reg[op] && w.InValSet(c.Ctx, w.CurKey(c.Ctx, op)) {
			if g < 0 {
				g = op
			} else if other < 0 {
				other = op
			}
		}
	}
	if g < 0 {
		return
	}
	k := w.CurKey(c.Ctx, g)
	step := func() bool {
		ok := w.doBlock(w.EpochDur+time.Second, "")
		w.monitors(c.Ctx, "tx", "")
		return ok
	}
	c.App.SlashingKeeper.Jail(c.Ctx, w.Keys[k].ToConsAddr())
	w.emit(fmt.Sprintf("ck.jail %d 1", k), "ok")
	w.monitors(c.Ctx, "tx", "")
	for i := 0; i < 2; i++ { // BeginBlock of the next block ends the epoch, its EndBlock updates the set
		if !step() {
			return
		}
	}
	env.Outcome(fmt.Sprintf("jailcycle.dropped-out=%v", !w.InValSet(c.Ctx, k)))
	if other >= 0 {
		env.Outcome("jailcycle.unjail-not-jailed=" + w.doUnjailMsg(other))
	}
	env.Outcome("jailcycle.unjail=" + w.doUnjailMsg(g))
	w.monitors(c.Ctx, "tx", "")
	for i := 0; i < 2; i++ {
		if !step() {
			return
		}
	}
	env.Outcome(fmt.Sprintf("jailcycle.back-in-set=%v", w.InValSet(c.Ctx, k)))
	// jail by the replaced key: the old address of a validator that changed its key still
	// resolves (C07) and must report - and set - the same operator's jail status
	fresh := -1
	for kk := range w.Keys {
		if w.RevOp(c.Ctx, kk) < 0 {
			fresh = kk
			break
		}
	}
	if fresh >= 0 && w.InValSet(c.Ctx, k) && w.doSetKey(g, fresh, "") == "ok" {
		c.App.SlashingKeeper.Jail(c.Ctx, w.Keys[k].ToConsAddr()) // evidence for the old key
		w.emit(fmt.Sprintf("ck.jail %d 1", k), "ok")
		w.monitors(c.Ctx, "tx", "")
		env.Outcome("jailcycle.unjail-after-replacement=" + w.doUnjailMsg(g))
		w.monitors(c.Ctx, "tx", "")
	}
	for i := 0; i < 3; i++ {
		if !step() {
			return
		}
	}
	env.Report.Histories++
	env.Outcome("scenario-jailcycle")
}
