package main

// Shared machinery of the oracle domains (C12 rounds, C13 admission, C14 restart): boots the real
// app with a configurable oracle genesis, builds signed MsgCreatePrice transactions exactly as a
// validator's price feeder would (ed25519 consensus key, fee-less, sign bytes over the chain id
// only), drives them through the real ABCI DeliverTx/CheckTx/EndBlock/Commit/BeginBlock, and
// prints the canonical observation the Lean model (Driver/Oracle.lean) must reproduce:
// stored prices, nonces, the in-memory aggregator context (hook VerifDump), the pending cache
// and the replay log.

import (
	"encoding/json"
	"fmt"
	"math/big"
	"sort"
	"strconv"
	"strings"
	"time"

	abci "github.com/cometbft/cometbft/abci/types"
	"github.com/cosmos/cosmos-sdk/crypto/keys/ed25519"
	cryptotypes "github.com/cosmos/cosmos-sdk/crypto/types"
	sdk "github.com/cosmos/cosmos-sdk/types"
	txtypes "github.com/cosmos/cosmos-sdk/types/tx"
	"github.com/cosmos/cosmos-sdk/types/tx/signing"
	authsigning "github.com/cosmos/cosmos-sdk/x/auth/signing"

	oraclekeeper "github.com/ExocoreNetwork/exocore/x/oracle/keeper"
	oraclecommon "github.com/ExocoreNetwork/exocore/x/oracle/keeper/common"
	oracletypes "github.com/ExocoreNetwork/exocore/x/oracle/types"
)

const orcLayout = "2006-01-02 15:04:05"

type orcFeeder struct {
	Token, Rule, StartRound, StartBase, Interval, End uint64
}

type orcSpec struct {
	Powers                                 []int64
	MaxNonce, ThA, ThB, MaxDetID, MaxSize  int32
	Sources                                [][2]bool // valid, deterministic (ids 1..)
	Rules                                  [][]uint64
	TokenDec                               []int32 // ids 1..
	Feeders                                []orcFeeder
	GenNext                                []uint64 // per token: stored NextRoundID (0 = no entry)
	GenPrice                               []string // per token: price of round next-1 ("" = none)
}

type orcPrice struct {
	Price  string
	Dec    int32
	TsKind int   // 0 ok, 1 empty, 2 bad format
	Ts     int64 // unix seconds
	DetID  string
}

type orcSource struct {
	ID     uint64
	Prices []orcPrice
	Desc   string
}

type orcMsg struct {
	Creator int // validator index, or 50+j for a stranger
	Feeder  uint64
	Based   uint64
	Nonce   int32
	Srcs    []orcSource
}

type orcTx struct {
	// Infos >= 0: keep only the first Infos SignerInfos (public key + sign mode) although the tx has
	// more signers; the kept signers sign properly, the remaining signature slots hold junk bytes, so
	// that the number of raw signatures still equals the number of signers (tx.ValidateBasic).
	// The zero value means "all" — use InfosSet to request a truncation (incl. to 0).
	Infos    int
	InfosSet bool
	Msgs    []orcMsg
	Forge   bool // signature made with a different key, validator's pubkey attached
	WrongPK bool // signed with and carrying the signer-of-record's *wrong* pubkey (a stranger's)
	// SigMut: per-position changes of the raw signature slots of the (otherwise properly signed) tx —
	// forged / junk / empty / bit-flipped / exchanged signatures of single signers (dom_oracle_multi.go)
	SigMut []orcSigMut
}

type orc struct {
	lastInfos [][2]bool // per SignerInfo of the last built tx: public key matches signer, signature verifies
	c        *Chain
	env      *Env
	spec     orcSpec
	hist     []string
	strPrivs []*ed25519.PrivKey
	names    map[string]string
	halted   string
}

func orcResetSingletons() {
	oraclekeeper.VerifResetAll()
	oraclecommon.MaxNonce = 3
	oraclecommon.ThresholdA = 2
	oraclecommon.ThresholdB = 3
	oraclecommon.MaxDetID = 5
	oraclecommon.Mode = oracletypes.ConsensusModeASAP
}

func (o *orc) privOf(i int) *ed25519.PrivKey {
	if i >= 50 {
		return o.strPrivs[i-50]
	}
	return o.c.ConsPrivs[i]
}

func (o *orc) creatorOf(i int) string {
	return sdk.AccAddress(o.privOf(i).PubKey().Address()).String()
}

func (o *orc) name(s string) string {
	if n, ok := o.names[s]; ok {
		return n
	}
	// filter keys: creator + decimal source id
	for k, n := range o.names {
		if strings.HasPrefix(s, k) {
			rest := s[len(k):]
			if _, err := strconv.Atoi(rest); err == nil {
				return n + rest
			}
		}
	}
	return "u_" + s
}

func newOrc(env *Env, seed uint64, spec orcSpec, mutateCfg func(*ChainCfg)) *orc {
	orcResetSingletons()
	o := &orc{env: env, spec: spec, names: map[string]string{}}
	cfg := DefaultCfg(seed)
	cfg.NOperators = len(spec.Powers)
	cfg.Powers = spec.Powers
	cfg.MinSelfDelegation = 1
	if mutateCfg != nil {
		mutateCfg(&cfg)
	}
	cfg.Mutate = func(c *Chain, gs map[string]json.RawMessage) {
		p := oracletypes.DefaultParams()
		p.MaxNonce, p.ThresholdA, p.ThresholdB, p.MaxDetId, p.MaxSizePrices = spec.MaxNonce, spec.ThA, spec.ThB, spec.MaxDetID, spec.MaxSize
		p.Sources = p.Sources[:1]
		for i, s := range spec.Sources {
			p.Sources = append(p.Sources, &oracletypes.Source{Name: fmt.Sprintf("S%d", i+1), Valid: s[0], Deterministic: s[1],
				Entry: &oracletypes.Endpoint{Offchain: map[uint64]string{0: ""}}})
		}
		p.Rules = p.Rules[:1]
		for _, r := range spec.Rules {
			rs := &oracletypes.RuleSource{SourceIDs: r}
			if len(r) == 0 {
				// a rule without SourceIDs must carry a Nom part (RuleSource.validate); CheckRules ignores it
				// ("TODO: check NOM") and accepts every source list: the model's empty rule
				rs.Nom = &oracletypes.NOMSource{SourceIDs: []uint64{1}, Minimum: 1}
			}
			p.Rules = append(p.Rules, rs)
		}
		p.Tokens = p.Tokens[:1]
		for i, d := range spec.TokenDec {
			t := &oracletypes.Token{Name: fmt.Sprintf("TK%d", i), ChainID: 1, ContractAddress: "0x", Decimal: d, Active: true}
			if i < len(c.AssetIDs) {
				t.AssetID = c.AssetIDs[i]
			}
			p.Tokens = append(p.Tokens, t)
		}
		p.TokenFeeders = p.TokenFeeders[:1]
		for _, f := range spec.Feeders {
			p.TokenFeeders = append(p.TokenFeeders, &oracletypes.TokenFeeder{TokenID: f.Token, RuleID: f.Rule, StartRoundID: f.StartRound,
				StartBaseBlock: f.StartBase, Interval: f.Interval, EndBlock: f.End})
		}
		og := oracletypes.NewGenesisState(p)
		for i := range spec.TokenDec {
			if spec.GenNext[i] == 0 {
				continue
			}
			pr := oracletypes.Prices{TokenID: uint64(i + 1), NextRoundID: spec.GenNext[i]}
			if spec.GenPrice[i] != "" && spec.GenNext[i] > 1 {
				pr.PriceList = []*oracletypes.PriceTimeRound{{Price: spec.GenPrice[i], Decimal: spec.TokenDec[i], RoundID: spec.GenNext[i] - 1}}
			}
			og.PricesList = append(og.PricesList, pr)
		}
		gs[oracletypes.ModuleName] = c.App.AppCodec().MustMarshalJSON(og)
	}
	o.c = NewChain(cfg)
	for i := range o.c.ConsPrivs {
		nm := fmt.Sprintf("v%02d", i)
		o.names[sdk.ConsAddress(o.c.ConsPrivs[i].PubKey().Address()).String()] = nm
		o.names[o.creatorOf(i)] = nm
	}
	for j := 0; j < 3; j++ {
		_, p := NewConsKey(seed, "stranger", j)
		o.strPrivs = append(o.strPrivs, p)
		nm := fmt.Sprintf("v%02d", 50+j)
		o.names[sdk.ConsAddress(p.PubKey().Address()).String()] = nm
		o.names[o.creatorOf(50+j)] = nm
	}
	return o
}

func (o *orc) op(op, obs string) {
	o.env.Op(op, obs)
	o.hist = append(o.hist, op)
}

// emitSetup prints the configuration ops that put the model into the genesis state.
func (o *orc) emitSetup() {
	s := o.spec
	o.op("orc.reset", "ok")
	o.op(fmt.Sprintf("orc.params %d %d %d %d %d", s.MaxNonce, s.ThA, s.ThB, s.MaxDetID, s.MaxSize), "ok")
	o.op("orc.source 0 0", "ok")
	for _, x := range s.Sources {
		o.op(fmt.Sprintf("orc.source %d %d", b2i(x[0]), b2i(x[1])), "ok")
	}
	o.op("orc.rule -", "ok")
	for _, r := range s.Rules {
		o.op("orc.rule "+joinU(r), "ok")
	}
	o.op("orc.token 0", "ok")
	for _, d := range s.TokenDec {
		o.op(fmt.Sprintf("orc.token %d", d), "ok")
	}
	o.op("orc.feeder 0 0 0 0 0 0", "ok")
	for _, f := range s.Feeders {
		o.op(fmt.Sprintf("orc.feeder %d %d %d %d %d %d", f.Token, f.Rule, f.StartRound, f.StartBase, f.Interval, f.End), "ok")
	}
	for i, p := range s.Powers {
		o.op(fmt.Sprintf("orc.val %d %d", i, p), "ok")
	}
	for i := range s.TokenDec {
		if s.GenNext[i] == 0 {
			continue
		}
		o.op(fmt.Sprintf("orc.price %d %d", i+1, s.GenNext[i]), "ok")
		if s.GenPrice[i] != "" && s.GenNext[i] > 1 {
			o.op(fmt.Sprintf("orc.priceitem %d %d %s %d -1", i+1, s.GenNext[i]-1, s.GenPrice[i], s.TokenDec[i]), "ok")
		}
	}
	o.op(fmt.Sprintf("orc.begin %d %d", o.c.Header.Height, o.c.Header.Time.Unix()), "ok")
	// what module.BeginBlock's once.Do does in a fresh process
	o.op("orc.init", o.initAgc())
}

func b2i(b bool) int {
	if b {
		return 1
	}
	return 0
}

func joinU(r []uint64) string {
	if len(r) == 0 {
		return "-"
	}
	ss := make([]string, len(r))
	for i, x := range r {
		ss[i] = fmt.Sprint(x)
	}
	return strings.Join(ss, ",")
}

func (o *orc) initAgc() (obs string) {
	defer func() {
		if r := recover(); r != nil {
			obs = "panic"
			o.env.Note("recache-panic")
		}
	}()
	_ = oraclekeeper.GetCaches()
	_ = oraclekeeper.GetAggregatorContext(o.c.Ctx, o.c.App.OracleKeeper)
	return o.fullObs()
}

// restart simulates a process stop/start at the current point (after BeginBlock of the current
// height): every process-local oracle singleton is dropped, the package-level defaults are what a
// fresh process has, and the first use rebuilds the context from the committed store.
func (o *orc) restart() string {
	orcResetSingletons()
	return o.initAgc()
}

func orcTS(s string) string {
	if s == "" {
		return "-"
	}
	t, err := time.ParseInLocation(orcLayout, s, time.UTC)
	if err != nil {
		return "?" + strings.ReplaceAll(s, " ", "_")
	}
	return fmt.Sprint(t.Unix())
}

func (o *orc) ctx() sdk.Context { return o.c.App.BaseApp.NewContext(false, o.c.Header) }

func (o *orc) showPrices(ctx sdk.Context) string {
	k := o.c.App.OracleKeeper
	var parts []string
	for _, p := range k.GetAllPrices(ctx) {
		var rs []string
		for _, r := range p.PriceList {
			rs = append(rs, fmt.Sprintf("%d=%s/%d/%s/%d", r.RoundID, r.Price, r.Decimal, orcTS(r.Timestamp), r.RoundID))
		}
		parts = append(parts, fmt.Sprintf("%d:%d:[%s]", p.TokenID, p.NextRoundID, strings.Join(rs, ",")))
	}
	return strings.Join(parts, ";")
}

func (o *orc) allIdx() []int {
	var out []int
	for i := range o.c.ConsPrivs {
		out = append(out, i)
	}
	for j := range o.strPrivs {
		out = append(out, 50+j)
	}
	return out
}

func (o *orc) showNonces(ctx sdk.Context) string {
	k := o.c.App.OracleKeeper
	var parts []string
	for _, i := range o.allIdx() {
		cons := sdk.ConsAddress(o.privOf(i).PubKey().Address()).String()
		n, found := k.GetNonce(ctx, cons)
		if !found {
			continue
		}
		l := append([]*oracletypes.Nonce{}, n.NonceList...)
		sort.Slice(l, func(a, b int) bool { return l[a].FeederID < l[b].FeederID })
		for _, x := range l {
			parts = append(parts, fmt.Sprintf("v%02d/%d=%d", i, x.FeederID, x.Value))
		}
	}
	return strings.Join(parts, ",")
}

func (o *orc) showLog(ctx sdk.Context) string {
	k := o.c.App.OracleKeeper
	var ms, ps []string
	for _, m := range k.GetAllRecentMsg(ctx) {
		ms = append(ms, fmt.Sprintf("%d#%d", m.Block, len(m.Msgs)))
	}
	for _, p := range k.GetAllRecentParams(ctx) {
		ps = append(ps, fmt.Sprintf("%d#%d", p.Block, len(p.Params.TokenFeeders)))
	}
	mi, _ := k.GetIndexRecentMsg(ctx)
	pi, _ := k.GetIndexRecentParams(ctx)
	vu := "-"
	if b, ok := k.GetValidatorUpdateBlock(ctx); ok {
		vu = fmt.Sprint(b.Block)
	}
	return fmt.Sprintf("M:%s MI:%s PR:%s PI:%s VU:%s", strings.Join(ms, ","), joinU0(mi.Index), strings.Join(ps, ","), joinU0(pi.Index), vu)
}

func joinU0(r []uint64) string {
	ss := make([]string, len(r))
	for i, x := range r {
		ss[i] = fmt.Sprint(x)
	}
	return strings.Join(ss, ",")
}

func (o *orc) fullObs() string {
	ctx := o.ctx()
	return o.showPrices(ctx) + "|N:" + o.showNonces(ctx) + "|" + oraclekeeper.VerifDumpAgc(o.name) + "|" + oraclekeeper.VerifDumpCache(o.name) + "|" + o.showLog(ctx)
}

// ---- transactions

func (o *orc) toMsg(m orcMsg) *oracletypes.MsgCreatePrice {
	var srcs []*oracletypes.PriceSource
	for _, s := range m.Srcs {
		ps := &oracletypes.PriceSource{SourceID: s.ID, Desc: s.Desc}
		for _, p := range s.Prices {
			ts := ""
			switch p.TsKind {
			case 0:
				ts = time.Unix(p.Ts, 0).UTC().Format(orcLayout)
			case 2:
				ts = "2024/01/01 00:00"
			}
			ps.Prices = append(ps.Prices, &oracletypes.PriceTimeDetID{Price: p.Price, Decimal: p.Dec, Timestamp: ts, DetID: p.DetID})
		}
		srcs = append(srcs, ps)
	}
	return &oracletypes.MsgCreatePrice{Creator: o.creatorOf(m.Creator), FeederID: m.Feeder, Prices: srcs, BasedBlock: m.Based, Nonce: m.Nonce}
}

// build signs the tx the way the price feeder does. Returns bytes, pubkey-matches, sig-valid.
func (o *orc) build(t orcTx) ([]byte, bool, bool, error) {
	txCfg := o.c.App.GetTxConfig()
	b := txCfg.NewTxBuilder()
	var msgs []sdk.Msg
	var signers []int
	seen := map[int]bool{}
	for _, m := range t.Msgs {
		msgs = append(msgs, o.toMsg(m))
		if !seen[m.Creator] {
			seen[m.Creator] = true
			signers = append(signers, m.Creator)
		}
	}
	if err := b.SetMsgs(msgs...); err != nil {
		return nil, false, false, err
	}
	b.SetGasLimit(0)
	mode := txCfg.SignModeHandler().DefaultMode()
	stranger := o.strPrivs[2]
	pubs := make([]cryptotypes.PubKey, len(signers))
	var sigs []signing.SignatureV2
	for i, s := range signers {
		pubs[i] = o.privOf(s).PubKey()
		if t.WrongPK {
			pubs[i] = stranger.PubKey()
		}
		sigs = append(sigs, signing.SignatureV2{PubKey: pubs[i], Data: &signing.SingleSignatureData{SignMode: mode}, Sequence: 0})
	}
	if err := b.SetSignatures(sigs...); err != nil {
		return nil, false, false, err
	}
	bytesToSign, err := txCfg.SignModeHandler().GetSignBytes(mode, authsigning.SignerData{ChainID: o.c.Cfg.ChainID}, b.GetTx())
	if err != nil {
		return nil, false, false, err
	}
	sigOK := true
	o.lastInfos = make([][2]bool, len(signers))
	for i, s := range signers {
		priv := o.privOf(s)
		if t.Forge || t.WrongPK {
			priv = stranger
		}
		sg, err := priv.Sign(bytesToSign)
		if err != nil {
			return nil, false, false, err
		}
		sigs[i].Data = &signing.SingleSignatureData{SignMode: mode, Signature: sg}
		o.lastInfos[i] = [2]bool{!t.WrongPK, pubs[i].VerifySignature(bytesToSign, sg)}
		if !o.lastInfos[i][1] {
			sigOK = false
		}
	}
	if err := b.SetSignatures(sigs...); err != nil {
		return nil, false, false, err
	}
	bz, err := txCfg.TxEncoder()(b.GetTx())
	if err == nil && t.InfosSet && t.Infos < len(signers) {
		bz, err = o.truncateSignerInfos(bz, signers, t.Infos)
	}
	if err == nil && len(t.SigMut) > 0 {
		bz, sigOK, err = o.mutateSigs(bz, signers, t.SigMut)
	}
	return bz, !t.WrongPK, sigOK, err
}

// truncateSignerInfos rewrites the raw tx so that it carries only the first `keep` SignerInfos;
// those signers sign the rewritten document (SIGN_MODE_DIRECT), the other signature slots get junk.
func (o *orc) truncateSignerInfos(bz []byte, signers []int, keep int) ([]byte, error) {
	var raw txtypes.TxRaw
	if err := raw.Unmarshal(bz); err != nil {
		return nil, err
	}
	var ai txtypes.AuthInfo
	if err := ai.Unmarshal(raw.AuthInfoBytes); err != nil {
		return nil, err
	}
	ai.SignerInfos = ai.SignerInfos[:keep]
	aib, err := ai.Marshal()
	if err != nil {
		return nil, err
	}
	raw.AuthInfoBytes = aib
	doc := txtypes.SignDoc{BodyBytes: raw.BodyBytes, AuthInfoBytes: aib, ChainId: o.c.Cfg.ChainID, AccountNumber: 0}
	docBz, err := doc.Marshal()
	if err != nil {
		return nil, err
	}
	raw.Signatures = nil
	o.lastInfos = o.lastInfos[:keep]
	for i, s := range signers {
		if i < keep {
			sg, err := o.privOf(s).Sign(docBz)
			if err != nil {
				return nil, err
			}
			raw.Signatures = append(raw.Signatures, sg)
			o.lastInfos[i][1] = o.privOf(s).PubKey().VerifySignature(docBz, sg)
		} else {
			raw.Signatures = append(raw.Signatures, []byte("not a signature of this validator, 64 bytes of junk ............"))
		}
	}
	return raw.Marshal()
}

func orcClass(code uint32, space, log string) string {
	if code == 0 {
		return "ok"
	}
	idx := ""
	if i := strings.Index(log, "message index: "); i >= 0 {
		j := i + len("message index: ")
		e := j
		for e < len(log) && log[e] >= '0' && log[e] <= '9' {
			e++
		}
		idx = log[j:e]
	}
	switch {
	case space == "oracle":
		return fmt.Sprintf("msg%s:oracle:%d", idx, code)
	case code == 111222:
		return "panic"
	case space == "sdk" && code == 21:
		return "ante:size"
	case space == "sdk" && code == 8:
		return "ante:pubkey"
	case space == "sdk" && code == 4:
		return "ante:sig" // ErrUnauthorized from the oracle branch of SigVerificationDecorator
	case space == "undefined" && code == 1:
		return "ante:nonce"
	}
	return fmt.Sprintf("other:%s:%d", space, code)
}

func (o *orc) opLineTx(t orcTx, size int, infos [][2]bool) string {
	var sb strings.Builder
	fmt.Fprintf(&sb, "orc.tx %d %d", size, len(infos))
	for _, in := range infos {
		fmt.Fprintf(&sb, " %d %d", b2i(in[0]), b2i(in[1]))
	}
	fmt.Fprintf(&sb, " %d", len(t.Msgs))
	for _, m := range t.Msgs {
		fmt.Fprintf(&sb, " %d %d %d %d %d", m.Creator, m.Feeder, m.Based, m.Nonce, len(m.Srcs))
		for _, s := range m.Srcs {
			fmt.Fprintf(&sb, " %d %d", s.ID, len(s.Prices))
			for _, p := range s.Prices {
				d := p.DetID
				if d == "" {
					d = "-"
				}
				fmt.Fprintf(&sb, " %s %d %d %d %s", p.Price, p.Dec, p.TsKind, p.Ts, d)
			}
		}
	}
	return sb.String()
}

// deliver runs one tx through the real DeliverTx and records op + observation. Returns the class.
func (o *orc) deliver(t orcTx) string {
	bz, _, _, err := o.build(t)
	if err != nil {
		o.env.Note("build-error")
		return "build-error"
	}
	infos := append([][2]bool{}, o.lastInfos...)
	var res abci.ResponseDeliverTx
	func() {
		defer func() {
			if r := recover(); r != nil {
				res = abci.ResponseDeliverTx{Code: 111222, Codespace: "undefined", Log: fmt.Sprint(r)}
			}
		}()
		res = o.c.App.DeliverTx(abci.RequestDeliverTx{Tx: bz})
	}()
	cls := orcClass(res.Code, res.Codespace, res.Log)
	if strings.HasPrefix(cls, "other:") {
		o.env.Note("unclassified " + cls + " " + firstN(res.Log, 80))
	}
	if cls == "panic" {
		o.env.Note("deliver-panic: " + firstN(res.Log, 160))
	}
	o.op(o.opLineTx(t, len(bz), infos), cls+"|"+o.fullObs())
	o.env.Outcome("tx:" + cls)
	return cls
}

func (o *orc) check(t orcTx, recheck bool) (string, int64) {
	bz, _, _, err := o.build(t)
	if err != nil {
		return "build-error", 0
	}
	ty := abci.CheckTxType_New
	if recheck {
		ty = abci.CheckTxType_Recheck
	}
	var res abci.ResponseCheckTx
	func() {
		defer func() {
			if r := recover(); r != nil {
				res = abci.ResponseCheckTx{Code: 111222, Codespace: "undefined", Log: fmt.Sprint(r)}
			}
		}()
		res = o.c.App.CheckTx(abci.RequestCheckTx{Tx: bz, Type: ty})
	}()
	return orcClass(res.Code, res.Codespace, res.Log), res.Priority
}

func firstN(s string, n int) string {
	s = strings.ReplaceAll(s, "\n", " ")
	if len(s) > n {
		return s[:n]
	}
	return s
}

// endBlock runs EndBlock and records the observation (taken before Commit, from the deliver
// state); the validator updates x/dogfood produced are an input of the model.
func (o *orc) endBlock() (updates map[int]int64, halted bool) {
	var res abci.ResponseEndBlock
	func() {
		defer recoverTo(&o.halted, "EndBlock")
		res = o.c.App.EndBlock(abci.RequestEndBlock{Height: o.c.Header.Height})
	}()
	if o.halted != "" {
		o.op("orc.end -", "halt")
		return nil, true
	}
	updates = map[int]int64{}
	var us []string
	for _, vu := range res.ValidatorUpdates {
		idx := -1
		for i, p := range o.c.ConsPrivs {
			if ed, ok := vu.PubKey.Sum.(interface{ GetEd25519() []byte }); ok {
				_ = ed
			}
			if vu.PubKey.GetEd25519() != nil && string(vu.PubKey.GetEd25519()) == string(p.PubKey().Bytes()) {
				idx = i
			}
		}
		if idx < 0 {
			idx = 99
		}
		updates[idx] = vu.Power
		us = append(us, fmt.Sprintf("%d:%d", idx, vu.Power))
	}
	u := "-"
	if len(us) > 0 {
		u = strings.Join(us, ",")
	}
	o.op("orc.end "+u, o.fullObs())
	return updates, false
}

// commitBegin commits and begins the next block d later.
func (o *orc) commitBegin(d time.Duration) bool {
	func() {
		defer recoverTo(&o.halted, "Commit")
		cm := o.c.App.Commit()
		h := o.c.Header
		h.Height++
		h.Time = h.Time.Add(d)
		h.AppHash = cm.Data
		o.c.Header = h
	}()
	if o.halted == "" {
		func() {
			defer recoverTo(&o.halted, "BeginBlock")
			o.c.App.BeginBlock(abci.RequestBeginBlock{Header: o.c.Header})
		}()
	}
	if o.halted != "" {
		return false
	}
	o.c.Ctx = o.ctx()
	o.op(fmt.Sprintf("orc.begin %d %d", o.c.Header.Height, o.c.Header.Time.Unix()), "ok")
	return true
}

// ---- round schedule helpers (the harness's own arithmetic, independent of the model)

// openBase returns the base block of feeder f's round whose window contains block h (DeliverTx at
// h sees it open unless already closed), or 0.
func (s *orcSpec) openBase(fi int, h uint64) uint64 {
	f := s.Feeders[fi]
	if h <= f.StartBase {
		return 0
	}
	prev := h - 1 // rounds are prepared at EndBlock(prev)
	if f.End > 0 && prev >= f.End {
		return 0
	}
	left := (prev - f.StartBase) % f.Interval
	if left >= uint64(s.MaxNonce) {
		return 0
	}
	return prev - left
}

func bigOf(s string) *big.Int {
	b, ok := new(big.Int).SetString(s, 10)
	if !ok {
		return nil
	}
	return b
}

func sdkConsString(addr []byte) string { return sdk.ConsAddress(addr).String() }
