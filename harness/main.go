package main

import (
	"fmt"
	"os"
	"sort"
)

// Domain is one property-specific driver: it runs seeded histories against the real app,
// writes ops/observations for the Lean driver and evaluates monitors on the real state.
type Domain func(env *Env) error

var domains = map[string]Domain{}

func register(name string, d Domain) { domains[name] = d }

func main() {
	if len(os.Args) < 2 {
		names := []string{}
		for n := range domains {
			names = append(names, n)
		}
		sort.Strings(names)
		fmt.Fprintln(os.Stderr, "usage: exoharness <domain> [key=value ...]; domains:", names)
		os.Exit(2)
	}
	env := NewEnv(os.Args[2:])
	d, ok := domains[os.Args[1]]
	if !ok {
		fmt.Fprintln(os.Stderr, "unknown domain", os.Args[1])
		os.Exit(2)
	}
	if err := runGuarded(env, d); err != nil { // crash.go: an application panic becomes a violation
		fmt.Fprintln(os.Stderr, "harness error:", err)
		os.Exit(3)
	}
	env.Finish()
}
