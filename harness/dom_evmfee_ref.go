package main

// C19 — reference-execution monitor, storage-dependent contracts and multi-message Ethereum txs
// (see evmref.go for the reference world, dom_evmfee.go for delivery and the accounting monitors).
//
// What the property text says and what is checked here, on the real state, against the reference:
//   "gas used"                         — the gas the sender is charged for is max(floor(multiplier x limit), gas of the
//                                         reference execution after the EIP-3529-capped refund counter)      sig ref-gas-used
//   "a reverted or failed execution    — an execution that reverts / runs out of gas on the reference is reported failed
//    changes no other state"             (so no value moves, no storage changes), and the other way round   sig ref-exec-flag
//   "contract creations, calls that    — a message the reference executes is executed (not answered with a whole-gas
//    succeed …"                          error), and the other way round                                     sig ref-apply-error
//   contract storage                   — code and storage of every tracked account equal the reference after every tx:
//                                         after a failed tx that is the pre-state, after a successful one it is the
//                                         state every later gas figure / branch depends on                  sig ref-post-state

import (
	"fmt"
	"math/big"
	"sort"
	"strconv"
	"strings"
	"time"

	codectypes "github.com/cosmos/cosmos-sdk/codec/types"
	storetypes "github.com/cosmos/cosmos-sdk/store/types"
	sdk "github.com/cosmos/cosmos-sdk/types"
	authtx "github.com/cosmos/cosmos-sdk/x/auth/tx"
	authtypes "github.com/cosmos/cosmos-sdk/x/auth/types"
	"github.com/cosmos/gogoproto/proto"
	"github.com/ethereum/go-ethereum/common"
	"github.com/ethereum/go-ethereum/core"
	ethtypes "github.com/ethereum/go-ethereum/core/types"
	"github.com/ethereum/go-ethereum/core/vm"
	"github.com/ethereum/go-ethereum/crypto"
	evmostypes "github.com/evmos/evmos/v16/types"
	evmtypes "github.com/evmos/evmos/v16/x/evm/types"

	utiltx "github.com/ExocoreNetwork/exocore/testutil/tx"
	"github.com/ExocoreNetwork/exocore/utils"
)

// evmAsm assembles a tiny EVM program: opcode names, "PUSH1 <hex byte>" / "PUSH1 @label" and ":label" (a JUMPDEST).
func evmAsm(src string) []byte {
	toks := strings.Fields(src)
	labels := map[string]int{}
	for pass := 0; pass < 2; pass++ {
		var out []byte
		for i := 0; i < len(toks); i++ {
			t := toks[i]
			switch {
			case strings.HasPrefix(t, ":"):
				labels[t[1:]] = len(out)
				out = append(out, byte(vm.JUMPDEST))
			case t == "PUSH1":
				i++
				a := toks[i]
				var v int
				if strings.HasPrefix(a, "@") {
					v = labels[a[1:]]
				} else {
					x, err := strconv.ParseUint(a, 16, 8)
					if err != nil {
						panic("evmAsm: bad PUSH1 operand " + a)
					}
					v = int(x)
				}
				out = append(out, byte(vm.PUSH1), byte(v))
			default:
				op := vm.StringToOp(t)
				if op == 0 && t != "STOP" {
					panic("evmAsm: unknown opcode " + t)
				}
				out = append(out, byte(op))
			}
		}
		if pass == 1 {
			if len(out) > 255 {
				panic("evmAsm: program too long for PUSH1 labels")
			}
			return out
		}
	}
	return nil
}

// rtBranch: behaviour depends on what an EARLIER transaction left in slot 0 and slot 1
//
//	calldata empty   : require(slot0 != 0)            (reverts on a fresh contract, succeeds once slot0 was set)
//	calldata 1 byte  : require(slot0 == 0)            (the reverse)
//	calldata 2 bytes : slot1 := slot0 + 1 ; slot0 := 0   (read-modify-write + clear: refund counter)
//	otherwise        : slot0 := calldata[0:32]
var rtBranch = evmAsm(`
	CALLDATASIZE DUP1 ISZERO PUSH1 @needset JUMPI
	DUP1 PUSH1 01 EQ PUSH1 @needzero JUMPI
	PUSH1 02 EQ PUSH1 @move JUMPI
	PUSH1 00 CALLDATALOAD PUSH1 00 SSTORE STOP
	:needset POP PUSH1 00 SLOAD ISZERO PUSH1 @rev JUMPI STOP
	:needzero POP PUSH1 00 SLOAD PUSH1 @rev JUMPI STOP
	:move PUSH1 00 SLOAD PUSH1 01 ADD PUSH1 01 SSTORE PUSH1 00 PUSH1 00 SSTORE STOP
	:rev PUSH1 00 PUSH1 00 REVERT
`)

func evmRefApplies(tag string) bool {
	return !strings.Contains(tag, "precompile") && !strings.Contains(tag, "gateway")
}

// refSync copies balances / nonces of every tracked account into the reference world; `fees` and `bumps` are the
// ante effects (fee escrow, nonce increments) per account id.
func (w *evmWorld) refSync(bal []*big.Int, seq []uint64, fees map[int]*big.Int, bumps map[int]uint64) bool {
	for i, a := range w.accts {
		b := new(big.Int).Set(bal[i])
		if f := fees[i]; f != nil {
			b.Sub(b, f)
			if b.Sign() < 0 {
				return false // cannot pay: the tx is rejected whatever the EVM says
			}
		}
		w.ref.setAccount(a.addr, b, seq[i]+bumps[i])
	}
	return true
}

// refCheckState compares code and storage of every tracked account with the reference.
func (w *evmWorld) refCheckState(class string) {
	if w.ref == nil || w.refOff || w.refStateOff || w.env.Int("poststate", 1) == 0 {
		return
	}
	w.env.Eval("C19.ref-post-state")
	var diffs []string
	for _, a := range w.accts {
		diffs = append(diffs, w.ref.diffContract(w.c, a.addr)...)
	}
	if len(diffs) > 0 {
		sort.Strings(diffs)
		if len(diffs) > 4 {
			diffs = append(diffs[:4], fmt.Sprintf("… %d more", len(diffs)-4))
		}
		w.env.Violate("C19.ref-post-state", "ref-post-state", fmt.Sprintf("%s: contract code/storage after the tx differs from the reference execution of the same history: %s", class, strings.Join(diffs, "; ")), w.hist)
		w.refStateOff = true // one report per history: every later state inherits the difference (executions are still compared)
	}
}

// refCheckExec compares one executed message with its reference execution.
func (w *evmWorld) refCheckExec(rr refResult, class string, gas uint64, s EthTxSpec, what string) {
	env := w.env
	env.Eval("C19.ref-exec")
	switch {
	case rr.applyErr && class != "apperr":
		env.Violate("C19.ref-exec", "ref-apply-error", fmt.Sprintf("%s%s: gas limit %d is below the intrinsic gas, yet the message was executed", what, class, s.GasLimit), w.hist)
	case !rr.applyErr && class == "apperr":
		env.Violate("C19.ref-exec", "ref-apply-error", fmt.Sprintf("%sthe message is executable (reference: failed=%v gas=%d %s) but was answered with an error and charged the whole gas limit", what, rr.failed, rr.gas, rr.vmErr), w.hist)
	case rr.applyErr:
	case rr.failed != (class == "vmfail"):
		if rr.failed {
			env.Violate("C19.ref-exec", "ref-exec-flag", fmt.Sprintf("%sthe execution fails on the reference (%s) but was treated as successful: a reverted/failed execution kept its effects (value %s)", what, rr.vmErr, s.Value), w.hist)
		} else {
			env.Violate("C19.ref-exec", "ref-exec-flag", fmt.Sprintf("%sthe execution succeeds on the reference but was reported failed", what), w.hist)
		}
	default:
		lim := new(big.Int).SetUint64(s.GasLimit)
		want := w.mult.MulInt(sdk.NewIntFromBigInt(lim)).TruncateInt().BigInt()
		if g := new(big.Int).SetUint64(rr.gas); g.Cmp(want) > 0 {
			want = g
		}
		if want.Cmp(new(big.Int).SetUint64(gas)) != 0 {
			env.Violate("C19.ref-exec", "ref-gas-used", fmt.Sprintf("%s%s: charged for %d gas; the reference execution uses %d (after the capped refund counter), minimum-gas floor included %s", what, class, gas, rr.gas, want), w.hist)
		}
	}
}

// ---------------------------------------------------------------------------------------------------------
// several MsgEthereumTx in one cosmos tx (evmos batches; the ante decorators and ResetGasMeterAndConsumeGas
// loop over / accumulate across the messages)

type evmPart struct {
	from, recip *evmAcct
	s           EthTxSpec
	kind        string
}

// BuildEthTxMulti builds one cosmos tx carrying several signed MsgEthereumTx (fee and gas limit = the sums).
func (c *Chain) BuildEthTxMulti(parts []evmPart) (bz []byte, err error) {
	defer func() {
		if r := recover(); r != nil {
			err = fmt.Errorf("build panic: %v", r)
		}
	}()
	chainID := c.App.EvmKeeper.ChainID()
	signer := ethtypes.LatestSignerForChainID(chainID)
	var msgs []sdk.Msg
	fee := new(big.Int)
	gas := uint64(0)
	for _, p := range parts {
		s := p.s
		args := &evmtypes.EvmTxArgs{ChainID: chainID, Nonce: s.Nonce, GasLimit: s.GasLimit, Input: s.Data, Amount: s.Value, To: s.To, GasPrice: s.FeeCap}
		m := evmtypes.NewTx(args)
		m.From = p.from.addr.String()
		if err = m.Sign(signer, utiltx.NewSigner(p.from.actor.Priv)); err != nil {
			return nil, err
		}
		m.From = ""
		msgs = append(msgs, m)
		fee.Add(fee, m.GetFee())
		gas += m.GetGas()
	}
	txCfg := c.App.GetTxConfig()
	b := txCfg.NewTxBuilder()
	if err = b.SetMsgs(msgs...); err != nil {
		return nil, err
	}
	opt, err := codectypes.NewAnyWithValue(&evmtypes.ExtensionOptionsEthereumTx{})
	if err != nil {
		return nil, err
	}
	eb, ok := b.(authtx.ExtensionOptionsTxBuilder)
	if !ok {
		return nil, fmt.Errorf("no extension builder")
	}
	eb.SetExtensionOptions(opt)
	b.SetGasLimit(gas)
	b.SetFeeAmount(sdk.Coins{sdk.NewCoin(utils.BaseDenom, sdk.NewIntFromBigInt(fee))})
	return txCfg.TxEncoder()(b.GetTx())
}

// randomMulti draws 2..3 legacy messages of senders that can pay for all of them (fresh block, so the block gas meter
// is empty). Mostly admissible and executable; now and then one message is below its intrinsic gas (DeliverTx has no
// ante check for it: ApplyTransaction errors and the whole tx fails after its ante effects) or skips a nonce (rejected).
func (w *evmWorld) randomMulti() []evmPart {
	rng := w.rng
	n := 2 + rng.Intn(2)
	price := new(big.Int).Mul(w.baseFee(), evmBigOf(4))
	if price.Sign() == 0 {
		price = evmBigOf(1)
	}
	var senders []*evmAcct
	need1 := new(big.Int).Mul(price, evmBigOf(3*150000+3000))
	for _, nm := range []string{"funded", "eoa0", "eoa1"} {
		if a := w.byName(nm); w.bal(a).Cmp(need1) >= 0 {
			senders = append(senders, a)
		}
	}
	if len(senders) == 0 {
		w.env.Note("multi-no-sender")
		return nil
	}
	next := map[int]uint64{}
	var parts []evmPart
	for i := 0; i < n; i++ {
		from := senders[rng.Intn(len(senders))]
		if _, ok := next[from.id]; !ok {
			next[from.id] = w.seq(from)
		}
		s := EthTxSpec{Type: 0, Nonce: next[from.id], GasLimit: 100000, FeeCap: price, Value: new(big.Int), Sign: true}
		var recip *evmAcct
		kind := ""
		switch rng.Pick(3, 3, 2, 3, 3) {
		case 0:
			kind, recip = "transfer", w.byName("sink")
			s.Value = evmBigOf(int64(1 + rng.Intn(1000)))
			s.GasLimit = []uint64{21000, 30000, 100000}[rng.Intn(3)]
		case 1:
			kind, recip = "call:cStore", w.byName("cStore")
			s.Data = common.LeftPadBytes([]byte{byte(rng.Intn(3))}, 32)
		case 2:
			kind, recip = "call:cRevert", w.byName("cRevert")
			s.Value = evmBigOf(int64(rng.Intn(2)))
		case 3:
			kind, recip = "call:cBranch", w.byName("cBranch")
			s.Data = [][]byte{nil, {1}, {1, 2}, common.LeftPadBytes([]byte{byte(rng.Intn(3))}, 32)}[rng.Intn(4)]
		case 4:
			kind = "create"
			s.Data = [][]byte{initCodeFor(rtStore), initCodeFor(rtStop), rtRevert}[rng.Pick(3, 2, 1)]
			s.GasLimit = 150000
			addr := crypto.CreateAddress(from.addr, s.Nonce)
			if a, ok := w.byAddr[addr]; ok {
				recip = a
			} else {
				recip = w.add(fmt.Sprintf("created%d", len(w.accts)), addr, nil)
				w.syncAcct(recip)
			}
		}
		if recip != nil && kind != "create" {
			a := recip.addr
			s.To = &a
		}
		next[from.id]++
		parts = append(parts, evmPart{from: from, recip: recip, s: s, kind: kind})
	}
	switch rng.Pick(12, 1, 1) {
	case 1: // one message below its intrinsic gas
		p := &parts[rng.Intn(len(parts))]
		if p.kind != "create" {
			p.s.GasLimit = 20999
			p.kind += ":lowgas"
		}
	case 2: // the last message skips a nonce
		p := &parts[len(parts)-1]
		if p.kind != "create" {
			p.s.Nonce++
			p.kind += ":badnonce"
		}
	}
	return parts
}

// preExecuteBatch: the opaque EVM results of the messages, obtained as for a single tx (MinGasMultiplier = 0, discarded
// cache of the same state, ante effects of ALL messages applied first, the messages one after the other).
func (w *evmWorld) preExecuteBatch(parts []evmPart) (pres []preExec, ok bool) {
	defer func() {
		if r := recover(); r != nil {
			ok = false
		}
	}()
	c := w.c
	cctx, _ := c.Ctx.CacheContext()
	fp := c.App.FeeMarketKeeper.GetParams(cctx)
	fp.MinGasMultiplier = sdk.ZeroDec()
	if err := c.App.FeeMarketKeeper.SetParams(cctx, fp); err != nil {
		return nil, false
	}
	total := uint64(0)
	for _, p := range parts {
		total += p.s.GasLimit
		fee := new(big.Int).Mul(p.s.FeeCap, new(big.Int).SetUint64(p.s.GasLimit))
		if fee.Sign() > 0 {
			if err := c.App.BankKeeper.SendCoinsFromAccountToModule(cctx, p.from.addr.Bytes(), authtypes.FeeCollectorName,
				sdk.Coins{sdk.NewCoin(utils.BaseDenom, sdk.NewIntFromBigInt(fee))}); err != nil {
				return nil, false
			}
		}
		acc := c.App.AccountKeeper.GetAccount(cctx, p.from.addr.Bytes())
		if acc == nil {
			return nil, false
		}
		_ = acc.SetSequence(acc.GetSequence() + 1)
		c.App.AccountKeeper.SetAccount(cctx, acc)
	}
	cctx = cctx.WithGasMeter(evmostypes.NewInfiniteGasMeterWithLimit(total)).
		WithKVGasConfig(storetypes.GasConfig{}).WithTransientKVGasConfig(storetypes.GasConfig{})
	signer := ethtypes.LatestSignerForChainID(c.App.EvmKeeper.ChainID())
	for _, p := range parts {
		var pe preExec
		intr, err := core.IntrinsicGas(p.s.Data, p.s.Access, p.s.To == nil, true, true)
		if err != nil {
			return nil, false
		}
		pe.intrinsic = intr
		msg, _, err := c.BuildEthTx(*p.from.actor, p.s)
		if err != nil {
			return nil, false
		}
		coreMsg, err := msg.AsMessage(signer, w.baseFee())
		if err != nil {
			return nil, false
		}
		mctx, write := cctx.CacheContext()
		res, err := c.App.EvmKeeper.ApplyMessage(mctx, coreMsg, nil, true)
		if err != nil {
			pe.applyErr = true
		} else {
			pe.evmGas, pe.failed, pe.vmErr = res.GasUsed, res.Failed(), res.VmError
			if !res.Failed() {
				write()
			}
		}
		pres = append(pres, pe)
	}
	return pres, true
}

func evmJoinU(xs []uint64, sep string) string {
	ss := make([]string, len(xs))
	for i, x := range xs {
		ss[i] = strconv.FormatUint(x, 10)
	}
	return strings.Join(ss, sep)
}

// deliverMulti delivers one cosmos tx with several Ethereum messages, emits the `evm.batch` op for the Lean model
// (Model/EvmBatch.lean: deliverBatch) and evaluates the C19 predicates per message and in sum on the real state.
func (w *evmWorld) deliverMulti(parts []evmPart) {
	c, env := w.c, w.env
	if len(parts) < 2 {
		return
	}
	if w.maxGas > 0 {
		tot := uint64(0)
		for _, p := range parts {
			tot += p.s.GasLimit
		}
		if tot > uint64(w.maxGas) {
			parts = parts[:2]
		}
	}
	bz, err := c.BuildEthTxMulti(parts)
	if err != nil {
		env.Note("multi-build-failed")
		return
	}
	pres, modelled := w.preExecuteBatch(parts)
	if !modelled {
		env.Note("preexec-skipped")
	}
	n := len(w.accts)
	balB, seqB := make([]*big.Int, n), make([]uint64, n)
	for i, a := range w.accts {
		balB[i], seqB[i] = w.bal(a), w.seq(a)
	}
	digB := w.digest()
	baseFee := w.baseFee()
	var desc, kinds []string
	fees, bumps := map[int]*big.Int{}, map[int]uint64{}
	wantRej, wantErr := false, false
	for _, p := range parts {
		desc = append(desc, fmt.Sprintf("[%s from=%d to=%d nonce=%d gas=%d price=%s value=%s data=%x]", p.kind, p.from.id, p.recip.id, p.s.Nonce, p.s.GasLimit, p.s.FeeCap, p.s.Value, p.s.Data))
		kinds = append(kinds, p.kind)
		if fees[p.from.id] == nil {
			fees[p.from.id] = new(big.Int)
		}
		fees[p.from.id].Add(fees[p.from.id], new(big.Int).Mul(p.s.FeeCap, new(big.Int).SetUint64(p.s.GasLimit)))
		if p.s.Nonce != seqB[p.from.id]+bumps[p.from.id] {
			wantRej = true
		}
		bumps[p.from.id]++
		if strings.HasSuffix(p.kind, ":lowgas") {
			wantErr = true
		}
	}
	// reference: the messages one after the other on the state the ante handler leaves
	var refs []refResult
	refOK := !wantRej && !wantErr && w.ref != nil && !w.refOff && w.refSync(balB, seqB, fees, bumps)
	if refOK {
		w.ref.begin()
		for _, p := range parts {
			rr, err := w.ref.exec(c, p.from.addr, p.s, baseFee)
			if err != nil {
				env.Note("ref-error")
				refOK = false
				break
			}
			refs = append(refs, rr)
		}
	}
	res, halt := c.DeliverRawTx(bz)
	if halt != "" {
		w.hist = append(w.hist, "evm.multitx "+strings.Join(desc, " "))
		env.Violate("C19.halt", "halt", "DeliverTx panicked out of baseapp: "+halt, w.hist)
		return
	}
	balA, seqA := make([]*big.Int, n), make([]uint64, n)
	changed := false
	for i, a := range w.accts {
		balA[i], seqA[i] = w.bal(a), w.seq(a)
		if balA[i].Cmp(balB[i]) != 0 || seqA[i] != seqB[i] {
			changed = true
		}
	}
	class := "ok"
	switch {
	case res.Code == 0:
	case !changed:
		class = "rej"
	case strings.Contains(res.Log, "block gas meter"):
		class = "blockgas"
	default:
		class = "apperr"
	}
	env.Outcome("multi:" + class)
	env.Outcome(fmt.Sprintf("multi:msgs=%d", len(parts)))
	if w.ref != nil {
		w.ref.settle(class == "ok")
	}
	// ---- what the messages' senders were charged for, per message
	var gases []uint64
	var flags []string
	var ers []evmtypes.MsgEthereumTxResponse
	if class == "ok" {
		var txData sdk.TxMsgData
		if err := c.App.AppCodec().Unmarshal(res.Data, &txData); err != nil || len(txData.MsgResponses) != len(parts) {
			w.hist = append(w.hist, "evm.multitx "+strings.Join(desc, " "))
			env.Violate("C19.fee-exact", "multi-responses", fmt.Sprintf("multi-message tx: %d messages but %d responses", len(parts), len(txData.MsgResponses)), w.hist)
			w.nextBlock(time.Second)
			return
		}
		for i := range parts {
			var er evmtypes.MsgEthereumTxResponse
			if err := proto.Unmarshal(txData.MsgResponses[i].Value, &er); err != nil {
				env.Note("multi-decode-failed")
				w.nextBlock(time.Second)
				return
			}
			ers = append(ers, er)
			gases = append(gases, er.GasUsed)
			flags = append(flags, strconv.Itoa(evmB2i(er.Failed())))
		}
	} else if class != "rej" {
		for _, p := range parts {
			gases = append(gases, p.s.GasLimit)
		}
	}
	// ---- op / obs for the model
	if modelled {
		rg := int64(0)
		if class == "rej" {
			rg = res.GasUsed
		}
		op := fmt.Sprintf("evm.batch %d %d", rg, len(parts))
		for i, p := range parts {
			op += fmt.Sprintf(" 0 %d %d %d %d %s 0 %s 1 %d %d %d %d", p.from.id, p.recip.id, p.s.Nonce, p.s.GasLimit, p.s.FeeCap, p.s.Value,
				pres[i].intrinsic, pres[i].evmGas, evmB2i(pres[i].failed), evmB2i(p.s.To == nil))
		}
		var ns []string // nonces of the senders, in order of first appearance
		seen := map[int]bool{}
		for _, p := range parts {
			if !seen[p.from.id] {
				seen[p.from.id] = true
				ns = append(ns, strconv.FormatUint(seqA[p.from.id], 10))
			}
		}
		bs := make([]string, n)
		for i := range balA {
			bs[i] = balA[i].String()
		}
		w.op(op, fmt.Sprintf("%s rg=%d g=%s f=%s n=%s b=%s", class, res.GasUsed, evmJoinU(gases, ";"), strings.Join(flags, ";"), strings.Join(ns, ","), strings.Join(bs, ",")))
		w.hist[len(w.hist)-1] += "   # " + strings.Join(desc, " ")
	} else {
		w.hist = append(w.hist, "unmodelled:evm.multitx "+strings.Join(desc, " "))
		defer w.nextBlock(time.Second)
	}
	// ---- monitors on the real state
	env.Eval("C19.sum-zero")
	sum := new(big.Int)
	for i := range balA {
		sum.Add(sum, new(big.Int).Sub(balA[i], balB[i]))
	}
	if sum.Sign() != 0 {
		env.Violate("C19.sum-zero", "sum-nonzero", fmt.Sprintf("multi-message tx (%s): balance deltas sum to %s", class, sum), w.hist)
	}
	log := res.Log
	if i := strings.IndexByte(log, '\n'); i >= 0 {
		log = log[:i]
	}
	if len(log) > 200 {
		log = log[:200]
	}
	want := make([]*big.Int, n)
	for i := range want {
		want[i] = new(big.Int)
	}
	wantSeq := append([]uint64{}, seqB...)
	created := map[int]bool{}
	switch class {
	case "rej":
		// nonces in sequence, price 4 x base fee >= MinGasPrice, senders that can pay, fresh block, gas below the block limit
		env.Eval("C19.rejected-free")
		if !wantRej {
			env.Violate("C19.rejected-free", "spurious-reject", "multi-message tx rejected although every message passes every admission check: "+log, w.hist)
		}
		if w.digest() != digB {
			env.Violate("C19.failed-no-state", "failed-state-change", "rejected multi-message tx changed the restaking/evm stores", w.hist)
		}
	case "apperr", "blockgas":
		// the whole tx failed after its ante effects: every message is charged its whole gas limit, nothing else changes
		env.Eval("C19.fee-exact")
		if !wantErr || wantRej {
			env.Violate("C19.fee-exact", "multi-apperr", fmt.Sprintf("multi-message tx of executable messages failed as a whole (%s) after its ante effects", log), w.hist)
		}
		env.Eval("C19.failed-no-state")
		if w.digest() != digB {
			env.Violate("C19.failed-no-state", "failed-state-change", "failed multi-message tx changed the restaking/evm stores", w.hist)
		}
		total := uint64(0)
		for _, p := range parts {
			fee := new(big.Int).Mul(p.s.FeeCap, new(big.Int).SetUint64(p.s.GasLimit))
			want[p.from.id].Sub(want[p.from.id], fee)
			want[0].Add(want[0], fee)
			wantSeq[p.from.id]++
			total += p.s.GasLimit
		}
		env.Eval("C19.reported-gas")
		if uint64(res.GasUsed) != total {
			env.Violate("C19.reported-gas", "reported-gas:multi", fmt.Sprintf("failed multi-message tx: DeliverTx reports gas_used=%d but the senders were charged for %d gas in total", res.GasUsed, total), w.hist)
		}
	default:
		if wantRej {
			env.Violate("C19.nonce", "nonce", "multi-message tx with a nonce gap was included", w.hist)
		}
		total := uint64(0)
		for i, p := range parts {
			er := ers[i]
			lim := new(big.Int).SetUint64(p.s.GasLimit)
			g := new(big.Int).SetUint64(er.GasUsed)
			minG := w.mult.MulInt(sdk.NewIntFromBigInt(lim)).TruncateInt().BigInt()
			env.Eval("C19.fee-exact")
			if g.Cmp(lim) > 0 || g.Cmp(minG) < 0 {
				env.Violate("C19.fee-exact", "gas-bounds", fmt.Sprintf("multi-message tx, message %d: gas used %s outside [%s,%s]", i, g, minG, lim), w.hist)
			}
			fee := new(big.Int).Mul(g, p.s.FeeCap)
			want[p.from.id].Sub(want[p.from.id], fee)
			want[0].Add(want[0], fee)
			mclass := "vmfail"
			if !er.Failed() {
				mclass = "ok"
				want[p.from.id].Sub(want[p.from.id], p.s.Value)
				want[p.recip.id].Add(want[p.recip.id], p.s.Value)
				if p.s.To == nil {
					created[p.recip.id] = true
				}
			}
			wantSeq[p.from.id]++
			total += er.GasUsed
			env.Outcome("multi:" + p.kind + ":" + mclass)
			if refOK {
				w.refCheckExec(refs[i], mclass, er.GasUsed, p.s, fmt.Sprintf("multi-message tx, message %d: ", i))
			}
		}
		// the gas figure reported for the tx (and fed into the block gas meter) is the sum of its messages' gas
		env.Eval("C19.reported-gas")
		if uint64(res.GasUsed) != total {
			env.Violate("C19.reported-gas", "reported-gas:multi", fmt.Sprintf("multi-message tx: DeliverTx reports gas_used=%d (also what the block gas meter is charged) but the senders were charged for %d gas in total", res.GasUsed, total), w.hist)
		}
		env.DistinctKey("multi/" + strings.Join(kinds, "/"))
	}
	if class != "rej" {
		for i, a := range w.accts {
			if d := new(big.Int).Sub(balA[i], balB[i]); d.Cmp(want[i]) != 0 {
				env.Violate("C19.fee-exact", "fee-exact", fmt.Sprintf("multi-message tx (%s): balance of %s changed by %s, want %s", class, a.name, d, want[i]), w.hist)
			}
			env.Eval("C19.nonce")
			if !created[i] && seqA[i] != wantSeq[i] {
				sig := "nonce"
				if class == "ok" && evmCreateThenOther(parts, ers, i) {
					sig = "nonce-batch-create" // F-19d
				}
				env.Violate("C19.nonce", sig, fmt.Sprintf("multi-message tx (%s): nonce of %s is %d after %d included Ethereum transactions of it, want %d", class, a.name, seqA[i], wantSeq[i]-seqB[i], wantSeq[i]), w.hist)
			}
		}
	}
	w.refCheckState("multi:" + class)
}

// evmCreateThenOther: the last SUCCESSFUL contract creation account `id` sends in the cosmos tx is followed by another
// message of it (the shape of F-19d, repaired in e39c03d: the creation reset the nonce the ante handler had advanced for
// the later messages; a nonce shortfall of that shape keeps the finding's sig so that a re-introduction is recognised).
func evmCreateThenOther(parts []evmPart, ers []evmtypes.MsgEthereumTxResponse, id int) bool {
	lastCreate, last := -1, -1
	for i, p := range parts {
		if p.from.id != id {
			continue
		}
		last = i
		if p.s.To == nil && i < len(ers) && !ers[i].Failed() {
			lastCreate = i
		}
	}
	return lastCreate >= 0 && lastCreate < last
}
