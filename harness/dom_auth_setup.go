package main

// C10 (auth domain) — setup fallback. The gateway group first makes the stateful payloads
// (withdraw, undelegate, …) satisfiable by a deposit / NST deposit / delegation through the
// gateway. When the code under check refuses the gateway itself (e.g. an inverted caller check),
// the harness must not stop: the same positions are created through the keepers, and the product
// entry point x identity that follows shows every wrong caller that is admitted as a violation
// with a concrete replay (and every refused gateway row as a model difference).

import (
	"math/big"

	sdkmath "cosmossdk.io/math"
	"github.com/ethereum/go-ethereum/common/hexutil"
	sdk "github.com/cosmos/cosmos-sdk/types"

	assetskeeper "github.com/ExocoreNetwork/exocore/x/assets/keeper"
	assetstypes "github.com/ExocoreNetwork/exocore/x/assets/types"
	delegationtypes "github.com/ExocoreNetwork/exocore/x/delegation/types"
)

func (h *authH) setupByKeeper(what string, staker Actor) {
	c := h.c
	usdt := hexToBytes(c.Cfg.Assets[0].Addr)
	var err error
	switch what {
	case "depositLST":
		err = c.CachedDo(func(ctx sdk.Context) error {
			return c.App.AssetsKeeper.PerformDepositOrWithdraw(ctx, &assetskeeper.DepositWithdrawParams{
				ClientChainLzID: c.LzID, Action: assetstypes.DepositLST, StakerAddress: staker.Eth.Bytes(), AssetsAddress: usdt,
				OpAmount: sdkmath.NewInt(500_000_000)})
		})
	case "depositNST":
		amt := sdkmath.NewIntFromBigInt(new(big.Int).Mul(big.NewInt(64), big.NewInt(1e18)))
		err = c.CachedDo(func(ctx sdk.Context) error {
			if err := c.App.AssetsKeeper.PerformDepositOrWithdraw(ctx, &assetskeeper.DepositWithdrawParams{
				ClientChainLzID: c.LzID, Action: assetstypes.DepositNST, StakerAddress: staker.Eth.Bytes(), AssetsAddress: hexToBytes(nstAddrHex),
				OpAmount: amt, ValidatorPubkey: []byte("vpk-0")}); err != nil {
				return err
			}
			return c.App.OracleKeeper.UpdateNSTValidatorListForStaker(ctx, AssetIDOf(c.LzID, nstAddrHex), hexutil.Encode(staker.Eth.Bytes()),
				hexutil.Encode([]byte("vpk-0")), amt)
		})
	case "delegate":
		err = c.CachedDo(func(ctx sdk.Context) error {
			return c.App.DelegationKeeper.DelegateTo(ctx, &delegationtypes.DelegationOrUndelegationParams{
				ClientChainID: c.LzID, Action: assetstypes.DelegateTo, AssetsAddress: usdt, OperatorAddress: c.Operators[0].Acc,
				StakerAddress: staker.Eth.Bytes(), OpAmount: sdkmath.NewInt(100_000_000), LzNonce: 1})
		})
	}
	if err != nil {
		h.env.Note("gateway-setup-by-keeper-failed:" + what)
	}
}
