package main

// C18 — genesis export and re-import reproduce the chain.
//
// Builds non-trivial states on the real app through the keepers (deposits, delegations, pending
// undelegations held by x/dogfood, consensus-key replacements, opt-outs in progress, several epochs), then
//   export  : app.ExportAppStateAndValidators (all modules)            -> exported document
//   validate: GenesisState.Validate of the eight modules of C18
//   import  : fresh ExocoreApp, InitChain(exported document, initial height = exported height)
//   compare : (a) second export == first export (JSON per module)
//             (b) byte-level dump of every module store, original (committed state) vs re-imported
//             (c) both chains run the same further blocks: validator updates, store dumps, undelegation
//                 records and hold counts must agree block by block
// The canonical observations are replayed by the Lean model (Driver/Genesis.lean): the cross-module core and the four
// x/assets stores (dom_genesis_assets.go: verdict of the module's Validate + re-imported stores, entry by entry);
// oracle, mint and fee-distribution have Lean models tied by regenerated facts and are compared here by JSON / store dumps.

import (
	"encoding/hex"
	"encoding/json"
	"fmt"
	"sort"
	"strings"
	"time"

	sdkmath "cosmossdk.io/math"
	abci "github.com/cometbft/cometbft/abci/types"
	pruningtypes "github.com/cosmos/cosmos-sdk/store/pruning/types"
	sdk "github.com/cosmos/cosmos-sdk/types"
	"github.com/ethereum/go-ethereum/common"

	tmproto "github.com/cometbft/cometbft/proto/tendermint/types"

	exocoreapp "github.com/ExocoreNetwork/exocore/app"
	assetskeeper "github.com/ExocoreNetwork/exocore/x/assets/keeper"
	assetstypes "github.com/ExocoreNetwork/exocore/x/assets/types"
	avstypes "github.com/ExocoreNetwork/exocore/x/avs/types"
	delegationtypes "github.com/ExocoreNetwork/exocore/x/delegation/types"
	dogfoodtypes "github.com/ExocoreNetwork/exocore/x/dogfood/types"
	epochstypes "github.com/ExocoreNetwork/exocore/x/epochs/types"
	exominttypes "github.com/ExocoreNetwork/exocore/x/exomint/types"
	distributiontypes "github.com/ExocoreNetwork/exocore/x/feedistribution/types"
	operatortypes "github.com/ExocoreNetwork/exocore/x/operator/types"
	"github.com/ExocoreNetwork/exocore/x/oracle"
	oracletypes "github.com/ExocoreNetwork/exocore/x/oracle/types"
)

func init() { register("genesis", domGenesis) }

// the eight modules of C18: genesis key -> store key
var c18Modules = []string{"assets", "delegation", "operator", "dogfood", "epochs", "oracle", "exomint", "feedistribution"}

// every module except the IBC stack (its export panics on the test genesis: client params never set)
var exportModules = []string{"auth", "bank", "feegrant", "authz", "feemarket", "epochs", "evm", "exomint", "assets", "avs", "operator",
	"delegation", "dogfood", "slashing", "evidence", "gov", "erc20", "oracle", "params", "vesting", "consensus", "upgrade", "reward",
	"exoslash", "feedistribution", "crisis"}

type genWorld struct {
	c         *Chain
	env       *Env
	rng       *RNG
	hist      []string
	stakers   []common.Address
	nonce     uint64
	nextKey   int
	nextChain int
	contStep  time.Duration // directed scenarios: block time step of the lock-step continuation (0 = one second)
	optOut    map[int]bool  // operators that started an opt-out
	directed  string
	avs2      string        // a second, non-chain AVS (registered lazily) that operators opt into and out of
	inAVS2    map[int]bool  // operators currently opted into avs2
	asset     int           // index (Cfg.Assets) of the asset deposit / withdraw / delegate act on
	nextOp    int           // operators registered during the history (dom_genesis_boundary.go)
	selfUnd   map[int]int64 // what a genesis operator undelegated of its own genesis stake
	lastOp    operatorView  // the operator module as read before the last export
	jailed    map[int]bool  // operators currently jailed for the chain (dom_genesis_jail.go)
	isRandom  bool          // a history of the random stream (not a directed / boundary scenario)
	alignDue  int           // 1 / 2: runOne runs on until the import height is the earliest completion height / one below (dom_genesis_due.go)

	// multi-asset world (dom_genesis_multi.go): three LSTs with genesis holders
	multi   bool
	genFree map[[2]int]int64 // withdrawable genesis holdings per (staker, asset)
}

func (w *genWorld) op(op, obs string) {
	w.env.Op(op, obs)
	w.hist = append(w.hist, op)
}

// note records a driving keeper call in the history attached to violations (not an op of the model driver)
func (w *genWorld) note(f string, a ...interface{}) {
	w.hist = append(w.hist, fmt.Sprintf("# h=%d ", w.c.Header.Height)+fmt.Sprintf(f, a...))
}

func (w *genWorld) assetAddr() []byte {
	return common.HexToAddress(w.c.Cfg.Assets[w.asset].Addr).Bytes()
}

func genErrClass(err error) string {
	if err == nil {
		return "ok"
	}
	if strings.HasPrefix(err.Error(), "panic:") {
		return "panic"
	}
	return "rej"
}

func (w *genWorld) deposit(si int, amt int64) error {
	c := w.c
	w.note("deposit staker=%d asset=%d amount=%d", si, w.asset, amt)
	return c.CachedDo(func(ctx sdk.Context) error {
		return c.App.AssetsKeeper.PerformDepositOrWithdraw(ctx, &assetskeeper.DepositWithdrawParams{
			ClientChainLzID: c.LzID, Action: assetstypes.DepositLST, AssetsAddress: w.assetAddr(),
			StakerAddress: w.stakers[si].Bytes(), OpAmount: sdkmath.NewInt(amt),
		})
	})
}

func (w *genWorld) withdraw(si int, amt int64) error {
	c := w.c
	w.note("withdraw staker=%d asset=%d amount=%d", si, w.asset, amt)
	return c.CachedDo(func(ctx sdk.Context) error {
		return c.App.AssetsKeeper.PerformDepositOrWithdraw(ctx, &assetskeeper.DepositWithdrawParams{
			ClientChainLzID: c.LzID, Action: assetstypes.WithdrawLST, AssetsAddress: w.assetAddr(),
			StakerAddress: w.stakers[si].Bytes(), OpAmount: sdkmath.NewInt(amt),
		})
	})
}

func (w *genWorld) delegate(si, oi int, amt int64, undelegate bool) error {
	c := w.c
	w.note("delegate staker=%d operator=%d asset=%d amount=%d undelegate=%v", si, oi, w.asset, amt, undelegate)
	w.nonce++
	p := &delegationtypes.DelegationOrUndelegationParams{
		ClientChainID: c.LzID, Action: assetstypes.DelegateTo, AssetsAddress: w.assetAddr(),
		OperatorAddress: c.Operators[oi].Acc, StakerAddress: w.stakers[si].Bytes(), OpAmount: sdkmath.NewInt(amt),
		LzNonce: w.nonce, TxHash: common.BytesToHash(detBytes(c.Cfg.Seed, "txhash", int(w.nonce))),
	}
	return c.CachedDo(func(ctx sdk.Context) error {
		if undelegate {
			p.Action = assetstypes.UndelegateFrom
			return c.App.DelegationKeeper.UndelegateFrom(ctx, p)
		}
		return c.App.DelegationKeeper.DelegateTo(ctx, p)
	})
}

// ensureAVS2 registers a task-type AVS owned by the funded account (hour epochs, first asset).
func (w *genWorld) ensureAVS2() error {
	if w.avs2 != "" {
		return nil
	}
	c := w.c
	addr := common.BytesToAddress(detBytes(c.Cfg.Seed, "avs2", 0)[:20]).String()
	err := c.CachedDo(func(ctx sdk.Context) error {
		return c.App.AVSManagerKeeper.UpdateAVSInfo(ctx, &avstypes.AVSRegisterOrDeregisterParams{
			AvsName: "second", AvsAddress: addr, SlashContractAddr: addr, RewardContractAddr: addr,
			AvsOwnerAddress: []string{c.Funded.Acc.String()}, AssetID: []string{c.AssetIDs[0]}, UnbondingPeriod: 2, MinSelfDelegation: 0,
			EpochIdentifier: c.Cfg.EpochID, MinOptInOperators: 1, MinTotalStakeAmount: 1, AvsReward: 10, AvsSlash: 10,
			CallerAddress: c.Funded.Acc.String(), Action: 1, // avskeeper.RegisterAction
		})
	})
	if err == nil {
		w.avs2 = addr
		w.inAVS2 = map[int]bool{}
	}
	return err
}

// optInOut opts operator oi into the second AVS and out again: in the same block (the opted-in and opted-out heights of
// the stored OptedInfo are then EQUAL and the entry is never deleted) or one block later (control).
func (w *genWorld) optInOut(oi int, sameBlock bool) (errIn, errOut error) {
	c := w.c
	if err := w.ensureAVS2(); err != nil {
		return err, nil
	}
	w.note("opt-in operator=%d avs=%s then opt-out sameBlock=%v", oi, w.avs2, sameBlock)
	if !w.inAVS2[oi] {
		errIn = c.CachedDo(func(ctx sdk.Context) error { return c.App.OperatorKeeper.OptIn(ctx, c.Operators[oi].Acc, w.avs2) })
		if errIn != nil {
			return errIn, nil
		}
		w.inAVS2[oi] = true
	}
	if !sameBlock {
		if r := c.EndAndBegin(time.Second); r.Halt != "" {
			return nil, fmt.Errorf("halt: %s", r.Halt)
		}
	}
	errOut = c.CachedDo(func(ctx sdk.Context) error { return c.App.OperatorKeeper.OptOut(ctx, c.Operators[oi].Acc, w.avs2) })
	if errOut == nil {
		w.inAVS2[oi] = false
	}
	return nil, errOut
}

func (w *genWorld) replaceKey(oi int) error {
	c := w.c
	w.note("replace-consensus-key operator=%d", oi)
	w.nextKey++
	k, _ := NewConsKey(c.Cfg.Seed, "newcons", w.nextKey)
	return c.CachedDo(func(ctx sdk.Context) error {
		return c.App.OperatorKeeper.SetOperatorConsKeyForChainID(ctx, c.Operators[oi].Acc, c.ChainIDNR, k)
	})
}

func (w *genWorld) optOutOp(oi int) error {
	c := w.c
	return c.CachedDo(func(ctx sdk.Context) error {
		return c.App.OperatorKeeper.OptOut(ctx, c.Operators[oi].Acc, c.AVSAddr)
	})
}

// committedCtx is the context of the last committed state (what ExportAppStateAndValidators reads)
func committedCtx(c *Chain) sdk.Context {
	return c.App.BaseApp.NewContext(true, c.Header).WithChainID(c.Cfg.ChainID)
}

// summary of the cross-module core that the Lean model tracks, read from a context
type coreSummary struct {
	Undelegations []string // recordKey@completeHeight:amount:hold
	OptOuts       []string // epoch:addr,addr
	Prunes        []string
	Matures       []string
	Vals          []string
	Power         string
}

func readCore(c *Chain, ctx sdk.Context) coreSummary {
	var s coreSummary
	recs, _ := c.App.DelegationKeeper.AllUndelegations(ctx)
	for _, r := range recs {
		key := delegationtypes.GetUndelegationRecordKey(r.BlockNumber, r.LzTxNonce, r.TxHash, r.OperatorAddr)
		s.Undelegations = append(s.Undelegations, fmt.Sprintf("%x@%d:%s:%d", sha8(key), r.CompleteBlockNumber, r.Amount, c.App.DelegationKeeper.GetUndelegationHoldCount(ctx, key)))
	}
	sort.Strings(s.Undelegations)
	st := ctx.KVStore(c.App.GetKey(dogfoodtypes.StoreKey))
	for _, q := range []struct {
		p   byte
		dst *[]string
	}{{dogfoodtypes.OptOutsToFinishBytePrefix, &s.OptOuts}, {dogfoodtypes.ConsensusAddrsToPruneBytePrefix, &s.Prunes}, {dogfoodtypes.UnbondingReleaseMaturityBytePrefix, &s.Matures}} {
		it := sdk.KVStorePrefixIterator(st, []byte{q.p})
		for ; it.Valid(); it.Next() {
			*q.dst = append(*q.dst, fmt.Sprintf("%d:%x", sdk.BigEndianToUint64(it.Key()[1:]), sha8(it.Value())))
		}
		it.Close()
	}
	for _, v := range c.App.StakingKeeper.GetAllExocoreValidators(ctx) {
		s.Vals = append(s.Vals, fmt.Sprintf("%x:%d", sha8(v.Address), v.Power))
	}
	sort.Strings(s.Vals)
	s.Power = c.App.StakingKeeper.GetLastTotalPower(ctx).String()
	return s
}

func sha8(b []byte) []byte {
	h := detHash(b)
	return h[:6]
}

func (s coreSummary) String() string {
	return fmt.Sprintf("und=[%s] opt=[%s] prune=[%s] mature=[%s] vals=[%s] power=%s", strings.Join(s.Undelegations, ","), strings.Join(s.OptOuts, ","),
		strings.Join(s.Prunes, ","), strings.Join(s.Matures, ","), strings.Join(s.Vals, ","), s.Power)
}

// validateModule runs the module's GenesisState.Validate on the exported JSON.
func validateModule(c *Chain, name string, raw json.RawMessage) error {
	cdc := c.App.AppCodec()
	switch name {
	case "assets":
		var g assetstypes.GenesisState
		if err := cdc.UnmarshalJSON(raw, &g); err != nil {
			return err
		}
		return g.Validate()
	case "delegation":
		var g delegationtypes.GenesisState
		if err := cdc.UnmarshalJSON(raw, &g); err != nil {
			return err
		}
		return g.Validate()
	case "operator":
		var g operatortypes.GenesisState
		if err := cdc.UnmarshalJSON(raw, &g); err != nil {
			return err
		}
		return g.Validate()
	case "dogfood":
		var g dogfoodtypes.GenesisState
		if err := cdc.UnmarshalJSON(raw, &g); err != nil {
			return err
		}
		return g.Validate()
	case "epochs":
		var g epochstypes.GenesisState
		if err := cdc.UnmarshalJSON(raw, &g); err != nil {
			return err
		}
		return g.Validate()
	case "oracle":
		var g oracletypes.GenesisState
		if err := cdc.UnmarshalJSON(raw, &g); err != nil {
			return err
		}
		return g.Validate()
	case "exomint":
		var g exominttypes.GenesisState
		if err := cdc.UnmarshalJSON(raw, &g); err != nil {
			return err
		}
		return g.Validate()
	case "feedistribution":
		var g distributiontypes.GenesisState
		if err := cdc.UnmarshalJSON(raw, &g); err != nil {
			return err
		}
		return g.Validate()
	}
	return fmt.Errorf("unknown module %s", name)
}

// importChain boots a fresh app from an exported document; the new chain is left after BeginBlock of the
// block the original chain is currently in (same height, same time).
func importChain(orig *Chain, appState json.RawMessage, height int64, rows []delegRow) (c2 *Chain, post postInit, err error) {
	defer func() {
		if r := recover(); r != nil {
			s := fmt.Sprint(r)
			if len(s) > 400 {
				s = s[:400]
			}
			err = fmt.Errorf("panic: %s", strings.ReplaceAll(s, "\n", " "))
		}
	}()
	pruneOpts := pruningtypes.NewPruningOptionsFromString(pruningtypes.PruningOptionDefault)
	appI, defGenesis := exocoreapp.SetupTestingApp(orig.Cfg.ChainID, &pruneOpts, false)()
	app := appI.(*exocoreapp.ExocoreApp)
	// modules that are not exported (IBC stack, capability, genutil) keep their default genesis
	var exported map[string]json.RawMessage
	if err := json.Unmarshal(appState, &exported); err != nil {
		return nil, post, err
	}
	for k, v := range exported {
		defGenesis[k] = v
	}
	appState, err = json.Marshal(defGenesis)
	if err != nil {
		return nil, post, err
	}
	c2 = &Chain{Cfg: orig.Cfg, App: app, Operators: orig.Operators, ConsKeys: orig.ConsKeys, ConsPrivs: orig.ConsPrivs,
		Funded: orig.Funded, AssetIDs: orig.AssetIDs, LzID: orig.LzID, AVSAddr: orig.AVSAddr, ChainIDNR: orig.ChainIDNR}
	// genesis time: the time of the last committed block (what a node operator would put into genesis.json)
	initRes := app.InitChain(abci.RequestInitChain{
		Time: orig.Header.Time, ChainId: orig.Cfg.ChainID, Validators: []abci.ValidatorUpdate{},
		ConsensusParams: exocoreapp.DefaultConsensusParams, AppStateBytes: appState, InitialHeight: height,
	})
	c2.Header = orig.Header
	// state right after InitChain (deliver state, nothing committed yet): second export and store dumps
	ictx := app.BaseApp.NewContext(false, tmprotoHeaderAt(orig, height-1)).WithChainID(orig.Cfg.ChainID)
	post.exports = exportModulesCtx(c2, ictx)
	post.view = viewCore(c2, ictx)
	post.assets = viewAssets(c2, ictx)
	post.operator = viewOperator(c2, ictx)
	post.params = viewParams(c2, ictx)
	post.pools = poolsObs(c2, ictx, rows) // the delegation rows of the ORIGINAL chain, answered by the re-imported one
	post.queries = genQueries(c2, ictx)
	post.valset = viewValset(c2, ictx)
	post.valset.init = initValidators(initRes.Validators) // what the consensus engine is given as the initial validator set
	post.dumps = map[string][]string{}
	for _, m := range c18Modules {
		post.dumps[m] = StoreDumpCtx(c2, ictx, m)
	}
	app.BeginBlock(abci.RequestBeginBlock{Header: c2.Header})
	c2.Ctx = app.BaseApp.NewContext(false, c2.Header)
	return c2, post, nil
}

type postInit struct {
	view     coreView
	assets   assetsView
	operator operatorView
	params   paramsView
	pools    string
	queries  map[string]string
	valset   valsetView
	exports  map[string]string
	dumps    map[string][]string
}

func tmprotoHeaderAt(orig *Chain, h int64) tmproto.Header {
	hd := orig.Header
	hd.Height = h
	return hd
}

// exportModulesCtx calls the eight modules' ExportGenesis on a context and returns canonical JSON per module.
func exportModulesCtx(c *Chain, ctx sdk.Context) (out map[string]string) {
	out = map[string]string{}
	cdc := c.App.AppCodec()
	do := func(name string, f func() []byte) {
		defer func() {
			if r := recover(); r != nil {
				out[name] = fmt.Sprintf("<export panic: %.200v>", r)
			}
		}()
		out[name] = canonJSON(f())
	}
	do("assets", func() []byte { return cdc.MustMarshalJSON(c.App.AssetsKeeper.ExportGenesis(ctx)) })
	do("delegation", func() []byte { return cdc.MustMarshalJSON(c.App.DelegationKeeper.ExportGenesis(ctx)) })
	do("operator", func() []byte { return cdc.MustMarshalJSON(c.App.OperatorKeeper.ExportGenesis(ctx)) })
	do("dogfood", func() []byte { return cdc.MustMarshalJSON(c.App.StakingKeeper.ExportGenesis(ctx)) })
	do("epochs", func() []byte { return cdc.MustMarshalJSON(c.App.EpochsKeeper.ExportGenesis(ctx)) })
	do("oracle", func() []byte { return cdc.MustMarshalJSON(oracle.ExportGenesis(ctx, c.App.OracleKeeper)) })
	do("exomint", func() []byte { return cdc.MustMarshalJSON(c.App.ExomintKeeper.ExportGenesis(ctx)) })
	do("feedistribution", func() []byte { return cdc.MustMarshalJSON(c.App.DistrKeeper.ExportGenesis(ctx)) })
	return
}

func moduleJSON(appState json.RawMessage) (map[string]json.RawMessage, error) {
	var m map[string]json.RawMessage
	err := json.Unmarshal(appState, &m)
	return m, err
}

func canonJSON(raw json.RawMessage) string {
	var v interface{}
	if err := json.Unmarshal(raw, &v); err != nil {
		return string(raw)
	}
	b, _ := json.Marshal(v)
	return string(b)
}

type roundTripResult struct {
	validateErr map[string]string
	importErr   string
	jsonDiff    []string // modules whose second export differs
	jsonWhere   []string
	storeDiff   map[string][]string
	contDiff    []string
	c2          *Chain
	post        coreView
	postAssets  assetsView
	postOp      operatorView
	postParams  paramsView
	postPools   string
	postValset  valsetView
	queryDiff   []string // readers that walk the delegation rows: questions the two chains answer differently
}

// describeKey renders a differing store key of a module for the report: prefix byte + length
func describeKeys(ks []string) string {
	var out []string
	for _, k := range ks {
		b, err := hex.DecodeString(k[1:])
		if err != nil || len(b) == 0 {
			out = append(out, k)
			continue
		}
		s := fmt.Sprintf("%c[%02x|%d]", k[0], b[0], len(b))
		out = append(out, s)
	}
	return strings.Join(out, " ")
}

// roundTrip performs export -> validate -> import -> export -> compare, and runs both chains further.
func (w *genWorld) roundTripWith(contBlocks int, directed bool) (res roundTripResult) {
	c := w.c
	res.validateErr = map[string]string{}
	res.storeDiff = map[string][]string{}
	// the app-wide export runs the modules' ExportGenesis in a goroutine of its own, where a panic cannot be recovered:
	// each of the eight modules is exported on the committed state under recover() first
	pre := exportModulesCtx(c, committedCtx(c))
	for _, m := range c18Modules {
		if strings.HasPrefix(pre[m], "<export panic:") {
			res.importErr = "export: ExportGenesis of module " + m + " panicked on the committed state: " + pre[m]
			return
		}
	}
	exp, err := func() (e struct {
		AppState json.RawMessage
		Height   int64
	}, err error) {
		defer func() {
			if r := recover(); r != nil {
				err = fmt.Errorf("panic: %v", r)
			}
		}()
		x, err := c.App.ExportAppStateAndValidators(false, nil, exportModules)
		e.AppState = x.AppState
		e.Height = x.Height
		return e, err
	}()
	if err != nil {
		res.importErr = "export: " + err.Error()
		return
	}
	mods, err := moduleJSON(exp.AppState)
	if err != nil {
		res.importErr = "export json: " + err.Error()
		return
	}
	for _, m := range c18Modules {
		if err := validateModuleSafe(c, m, mods[m]); err != nil {
			res.validateErr[m] = err.Error()
		}
	}
	rows := viewDelegs(c, committedCtx(c))
	c2, post, err := importChain(c, exp.AppState, exp.Height, rows)
	if err != nil {
		res.importErr = err.Error()
		return
	}
	res.postPools = post.pools
	res.postValset = post.valset
	res.queryDiff = diffQueries(genQueries(c, committedCtx(c)), post.queries, "right after the import")
	res.c2 = c2
	res.post = post.view
	res.postAssets = post.assets
	res.postOp = post.operator
	res.postParams = post.params
	// second export (state right after InitChain) against the first one, module by module
	for _, m := range c18Modules {
		if a, b := canonJSON(mods[m]), post.exports[m]; a != b {
			i := 0
			for i < len(a) && i < len(b) && a[i] == b[i] {
				i++
			}
			lo := max(0, i-80)
			res.jsonDiff = append(res.jsonDiff, m)
			res.jsonWhere = append(res.jsonWhere, fmt.Sprintf("%s: first …%s… second …%s…", m, a[lo:min(len(a), i+60)], b[lo:min(len(b), i+60)]))
		}
	}
	// byte-level: committed state of the original vs the state right after InitChain of the copy
	ctx1 := committedCtx(c)
	for _, m := range c18Modules {
		d := DiffDumps(canonDump(m, StoreDumpCtx(c, ctx1, m)), canonDump(m, post.dumps[m]), 400)
		if len(d) > 0 {
			res.storeDiff[m] = d
		}
	}
	// continued behaviour
	coreReported := false
	pend1, pend2 := len(readCore(c, c.Ctx).OptOuts), len(readCore(c2, c2.Ctx).OptOuts)
	done1, done2 := -1, -1
	for b := 0; b < contBlocks; b++ {
		d := time.Duration(1+w.rng.Intn(3)) * EpochDuration(c.Cfg.EpochID) / 2
		if directed {
			d = time.Second // heights pass the completion height before the unbonding epochs do
			if w.contStep != 0 {
				d = w.contStep
			}
		}
		r1 := c.EndAndBegin(d)
		r2 := c2.EndAndBegin(d)
		if r1.Halt != r2.Halt {
			res.contDiff = append(res.contDiff, fmt.Sprintf("block+%d halt %q vs %q", b, r1.Halt, r2.Halt))
			break
		}
		if r1.Halt != "" {
			break
		}
		if u1, u2 := fmtUpdates(r1.End.ValidatorUpdates), fmtUpdates(r2.End.ValidatorUpdates); u1 != u2 {
			res.contDiff = append(res.contDiff, fmt.Sprintf("block+%d validator updates %s vs %s", b, u1, u2))
		}
		k1, k2 := readCore(c, c.Ctx), readCore(c2, c2.Ctx)
		if pend1 > 0 && done1 < 0 && len(k1.OptOuts) == 0 {
			done1 = b
		}
		if pend2 > 0 && done2 < 0 && len(k2.OptOuts) == 0 {
			done2 = b
		}
		if len(k2.Undelegations) < len(k1.Undelegations) {
			res.contDiff = append(res.contDiff, fmt.Sprintf("block+%d (height %d): the re-imported chain released %d undelegation(s) that the original chain still holds for x/dogfood (original %v, re-imported %v)",
				b, c.Header.Height, len(k1.Undelegations)-len(k2.Undelegations), k1.Undelegations, k2.Undelegations))
			break
		}
		if k1.Power != k2.Power || strings.Join(k1.Vals, ",") != strings.Join(k2.Vals, ",") {
			res.contDiff = append(res.contDiff, fmt.Sprintf("block+%d validator set differs: %v/%s vs %v/%s", b, k1.Vals, k1.Power, k2.Vals, k2.Power))
		}
		s1 := k1.String()
		s2 := k2.String()
		if s1 != s2 && !coreReported {
			coreReported = true
			res.contDiff = append(res.contDiff, fmt.Sprintf("block+%d core state differs: original {%s} reimported {%s}", b, s1, s2))
		}
	}
	if c.Halted == "" && c2.Halted == "" && len(res.queryDiff) == 0 {
		res.queryDiff = diffQueries(genQueries(c, c.Ctx), genQueries(c2, c2.Ctx), fmt.Sprintf("after %d further blocks on both chains", contBlocks))
	}
	if (pend1 > 0 || pend2 > 0) && done1 != done2 {
		f := func(d int) string {
			if d < 0 {
				return "not within the run"
			}
			return fmt.Sprintf("in block+%d", d)
		}
		res.contDiff = append([]string{fmt.Sprintf("the pending opt-out completes %s on the original chain and %s on the re-imported chain", f(done1), f(done2))}, res.contDiff...)
	}
	return
}

func fmtUpdates(us []abci.ValidatorUpdate) string {
	var out []string
	for _, u := range us {
		out = append(out, fmt.Sprintf("%x:%d", sha8(u.PubKey.GetEd25519()), u.Power))
	}
	sort.Strings(out)
	return strings.Join(out, ",")
}

// canonDump drops entries that read the same as an absent key: a zero undelegation hold count (x/delegation prefix 6;
// DecrementUndelegationHoldCount leaves the key with value 0, GetUndelegationHoldCount reads a missing key as 0).
func canonDump(module string, dump []string) []string {
	if module != "delegation" {
		return dump
	}
	out := dump[:0:0]
	for _, l := range dump {
		if strings.HasPrefix(l, "06") && strings.HasSuffix(l, "=0000000000000000") {
			continue
		}
		out = append(out, l)
	}
	return out
}
