package main

// C08 — "the same block gives byte-identical tx result codes / data / gas on every execution", for
// messages that carry a LIST of entries executed one after another with "fail all if one fails"
// (x/delegation MsgDelegation / MsgUndelegation: BaseInfo.PerOperatorAmounts, a repeated field).
// The result of such a message (error code of the first failing entry, gas consumed up to it) is a
// function of the message only as long as the entries are executed in MESSAGE order; any detour
// through a Go map makes code and gas depend on the iteration schedule, while the committed state of a
// successful message can stay the same (that is why ordinary tests do not see it).
//
// This file holds
//   * the generator of multi-operator entry lists (mostly valid; one / two failing entries of
//     different kinds at a random position; duplicates; boundary amounts), shared with the block
//     sequences of the `determinism` domain (dom_determinism.go, case 1),
//   * the repeat monitor C08.repeat: the same message on the same state, executed R times through the
//     real message router on fresh branches of the deliver state with fresh gas meters, must give the
//     same (codespace, code, gas used, events, store writes) every time (Go draws a new iteration
//     schedule for every `range` over a map, so R executions sample R schedules),
//   * the domain `determinism_msgorder`: native-token stakers send multi-operator MsgDelegation /
//     MsgUndelegation as real signed transactions (DeliverTx); every message is first put through the
//     repeat monitor, then delivered, and the Lean model (Model/MsgOrder over Model/Ledger: entries in
//     message order, first failing entry decides the error, nothing kept on failure) must reproduce the
//     error name and the complete ledger state after every message and every block (driver MsgOrder).

import (
	"crypto/sha256"
	"encoding/hex"
	"fmt"
	"math/big"
	"sort"
	"strings"
	"time"

	errorsmod "cosmossdk.io/errors"
	sdkmath "cosmossdk.io/math"
	sdk "github.com/cosmos/cosmos-sdk/types"
	sdkerrors "github.com/cosmos/cosmos-sdk/types/errors"
	authtypes "github.com/cosmos/cosmos-sdk/x/auth/types"
	banktypes "github.com/cosmos/cosmos-sdk/x/bank/types"
	stakingtypes "github.com/cosmos/cosmos-sdk/x/staking/types"
	"github.com/ethereum/go-ethereum/common"
	"github.com/ethereum/go-ethereum/common/hexutil"

	assetstypes "github.com/ExocoreNetwork/exocore/x/assets/types"
	delegationtypes "github.com/ExocoreNetwork/exocore/x/delegation/types"
	dogfoodtypes "github.com/ExocoreNetwork/exocore/x/dogfood/types"
	operatortypes "github.com/ExocoreNetwork/exocore/x/operator/types"
)

func init() { register("determinism_msgorder", domDetMsgOrder) }

// ---- generator -------------------------------------------------------------------------------------

// entryEnv is what the generator needs to know about the state to aim at the boundaries.
type entryEnv struct {
	registered []sdk.AccAddress                 // operators the message can name successfully
	unknown    []sdk.AccAddress                 // valid addresses that are not operators
	balance    *big.Int                         // spendable native balance of the sender (after the fee)
	delegated  func(op sdk.AccAddress) *big.Int // the sender's undelegatable native amount at op (nil/0 = none)
}

type entryShape struct {
	n         int
	failing   int  // entries built to fail
	kinds     int  // distinct failure kinds among them
	duplicate bool // an operator named twice
	firstFail int  // position of the first entry built to fail (-1 = none)
}

func (s entryShape) String() string {
	pos := "none"
	switch {
	case s.firstFail == 0 && s.n > 1:
		pos = "first"
	case s.firstFail == s.n-1 && s.n > 1:
		pos = "last"
	case s.firstFail > 0:
		pos = "middle"
	case s.firstFail == 0:
		pos = "only"
	}
	return fmt.Sprintf("n=%d failing=%d kinds=%d dup=%v at=%s", s.n, s.failing, s.kinds, s.duplicate, pos)
}

// genPerOperatorAmounts builds the repeated field of a MsgDelegation (undel=false) / MsgUndelegation.
// Mostly valid: 6/13 all entries valid, 4/13 exactly one failing entry, 2/13 two failing entries of
// different kinds (the reported error then depends on which one is met first), 1/13 free mix.
func genPerOperatorAmounts(rng *RNG, ee entryEnv, undel bool) ([]delegationtypes.KeyValue, entryShape) {
	n := []int{1, 2, 3, 4, 5, 6, 7, 8}[rng.Pick(2, 4, 3, 2, 1, 1, 1, 2)]
	plan := rng.Pick(6, 4, 2, 1)
	type ent struct {
		op   sdk.AccAddress
		amt  sdkmath.Int
		fail string
	}
	small := func() sdkmath.Int {
		switch rng.Pick(6, 1, 1) {
		case 1:
			return sdkmath.NewInt(1)
		case 2:
			return sdkmath.NewIntWithDecimal(int64(1+rng.Intn(9)), 6+rng.Intn(7))
		}
		return sdkmath.NewInt(int64(1 + rng.Intn(1000)))
	}
	position := func(op sdk.AccAddress) *big.Int {
		if ee.delegated == nil {
			return new(big.Int)
		}
		if d := ee.delegated(op); d != nil {
			return d
		}
		return new(big.Int)
	}
	// valid entries name distinct operators as long as there are enough of them and stay, summed up,
	// inside the sender's position (undelegation)
	start := rng.Intn(len(ee.registered))
	var posOps []sdk.AccAddress
	left := map[string]*big.Int{}
	if undel {
		for k := range ee.registered {
			op := ee.registered[(start+k)%len(ee.registered)]
			if p := position(op); p.Sign() > 0 {
				posOps = append(posOps, op)
				left[op.String()] = new(big.Int).Set(p)
			}
		}
	}
	valid := func(i int) ent {
		if undel {
			if len(posOps) == 0 {
				return ent{ee.registered[(start+i)%len(ee.registered)], small(), "no-position"}
			}
			op := posOps[i%len(posOps)]
			p := left[op.String()]
			if p.Sign() <= 0 {
				return ent{op, small(), "too-much"}
			}
			a := small()
			if a.BigInt().Cmp(p) > 0 || rng.Chance(1, 8) { // boundary: all that is left of the position
				a = sdkmath.NewIntFromBigInt(p)
			}
			left[op.String()] = new(big.Int).Sub(p, a.BigInt())
			return ent{op, a, ""}
		}
		return ent{ee.registered[(start+i)%len(ee.registered)], small(), ""}
	}
	failing := func(kind int) ent {
		switch kind % 2 {
		case 0: // not an operator
			return ent{ee.unknown[rng.Intn(len(ee.unknown))], small(), "not-operator"}
		default: // above the balance / above the position: just above, or far above
			op := ee.registered[rng.Intn(len(ee.registered))]
			base := ee.balance
			if undel {
				base = position(op)
			}
			if base == nil {
				base = new(big.Int)
			}
			over := new(big.Int).Add(base, big.NewInt(1))
			if rng.Chance(1, 3) {
				over = new(big.Int).Lsh(big.NewInt(1), uint(64+rng.Intn(130)))
				over.Add(over, base)
			}
			return ent{op, sdkmath.NewIntFromBigInt(over), "too-much"}
		}
	}
	es := make([]ent, 0, n)
	for i := 0; i < n; i++ {
		es = append(es, valid(i))
	}
	put := func(e ent) {
		es[rng.Intn(len(es))] = e
	}
	switch plan {
	case 1:
		put(failing(rng.Intn(2)))
	case 2:
		if n >= 2 {
			i := rng.Intn(n)
			j := (i + 1 + rng.Intn(n-1)) % n
			es[i] = failing(0)
			es[j] = failing(1)
		} else {
			put(failing(rng.Intn(2)))
		}
	case 3:
		for i := range es {
			if rng.Chance(1, 3) {
				es[i] = failing(rng.Intn(2))
			}
		}
	}
	shape := entryShape{n: n, firstFail: -1}
	if n >= 2 && rng.Chance(1, 6) { // the same operator twice (ValidateBasic does not reject it)
		i := rng.Intn(n)
		j := (i + 1 + rng.Intn(n-1)) % n
		es[j].op = es[i].op
	}
	kinds := map[string]bool{}
	seen := map[string]bool{}
	kvs := make([]delegationtypes.KeyValue, 0, n)
	for i, e := range es {
		if e.fail != "" {
			shape.failing++
			kinds[e.fail] = true
			if shape.firstFail < 0 {
				shape.firstFail = i
			}
		}
		if seen[e.op.String()] {
			shape.duplicate = true
		}
		seen[e.op.String()] = true
		kvs = append(kvs, delegationtypes.KeyValue{Key: e.op.String(), Value: &delegationtypes.ValueField{Amount: e.amt}})
	}
	shape.kinds = len(kinds)
	return kvs, shape
}

// ---- repeat monitor -----------------------------------------------------------------------------------

type repeatOutcome struct {
	codespace string
	code      uint32
	gas       uint64
	events    string
	writes    string
	panicked  string
}

func (o repeatOutcome) result() string { return fmt.Sprintf("%s/%d", o.codespace, o.code) }
func (o repeatOutcome) String() string {
	return fmt.Sprintf("code=%s/%d gas=%d events=%s writes=%s%s", o.codespace, o.code, o.gas, o.events, o.writes, o.panicked)
}

// repeatStores: the stores a delegation / operator / bank message can write
var repeatStores = []string{assetstypes.StoreKey, delegationtypes.StoreKey, operatortypes.StoreKey, banktypes.StoreKey, authtypes.StoreKey, dogfoodtypes.StoreKey}

func storesDigest(c *Chain, ctx sdk.Context) string {
	h := sha256.New()
	for _, name := range repeatStores {
		key := c.App.GetKey(name)
		if key == nil {
			continue
		}
		it := ctx.WithGasMeter(sdk.NewInfiniteGasMeter()).KVStore(key).Iterator(nil, nil)
		for ; it.Valid(); it.Next() {
			h.Write(it.Key())
			h.Write([]byte{0})
			h.Write(it.Value())
			h.Write([]byte{1})
		}
		it.Close()
	}
	return hex.EncodeToString(h.Sum(nil)[:8])
}

// execOnBranch runs msg through the application's message router (the dispatch DeliverTx uses) on a
// fresh branch of the deliver state with a fresh finite gas meter, after `prep` did to the branch what
// the ante handler does before the messages run (fee, sequence). Nothing is written back.
func execOnBranch(c *Chain, bz []byte, msg sdk.Msg, gasLimit uint64, prep func(sdk.Context)) (o repeatOutcome) {
	cctx, _ := c.Ctx.CacheContext()
	if prep != nil {
		prep(cctx.WithGasMeter(sdk.NewInfiniteGasMeter()))
	}
	cctx = cctx.WithGasMeter(sdk.NewGasMeter(gasLimit)).WithTxBytes(bz).WithEventManager(sdk.NewEventManager())
	handler := c.App.MsgServiceRouter().Handler(msg)
	if handler == nil {
		o.panicked = " no-handler"
		return
	}
	var err error
	func() {
		defer func() {
			if r := recover(); r != nil {
				s := fmt.Sprint(r)
				if _, oog := r.(sdk.ErrorOutOfGas); oog {
					s = "out of gas"
				}
				o.panicked = " panic:" + tailStr(strings.ReplaceAll(s, "\n", " "), 60)
			}
		}()
		_, err = handler(cctx, msg)
	}()
	if err != nil {
		o.codespace, o.code, _ = errorsmod.ABCIInfo(err, false)
	}
	o.gas = cctx.GasMeter().GasConsumed()
	eh := sha256.New()
	for _, ev := range cctx.EventManager().Events() {
		eh.Write([]byte(ev.Type))
		for _, a := range ev.Attributes {
			eh.Write([]byte(a.Key))
			eh.Write([]byte{0})
			eh.Write([]byte(a.Value))
			eh.Write([]byte{1})
		}
	}
	o.events = hex.EncodeToString(eh.Sum(nil)[:6])
	if err == nil && o.panicked == "" {
		o.writes = storesDigest(c, cctx)
	}
	return
}

// repeatMonitor evaluates "same message, same state => same result" R times. It returns the first
// outcome (nil when the monitor could not run) and whether all agreed.
func repeatMonitor(env *Env, c *Chain, bz []byte, msg sdk.Msg, gasLimit uint64, prep func(sdk.Context), r int, what string, hist []string) (*repeatOutcome, bool) {
	if r < 2 {
		return nil, true
	}
	env.Eval("C08.repeat")
	first := execOnBranch(c, bz, msg, gasLimit, prep)
	counts := map[string]int{first.String(): 1}
	var other *repeatOutcome
	for i := 1; i < r; i++ {
		o := execOnBranch(c, bz, msg, gasLimit, prep)
		counts[o.String()]++
		if other == nil && o != first {
			oo := o
			other = &oo
		}
	}
	if other == nil {
		return &first, true
	}
	part := "writes"
	switch {
	case other.result() != first.result():
		part = "code"
	case other.gas != first.gas:
		part = "gas"
	case other.events != first.events:
		part = "events"
	case other.panicked != first.panicked:
		part = "panic"
	}
	var dist []string
	for k, v := range counts {
		dist = append(dist, fmt.Sprintf("%dx[%s]", v, k))
	}
	sort.Strings(dist)
	env.Violate("C08.repeat", "nondeterminism:repeat:"+part,
		fmt.Sprintf("%s executed %d times through the message router on fresh branches of the same deliver state gave %d different results: %s",
			what, r, len(counts), strings.Join(dist, " ")), hist)
	return &first, false
}

// describeMsg: type and, for the multi-entry messages, the entries in message order
func describeMsg(msg sdk.Msg) string {
	var info *delegationtypes.DelegationIncOrDecInfo
	switch m := msg.(type) {
	case *delegationtypes.MsgDelegation:
		info = m.BaseInfo
	case *delegationtypes.MsgUndelegation:
		info = m.BaseInfo
	}
	if info == nil {
		return sdk.MsgTypeURL(msg)
	}
	var parts []string
	for _, kv := range info.PerOperatorAmounts {
		parts = append(parts, kv.Key+":"+kv.Value.Amount.String())
	}
	return fmt.Sprintf("%s with entries [%s]", sdk.MsgTypeURL(msg), strings.Join(parts, " "))
}

// antePrep: the two effects of the ante handler a message handler can observe — the fee has left the
// sender's account and the sender's sequence has been incremented.
func antePrep(c *Chain, sender sdk.AccAddress, fee *big.Int) func(sdk.Context) {
	return func(ctx sdk.Context) {
		_ = c.App.BankKeeper.SendCoinsFromAccountToModule(ctx, sender, authtypes.FeeCollectorName,
			sdk.NewCoins(sdk.NewCoin(assetstypes.ExocoreAssetDenom, sdkmath.NewIntFromBigInt(fee))))
		if acc := c.App.AccountKeeper.GetAccount(ctx, sender); acc != nil {
			_ = acc.SetSequence(acc.GetSequence() + 1)
			c.App.AccountKeeper.SetAccount(ctx, acc)
		}
	}
}

// ---- error names ---------------------------------------------------------------------------------------

var msgOrderErrNames map[string]string

func msgOrderErrName(codespace string, code uint32) string {
	if msgOrderErrNames == nil {
		msgOrderErrNames = map[string]string{}
		for name, e := range map[string]*errorsmod.Error{
			"ErrNoKeyInTheStore": delegationtypes.ErrNoKeyInTheStore, "ErrOperatorIsFrozen": delegationtypes.ErrOperatorIsFrozen,
			"ErrOperatorNotExist": delegationtypes.ErrOperatorNotExist, "ErrAmountIsNotPositive": delegationtypes.ErrAmountIsNotPositive,
			"ErrDelegationAmountTooBig": delegationtypes.ErrDelegationAmountTooBig, "ErrDivisorIsZero": delegationtypes.ErrDivisorIsZero,
			"ErrInsufficientShares": delegationtypes.ErrInsufficientShares, "ErrInvalidCompletedHeight": delegationtypes.ErrInvalidCompletedHeight,
			"ErrInvalidAssetID":     delegationtypes.ErrInvalidAssetID,
			"ErrNoOperatorAssetKey": assetstypes.ErrNoOperatorAssetKey, "ErrNoStakerAssetKey": assetstypes.ErrNoStakerAssetKey,
			"ErrSubAmountIsMoreThanOrigin": assetstypes.ErrSubAmountIsMoreThanOrigin, "ErrNoClientChainAssetKey": assetstypes.ErrNoClientChainAssetKey,
			"ErrInsufficientFunds": sdkerrors.ErrInsufficientFunds, "ErrOutOfGas": sdkerrors.ErrOutOfGas,
		} {
			msgOrderErrNames[fmt.Sprintf("%s/%d", e.Codespace(), e.ABCICode())] = name
		}
	}
	if n, ok := msgOrderErrNames[fmt.Sprintf("%s/%d", codespace, code)]; ok {
		return n
	}
	return fmt.Sprintf("%s/%d", codespace, code)
}

// msgServerNonceAndHash: what x/delegation/keeper/msg_server.go derives for the params of one message:
// nonce = the sender's account sequence as the handler sees it, hash = sha256("<sha256(txBytes)>-<nonce>")
func msgServerNonceAndHash(bz []byte, seqAtHandler uint64) (uint64, common.Hash) {
	txHash := sha256.Sum256(bz)
	combined := fmt.Sprintf("%s-%d", txHash, seqAtHandler)
	return seqAtHandler, common.Hash(sha256.Sum256([]byte(combined)))
}

// ---- domain --------------------------------------------------------------------------------------------

type msgOrderWorld struct {
	c       *Chain
	env     *Env
	rng     *RNG
	hist    []string
	stakers []Actor
	regOps  []sdk.AccAddress
	unknown []sdk.AccAddress
}

func (w *msgOrderWorld) emit(op, obs string) {
	w.hist = append(w.hist, op)
	w.env.Op(op, obs)
}

func (w *msgOrderWorld) snap() *ledgerSnap {
	s, err := w.c.ledgerSnap()
	if err != nil {
		w.env.Violate("harness", "snap-error", err.Error(), w.hist)
		return &ledgerSnap{escrow: new(big.Int)}
	}
	return s
}

// emitLedgerInit hands the initial ledger to the model (the protocol of Driver/Ledger.lean).
func (w *msgOrderWorld) emitLedgerInit(s0 *ledgerSnap) {
	w.emit(fmt.Sprintf("ledger.reset %d %d", s0.height, operatortypes.UnbondingExpiration), "ok")
	for _, k := range sortedKeys(s0.totals) {
		w.emit(fmt.Sprintf("ledger.asset %s %s", k, s0.totals[k]), "ok")
	}
	for _, o := range w.regOps {
		w.emit("ledger.operator "+o.String(), "ok")
	}
	w.emit("ledger.chain "+hexutil.EncodeUint64(w.c.LzID), "ok")
	for _, k := range sortedKeys(s0.stakers) {
		f := strings.Split(k, "/")
		v := s0.stakers[k]
		w.emit(fmt.Sprintf("ledger.staker %s %s %s %s %s", f[0], f[1], v.total, v.withdrawable, v.pending), "ok")
	}
	for _, k := range sortedKeys(s0.pools) {
		f := strings.Split(k, "/")
		v := s0.pools[k]
		w.emit(fmt.Sprintf("ledger.pool %s %s %s %s %s %s", f[0], f[1], v.amount, v.pending, v.totalShare, v.opShare), "ok")
	}
	for _, k := range sortedKeys(s0.deleg) {
		f := strings.Split(k, "/")
		v := s0.deleg[k]
		w.emit(fmt.Sprintf("ledger.deleg %s %s %s %s %s", f[0], f[1], f[2], v.share, v.wait), "ok")
	}
	for _, k := range sortedKeys(s0.slist) {
		f := strings.Split(k, "/")
		w.emit(fmt.Sprintf("ledger.slist %s %s %s", f[0], f[1], strings.Join(s0.slist[k], ",")), "ok")
	}
	for _, k := range sortedKeys(s0.assoc) {
		w.emit(fmt.Sprintf("ledger.assoc %s %s", k, s0.assoc[k]), "ok")
	}
	for _, k := range sortedKeys(s0.bal) {
		w.emit(fmt.Sprintf("ledger.bal %s %s", k, s0.bal[k]), "ok")
	}
	w.emit(fmt.Sprintf("ledger.escrow %s", s0.escrow), "ok")
	w.emit("ledger.dump", "ok "+s0.dump())
}

// block advances one block; holds released by dogfood's EndBlock are inputs of the model (as in the
// ledger domain)
func (w *msgOrderWorld) block() bool {
	c := w.c
	var rels []string
	if c.App.StakingKeeper.IsEpochEnd(c.Ctx) {
		pend := c.App.StakingKeeper.GetPendingUndelegations(c.Ctx)
		for _, k := range pend.List {
			f := strings.Split(string(k), "/")
			if len(f) == 4 {
				h, _ := hexutil.DecodeUint64(f[1])
				nn, _ := hexutil.DecodeUint64(f[2])
				rels = append(rels, fmt.Sprintf("%s,%d,%d,%s", f[0], h, nn, f[3]))
			}
		}
	}
	res := c.EndAndBegin(time.Duration(2+w.rng.Intn(9)) * time.Second)
	if res.Halt != "" {
		w.env.Violate("C08.halt", "halt:"+sigOfHalt(res.Halt), "the message-order history halted block processing: "+res.Halt, w.hist)
		return false
	}
	op := "ledger.endblock"
	if len(rels) > 0 {
		op += " " + strings.Join(rels, " ")
	}
	w.emit(op, "ok "+w.snap().dump())
	return true
}

func domDetMsgOrder(env *Env) error {
	env.Report.Domain = "determinism_msgorder"
	seed := env.Report.Seed
	nHist := env.Int("histories", 4)
	nMsgs := env.Int("msgs", 30)
	repeats := env.Int("repeats", 12)
	const gasLimit = 3_000_000
	fee := new(big.Int).Mul(big.NewInt(gasLimit), big.NewInt(1_000_000_000))
	for hi := 0; hi < nHist; hi++ {
		hseed := seed*1000 + uint64(hi)
		rng := NewRNG(hseed ^ 0xC08A)
		cfg := DefaultCfg(hseed)
		cfg.NOperators = 3
		cfg.Powers = []int64{101, 100, 150}
		c := NewChainFresh(cfg)
		w := &msgOrderWorld{c: c, env: env, rng: rng}
		for _, o := range c.Operators {
			w.regOps = append(w.regOps, o.Acc)
		}
		// operators that are registered but never opt in: their undelegations are not held by an AVS
		for i := 0; i < 2+rng.Intn(4); i++ {
			a := NewActor(hseed, "extraop", i)
			if err := c.CachedDo(func(ctx sdk.Context) error {
				return c.App.OperatorKeeper.SetOperatorInfo(ctx, a.Acc.String(), &operatortypes.OperatorInfo{
					EarningsAddr: a.Acc.String(), OperatorMetaInfo: "x", Commission: stakingtypes.NewCommission(sdk.ZeroDec(), sdk.ZeroDec(), sdk.ZeroDec())})
			}); err != nil {
				return fmt.Errorf("register operator: %w", err)
			}
			w.regOps = append(w.regOps, a.Acc)
		}
		for i := 0; i < 3; i++ {
			w.unknown = append(w.unknown, NewActor(hseed, "not-an-operator", i).Acc)
		}
		// native-token stakers: rich enough for the fees of the whole history, and one that is nearly broke
		// after a few messages (so that "above the balance" is also met by ordinary amounts)
		ledgerNativeStakers = map[string]sdk.AccAddress{}
		for i := 0; i < 3; i++ {
			a := NewActor(hseed, "msg-staker", i)
			amt := new(big.Int).Mul(fee, big.NewInt(int64(nMsgs+8)))
			amt.Add(amt, big.NewInt(int64(1000+rng.Intn(1_000_000))))
			if i == 2 {
				amt = new(big.Int).Mul(fee, big.NewInt(int64(3+rng.Intn(4))))
				amt.Add(amt, big.NewInt(int64(rng.Intn(3000))))
			}
			if err := c.CachedDo(func(ctx sdk.Context) error {
				return c.App.BankKeeper.SendCoins(ctx, c.Funded.Acc, a.Acc, sdk.NewCoins(sdk.NewCoin(assetstypes.ExocoreAssetDenom, sdkmath.NewIntFromBigInt(amt))))
			}); err != nil {
				return fmt.Errorf("fund staker: %w", err)
			}
			w.stakers = append(w.stakers, a)
			ledgerNativeStakers[StakerIDOf(assetstypes.ExocoreChainLzID, a.Eth)] = a.Acc
		}
		if r := c.EndAndBegin(3 * time.Second); r.Halt != "" {
			return fmt.Errorf("setup block halted: %s", r.Halt)
		}
		s0 := w.snap()
		w.emitLedgerInit(s0)
		prev := s0
		stats := map[string]int{}
		for mi := 0; mi < nMsgs && c.Halted == ""; mi++ {
			st := w.stakers[rng.Pick(3, 3, 1)]
			sid := StakerIDOf(assetstypes.ExocoreChainLzID, st.Eth)
			bal := new(big.Int).Sub(prev.bal[sid], fee)
			if bal.Sign() < 0 { // cannot pay the fee: the ante handler would refuse the tx before the message runs
				env.Outcome("msg.skipped.no-fee")
				continue
			}
			undel := rng.Chance(2, 5)
			hasPosition := false
			for k, d := range prev.deleg {
				if strings.HasPrefix(k, sid+"/"+assetstypes.ExocoreAssetID+"/") && d.share.Sign() > 0 {
					hasPosition = true
				}
			}
			if undel && !hasPosition && rng.Chance(4, 5) { // nothing to undelegate yet: mostly delegate first
				undel = false
			}
			ee := entryEnv{registered: w.regOps, unknown: w.unknown, balance: bal,
				delegated: func(op sdk.AccAddress) *big.Int {
					d, ok := prev.deleg[sid+"/"+assetstypes.ExocoreAssetID+"/"+op.String()]
					p, ok2 := prev.pools[op.String()+"/"+assetstypes.ExocoreAssetID]
					if !ok || !ok2 || p.totalShare.Sign() <= 0 {
						return nil
					}
					return new(big.Int).Div(new(big.Int).Mul(d.share, p.amount), p.totalShare)
				}}
			kvs, shape := genPerOperatorAmounts(rng, ee, undel)
			var msg sdk.Msg
			kind := "delegate"
			if undel {
				kind = "undelegate"
				msg = delegationtypes.NewMsgUndelegation(assetstypes.ExocoreAssetID, st.Acc.String(), kvs)
			} else {
				msg = delegationtypes.NewMsgDelegation(assetstypes.ExocoreAssetID, st.Acc.String(), kvs)
			}
			bz, err := signedTx(c, st, gasLimit, msg)
			if err != nil {
				return fmt.Errorf("sign: %w", err)
			}
			seq, err := c.App.AccountKeeper.GetSequence(c.Ctx, st.Acc)
			if err != nil {
				return fmt.Errorf("sequence: %w", err)
			}
			nonce, hash := msgServerNonceAndHash(bz, seq+1)
			var parts []string
			for _, kv := range kvs {
				parts = append(parts, kv.Key+":"+kv.Value.Amount.String())
			}
			what := fmt.Sprintf("the %s message of %s with entries [%s]", kind, st.Acc, strings.Join(parts, " "))
			opHead := fmt.Sprintf("msg.%s %s %s %s %d %s", kind, sid, assetstypes.ExocoreAssetID, fee, nonce, hash.String())
			// 1. the repeat monitor on the state the message is about to be delivered on
			first, same := repeatMonitor(env, c, bz, msg, gasLimit, antePrep(c, st.Acc, fee), repeats, what, append(append([]string{}, w.hist...), opHead+" "+strings.Join(parts, " ")))
			if !same {
				stats["repeat.diverged"]++
			}
			// 2. the real transaction
			r, hlt := c.DeliverRaw(bz)
			if hlt != "" {
				env.Violate("C08.halt", "halt:"+sigOfHalt(hlt), "DeliverTx panicked: "+hlt, w.hist)
				break
			}
			class := "ok"
			if r.Code != 0 {
				class = "rej:" + msgOrderErrName(r.Codespace, r.Code)
			}
			if first != nil && same && first.panicked == "" {
				env.Eval("C08.repeat")
				if first.codespace != r.Codespace || first.code != r.Code {
					if r.Code == 0 {
						r.Codespace = ""
					}
					if first.codespace != r.Codespace || first.code != r.Code {
						env.Violate("C08.repeat", "nondeterminism:repeat:deliver-vs-router",
							fmt.Sprintf("%s: DeliverTx returned %s/%d, the %d executions through the router on the same state %s/%d", what, r.Codespace, r.Code, repeats, first.codespace, first.code),
							append(append([]string{}, w.hist...), opHead+" "+strings.Join(parts, " ")))
					}
				}
			}
			// 3. the model: entries in message order; per entry whether the AVS hook placed a hold
			after := w.snap()
			var entries []string
			for _, kv := range kvs {
				held := 0
				if undel && r.Code == 0 {
					rk := delegationtypes.GetUndelegationRecordKey(uint64(c.Header.Height), nonce, hash.String(), kv.Key)
					if c.App.DelegationKeeper.GetUndelegationHoldCount(c.Ctx, rk) > 0 {
						held = 1
					}
				}
				entries = append(entries, fmt.Sprintf("%s:%s:%d", kv.Key, kv.Value.Amount, held))
			}
			w.emit(opHead+" "+strings.Join(entries, " "), class+" "+after.dump())
			prev = after
			env.Outcome("msg." + kind + "." + strings.SplitN(class, ":", 2)[0])
			env.Outcome(fmt.Sprintf("entries.n=%d", shape.n))
			if shape.n >= 2 {
				stats["multi"]++
				if r.Code != 0 {
					stats["multi.failed"]++
					env.Outcome("multi.failed." + msgOrderErrName(r.Codespace, r.Code))
				} else {
					stats["multi.ok"]++
				}
				if shape.kinds >= 2 {
					env.Outcome("multi.two-failure-kinds")
				}
				if shape.duplicate {
					env.Outcome("multi.duplicate-operator")
				}
				if shape.failing > 0 {
					env.Outcome("multi.first-failing-" + strings.TrimPrefix(strings.Fields(shape.String())[4], "at="))
				}
			}
			if rng.Chance(1, 3) {
				for k := 0; k < 1+rng.Intn(3); k++ {
					if !w.block() {
						break
					}
				}
				prev = w.snap()
			}
		}
		// run out the unbonding period of the last records
		for k := 0; k < int(operatortypes.UnbondingExpiration)+2 && c.Halted == ""; k++ {
			if !w.block() {
				break
			}
		}
		env.Report.Histories++
		if stats["multi.failed"] > 0 && stats["multi.ok"] > 0 {
			env.DistinctKey(fmt.Sprintf("h%d:%d:%d", hseed, stats["multi.failed"], stats["multi.ok"]))
		}
		if hi == 0 {
			tail := w.hist
			if len(tail) > 6 {
				tail = tail[len(tail)-6:]
			}
			env.Sample(strings.Join(tail, " ; "))
		}
	}
	return nil
}
