package main

// C12 — oracle rounds. Seeded histories over random validator sets / power splits / feeders /
// thresholds, full ABCI with signed price submissions (valid, conflicting, duplicate, late,
// equivocating, malformed), validator-set changes mid-window (minute epochs + price-driven vote
// power), and the property's predicates evaluated on the real state after every step.

import (
	"fmt"
	"math/big"
	"regexp"
	"sort"
	"strings"
	"time"

	oraclekeeper "github.com/ExocoreNetwork/exocore/x/oracle/keeper"
	epochstypes "github.com/ExocoreNetwork/exocore/x/epochs/types"
)

func init() { register("oracle", domOracleC12) }

// ---- spec generation (shared with C13/C14)

func genOrcSpec(rng *RNG, forC14 bool) orcSpec {
	var s orcSpec
	n := 1 + rng.Pick(1, 2, 4, 3, 2, 1, 1)
	switch rng.Pick(3, 2, 2, 2, 3) {
	case 0: // equal
		for i := 0; i < n; i++ {
			s.Powers = append(s.Powers, 10)
		}
	case 1: // one whale exactly at / around two thirds of the total
		rest := int64(n - 1)
		w := 2*rest + int64(rng.Intn(3)) - 1
		if w < 1 {
			w = 1
		}
		s.Powers = append(s.Powers, w)
		for i := 1; i < n; i++ {
			s.Powers = append(s.Powers, 1)
		}
	case 2: // two blocks
		for i := 0; i < n; i++ {
			s.Powers = append(s.Powers, int64(1+(i%2)*rng.Intn(4)))
		}
	case 3: // exactly 2/3 reachable: 2,1 pattern
		for i := 0; i < n; i++ {
			s.Powers = append(s.Powers, int64(2-(i%2)))
		}
	default:
		for i := 0; i < n; i++ {
			s.Powers = append(s.Powers, int64(1+rng.Intn(40)))
		}
	}
	s.MaxNonce = 3
	if !forC14 && rng.Chance(1, 5) {
		s.MaxNonce = int32(2 + rng.Intn(3))
	}
	switch rng.Pick(8, 1, 1, 1) {
	case 0:
		s.ThA, s.ThB = 2, 3
	case 1:
		s.ThA, s.ThB = 1, 2
	case 2:
		s.ThA, s.ThB = 3, 4
	case 3:
		s.ThA, s.ThB = 1, 3
	}
	s.MaxDetID = 5
	if rng.Chance(1, 4) {
		s.MaxDetID = int32(1 + rng.Intn(3))
	}
	s.MaxSize = 100
	if rng.Chance(1, 3) {
		s.MaxSize = int32(1 + rng.Intn(4))
	}
	two := rng.Bool()
	if two {
		s.Sources = [][2]bool{{true, true}, {true, false}}
		s.Rules = [][]uint64{{0}, {1, 2}, {1}}
	} else {
		s.Sources = [][2]bool{{true, true}}
		s.Rules = [][]uint64{{0}, {1}}
	}
	nTok := 1 + rng.Intn(3)
	for t := 0; t < nTok; t++ {
		dec := int32(0)
		if t > 0 {
			dec = []int32{0, 8, 18}[rng.Intn(3)]
		}
		s.TokenDec = append(s.TokenDec, dec)
		next := uint64(2)
		price := "1"
		if t > 0 {
			switch rng.Intn(3) {
			case 0:
				next, price = 0, ""
			case 1:
				next, price = uint64(2+rng.Intn(5)), fmt.Sprint(1+rng.Intn(1000))
			}
		}
		s.GenNext = append(s.GenNext, next)
		s.GenPrice = append(s.GenPrice, price)
		rule := uint64(1)
		if two {
			rule = uint64(1 + rng.Pick(1, 6, 3))
		} else {
			rule = uint64(1 + rng.Intn(2))
		}
		iv := uint64(2*s.MaxNonce) + uint64(rng.Intn(5))
		sb := uint64(1 + rng.Intn(8))
		sr := next
		if sr == 0 {
			sr = 1
		}
		if rng.Chance(1, 8) { // misaligned genesis: exercises the "should not happen" grow path
			sr += uint64(1 + rng.Intn(2))
		}
		f := orcFeeder{Token: uint64(t + 1), Rule: rule, StartRound: sr, StartBase: sb, Interval: iv}
		if rng.Chance(1, 4) {
			f.End = sb + uint64(1+rng.Intn(3))*iv + uint64(s.MaxNonce) + uint64(rng.Intn(int(iv)-int(s.MaxNonce)))
		}
		s.Feeders = append(s.Feeders, f)
	}
	// successor feeders for ended ones (same token, continuous round ids), appended after all first feeders
	for t := 0; t < nTok; t++ {
		f := s.Feeders[t]
		if f.End > 0 && rng.Bool() {
			endRound := f.StartRound + (f.End-f.StartBase)/f.Interval
			s.Feeders = append(s.Feeders, orcFeeder{Token: f.Token, Rule: f.Rule, StartRound: endRound + 1,
				StartBase: f.End + uint64(1+rng.Intn(4)), Interval: uint64(2*s.MaxNonce) + uint64(rng.Intn(3))})
		}
	}
	// feeder ids are positions in the feeder list, token ids positions in the token list: nothing ties the two
	// (Params.Validate only asks that the feeders of ONE token follow each other in time). Two of three specs get
	// a layout in which they have drifted apart — the per-token chains (first feeder, successor) merged in a
	// random order — so that every look-up "feeder -> its token -> decimals / rule / round ids" is exercised on
	// params where feeder i does not price token i (what a chain looks like after feeders were stopped and
	// resumed and tokens added in between).
	if rng.Chance(2, 3) {
		s.shuffleFeederLayout(rng)
	}
	return s
}

// shuffleFeederLayout re-orders s.Feeders: a random merge of the per-token chains that keeps the order inside
// each chain (the only order Params.Validate prescribes).
func (s *orcSpec) shuffleFeederLayout(rng *RNG) {
	chains := map[uint64][]orcFeeder{}
	var toks []uint64
	for _, f := range s.Feeders {
		if _, ok := chains[f.Token]; !ok {
			toks = append(toks, f.Token)
		}
		chains[f.Token] = append(chains[f.Token], f)
	}
	var out []orcFeeder
	for len(toks) > 0 {
		i := rng.Intn(len(toks))
		t := toks[i]
		out = append(out, chains[t][0])
		chains[t] = chains[t][1:]
		if len(chains[t]) == 0 {
			toks = append(toks[:i], toks[i+1:]...)
		}
	}
	s.Feeders = out
}

// drifted: some feeder's token id, read as a FEEDER id, names a feeder of another token (or none): the
// layouts on which "token of feeder f" and "token of feeder (token id of f)" differ.
func (s *orcSpec) drifted() bool {
	for _, f := range s.Feeders {
		if int(f.Token) > len(s.Feeders) || s.Feeders[f.Token-1].Token != f.Token {
			return true
		}
	}
	return false
}

// driftedDecimals: … and the token reached that way has other decimals (the look-ups disagree observably).
func (s *orcSpec) driftedDecimals() bool {
	for _, f := range s.Feeders {
		if int(f.Token) <= len(s.Feeders) {
			if g := s.Feeders[f.Token-1]; s.TokenDec[g.Token-1] != s.TokenDec[f.Token-1] {
				return true
			}
		}
	}
	return false
}

// ---- per-round bookkeeping of the harness (its own log of accepted submissions)

type orcAccepted struct {
	val  int
	srcs []orcSource
}

type orcRoundLog struct {
	base     uint64
	accepted []orcAccepted
	finals   int
	firstVal map[string]map[string]bool // "val|source|detID" -> values sent (dom_oracle_valset.go: noteSent)
}

type orcDriver struct {
	*orc
	rng     *RNG
	powers  map[int]int64 // validator set as the oracle sees it (dogfood set as of the last update)
	rounds  map[int]*orcRoundLog
	detPool map[int][]string
	valPool map[int][]string
	finals  int
	grows   int
	nTx     int
	noForge bool
	sigTag  string          // appended to id-monitor sigs inside a directed scenario
	tainted map[uint64]bool // tokens whose round sequence was hit by the known multi-message defect
	leaving map[int]bool    // operators that opted out and are still in the oracle's validator set
	vsN     uint64          // validator-set actions generated so far
	wMon    string          // monitor id of the weight / counting clause in this domain
	wTag    string          // appended to its sigs inside a directed scenario
	shrunk  bool                       // MaxSizePrices was lowered by an accepted update in this block (dom_oracle_paramsupd.go)
	stale   map[uint64]map[uint64]bool // per token: rounds a lowered retention bound can never reach (finding F-12a)
	staleSeen map[uint64]bool
	alignSeen  map[string]bool // alignMonitor: token/case already reported in this history
	misaligned map[uint64]bool // tokens whose genesis the generator misaligned on purpose (dom_oracle_handover.go)
}

func newOrcDriver(o *orc, rng *RNG) *orcDriver {
	d := &orcDriver{orc: o, rng: rng, powers: map[int]int64{}, rounds: map[int]*orcRoundLog{}, detPool: map[int][]string{}, valPool: map[int][]string{}, tainted: map[uint64]bool{}, leaving: map[int]bool{}, misaligned: misalignedAtGenesis(o.spec)}
	for i, p := range o.spec.Powers {
		d.powers[i] = p
	}
	return d
}

func (d *orcDriver) nonceOf(val int, feeder uint64) (int32, bool) {
	if val >= 50 && val-50 >= len(d.strPrivs) {
		return 0, false
	}
	n, found := d.c.App.OracleKeeper.GetNonce(d.ctx(), consOf(d.orc, val))
	if !found {
		return 0, false
	}
	for _, x := range n.NonceList {
		if x.FeederID == feeder {
			return int32(x.Value), true
		}
	}
	return 0, false
}

func consOf(o *orc, i int) string {
	return sdkConsString(o.privOf(i).PubKey().Address())
}

// honest submission of validator val for feeder index fi (0-based) with base b at the current block
func (d *orcDriver) honestMsg(val, fi int, b uint64) orcMsg {
	s := d.spec
	f := s.Feeders[fi]
	dec := s.TokenDec[f.Token-1]
	now := d.c.Header.Time.Unix()
	n, _ := d.nonceOf(val, uint64(fi+1))
	rule := s.Rules[f.Rule-1]
	var want []uint64
	if rule[0] == 0 {
		want = []uint64{uint64(len(s.Sources))} // the last valid source is the one CheckRules looks for
	} else {
		want = rule
	}
	dets := d.detPool[fi]
	vals := d.valPool[fi]
	m := orcMsg{Creator: val, Feeder: uint64(fi + 1), Based: b, Nonce: n + 1}
	for _, sid := range want {
		src := orcSource{ID: sid}
		if s.Sources[sid-1][1] { // deterministic
			k := 1
			if d.rng.Chance(1, 4) {
				k = 1 + d.rng.Intn(3)
			}
			used := map[string]bool{}
			for j := 0; j < k; j++ {
				di := d.rng.Pick(6, 2, 1)
				if di >= len(dets) {
					di = 0
				}
				if used[dets[di]] {
					continue
				}
				used[dets[di]] = true
				// most validators agree on the value of a det id; a few equivocate
				v := vals[di]
				if d.rng.Chance(1, 7) {
					v = fmt.Sprint(1 + d.rng.Intn(5))
				}
				src.Prices = append(src.Prices, orcPrice{Price: v, Dec: dec, Ts: now - int64(d.rng.Intn(20)), DetID: dets[di]})
			}
		} else {
			src.Prices = []orcPrice{{Price: fmt.Sprint(1 + d.rng.Intn(9)), Dec: dec, Ts: now - int64(d.rng.Intn(20))}}
		}
		m.Srcs = append(m.Srcs, src)
	}
	return m
}

func (d *orcDriver) mutate(m *orcMsg, t *orcTx) string {
	s := d.spec
	now := d.c.Header.Time.Unix()
	kinds := []string{"based", "nonce-stale", "nonce-skip", "nonce-big", "stranger", "decimal", "ts-future", "ts-edge", "ts-bad", "ts-empty",
		"feeder", "no-src", "no-price", "many-det", "dup-det", "ns-detid", "ds-nodet", "oversize", "src-id", "src-count", "decimal-other"}
	k := kinds[d.rng.Intn(len(kinds))]
	first := func() *orcPrice {
		if len(m.Srcs) > 0 && len(m.Srcs[0].Prices) > 0 {
			return &m.Srcs[0].Prices[0]
		}
		return nil
	}
	switch k {
	case "based":
		m.Based += uint64(1 + d.rng.Intn(2))
		if d.rng.Bool() && m.Based > 2 {
			m.Based -= 3
		}
	case "nonce-stale":
		if m.Nonce > 0 {
			m.Nonce--
		}
	case "nonce-skip":
		m.Nonce++
	case "nonce-big":
		m.Nonce = []int32{s.MaxNonce + 1, -1, 1 << 30}[d.rng.Intn(3)]
	case "stranger":
		m.Creator = 50 + d.rng.Intn(2)
	case "decimal":
		if p := first(); p != nil {
			p.Dec++
		}
	case "decimal-other":
		// the whole submission scaled with the decimals of ANOTHER configured token (a feeder that reports in
		// the wrong unit, or a look-up that reaches the wrong token); own decimals + 1 when all tokens agree
		if int(m.Feeder) >= 1 && int(m.Feeder) <= len(s.Feeders) {
			own := s.TokenDec[s.Feeders[m.Feeder-1].Token-1]
			m.setDecimals(s.otherDecimals(own, d.rng))
		}
	case "ts-future":
		if p := first(); p != nil {
			p.Ts = now + 6 + int64(d.rng.Intn(100))
		}
	case "ts-edge": // around the +5 s limit, relative to floor and to ceil of a sub-second block time
		if p := first(); p != nil {
			p.Ts = now + 4 + int64(d.rng.Intn(4))
		}
	case "ts-bad":
		if p := first(); p != nil {
			p.TsKind = 2
			p.Ts = 0
		}
	case "ts-empty":
		if p := first(); p != nil {
			p.TsKind = 1
			p.Ts = 0
		}
	case "feeder":
		m.Feeder = uint64(len(s.Feeders) + 1 + d.rng.Intn(2))
	case "no-src":
		m.Srcs = nil
	case "no-price":
		if len(m.Srcs) > 0 {
			m.Srcs[0].Prices = nil
		}
	case "many-det":
		if len(m.Srcs) > 0 && len(m.Srcs[0].Prices) > 0 && m.Srcs[0].Prices[0].DetID != "" {
			p0 := m.Srcs[0].Prices[0]
			for j := 0; j < int(s.MaxDetID)+1; j++ {
				q := p0
				q.DetID = fmt.Sprint(20 + j)
				m.Srcs[0].Prices = append(m.Srcs[0].Prices, q)
			}
		}
	case "dup-det":
		if len(m.Srcs) > 0 && len(m.Srcs[0].Prices) > 0 {
			q := m.Srcs[0].Prices[0]
			q.Price = fmt.Sprint(1 + d.rng.Intn(5))
			m.Srcs[0].Prices = append(m.Srcs[0].Prices, q)
		}
	case "ns-detid":
		for i := range m.Srcs {
			if !s.Sources[m.Srcs[i].ID-1][1] && len(m.Srcs[i].Prices) > 0 {
				m.Srcs[i].Prices[0].DetID = "7"
			}
		}
	case "ds-nodet":
		if p := first(); p != nil {
			p.DetID = ""
		}
	case "oversize":
		if len(m.Srcs) > 0 {
			m.Srcs[0].Desc = strings.Repeat("x", 700+d.rng.Intn(400))
		}
	case "src-id":
		if len(m.Srcs) > 0 {
			m.Srcs[0].ID = uint64(d.rng.Intn(len(s.Sources) + 3))
		}
	case "src-count":
		if len(m.Srcs) > 1 {
			m.Srcs = m.Srcs[:1]
		} else if len(m.Srcs) == 1 {
			m.Srcs = append(m.Srcs, m.Srcs[0])
		}
	}
	return k
}

// setDecimals rewrites the decimals of every price of the message.
func (m *orcMsg) setDecimals(dec int32) {
	for i := range m.Srcs {
		ps := append([]orcPrice{}, m.Srcs[i].Prices...)
		for j := range ps {
			ps[j].Dec = dec
		}
		m.Srcs[i].Prices = ps
	}
}

// otherDecimals: the decimals of a configured token that differ from own (random among them), or own+1.
func (s *orcSpec) otherDecimals(own int32, rng *RNG) int32 {
	var cands []int32
	for _, x := range s.TokenDec {
		if x != own {
			cands = append(cands, x)
		}
	}
	if len(cands) == 0 {
		return own + 1
	}
	return cands[rng.Intn(len(cands))]
}

// newRound refreshes the per-round pools when feeder fi opens a round at base b
func (d *orcDriver) roundLog(fi int, b uint64) *orcRoundLog {
	r := d.rounds[fi]
	if r == nil || r.base != b {
		r = &orcRoundLog{base: b}
		d.rounds[fi] = r
		// det ids chosen so that string order and numeric order disagree ("9" > "10")
		base := 8 + d.rng.Intn(3)
		d.detPool[fi] = []string{fmt.Sprint(base), fmt.Sprint(base + 1), fmt.Sprint(base + 2)}
		hi := 9
		if d.spec.Feeders[fi].Token == 1 {
			hi = 3 // token 1 prices vote power; keep it small and positive
		}
		d.valPool[fi] = []string{fmt.Sprint(1 + d.rng.Intn(hi)), fmt.Sprint(1 + d.rng.Intn(hi)), fmt.Sprint(1 + d.rng.Intn(hi))}
	}
	return r
}

func (d *orcDriver) tokenNext(tok uint64) uint64 {
	return d.c.App.OracleKeeper.GetNextRoundID(d.ctx(), tok)
}

// sendTx delivers and runs the per-tx monitors
func (d *orcDriver) sendTx(t orcTx, fiOpen map[int]uint64) string {
	type snap struct{ next uint64 }
	before := map[uint64]uint64{}
	for i := range d.spec.TokenDec {
		before[uint64(i+1)] = d.tokenNext(uint64(i + 1))
	}
	stBefore := map[int]int{}
	for _, m := range t.Msgs {
		stBefore[int(m.Feeder)-1] = d.roundStatus(int(m.Feeder))
	}
	for fi, b := range fiOpen {
		d.noteSent(fi, b, t)
	}
	cls := d.deliver(t)
	d.nTx++
	d.weightMonitor(t, fiOpen, cls)
	// messages executed successfully: all of them for an ok tx, those before the failing index
	// otherwise (they reached the aggregator although the tx's store writes were dropped)
	nOK := 0
	if cls == "ok" {
		nOK = len(t.Msgs)
	} else if strings.HasPrefix(cls, "msg") {
		fmt.Sscanf(cls, "msg%d:", &nOK)
	} else if cls == "panic" {
		nOK = len(t.Msgs) - 1 // only the last message of a generated tx is ever malformed
	}
	for _, m := range t.Msgs[:nOK] {
		fi := int(m.Feeder) - 1
		if b, ok := fiOpen[fi]; ok {
			r := d.roundLog(fi, b)
			r.accepted = append(r.accepted, orcAccepted{val: m.Creator, srcs: m.Srcs})
		}
	}
	if cls != "ok" && nOK > 0 {
		// known defect: an earlier message of a failed tx closed its round in memory; the price
		// write was rolled back with the tx, so the round ends with neither a price nor a carry-over
		for _, m := range t.Msgs[:nOK] {
			fi := int(m.Feeder) - 1
			if fi < 0 || fi >= len(d.spec.Feeders) {
				continue
			}
			tok := d.spec.Feeders[fi].Token
			if stBefore[fi] == 1 && d.roundStatus(int(m.Feeder)) == 2 && d.tokenNext(tok) == before[tok] && !d.tainted[tok] {
				d.tainted[tok] = true
				d.env.Eval("C12.once")
				d.env.Violate("C12.once", "round-closed-without-price:multi-msg-tx", fmt.Sprintf("feeder %d: message %d of a failed %d-message tx finalized the round in memory; the stored NextRoundID %d did not advance and never will for this round", fi+1, 0, len(t.Msgs), before[tok]), d.hist)
			}
		}
	}
	// a stored round appeared during a transaction: it must be a final price with a super-majority
	for i := range d.spec.TokenDec {
		tok := uint64(i + 1)
		after := d.tokenNext(tok)
		d.env.Eval("C12.final")
		if after == before[tok] || d.tainted[tok] {
			continue
		}
		if after != before[tok]+1 || cls != "ok" {
			d.env.Violate("C12.final", "tx-round-jump", fmt.Sprintf("token %d: NextRoundID %d -> %d in a tx with result %s", tok, before[tok], after, cls), d.hist)
			continue
		}
		d.checkFinal(tok, before[tok], t, fiOpen)
	}
	return cls
}

// weightMonitor: only validators of the current set carry weight, and each of them once per
// (source, detID) of a round.
func (d *orcDriver) weightMonitor(t orcTx, fiOpen map[int]uint64, cls string) {
	mon := d.wMon
	if mon == "" {
		mon = "C12.weights"
	}
	d.env.Eval(mon)
	departed := false
	for _, m := range t.Msgs {
		if _, in := d.powers[m.Creator]; !in && m.Creator < 50 {
			departed = true
			if cls == "ok" {
				d.env.Violate(mon, "departed-validator-counted"+d.wTag, fmt.Sprintf("the submission of validator %d, which left the validator set, was accepted and counted (%s)", m.Creator, cls), d.hist)
				return
			}
		}
	}
	fis := make([]int, 0, len(fiOpen))
	for fi := range fiOpen {
		fis = append(fis, fi)
	}
	sort.Ints(fis)
	for _, fi := range fis {
		if why, ghost := d.overcount(fi, fiOpen[fi]); why != "" {
			sig := "detid-counted-more-than-once"
			if departed || ghost {
				sig = "departed-validator-counted"
			}
			d.env.Violate(mon, sig+d.wTag, why, d.hist)
			return
		}
	}
}

func exceeds(p, t *big.Int, a, b int32) bool {
	return new(big.Int).Mul(p, big.NewInt(int64(b))).Cmp(new(big.Int).Mul(t, big.NewInt(int64(a)))) > 0
}

func medianBig(l []*big.Int) *big.Int {
	sort.Slice(l, func(i, j int) bool { return l[i].Cmp(l[j]) < 0 })
	n := len(l)
	if n%2 == 1 {
		return l[n/2]
	}
	return new(big.Int).Div(new(big.Int).Add(l[n/2], l[n/2-1]), big.NewInt(2))
}

// checkFinal: the property's own words, recomputed from the harness's log of accepted submissions.
func (d *orcDriver) checkFinal(tok, rid uint64, t orcTx, fiOpen map[int]uint64) {
	s := d.spec
	fi := -1
	for _, m := range t.Msgs {
		f := int(m.Feeder) - 1
		if f >= 0 && f < len(s.Feeders) && s.Feeders[f].Token == tok {
			if _, ok := fiOpen[f]; ok {
				fi = f
			}
		}
	}
	if fi < 0 {
		d.env.Violate("C12.final", "final-no-open-round", fmt.Sprintf("token %d got round %d from a tx for no open round of it", tok, rid), d.hist)
		return
	}
	r := d.roundLog(fi, fiOpen[fi])
	r.finals++
	d.finals++
	if r.finals > 1 {
		d.env.Violate("C12.final", "two-finals", fmt.Sprintf("feeder %d base %d: second price recorded for one round", fi+1, r.base), d.hist)
	}
	pr, found := d.c.App.OracleKeeper.GetPriceTRRoundID(d.ctx(), tok, rid)
	if !found {
		d.env.Violate("C12.final", "final-missing", fmt.Sprintf("token %d round %d not stored", tok, rid), d.hist)
		return
	}
	total := big.NewInt(0)
	for _, p := range d.powers {
		total.Add(total, big.NewInt(p))
	}
	reported := map[int]bool{}
	type key struct {
		src      uint64
		det, val string
	}
	support := map[key]map[int]bool{}
	lastNS := map[int]map[uint64]string{}
	for _, a := range r.accepted {
		reported[a.val] = true
		for _, sc := range a.srcs {
			for _, p := range sc.Prices {
				if p.DetID != "" {
					k := key{sc.ID, p.DetID, p.Price}
					if support[k] == nil {
						support[k] = map[int]bool{}
					}
					support[k][a.val] = true
				} else {
					if lastNS[a.val] == nil {
						lastNS[a.val] = map[uint64]string{}
					}
					lastNS[a.val][sc.ID] = p.Price
				}
			}
		}
	}
	rp := big.NewInt(0)
	for v := range reported {
		rp.Add(rp, big.NewInt(d.powers[v]))
	}
	if pr.RoundID != rid {
		d.env.Violate("C12.final", "roundid-field", fmt.Sprintf("round key %d holds RoundID %d", rid, pr.RoundID), d.hist)
	}
	f := s.Feeders[fi]
	// was this a genuine final (aligned ids) or the mismatch grow path?
	expectRid := f.StartRound + (r.base-f.StartBase)/f.Interval
	if expectRid != rid {
		d.grows++
		if !d.misaligned[tok] {
			// the ids of this token were aligned at genesis and every later feeder was judged by the chain itself: a
			// DeliverTx that closes the round by carrying the previous price forward does so although neither the
			// window has ended nor the validator set changed
			d.env.Violate("C12.final", "carried-forward-inside-window"+d.sigTag, fmt.Sprintf("feeder %d (base %d): the transaction that completed the round closed it under id %d with price %q — the store's NextRoundID — while the feeder stamps this round with id %d: the agreed price was refused by AppendPriceTR and the previous price carried forward inside the window", fi+1, r.base, rid, pr.Price, expectRid), d.hist)
			return
		}
		d.env.Note("final-on-misaligned-ids(grow)")
		return
	}
	if !exceeds(rp, total, s.ThA, s.ThB) {
		d.env.Violate("C12.final", "final-without-report-majority", fmt.Sprintf("feeder %d round %d: reporters' power %s of %s", fi+1, rid, rp, total), d.hist)
	}
	var cands []key
	for k, vs := range support {
		sp := big.NewInt(0)
		for v := range vs {
			sp.Add(sp, big.NewInt(d.powers[v]))
		}
		if exceeds(sp, total, s.ThA, s.ThB) {
			cands = append(cands, k)
		}
	}
	if len(cands) == 0 {
		d.env.Violate("C12.final", "final-without-ds-agreement", fmt.Sprintf("feeder %d round %d price %s: no (source, detID, value) with super-majority support", fi+1, rid, pr.Price), d.hist)
		return
	}
	// recorded price = median over reporting validators of (median of their source values)
	ok := false
	for _, c := range cands {
		var vals []*big.Int
		for v := range reported {
			mine := []*big.Int{bigOf(c.val)}
			hasDS := false
			for k, vs := range support {
				if k.src == c.src && vs[v] {
					hasDS = true
				}
			}
			if !hasDS {
				mine = nil
			}
			for _, nsv := range lastNS[v] {
				mine = append(mine, bigOf(nsv))
			}
			if len(mine) == 0 {
				continue
			}
			vals = append(vals, medianBig(mine))
		}
		if len(vals) > 0 && medianBig(vals).String() == pr.Price {
			ok = true
		}
	}
	if !ok {
		d.env.Violate("C12.final", "final-not-median", fmt.Sprintf("feeder %d round %d: recorded %s is not the median of the reporters' values", fi+1, rid, pr.Price), d.hist)
	}
	d.env.Outcome("final")
}

// idsMonitor: after EndBlock of block h — round ids advance by exactly one per elapsed round, stored
// rounds are contiguous, retention bounded, carried-forward rounds repeat the previous price.
type orcTokTrack struct {
	next0  uint64 // NextRoundID before the token's first feeder started
	closed uint64
}

func (d *orcDriver) idsMonitor(h uint64, prevPrices map[uint64][]string) {
	s := d.spec
	k := d.c.App.OracleKeeper
	ctx := d.ctx()
	for ti := range s.TokenDec {
		tok := uint64(ti + 1)
		if d.tainted[tok] {
			continue
		}
		d.env.Eval("C12.ids")
		gen := s.GenNext[ti]
		if gen == 0 {
			gen = 1
		}
		var lo, hi uint64 // rounds that must / may have been closed by the end of block h
		for _, f := range s.Feeders {
			if f.Token != tok || h < f.StartBase {
				continue
			}
			last := h
			if f.End > 0 && last >= f.End {
				last = f.End - 1
			}
			nb := (last-f.StartBase)/f.Interval + 1 // rounds opened so far
			hi += nb
			// a round opened at base b must be closed once h ≥ b+maxNonce, or h ≥ End
			for j := uint64(0); j < nb; j++ {
				b := f.StartBase + j*f.Interval
				if h >= b+uint64(s.MaxNonce) || (f.End > 0 && h >= f.End) {
					lo++
				}
			}
		}
		next := k.GetNextRoundID(ctx, tok)
		if next < gen+lo || next > gen+hi {
			d.env.Violate("C12.ids", "round-count"+d.sigTag, fmt.Sprintf("token %d after block %d: NextRoundID %d, expected between %d and %d (genesis %d, %d..%d rounds closed)", tok, h, next, gen+lo, gen+hi, gen, lo, hi), d.hist)
		}
		var have []uint64
		for r := uint64(1); r < next+2; r++ {
			if _, ok := k.GetPriceTRRoundID(ctx, tok, r); ok {
				have = append(have, r)
			}
		}
		if len(have) > 0 {
			if have[len(have)-1] != next-1 {
				d.env.Violate("C12.ids", "latest-missing", fmt.Sprintf("token %d: latest stored round %d, NextRoundID %d", tok, have[len(have)-1], next), d.hist)
			}
			for i := 1; i < len(have); i++ {
				if d.stale[tok][have[i-1]] {
					continue // below a lowered retention bound: F-12a, reported by the retention clause
				}
				if have[i] != have[i-1]+1 {
					d.env.Violate("C12.ids", "gap", fmt.Sprintf("token %d: stored rounds %v have a gap", tok, have), d.hist)
					break
				}
			}
			// genesis may hold one entry beyond the bound only if it was loaded that way; we load at most one
			if uint64(len(have)) > uint64(s.MaxSize) {
				// rounds stored before the bound was lowered that the new bound never reaches are finding F-12a;
				// the rounds the new bound does govern must respect it
				nStale := 0
				for _, r := range have {
					if d.stale[tok][r] {
						nStale++
					}
				}
				if uint64(len(have)-nStale) > uint64(s.MaxSize) {
					d.env.Violate("C12.ids", "retention", fmt.Sprintf("token %d: %d rounds retained (%d of them older than a lowered bound can reach), MaxSizePrices %d", tok, len(have), nStale, s.MaxSize), d.hist)
				} else if !d.staleSeen[tok] {
					if d.staleSeen == nil {
						d.staleSeen = map[uint64]bool{}
					}
					d.staleSeen[tok] = true // once per token and history
					d.env.Violate("C12.ids", "retention-after-lowered-bound:F-12a", fmt.Sprintf("token %d: %d rounds retained, MaxSizePrices %d: %d rounds stored before the bound was lowered are never deleted (AppendPriceTR removes exactly one key per append)", tok, len(have), s.MaxSize, nStale), d.hist)
				}
			}
		} else if next > gen {
			d.env.Violate("C12.ids", "latest-missing", fmt.Sprintf("token %d: NextRoundID %d but nothing stored", tok, next), d.hist)
		}
		d.alignMonitor(tok, h, next)
	}
}

func (d *orcDriver) applyUpdates(u map[int]int64) {
	for i, p := range u {
		if p == 0 {
			delete(d.powers, i)
			delete(d.leaving, i)
		} else {
			d.powers[i] = p
		}
	}
}

// block generates and delivers the submissions of the current block.
func (d *orcDriver) block(mutProb int) {
	s := d.spec
	h := uint64(d.c.Header.Height)
	open := map[int]uint64{}
	for fi := range s.Feeders {
		if b := s.openBase(fi, h); b > 0 {
			open[fi] = b
			d.roundLog(fi, b)
		}
	}
	var vals []int
	for v := range d.powers {
		vals = append(vals, v)
	}
	sort.Ints(vals)
	// validators that left the set keep their keys and (half of the time) keep submitting
	for _, v := range d.departedList() {
		if d.rng.Bool() {
			vals = append(vals, v)
			d.env.Outcome("departed-validator-submits")
		}
	}
	// shuffle submission order
	for i := len(vals) - 1; i > 0; i-- {
		j := d.rng.Intn(i + 1)
		vals[i], vals[j] = vals[j], vals[i]
	}
	fis := make([]int, 0, len(s.Feeders))
	for fi := range s.Feeders {
		fis = append(fis, fi)
	}
	for _, fi := range fis {
		b, isOpen := open[fi]
		for _, v := range vals {
			if isOpen && d.rng.Chance(3, 5) {
				m := d.honestMsg(v, fi, b)
				t := orcTx{Msgs: []orcMsg{m}}
				if d.rng.Chance(mutProb, 100) {
					k := d.mutate(&t.Msgs[0], &t)
					d.env.Outcome("mut:" + k)
				} else if d.rng.Chance(1, 12) && !d.couldFinalize(fi, v) { // two messages in one tx: consecutive nonces, second maybe bad
					m2 := d.honestMsg(v, fi, b)
					m2.Nonce = m.Nonce + 1
					if d.rng.Chance(1, 3) {
						k := d.mutate(&m2, &t)
						d.env.Outcome("mut2:" + k)
					}
					t.Msgs = append(t.Msgs, m2)
				}
				d.sendTx(t, open)
				if d.rng.Chance(1, 10) { // immediate duplicate (same nonce): must be refused by the ante nonce check
					d.sendTx(t, open)
				}
			} else if !isOpen && d.rng.Chance(1, 25) { // late / early submission outside the window
				f := s.Feeders[fi]
				if h > f.StartBase {
					prev := h - 1
					base := prev - (prev-f.StartBase)%f.Interval
					m := d.honestMsg(v, fi, base)
					d.roundLog(fi, base)
					d.sendTx(orcTx{Msgs: []orcMsg{m}}, open)
					d.env.Outcome("late")
				}
			}
		}
	}
}

func domOracleC12(env *Env) error {
	n := env.Int("histories", 10)
	maxBlocks := env.Int("blocks", 45)
	rng := NewRNG(env.Report.Seed*7919 + 12)
	env.Report.Domain = "oracle"
	if env.Int("directed", 1) == 1 {
		directedC12MultiMsg(env)
	}
	if env.Int("valset", 0) == 1 {
		directedDeparted(env, "C12.weights")
	}
	if env.Int("paramsupd", 0) == 1 {
		directedParamsUpdates(env, "C12.weights")
		directedHandover(env, "boundary-first", []uint64{0, 1, 2, 3})
		directedHandover(env, "control", []uint64{3})
	}
	for hi := 0; hi < n; hi++ {
		spec := genOrcSpec(rng, false)
		minute := rng.Chance(1, 2)
		o := newOrc(env, env.Report.Seed*1000+uint64(hi), spec, func(c *ChainCfg) {
			if minute {
				c.EpochID = epochstypes.MinuteEpochID
			}
		})
		o.emitSetup()
		d := newOrcDriver(o, rng)
		nb := 20 + rng.Intn(maxBlocks)
		vsChanges := 0
		for b := 0; b < nb; b++ {
			if minute && env.Int("valset", 0) == 1 && rng.Chance(1, 5) {
				if a, ok := d.vsPick(); ok {
					o.vsDo(a)
				}
			}
			pu := env.Int("paramsupd", 0) == 1
			if pu && rng.Bool() {
				d.maybeUpdate(1, 6)
			}
			d.block(18)
			if pu {
				d.maybeUpdate(1, 12)
			}
			upd, halted := d.endBlock()
			if halted {
				env.Violate("C12.halt", "halt", "EndBlock panicked: "+o.halted, o.hist)
				break
			}
			if len(upd) > 0 {
				vsChanges++
				d.applyUpdates(upd)
				for _, p := range upd {
					if p == 0 {
						env.Outcome("valset-change:removal")
					} else {
						env.Outcome("valset-change:power-or-addition")
					}
				}
			}
			d.afterEndBlock()
			d.idsMonitor(uint64(o.c.Header.Height), nil)
			step := time.Duration(1+rng.Intn(5)) * time.Second
			if minute && rng.Chance(1, 6) {
				step = time.Duration(55+rng.Intn(20)) * time.Second
			}
			if !d.commitBegin(step) {
				env.Violate("C12.halt", "halt", "Commit/BeginBlock panicked: "+o.halted, o.hist)
				break
			}
		}
		env.Report.Histories++
		env.Outcome(fmt.Sprintf("valset-changes>0=%v", vsChanges > 0))
		env.Outcome(fmt.Sprintf("finals>0=%v", d.finals > 0))
		if d.finals > 0 || vsChanges > 0 {
			env.DistinctKey(fmt.Sprintf("h%d-v%d-f%d-t%d-x%d-c%d", hi, len(spec.Powers), len(spec.Feeders), d.nTx, d.finals, vsChanges))
		}
		if hi < 2 {
			env.Sample(strings.Join(o.hist[:min(len(o.hist), 30)], " ; "))
		}
	}
	return nil
}

var reRounds = regexp.MustCompile(`\|R:([^|]*)\|W:`)

// roundStatus reads the real in-memory status of a feeder's round (0 none, 1 open, 2 closed).
func (d *orcDriver) roundStatus(fid int) int {
	dump := oraclekeeper.VerifDumpAgc(d.name)
	m := reRounds.FindStringSubmatch(dump)
	if m == nil {
		return 0
	}
	for _, e := range strings.Split(m[1], ";") {
		var id, b, n, st int
		if _, err := fmt.Sscanf(e, "%d:%d,%d,%d", &id, &b, &n, &st); err == nil && id == fid {
			return st
		}
	}
	return 0
}

// couldFinalize (generator steering only): would a first report of validator v push the reporting
// power of feeder fi's current round over the threshold?
func (d *orcDriver) couldFinalize(fi, v int) bool {
	dump := oraclekeeper.VerifDumpAgc(d.name)
	re := regexp.MustCompile(fmt.Sprintf(`[:;]%d:\{[^}]*\}\{F:[^}]*\}\{C:[^}]*\}\{A:[^,}]*,(-?\d+),(-?\d+) ([^}]*)\}`, fi+1))
	rp, total := big.NewInt(0), big.NewInt(0)
	for _, p := range d.powers {
		total.Add(total, big.NewInt(p))
	}
	already := false
	if m := re.FindStringSubmatch(dump); m != nil {
		rp = bigOf(m[1])
		already = strings.Contains(m[3], fmt.Sprintf(" v%02d/", v))
	}
	if !already {
		rp = new(big.Int).Add(rp, big.NewInt(d.powers[v]))
	}
	return exceeds(rp, total, d.spec.ThA, d.spec.ThB)
}

// directedC12MultiMsg replays the witness of `C12_full_fails` on the real application: three equal
// validators, the third one's first message tips the round over the threshold, the second message
// of the same transaction is refused (the round is closed by then) — the whole tx fails, the price
// write is rolled back, the in-memory round stays closed. The round id is skipped, and from then on
// every final price of the feeder hits the id-mismatch path: the token's price is frozen.
func directedC12MultiMsg(env *Env) {
	spec := orcSpec{Powers: []int64{10, 10, 10}, MaxNonce: 3, ThA: 2, ThB: 3, MaxDetID: 5, MaxSize: 100,
		Sources: [][2]bool{{true, true}}, Rules: [][]uint64{{0}, {1}}, TokenDec: []int32{0},
		Feeders: []orcFeeder{{Token: 1, Rule: 2, StartRound: 2, StartBase: 2, Interval: 7}}, GenNext: []uint64{2}, GenPrice: []string{"1"}}
	o := newOrc(env, 424242, spec, nil)
	o.emitSetup()
	d := newOrcDriver(o, NewRNG(1))
	mk := func(v int, base uint64, nonce int32, price string) orcMsg {
		return orcMsg{Creator: v, Feeder: 1, Based: base, Nonce: nonce, Srcs: []orcSource{{ID: 1, Prices: []orcPrice{{Price: price, Dec: 0, Ts: o.c.Header.Time.Unix(), DetID: "9"}}}}}
	}
	step := func() bool {
		if _, h := d.endBlock(); h {
			return false
		}
		d.idsMonitor(uint64(o.c.Header.Height), nil)
		return d.commitBegin(2 * time.Second)
	}
	step() // block 1
	step() // block 2: round with base 2 opens at its EndBlock
	open := map[int]uint64{0: 2}
	d.roundLog(0, 2)
	d.sendTx(orcTx{Msgs: []orcMsg{mk(0, 2, 1, "2")}}, open)
	d.sendTx(orcTx{Msgs: []orcMsg{mk(1, 2, 1, "2")}}, open)
	cls := d.sendTx(orcTx{Msgs: []orcMsg{mk(2, 2, 1, "2"), mk(2, 2, 2, "2")}}, open)
	env.Outcome("directed-multimsg:" + cls)
	d.tainted = map[uint64]bool{} // let the independent id monitor speak for itself in this scenario
	d.sigTag = ":multi-msg-tx"
	for b := 0; b < 8; b++ {      // through the end of the window and into the next round (base 9)
		if !step() {
			return
		}
		if o.c.Header.Height == 10 {
			open = map[int]uint64{0: 9}
			d.roundLog(0, 9)
			for v := 0; v < 3; v++ {
				d.sendTx(orcTx{Msgs: []orcMsg{mk(v, 9, 1, "3")}}, open)
			}
		}
	}
	pr, _ := o.c.App.OracleKeeper.GetPriceTRLatest(o.ctx(), 1)
	env.Eval("C12.once")
	if pr.Price != "3" {
		env.Violate("C12.once", "price-frozen-after-skipped-round:multi-msg-tx", fmt.Sprintf("all three validators reported 3 for the next round; stored latest price is %q (round %d)", pr.Price, pr.RoundID), o.hist)
	}
	env.Report.Histories++
}
