package main

// directedRules (C13 "counted only if … its sources and decimals match the feeder's rule and token"):
// the source lists a submission can carry × the three kinds of rule, on the real DeliverTx / CheckTx.
//
//	sources  1 valid, deterministic   2 valid, not deterministic   3 NOT valid, not deterministic
//	         (0 = "custom defined source": accepted by IsValidSource, treated as non-deterministic)
//	rules    1 = [0]   "every valid source"           feeder 1 (token 1)
//	         2 = [1,2] both listed sources             feeder 2 (token 2)
//	         3 = [3]   names the source flagged invalid feeder 3 (token 3)
//	         4 = [1]                                    feeder 4 (token 4, control)
//
// Every validator sends, for every feeder and in every round, the next source list of a fixed cycle
// ([1], [2], [1,2], [2,1], [2,2], [1,1], [3], [0], [0,2], [3,2], [1,2,3], [2,0]); which of them
// IsValidSource / CheckRules let through is decided by the real code and must be reproduced by the
// model (sanitySources / checkRules) — note that CheckRules only requires the LAST listed (or last
// valid) source, which the model transcribes as it is.
import (
	"fmt"
	"time"
)

func directedRules(env *Env) {
	spec := orcSpec{Powers: []int64{10, 10, 10, 10}, MaxNonce: 3, ThA: 2, ThB: 3, MaxDetID: 5, MaxSize: 100,
		Sources:  [][2]bool{{true, true}, {true, false}, {false, false}},
		Rules:    [][]uint64{{0}, {1, 2}, {3}, {1}},
		TokenDec: []int32{0, 0, 0, 0},
		Feeders: []orcFeeder{
			{Token: 1, Rule: 1, StartRound: 2, StartBase: 1, Interval: 6},
			{Token: 2, Rule: 2, StartRound: 2, StartBase: 1, Interval: 6},
			{Token: 3, Rule: 3, StartRound: 2, StartBase: 2, Interval: 6},
			{Token: 4, Rule: 4, StartRound: 2, StartBase: 2, Interval: 6}},
		GenNext: []uint64{2, 2, 2, 2}, GenPrice: []string{"1", "1", "1", "1"}}
	o := newOrc(env, 131377, spec, nil)
	o.emitSetup()
	a := &admDriver{orcDriver: newOrcDriver(o, NewRNG(1377)), quota: map[string]int{}}
	a.wMon = "C13.counted"
	cycle := [][]uint64{{1}, {2}, {1, 2}, {2, 1}, {2, 2}, {1, 1}, {3}, {0}, {0, 2}, {3, 2}, {1, 2, 3}, {2, 0}}
	next := make([]int, len(spec.Feeders))
	tot := 0
	for b := 0; b < 40; b++ {
		h := uint64(o.c.Header.Height)
		open := map[int]uint64{}
		for fi := range spec.Feeders {
			if bb := spec.openBase(fi, h); bb > 0 {
				open[fi] = bb
				a.roundLog(fi, bb)
			}
		}
		for fi := range spec.Feeders {
			base, isOpen := open[fi]
			if !isOpen {
				continue
			}
			for v := 0; v < len(spec.Powers); v++ {
				n, has := a.nonceOf(v, uint64(fi+1))
				if !has || n >= spec.MaxNonce || a.roundStatus(fi+1) != 1 {
					continue
				}
				list := cycle[next[fi]%len(cycle)]
				next[fi]++
				tot++
				m := orcMsg{Creator: v, Feeder: uint64(fi + 1), Based: base, Nonce: n + 1}
				for _, sid := range list {
					src := orcSource{ID: sid}
					p := orcPrice{Price: fmt.Sprint(2 + (tot % 3)), Dec: 0, Ts: o.c.Header.Time.Unix()}
					if sid == 1 {
						p.DetID = fmt.Sprint(9 + h)
						p.Price = "2"
					}
					src.Prices = []orcPrice{p}
					m.Srcs = append(m.Srcs, src)
				}
				cls := a.send(orcTx{Msgs: []orcMsg{m}}, open, "")
				env.Outcome(fmt.Sprintf("rules:feeder%d:%s=%s", fi+1, joinU(list), cls))
			}
		}
		if _, halted := a.endBlock(); halted {
			env.Violate("C13.halt", "halt", "EndBlock panicked: "+o.halted, o.hist)
			return
		}
		a.idsMonitor(uint64(o.c.Header.Height), nil)
		if !a.commitBegin(2 * time.Second) {
			env.Violate("C13.halt", "halt", "Commit/BeginBlock panicked: "+o.halted, o.hist)
			return
		}
	}
	env.Report.Histories++
}

// ruleMonitor (C13 "counted only if … its sources … match the feeder's rule"): a counted submission
// carries every source the feeder's rule asks for — the listed ones, or, for a rule starting with 0,
// every source flagged valid. CheckRules only enforces the LAST of them (finding F-13b: sig with the
// tag); a counted submission that misses even that one gets the untagged sig.
func (a *admDriver) ruleMonitor(m orcMsg, fi int) {
	s := a.spec
	if fi < 0 || fi >= len(s.Feeders) {
		return
	}
	rid := int(s.Feeders[fi].Rule)
	if rid < 1 || rid > len(s.Rules) {
		return
	}
	rule := s.Rules[rid-1]
	if len(rule) == 0 {
		return
	}
	var req []uint64
	if rule[0] == 0 {
		for i, sc := range s.Sources {
			if sc[0] {
				req = append(req, uint64(i+1))
			}
		}
	} else {
		req = rule
	}
	a.env.Eval("C13.counted")
	has := map[uint64]bool{}
	for _, sc := range m.Srcs {
		has[sc.ID] = true
	}
	var missing []uint64
	for _, r := range req {
		if !has[r] {
			missing = append(missing, r)
		}
	}
	if len(missing) == 0 {
		return
	}
	var got []uint64
	for _, sc := range m.Srcs {
		got = append(got, sc.ID)
	}
	what := fmt.Sprintf("feeder %d (rule %v, required sources %v): counted a submission with sources %v — %v missing", fi+1, rule, req, got, missing)
	if len(req) > 0 && !has[req[len(req)-1]] {
		a.env.Violate("C13.counted", "counted-rule-source-missing", what, a.hist)
		return
	}
	if !a.f13bSeen {
		a.f13bSeen = true // once per history
		a.env.Violate("C13.counted", "counted-rule-source-missing:F-13b", what+" (CheckRules requires only the last listed source)", a.hist)
	}
}
