package main

// C10, group P2: price submissions of SEVERAL validators in one transaction. The property's clause
// "price submissions only when signed by the consensus key of the validator they are attributed to"
// holds per attributed validator, i.e. per signer of the tx: rows = both validators of the chain in
// either slot order × {all slots properly signed, one slot signed by an outsider's key, 64 junk
// bytes, empty signature, the two slots exchanged}. One decision line per tx
// (`auth.oracleTx (v sig)*` — Model/Auth.lean: admitOraclePriceTx), probed through CheckTx and
// DeliverTx separately; a refused tx must leave every custom store byte-identical.

import (
	"fmt"
	"strings"
	"time"

	abci "github.com/cometbft/cometbft/abci/types"
	cryptotypes "github.com/cosmos/cosmos-sdk/crypto/types"
	sdk "github.com/cosmos/cosmos-sdk/types"
	"github.com/cosmos/cosmos-sdk/types/tx/signing"
	authsigning "github.com/cosmos/cosmos-sdk/x/auth/signing"

	oracletypes "github.com/ExocoreNetwork/exocore/x/oracle/types"
)

func (h *authH) oracleMultiGroup() {
	c := h.c
	if len(c.ConsPrivs) < 2 {
		return
	}
	txCfg := c.App.GetTxConfig()
	for c.Ctx.BlockHeight() < 12 { // proposal window of the round based at block 11 (as in oracleGroup)
		c.EndAndBegin(time.Second)
		h.ctxFix()
	}
	_, outsider := NewConsKey(c.Cfg.Seed, "strangercons", 1)
	maxNonce := uint32(c.App.OracleKeeper.GetParams(c.Ctx).MaxNonce)
	nFeeders := len(c.App.OracleKeeper.GetParams(c.Ctx).TokenFeeders) - 1
	nonceOf := func(pk cryptotypes.PubKey, feeder uint64) (uint32, bool) {
		n, found := c.App.OracleKeeper.GetNonce(c.Ctx, sdk.ConsAddress(pk.Address()).String())
		if !found {
			return 0, false
		}
		for _, x := range n.NonceList {
			if x.FeederID == feeder {
				return x.Value, true
			}
		}
		return 0, false
	}
	mkMsg := func(creator sdk.AccAddress, nonce int32, feeder uint64) *oracletypes.MsgCreatePrice {
		return &oracletypes.MsgCreatePrice{Creator: creator.String(), FeederID: feeder, BasedBlock: 11, Nonce: nonce,
			Prices: []*oracletypes.PriceSource{{SourceID: 1, Prices: []*oracletypes.PriceTimeDetID{{Price: "2", Decimal: 0, Timestamp: c.Ctx.BlockTime().UTC().Format("2006-01-02 15:04:05"), DetID: "9"}}}}}
	}
	rows := []struct {
		ident string
		order []int
		muts  []orcSigMut
	}{
		{"twoValidators-bothSign", []int{0, 1}, nil},
		{"twoValidators-secondSlotOtherKeySigns", []int{0, 1}, []orcSigMut{{Pos: 1, Kind: "forge"}}},
		{"twoValidators-secondSlotGarbage", []int{0, 1}, []orcSigMut{{Pos: 1, Kind: "junk"}}},
		{"twoValidators-secondSlotEmpty", []int{1, 0}, []orcSigMut{{Pos: 1, Kind: "empty"}}},
		{"twoValidators-firstSlotOtherKeySigns", []int{0, 1}, []orcSigMut{{Pos: 0, Kind: "forge"}}},
		{"twoValidators-slotsExchanged", []int{0, 1}, []orcSigMut{{Pos: 0, Kind: "swap", With: 1}}},
		{"twoValidators-reversed-secondSlotOtherKeySigns", []int{1, 0}, []orcSigMut{{Pos: 1, Kind: "forge"}}},
	}
	for _, row := range rows {
		pubs := make([]cryptotypes.PubKey, len(row.order))
		for i, k := range row.order {
			pubs[i] = c.ConsPrivs[k].PubKey()
		}
		feeder := uint64(0)
		for f := uint64(1); f <= uint64(nFeeders) && feeder == 0; f++ {
			room := true
			for _, pk := range pubs {
				n, ok := nonceOf(pk, f)
				room = room && ok && n+1 <= maxNonce
			}
			if room {
				feeder = f
			}
		}
		if feeder == 0 {
			h.env.Note("oracle-multi:no-nonce-room:" + row.ident)
			continue
		}
		b := txCfg.NewTxBuilder()
		var msgs []sdk.Msg
		n0 := make([]uint32, len(pubs))
		isVal := make([]bool, len(pubs))
		for i, pk := range pubs {
			n0[i], isVal[i] = nonceOf(pk, feeder)
			msgs = append(msgs, mkMsg(sdk.AccAddress(pk.Address()), int32(n0[i])+1, feeder))
		}
		if err := b.SetMsgs(msgs...); err != nil {
			h.env.Note("oracle-multi-build-error:" + err.Error())
			continue
		}
		b.SetGasLimit(200000)
		mode := txCfg.SignModeHandler().DefaultMode()
		var sigs []signing.SignatureV2
		for _, pk := range pubs {
			sigs = append(sigs, signing.SignatureV2{PubKey: pk, Data: &signing.SingleSignatureData{SignMode: mode}, Sequence: 0})
		}
		if err := b.SetSignatures(sigs...); err != nil {
			h.env.Note("oracle-multi-build-error:" + err.Error())
			continue
		}
		bytesToSign, err := txCfg.SignModeHandler().GetSignBytes(mode, authsigning.SignerData{ChainID: c.Cfg.ChainID}, b.GetTx())
		if err != nil {
			h.env.Note("oracle-multi-build-error:" + err.Error())
			continue
		}
		for i, k := range row.order {
			sg, err := c.ConsPrivs[k].Sign(bytesToSign)
			if err != nil {
				panic(err)
			}
			sigs[i].Data = &signing.SingleSignatureData{SignMode: mode, Signature: sg}
		}
		if err := b.SetSignatures(sigs...); err != nil {
			h.env.Note("oracle-multi-build-error:" + err.Error())
			continue
		}
		bz, err := txCfg.TxEncoder()(b.GetTx())
		if err != nil {
			h.env.Note("oracle-multi-build-error:" + err.Error())
			continue
		}
		bz, valid, err := rawSigMut(c.Cfg.ChainID, bz, pubs, row.muts, outsider)
		if err != nil {
			h.env.Note("oracle-multi-build-error:" + err.Error())
			continue
		}
		before := xbSnapshot(c, c.Ctx, true)
		var checkCode uint32
		checkPanic := ""
		func() {
			defer func() {
				if r := recover(); r != nil {
					checkPanic = fmt.Sprint(r)
				}
			}()
			checkCode = c.App.CheckTx(abci.RequestCheckTx{Tx: bz, Type: abci.CheckTxType_New}).Code
		}()
		r := xbDeliver(c, bz, false)
		moved := false
		var nn []string
		for i, pk := range pubs {
			n1, _ := nonceOf(pk, feeder)
			moved = moved || n1 > n0[i]
			nn = append(nn, fmt.Sprintf("%d->%d", n0[i], n1))
		}
		// admitted by the authorization layer = the ante chain let it through (nonces consumed)
		admitted := r.Panic == "" && (r.DeliverCode == 0 || moved)
		checkAdmitted := checkPanic == "" && checkCode == 0
		h.env.Note(fmt.Sprintf("oracle-multi:%s:check=%d deliver=%d nonces %s", row.ident, checkCode, r.DeliverCode, strings.Join(nn, ",")))
		op := "auth.oracleTx"
		var unsigned []int
		for i := range pubs {
			sk := "valid"
			if !valid[i] {
				sk = "forged"
				unsigned = append(unsigned, row.order[i])
			}
			op += " " + b01(isVal[i]) + " " + sk
		}
		obs := "reject"
		if admitted {
			obs = "accept"
		}
		h.env.Op(op, obs)
		desc := fmt.Sprintf("oracle.CreatePrice (2 creators, feeder %d) as %s (mainnet=%v) => %s", feeder, row.ident, h.mainnet, obs)
		h.hist = append(h.hist, desc)
		h.env.Outcome("oracle.CreatePrice|" + row.ident + ":" + obs)
		h.env.DistinctKey("oracle.CreatePrice|" + row.ident + "|" + b01(h.mainnet))
		h.env.Eval("C10.reject-changes-nothing")
		if !admitted {
			after := xbSnapshot(c, c.Ctx, true)
			if st, det := xbDiff(before, after); len(st) > 0 {
				h.violate("C10.reject-changes-nothing", "reject-dirty:oracle.CreatePrice:"+row.ident, fmt.Sprintf("%s rejected but changed %v: %s", desc, st, det))
			}
		}
		h.env.Eval("C10.acts-only-for-caller")
		if admitted && len(unsigned) > 0 {
			h.violate("C10.acts-only-for-caller", "forged-cosigner-admitted:oracle.CreatePrice",
				fmt.Sprintf("%s: admitted by DeliverTx (code %d, nonces %s) although the signature slot of validator(s) %v does not verify against their consensus key: their price submission was executed as if they had sent it", desc, r.DeliverCode, strings.Join(nn, ","), unsigned))
		}
		if checkAdmitted && len(unsigned) > 0 {
			h.violate("C10.acts-only-for-caller", "checktx-forged-cosigner-admitted:oracle.CreatePrice",
				fmt.Sprintf("%s: admitted by CheckTx although the signature slot of validator(s) %v does not verify against their consensus key", desc, unsigned))
		}
	}
}
