package main

// C07 / C16 (conskeys domain) — the ENTRY POINT of a delegation / undelegation.
//
// A staker's request never reaches x/delegation's keeper directly: it arrives as a call of the gateway contract to the
// delegation precompile (0x…0805), which holds ITS OWN COPY of the delegation keeper (app/app.go hands the keeper to
// evmkeeper.AvailablePrecompiles by value). Finding F-16b: that copy was made before SetHooks, so requests through the
// precompile never reached dogfood's AfterUndelegationStarted — no hold for an undelegation from a validating or an
// opting-out operator, released after operatortypes.UnbondingExpiration (10) blocks instead of with the unbonding
// epochs / the opt-out. Every monitor of C16's hold clauses used to look at the keeper path only.
//
// Here every undelegation (and every funding = deposit + delegation + association) of the domain goes, by a seeded coin
// flip, either through the keepers (as before) or through the REAL precompiles via x/evm's ApplyMessageWithConfig with
// the configured gateway as caller (xbEvmCall, the same call the ledger domain makes). The op line carries the entry
// point (`ck.undel <op> <rec> keeper|precompile`); the Lean model's step is the same for both (the hook is part of the
// undelegation whoever asks), so one diverging path is a `model-diff:conskeys`, and the hold monitors of
// doUndelegate / monitors() judge both. `pc=0` switches the routing off.
//
// Monitor C16.entry (sigs `F-16b:…`, with and without a scenario prefix): for a request that came through the
// precompile, an undelegation from a validating operator must be held (hold count >= 1, maturity epoch = current +
// EpochsUntilUnbonded), one from an opting-out operator must mature with the opt-out, and until the block that closes
// that epoch the record must still be pending in x/delegation with its hold — whatever number of blocks has passed.

import (
	"errors"
	"fmt"
	"math/big"
	"time"

	sdkmath "cosmossdk.io/math"
	sdk "github.com/cosmos/cosmos-sdk/types"
	"github.com/ethereum/go-ethereum/common"

	delegationtypes "github.com/ExocoreNetwork/exocore/x/delegation/types"
	epochstypes "github.com/ExocoreNetwork/exocore/x/epochs/types"
	operatortypes "github.com/ExocoreNetwork/exocore/x/operator/types"
)

// ckEntry: per-world routing state (embedded in ckWorld)
type ckEntry struct {
	pcRng    *RNG
	forceVia string // "" = coin flip, "keeper", "precompile"
	abis     *xbABIs
	recVia   []string  // record id -> entry point
	watches  []ckWatch // precompile undelegations that must stay pending until their epoch closes
}

type ckWatch struct {
	rec    int
	op     int
	slot   int64
	optout bool
}

// proposerReady: x/evm resolves the block proposer to a validator before it runs anything (EVMConfig ->
// GetCoinbaseAddress). The harness keeps the genesis key 0 as proposer of every header; once that key is pruned the
// lookup fails for a reason a real chain cannot have (the proposer is always in the active set), so the call is made
// under a header whose proposer is a validator that resolves. false = no validator resolves (keeper path only).
func (w *ckWorld) proposerReady() (restore func(), ok bool) {
	c := w.C
	k := c.App.EvmKeeper
	try := func(ctx sdk.Context, addr []byte) (ok bool) {
		defer func() {
			if r := recover(); r != nil {
				ok = false
			}
		}()
		_, err := k.EVMConfig(ctx, sdk.ConsAddress(addr), k.ChainID())
		return err == nil
	}
	old := c.Ctx.BlockHeader()
	if try(c.Ctx, old.ProposerAddress) {
		return func() {}, true
	}
	for _, v := range c.App.StakingKeeper.GetAllExocoreValidators(c.Ctx) {
		h := old
		h.ProposerAddress = v.Address
		ctx := c.Ctx.WithBlockHeader(h)
		if try(ctx, v.Address) {
			c.Ctx = ctx
			return func() { c.Ctx = c.Ctx.WithBlockHeader(old) }, true
		}
	}
	return nil, false
}

// usePC decides the entry point of the next request; the restore func must be called after the request
func (w *ckWorld) usePC() (restore func(), pc bool) {
	want := false
	switch {
	case w.forceVia == "precompile":
		want = true
	case w.forceVia == "keeper" || w.env.Int("pc", 1) == 0:
		want = false
	default:
		if w.pcRng == nil {
			w.pcRng = NewRNG(w.C.Cfg.Seed ^ 0xF16B)
		}
		want = w.pcRng.Chance(1, 2)
	}
	if !want {
		return func() {}, false
	}
	restore, ok := w.proposerReady()
	if !ok {
		w.env.Outcome("entry:precompile-unavailable:no-resolvable-proposer")
		return func() {}, false
	}
	return restore, true
}

// pcCall: one call as the gateway; the outcome mapped to the error a keeper call would have given (nil / error /
// "panic: …" — a panic is recovered by baseapp in a real tx: nothing is written)
func (w *ckWorld) pcCall(what string, assets bool, method string, args ...interface{}) error {
	c := w.C
	if w.abis == nil {
		a := xbLoadABIs(c)
		w.abis = &a
	}
	a, to := w.abis.deleg, xbDelegAddr
	if assets {
		a, to = w.abis.assets, xbAssetsAddr
	}
	data, err := a.Pack(method, args...)
	if err != nil {
		return fmt.Errorf("panic: harness could not pack %s: %v", method, err)
	}
	m := a.Methods[method]
	// a transaction has a gas meter of its own (see dom_ledger_precompile.go: pc)
	c.Ctx = c.Ctx.WithGasMeter(sdk.NewInfiniteGasMeter())
	r := xbEvmCall(c, c.Funded.Eth, to, data, &m)
	w.env.Outcome("entry:via-precompile." + what + "." + r.Class())
	switch r.Class() {
	case "ok":
		return nil
	case "panic":
		return errors.New("panic: " + r.Panic)
	case "false":
		return errors.New("precompile reported false")
	}
	return errors.New("precompile call failed: " + r.Class() + " " + r.VMErr + r.Err)
}

// undelegateVia starts a real undelegation through the chosen entry point; returns the record key and the entry point
func (w *ckWorld) undelegateVia(staker common.Address, op int, amt sdkmath.Int) (key []byte, via string, err error) {
	restore, pc := w.usePC()
	defer restore()
	if !pc {
		key, err = w.Undelegate(staker, op, amt)
		return key, "keeper", err
	}
	c := w.C
	w.nonce++
	hash := xbNextTxHash() // the record is keyed by the hash of the EVM transaction
	key = delegationtypes.GetUndelegationRecordKey(uint64(c.Ctx.BlockHeight()), w.nonce, hash.String(), w.Ops[op].Acc.String())
	err = w.pcCall("undelegate", false, "undelegate", uint32(c.LzID), w.nonce, pad32(w.assetAddr()), pad32(staker.Bytes()),
		[]byte(w.Ops[op].Acc.String()), new(big.Int).Set(amt.BigInt()))
	return key, "precompile", err
}

// fundVia = World.DepositDelegate (deposit, delegate, associate when self) through the chosen entry point. Through the
// precompiles the three steps are three gateway calls (not one atomic message), as on the real chain.
func (w *ckWorld) fundVia(staker common.Address, op int, amt sdkmath.Int, self bool) (via string, err error) {
	restore, pc := w.usePC()
	defer restore()
	if !pc || !amt.IsPositive() {
		return "keeper", w.DepositDelegate(staker, op, amt, self)
	}
	c := w.C
	x := func() *big.Int { return new(big.Int).Set(amt.BigInt()) }
	if err = w.pcCall("deposit", true, "depositLST", uint32(c.LzID), pad32(w.assetAddr()), pad32(staker.Bytes()), x()); err != nil {
		return "precompile", err
	}
	w.nonce++
	if err = w.pcCall("delegate", false, "delegate", uint32(c.LzID), w.nonce, pad32(w.assetAddr()), pad32(staker.Bytes()),
		[]byte(w.Ops[op].Acc.String()), x()); err != nil {
		return "precompile", err
	}
	if self {
		sid := StakerIDOf(c.LzID, staker)
		if cur, _ := c.App.DelegationKeeper.GetAssociatedOperator(c.Ctx, sid); cur == "" {
			err = w.pcCall("associate", false, "associateOperatorWithStaker", uint32(c.LzID), pad32(staker.Bytes()), []byte(w.Ops[op].Acc.String()))
		}
	}
	return "precompile", err
}

// entryJudge: the hold clause for a request that came through the precompile (called by doUndelegate with what it read
// before and after the request). want = "validator" | "optout"; slot = the epoch whose end must release the record.
func (w *ckWorld) entryJudge(rec, op int, via, want string, slot int64, hc uint64, me int64, hasM bool) {
	if via != "precompile" {
		return
	}
	w.env.Eval("C16.entry")
	w.env.Outcome(fmt.Sprintf("entry:undelegate.via-precompile.from-%s.held=%v", want, hc >= 1))
	// the request itself is part of the history (doUndelegate emits its op line after the monitors)
	hist := append(append([]string{}, w.hist...), fmt.Sprintf("ck.undel %d %d %s", op, rec, via))
	switch want {
	case "validator":
		if hc < 1 || !hasM || me != slot {
			w.viol("C16.entry", "F-16b:precompile-undelegation-not-held", fmt.Sprintf("undelegation %d from validating operator %d arrived through the delegation precompile: hold=%d maturity=%d(%v), want a hold until epoch %d ends (the keeper path places it; the precompile's copy of the delegation keeper has no hooks)", rec, op, hc, me, hasM, slot), hist)
		}
	case "optout":
		if hc < 1 || !hasM || me != slot {
			w.viol("C16.entry", "F-16b:precompile-undelegation-matures-before-optout", fmt.Sprintf("undelegation %d from opting-out operator %d arrived through the delegation precompile: hold=%d maturity=%d(%v), the opt-out finishes when epoch %d ends", rec, op, hc, me, hasM, slot), hist)
		}
	}
	w.watches = append(w.watches, ckWatch{rec: rec, op: op, slot: slot, optout: want == "optout"})
}

// entryWatch (every monitors() round): until the block that closes its epoch, a watched record is still pending in
// x/delegation — its own expiry (UnbondingExpiration blocks) must not complete it. (A hold that was placed and lost while
// the record is pending is the timing monitor's `hold-lost`.)
func (w *ckWorld) entryWatch(ctx sdk.Context) {
	c := w.C
	ep := w.DogfoodEpoch(ctx)
	keep := w.watches[:0]
	for _, t := range w.watches {
		if ep > t.slot { // the epoch has ended (closing block or later): the timing monitors take over
			continue
		}
		w.env.Eval("C16.entry")
		_, err := c.App.DelegationKeeper.GetUndelegationRecords(ctx, []string{string(w.recs[t.rec])})
		hc := c.App.DelegationKeeper.GetUndelegationHoldCount(ctx, w.recs[t.rec])
		if err != nil { // completed and deleted by x/delegation's EndBlock (a hold that was never placed is reported by entryJudge)
			sig, until := "F-16b:precompile-undelegation-released-before-unbonding-epoch", "the unbonding epochs are over"
			if t.optout {
				sig, until = "F-16b:precompile-undelegation-released-before-optout", "the opt-out finishes"
			}
			w.viol("C16.entry", sig, fmt.Sprintf("undelegation %d from operator %d (through the precompile) in epoch %d at height %d: pending=%v hold=%d; it must stay pending and held until epoch %d ends (%s), x/delegation releases an unheld record after %d blocks",
				t.rec, t.op, ep, ctx.BlockHeight(), err == nil, hc, t.slot, until, operatortypes.UnbondingExpiration), w.hist)
			continue
		}
		keep = append(keep, t)
	}
	w.watches = keep
}

// scenarioF16b (every conskeys run): the requests of the finding, through the precompile only.
//  1. operator 0 validates; its staker undelegates; UnbondingExpiration+2 blocks pass, the epoch e+N has not closed:
//     the record must still be pending with a hold;
//  2. operator 1 (validating) opts out; its staker undelegates; again UnbondingExpiration+2 blocks: pending, held, maturing
//     with the opt-out;
//  3. the chain runs past every slot: both are released in the block that closes their epoch (timing monitors).
func scenarioF16b(env *Env) {
	cfg := DefaultCfg(env.Report.Seed*1000 + 997)
	cfg.EpochID = epochstypes.MinuteEpochID
	cfg.EpochsUntilUnbonded = 2
	cfg.MinSelfDelegation = 1
	w := newCkWorld(env, cfg, 2, 3)
	w.forceVia = "precompile"
	c := w.C
	const pfx = "F-16b:"
	blocks := func(n int) bool {
		for i := 0; i < n; i++ {
			if !w.doBlock(2*time.Second, pfx) {
				return false
			}
			w.monitors(c.Ctx, "tx", pfx)
		}
		return true
	}
	still := func(rec int, what string) {
		if rec >= len(w.recs) {
			return
		}
		_, err := c.App.DelegationKeeper.GetUndelegationRecords(c.Ctx, []string{string(w.recs[rec])})
		hc := c.App.DelegationKeeper.GetUndelegationHoldCount(c.Ctx, w.recs[rec])
		env.Outcome(fmt.Sprintf("scenario-f16b:%s:after-expiry-blocks:pending=%v,held=%v", what, err == nil, hc >= 1))
	}
	w.doUndelegate(0, 1, pfx)
	w.monitors(c.Ctx, "tx", pfx)
	if !blocks(operatortypes.UnbondingExpiration + 2) {
		return
	}
	still(0, "validator")
	w.doOptOut(1)
	w.monitors(c.Ctx, "tx", pfx)
	n := len(w.recs)
	w.doUndelegate(1, 1, pfx)
	w.monitors(c.Ctx, "tx", pfx)
	if !blocks(operatortypes.UnbondingExpiration + 2) {
		return
	}
	still(n, "optout")
	for i := 0; i < 4 && c.Halted == ""; i++ {
		if !w.doBlock(w.EpochDur+time.Second, pfx) {
			break
		}
		w.monitors(c.Ctx, "tx", pfx)
	}
	env.Report.Histories++
	env.Outcome("scenario-f16b")
}
