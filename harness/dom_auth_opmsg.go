package main

// C10 — "operator registration, opt-in/out, key changes … take effect only for the signer of the
// transaction". dom_auth.go decides WHO IS ADMITTED; this group decides ON WHOSE RECORD an admitted
// operator message lands. Every operator message (RegisterOperator, OptIntoAVS, OptOutOfAVS,
// SetConsKey) is sent as a real signed cosmos tx (CheckTx + DeliverTx) with every address-typed
// field of its payload set to somebody ELSE than the signer (Info.EarningsAddr, Info.ApproveAddr:
// a fresh account, and an already registered operator), and the effect is read off the real
// stores: the keys of all custom module stores (and bank) that changed are attributed to the
// actors of the scenario by the address they contain (raw bytes, bech32 text, hex text).
// Monitor C10.acts-only-for-caller: an accepted message changes keys of the signer and of nobody
// else, and does change the signer's. Op line `auth.opmsg <kind> <sig> <eq> <pe> <pa> <ok>` with
// observation `accept:<owners of the changed records>` / `reject`, reproduced by the Lean model
// (`opMsgRecordKeys`).

import (
	"encoding/hex"
	"fmt"
	"sort"
	"strings"
	"time"

	sdkmath "cosmossdk.io/math"
	cryptotypes "github.com/cosmos/cosmos-sdk/crypto/types"
	sdk "github.com/cosmos/cosmos-sdk/types"
	authtypes "github.com/cosmos/cosmos-sdk/x/auth/types"
	stakingtypes "github.com/cosmos/cosmos-sdk/x/staking/types"

	"github.com/ExocoreNetwork/exocore/utils"
	operatortypes "github.com/ExocoreNetwork/exocore/x/operator/types"
)

type opRole struct {
	role string // signer | earnings | approve | other
	a    Actor
}

// addrForms: the encodings under which an account address occurs in store keys
func addrForms(a Actor) []string {
	ethHex := a.Eth.Hex()[2:]
	return []string{
		hex.EncodeToString(a.Acc.Bytes()),
		hex.EncodeToString([]byte(a.Acc.String())),
		hex.EncodeToString([]byte(strings.ToLower(ethHex))),
		hex.EncodeToString([]byte(ethHex)),
	}
}

// touchedRoles: which roles own a key that differs between the two snapshots; bank keys are
// reported separately (fees)
func touchedRoles(before, after Snapshot, roles []opRole) (state map[string]string, bank map[string]bool) {
	state, bank = map[string]string{}, map[string]bool{}
	for store, mb := range before {
		ma := after[store]
		keys := map[string]bool{}
		for k := range mb {
			keys[k] = true
		}
		for k := range ma {
			keys[k] = true
		}
		for k := range keys {
			if mb[k] == ma[k] {
				continue
			}
			for _, r := range roles {
				for _, f := range addrForms(r.a) {
					if strings.Contains(k, f) {
						if store == "bank" {
							bank[r.role] = true
						} else if _, seen := state[r.role]; !seen {
							kk := k
							if len(kk) > 96 {
								kk = kk[:96] + "…"
							}
							state[r.role] = store + ":" + kk
						}
					}
				}
			}
		}
	}
	for store, ma := range after {
		if _, ok := before[store]; ok {
			continue
		}
		for k := range ma {
			for _, r := range roles {
				for _, f := range addrForms(r.a) {
					if strings.Contains(k, f) && store != "bank" {
						state[r.role] = store + ":" + k
					}
				}
			}
		}
	}
	return
}

func (h *authH) opMsgLine(kind, ident, sigKind string, eq, pe, pa, payloadOk bool, accepted bool, state map[string]string, before Snapshot, allowBank []string) {
	env := h.env
	name := "operator." + kind
	op := fmt.Sprintf("auth.opmsg %s %s %s %s %s %s", kind, sigKind, b01(eq), b01(pe), b01(pa), b01(payloadOk))
	obs := "reject"
	if accepted {
		var rs []string
		for r := range state {
			rs = append(rs, r)
		}
		sort.Strings(rs)
		obs = "accept:" + strings.Join(rs, ",")
	}
	env.Op(op, obs)
	desc := fmt.Sprintf("%s as %s (mainnet=%v) => %s", name, ident, h.mainnet, obs)
	h.hist = append(h.hist, desc)
	env.Outcome(name + "|" + ident + ":" + obs)
	env.DistinctKey(name + "|" + ident + "|" + b01(h.mainnet))
	env.Eval("C10.reject-changes-nothing")
	if !accepted && before != nil {
		after := xbSnapshot(h.c, h.c.Ctx, true)
		for _, a := range allowBank {
			for _, s := range []Snapshot{before, after} {
				for k := range s["bank"] {
					if strings.Contains(k, a) {
						delete(s["bank"], k)
					}
				}
			}
		}
		if st, det := xbDiff(before, after); len(st) > 0 {
			h.violate("C10.reject-changes-nothing", "reject-dirty:"+name+":"+ident, fmt.Sprintf("%s rejected but changed %v: %s", desc, st, det))
		}
	}
	env.Eval("C10.acts-only-for-caller")
	if accepted {
		var roles []string
		for r := range state {
			roles = append(roles, r)
		}
		sort.Strings(roles)
		for _, r := range roles {
			if r != "signer" {
				h.violate("C10.acts-only-for-caller", "record-of-non-signer-written:"+name+":"+r,
					fmt.Sprintf("%s: the transaction was signed by `signer` only, but a record keyed by the %s address changed (%s)", desc, r, state[r]))
			}
		}
		if _, ok := state["signer"]; !ok {
			h.violate("C10.acts-only-for-caller", "signer-record-not-written:"+name, desc+": accepted, but no record keyed by the signer's address changed")
		}
		if sigKind != "valid" {
			h.violate("C10.acts-only-for-caller", "forged-signature-admitted:"+name, desc+": a transaction whose signature does not verify was admitted")
		}
	}
}

func (h *authH) operatorMsgGroup() {
	c := h.c
	seed := c.Cfg.Seed
	txCfg := c.App.GetTxConfig()
	fee := sdk.NewCoins(sdk.NewCoin(utils.BaseDenom, sdkmath.NewIntWithDecimal(1, 16)))
	feeColl := fmt.Sprintf("%x", authtypes.NewModuleAddress(authtypes.FeeCollectorName).Bytes())
	attacker := NewActor(seed, "attacker", 0)
	s1, s2, s3 := NewActor(seed, "opmsgS", 1), NewActor(seed, "opmsgS", 2), NewActor(seed, "opmsgS", 3)
	p1, q1 := NewActor(seed, "opmsgP", 1), NewActor(seed, "opmsgQ", 1)
	p3 := NewActor(seed, "opmsgP", 3)
	avsM := NewActor(seed, "avsM", 0)
	op0, op1 := c.Operators[0], c.Operators[1]
	for _, a := range []Actor{attacker, s1, s2, s3, avsM, op0, op1} {
		h.fund(a)
	}
	// an AVS without minimum self delegation, for the opt-in / opt-out rows
	okAVS, _ := h.evmAccept(avsM.Eth, xbAvsAddr, h.abis.avs, "registerAVS", avsM.Eth, "avsM", uint64(1), NewActor(seed, "taskM", 0).Eth,
		NewActor(seed, "slashM", 0).Eth, NewActor(seed, "rewardM", 0).Eth, []string{avsM.Acc.String()}, []string{c.AssetIDs[0]},
		uint64(2), uint64(0), "day", []uint64{1, 1, 5, 5})
	if !okAVS {
		h.env.Note("opmsg-setup-failed:registerAVS")
	}
	// CheckTx reads the last committed state: commit the funding
	if r := c.EndAndBegin(time.Second); r.Halt != "" {
		h.env.Note("halt-in-operatorMsgGroup")
		return
	}
	h.ctxFix()
	info := func(earn, approve Actor, meta string) *operatortypes.OperatorInfo {
		return &operatortypes.OperatorInfo{EarningsAddr: earn.Acc.String(), ApproveAddr: approve.Acc.String(), OperatorMetaInfo: meta,
			Commission: stakingtypes.NewCommission(sdk.ZeroDec(), sdk.ZeroDec(), sdk.ZeroDec())}
	}
	type row struct {
		kind, ident string
		signer      Actor
		sigKind     string
		msg         sdk.Msg
		roles       []opRole // besides the signer
		pe, pa      bool     // payload earnings / approve address = signer
		payloadOk   func() bool
	}
	isOp := func(a Actor) bool { return c.App.OperatorKeeper.IsOperator(c.Ctx, a.Acc) }
	newKey, _ := NewConsKey(seed, "opmsgkey", 0)
	rows := []row{
		// ---- RegisterOperator: every address of the payload differs from the signer
		{"RegisterOperator", "forgedSig-earningsAndApproveAreOthers", s1, "forged",
			&operatortypes.RegisterOperatorReq{FromAddress: s1.Acc.String(), Info: info(p1, q1, "s1")},
			[]opRole{{"earnings", p1}, {"approve", q1}, {"other", op0}}, false, false, func() bool { return !isOp(s1) }},
		{"RegisterOperator", "validSig-earningsAndApproveAreFreshAccounts", s1, "valid",
			&operatortypes.RegisterOperatorReq{FromAddress: s1.Acc.String(), Info: info(p1, q1, "s1")},
			[]opRole{{"earnings", p1}, {"approve", q1}, {"other", op0}}, false, false, func() bool { return !isOp(s1) }},
		{"RegisterOperator", "validSig-earningsAndApproveAreARegisteredOperator", s2, "valid",
			&operatortypes.RegisterOperatorReq{FromAddress: s2.Acc.String(), Info: info(op0, op0, "s2 pays operator 0")},
			[]opRole{{"earnings", op0}, {"other", op1}}, false, false, func() bool { return !isOp(s2) }},
		{"RegisterOperator", "validSig-earningsIsSignerApproveIsOther", s3, "valid",
			&operatortypes.RegisterOperatorReq{FromAddress: s3.Acc.String(), Info: info(s3, op1, "s3")},
			[]opRole{{"approve", op1}, {"other", op0}}, true, false, func() bool { return !isOp(s3) }},
		{"RegisterOperator", "validSig-registeredOperatorAgain-earningsIsFreshAccount", op0, "valid",
			&operatortypes.RegisterOperatorReq{FromAddress: op0.Acc.String(), Info: info(p3, p3, "op0 again")},
			[]opRole{{"earnings", p3}, {"other", op1}}, false, false, func() bool { return !isOp(op0) }},
		// ---- OptIntoAVS / OptOutOfAVS (no address of an account in the payload: nobody else's record may move)
		{"OptIntoAVS", "forgedSig", s1, "forged",
			&operatortypes.OptIntoAVSReq{FromAddress: s1.Acc.String(), AvsAddress: strings.ToLower(avsM.Eth.Hex())},
			[]opRole{{"earnings", p1}, {"approve", q1}, {"other", op0}}, false, false, func() bool { return okAVS && isOp(s1) }},
		{"OptIntoAVS", "validSig", s1, "valid",
			&operatortypes.OptIntoAVSReq{FromAddress: s1.Acc.String(), AvsAddress: strings.ToLower(avsM.Eth.Hex())},
			[]opRole{{"earnings", p1}, {"approve", q1}, {"other", op0}}, false, false, func() bool { return okAVS && isOp(s1) }},
		{"OptOutOfAVS", "forgedSig", s1, "forged",
			&operatortypes.OptOutOfAVSReq{FromAddress: s1.Acc.String(), AvsAddress: strings.ToLower(avsM.Eth.Hex())},
			[]opRole{{"earnings", p1}, {"approve", q1}, {"other", op0}}, false, false,
			func() bool { return c.App.OperatorKeeper.IsActive(c.Ctx, s1.Acc, strings.ToLower(avsM.Eth.Hex())) }},
		{"OptOutOfAVS", "validSig", s1, "valid",
			&operatortypes.OptOutOfAVSReq{FromAddress: s1.Acc.String(), AvsAddress: strings.ToLower(avsM.Eth.Hex())},
			[]opRole{{"earnings", p1}, {"approve", q1}, {"other", op0}}, false, false,
			func() bool { return c.App.OperatorKeeper.IsActive(c.Ctx, s1.Acc, strings.ToLower(avsM.Eth.Hex())) }},
		// ---- SetConsKey of a validating operator
		{"SetConsKey", "forgedSig", op1, "forged",
			&operatortypes.SetConsKeyReq{Address: op1.Acc.String(), AvsAddress: c.AVSAddr, PublicKeyJSON: newKey.ToJSON()},
			[]opRole{{"other", op0}}, false, false, func() bool { return c.App.OperatorKeeper.IsActive(c.Ctx, op1.Acc, c.AVSAddr) }},
		{"SetConsKey", "validSig", op1, "valid",
			&operatortypes.SetConsKeyReq{Address: op1.Acc.String(), AvsAddress: c.AVSAddr, PublicKeyJSON: newKey.ToJSON()},
			[]opRole{{"other", op0}}, false, false, func() bool { return c.App.OperatorKeeper.IsActive(c.Ctx, op1.Acc, c.AVSAddr) }},
	}
	for _, r := range rows {
		acc := c.App.AccountKeeper.GetAccount(c.Ctx, r.signer.Acc)
		if acc == nil {
			h.env.Note("opmsg-no-account:" + r.kind + ":" + r.ident)
			continue
		}
		signPriv := cryptotypes.PrivKey(r.signer.Priv)
		if r.sigKind == "forged" { // the from-field names the signer, somebody else's key signs
			signPriv = attacker.Priv
		}
		bz, err := xbSignCosmos(c, txCfg, []sdk.Msg{r.msg}, r.signer.Priv.PubKey(), signPriv, acc.GetAccountNumber(), acc.GetSequence(), 500000, fee, false)
		if err != nil {
			h.env.Note("opmsg-build-error:" + r.kind + ":" + r.ident)
			continue
		}
		payloadOk := r.payloadOk()
		roles := append([]opRole{{"signer", r.signer}}, r.roles...)
		before := xbSnapshot(c, c.Ctx, true)
		res := xbDeliver(c, bz, true)
		after := xbSnapshot(c, c.Ctx, false)
		state, _ := touchedRoles(before, after, roles)
		if h.env.Str("debug", "") != "" {
			fmt.Printf("OPMSG %s %s: %+v touched=%v\n", r.kind, r.ident, res, state)
		}
		h.opMsgLine(r.kind, r.ident, r.sigKind, true, r.pe, r.pa, payloadOk, res.Accepted(), state, before,
			[]string{fmt.Sprintf("%x", r.signer.Acc.Bytes()), feeColl})
		// what the property's words say directly, for the registration rows
		if reg, ok := r.msg.(*operatortypes.RegisterOperatorReq); ok && res.Accepted() {
			h.env.Eval("C10.acts-only-for-caller")
			stored, err := c.App.OperatorKeeper.OperatorInfo(c.Ctx, r.signer.Acc.String())
			if err != nil || stored.EarningsAddr != reg.Info.EarningsAddr || stored.ApproveAddr != reg.Info.ApproveAddr {
				h.violate("C10.acts-only-for-caller", "registration-not-on-signer:operator.RegisterOperator",
					fmt.Sprintf("operator.RegisterOperator as %s: accepted, but the signer %s has no operator record with the submitted info (err=%v)", r.ident, r.signer.Acc, err))
			}
			for _, o := range r.roles {
				if o.role == "other" || o.a.Acc.Equals(r.signer.Acc) {
					continue
				}
				if o.a.Acc.Equals(op0.Acc) || o.a.Acc.Equals(op1.Acc) {
					continue // registered before: its record must be unchanged — covered by the key attribution above
				}
				if isOp(o.a) {
					h.violate("C10.acts-only-for-caller", "registration-on-payload-address:operator.RegisterOperator",
						fmt.Sprintf("operator.RegisterOperator as %s: the %s address %s, which signed nothing, is a registered operator now", r.ident, o.role, o.a.Acc))
				}
			}
		}
	}
}
