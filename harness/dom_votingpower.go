package main

// C05 — voting power equals priced, eligible stake.
//
// Drives the real x/epochs BeginBlocker → x/operator AfterEpochEnd → UpdateVotingPower over seeded
// histories: several operators and assets (decimals 0..18, prices 1..10^30, price decimals 0..18),
// price changes through the oracle keeper, deposits / delegations / self-delegations /
// undelegations through the assets and delegation keepers, a second (non-chain) AVS with its own
// asset list, minimum self-delegation and epoch identifier, opt-ins and opt-outs. After every
// block the whole USD-value table (GetAllOperatorUSDValues, GetAllAVSUSDValues) is printed for the
// Lean model to reproduce, and the property's formula is recomputed independently (big.Int, raw
// oracle price store, AllOperatorAssets) for every AVS whose epoch ended.

import (
	"errors"
	"fmt"
	"math/big"
	"sort"
	"strings"
	"time"

	sdkmath "cosmossdk.io/math"
	sdk "github.com/cosmos/cosmos-sdk/types"
	"github.com/ethereum/go-ethereum/common"

	assetstypes "github.com/ExocoreNetwork/exocore/x/assets/types"
	avstypes "github.com/ExocoreNetwork/exocore/x/avs/types"
	delegationtypes "github.com/ExocoreNetwork/exocore/x/delegation/types"
	epochstypes "github.com/ExocoreNetwork/exocore/x/epochs/types"
	oracletypes "github.com/ExocoreNetwork/exocore/x/oracle/types"
)

func init() { register("votingpower", domVotingPower) }

type vpAssetCfg struct {
	Asset              string
	Price              *big.Int
	PriceDec, AssetDec int64
}
type vpAssetState struct {
	Asset               string
	Amount, TShare, OSh *big.Int
}
type vpOpAssets struct {
	Op     string
	Assets []vpAssetState
}
type vpAvsIn struct {
	Avs      string
	Info     avstypes.AVSInfo
	AssetsOK bool
	Cfgs     []vpAssetCfg // nil + CfgsNone => lookup failed
	CfgsNone bool
	// the AVS's assets with their decimals (GetAssetsDecimal), whatever the oracle says about them:
	// the Lean model resolves the prices itself from the oracle's token table and latest rounds
	// (op vp.oracle); DecsNone: GetAssetsDecimal failed
	Decs     []vpAssetCfg
	DecsNone bool
	MinSelf  *big.Int // nil => error
	// independent view for the monitor
	RawPrice map[string]vpAssetCfg
	// one of the AVS's assets has no oracle token at all: the property's "latest oracle price"
	// does not exist for it, the formula is undefined for this AVS (its update returns an error)
	Unpriced bool
}

// vpRawCfg: decimals from the asset record, price from the raw oracle store (latest round),
// price 1 / decimal 0 when there is no usable round. known: the asset is registered in x/assets;
// priced: the oracle params bind a token to it.
func vpRawCfg(c *Chain, ctx sdk.Context, oparams oracletypes.Params, a string) (cfg vpAssetCfg, known, priced bool) {
	ai, err := c.App.AssetsKeeper.GetStakingAssetInfo(ctx, a)
	if err != nil {
		return cfg, false, false
	}
	cfg = vpAssetCfg{Asset: a, Price: big.NewInt(1), PriceDec: 0, AssetDec: int64(ai.AssetBasicInfo.Decimals)}
	if a == assetstypes.ExocoreAssetID {
		return cfg, true, true
	}
	// the binding asset id -> oracle token is part of what is under test ("latest oracle price" of THIS
	// asset): the monitor does not ask Params.GetTokenIDFromAssetID, it looks the id up itself — the
	// token whose comma-separated asset list has an element EQUAL to the id (dom_votingpower_binding.go)
	tid := vpTokenIDOfAsset(oparams, a)
	if name, ok := vpGatewayTokens[a]; ok {
		// bound by the harness to a token it knows by NAME (registered through the gateway together with
		// this oracle token, dom_votingpower_regtoken.go; binding histories, dom_votingpower_binding.go):
		// the intention of the registration decides, not the stored list
		tid = vpTokenIDByName(oparams, name)
	}
	if tid > 0 {
		if tr, found := c.App.OracleKeeper.GetPriceTRLatest(ctx, uint64(tid)); found {
			if v, ok := new(big.Int).SetString(tr.Price, 10); ok && v.Sign() > 0 {
				cfg.Price, cfg.PriceDec = v, int64(uint8(tr.Decimal))
			}
		}
	}
	return cfg, true, tid > 0
}

// vpReadInputs reads what UpdateVotingPower will read, for every registered AVS.
func vpReadInputs(c *Chain, ctx sdk.Context) ([]vpAvsIn, []vpOpAssets) {
	var ops []vpOpAssets
	all, _ := c.App.AssetsKeeper.AllOperatorAssets(ctx)
	for _, o := range all {
		x := vpOpAssets{Op: o.Operator}
		for _, a := range o.AssetsState {
			x.Assets = append(x.Assets, vpAssetState{Asset: a.AssetID, Amount: a.Info.TotalAmount.BigInt(), TShare: a.Info.TotalShare.BigInt(), OSh: a.Info.OperatorShare.BigInt()})
		}
		ops = append(ops, x)
	}
	oparams := c.App.OracleKeeper.GetParams(ctx)
	var ins []vpAvsIn
	c.App.AVSManagerKeeper.IterateAVSInfo(ctx, func(_ int64, info avstypes.AVSInfo) bool {
		in := vpAvsIn{Avs: strings.ToLower(info.AvsAddress), Info: info, RawPrice: map[string]vpAssetCfg{}}
		assets, err := c.App.AVSManagerKeeper.GetAVSSupportedAssets(ctx, info.AvsAddress)
		in.AssetsOK = err == nil && assets != nil
		if in.AssetsOK {
			decimals, err1 := c.App.AssetsKeeper.GetAssetsDecimal(ctx, assets)
			prices, err2 := c.App.OracleKeeper.GetMultipleAssetsPrices(ctx, assets)
			if err1 != nil {
				in.DecsNone = true
			} else {
				for _, a := range sortedKeys(assets) {
					if d, ok := decimals[a]; ok {
						in.Decs = append(in.Decs, vpAssetCfg{Asset: a, AssetDec: int64(d)})
					}
				}
			}
			if err1 != nil || (err2 != nil && !errors.Is(err2, oracletypes.ErrGetPriceRoundNotFound)) {
				in.CfgsNone = true
			} else {
				for _, a := range sortedKeys(assets) {
					p, ok1 := prices[a]
					d, ok2 := decimals[a]
					if ok1 && ok2 {
						in.Cfgs = append(in.Cfgs, vpAssetCfg{Asset: a, Price: p.Value.BigInt(), PriceDec: int64(p.Decimal), AssetDec: int64(d)})
					}
				}
			}
		}
		if m, err := c.App.AVSManagerKeeper.GetAVSMinimumSelfDelegation(ctx, info.AvsAddress); err == nil {
			in.MinSelf = m.BigInt()
		}
		// independent: asset list from the AVS record, decimals from the asset record, price from
		// the raw oracle store (latest round), price 1 when there is no usable round
		for _, a := range info.AssetIDs {
			cfg, known, priced := vpRawCfg(c, ctx, oparams, a)
			if !known {
				continue
			}
			if !priced {
				in.Unpriced = true
			}
			in.RawPrice[a] = cfg
		}
		ins = append(ins, in)
		return false
	})
	return ins, ops
}

func vpFmtInputs(evs []string, ins []vpAvsIn, ops []vpOpAssets) string {
	var b strings.Builder
	var ends [][2]string
	for _, e := range evs {
		f := strings.Split(e, ":")
		if f[0] == "E" {
			ends = append(ends, [2]string{f[1], f[2]})
		}
	}
	fmt.Fprintf(&b, "%d", len(ends))
	for _, e := range ends {
		fmt.Fprintf(&b, " %s %s", e[0], e[1])
	}
	fmt.Fprintf(&b, " %d", len(ins))
	for _, in := range ins {
		ok := 0
		if in.AssetsOK {
			ok = 1
		}
		if in.DecsNone || !in.AssetsOK {
			fmt.Fprintf(&b, " %s %d -1", in.Avs, ok)
		} else {
			fmt.Fprintf(&b, " %s %d %d", in.Avs, ok, len(in.Decs))
			for _, c := range in.Decs {
				fmt.Fprintf(&b, " %s %d", c.Asset, c.AssetDec)
			}
		}
		if in.MinSelf == nil {
			b.WriteString(" x")
		} else {
			fmt.Fprintf(&b, " %s", in.MinSelf)
		}
		fmt.Fprintf(&b, " %d", len(ops))
		for _, o := range ops {
			fmt.Fprintf(&b, " %s %d", o.Op, len(o.Assets))
			for _, a := range o.Assets {
				fmt.Fprintf(&b, " %s %s %s %s", a.Asset, a.Amount, a.TShare, a.OSh)
			}
		}
	}
	return b.String()
}

type vpTable struct {
	Entries map[string][3]*big.Int // "avs/op" -> self,total,active
	Avs     map[string]*big.Int
}

func vpReadTable(c *Chain, ctx sdk.Context) vpTable {
	t := vpTable{Entries: map[string][3]*big.Int{}, Avs: map[string]*big.Int{}}
	vals, _ := c.App.OperatorKeeper.GetAllOperatorUSDValues(ctx)
	for _, v := range vals {
		t.Entries[v.Key] = [3]*big.Int{v.OptedUSDValue.SelfUSDValue.BigInt(), v.OptedUSDValue.TotalUSDValue.BigInt(), v.OptedUSDValue.ActiveUSDValue.BigInt()}
	}
	avs, _ := c.App.OperatorKeeper.GetAllAVSUSDValues(ctx)
	for _, v := range avs {
		t.Avs[v.AVSAddr] = v.Value.Amount.BigInt()
	}
	return t
}

func (t vpTable) String() string {
	var e, a []string
	for _, k := range sortedKeys(t.Entries) {
		v := t.Entries[k]
		e = append(e, fmt.Sprintf("%s=%s,%s,%s", k, v[0], v[1], v[2]))
	}
	for _, k := range sortedKeys(t.Avs) {
		a = append(a, k+"="+t.Avs[k].String())
	}
	return strings.Join(e, ";") + "|" + strings.Join(a, ";")
}

// spec: amount × price / 10^(dec+pdec), 18 decimals, rounded toward zero
func vpSpecUSD(amount *big.Int, cfg vpAssetCfg) *big.Int {
	x := new(big.Int).Mul(amount, cfg.Price)
	x.Mul(x, bigPrec)
	return x.Quo(x, pow10(int(cfg.AssetDec+cfg.PriceDec)))
}

// token equivalent of the operator's own share: floor(operator share × pool amount / total share),
// in exact integer arithmetic (raw 18-decimal shares; the scale cancels). After a slash the pool
// amount is below the share total, so this is NOT the share figure any more.
func vpSelfTokens(a vpAssetState) *big.Int {
	if a.TShare.Sign() == 0 {
		return new(big.Int)
	}
	x := new(big.Int).Mul(a.OSh, a.Amount)
	return x.Quo(x, a.TShare)
}

type vpRunner struct {
	env  *Env
	c    *Chain
	hist []string
	ends int
	// coverage of the multi-AVS / slashed histories (dom_votingpower_multi.go)
	failEnds  int // epoch ends of an AVS whose update fails (asset without oracle token)
	afterFail int // AVSs evaluated after a failing one in the same hook call
	flips     int // entries whose eligibility differs between the token and the share figure
	nSlash    int
}

func (r *vpRunner) op(op, obs string) {
	r.env.Op(op, obs)
	r.hist = append(r.hist, op)
}

func (r *vpRunner) start(tag string) {
	c := r.c
	r.op("vp.reset", "ok")
	r.op("vp.note "+tag, "ok")
	c.App.AVSManagerKeeper.IterateAVSInfo(c.Ctx, func(_ int64, info avstypes.AVSInfo) bool {
		r.op(fmt.Sprintf("vp.avs %s %s %d", strings.ToLower(info.AvsAddress), info.EpochIdentifier, info.StartingEpoch), "ok")
		return false
	})
	t := vpReadTable(c, c.Ctx)
	for _, k := range sortedKeys(t.Entries) {
		f := strings.SplitN(k, "/", 2)
		v := t.Entries[k]
		r.op(fmt.Sprintf("vp.entry %s %s %s %s %s", f[0], f[1], v[0], v[1], v[2]), "ok")
	}
	for _, k := range sortedKeys(t.Avs) {
		r.op(fmt.Sprintf("vp.avsval %s %s", k, t.Avs[k]), "ok")
	}
}

func (r *vpRunner) block(d time.Duration) bool {
	c, env := r.c, r.env
	var ins []vpAvsIn
	var ops []vpOpAssets
	var orc vpOracleView
	var bind []vpBindingCheck
	res := distrStep(c, d, func(ctx sdk.Context) {
		ins, ops = vpReadInputs(c, ctx)
		orc = vpReadOracle(c, ctx)
		bind = vpCheckBinding(c, ctx, ins)
	})
	if res.Halt != "" {
		r.op("vp.note halt", "ok")
		env.Violate("C05.halt", haltSig(res.Halt), "block processing panicked: "+res.Halt, r.hist)
		return false
	}
	evs := epochEvents(res.Begin.Events)
	after := vpReadTable(c, c.Ctx)
	// the oracle's token table and latest rounds as committed before this block: the model binds every
	// asset to its token and selects the price itself (Model/VPOracle.lean)
	r.op("vp.oracle "+orc.String(), "ok")
	r.op("vp.block "+vpFmtInputs(evs, ins, ops), after.String())
	// ---------------- monitor: the price the code hands out for an asset is the latest round of the token the
	// asset is bound to (evaluated every block for every asset of every AVS, dom_votingpower_binding.go)
	r.reportBinding(bind)
	// ---------------- monitors: the property's formula on the real state
	var evaluated []string // AVSs whose formula is evaluated at an epoch end of this block
	opAssets := map[string][]vpAssetState{}
	for _, o := range ops {
		opAssets[o.Op] = o.Assets
	}
	for _, e := range evs {
		f := strings.Split(e, ":")
		if f[0] != "E" {
			continue
		}
		var n int64
		fmt.Sscan(f[2], &n)
		failedBefore := false
		for _, in := range ins {
			if in.Info.EpochIdentifier != f[1] || n < int64(in.Info.StartingEpoch)-1 {
				continue
			}
			r.ends++
			if in.Unpriced {
				// an asset of this AVS has no oracle token: there is no "latest oracle price" to
				// apply, the property says nothing about this AVS at this epoch end (its update
				// fails and its values stay; the Lean model replays exactly that). The OTHER AVSs
				// ending now are still evaluated below, whatever their place in the AVS store.
				env.Note("epoch-ends-of-unpriced-avs-skipped")
				r.failEnds++
				failedBefore = true
				continue
			}
			if failedBefore {
				// `ins` is in AVS-store order: this AVS comes after a failing one in the hook's loop
				env.Note("avs-evaluated-after-a-failing-one-in-the-same-hook")
				r.afterFail++
			}
			env.Eval("C05.formula")
			evaluated = append(evaluated, in.Avs)
			sum := new(big.Int)
			for k, v := range after.Entries {
				kf := strings.SplitN(k, "/", 2)
				if kf[0] != in.Avs {
					continue
				}
				total, self := new(big.Int), new(big.Int)
				shareFigure, repriced := new(big.Int), false // coverage only: what the SHARE (not its token equivalent) would give
				for _, a := range opAssets[kf[1]] {
					cfg, ok := in.RawPrice[a.Asset]
					if !ok {
						continue
					}
					total.Add(total, vpSpecUSD(a.Amount, cfg))
					self.Add(self, vpSpecUSD(vpSelfTokens(a), cfg))
					shareFigure.Add(shareFigure, vpSpecUSD(new(big.Int).Quo(a.OSh, bigPrec), cfg))
					if a.OSh.Sign() > 0 && new(big.Int).Mul(a.Amount, bigPrec).Cmp(a.TShare) != 0 {
						repriced = true
					}
				}
				if repriced {
					env.Note("entries-with-self-share-in-a-slashed-pool")
					if in.MinSelf != nil && (self.Cmp(in.MinSelf) >= 0) != (shareFigure.Cmp(in.MinSelf) >= 0) {
						env.Note("entries-where-min-self-lies-between-token-and-share-figure")
						r.flips++
					}
				}
				if v[1].Cmp(total) != 0 {
					env.Violate("C05.formula", "total-mismatch", fmt.Sprintf("%s: recorded total %s, formula %s", k, v[1], total), r.hist)
				}
				if v[0].Cmp(self) != 0 {
					env.Violate("C05.formula", "self-mismatch", fmt.Sprintf("%s: recorded self %s, formula %s", k, v[0], self), r.hist)
				}
				wantActive := new(big.Int)
				if in.MinSelf != nil && self.Cmp(in.MinSelf) >= 0 {
					wantActive = total
				}
				if v[2].Cmp(wantActive) != 0 {
					env.Violate("C05.formula", "active-mismatch", fmt.Sprintf("%s: recorded active %s, want %s (self %s, min %v)", k, v[2], wantActive, self, in.MinSelf), r.hist)
				}
				sum.Add(sum, v[2])
				if total.Sign() > 0 {
					env.Note("entries-with-value")
				}
				if wantActive.Sign() == 0 && total.Sign() > 0 {
					env.Note("entries-below-min-self")
				}
			}
			got, ok := after.Avs[in.Avs]
			if !ok {
				got = new(big.Int)
			}
			env.Eval("C05.avs-sum")
			if got.Cmp(sum) != 0 {
				env.Violate("C05.avs-sum", "avs-sum-mismatch", fmt.Sprintf("avs %s value %s, sum of active %s", in.Avs, got, sum), r.hist)
			}
		}
	}
	// always: non-negative, not-opted-in reads zero
	env.Eval("C05.nonneg")
	for k, v := range after.Entries {
		if v[0].Sign() < 0 || v[1].Sign() < 0 || v[2].Sign() < 0 {
			env.Violate("C05.nonneg", "negative", fmt.Sprintf("%s has a negative value", k), r.hist)
		}
	}
	for _, in := range ins {
		for _, o := range c.Operators {
			if _, has := after.Entries[in.Avs+"/"+o.Acc.String()]; has {
				continue
			}
			// an operator that IS opted in (OptedInfo) must have a recorded value: the entries are
			// the only index UpdateVotingPower walks, a missing one is never recomputed again
			env.Eval("C05.opted-in-has-entry")
			if c.App.OperatorKeeper.IsOptedIn(c.Ctx, o.Acc.String(), in.Avs) {
				env.Violate("C05.opted-in-has-entry", "opted-in-without-entry", fmt.Sprintf("%s/%s is opted in but has no recorded USD value", in.Avs, o.Acc), r.hist)
				continue
			}
			env.Eval("C05.not-opted-in")
			v, err := c.App.OperatorKeeper.GetOperatorOptedUSDValue(c.Ctx, in.Avs, o.Acc.String())
			if err == nil && (!v.TotalUSDValue.IsZero() || !v.ActiveUSDValue.IsZero() || !v.SelfUSDValue.IsZero()) {
				env.Violate("C05.not-opted-in", "not-opted-in-nonzero", fmt.Sprintf("%s/%s not opted in but reads %v", in.Avs, o.Acc, v), r.hist)
			}
		}
	}
	// ---------------- the same records through the readers, whatever the OptedInfo (jailed / not) says
	// (dom_votingpower_readers.go): op vp.read + monitors C05.reader / C05.reader-sum
	r.readers(ins, after, evaluated)
	return true
}

func vpUndelegate(c *Chain, staker Actor, assetIdx, opIdx int, amt *big.Int, nonce uint64) error {
	assetAddr := common.HexToAddress(c.Cfg.Assets[assetIdx].Addr)
	return c.CachedDo(func(ctx sdk.Context) error {
		return c.App.DelegationKeeper.UndelegateFrom(ctx, &delegationtypes.DelegationOrUndelegationParams{
			ClientChainID: c.LzID, Action: assetstypes.UndelegateFrom, AssetsAddress: assetAddr.Bytes(),
			OperatorAddress: c.Operators[opIdx].Acc, StakerAddress: staker.Eth.Bytes(), OpAmount: sdkmath.NewIntFromBigInt(amt),
			LzNonce: nonce, TxHash: common.BigToHash(new(big.Int).SetUint64(nonce + 1000)),
		})
	})
}

// vpUpdateAssets changes the asset list of a registered AVS through the real UpdateAVSInfo path
// (UpdateAction). `ids` may be empty (non-nil): the AVS then supports no asset at all.
func (r *vpRunner) updateAssets(avs string, ids []string, minSelf uint64, tag string) bool {
	c := r.c
	if ids == nil {
		ids = []string{}
	}
	err := c.CachedDo(func(ctx sdk.Context) error {
		return c.App.AVSManagerKeeper.UpdateAVSInfo(ctx, &avstypes.AVSRegisterOrDeregisterParams{
			AvsAddress: avs, AssetID: ids, MinSelfDelegation: minSelf, CallerAddress: c.Funded.Acc.String(), Action: 3, // avskeeper.UpdateAction
		})
	})
	r.env.Outcome(fmt.Sprintf("update-assets:%s:%v", tag, err == nil))
	r.op(fmt.Sprintf("vp.note update-assets avs=%s n=%d min=%d (%s) ok=%v", avs, len(ids), minSelf, tag, err == nil), "ok")
	if err == nil {
		info, _ := c.App.AVSManagerKeeper.GetAVSInfo(c.Ctx, avs)
		r.op(fmt.Sprintf("vp.avs %s %s %d", strings.ToLower(avs), info.Info.EpochIdentifier, info.Info.StartingEpoch), "ok")
	}
	return err == nil
}

// vpScenarioEmptyAssetList: an AVS with an opted-in, staked operator whose asset list is emptied
// for one epoch end and restored before the next: with an empty list every entry must read zero
// (sum over no assets) and stay, with the list restored the values must be re-priced.
func vpScenarioEmptyAssetList(env *Env) {
	cfg := DefaultCfg(env.Report.Seed*1000 + 950)
	cfg.EpochID = epochstypes.HourEpochID
	h := &distrHistCfg{cfg: cfg, distrID: epochstypes.WeekEpochID, mintID: epochstypes.WeekEpochID, reward: big.NewInt(0), tax: big.NewInt(0), shrink: map[string]time.Duration{}}
	c := distrBoot(h)
	r := &vpRunner{env: env, c: c}
	r.start("scenario-empty-asset-list")
	addr := "0x" + fmt.Sprintf("%040x", 0x2000)
	ids := []string{c.AssetIDs[0]}
	err := c.CachedDo(func(ctx sdk.Context) error {
		if err := c.App.AVSManagerKeeper.UpdateAVSInfo(ctx, &avstypes.AVSRegisterOrDeregisterParams{
			AvsName: "second", AvsAddress: addr, SlashContractAddr: addr, RewardContractAddr: addr,
			AvsOwnerAddress: []string{c.Funded.Acc.String()}, AssetID: ids, UnbondingPeriod: 2, MinSelfDelegation: 1,
			EpochIdentifier: epochstypes.MinuteEpochID, MinOptInOperators: 1, MinTotalStakeAmount: 1, AvsReward: 10, AvsSlash: 10,
			CallerAddress: c.Funded.Acc.String(), Action: 1,
		}); err != nil {
			return err
		}
		return c.App.OperatorKeeper.OptIn(ctx, c.Operators[0].Acc, addr)
	})
	if err != nil {
		env.Outcome("scenario-empty-asset-list:setup-failed")
		env.Note("scenario-empty-asset-list setup: " + err.Error()[max(0, len(err.Error())-160):])
		return
	}
	info, _ := c.App.AVSManagerKeeper.GetAVSInfo(c.Ctx, addr)
	r.op(fmt.Sprintf("vp.avs %s %s %d", addr, info.Info.EpochIdentifier, info.Info.StartingEpoch), "ok")
	r.op(fmt.Sprintf("vp.optin %s %s", addr, c.Operators[0].Acc), "ok")
	ok := r.block(61*time.Second) && r.block(61*time.Second) // values computed
	if ok {
		r.updateAssets(addr, []string{}, 1, "empty")
		ok = r.block(61 * time.Second) // epoch end with an empty list
	}
	if ok {
		r.updateAssets(addr, ids, 1, "restore")
		ok = r.block(61*time.Second) && r.block(61*time.Second)
	}
	env.Report.Histories++
	v, gerr := c.App.OperatorKeeper.GetOperatorOptedUSDValue(c.Ctx, addr, c.Operators[0].Acc.String())
	env.Outcome(fmt.Sprintf("scenario-empty-asset-list:ok=%v,final-value-positive=%v", ok, gerr == nil && v.TotalUSDValue.IsPositive()))
}

func domVotingPower(env *Env) error {
	n := env.Int("histories", 20)
	maxBlocks := env.Int("blocks", 40)
	rng := NewRNG(env.Report.Seed)
	env.Report.Domain = "votingpower"
	addrs := []string{"0x2260FAC5E5542a773Aa44fBCfeDf7C193bc2C599", "0x6B175474E89094C44Da98b954EedeAC495271d0F"}
	// price for a given price-decimal count: the USD price (price/10^pd) stays below 10^9 so that
	// the dogfood vote power (ActiveUSDValue.TruncateInt64 in GetVotePowerForChainID, which panics
	// at 2^63) is never overflowed by the generator — that panic is outside C05.
	bigPrices := func(pd int) string {
		switch rng.Intn(6) {
		case 0:
			return "1"
		case 1:
			return pow10(pd + 9).String()
		case 2:
			return pow10(pd).String()
		case 3:
			return fmt.Sprint(1 + rng.Intn(100000))
		default:
			return new(big.Int).Add(rng.BigBelow(pow10(pd+9)), big.NewInt(1)).String()
		}
	}
	vpScenarioEmptyAssetList(env)
	vpScenarioFailingAVS(env)  // dom_votingpower_multi.go
	vpScenarioSlashedSelf(env) // dom_votingpower_multi.go
	vpScenarioJailed(env)      // dom_votingpower_readers.go
	for k := 0; k < env.Int("gwtokens", 2); k++ {
		vpScenarioGatewayToken(env, k) // dom_votingpower_regtoken.go
	}
	// which token prices an asset: assets on several client chains whose ids are textually related, token lists of
	// several ids, token tables in every order (dom_votingpower_binding.go; own RNG streams)
	vpScenarioSameAddressTwoChains(env)
	for k := 0; k < env.Int("binding", max(4, n/5)); k++ {
		vpBindingHistory(env, k, maxBlocks)
	}
	for hi := 0; hi < n; hi++ {
		seed := env.Report.Seed*1000 + uint64(hi)
		cfg := DefaultCfg(seed)
		cfg.NOperators = 1 + rng.Intn(4)
		cfg.Powers = nil
		for i := 0; i < cfg.NOperators; i++ {
			cfg.Powers = append(cfg.Powers, int64(100+rng.Intn(3000)))
		}
		cfg.EpochID = []string{epochstypes.MinuteEpochID, epochstypes.HourEpochID}[rng.Pick(3, 1)]
		for k := rng.Intn(3); k > 0; k-- {
			pd := []int{0, 8, 18, rng.Intn(19)}[rng.Intn(4)]
			cfg.Assets = append(cfg.Assets, AssetSpec{Addr: addrs[len(cfg.Assets)-1], Decimals: uint32([]int{0, 6, 8, 18, rng.Intn(19)}[rng.Intn(5)]), Price: bigPrices(pd), PriceDec: int32(pd)})
		}
		h := &distrHistCfg{cfg: cfg, distrID: epochstypes.WeekEpochID, mintID: epochstypes.WeekEpochID, reward: big.NewInt(0), tax: big.NewInt(0), shrink: map[string]time.Duration{}}
		if rng.Chance(1, 3) {
			h.shrink[epochstypes.HourEpochID] = time.Duration(2+rng.Intn(4)) * time.Minute
		}
		c := distrBoot(h)
		r := &vpRunner{env: env, c: c}
		r.start(fmt.Sprintf("random-%d", hi))
		// up to three further AVSs, spread over the AVS store (the hook walks it in address order, the
		// chain's own AVS sits somewhere in between), and — in two histories of three — a staking
		// asset that x/assets knows and the oracle does not: an AVS that lists it cannot be priced,
		// its UpdateVotingPower returns an error at every epoch end until the list is repaired
		var extras []*vpExtra
		unpriced := ""
		if rng.Chance(2, 3) {
			unpriced = r.registerUnpriced()
		}
		pickIDs := func(nonEmpty bool, unpricedOneIn int) []string {
			var ids []string
			for i := range cfg.Assets {
				if rng.Chance(2, 3) || (nonEmpty && i == len(cfg.Assets)-1 && len(ids) == 0) {
					ids = append(ids, c.AssetIDs[i])
				}
			}
			if unpriced != "" && rng.Chance(1, unpricedOneIn) {
				ids = append(ids, unpriced)
			}
			return ids
		}
		nStakers := 0
		var nonce uint64
		type deleg struct {
			st     Actor
			ai, oi int
		}
		var delegs []deleg
		nb := 8 + rng.Intn(maxBlocks)
		// jail / unjail of opted-in operators while epochs end (own stream: dom_votingpower_readers.go);
		// two histories of three have such events, about one block in four
		jr := NewRNG(seed*31 + 17)
		jailing := jr.Chance(2, 3)
		for b := 0; b < nb; b++ {
			if jailing && b > 1 && jr.Chance(1, 4) {
				r.randomJail(jr, cfg.NOperators, extras)
			}
			for k := rng.Intn(4); k > 0; k-- {
				switch rng.Pick(3, 4, 2, 2, 3, 3, 3, 1) {
				case 0: // price change through the oracle keeper
					ai := rng.Intn(len(cfg.Assets))
					tid := uint64(ai + 1)
					pd := cfg.Assets[ai].PriceDec
					if rng.Chance(1, 4) {
						pd = int32(rng.Intn(19))
					}
					p := bigPrices(int(pd))
					if rng.Chance(1, 12) {
						p = "0" // unusable round: the code falls back to price 1
					}
					err := c.CachedDo(func(ctx sdk.Context) error {
						next := c.App.OracleKeeper.GetNextRoundID(ctx, tid)
						if !c.App.OracleKeeper.AppendPriceTR(ctx, tid, oracletypes.PriceTimeRound{Price: p, Decimal: pd, RoundID: next}) {
							return fmt.Errorf("round mismatch")
						}
						return nil
					})
					env.Outcome(fmt.Sprintf("price:%v", err == nil))
					r.op(fmt.Sprintf("vp.note price asset=%d price=%s dec=%d ok=%v", ai, p, pd, err == nil), "ok")
				case 1: // staker deposit + delegate
					var st Actor
					if nStakers > 0 && rng.Chance(1, 3) {
						st = NewActor(seed, "staker", rng.Intn(nStakers))
					} else {
						st = NewActor(seed, "staker", nStakers)
						nStakers++
					}
					ai, oi := rng.Intn(len(cfg.Assets)), rng.Intn(cfg.NOperators)
					amt := vpAmount(rng, int(cfg.Assets[ai].Decimals))
					err := distrDepositDelegate(c, st, ai, oi, amt)
					if err == nil {
						delegs = append(delegs, deleg{st, ai, oi})
					}
					env.Outcome(fmt.Sprintf("delegate:%v", err == nil))
					r.op(fmt.Sprintf("vp.note delegate staker=%s asset=%d op=%d amt=%s ok=%v", st.Eth.Hex(), ai, oi, amt, err == nil), "ok")
				case 2: // operator self-delegation (its own staker is associated with it)
					oi, ai := rng.Intn(cfg.NOperators), rng.Intn(len(cfg.Assets))
					amt := vpAmount(rng, int(cfg.Assets[ai].Decimals))
					err := distrDepositDelegate(c, c.Operators[oi], ai, oi, amt)
					if err == nil {
						delegs = append(delegs, deleg{c.Operators[oi], ai, oi})
					}
					env.Outcome(fmt.Sprintf("selfdelegate:%v", err == nil))
					r.op(fmt.Sprintf("vp.note selfdelegate op=%d asset=%d amt=%s ok=%v", oi, ai, amt, err == nil), "ok")
				case 3: // undelegation
					if len(delegs) == 0 {
						continue
					}
					dl := delegs[rng.Intn(len(delegs))]
					amt := vpAmount(rng, int(cfg.Assets[dl.ai].Decimals))
					nonce++
					err := vpUndelegate(c, dl.st, dl.ai, dl.oi, amt, nonce)
					env.Outcome(fmt.Sprintf("undelegate:%v", err == nil))
					r.op(fmt.Sprintf("vp.note undelegate staker=%s asset=%d op=%d amt=%s ok=%v", dl.st.Eth.Hex(), dl.ai, dl.oi, amt, err == nil), "ok")
				case 4: // register a further AVS (own assets, min self-delegation, epoch identifier, place in the AVS store)
					if len(extras) >= 3 {
						continue
					}
					x := &vpExtra{addr: vpExtraAddr(rng, hi, len(extras))}
					ids := pickIDs(true, 8)
					x.minSelf = r.pickMinSelf(rng, ids)
					eid := []string{epochstypes.MinuteEpochID, epochstypes.HourEpochID}[rng.Intn(2)]
					if rng.Chance(1, 2) {
						eid = cfg.EpochID // ends together with the chain's own AVS
					}
					err := r.registerAVS(x.addr, ids, x.minSelf, eid)
					env.Outcome(fmt.Sprintf("register-avs:%v", err == nil))
					if err == nil {
						extras = append(extras, x)
					}
				case 6: // an AVS changes its asset list: empty, everything, a subset, one asset, one the oracle cannot price, repaired
					if len(extras) == 0 {
						continue
					}
					x := extras[rng.Intn(len(extras))]
					var ids []string
					tag := ""
					switch rng.Pick(3, 3, 2, 2, 3, 2) {
					case 0:
						tag = "empty"
					case 1:
						tag = "all"
						ids = append(ids, c.AssetIDs...)
					case 2:
						tag = "subset"
						for i := range cfg.Assets {
							if rng.Chance(1, 2) {
								ids = append(ids, c.AssetIDs[i])
							}
						}
					case 3:
						tag = "one"
						ids = []string{c.AssetIDs[rng.Intn(len(cfg.Assets))]}
					case 4:
						tag = "with-unpriced"
						ids = pickIDs(false, 1)
					case 5:
						tag = "repaired"
						ids = pickIDs(true, 1000000)
					}
					if rng.Chance(1, 3) {
						x.minSelf = r.pickMinSelf(rng, ids)
					}
					r.updateAssets(x.addr, ids, x.minSelf, tag)
				case 5: // opt in / out of a further AVS
					if len(extras) == 0 {
						continue
					}
					x := extras[rng.Intn(len(extras))]
					oi := rng.Intn(cfg.NOperators)
					acc := c.Operators[oi].Acc
					if c.App.OperatorKeeper.IsOptedIn(c.Ctx, acc.String(), x.addr) {
						err := c.CachedDo(func(ctx sdk.Context) error { return c.App.OperatorKeeper.OptOut(ctx, acc, x.addr) })
						env.Outcome(fmt.Sprintf("optout:%v", err == nil))
						if err == nil {
							r.op(fmt.Sprintf("vp.optout %s %s", x.addr, acc), "ok")
						}
					} else {
						err := c.CachedDo(func(ctx sdk.Context) error { return c.App.OperatorKeeper.OptIn(ctx, acc, x.addr) })
						env.Outcome(fmt.Sprintf("optin:%v", err == nil))
						if err == nil {
							r.op(fmt.Sprintf("vp.optin %s %s", x.addr, acc), "ok")
						}
					}
				case 7: // slash of an operator's pools (shares stay: share price drops below 1)
					oi := rng.Intn(cfg.NOperators)
					r.slash(oi, r.slashPower(rng, oi), int64([]int{1, 5, 10, 1 + rng.Intn(50), 1 + rng.Intn(99)}[rng.Intn(5)]), rng.Chance(1, 3))
				}
			}
			var d time.Duration
			switch rng.Pick(3, 3, 1, 1) {
			case 0:
				d = time.Duration(5+rng.Intn(40)) * time.Second
			case 1:
				d = time.Duration(50+rng.Intn(30)) * time.Second
			case 2:
				d = time.Duration(2+rng.Intn(4)) * time.Minute
			case 3:
				d = time.Duration(1+rng.Intn(2)) * time.Hour
			}
			if !r.block(d) {
				break
			}
		}
		env.Report.Histories++
		if r.ends > 0 {
			env.DistinctKey(fmt.Sprintf("h%d-o%d-a%d-e%d-s%d-f%d-x%d", hi, cfg.NOperators, len(cfg.Assets), r.ends, len(extras), r.failEnds, r.nSlash))
		}
		if hi < 2 {
			env.Sample(strings.Join(r.hist[:min(len(r.hist), 10)], " ; "))
		}
		env.Outcome(fmt.Sprintf("history:ends>0=%v,second=%v", r.ends > 0, len(extras) > 0))
		env.Outcome(fmt.Sprintf("history:avs-after-failing-one=%v,slashed=%v,min-self-between-token-and-share=%v", r.afterFail > 0, r.nSlash > 0, r.flips > 0))
	}
	return nil
}

func vpAmount(rng *RNG, dec int) *big.Int {
	switch rng.Intn(6) {
	case 0:
		return big.NewInt(1)
	case 1:
		return new(big.Int).Sub(pow10(dec), big.NewInt(1))
	case 2:
		return new(big.Int).Add(pow10(dec), big.NewInt(1))
	case 3:
		return new(big.Int).Mul(big.NewInt(int64(1+rng.Intn(5000))), pow10(dec))
	default:
		return new(big.Int).Add(rng.BigBelow(new(big.Int).Mul(big.NewInt(3000), pow10(dec))), big.NewInt(1))
	}
}

var _ = sort.Strings
