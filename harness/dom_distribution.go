package main

// C17 — native supply and fee distribution are conserved.
//
// Drives the real x/epochs BeginBlocker → x/feedistribution AfterEpochEnd (AllocateTokens) →
// x/exomint AfterEpochEnd through app.BeginBlock over seeded histories: fee income (bank sends of
// c.Funded to the fee collector), validators with different powers and commission rates, a
// community tax, stakers that deposit and delegate through the keepers, short/long block-time
// steps around epoch boundaries. Every block prints supply, module balances and every booked
// claim of the feedistribution store (read by prefix iteration, not through the getters that
// wrote them) for the Lean model to reproduce, and evaluates the property's predicates
// (monitors) on the real state.

import (
	"encoding/json"
	"fmt"
	"math/big"
	"sort"
	"strings"
	"time"

	sdkmath "cosmossdk.io/math"
	abci "github.com/cometbft/cometbft/abci/types"
	sdk "github.com/cosmos/cosmos-sdk/types"
	authtypes "github.com/cosmos/cosmos-sdk/x/auth/types"
	stakingtypes "github.com/cosmos/cosmos-sdk/x/staking/types"
	"github.com/ethereum/go-ethereum/common"

	"github.com/ExocoreNetwork/exocore/utils"
	assetskeeper "github.com/ExocoreNetwork/exocore/x/assets/keeper"
	assetstypes "github.com/ExocoreNetwork/exocore/x/assets/types"
	avstypes "github.com/ExocoreNetwork/exocore/x/avs/types"
	delegationtypes "github.com/ExocoreNetwork/exocore/x/delegation/types"
	dogfoodtypes "github.com/ExocoreNetwork/exocore/x/dogfood/types"
	epochstypes "github.com/ExocoreNetwork/exocore/x/epochs/types"
	exominttypes "github.com/ExocoreNetwork/exocore/x/exomint/types"
	distrtypes "github.com/ExocoreNetwork/exocore/x/feedistribution/types"
	delegationkeeper "github.com/ExocoreNetwork/exocore/x/delegation/keeper"
	operatortypes "github.com/ExocoreNetwork/exocore/x/operator/types"
	oraclekeeper "github.com/ExocoreNetwork/exocore/x/oracle/keeper"
)

func init() { register("distribution", domDistribution) }

var bigPrec = new(big.Int).Exp(big.NewInt(10), big.NewInt(18), nil)

func pow10(n int) *big.Int { return new(big.Int).Exp(big.NewInt(10), big.NewInt(int64(n)), nil) }

// distrValIn is one validator as AllocateTokens will see it in the next BeginBlock.
type distrValIn struct {
	Op    string
	Power int64
	Rate  *big.Int
	Found bool
	Occ   []distrOcc
}
type distrOcc struct {
	Staker string
	Power  *big.Int
}

// distrSnap is everything C17 talks about, read from the real state.
type distrSnap struct {
	Supply, FC, Mint, Distr *big.Int
	Community               *big.Int
	Commission, Rewards     map[string]*big.Int
	Outstanding             map[string]*big.Int
}

func sumBook(m map[string]*big.Int) *big.Int {
	s := new(big.Int)
	for _, v := range m {
		s.Add(s, v)
	}
	return s
}

func (s *distrSnap) claims() *big.Int {
	t := new(big.Int).Set(s.Community)
	t.Add(t, sumBook(s.Commission))
	t.Add(t, sumBook(s.Rewards))
	return t
}

func fmtBook(m map[string]*big.Int) string {
	var parts []string
	for _, k := range sortedKeys(m) {
		if m[k].Sign() != 0 {
			parts = append(parts, k+"="+m[k].String())
		}
	}
	return strings.Join(parts, ",")
}

func (s *distrSnap) String(evs []string) string {
	return fmt.Sprintf("%s %s %s %s %s|C %s|R %s|O %s|%s", s.Supply, s.FC, s.Mint, s.Distr, s.Community,
		fmtBook(s.Commission), fmtBook(s.Rewards), fmtBook(s.Outstanding), strings.Join(evs, ","))
}

// readDistr reads balances through x/bank and the claims by iterating the feedistribution store.
func readDistr(c *Chain, ctx sdk.Context) *distrSnap {
	denom := utils.BaseDenom
	bal := func(module string) *big.Int {
		return c.App.BankKeeper.GetBalance(ctx, c.App.AccountKeeper.GetModuleAddress(module), denom).Amount.BigInt()
	}
	s := &distrSnap{
		Supply: c.App.BankKeeper.GetSupply(ctx, denom).Amount.BigInt(),
		FC:     bal(authtypes.FeeCollectorName), Mint: bal(exominttypes.ModuleName), Distr: bal(distrtypes.ModuleName),
		Commission: map[string]*big.Int{}, Rewards: map[string]*big.Int{}, Outstanding: map[string]*big.Int{},
	}
	s.Community = c.App.DistrKeeper.GetFeePool(ctx).CommunityPool.AmountOf(denom).BigInt()
	store := ctx.KVStore(c.App.GetKey(distrtypes.StoreKey))
	cdc := c.App.AppCodec()
	iter := func(prefix []byte, f func(key []byte, val []byte)) {
		it := sdk.KVStorePrefixIterator(store, prefix)
		defer it.Close()
		for ; it.Valid(); it.Next() {
			k := it.Key()
			// prefix byte, length byte, payload
			if len(k) < 2 {
				continue
			}
			f(k[2:], it.Value())
		}
	}
	iter(distrtypes.ValidatorAccumulatedCommissionPrefix, func(k, v []byte) {
		var x distrtypes.ValidatorAccumulatedCommission
		cdc.MustUnmarshal(v, &x)
		s.Commission[sdk.AccAddress(k).String()] = x.Commission.AmountOf(denom).BigInt()
	})
	iter(distrtypes.ValidatorOutstandingRewardsPrefix, func(k, v []byte) {
		var x distrtypes.ValidatorOutstandingRewards
		cdc.MustUnmarshal(v, &x)
		s.Outstanding[sdk.AccAddress(k).String()] = x.Rewards.AmountOf(denom).BigInt()
	})
	iter(distrtypes.StakerOutstandingRewardsPrefix, func(k, v []byte) {
		var x distrtypes.StakerOutstandingRewards
		cdc.MustUnmarshal(v, &x)
		s.Rewards[string(k)] = x.Rewards.AmountOf(denom).BigInt()
	})
	return s
}

// distrInputs reads, from the committed state the next BeginBlock will start from, what
// AllocateTokens reads: LastTotalPower, the validators in store order, their operator, commission
// rate and the staker occurrences of AllocateTokensToStakers with the power of each occurrence.
func distrInputs(c *Chain, ctx sdk.Context) (int64, []distrValIn) {
	total := c.App.StakingKeeper.GetLastTotalPower(ctx).Int64()
	var out []distrValIn
	for _, val := range c.App.StakingKeeper.GetAllExocoreValidators(ctx) {
		v := distrValIn{Op: "-", Power: val.Power, Rate: new(big.Int)}
		pk, err := val.ConsPubKey()
		if err != nil {
			out = append(out, v)
			continue
		}
		det, found := c.App.StakingKeeper.ValidatorByConsAddrForChainID(ctx, sdk.GetConsAddress(pk), c.ChainIDNR)
		if !found {
			out = append(out, v)
			continue
		}
		v.Found = true
		acc := sdk.AccAddress(det.GetOperator())
		v.Op = acc.String()
		if info, err := c.App.OperatorKeeper.OperatorInfo(ctx, acc.String()); err == nil {
			v.Rate = info.Commission.Rate.BigInt()
		}
		avsList, err := c.App.OperatorKeeper.GetOptedInAVSForOperator(ctx, acc.String())
		if err == nil {
			for _, avs := range avsList {
				assets, err := c.App.AVSManagerKeeper.GetAVSSupportedAssets(ctx, avs)
				if err != nil {
					continue
				}
				for _, assetID := range sortedKeys(assets) {
					sl, err := c.App.DelegationKeeper.GetStakersByOperator(ctx, acc.String(), assetID)
					if err != nil {
						continue
					}
					for _, st := range sl.Stakers {
						p, err := c.App.OperatorKeeper.CalculateUSDValueForStaker(ctx, st, avs, acc.Bytes())
						if err != nil {
							continue
						}
						v.Occ = append(v.Occ, distrOcc{Staker: st, Power: p.BigInt()})
					}
				}
			}
		}
		out = append(out, v)
	}
	return total, out
}

func fmtDistrInputs(total int64, vals []distrValIn) string {
	var b strings.Builder
	fmt.Fprintf(&b, "%d %d", total, len(vals))
	for _, v := range vals {
		f := 0
		if v.Found {
			f = 1
		}
		fmt.Fprintf(&b, " %s %d %s %d %d", v.Op, v.Power, v.Rate, f, len(v.Occ))
		for _, o := range v.Occ {
			fmt.Fprintf(&b, " %s %s", o.Staker, o.Power)
		}
	}
	return b.String()
}

// distrStep = Chain.EndAndBegin with a look at the committed state between Commit and BeginBlock.
func distrStep(c *Chain, d time.Duration, mid func(ctx sdk.Context)) (res BlockResult) {
	if c.Halted != "" {
		res.Halt = c.Halted
		return
	}
	func() {
		defer recoverTo(&res.Halt, "EndBlock")
		res.End = c.App.EndBlock(abci.RequestEndBlock{Height: c.Header.Height})
	}()
	if res.Halt == "" {
		func() {
			defer recoverTo(&res.Halt, "Commit")
			res.AppHash = c.App.Commit().Data
		}()
	}
	if res.Halt == "" {
		h := c.Header
		h.Height++
		h.Time = h.Time.Add(d)
		h.AppHash = res.AppHash
		c.Header = h
		if mid != nil {
			mid(c.App.BaseApp.NewContext(true, h))
		}
		func() {
			defer recoverTo(&res.Halt, "BeginBlock")
			res.Begin = c.App.BeginBlock(abci.RequestBeginBlock{Header: h})
		}()
	}
	if res.Halt != "" {
		c.Halted = res.Halt
		return
	}
	c.Ctx = c.App.BaseApp.NewContext(false, c.Header)
	return
}

func haltSig(h string) string {
	switch {
	case strings.Contains(h, "negative coin amount"):
		return "halt:negative-coin-amount"
	case strings.Contains(h, "division by zero"):
		return "halt:division-by-zero"
	case strings.Contains(h, "nil pointer"):
		return "halt:nil-pointer"
	}
	return "halt:other"
}

// spec arithmetic, independent of sdk.Dec and of the Lean model (plain big.Int floors)
func specFeeMultiplier(fees, tax *big.Int) *big.Int {
	x := new(big.Int).Mul(fees, bigPrec) // feesDec raw
	x.Mul(x, new(big.Int).Sub(bigPrec, tax))
	return x.Quo(x, bigPrec)
}

func specValReward(fm *big.Int, power, total int64) *big.Int {
	frac := new(big.Int).Mul(big.NewInt(power), bigPrec)
	frac.Quo(frac, big.NewInt(total))
	x := new(big.Int).Mul(fm, frac)
	return x.Quo(x, bigPrec)
}

// banker's rounding of x/10^18 for x >= 0
func specRound(x *big.Int) *big.Int {
	q, r := new(big.Int).QuoRem(x, bigPrec, new(big.Int))
	half := new(big.Int).Quo(bigPrec, big.NewInt(2))
	switch r.Cmp(half) {
	case 1:
		q.Add(q, big.NewInt(1))
	case 0:
		if q.Bit(0) == 1 {
			q.Add(q, big.NewInt(1))
		}
	}
	return q
}

type distrHistCfg struct {
	cfg       ChainCfg
	distrID   string
	mintID    string
	reward    *big.Int
	tax       *big.Int
	rates     []*big.Int
	shrink    map[string]time.Duration
	secondAVS *secondAVSCfg
}

type distrDeleg struct {
	st     Actor
	ai, oi int
}

type secondAVSCfg struct {
	addr       string
	assetIdx   []int
	dogfoodIdx []int
	epochID    string
}

func decFromRaw(x *big.Int) sdkmath.LegacyDec { return sdkmath.LegacyNewDecFromBigIntWithPrec(x, 18) }

// distrBoot boots a chain for one history.
func distrBoot(h *distrHistCfg) *Chain {
	cfg := h.cfg
	cfg.Mutate = func(c *Chain, gs map[string]json.RawMessage) {
		cdc := c.App.AppCodec()
		eg := epochstypes.DefaultGenesis()
		for i := range eg.Epochs {
			if d, ok := h.shrink[eg.Epochs[i].Identifier]; ok {
				eg.Epochs[i].Duration = d
			}
		}
		gs[epochstypes.ModuleName] = cdc.MustMarshalJSON(eg)
		gs[distrtypes.ModuleName] = cdc.MustMarshalJSON(distrtypes.NewGenesisState(distrtypes.Params{
			EpochIdentifier: h.distrID, CommunityTax: decFromRaw(h.tax)}))
		mg := exominttypes.DefaultGenesis()
		mg.Params.EpochIdentifier = h.mintID
		mg.Params.EpochReward = sdkmath.NewIntFromBigInt(h.reward)
		gs[exominttypes.ModuleName] = cdc.MustMarshalJSON(mg)
		var og operatortypes.GenesisState
		cdc.MustUnmarshalJSON(gs[operatortypes.ModuleName], &og)
		for i := range og.Operators {
			if i < len(h.rates) {
				og.Operators[i].OperatorInfo.Commission = stakingtypes.NewCommission(decFromRaw(h.rates[i]), sdk.OneDec(), sdk.OneDec())
			}
		}
		if s := h.secondAVS; s != nil {
			// directed scenario F-17b: the dogfood AVS supports only some of the assets
			var dg dogfoodtypes.GenesisState
			cdc.MustUnmarshalJSON(gs[dogfoodtypes.ModuleName], &dg)
			dg.Params.AssetIDs = nil
			for _, i := range s.dogfoodIdx {
				dg.Params.AssetIDs = append(dg.Params.AssetIDs, c.AssetIDs[i])
			}
			gs[dogfoodtypes.ModuleName] = cdc.MustMarshalJSON(&dg)
		}
		gs[operatortypes.ModuleName] = cdc.MustMarshalJSON(&og)
	}
	resetOracleGlobals()
	return NewChain(cfg)
}

// resetOracleGlobals: x/oracle keeps its aggregator context / cache in process-global variables
// (keeper/single.go); without this the second chain of a run would read the first chain's
// oracle params and token list.
func resetOracleGlobals() {
	oraclekeeper.ResetAggregatorContext()
	oraclekeeper.ResetAggregatorContextCheckTx()
	oraclekeeper.ResetCache()
}

func distrDepositDelegate(c *Chain, staker Actor, assetIdx int, opIdx int, amt *big.Int) error {
	assetAddr := common.HexToAddress(c.Cfg.Assets[assetIdx].Addr)
	return c.CachedDo(func(ctx sdk.Context) error {
		if err := c.App.AssetsKeeper.PerformDepositOrWithdraw(ctx, &assetskeeper.DepositWithdrawParams{
			ClientChainLzID: c.LzID, Action: assetstypes.DepositLST, AssetsAddress: assetAddr.Bytes(),
			StakerAddress: staker.Eth.Bytes(), OpAmount: sdkmath.NewIntFromBigInt(amt),
		}); err != nil {
			return err
		}
		return c.App.DelegationKeeper.DelegateTo(ctx, &delegationtypes.DelegationOrUndelegationParams{
			ClientChainID: c.LzID, Action: assetstypes.DelegateTo, AssetsAddress: assetAddr.Bytes(),
			OperatorAddress: c.Operators[opIdx].Acc, StakerAddress: staker.Eth.Bytes(), OpAmount: sdkmath.NewIntFromBigInt(amt),
		})
	})
}

// distrRun runs one booted history: emits the initial ops, then `blocks` blocks.
type distrRunner struct {
	env  *Env
	c    *Chain
	h    *distrHistCfg
	hist []string
	// statistics
	distrEpochs, mintEpochs, stakerPaid int
	zeroPowerEpochs                      int
	emptyListEpochs, zeroStakerEpochs    int // distribution epochs with a validator whose staker list is empty / all-zero
	nonce                                uint64
	restorePower                         bool
	savedPower                           *sdkmath.Int // LastTotalPower before zeroTotalPower, restored after the next distribution epoch
	f17aSeen                             bool
	// parameter updates (dom_distribution_params.go)
	mintDenom                 string // exomint MintDenom in force
	paramUpdates, switchLower int
	// batches on a dropped branch (dom_distribution_discard.go) whose branch held other mint params / another reward
	discardedMint, discardedReward int
	haltSigAs                 string // directed probes: the sig a halt of this history is reported under
	// F-17c regression (dom_distribution_params.go): updates with a community tax outside [0,1] that were ACCEPTED;
	// with deferTaxAccepted the violation is reported by the scenario after the block that follows (one replay
	// holding update, fees and the halting block) instead of at once
	deferTaxAccepted bool
	taxAccepted      []string
}

func (r *distrRunner) op(op, obs string) {
	r.env.Op(op, obs)
	r.hist = append(r.hist, op)
}

func (r *distrRunner) start(tag string) {
	c, h := r.c, r.h
	r.op("distr.reset", "ok")
	r.op("distr.note "+tag, "ok")
	r.op(fmt.Sprintf("distr.cfg %s %s %s %s", h.distrID, h.mintID, h.reward, h.tax), "ok")
	r.denomOp()
	for _, e := range c.App.EpochsKeeper.AllEpochInfos(c.Ctx) {
		st := 0
		if e.EpochCountingStarted {
			st = 1
		}
		r.op(fmt.Sprintf("distr.epoch %s %d %d %d %d %d %d", e.Identifier, tns(e.StartTime), int64(e.Duration), e.CurrentEpoch, tns(e.CurrentEpochStartTime), st, e.CurrentEpochStartHeight), "ok")
	}
	s := readDistr(c, c.Ctx)
	r.op(fmt.Sprintf("distr.bal %s %s %s %s %s", s.Supply, s.FC, s.Mint, s.Distr, s.Community), "ok")
}

func (r *distrRunner) fee(amt *big.Int) {
	c := r.c
	err := c.CachedDo(func(ctx sdk.Context) error {
		return c.App.BankKeeper.SendCoinsFromAccountToModule(ctx, c.Funded.Acc, authtypes.FeeCollectorName,
			sdk.NewCoins(sdk.NewCoin(utils.BaseDenom, sdkmath.NewIntFromBigInt(amt))))
	})
	if err != nil {
		r.env.Outcome("fee:rej")
		return
	}
	r.env.Outcome("fee:ok")
	r.op("distr.fee "+amt.String(), "ok")
}

// block ends the current block and begins the next one at +d; returns false when the chain halted.
func (r *distrRunner) block(d time.Duration) bool {
	c, env := r.c, r.env
	before := readDistr(c, c.Ctx)
	otherBefore := r.otherSupply()
	var total int64
	var vals []distrValIn
	res := distrStep(c, d, func(ctx sdk.Context) { total, vals = distrInputs(c, ctx) })
	op := fmt.Sprintf("distr.block %d %d %s", c.Header.Time.UnixNano(), c.Header.Height, fmtDistrInputs(total, vals))
	if res.Halt != "" {
		r.op(op, "halt")
		env.Eval("C17.halt")
		sig := haltSig(res.Halt)
		if r.haltSigAs != "" {
			sig = r.haltSigAs
		}
		what := "block processing panicked: " + res.Halt
		if len(r.taxAccepted) > 0 {
			what += "; community tax in force outside [0,1] after the ACCEPTED " + strings.Join(r.taxAccepted, ", ")
		}
		env.Violate("C17.halt", sig, what, r.hist)
		env.Outcome("block:halt")
		return false
	}
	after := readDistr(c, c.Ctx)
	evs := epochEvents(res.Begin.Events)
	r.op(op, after.String(evs))
	distrEnded, mintEnded := 0, 0
	for _, e := range evs {
		if e[0] == 'E' {
			f := strings.Split(e, ":")
			if f[1] == r.h.distrID {
				distrEnded++
			}
			if f[1] == r.h.mintID {
				mintEnded++
			}
		}
	}
	r.distrEpochs += distrEnded
	if distrEnded > 0 && total != 0 {
		e, z := emptyStakerLists(vals)
		if e > 0 {
			r.emptyListEpochs++
			env.Note("epochs-with-empty-staker-list")
		}
		if z > 0 {
			r.zeroStakerEpochs++
			env.Note("epochs-with-zero-power-stakers")
		}
	}
	r.mintEpochs += mintEnded
	// ---------------- monitors on the real state
	// (1) supply changes only by the mint, exactly once per mint-epoch end
	env.Eval("C17.supply")
	// (the reward, identifier and denom in force: they follow every accepted MsgUpdateParams, dom_distribution_params.go)
	wantSupply := new(big.Int).Add(before.Supply, new(big.Int).Mul(r.nativeReward(), big.NewInt(int64(mintEnded))))
	if after.Supply.Cmp(wantSupply) != 0 {
		env.Violate("C17.supply", "supply-delta", fmt.Sprintf("supply %s -> %s with %d end(s) of the configured mint identifier %s, reward %s", before.Supply, after.Supply, mintEnded, r.h.mintID, r.nativeReward()), r.hist)
	}
	r.paramMonitors(otherBefore, mintEnded)
	env.Eval("C17.mintacc")
	if after.Mint.Cmp(before.Mint) != 0 {
		env.Violate("C17.mintacc", "mint-account-keeps-coins", fmt.Sprintf("exomint account %s -> %s", before.Mint, after.Mint), r.hist)
	}
	// (2) module accounts: nothing leaves the three accounts except fee collector -> distribution
	env.Eval("C17.accounts")
	sumB := new(big.Int).Add(before.FC, before.Distr)
	sumA := new(big.Int).Add(after.FC, after.Distr)
	if new(big.Int).Sub(sumA, sumB).Cmp(new(big.Int).Sub(after.Supply, before.Supply)) != 0 {
		env.Violate("C17.accounts", "accounts-leak", fmt.Sprintf("fee collector+distribution %s -> %s but supply changed by %s", sumB, sumA, new(big.Int).Sub(after.Supply, before.Supply)), r.hist)
	}
	if distrEnded == 0 {
		env.Eval("C17.quiet")
		if after.claims().Cmp(before.claims()) != 0 || after.Distr.Cmp(before.Distr) != 0 {
			env.Violate("C17.quiet", "claims-changed-without-epoch-end", "claims or distribution balance changed in a block without a distribution-epoch end", r.hist)
		}
	} else {
		moved := new(big.Int).Sub(after.Distr, before.Distr)
		// the whole fee-collector balance moves (mint of the same block may refill it afterwards
		// or, if its notification came first, be part of what moved)
		env.Eval("C17.moved")
		mintedNow := new(big.Int).Mul(r.nativeReward(), big.NewInt(int64(mintEnded)))
		if new(big.Int).Add(moved, after.FC).Cmp(new(big.Int).Add(before.FC, mintedNow)) != 0 {
			env.Violate("C17.moved", "not-all-moved", fmt.Sprintf("fee collector %s, moved %s, left %s, minted %s", before.FC, moved, after.FC, mintedNow), r.hist)
		}
		// exactly: replay the notifications in order (per notification distribution before mint):
		// at a distribution end the whole balance leaves the fee collector, at a mint end the
		// reward enters it. This also holds when the last total power is zero.
		wantFC, wantMoved := new(big.Int).Set(before.FC), new(big.Int)
		for _, e := range evs {
			if e[0] != 'E' {
				continue
			}
			id := strings.Split(e, ":")[1]
			if id == r.h.distrID {
				wantMoved.Add(wantMoved, wantFC)
				wantFC = new(big.Int)
			}
			if id == r.h.mintID {
				wantFC.Add(wantFC, r.nativeReward())
			}
		}
		if after.FC.Cmp(wantFC) != 0 || moved.Cmp(wantMoved) != 0 {
			env.Violate("C17.moved", "not-all-moved", fmt.Sprintf("fee collector %s -> %s (want %s), moved %s (want %s), total power %d", before.FC, after.FC, wantFC, moved, wantMoved, total), r.hist)
		}
		if total == 0 {
			// zero total power: everything to the community pool, nothing else booked
			env.Eval("C17.zero-power")
			r.zeroPowerEpochs++
			dCom := new(big.Int).Sub(after.Community, before.Community)
			if dCom.Cmp(new(big.Int).Mul(wantMoved, bigPrec)) != 0 || sumBook(after.Commission).Cmp(sumBook(before.Commission)) != 0 ||
				sumBook(after.Rewards).Cmp(sumBook(before.Rewards)) != 0 {
				env.Violate("C17.zero-power", "zero-power-booking", fmt.Sprintf("total power 0: community grew by %s, want %s", dCom, new(big.Int).Mul(wantMoved, bigPrec)), r.hist)
			}
		}
		// (3) booked claims add up to exactly the amount moved — the full statement
		dClaims := new(big.Int).Sub(after.claims(), before.claims())
		movedDec := new(big.Int).Mul(moved, bigPrec)
		dRewards := new(big.Int).Sub(sumBook(after.Rewards), sumBook(before.Rewards))
		if dRewards.Sign() > 0 {
			r.stakerPaid++
		}
		env.Eval("C17.claims")
		if dClaims.Cmp(movedDec) != 0 {
			excess := new(big.Int).Sub(dClaims, movedDec)
			if excess.Cmp(dRewards) == 0 && dRewards.Sign() > 0 {
				if !r.f17aSeen {
					env.Violate("C17.claims", "F17a:claims-exceed-moved-by-staker-rewards", fmt.Sprintf("claims grew by %s but only %s was moved: excess %s = staker rewards booked on top of the community pool", dClaims, movedDec, excess), r.hist)
					r.f17aSeen = true
				}
				env.Note("F17a-epochs")
			} else {
				env.Violate("C17.claims", "claims-mismatch", fmt.Sprintf("claims grew by %s, moved %s, staker rewards grew by %s", dClaims, movedDec, dRewards), r.hist)
			}
		}
		// (4) each validator's portion: proportional to power, split by commission
		if distrEnded == 1 && total != 0 && moved.Sign() >= 0 {
			fm := specFeeMultiplier(moved, r.h.tax)
			for _, v := range vals {
				if !v.Found {
					continue
				}
				env.Eval("C17.share")
				want := specValReward(fm, v.Power, total)
				got := new(big.Int).Sub(bookAt(after.Outstanding, v.Op), bookAt(before.Outstanding, v.Op))
				if got.Cmp(want) != 0 {
					env.Violate("C17.share", "validator-share", fmt.Sprintf("validator %s power %d/%d: portion %s, want %s", v.Op, v.Power, total, got, want), r.hist)
				}
				wantCom := specRound(new(big.Int).Mul(want, v.Rate))
				gotCom := new(big.Int).Sub(bookAt(after.Commission, v.Op), bookAt(before.Commission, v.Op))
				env.Eval("C17.commission")
				if gotCom.Cmp(wantCom) != 0 {
					env.Violate("C17.commission", "commission-split", fmt.Sprintf("validator %s rate %s: commission %s, want %s of %s", v.Op, v.Rate, gotCom, wantCom, want), r.hist)
				}
			}
		}
	}
	// (5) solvency: claims never exceed the distribution account's balance
	env.Eval("C17.solvency")
	balDec := new(big.Int).Mul(after.Distr, bigPrec)
	if after.claims().Cmp(balDec) > 0 {
		woStakers := new(big.Int).Sub(after.claims(), sumBook(after.Rewards))
		if woStakers.Cmp(balDec) <= 0 {
			env.Note("F17a-insolvent-blocks")
			if !r.f17aSeen {
				env.Violate("C17.solvency", "F17a:insolvent-by-staker-rewards", fmt.Sprintf("claims %s exceed balance %s; without staker rewards %s", after.claims(), balDec, woStakers), r.hist)
				r.f17aSeen = true
			}
		} else {
			env.Violate("C17.solvency", "insolvent", fmt.Sprintf("claims %s exceed balance %s even without staker rewards (%s)", after.claims(), balDec, woStakers), r.hist)
		}
	}
	env.Outcome(fmt.Sprintf("block:distr=%d,mint=%d", distrEnded, mintEnded))
	// random histories: after one zero-power distribution epoch put the stored total back (only if
	// the dogfood EndBlock has not replaced it meanwhile, so that it still matches the validators)
	if distrEnded > 0 && r.restorePower && r.savedPower != nil && c.App.StakingKeeper.GetLastTotalPower(c.Ctx).IsZero() {
		prev := *r.savedPower
		_ = c.CachedDo(func(ctx sdk.Context) error { c.App.StakingKeeper.SetLastTotalPower(ctx, prev); return nil })
		r.op("distr.note dogfood.SetLastTotalPower("+prev.String()+")", "ok")
		r.savedPower = nil
	}
	return true
}

func bookAt(m map[string]*big.Int, k string) *big.Int {
	if v, ok := m[k]; ok {
		return v
	}
	return new(big.Int)
}

func domDistribution(env *Env) error {
	n := env.Int("histories", 20)
	maxBlocks := env.Int("blocks", 40)
	rng := NewRNG(env.Report.Seed)
	prng := NewRNG(env.Report.Seed ^ 0x70617261) // parameter updates: a stream of their own
	brng := NewRNG(env.Report.Seed ^ 0x62617463) // batches on dropped branches: a stream of their own
	env.Report.Domain = "distribution"

	// ---- directed regression histories (on the real code): F-17a minimal, F-17b two-AVS staker
	distrScenarioF17a(env)
	distrScenarioF17b(env)
	distrScenarioZeroPower(env)
	distrScenarioEmptyStakers(env)
	distrScenarioSlashedToZero(env)
	distrScenarioParams(env) // accepted parameter updates in the middle of a history (dom_distribution_params.go)
	distrScenarioDiscarded(env) // parameter updates on a branch that is dropped (dom_distribution_discard.go)

	ids := []string{epochstypes.DayEpochID, epochstypes.HourEpochID, epochstypes.MinuteEpochID, epochstypes.WeekEpochID} // store (alphabetical) order
	powerChoices := []int64{100, 101, 150, 1000, 4999}
	half := new(big.Int).Quo(bigPrec, big.NewInt(2))
	for hi := 0; hi < n; hi++ {
		seed := env.Report.Seed*1000 + uint64(hi)
		cfg := DefaultCfg(seed)
		if brng.Chance(1, 3) { // a chain id that is not a mainnet id: simulations of parameter updates can be accepted
			cfg.ChainID = utils.TestnetChainID + "-1"
		}
		cfg.NOperators = 1 + rng.Intn(4)
		cfg.Powers = nil
		for i := 0; i < cfg.NOperators; i++ {
			if rng.Chance(1, 2) {
				cfg.Powers = append(cfg.Powers, powerChoices[rng.Intn(len(powerChoices))])
			} else {
				cfg.Powers = append(cfg.Powers, int64(100+rng.Intn(20000)))
			}
		}
		if rng.Chance(1, 2) {
			cfg.Assets = append(cfg.Assets, AssetSpec{Addr: "0x2260FAC5E5542a773Aa44fBCfeDf7C193bc2C599", Decimals: uint32(rng.Intn(19)), Price: fmt.Sprint(1 + rng.Intn(70000)), PriceDec: int32(rng.Intn(9))})
		}
		h := &distrHistCfg{cfg: cfg, shrink: map[string]time.Duration{}}
		// identifiers: the dogfood identifier must not precede the distribution identifier in
		// store order (otherwise UpdateVotingPower of the same block runs before AllocateTokens
		// and the pre-computed staker view would be stale)
		di := 1 + rng.Intn(2) // hour | minute
		h.distrID = ids[di]
		h.mintID = ids[rng.Intn(3)]
		dg := di + rng.Intn(len(ids)-di)
		h.cfg.EpochID = ids[dg]
		if rng.Chance(1, 3) {
			h.shrink[epochstypes.HourEpochID] = time.Duration(2+rng.Intn(5)) * time.Minute
			h.shrink[epochstypes.DayEpochID] = time.Duration(7+rng.Intn(20)) * time.Minute
		}
		switch rng.Intn(6) {
		case 0:
			h.reward = big.NewInt(0)
		case 1:
			h.reward = big.NewInt(1)
		case 2:
			h.reward = big.NewInt(20)
		case 3:
			h.reward = new(big.Int).Add(bigPrec, big.NewInt(7))
		case 4:
			h.reward = pow10(30)
		default:
			h.reward = rng.BigBelow(pow10(24))
		}
		switch rng.Intn(5) {
		case 0:
			h.tax = big.NewInt(0)
		case 1:
			h.tax = new(big.Int).Set(bigPrec)
		case 2:
			h.tax = new(big.Int).Mul(big.NewInt(2), pow10(16))
		default:
			h.tax = rng.BigBelow(new(big.Int).Add(bigPrec, big.NewInt(1)))
		}
		for i := 0; i < cfg.NOperators; i++ {
			switch rng.Intn(5) {
			case 0:
				h.rates = append(h.rates, big.NewInt(0))
			case 1:
				h.rates = append(h.rates, new(big.Int).Set(bigPrec))
			case 2:
				h.rates = append(h.rates, new(big.Int).Set(half))
			default:
				h.rates = append(h.rates, rng.BigBelow(new(big.Int).Add(bigPrec, big.NewInt(1))))
			}
		}
		c := distrBoot(h)
		r := &distrRunner{env: env, c: c, h: h, restorePower: rng.Chance(3, 4)}
		r.start(fmt.Sprintf("random-%d", hi))
		nb := 8 + rng.Intn(maxBlocks)
		nStakers := 0
		var delegs []distrDeleg
		for b := 0; b < nb; b++ {
			// fee income
			for k := rng.Intn(3); k > 0; k-- {
				var amt *big.Int
				switch rng.Intn(7) {
				case 0:
					amt = big.NewInt(1)
				case 1:
					amt = big.NewInt(2)
				case 2:
					amt = new(big.Int).Sub(bigPrec, big.NewInt(1))
				case 3:
					amt = new(big.Int).Add(bigPrec, big.NewInt(1))
				case 4:
					amt = rng.BigBelow(pow10(20))
				case 5:
					amt = big.NewInt(int64(1 + rng.Intn(1000)))
				default:
					amt = new(big.Int).Add(rng.BigBelow(pow10(19)), big.NewInt(1))
				}
				r.fee(amt)
			}
			// zero last total power (what the dogfood EndBlock stores when every validator dropped
			// out): the next distribution epoch must move the fees and book them to the community pool
			if rng.Chance(1, 40) {
				r.zeroTotalPower()
			}
			// stakers: deposit + delegate (first asset or the second one)
			if rng.Chance(1, 4) && nStakers < 6 {
				var st Actor
				if nStakers > 0 && rng.Chance(1, 3) {
					st = NewActor(seed, "staker", rng.Intn(nStakers))
				} else {
					st = NewActor(seed, "staker", nStakers)
					nStakers++
				}
				ai := rng.Intn(len(cfg.Assets))
				oi := rng.Intn(cfg.NOperators)
				amt := new(big.Int).Add(rng.BigBelow(new(big.Int).Mul(big.NewInt(5000), pow10(int(cfg.Assets[ai].Decimals)))), big.NewInt(1))
				err := distrDepositDelegate(c, st, ai, oi, amt)
				if err == nil {
					delegs = append(delegs, distrDeleg{st, ai, oi})
				}
				env.Outcome(fmt.Sprintf("delegate:%v", err == nil))
				r.op(fmt.Sprintf("distr.note delegate staker=%s asset=%d op=%d amt=%s ok=%v", st.Eth.Hex(), ai, oi, amt, err == nil), "ok")
			}
			// undelegate everything of some delegation (the operator's own genesis self-delegation
			// included): staker lists shrink to empty while the validator keeps its power
			if rng.Chance(1, 10) {
				if len(delegs) > 0 && rng.Chance(1, 2) {
					dl := delegs[rng.Intn(len(delegs))]
					r.undelegateAll(dl.st, dl.ai, dl.oi)
				} else {
					oi := rng.Intn(cfg.NOperators)
					r.undelegateAll(c.Operators[oi], 0, oi)
				}
			}
			if rng.Chance(1, 25) {
				r.jail(rng.Intn(cfg.NOperators), rng.Chance(2, 3))
			}
			if rng.Chance(1, 30) {
				r.slash(rng.Intn(cfg.NOperators), []int64{100, 100, 50, 7}[rng.Intn(4)])
			}
			// governance: MsgUpdateParams of x/exomint / x/feedistribution (identifier, reward, denom, tax)
			r.randomParams(prng)
			r.randomBatch(brng) // … and batches of them on a branch that is dropped (dom_distribution_discard.go)
			// block time step
			var d time.Duration
			infos := c.App.EpochsKeeper.AllEpochInfos(c.Ctx)
			switch rng.Pick(3, 3, 4, 2, 1) {
			case 0:
				d = time.Duration(1+rng.Intn(30)) * time.Second
			case 1:
				d = time.Duration(40+rng.Intn(60)) * time.Second
			case 2: // aim at a boundary of the distribution / mint identifier (exactly, ±1ns)
				want := h.distrID
				if rng.Chance(1, 3) {
					want = h.mintID
				}
				for _, e := range infos {
					if e.Identifier == want {
						target := e.CurrentEpochStartTime.Add(e.Duration).Add(time.Duration(rng.Intn(3) - 1))
						if target.After(c.Header.Time) && target.Sub(c.Header.Time) < 30*24*time.Hour {
							d = target.Sub(c.Header.Time)
						}
					}
				}
				if d == 0 {
					d = time.Duration(1 + rng.Intn(5))
				}
			case 3: // multi-epoch gap: the clock catches up one epoch per block
				d = time.Duration(2+rng.Intn(4))*time.Minute + time.Duration(rng.Intn(3))
			case 4:
				d = time.Duration(1+rng.Intn(3)) * time.Hour
			}
			if !r.block(d) {
				break
			}
		}
		env.Report.Histories++
		if r.distrEpochs > 0 {
			env.DistinctKey(fmt.Sprintf("h%d-v%d-d%d-m%d-s%d", hi, cfg.NOperators, r.distrEpochs, r.mintEpochs, r.stakerPaid))
		}
		if hi < 2 {
			env.Sample(strings.Join(r.hist[:min(len(r.hist), 12)], " ; "))
		}
		env.Outcome(fmt.Sprintf("history:distr>0=%v,mint>0=%v,stakerpaid>0=%v,zeropower>0=%v,emptylist>0=%v,zerostakers>0=%v", r.distrEpochs > 0, r.mintEpochs > 0, r.stakerPaid > 0, r.zeroPowerEpochs > 0, r.emptyListEpochs > 0, r.zeroStakerEpochs > 0))
		env.Outcome(fmt.Sprintf("history:param-updates>0=%v,mint-identifier->lower-or-equal>0=%v", r.paramUpdates > 0, r.switchLower > 0))
	}
	return nil
}


// distrUndelegateAll undelegates the whole delegation of `staker` (asset assetIdx) from operator
// opIdx: its share becomes zero and x/delegation removes it from the operator's staker list.
func distrUndelegateAll(c *Chain, staker Actor, assetIdx, opIdx int, nonce uint64) (string, error) {
	assetAddr := common.HexToAddress(c.Cfg.Assets[assetIdx].Addr)
	assetID := c.AssetIDs[assetIdx]
	op := c.Operators[opIdx].Acc
	di, err := c.App.DelegationKeeper.GetSingleDelegationInfo(c.Ctx, StakerIDOf(c.LzID, staker.Eth), assetID, op.String())
	if err != nil {
		return "0", err
	}
	oa, err := c.App.AssetsKeeper.GetOperatorSpecifiedAssetInfo(c.Ctx, op, assetID)
	if err != nil {
		return "0", err
	}
	amt, err := delegationkeeper.TokensFromShares(di.UndelegatableShare, oa.TotalShare, oa.TotalAmount)
	if err != nil || !amt.IsPositive() {
		return "0", fmt.Errorf("nothing to undelegate")
	}
	return amt.String(), c.CachedDo(func(ctx sdk.Context) error {
		return c.App.DelegationKeeper.UndelegateFrom(ctx, &delegationtypes.DelegationOrUndelegationParams{
			ClientChainID: c.LzID, Action: assetstypes.UndelegateFrom, AssetsAddress: assetAddr.Bytes(),
			OperatorAddress: op, StakerAddress: staker.Eth.Bytes(), OpAmount: amt,
			LzNonce: nonce, TxHash: common.BigToHash(new(big.Int).SetUint64(nonce + 7000)),
		})
	})
}

func (r *distrRunner) undelegateAll(staker Actor, assetIdx, opIdx int) bool {
	r.nonce++
	amt, err := distrUndelegateAll(r.c, staker, assetIdx, opIdx, r.nonce)
	r.env.Outcome(fmt.Sprintf("undelegate-all:%v", err == nil))
	r.op(fmt.Sprintf("distr.note undelegate-all staker=%s asset=%d op=%d amt=%s ok=%v", staker.Eth.Hex(), assetIdx, opIdx, amt, err == nil), "ok")
	return err == nil
}

// jail marks the operator jailed for the dogfood AVS (its stakers then have zero power).
func (r *distrRunner) jail(opIdx int, jailed bool) {
	c := r.c
	_ = c.CachedDo(func(ctx sdk.Context) error {
		c.App.OperatorKeeper.SetJailedState(ctx, c.ConsKeys[opIdx].ToConsAddr(), c.ChainIDNR, jailed)
		return nil
	})
	r.env.Outcome(fmt.Sprintf("jail:%v", jailed))
	r.op(fmt.Sprintf("distr.note jail op=%d jailed=%v", opIdx, jailed), "ok")
}

// slash cuts every pool of the operator by pct percent (100 = the stakers are slashed to zero).
func (r *distrRunner) slash(opIdx int, pct int64) {
	c := r.c
	r.nonce++
	// the executed proportion is min(1, Power x SlashProportion / operator value)
	power := c.Cfg.Powers[opIdx]
	if pct >= 100 {
		power = 1000000000
	}
	p := &operatortypes.SlashInputInfo{IsDogFood: true, Power: power, SlashType: 1, Operator: c.Operators[opIdx].Acc, AVSAddr: c.AVSAddr,
		SlashContract: "", SlashID: fmt.Sprintf("distr-%d", r.nonce), SlashEventHeight: c.Ctx.BlockHeight(),
		SlashProportion: sdkmath.LegacyNewDecWithPrec(pct, 2)}
	err := c.CachedDo(func(ctx sdk.Context) error { return c.App.OperatorKeeper.Slash(ctx, p) })
	r.env.Outcome(fmt.Sprintf("slash:%v", err == nil))
	r.op(fmt.Sprintf("distr.note slash op=%d pct=%d ok=%v", opIdx, pct, err == nil), "ok")
}

// emptyStakerLists counts the found validators whose operator has no staker occurrence at all /
// only occurrences of zero power in the view AllocateTokens will read.
func emptyStakerLists(vals []distrValIn) (empty, zero int) {
	for _, v := range vals {
		if !v.Found || v.Power <= 0 {
			continue
		}
		if len(v.Occ) == 0 {
			empty++
			continue
		}
		all0 := true
		for _, o := range v.Occ {
			if o.Power.Sign() != 0 {
				all0 = false
			}
		}
		if all0 {
			zero++
		}
	}
	return
}

// distrScenarioEmptyStakers: validators that keep their voting power (the validator set changes
// only at the weekly staking epoch here) while (a) the only staker of operator 0 undelegates
// everything, so the operator's staker list is empty, (b) operator 1 is jailed, so its stakers
// have zero power: at every minute distribution epoch the staker part of their portions must go
// to the community pool (claims = amount moved).
func distrScenarioEmptyStakers(env *Env) {
	cfg := DefaultCfg(env.Report.Seed*1000 + 903)
	cfg.EpochID = epochstypes.WeekEpochID
	h := &distrHistCfg{cfg: cfg, distrID: epochstypes.MinuteEpochID, mintID: epochstypes.HourEpochID, reward: big.NewInt(20),
		tax: new(big.Int).Mul(big.NewInt(2), pow10(16)), rates: []*big.Int{new(big.Int).Mul(big.NewInt(5), pow10(16)), big.NewInt(0)}, shrink: map[string]time.Duration{}}
	c := distrBoot(h)
	r := &distrRunner{env: env, c: c, h: h}
	r.start("scenario-empty-staker-list")
	r.fee(big.NewInt(1000000))
	ok := r.block(61 * time.Second) // ordinary epoch
	und := r.undelegateAll(c.Operators[0], 0, 0)
	for i := 0; i < 2 && ok; i++ {
		r.fee(new(big.Int).Add(bigPrec, big.NewInt(int64(7+i))))
		ok = r.block(61 * time.Second)
	}
	r.jail(1, true)
	for i := 0; i < 2 && ok; i++ {
		r.fee(big.NewInt(int64(999 + i)))
		ok = r.block(61 * time.Second)
	}
	env.Report.Histories++
	env.Outcome(fmt.Sprintf("scenario-empty-staker-list:undelegated=%v,empty-epochs=%d,zero-epochs=%d", und, r.emptyListEpochs, r.zeroStakerEpochs))
}

// distrScenarioSlashedToZero: the only staker of a validator is slashed to zero (100%) while the
// validator keeps its power; distribution epochs keep running.
func distrScenarioSlashedToZero(env *Env) {
	cfg := DefaultCfg(env.Report.Seed*1000 + 904)
	cfg.EpochID = epochstypes.WeekEpochID
	h := &distrHistCfg{cfg: cfg, distrID: epochstypes.MinuteEpochID, mintID: epochstypes.DayEpochID, reward: big.NewInt(0),
		tax: big.NewInt(0), rates: []*big.Int{big.NewInt(0), new(big.Int).Quo(bigPrec, big.NewInt(2))}, shrink: map[string]time.Duration{}}
	c := distrBoot(h)
	r := &distrRunner{env: env, c: c, h: h}
	r.start("scenario-slashed-to-zero")
	r.slash(0, 100)
	ok := true
	for i := 0; i < 3 && ok; i++ {
		r.fee(big.NewInt(int64(500000 + i)))
		ok = r.block(61 * time.Second)
	}
	env.Report.Histories++
	env.Outcome(fmt.Sprintf("scenario-slashed-to-zero:empty-epochs=%d,zero-epochs=%d,ok=%v", r.emptyListEpochs, r.zeroStakerEpochs, ok))
}

// zeroTotalPower stores LastTotalPower = 0 through the dogfood keeper.
func (r *distrRunner) zeroTotalPower() {
	c := r.c
	if prev := c.App.StakingKeeper.GetLastTotalPower(c.Ctx); !prev.IsZero() {
		r.savedPower = &prev
	}
	err := c.CachedDo(func(ctx sdk.Context) error {
		c.App.StakingKeeper.SetLastTotalPower(ctx, sdkmath.ZeroInt())
		return nil
	})
	r.env.Outcome(fmt.Sprintf("zero-total-power:%v", err == nil))
	r.op("distr.note dogfood.SetLastTotalPower(0)", "ok")
}

// distrScenarioZeroPower: distribution epochs at which the last total power is zero, with
// non-zero fees (and a mint in between): the whole fee-collector balance must still move to the
// distribution account and be booked to the community pool exactly once.
func distrScenarioZeroPower(env *Env) {
	cfg := DefaultCfg(env.Report.Seed*1000 + 902)
	cfg.EpochID = epochstypes.WeekEpochID
	h := &distrHistCfg{cfg: cfg, distrID: epochstypes.MinuteEpochID, mintID: epochstypes.MinuteEpochID, reward: big.NewInt(20),
		tax: new(big.Int).Mul(big.NewInt(2), pow10(16)), rates: []*big.Int{big.NewInt(0), big.NewInt(0)}, shrink: map[string]time.Duration{}}
	c := distrBoot(h)
	r := &distrRunner{env: env, c: c, h: h}
	r.start("scenario-zero-power")
	r.zeroTotalPower()
	ok := true
	for i := 0; i < 3 && ok; i++ {
		r.fee(big.NewInt(int64(1000 + i)))
		ok = r.block(61 * time.Second)
	}
	env.Report.Histories++
	env.Outcome(fmt.Sprintf("scenario-zero-power:epochs=%d", r.zeroPowerEpochs))
}

// distrScenarioF17a (regression for F-17a, repaired): two validators with self-delegation only,
// 1000 base units of fees, one distribution epoch. Before the repair the booked claims exceeded
// the amount moved by the stakers' rewards (1000e18 moved, 1955.37e18 booked); a re-introduction
// makes C17.claims / C17.solvency fire with the sigs F17a:….
func distrScenarioF17a(env *Env) {
	cfg := DefaultCfg(env.Report.Seed*1000 + 900)
	cfg.EpochID = epochstypes.WeekEpochID
	h := &distrHistCfg{cfg: cfg, distrID: epochstypes.MinuteEpochID, mintID: epochstypes.DayEpochID, reward: big.NewInt(0),
		tax: new(big.Int).Mul(big.NewInt(2), pow10(16)), rates: []*big.Int{new(big.Int).Mul(big.NewInt(5), pow10(16)), big.NewInt(0)}, shrink: map[string]time.Duration{}}
	c := distrBoot(h)
	r := &distrRunner{env: env, c: c, h: h}
	r.start("scenario-F17a")
	r.fee(big.NewInt(1000))
	r.block(61 * time.Second)
	r.block(61 * time.Second)
	env.Report.Histories++
	if r.f17aSeen {
		env.Outcome("scenario-F17a:overbooked")
	} else {
		env.Outcome("scenario-F17a:clean")
	}
}

// distrScenarioF17b (regression for F-17b, repaired): an operator opted in to two AVSs whose asset
// lists differ; a staker that delegated both assets is visited three times by the collection loop
// of AllocateTokensToStakers. Before the repair every visit was paid with the power of the LAST
// visit, the fractions added up to more than one and `remaining.Sub` panicked inside BeginBlock
// (sig halt:negative-coin-amount); now the staker is listed once with its accumulated power.
func distrScenarioF17b(env *Env) {
	cfg := DefaultCfg(env.Report.Seed*1000 + 901)
	cfg.EpochID = epochstypes.WeekEpochID
	cfg.NOperators = 1
	cfg.Powers = []int64{1000}
	cfg.Assets = append(cfg.Assets, AssetSpec{Addr: "0x2260FAC5E5542a773Aa44fBCfeDf7C193bc2C599", Decimals: 8, Price: "60000", PriceDec: 0})
	dogfoodAVS := avstypes.GenerateAVSAddr(avstypes.ChainIDWithoutRevision(cfg.ChainID))
	second := "0x" + strings.Repeat("1", 40)
	s := &secondAVSCfg{addr: second, epochID: epochstypes.MinuteEpochID}
	// the AVS that comes LAST in the operator's opted-in list must be the one with both assets
	if strings.ToLower(second) > strings.ToLower(dogfoodAVS) {
		s.assetIdx, s.dogfoodIdx = []int{0, 1}, []int{0}
	} else {
		s.assetIdx, s.dogfoodIdx = []int{0}, []int{0, 1}
	}
	h := &distrHistCfg{cfg: cfg, distrID: epochstypes.MinuteEpochID, mintID: epochstypes.DayEpochID, reward: big.NewInt(0),
		tax: big.NewInt(0), rates: []*big.Int{big.NewInt(0)}, shrink: map[string]time.Duration{}, secondAVS: s}
	var c *Chain
	func() {
		defer func() {
			if rec := recover(); rec != nil {
				env.Outcome("scenario-F17b:boot-failed")
				env.Note("scenario-F17b boot: " + strings.ReplaceAll(fmt.Sprint(rec), "\n", " ")[:min(120, len(fmt.Sprint(rec)))])
			}
		}()
		c = distrBoot(h)
	}()
	if c == nil {
		return
	}
	r := &distrRunner{env: env, c: c, h: h}
	r.start("scenario-F17b")
	var ids []string
	for _, i := range s.assetIdx {
		ids = append(ids, c.AssetIDs[i])
	}
	e0 := c.CachedDo(func(ctx sdk.Context) error {
		if err := c.App.AVSManagerKeeper.UpdateAVSInfo(ctx, &avstypes.AVSRegisterOrDeregisterParams{
			AvsName: "second", AvsAddress: s.addr, SlashContractAddr: s.addr, RewardContractAddr: s.addr,
			AvsOwnerAddress: []string{c.Funded.Acc.String()}, AssetID: ids, UnbondingPeriod: 2, MinSelfDelegation: 0,
			EpochIdentifier: s.epochID, MinOptInOperators: 1, MinTotalStakeAmount: 1, AvsReward: 10, AvsSlash: 10,
			CallerAddress: c.Funded.Acc.String(), Action: 1, // avskeeper.RegisterAction
		}); err != nil {
			return err
		}
		return c.App.OperatorKeeper.OptIn(ctx, c.Operators[0].Acc, s.addr)
	})
	st := NewActor(cfg.Seed, "staker", 0)
	e1 := distrDepositDelegate(c, st, 0, 0, big.NewInt(500_000000))
	e2 := distrDepositDelegate(c, st, 1, 0, big.NewInt(1_00000000))
	r.op(fmt.Sprintf("distr.note register-second-avs+optin ok=%v; staker delegates both assets ok=%v,%v", e0 == nil, e1 == nil, e2 == nil), "ok")
	if e0 != nil {
		env.Note("scenario-F17b setup: " + e0.Error()[max(0, len(e0.Error())-200):])
	}
	ok := true
	for i := 0; i < 4 && ok; i++ {
		r.fee(big.NewInt(1000000))
		ok = r.block(61 * time.Second)
	}
	env.Report.Histories++
	if !ok {
		env.Outcome("scenario-F17b:halted")
	} else {
		env.Outcome("scenario-F17b:clean")
	}
}

var _ = sort.Strings
