package main

// C06 — validator-set updates. Drives real epochs through app.EndBlock with 1–8 operators
// whose powers change through real deposits / delegations / undelegations, key replacements
// (fresh keys, somebody's keys, and the operator's OWN FORMER keys: taken back in the same epoch,
// while the old key waits to be pruned, in the block that prunes it, and afterwards),
// opt-outs / opt-ins, jailing and changes of MaxValidators, and compares
//   * ResponseEndBlock.ValidatorUpdates, the stored set / total / stored updates with the Lean
//     model `ExoVerif.ValSet.endBlockEpoch` (op lines `vs.epoch` / `vs.block`), and
//   * independently of the model: the returned updates applied with CometBFT's rules to a set
//     kept by the harness against (a) the stored set, (b) the top-K eligible operators computed
//     from the operator module's per-operator state, (c) the stored total power.

import (
	"bytes"
	"fmt"
	"sort"
	"strings"
	"time"

	sdkmath "cosmossdk.io/math"
	abci "github.com/cometbft/cometbft/abci/types"
	sdk "github.com/cosmos/cosmos-sdk/types"
	epochstypes "github.com/ExocoreNetwork/exocore/x/epochs/types"

	keytypes "github.com/ExocoreNetwork/exocore/types/keys"
	dogfoodtypes "github.com/ExocoreNetwork/exocore/x/dogfood/types"
)

func init() { register("valset", domValset) }

type vsCand struct {
	op, key int
	power   int64
	rev     bool
}

// eligibleAtEndBlock reproduces, on a scratch branch of the state, the steps EndBlock performs
// before it reads the active operators (pending opt-outs completed, pending addresses pruned)
// and then derives the eligible operators from per-operator state: opted in, not jailed, has a
// key (operator -> chain -> key index), power = trunc(ActiveUSDValue).
func (w *World) eligibleAtEndBlock() (cands []vsCand, activeFromKeeper []string) {
	c := w.C
	cc, _ := c.Ctx.CacheContext()
	sk := c.App.StakingKeeper
	for _, addr := range sk.GetPendingOptOuts(cc).List {
		_ = c.App.OperatorKeeper.CompleteOperatorKeyRemovalForChainID(cc, addr, c.ChainIDNR)
	}
	for _, ca := range sk.GetPendingConsensusAddrs(cc).List {
		c.App.OperatorKeeper.DeleteOperatorAddressForChainIDAndConsAddr(cc, c.ChainIDNR, ca)
	}
	for op := range w.Ops {
		if !w.Reg[op] {
			continue
		}
		in, jailed := w.OptState(cc, op)
		if !in || jailed {
			continue
		}
		key := w.CurKey(cc, op)
		if key < 0 {
			continue
		}
		v, err := c.App.OperatorKeeper.GetOperatorOptedUSDValue(cc, c.AVSAddr, w.Ops[op].Acc.String())
		if err != nil {
			continue
		}
		cands = append(cands, vsCand{op: op, key: key, power: v.ActiveUSDValue.TruncateInt64(), rev: w.RevOp(cc, key) >= 0})
	}
	ops, keys := c.App.OperatorKeeper.GetActiveOperatorsForChainID(cc, c.ChainIDNR)
	for i := range ops {
		activeFromKeeper = append(activeFromKeeper, fmt.Sprintf("%d:%d", w.OpID(ops[i]), w.KeyID(keys[i].ToConsAddr())))
	}
	sort.Strings(activeFromKeeper)
	return
}

func (w *World) fmtUpdates(ups []abci.ValidatorUpdate) string {
	parts := make([]string, len(ups))
	for i, u := range ups {
		k := keytypes.NewWrappedConsKeyFromTmProtoKey(&ups[i].PubKey)
		parts[i] = fmt.Sprintf("%d:%d", w.KeyID(k.ToConsAddr()), u.Power)
	}
	return strings.Join(parts, ",")
}

func (w *World) vsObs(ctx sdk.Context, ups []abci.ValidatorUpdate) string {
	sk := w.C.App.StakingKeeper
	return fmt.Sprintf("U=%s|S=%s|V=%s|T=%s", w.fmtUpdates(ups), w.fmtUpdates(sk.GetValidatorUpdates(ctx)),
		fmtIntMap(w.ValSet(ctx)), sk.GetLastTotalPower(ctx).String())
}

var vsAmounts = []int64{1, 999_999, 1_000_000, 1_000_001, 1_500_000, 2_000_000, 10_000_000, 50_000_000, 99_999_999, 100_000_000, 100_000_001, 250_000_000}

// vsRun = one history of the valset domain: the world, the op lines emitted so far (the replay),
// CometBFT's copy of the validator set and the bookkeeping of the generator.
type vsRun struct {
	w    *World
	env  *Env
	hist []string
	// CometBFT's copy: starts as the set InitChain returned, changed only by the returned updates
	comet              map[int]int64
	epochsDone, changes int
	held               map[string]int64 // staker|op -> base units delegated through the harness
	former             map[int][]int    // operator -> keys it used before (candidates for "take the key back")
	deferred           []Violation      // violated hypotheses, reported after the clause violations of the history
}

// later: a violated hypothesis of the theorems (C06.inputs) is reported at the end of the history,
// so that a clause of the property that fails a few blocks later in the same history comes first
// (./check writes the first violation's history to the replay file); once per (history, sig).
func (r *vsRun) later(mon, sig, what string, hist []string) {
	for _, v := range r.deferred {
		if v.Sig == sig {
			return
		}
	}
	r.deferred = append(r.deferred, Violation{Monitor: mon, Sig: sig, What: what, History: append([]string{}, hist...)})
}

func (r *vsRun) finish() {
	for _, v := range r.deferred {
		r.env.Violate(v.Monitor, v.Sig, v.What, v.History)
	}
	r.deferred = nil
}

func newVsRun(env *Env, w *World) *vsRun {
	r := &vsRun{w: w, env: env, held: map[string]int64{}, former: map[int][]int{}}
	sk := w.C.App.StakingKeeper
	r.emit("vs.reset", "ok")
	r.comet = w.ValSet(w.C.Ctx) // InitChain returned exactly the genesis set
	iv := fmtIntMap(r.comet)
	if iv == "" {
		iv = "-"
	}
	r.emit(fmt.Sprintf("vs.init %s %s", sk.GetLastTotalPower(w.C.Ctx).String(), iv), "ok")
	return r
}

func (r *vsRun) emit(op, obs string) {
	r.env.Op(op, obs)
	r.hist = append(r.hist, op)
}

// note records an operation that the model does not replay (it sees its effect through the
// candidate list of the next epoch) as a comment line of the history, with every argument needed
// to repeat it by hand.
func (r *vsRun) note(what string, op int, detail string, err error) {
	r.env.Outcome(what + "=" + errClass(err))
	if detail != "" {
		detail = " " + detail
	}
	r.hist = append(r.hist, fmt.Sprintf("# %s op=%d%s -> %s", what, op, detail, errClass(err)))
}

// block ends the current block (EndBlock, Commit, BeginBlock after d), hands the epoch's
// candidates to the model and evaluates the clauses of C06 on the real state. false = halted.
func (r *vsRun) block(d time.Duration) bool {
	w, env := r.w, r.env
	c := w.C
	sk := c.App.StakingKeeper
	isEnd := sk.IsEpochEnd(c.Ctx)
	prevStored := w.ValSet(c.Ctx)
	prevTotal := sk.GetLastTotalPower(c.Ctx)
	maxVals := sk.GetMaxValidators(c.Ctx)
	var cands []vsCand
	var active []string
	if isEnd {
		cands, active = w.eligibleAtEndBlock()
		w.jailViewAtEndBlock(env, r.hist)
	}
	res := c.EndAndBegin(d)
	if res.Halt != "" {
		env.Violate("C06.halt", "halt", "block processing panicked: "+res.Halt, r.hist)
		return false
	}
	ups := res.End.ValidatorUpdates
	if isEnd {
		parts := make([]string, len(cands))
		for i, cd := range cands {
			rv := 0
			if cd.rev {
				rv = 1
			}
			parts[i] = fmt.Sprintf("%d:%d:%d:%d", cd.op, cd.key, cd.power, rv)
		}
		cs := strings.Join(parts, ",")
		if cs == "" {
			cs = "-"
		}
		r.emit(fmt.Sprintf("vs.epoch %d %s", maxVals, cs), w.vsObs(c.Ctx, ups))
		r.epochsDone++
	} else {
		r.emit("vs.block", w.vsObs(c.Ctx, ups))
	}
	hist := r.hist
	comet := r.comet

	// ---- monitors (independent of the model)
	env.Eval("C06.updates")
	seen := map[int]bool{}
	for i, u := range ups {
		k := w.KeyID(keytypes.NewWrappedConsKeyFromTmProtoKey(&ups[i].PubKey).ToConsAddr())
		if seen[k] {
			env.Violate("C06.updates", "dup-key", fmt.Sprintf("key %d twice in the update list %s", k, w.fmtUpdates(ups)), hist)
		}
		seen[k] = true
		_, known := comet[k]
		switch {
		case u.Power < 0:
			env.Violate("C06.updates", "negative-power", fmt.Sprintf("key %d power %d", k, u.Power), hist)
		case u.Power == 0 && !known:
			env.Violate("C06.updates", "unknown-remove", fmt.Sprintf("removal of key %d which consensus does not have (%s)", k, w.fmtUpdates(ups)), hist)
		case u.Power == 0:
			delete(comet, k)
		default:
			comet[k] = u.Power
		}
		if i > 0 { // order: power desc, then PubKey.String() desc (= key id desc), strictly
			p := ups[i-1]
			pk := w.KeyID(keytypes.NewWrappedConsKeyFromTmProtoKey(&ups[i-1].PubKey).ToConsAddr())
			if !(p.Power > u.Power || (p.Power == u.Power && pk > k)) {
				env.Violate("C06.updates", "order", "update list not strictly ordered: "+w.fmtUpdates(ups), hist)
			}
		}
	}
	if !isEnd && len(ups) != 0 {
		env.Violate("C06.updates", "nonepoch-nonempty", "updates in a block that does not close an epoch: "+w.fmtUpdates(ups), hist)
	}
	stored := w.ValSet(c.Ctx)
	env.Eval("C06.agree")
	if fmtIntMap(stored) != fmtIntMap(comet) {
		env.Violate("C06.agree", "set-mismatch", fmt.Sprintf("stored set %s but consensus has %s", fmtIntMap(stored), fmtIntMap(comet)), hist)
		r.comet = w.ValSet(c.Ctx) // resynchronise so that one defect is reported once
		comet = r.comet
	}
	if w.fmtUpdates(sk.GetValidatorUpdates(c.Ctx)) != w.fmtUpdates(ups) {
		env.Violate("C06.agree", "stored-updates-mismatch", "GetValidatorUpdates differs from what EndBlock returned", hist)
	}
	sum := int64(0)
	for _, p := range stored {
		sum += p
		if p < 1 {
			env.Violate("C06.agree", "stored-nonpositive", "a stored validator has power < 1", hist)
		}
	}
	if !sk.GetLastTotalPower(c.Ctx).Equal(sdkmath.NewInt(sum)) {
		env.Violate("C06.agree", "total-mismatch", fmt.Sprintf("LastTotalPower %s but the set sums to %d", sk.GetLastTotalPower(c.Ctx), sum), hist)
	}
	if isEnd {
		// ---- the hypotheses under which the C06 theorems speak about this block (InputsOK): every
		// candidate's key has its reverse lookup when ApplyValidatorChanges runs (otherwise a
		// re-powered validator is written to the store and NOT handed to consensus), and no two
		// candidates share a key (otherwise the list names a key twice)
		env.Eval("C06.inputs")
		byKey := map[int]int{}
		for _, cd := range cands {
			if !cd.rev {
				r.later("C06.inputs", "candidate-unresolvable", fmt.Sprintf("operator %d is a candidate with key %d (power %d, in the stored set: %v) but the key's cons-address -> operator lookup is gone when EndBlock applies the changes", cd.op, cd.key, cd.power, w.InValSet(c.Ctx, cd.key)), hist)
			}
			if o, dup := byKey[cd.key]; dup {
				r.later("C06.inputs", "candidate-key-shared", fmt.Sprintf("operators %d and %d are both candidates with key %d", o, cd.op, cd.key), hist)
			}
			byKey[cd.key] = cd.op
		}
		env.Eval("C06.topk")
		// eligible per-operator view vs the operator module's own list
		var mine []string
		for _, cd := range cands {
			mine = append(mine, fmt.Sprintf("%d:%d", cd.op, cd.key))
		}
		sort.Strings(mine)
		if strings.Join(mine, ",") != strings.Join(active, ",") {
			env.Violate("C06.topk", "eligible-mismatch", fmt.Sprintf("GetActiveOperatorsForChainID %v but per-operator state says %v", active, mine), hist)
		}
		srt := append([]vsCand{}, cands...)
		sort.SliceStable(srt, func(i, j int) bool {
			if srt[i].power != srt[j].power {
				return srt[i].power > srt[j].power
			}
			return bytes.Compare(w.Ops[srt[i].op].Acc, w.Ops[srt[j].op].Acc) < 0
		})
		want := map[int]int64{}
		for i, cd := range srt {
			if i >= int(maxVals) || cd.power < 1 {
				break
			}
			want[cd.key] = cd.power
		}
		if fmtIntMap(want) != fmtIntMap(stored) {
			env.Violate("C06.topk", "not-topk", fmt.Sprintf("set after the epoch is %s, eligible top-%d is %s (candidates %v)", fmtIntMap(stored), maxVals, fmtIntMap(want), cands), hist)
		}
		// what consensus holds (previous set + every returned list) against the eligible top set
		if fmtIntMap(want) != fmtIntMap(comet) {
			env.Violate("C06.topk", "consensus-not-topk", fmt.Sprintf("consensus holds %s after the epoch, eligible top-%d is %s (candidates %v)", fmtIntMap(comet), maxVals, fmtIntMap(want), cands), hist)
		}
		if fmtIntMap(prevStored) != fmtIntMap(stored) {
			r.changes++
		}
		ties := false
		for i := 1; i < len(srt); i++ {
			if srt[i].power == srt[i-1].power {
				ties = true
			}
		}
		// does the cap cut through a tie group? (then the address tie-break decides who validates)
		cut := int(maxVals) < len(srt) && int(maxVals) > 0 && srt[maxVals-1].power == srt[maxVals].power && srt[maxVals].power >= 1
		env.Outcome(fmt.Sprintf("epoch:cands=%d,max=%d,ties=%v,over=%v,changed=%v", len(cands), maxVals, ties, len(cands) > int(maxVals), fmtIntMap(prevStored) != fmtIntMap(stored)))
		env.Note(fmt.Sprintf("population:cands>12=%v,cap-inside-tie-group=%v", len(cands) > 12, cut))
	} else if fmtIntMap(prevStored) != fmtIntMap(stored) || !prevTotal.Equal(sk.GetLastTotalPower(c.Ctx)) {
		env.Violate("C06.agree", "nonepoch-change", "validator set or total power changed in a block that does not close an epoch", hist)
	}
	return true
}

func domValset(env *Env) error {
	n := env.Int("histories", 30)
	maxEpochs := env.Int("epochs", 12)
	rng := NewRNG(env.Report.Seed)
	env.Report.Domain = "valset"
	scenarioGenesisZeroPower(env) // dom_valset_genesis.go (no op lines: InitChain is outside the model)
	scenarioKeyTakeBack(env)      // dom_valset_keys.go
	for hi := 0; hi < n; hi++ {
		cfg := DefaultCfg(env.Report.Seed*1000 + uint64(hi))
		nGen := rng.Range(1, 5)
		// "large population" histories (about one in five): 14-20 operators, most of them in
		// one big tie group (equal power), a few with a lower / higher power at low and high
		// addresses, MaxValidators cutting through the tie group. Go's sort.Slice switches from
		// insertion sort to pdqsort above 12 elements, and the tie-break only matters when the
		// cap falls inside a tie group.
		big := rng.Chance(1, 5)
		// "key churn" histories (about one in four of the others): one validating operator keeps
		// replacing its key and going back to keys it used before, while its power moves; the
		// history runs past the unbonding period so that replaced keys are pruned inside it.
		churn := !big && rng.Chance(1, 4)
		cfg.NOperators = nGen
		cfg.Powers = nil
		for i := 0; i < nGen; i++ {
			if big {
				cfg.Powers = append(cfg.Powers, 100)
				continue
			}
			cfg.Powers = append(cfg.Powers, []int64{100, 100, 101, 150, 200, 1000, int64(rng.Range(100, 300))}[rng.Intn(7)])
		}
		cfg.EpochID = []string{epochstypes.MinuteEpochID, epochstypes.HourEpochID, epochstypes.DayEpochID}[rng.Intn(3)]
		cfg.EpochsUntilUnbonded = uint32(rng.Range(1, 3))
		cfg.MaxValidators = uint32(nGen + rng.Intn(3))
		cfg.MinSelfDelegation = []int64{1, 100, 100}[rng.Intn(3)]
		nOps := nGen + rng.Range(1, 4)
		if nOps > 8 {
			nOps = 8
		}
		if big {
			nOps = rng.Range(14, 20)
			cfg.MinSelfDelegation = 1
		}
		w := NewWorld(cfg, nOps, nOps+4)
		c := w.C
		sk := c.App.StakingKeeper
		r := newVsRun(env, w)
		held := r.held

		// setup: most late operators register, self-delegate around the minimum and opt in
		minBase := cfg.MinSelfDelegation * 1_000_000
		for op := range w.Ops {
			if w.Reg[op] || (!big && rng.Chance(1, 4)) {
				continue
			}
			if w.Register(op) != nil {
				continue
			}
			amt := []int64{minBase, minBase + 1, minBase - 1 + 1_000_000, minBase + 500_000, 150_000_000, 100_000_000, minBase * 2}[rng.Intn(7)]
			if big { // the tie group at 100, outliers below and above it spread over the address range
				amt = []int64{100_000_000, 100_000_000, 100_000_000, 100_000_000, 100_000_000, 100_000_000, 50_000_000, 99_999_999, 150_000_000, 100_999_999}[rng.Intn(10)]
			}
			if amt < 1 {
				amt = 1
			}
			err := w.DepositDelegate(w.Ops[op].Eth, op, sdkmath.NewInt(amt), true)
			if err == nil {
				held[fmt.Sprintf("%s|%d", w.Ops[op].Eth, op)] += amt
			}
			r.hist = append(r.hist, fmt.Sprintf("# setup register op=%d self-delegate amt=%d -> %s", op, amt, errClass(err)))
			key := rng.Intn(len(w.Keys))
			if big { // a key nobody has, so that (nearly) everybody becomes a candidate
				if k := r.freeKey(rng); k >= 0 {
					key = k
				}
			}
			env.Outcome("setup-optin=" + errClass(r.optIn(op, key)))
		}
		if big { // the cap falls inside the tie group
			mv := uint32(rng.Range(3, len(w.Ops)-3))
			w.SetDogfoodParams(func(p *dogfoodtypes.Params) { p.MaxValidators = mv })
			r.hist = append(r.hist, fmt.Sprintf("# maxvals %d", mv))
			env.Outcome("big-population")
		}
		nEpochs := rng.Range(3, maxEpochs)
		churnOp := -1
		if churn {
			if lo := int(cfg.EpochsUntilUnbonded) + 4; nEpochs < lo {
				nEpochs = lo
			}
			var vals []int
			for op := range w.Ops {
				if w.Reg[op] && w.InValSet(c.Ctx, w.CurKey(c.Ctx, op)) {
					vals = append(vals, op)
				}
			}
			if len(vals) > 0 {
				churnOp = vals[rng.Intn(len(vals))]
			}
			env.Outcome("key-churn-history")
		}
		halted := false
		for r.epochsDone < nEpochs && !halted {
			// ---- key churn: replace / take back / re-power the chosen validator
			if churnOp >= 0 {
				if rng.Chance(1, 2) {
					r.setKey(churnOp, r.pickKey(rng, churnOp, 3))
				}
				if rng.Chance(1, 3) {
					amt := vsAmounts[rng.Intn(len(vsAmounts))]
					st := w.Stakers[rng.Intn(len(w.Stakers))].Eth
					err := w.DepositDelegate(st, churnOp, sdkmath.NewInt(amt), false)
					if err == nil {
						held[fmt.Sprintf("%s|%d", st, churnOp)] += amt
					}
					r.note("delegate", churnOp, fmt.Sprintf("staker=%s amt=%d", st.Hex()[:10], amt), err)
				}
			}
			// ---- a few operations inside the current block
			for k := rng.Intn(4); k > 0; k-- {
				op := rng.Intn(len(w.Ops))
				switch rng.Pick(4, 3, 3, 2, 2, 2, 2, 1) {
				case 0: // deposit + delegate (self or third party)
					if !w.Reg[op] {
						r.note("register", op, "", w.Register(op))
						break
					}
					amt := sdkmath.NewInt(vsAmounts[rng.Intn(len(vsAmounts))])
					st := w.Stakers[rng.Intn(len(w.Stakers))].Eth
					what := "delegate"
					if rng.Bool() {
						st = w.Ops[op].Eth
						what = "self-delegate"
					}
					err := w.DepositDelegate(st, op, amt, what == "self-delegate")
					if err == nil {
						held[fmt.Sprintf("%s|%d", st, op)] += amt.Int64()
					}
					r.note(what, op, fmt.Sprintf("staker=%s amt=%s", st.Hex()[:10], amt), err)
				case 1: // undelegate (steered away from F-07a: never from an operator that is removing its key)
					if !w.Reg[op] || w.Removing(c.Ctx, op) {
						continue
					}
					st := w.Ops[op].Eth
					if rng.Bool() {
						st = w.Stakers[rng.Intn(len(w.Stakers))].Eth
					}
					hk := fmt.Sprintf("%s|%d", st, op)
					have := held[hk]
					if i := w.OpID(w.Ops[op].Acc); have == 0 && st == w.Ops[op].Eth && i >= 0 {
						for gi, g := range c.Operators { // genesis self-delegation
							if bytes.Equal(g.Acc, w.Ops[op].Acc) {
								have = cfg.Powers[gi] * 1_000_000
							}
						}
					}
					if have <= 0 {
						continue
					}
					ua := []int64{have, have - 1, have / 2, 1, 1_000_000, have - 999_999, have + 1}[rng.Intn(7)]
					if ua < 1 {
						ua = 1
					}
					_, err := w.Undelegate(st, op, sdkmath.NewInt(ua))
					if err == nil {
						held[hk] = have - ua
					}
					r.note("undelegate", op, fmt.Sprintf("staker=%s amt=%d", st.Hex()[:10], ua), err)
				case 2: // opt in with a key (fresh, somebody's, or one the operator used before)
					if !w.Reg[op] {
						continue
					}
					r.optIn(op, r.pickKey(rng, op, 1))
				case 3: // replace key
					if !w.Reg[op] {
						continue
					}
					r.setKey(op, r.pickKey(rng, op, 2))
				case 4: // opt out — only once the key is active (F-07a trigger avoided, see C07)
					if !w.Reg[op] || !w.InValSet(c.Ctx, w.CurKey(c.Ctx, op)) {
						continue
					}
					cur := w.CurKey(c.Ctx, op)
					err := w.OptOut(op)
					if err == nil {
						r.remember(op, cur)
					}
					r.note("optout", op, fmt.Sprintf("key=%d", cur), err)
				case 5: // jail / unjail through the staking interface the slashing module uses
					key := w.CurKey(c.Ctx, op)
					if key < 0 {
						continue
					}
					if rng.Bool() {
						sk.Jail(c.Ctx, w.Keys[key].ToConsAddr())
						r.note("jail", op, fmt.Sprintf("key=%d", key), nil)
					} else if rng.Bool() { // the way an operator gets out: MsgUnjail of x/slashing
						r.note("unjailmsg", op, "", w.UnjailMsg(op))
					} else {
						sk.Unjail(c.Ctx, w.Keys[key].ToConsAddr())
						r.note("unjail", op, fmt.Sprintf("key=%d", key), nil)
					}
				case 6: // change the maximum
					mv := uint32(rng.Range(1, len(w.Ops)+1))
					if rng.Bool() && !big {
						mv = uint32(rng.Range(1, 3))
					}
					w.SetDogfoodParams(func(p *dogfoodtypes.Params) { p.MaxValidators = mv })
					r.note("maxvals", op, fmt.Sprintf("max=%d", mv), nil)
				case 7: // register a late operator
					if w.Reg[op] {
						continue
					}
					r.note("register", op, "", w.Register(op))
				}
			}
			// ---- end of the block
			var d time.Duration
			if rng.Chance(2, 3) {
				d = w.EpochDur + time.Duration(1+rng.Intn(5))*time.Second
			} else {
				d = time.Duration(1+rng.Intn(5)) * time.Second
			}
			halted = !r.block(d)
		}
		r.finish()
		env.Report.Histories++
		if r.changes > 0 {
			env.DistinctKey(fmt.Sprintf("h%d-%d-%d", hi, r.epochsDone, r.changes))
		}
		if hi < 2 {
			env.Sample(strings.Join(r.hist[:min(len(r.hist), 16)], " ; "))
		}
	}
	return nil
}
