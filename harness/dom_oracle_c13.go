package main

// C13 — oracle submissions: strict admission, bounded fee-less traffic. Same chain driver and Lean
// model as C12; the generator is biased towards the admission boundary (senders, nonces, sizes,
// public keys, timestamps ±5 s, base blocks, decimals) and every transaction is judged against the
// property's admission / counting clauses evaluated on the real state.

import (
	"fmt"
	"math"
	"regexp"
	"strings"
	"time"

	oraclekeeper "github.com/ExocoreNetwork/exocore/x/oracle/keeper"
)

func init() { register("oracle_adm", domOracleC13) }

var reFilter = regexp.MustCompile(`\{F:[^}]*\}`)

type admDriver struct {
	*orcDriver
	quota    map[string]int
	f13bSeen bool
}

func (a *admDriver) coreObs() string {
	ctx := a.ctx()
	return a.showPrices(ctx) + "|" + reFilter.ReplaceAllString(oraclekeeper.VerifDumpAgc(a.name), "") + "|" + oraclekeeper.VerifDumpCache(a.name)
}

// f13a: the tag of the finding "a validator that left the set keeps its oracle nonce entries" — applied
// to the admission sigs when the non-validator concerned is a departed genesis validator.
const f13a = ":F-13a:departed-validator-keeps-nonces"

func (a *admDriver) departedTag(creator int) string {
	if _, in := a.powers[creator]; !in && creator < 50 {
		return f13a
	}
	return ""
}

func (a *admDriver) send(t orcTx, open map[int]uint64, tag string) string {
	s := a.spec
	type pre struct {
		nonce  int32
		has    bool
		status int
	}
	pres := make([]pre, len(t.Msgs))
	for i, m := range t.Msgs {
		n, ok := a.nonceOf(m.Creator, m.Feeder)
		pres[i] = pre{n, ok, a.roundStatus(int(m.Feeder))}
	}
	beforeFull := a.fullObs()
	beforeCore := a.coreObs()
	bz, pkOK, sigOK, _ := a.build(t)
	nInfos := len(a.lastInfos)
	now := a.c.Header.Time.Unix()
	if a.rng.Chance(1, 4) { // CheckTx probe (check state is separate; the deliver state is untouched)
		cls, prio := a.check(t, a.rng.Chance(1, 3))
		a.env.Eval("C13.checktx")
		a.env.Outcome("checktx:" + cls)
		if !strings.HasPrefix(cls, "ante:") && cls != "panic" && !strings.HasPrefix(cls, "other") {
			if !sigOK {
				a.env.Violate("C13.checktx", "checktx-admitted-forged-signature"+tag, "CheckTx let a create-price tx with an invalid signature into the mempool", a.hist)
			}
			if len(bz) > orcTxSizeLimit {
				a.env.Violate("C13.checktx", "checktx-admitted-oversize", fmt.Sprintf("CheckTx admitted a fee-less create-price tx of %d bytes with %d message(s)", len(bz), len(t.Msgs)),
					append(append([]string{}, a.hist...), "checktx "+a.opLineTx(t, len(bz), a.lastInfos)))
			}
			cs := map[int]bool{}
			for _, m := range t.Msgs {
				cs[m.Creator] = true
			}
			if nInfos != len(cs) {
				a.env.Violate("C13.checktx", "checktx-admitted-unsigned-signer:F-10c", fmt.Sprintf("CheckTx admitted a create-price tx with %d signers but %d SignerInfos", len(cs), nInfos), a.hist)
			}
			if _, isVal := a.powers[t.Msgs[0].Creator]; !isVal {
				a.env.Violate("C13.checktx", "checktx-admitted-nonvalidator"+a.departedTag(t.Msgs[0].Creator), fmt.Sprintf("CheckTx admitted the submission of non-validator %d", t.Msgs[0].Creator), a.hist)
			}
			if prio != math.MaxInt64 {
				a.env.Note("checktx-priority-not-max")
			}
		}
		if a.fullObs() != beforeFull {
			a.env.Violate("C13.checktx", "checktx-changed-deliver-state", "CheckTx changed the deliver-side oracle state", a.hist)
		}
	}
	nextBefore := map[uint64]uint64{}
	for _, m := range t.Msgs {
		if fi := int(m.Feeder) - 1; fi >= 0 && fi < len(s.Feeders) {
			nextBefore[s.Feeders[fi].Token] = a.tokenNext(s.Feeders[fi].Token)
		}
	}
	cls := a.sendTx(t, open)
	a.env.Eval("C13.admit")
	admitted := cls == "ok" || strings.HasPrefix(cls, "msg") || cls == "panic"
	if !admitted {
		if a.fullObs() != beforeFull {
			a.env.Violate("C13.admit", "rejected-but-changed", "a submission refused by the ante chain changed oracle state ("+cls+")", a.hist)
		}
		return cls
	}
	// ---- admitted: the property's conjunction
	if len(bz) > 1000 {
		a.env.Violate("C13.admit", "admitted-oversize", fmt.Sprintf("admitted tx of %d bytes", len(bz)), a.hist)
	}
	if !pkOK {
		a.env.Violate("C13.admit", "admitted-wrong-pubkey", "admitted a tx whose public key is not the signer's", a.hist)
	}
	if !sigOK {
		a.env.Violate("C13.admit", "admitted-forged-signature"+tag, "admitted a create-price tx whose signature does not verify against the validator's key ("+cls+")", a.hist)
	}
	creators := map[int]bool{}
	for _, m := range t.Msgs {
		creators[m.Creator] = true
	}
	if nInfos != len(creators) {
		a.env.Violate("C13.admit", "admitted-unsigned-signer:F-10c", fmt.Sprintf("admitted a create-price tx with %d signers but %d SignerInfos: the remaining submissions are nobody's signature (%s)", len(creators), nInfos, cls), a.hist)
	}
	hNow := uint64(a.c.Header.Height)
	for _, m := range t.Msgs {
		fi := int(m.Feeder) - 1
		if fi >= 0 && fi < len(s.Feeders) {
			if f := s.Feeders[fi]; (f.End > 0 && hNow > f.End) || hNow <= f.StartBase {
				a.env.Violate("C13.admit", "admitted-inactive-feeder", fmt.Sprintf("block %d: admitted a submission for feeder %d which is active only for base blocks %d..%d", hNow, m.Feeder, f.StartBase, f.End), a.hist)
			}
		}
	}
	seq := map[string]int32{}
	for i, m := range t.Msgs {
		k := fmt.Sprintf("%d/%d", m.Creator, m.Feeder)
		if _, isVal := a.powers[m.Creator]; !isVal {
			a.env.Violate("C13.admit", "admitted-nonvalidator"+a.departedTag(m.Creator), fmt.Sprintf("admitted a submission of non-validator %d (%s)", m.Creator, cls), a.hist)
		}
		if !pres[i].has || pres[i].status != 1 {
			a.env.Violate("C13.admit", "admitted-no-open-round"+a.departedTag(m.Creator), fmt.Sprintf("admitted a submission of %d for feeder %d with no open round (nonce entry %v, status %d)", m.Creator, m.Feeder, pres[i].has, pres[i].status), a.hist)
		}
		want := pres[i].nonce + 1 + seq[k]
		if m.Nonce != want || m.Nonce > s.MaxNonce || m.Nonce < 1 {
			a.env.Violate("C13.admit", "admitted-bad-nonce", fmt.Sprintf("admitted nonce %d, expected %d (max %d)", m.Nonce, want, s.MaxNonce), a.hist)
		}
		seq[k]++
		fi := int(m.Feeder) - 1
		qk := fmt.Sprintf("%s/%d", k, open[fi])
		a.quota[qk]++
		a.env.Eval("C13.quota")
		if a.quota[qk] > int(s.MaxNonce) {
			a.env.Violate("C13.quota", "quota-exceeded", fmt.Sprintf("validator/feeder/base %s: %d submissions admitted in one round, limit %d", qk, a.quota[qk], s.MaxNonce), a.hist)
		}
	}
	// ---- counted only if … (single-message txs, where the outcome is attributable)
	if len(t.Msgs) == 1 {
		m := t.Msgs[0]
		fi := int(m.Feeder) - 1
		a.env.Eval("C13.counted")
		if cls == "ok" {
			if b, ok := open[fi]; !ok || m.Based != b {
				a.env.Violate("C13.counted", "counted-bad-base", fmt.Sprintf("counted a submission with base block %d for round base %d", m.Based, b), a.hist)
			}
			for _, sc := range m.Srcs {
				for _, p := range sc.Prices {
					if fi >= 0 && fi < len(s.Feeders) && p.Dec != s.TokenDec[s.Feeders[fi].Token-1] {
						a.env.Violate("C13.counted", "counted-bad-decimal", fmt.Sprintf("counted a price with %d decimals for feeder %d, whose token %d has %d", p.Dec, m.Feeder, s.Feeders[fi].Token, s.TokenDec[s.Feeders[fi].Token-1]), a.hist)
					}
					if p.TsKind != 0 || p.Ts > now+5 {
						a.env.Violate("C13.counted", "counted-bad-timestamp", fmt.Sprintf("counted a price stamped %d s ahead of the block (kind %d)", p.Ts-now, p.TsKind), a.hist)
					}
				}
			}
			a.ruleMonitor(m, fi)
			a.finalDecimalMonitor(fi, open, nextBefore)
		} else if cls == "msg0:oracle:2" || cls == "msg0:oracle:4" {
			// admitted but not counted: only the nonce moved
			if a.coreObs() != beforeCore {
				a.env.Violate("C13.counted", "not-counted-but-changed", "a refused submission changed prices / aggregator / cache ("+cls+")", a.hist)
			}
			if n, _ := a.nonceOf(m.Creator, m.Feeder); n != pres[0].nonce+1 {
				a.env.Violate("C13.counted", "not-counted-nonce", fmt.Sprintf("nonce after a refused admitted submission is %d, was %d", n, pres[0].nonce), a.hist)
			}
		}
	}
	return cls
}

// finalDecimalMonitor: a counted submission that completed the round wrote the round's price — in the unit of the
// feeder's OWN token (the token whose decimals the counted submissions were required to carry). Judged on
// the aligned path only (the id-mismatch path stores a copy of the previous round).
func (a *admDriver) finalDecimalMonitor(fi int, open map[int]uint64, nextBefore map[uint64]uint64) {
	s := a.spec
	if fi < 0 || fi >= len(s.Feeders) {
		return
	}
	f := s.Feeders[fi]
	b, isOpen := open[fi]
	rid, seen := nextBefore[f.Token]
	if !isOpen || !seen || a.tokenNext(f.Token) != rid+1 || f.StartRound+(b-f.StartBase)/f.Interval != rid {
		return
	}
	a.env.Eval("C13.counted")
	if pr, found := a.c.App.OracleKeeper.GetPriceTRRoundID(a.ctx(), f.Token, rid); found && pr.Decimal != s.TokenDec[f.Token-1] {
		a.env.Violate("C13.counted", "final-price-wrong-decimals", fmt.Sprintf("feeder %d (token %d, %d decimals): the counted submissions produced round %d with price %s recorded with %d decimals",
			fi+1, f.Token, s.TokenDec[f.Token-1], rid, pr.Price, pr.Decimal), a.hist)
	}
}

// repeatDetIDs rewrites the deterministic sources of m so that a source round occurs more than once.
func (a *admDriver) repeatDetIDs(m *orcMsg) string {
	s := a.spec
	kind := "repeat-none(no-det-source)"
	for i := range m.Srcs {
		sc := &m.Srcs[i]
		if sc.ID < 1 || int(sc.ID) > len(s.Sources) || !s.Sources[sc.ID-1][1] || len(sc.Prices) == 0 {
			continue
		}
		first := sc.Prices[0]
		room := int(s.MaxDetID) - len(sc.Prices)
		switch a.rng.Pick(4, 3, 2, 1) {
		case 0: // same source round, same value, as often as MaxDetID allows
			k := 1
			if room > 1 {
				k = 1 + a.rng.Intn(room)
			}
			for j := 0; j < k && room > 0; j++ {
				sc.Prices = append(sc.Prices, first)
			}
			kind = "repeat-same-value"
		case 1: // same source round, another value
			q := first
			q.Price = fmt.Sprint(1 + a.rng.Intn(9))
			if room > 0 {
				sc.Prices = append(sc.Prices, q)
			}
			kind = "repeat-other-value"
		case 2: // exactly MaxDetID entries: distinct rounds, the last one repeating the first
			for j := 0; len(sc.Prices) < int(s.MaxDetID)-1; j++ {
				q := first
				q.DetID = fmt.Sprint(20 + j)
				sc.Prices = append(sc.Prices, q)
			}
			if len(sc.Prices) < int(s.MaxDetID) {
				sc.Prices = append(sc.Prices, first)
			}
			kind = "repeat-at-maxdetid"
		case 3: // MaxDetID+1 entries (refused as a whole)
			for len(sc.Prices) <= int(s.MaxDetID) {
				sc.Prices = append(sc.Prices, first)
			}
			kind = "repeat-past-maxdetid"
		}
	}
	return kind
}

func (a *admDriver) block() {
	s := a.spec
	h := uint64(a.c.Header.Height)
	open := map[int]uint64{}
	for fi := range s.Feeders {
		if b := s.openBase(fi, h); b > 0 {
			open[fi] = b
			a.roundLog(fi, b)
		}
	}
	senders := []int{}
	for v := range s.Powers {
		senders = append(senders, v)
	}
	senders = append(senders, 50, 51)
	for fi := range s.Feeders {
		f := s.Feeders[fi]
		if h <= f.StartBase {
			continue
		}
		prev := h - 1
		base := prev - (prev-f.StartBase)%f.Interval
		if b, ok := open[fi]; ok {
			base = b
		}
		_, isOpen := open[fi]
		sims := a.env.Int("sims", 0) == 1
		if sims && isOpen && a.rng.Chance(1, 4) { // simulations before this block's deliveries for the feeder (dom_oracle_sim.go)
			a.simBatch(fi, base)
		}
		for vi, v := range senders {
			if sims && isOpen && vi > 0 && a.rng.Chance(1, 24) { // … and between them
				a.simBatch(fi, base)
			}
			p := 1
			if isOpen && v < 50 {
				p = 8
			}
			if !a.rng.Chance(p, 12) {
				continue
			}
			m := a.honestMsg(v, fi, base)
			t := orcTx{Msgs: []orcMsg{m}}
			if a.env.Int("dupdet", 0) == 1 && a.rng.Chance(1, 4) {
				// a source round repeated inside one message (first or later message of the round, same or
				// different value), and the MaxDetID boundary: a validator counts once per source round
				a.env.Outcome("shape:" + a.repeatDetIDs(&t.Msgs[0]))
				a.send(t, open, "")
				continue
			}
			switch a.rng.Pick(5, 6, 1, 1, 1, 1, 1, 2) {
			case 7: // exactly at / one past the future limit (block times carry sub-second parts here)
				for si := range t.Msgs[0].Srcs {
					for pi := range t.Msgs[0].Srcs[si].Prices {
						t.Msgs[0].Srcs[si].Prices[pi].Ts = a.c.Header.Time.Unix() + 5 + int64(a.rng.Intn(2))
					}
				}
				a.env.Outcome("mut:ts-boundary")
			case 5: // two validators' messages in one tx (two signers), both properly signed
				if v < 50 && len(s.Powers) > 1 && !a.couldFinalize(fi, v) {
					v2 := (v + 1 + a.rng.Intn(len(s.Powers)-1)) % len(s.Powers)
					t.Msgs = append(t.Msgs, a.honestMsg(v2, fi, base))
					a.env.Outcome("shape:two-signers")
					if a.rng.Chance(1, 3) { // one signer's slot forged / junk / empty / bit-flipped, or the two slots exchanged
						mu := orcSigMut{Pos: a.rng.Intn(2), Kind: []string{"forge", "junk", "empty", "flip", "swap"}[a.rng.Intn(5)], With: 1}
						if mu.Kind == "swap" {
							mu.Pos = 0
						}
						t.SigMut = []orcSigMut{mu}
						a.env.Outcome("mut:cosigner-signature:" + mu.String())
					}
				}
			case 6: // fewer SignerInfos than signers: the uncovered submissions carry nobody's signature
				if v < 50 && len(s.Powers) > 1 && a.rng.Bool() && !a.couldFinalize(fi, v) {
					v2 := (v + 1 + a.rng.Intn(len(s.Powers)-1)) % len(s.Powers)
					t.Msgs = append(t.Msgs, a.honestMsg(v2, fi, base))
					t.Infos, t.InfosSet = 1, true
				} else {
					t.Infos, t.InfosSet = 0, true
				}
				a.env.Outcome("mut:missing-signer-info")
			case 4: // validator's public key, outsider's signature: must be refused with no state change
				t.Forge = true
				a.env.Outcome("mut:forged-signature")
			case 1:
				a.env.Outcome("mut:" + a.mutate(&t.Msgs[0], &t))
			case 2:
				t.WrongPK = true
				a.env.Outcome("mut:wrong-pubkey")
			case 3:
				if !a.couldFinalize(fi, v) {
					m2 := a.honestMsg(v, fi, base)
					m2.Nonce = m.Nonce + 1
					if a.rng.Bool() {
						a.env.Outcome("mut2:" + a.mutate(&m2, &t))
					}
					t.Msgs = append(t.Msgs, m2)
					if a.rng.Chance(1, 3) { // both messages small, the tx around / between limit and 2 x limit
						if got := a.sizeTo(&t, orcTxSizeLimit-100+a.rng.Intn(orcTxSizeLimit+200)); got > orcTxSizeLimit {
							a.env.Outcome("mut:two-msg-tx-over-limit")
						} else {
							a.env.Outcome("mut:two-msg-tx-within-limit")
						}
					}
				}
			}
			a.send(t, open, "")
			// burst: keep submitting with consecutive nonces to run into the per-round limit
			if isOpen && v < 50 && a.rng.Chance(1, 5) {
				for k := 0; k < int(s.MaxNonce)+1; k++ {
					a.send(orcTx{Msgs: []orcMsg{a.honestMsg(v, fi, base)}}, open, "")
				}
			}
		}
		if sims && a.rng.Chance(1, 8) { // … and after them (also for a feeder without an open round)
			a.simBatch(fi, base)
		}
	}
}

// subSecondStep: 1-5 s ahead, landing on a chosen sub-second part (0, 1 ms, just below / at / just
// above half a second, 999 ms) so that floor, round and ceil of the block time all differ.
func subSecondStep(rng *RNG, cur time.Time) time.Duration {
	fracs := []time.Duration{0, time.Millisecond, 499 * time.Millisecond, 500 * time.Millisecond, 501 * time.Millisecond, 999 * time.Millisecond}
	want := fracs[rng.Intn(len(fracs))]
	curFrac := time.Duration(cur.Nanosecond())
	d := time.Duration(1+rng.Intn(5))*time.Second + want - curFrac
	if d <= 0 {
		d += time.Second
	}
	return d
}

// expirySweep: a feeder whose EndBlock lies at every admissible offset after the base block of its
// last round (MaxNonce … Interval-1, i.e. including exactly basedBlock+MaxNonce, where the round is
// closed by the expiry path and not by the window path), with the last round finalized or left
// unfinalized; before, at and after the end every validator keeps submitting with its next nonce.
// Nothing may be admitted for the feeder once it is no longer active.
func expirySweep(env *Env) {
	const mn, iv, sb = 3, 7, 2
	for off := uint64(mn); off < iv; off++ {
		for _, fin := range []bool{false, true} {
			end := uint64(sb) + iv + off
			spec := orcSpec{Powers: []int64{10, 10, 10}, MaxNonce: mn, ThA: 2, ThB: 3, MaxDetID: 5, MaxSize: 100,
				Sources: [][2]bool{{true, true}}, Rules: [][]uint64{{0}, {1}}, TokenDec: []int32{0},
				Feeders: []orcFeeder{{Token: 1, Rule: 2, StartRound: 2, StartBase: sb, Interval: iv, End: end}}, GenNext: []uint64{2}, GenPrice: []string{"1"}}
			o := newOrc(env, 131500+off*2+uint64(b2i(fin)), spec, nil)
			o.emitSetup()
			a := &admDriver{orcDriver: newOrcDriver(o, NewRNG(off)), quota: map[string]int{}}
			for uint64(o.c.Header.Height) <= end+3 {
				h := uint64(o.c.Header.Height)
				open := map[int]uint64{}
				if b := spec.openBase(0, h); b > 0 {
					open[0] = b
					a.roundLog(0, b)
				}
				base := uint64(sb)
				if h > sb+iv {
					base = sb + iv
				}
				for v := 0; v < 3; v++ {
					lastRound := base == sb+iv
					if h <= sb || (lastRound && !fin && v > 0 && h <= end) {
						continue // the last round stays one report short of a final price
					}
					n, _ := a.nonceOf(v, 1)
					m := orcMsg{Creator: v, Feeder: 1, Based: base, Nonce: n + 1, Srcs: []orcSource{{ID: 1, Prices: []orcPrice{{Price: "2", Dec: 0, Ts: o.c.Header.Time.Unix(), DetID: fmt.Sprint(9 + n)}}}}}
					cls := a.send(orcTx{Msgs: []orcMsg{m}}, open, "")
					if h > end {
						env.Outcome("after-end:" + cls)
					}
				}
				if _, halted := a.endBlock(); halted {
					break
				}
				a.idsMonitor(uint64(o.c.Header.Height), nil)
				if !a.commitBegin(2 * time.Second) {
					break
				}
			}
			env.Report.Histories++
		}
	}
}

// directedC13SignerInfos: regression for F-10c (repaired in the repo) — (1) a tx with the messages
// of validators 0 and 1 but only validator 0's SignerInfo (signatures [sig_0, junk]); (2) a tx with
// validator 2's message and no SignerInfo at all (signatures [junk]). Both must be refused by
// CheckTx and DeliverTx without any state change.
func directedC13SignerInfos(env *Env) {
	spec := orcSpec{Powers: []int64{10, 10, 10}, MaxNonce: 3, ThA: 2, ThB: 3, MaxDetID: 5, MaxSize: 100,
		Sources: [][2]bool{{true, true}}, Rules: [][]uint64{{0}, {1}}, TokenDec: []int32{0},
		Feeders: []orcFeeder{{Token: 1, Rule: 2, StartRound: 2, StartBase: 2, Interval: 7}}, GenNext: []uint64{2}, GenPrice: []string{"1"}}
	o := newOrc(env, 131314, spec, nil)
	o.emitSetup()
	a := &admDriver{orcDriver: newOrcDriver(o, NewRNG(2)), quota: map[string]int{}}
	for i := 0; i < 2; i++ {
		a.endBlock()
		a.commitBegin(2 * time.Second)
	}
	open := map[int]uint64{0: 2}
	a.roundLog(0, 2)
	mk := func(v int) orcMsg {
		return orcMsg{Creator: v, Feeder: 1, Based: 2, Nonce: 1, Srcs: []orcSource{{ID: 1, Prices: []orcPrice{{Price: "3", Dec: 0, Ts: o.c.Header.Time.Unix(), DetID: "9"}}}}}
	}
	for i, t := range []orcTx{
		{Msgs: []orcMsg{mk(0), mk(1)}, Infos: 1, InfosSet: true},
		{Msgs: []orcMsg{mk(2)}, Infos: 0, InfosSet: true},
	} {
		cc, _ := a.check(t, false)
		env.Outcome(fmt.Sprintf("directed-signerinfos-%d-checktx:%s", i, cc))
		env.Eval("C13.checktx")
		if cc == "ok" {
			env.Violate("C13.checktx", "checktx-admitted-unsigned-signer:F-10c", "CheckTx admitted a create-price tx with fewer SignerInfos than signers", o.hist)
		}
		cls := a.send(t, open, "")
		env.Outcome(fmt.Sprintf("directed-signerinfos-%d:%s", i, cls))
	}
	pr, _ := o.c.App.OracleKeeper.GetPriceTRLatest(o.ctx(), 1)
	env.Eval("C13.admit")
	if pr.Price == "3" {
		env.Violate("C13.admit", "price-set-by-unsigned-submissions:F-10c", "only validator 0 signed; the round's price was set to 3 by the unsigned submissions of validators 1 and 2", o.hist)
	}
	env.Report.Histories++
}

// directedC13Forged: regression for F-10a (repaired in the repo) — an outsider forges the
// submissions of all three validators (their public keys are public; the signatures are made with
// the outsider's key). Every one of them must be refused by CheckTx and by DeliverTx without any
// state change; if one is admitted, or the round's price ends up set, the sigs `…:F-10a` fire.
func directedC13Forged(env *Env) {
	spec := orcSpec{Powers: []int64{10, 10, 10}, MaxNonce: 3, ThA: 2, ThB: 3, MaxDetID: 5, MaxSize: 100,
		Sources: [][2]bool{{true, true}}, Rules: [][]uint64{{0}, {1}}, TokenDec: []int32{0},
		Feeders: []orcFeeder{{Token: 1, Rule: 2, StartRound: 2, StartBase: 2, Interval: 7}}, GenNext: []uint64{2}, GenPrice: []string{"1"}}
	o := newOrc(env, 131313, spec, nil)
	o.emitSetup()
	a := &admDriver{orcDriver: newOrcDriver(o, NewRNG(2)), quota: map[string]int{}}
	for i := 0; i < 2; i++ {
		a.endBlock()
		a.commitBegin(2 * time.Second)
	}
	open := map[int]uint64{0: 2}
	a.roundLog(0, 2)
	for v := 0; v < 3; v++ {
		m := orcMsg{Creator: v, Feeder: 1, Based: 2, Nonce: 1, Srcs: []orcSource{{ID: 1, Prices: []orcPrice{{Price: "3", Dec: 0, Ts: o.c.Header.Time.Unix(), DetID: "9"}}}}}
		t := orcTx{Msgs: []orcMsg{m}, Forge: true}
		cc, _ := a.check(t, false)
		env.Outcome("directed-forged-checktx:" + cc)
		if cc == "ok" {
			env.Eval("C13.checktx")
			env.Violate("C13.checktx", "checktx-admitted-forged-signature:F-10a", "CheckTx admitted a forged create-price tx", o.hist)
		}
		cls := a.send(t, open, ":F-10a")
		env.Outcome("directed-forged:" + cls)
		env.Eval("C13.admit")
		if cls != "ante:sig" {
			env.Violate("C13.admit", "forged-not-refused-as-unauthorized:F-10a", "forged create-price tx got "+cls+" instead of the signature error", o.hist)
		}
	}
	pr, _ := o.c.App.OracleKeeper.GetPriceTRLatest(o.ctx(), 1)
	env.Eval("C13.admit")
	if pr.Price == "3" {
		env.Violate("C13.admit", "price-set-by-forged-submissions:F-10a", "no validator signed anything; the round's price was set to 3 by submissions signed with an outsider's key", o.hist)
	}
	env.Report.Histories++
}

// directedDepartedNonce (F-13a): operator 2 opts out in block 2; the minute epoch ends with
// BeginBlock(10), x/dogfood returns power 0 for it at EndBlock(10) while the round based at 9 is open
// (every validator got a zero nonce for it at block 9). EndBlock removes the nonces of the sealed
// feeder for the validators of the NEW set only: the departed validator keeps its entry, and the
// fee-less ante path admits its next submission although it is not a validator any more.
func directedDepartedNonce(env *Env) {
	spec := vsBaseSpec([]int64{10, 10, 10})
	o := newOrc(env, 131305, spec, func(c *ChainCfg) { c.EpochID = "minute" })
	o.emitSetup()
	a := &admDriver{orcDriver: newOrcDriver(o, NewRNG(131305)), quota: map[string]int{}}
	a.wMon = "C13.counted"
	for b := 0; b < 13; b++ {
		h := uint64(o.c.Header.Height)
		open := map[int]uint64{}
		if bb := spec.openBase(0, h); bb > 0 {
			open[0] = bb
			a.roundLog(0, bb)
		}
		switch h {
		case 2:
			o.vsDo(vsAction{kind: "optout", op: 2})
		case 11, 12:
			n, _ := a.nonceOf(2, 1)
			cls := a.send(vsMsg(a.orcDriver, 2, 9, n+1, [2]string{"9", "2"}), open, "")
			env.Outcome(fmt.Sprintf("directed-departed-nonce:block-%d=%s", h, cls))
		}
		upd, halted := a.endBlock()
		if halted {
			return
		}
		a.applyUpdates(upd)
		step := 2 * time.Second
		if h == 9 {
			step = 70 * time.Second
		}
		if !a.commitBegin(step) {
			return
		}
	}
	env.Report.Histories++
}

func domOracleC13(env *Env) error {
	n := env.Int("histories", 10)
	maxBlocks := env.Int("blocks", 30)
	rng := NewRNG(env.Report.Seed*104729 + 13)
	env.Report.Domain = "oracle_adm"
	if env.Int("directed", 1) == 1 {
		directedC13Forged(env)
		directedC13SignerInfos(env)
		expirySweep(env)
		directedDecimals(env)
	}
	if env.Int("dupdet", 0) == 1 {
		directedDupDetID(env, "C13.counted")
	}
	if env.Int("valset", 0) == 1 {
		directedDeparted(env, "C13.counted")
		directedDepartedNonce(env)
	}
	if env.Int("sims", 0) == 1 {
		directedSimulated(env)
	}
	if env.Int("paramsupd", 0) == 1 {
		directedRules(env)
		directedParamsUpdates(env, "C13.counted")
	}
	for hi := 0; hi < n; hi++ {
		spec := genOrcSpec(rng, false)
		minute := env.Int("valset", 0) == 1 && hi%3 == 2
		o := newOrc(env, env.Report.Seed*2000+uint64(hi), spec, func(c *ChainCfg) {
			if minute {
				c.EpochID = "minute"
			}
		})
		o.emitSetup()
		a := &admDriver{orcDriver: newOrcDriver(o, rng), quota: map[string]int{}}
		a.wMon = "C13.counted"
		env.Outcome(fmt.Sprintf("layout:feeder-ids-drifted=%v,other-decimals=%v", spec.drifted(), spec.driftedDecimals()))
		nb := 12 + rng.Intn(maxBlocks)
		for b := 0; b < nb; b++ {
			if minute && rng.Chance(1, 5) {
				if act, ok := a.vsPick(); ok {
					o.vsDo(act)
				}
			}
			if env.Int("paramsupd", 0) == 1 {
				a.maybeUpdate(1, 8)
			}
			a.block()
			upd, halted := a.endBlock()
			if halted {
				env.Violate("C13.halt", "halt", "EndBlock panicked: "+o.halted, o.hist)
				break
			}
			a.applyUpdates(upd)
			a.afterEndBlock()
			a.idsMonitor(uint64(o.c.Header.Height), nil)
			step := subSecondStep(rng, o.c.Header.Time)
			if minute && rng.Chance(1, 6) {
				step += 58 * time.Second
			}
			if !a.commitBegin(step) {
				env.Violate("C13.halt", "halt", "Commit/BeginBlock panicked: "+o.halted, o.hist)
				break
			}
		}
		env.Report.Histories++
		if a.nTx > 0 {
			env.DistinctKey(fmt.Sprintf("h%d-v%d-f%d-t%d-x%d", hi, len(spec.Powers), len(spec.Feeders), a.nTx, a.finals))
		}
		if hi < 1 {
			env.Sample(strings.Join(o.hist[:min(len(o.hist), 30)], " ; "))
		}
	}
	return nil
}
