package main

// C05 — "… the sum, over the assets the AVS supports, of pool amount x latest oracle price …": for an asset that
// joined the chain after genesis the only way in is the gateway's call of the assets precompile `registerToken`,
// whose Go code registers the staking asset AND binds the oracle token named in its `oracleInfo` argument to
// the asset id (RegisterNewTokenAndSetTokenFeeder). The price of THAT token is the asset's "latest oracle price".
//
// Scenario gateway-token: registerToken through the EVM as the gateway (a fresh asset, oracle token "GWT<n>"), the
// token gets a price in the oracle (found by its NAME — the binding asset id -> token is what is under test), a
// second AVS supports USDT and the new asset, operator 0 opts in and receives a delegation of the new asset, epoch
// ends. The epoch-end monitor of the domain (C05.formula) prices the new asset with its token's latest round:
// vpRawCfg resolves an asset of `vpGatewayTokens` through the token name.

import (
	"fmt"
	"math/big"
	"time"

	sdkmath "cosmossdk.io/math"
	sdk "github.com/cosmos/cosmos-sdk/types"
	"github.com/ethereum/go-ethereum/common"

	assetskeeper "github.com/ExocoreNetwork/exocore/x/assets/keeper"
	assetstypes "github.com/ExocoreNetwork/exocore/x/assets/types"
	delegationtypes "github.com/ExocoreNetwork/exocore/x/delegation/types"
	epochstypes "github.com/ExocoreNetwork/exocore/x/epochs/types"
	oracletypes "github.com/ExocoreNetwork/exocore/x/oracle/types"
)

// asset id -> name of the oracle token it was registered with through the gateway
var vpGatewayTokens = map[string]string{}

// vpTokenIDByName: position of the token in the oracle params (0 = none; position 0 is the placeholder)
func vpTokenIDByName(p oracletypes.Params, name string) int {
	for i, t := range p.Tokens {
		if i > 0 && t.Name == name {
			return i
		}
	}
	return 0
}

func vpScenarioGatewayToken(env *Env, k int) {
	r := vpScenarioBoot(env, uint64(960+k), epochstypes.MinuteEpochID, "scenario-gateway-token")
	c := r.c
	abis := xbLoadABIs(c)
	tokenAddr := common.BytesToAddress(detBytes(c.Cfg.Seed, "gwtoken", k))
	assetID := AssetIDOf(c.LzID, tokenAddr.Hex())
	name := fmt.Sprintf("GWT%d", k)
	dec := uint8([]int{6, 8, 18, 0}[k%4])
	// registerToken(clientChainID, token, decimals, name, metaData, oracleInfo) as the gateway
	data, err := abis.assets.Pack("registerToken", uint32(c.LzID), pad32(tokenAddr.Bytes()), dec, name, "registered through the gateway", name+",chainGW,8")
	if err != nil {
		env.Note("scenario-gateway-token:pack-error")
		return
	}
	m := abis.assets.Methods["registerToken"]
	res := xbEvmCall(c, c.Funded.Eth, xbAssetsAddr, data, &m)
	r.op(fmt.Sprintf("vp.note gateway registerToken asset=%s token=%s decimals=%d => %s", assetID, name, dec, res.Class()), "ok")
	env.Outcome("scenario-gateway-token:registerToken=" + res.Class())
	if res.Class() != "ok" {
		return
	}
	vpGatewayTokens[assetID] = name
	defer delete(vpGatewayTokens, assetID)
	price, pd := fmt.Sprint(2+k*7), int32(k%3)
	tid := vpTokenIDByName(c.App.OracleKeeper.GetParams(c.Ctx), name)
	perr := c.CachedDo(func(ctx sdk.Context) error {
		if tid == 0 {
			return fmt.Errorf("the oracle has no token %s", name)
		}
		next := c.App.OracleKeeper.GetNextRoundID(ctx, uint64(tid))
		if !c.App.OracleKeeper.AppendPriceTR(ctx, uint64(tid), oracletypes.PriceTimeRound{Price: price, Decimal: pd, RoundID: next}) {
			return fmt.Errorf("round mismatch")
		}
		return nil
	})
	r.op(fmt.Sprintf("vp.note price token=%s price=%s dec=%d ok=%v", name, price, pd, perr == nil), "ok")
	avs := fmt.Sprintf("0x00000000000000000000000000000000000030%02x", k)
	st := NewActor(c.Cfg.Seed, "gwstaker", k)
	amt := new(big.Int).Mul(big.NewInt(int64(3+k)), pow10(int(dec)))
	// the AVS first supports USDT only and operator 0 opts in (the opt-in prices the operator's self delegation
	// over the AVS's assets); then the AVS adds the new asset and the operator receives a delegation of it
	step := 61 * time.Second
	ok := perr == nil && r.registerAVS(avs, []string{c.AssetIDs[0]}, 1, epochstypes.MinuteEpochID) == nil && r.optIn(avs, 0) == nil &&
		r.block(step) && r.block(step)
	if ok {
		ok = r.updateAssets(avs, []string{c.AssetIDs[0], assetID}, 1, "with-gateway-token")
	}
	if ok {
		derr := c.CachedDo(func(ctx sdk.Context) error {
			if err := c.App.AssetsKeeper.PerformDepositOrWithdraw(ctx, &assetskeeper.DepositWithdrawParams{
				ClientChainLzID: c.LzID, Action: assetstypes.DepositLST, AssetsAddress: tokenAddr.Bytes(),
				StakerAddress: st.Eth.Bytes(), OpAmount: sdkmath.NewIntFromBigInt(amt)}); err != nil {
				return err
			}
			return c.App.DelegationKeeper.DelegateTo(ctx, &delegationtypes.DelegationOrUndelegationParams{
				ClientChainID: c.LzID, Action: assetstypes.DelegateTo, AssetsAddress: tokenAddr.Bytes(),
				OperatorAddress: c.Operators[0].Acc, StakerAddress: st.Eth.Bytes(), OpAmount: sdkmath.NewIntFromBigInt(amt)})
		})
		r.op(fmt.Sprintf("vp.note delegate staker=%s asset=%s op=0 amt=%s ok=%v", st.Eth.Hex(), assetID, amt, derr == nil), "ok")
		ok = derr == nil
	}
	if !ok {
		env.Outcome("scenario-gateway-token:setup-failed")
		return
	}
	ok = r.block(step) && r.block(step) && r.block(step)
	env.Report.Histories++
	// what the scenario is for: the operator's value in the AVS includes the new asset at its token's price
	v, gerr := c.App.OperatorKeeper.GetOperatorOptedUSDValue(c.Ctx, avs, c.Operators[0].Acc.String())
	cfgNew, _, priced := vpRawCfg(c, c.Ctx, c.App.OracleKeeper.GetParams(c.Ctx), assetID)
	want := vpSpecUSD(amt, cfgNew)
	env.Outcome(fmt.Sprintf("scenario-gateway-token:ok=%v,priced=%v,value-includes-new-asset=%v", ok, priced,
		gerr == nil && want.Sign() > 0 && v.TotalUSDValue.BigInt().Cmp(want) >= 0))
}
