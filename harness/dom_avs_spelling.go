package main

// C20 — spellings of the task contract address.
//
// A task contract is ONE 20-byte address; the string naming it in a message is not unique: go-ethereum's
// common.IsHexAddress / HexToAddress accept the EIP-55 checksum form (what common.Address.String() and
// therefore the precompile produce), all lower case, all upper case, any mix, a `0X` prefix and no prefix at
// all. The precompile path always hands the keeper the EIP-55 form, but MsgSubmitTaskResult (x/avs msg
// server, the one functional Cosmos message of the module) carries `Info.TaskContractAddress` as the
// client typed it (ValidateBasic checks only FromAddress). The clauses "phase one only once [per operator
// and task]", "phase two only with the phase-one signature" and "the statistics reflect exactly the accepted
// results" speak about the TASK, so they must be decided across spellings:
//
//   - every bookkeeping key of the monitors is built from the canonical address (rkey / canonTask);
//   - the task a submission is about is looked up by address in the real task store (findTask);
//   - generators: genSubmit re-spells the address of one submission in six, the sweep histories let every
//     operator repeat / pre-empt its phase one under another spelling at every epoch offset, and the
//     directed scenario below plays all spellings against one task with two operators up to the end of the
//     statistical period and through the challenge period;
//   - monResults: at most one stored result per (operator, task address, task id).
//
// The Lean model keys its stores by the strings as given (Model/Avs.lean mirrors the code: GetTaskInfo and
// GetAVSInfoByTaskAddress use the raw string), so on the unchanged tree a re-spelled submission is refused
// with ErrTaskIsNotExists by both; Props/C20Spelling.lean proves that this is what makes the clauses hold
// across spellings (every stored result names a stored task literally, a task's address has the spelling of
// its AVS registration).

import (
	"strings"
	"time"

	"github.com/ethereum/go-ethereum/common"
	"github.com/ethereum/go-ethereum/crypto"

	avstypes "github.com/ExocoreNetwork/exocore/x/avs/types"
	epochstypes "github.com/ExocoreNetwork/exocore/x/epochs/types"
)

// canonTask: the one name of the address a string spells (EIP-55), or the string itself when it is no address
func canonTask(a string) string {
	if common.IsHexAddress(a) {
		return common.HexToAddress(a).String()
	}
	return a
}

var avsSpellings = []string{"lower", "upper", "mixed", "0X-lower", "no-prefix", "no-prefix-upper"}

// spell: another spelling of the same address (kind from avsSpellings; `salt` drives the mixed case)
func spell(addr, kind string, salt uint64) string {
	c := canonTask(addr)
	if !common.IsHexAddress(c) {
		return addr
	}
	body := c[2:]
	switch kind {
	case "lower":
		return "0x" + strings.ToLower(body)
	case "upper":
		return "0x" + strings.ToUpper(body)
	case "0X-lower":
		return "0X" + strings.ToLower(body)
	case "no-prefix":
		return strings.ToLower(body)
	case "no-prefix-upper":
		return strings.ToUpper(body)
	}
	// mixed: flip the case of a salted subset of the letters; never the EIP-55 form itself
	b := []byte(body)
	flipped := false
	for i := range b {
		isLetter := (b[i] >= 'a' && b[i] <= 'f') || (b[i] >= 'A' && b[i] <= 'F')
		if isLetter && ((salt>>(uint(i)%61))&1 == 1 || !flipped) {
			b[i] ^= 0x20
			flipped = true
		}
	}
	return "0x" + string(b)
}

// spellingOf: the class of a string naming an address
func spellingOf(a string) string {
	if !common.IsHexAddress(a) {
		return "not-hex"
	}
	c := common.HexToAddress(a).String()
	if a == c {
		return "eip55"
	}
	for _, k := range avsSpellings {
		if k != "mixed" && a == spell(c, k, 0) {
			return k
		}
	}
	return "mixed"
}

func (h *avsH) respell(addr string) string {
	k := avsSpellings[h.rng.Intn(len(avsSpellings))]
	s := spell(addr, k, h.rng.U64())
	if s == addr { // an address without letters has one lower / upper spelling
		s = spell(addr, "no-prefix", 0)
	}
	return s
}

// findTask: the stored task with this id whose contract ADDRESS is the one `addr` spells
func (h *avsH) findTask(addr string, id uint64) (avstypes.TaskInfo, bool) {
	var out avstypes.TaskInfo
	found := false
	if !common.IsHexAddress(addr) {
		return out, false
	}
	want := common.HexToAddress(addr)
	h.c.App.AVSManagerKeeper.IterateTaskAVSInfo(h.c.Ctx, func(_ int64, t avstypes.TaskInfo) bool {
		if t.TaskId == id && common.IsHexAddress(t.TaskContractAddress) && common.HexToAddress(t.TaskContractAddress) == want {
			out, found = t, true
			return true
		}
		return false
	})
	return out, found
}

// directedSpellings: one AVS, one task (response, statistical, challenge period 1 each), two operators.
// A commits under the task's own spelling and then tries phase one again under every other spelling (each must
// be refused: once per operator and task); B tries phase one ONLY under other spellings. In the statistical period both reveal under every spelling; the statistics monitor judges the task at
// the end of the period against everything that was accepted (whatever the spelling), then every accepted
// result is challenged.
func (h *avsH) directedSpellings() {
	h.directed = "spelling"
	avs, ta := h.avsPool[0], h.taskPool[0]
	a, b := h.opAddrs[0], h.opAddrs[1]
	h.doUpdate(avsUpd{action: 1, addr: avs, name: "n0", taskAddr: ta, owners: []string{h.owners[0]}, assets: []string{h.asset0},
		unbonding: 7, minSelf: 0, epochID: epochstypes.MinuteEpochID, caller: h.owners[0]})
	for _, o := range []string{a, b} {
		h.doOpt(false, 1, o, avs)
		h.doBLS(o, 0)
	}
	h.doBlock(61 * time.Second)
	h.doTask(avsTaskP{taskAddr: ta, caller: h.owners[0], name: "t", hash: []byte("req"), resp: 1, stat: 1, chal: 1})
	id := h.taskCount[ta]
	resp := map[string][]byte{a: respJSON(id, 100), b: respJSON(id, 101)}
	sig := map[string][]byte{a: h.signResp(a, resp[a]), b: h.signResp(b, resp[b])}
	var others []string
	for i, k := range avsSpellings {
		others = append(others, spell(ta, k, 0x5a5a5a5a5a5a5a5a+uint64(i)))
	}
	one := func(o, addr string) string {
		return h.doSubmit(avsSub{viaMsg: true, from: o, op: o, taskAddr: addr, id: id, stage: "1", sig: sig[o]})
	}
	two := func(o, addr string) string {
		return h.doSubmit(avsSub{viaMsg: true, from: o, op: o, taskAddr: addr, id: id, stage: "2", sig: sig[o], resp: resp[o],
			hash: crypto.Keccak256Hash(resp[o]).String()})
	}
	h.env.Note("spelling.A.phase1.own." + one(a, ta))
	for _, s := range others {
		h.env.Note("spelling.A.phase1.again." + one(a, s))
	}
	for _, s := range others[:2] {
		h.env.Note("spelling.B.phase1.other." + one(b, s))
	}
	// (B never uses the task's own spelling in phase one: whatever of B is accepted is accepted under another
	// name, and the statistics of the task must still count it)
	h.dumpOp()
	for i := 0; i < 3 && !h.halted; i++ { // into the statistical period (starting epoch = creation + 1, response period 1)
		h.doBlock(61 * time.Second)
	}
	h.dumpOp()
	for _, o := range []string{a, b} {
		for _, s := range others {
			h.env.Note("spelling.phase2.other." + two(o, s))
		}
		h.env.Note("spelling.phase2.own." + two(o, ta))
	}
	h.dumpOp()
	if !h.halted { // the statistical period ends: C20.stats
		h.doBlock(61 * time.Second)
		h.dumpOp()
	}
	for _, o := range []string{a, b} {
		if r, ok := h.acc2[rkey(o, ta, id)]; ok {
			h.env.Note("spelling.challenge." + h.doChallenge(avsChal{taskAddr: ta, id: id, op: o, taskHash: []byte("req"), respHash: abiDigest(r), caller: h.owners[0]}))
		}
	}
	if !h.halted {
		h.doBlock(61 * time.Second)
	}
	h.dumpOp()
	h.directed = ""
}
