package main

// C11 — liveness. (a) Random part: the seeded full-ABCI sequences of dom_determinism.go (signed
// and malformed txs through DeliverTx, keeper ops wrapped like messages, slashes, epoch ends,
// validator-set changes) extended with CheckTx of malformed/oversized bytes, downtime votes and
// duplicate-vote evidence for validators that have stake, on mainnet- and testnet-style chain
// ids; every Begin/EndBlock/Commit/DeliverTx/CheckTx runs under recover(): a panic there is a
// halted node. After every history `tail` further blocks (including epoch ends) must be
// processed. The random generators stay away from the triggers of the directed scenarios.
// (b) Directed scenarios, one per recorded defect, each on the real code with its own sig:
// F-04b (repaired: regression, must not halt; also through the real evidence path for validators that
// joined after genesis), F-11a, F-11b, F-11f, F-11g.

import (
	"encoding/json"
	"fmt"
	"math/big"
	"os"
	"strings"
	"time"

	sdkmath "cosmossdk.io/math"
	abci "github.com/cometbft/cometbft/abci/types"
	sdk "github.com/cosmos/cosmos-sdk/types"
	banktypes "github.com/cosmos/cosmos-sdk/x/bank/types"
	govv1 "github.com/cosmos/cosmos-sdk/x/gov/types/v1"
	govv1beta1 "github.com/cosmos/cosmos-sdk/x/gov/types/v1beta1"
	slashingtypes "github.com/cosmos/cosmos-sdk/x/slashing/types"
	stakingtypes "github.com/cosmos/cosmos-sdk/x/staking/types"
	"github.com/ethereum/go-ethereum/common"
	"github.com/prysmaticlabs/prysm/v4/crypto/bls/blst"

	"github.com/ExocoreNetwork/exocore/utils"
	assetskeeper "github.com/ExocoreNetwork/exocore/x/assets/keeper"
	assetstypes "github.com/ExocoreNetwork/exocore/x/assets/types"
	avskeeper "github.com/ExocoreNetwork/exocore/x/avs/keeper"
	avstypes "github.com/ExocoreNetwork/exocore/x/avs/types"
	delegationtypes "github.com/ExocoreNetwork/exocore/x/delegation/types"
	epochstypes "github.com/ExocoreNetwork/exocore/x/epochs/types"
	operatortypes "github.com/ExocoreNetwork/exocore/x/operator/types"
	oracletypes "github.com/ExocoreNetwork/exocore/x/oracle/types"
)

func init() { register("liveness", domLiveness) }

// tailBlocks processes n further blocks (every third one crossing a day), reporting a halt.
func tailBlocks(c *Chain, n int) string {
	for i := 0; i < n; i++ {
		d := 5 * time.Second
		if i%3 == 2 {
			d = 24*time.Hour + time.Second
		}
		if r := c.EndAndBegin(d); r.Halt != "" {
			return r.Halt
		}
	}
	return ""
}

func domLiveness(env *Env) error {
	env.Report.Domain = "liveness"
	seed := env.Report.Seed
	n := env.Int("histories", 30)
	blocks := env.Int("blocks", 40)
	tail := env.Int("tail", 6)
	for hi := 0; hi < n; hi++ {
		sseed := seed*1000 + uint64(hi)
		chain := ""
		if hi%2 == 1 {
			chain = "exocoretestnet_233-1"
		}
		op := fmt.Sprintf("live.reset seed=%d blocks=%d chain=%s", sseed, blocks, chain)
		hist := []string{op}
		env.Op(op, "ok")
		res := runLiveSequence(env, sseed, blocks, tail, chain)
		env.Op(fmt.Sprintf("live.run %d", hi), res.obs)
		hist = append(hist, res.hist...)
		env.Eval("C11.halt")
		if res.halt != "" {
			env.Violate("C11.halt", "halt:"+sigOfHalt(res.halt), "block processing panicked (a node would stop): "+res.halt, hist)
		}
		env.Report.Histories++
		env.DistinctKey(res.obs)
		if hi < 2 {
			env.Sample(op + " => " + res.obs)
		}
	}
	// ---- generated: undelegations that are slashed while unbonding, then mature
	for i := 0; i < env.Int("slashruns", 8); i++ {
		undelegationSlashRun(env, seed*70+uint64(i))
	}
	// ---- generated: the signers of an AVS task lose all their power before the statistics epoch
	for i := 0; i < env.Int("signerruns", 6); i++ {
		signerLosesPowerRun(env, seed*90+uint64(i))
	}
	// ---- generated: an asset whose latest oracle price is not a number, then a downtime slash
	for i := 0; i < env.Int("priceruns", 4); i++ {
		unpricedAssetSlashRun(env, seed*110+uint64(i))
	}
	// ---- boundary configuration: HistoricalEntries = 1..3 (TrackHistoricalInfo's pruning loop in BeginBlock
	// reaches height 0 and deletes real entries within a few blocks; dom_conskeys_gate.go)
	histEntriesBoundary(env, "C11.halt")
	if env.Int("directed", 1) == 1 {
		for _, sc := range []struct {
			name string
			f    func(seed uint64) (halt string, note string, hist []string)
			sig  string
		}{
			{"F-04b", scenarioF04b, "halt:slash-zero-value-operator"},
			{"F-04b/abci", scenarioEvidenceJoined, "halt:evidence-joined-validator"},
			{"F-11a", scenarioF11a, "halt:gov-tally-unimplemented"},
			{"F-11h", scenarioF11h, "halt:gov-tally-zero-shares"},
			{"F-11b", scenarioF11b, "halt:avs-empty-signature"},
			{"F-11f", scenarioF11f, "halt:int64-out-of-bound"},
			{"F-11g", scenarioF11g, "halt:dec-overflow"},
		} {
			halt, note, hist := sc.f(seed)
			env.Op("live.directed "+sc.name, fmt.Sprintf("halt=%v note=%s", halt != "", note))
			env.Eval("C11.directed")
			env.Report.Histories++
			env.Outcome(fmt.Sprintf("directed.%s.halt=%v", sc.name, halt != ""))
			if strings.HasPrefix(halt, "tally:") { // no halt, but the outcome of the tally is not what the votes say
				env.Violate("C11.directed", "gov-tally-wrong", sc.name+": "+halt+" ["+note+"]", hist)
			} else if halt != "" {
				env.Violate("C11.directed", sc.sig, sc.name+": "+halt+" ["+note+"]", hist)
			}
		}
	}
	return nil
}

type liveRes struct {
	halt string
	obs  string
	hist []string
}

// runLiveSequence = the determinism generator plus ABCI-level faults. It re-uses
// runDetSequence's op mix by running it on the same seed and then continues on a fresh chain with
// CheckTx garbage, downtime votes and evidence (kept separate so that the C08 traces stay
// unchanged).
func runLiveSequence(env *Env, seed uint64, blocks, tail int, chainID string) liveRes {
	var res liveRes
	tr, st, halt := runDetSequence(seed, blocks, 0, chainID)
	env.Report.Outcomes["tx.delivered"] += st.txs
	env.Report.Outcomes["tx.code0"] += st.txOK
	env.Report.Outcomes["keeper.ok"] += st.keeperOK
	env.Report.Outcomes["epoch.ends"] += st.epochs
	env.Report.Outcomes["malformed.txs"] += st.malformed
	if halt != "" {
		res.halt = halt
		res.obs = "halt"
		res.hist = []string{fmt.Sprintf("det.sequence seed=%d (see dom_determinism.go) halted after %d blocks", seed, len(tr))}
		return res
	}
	// ---- second phase: ABCI-level faults on a fresh chain
	rng := NewRNG(seed ^ 0xC11)
	cfg := DefaultCfg(seed)
	if chainID != "" {
		cfg.ChainID = chainID
	}
	cfg.NOperators = 3
	cfg.Powers = []int64{101, 100, 150}
	if rng.Bool() {
		cfg.EpochID = epochstypes.HourEpochID
	}
	c := NewChainFresh(cfg)
	stakers := []Actor{NewActor(seed, "lstaker", 0), NewActor(seed, "lstaker", 1)}
	evid, down, chk := 0, 0, 0
	for b := 0; b < blocks && res.halt == ""; b++ {
		// CheckTx / DeliverTx of malformed, empty, oversized, truncated bytes
		for k := 0; k < 1+rng.Intn(3); k++ {
			var bz []byte
			switch rng.Intn(5) {
			case 0:
				bz = nil
			case 1:
				bz = detBytes(seed, "junk", b*8+k)
			case 2:
				bz = make([]byte, 1<<uint(8+rng.Intn(10)))
			case 3:
				good, e := signedTx(c, c.Funded, 300000, delegationtypes.NewMsgDelegation(assetstypes.ExocoreAssetID, c.Funded.Acc.String(),
					[]delegationtypes.KeyValue{{Key: c.Operators[0].Acc.String(), Value: &delegationtypes.ValueField{Amount: sdkmath.NewIntFromBigInt(new(big.Int).Lsh(big.NewInt(1), uint(rng.Intn(90))))}}}))
				if e == nil {
					bz = good
					if rng.Bool() && len(good) > 4 {
						bz = good[:rng.Intn(len(good))]
					}
				}
			case 4:
				priv := c.ConsPrivs[rng.Intn(len(c.ConsPrivs))]
				price := []string{"", "abc", "-1", "1e5", "0x10", "99999999999999999999999999999999999999999999"}[rng.Intn(6)]
				h := uint64(c.Header.Height)
				based := (h-1)/10*10 + 1
				bz, _ = oraclePriceTx(c, priv, priceMsg(oracleCreator(priv), uint64(rng.Intn(3)), based, int32(1+rng.Intn(3)), price, int32(rng.Intn(3)), "1", c.Header.Time))
			}
			if rng.Bool() {
				_, h := c.CheckRaw(bz, rng.Chance(1, 4))
				chk++
				if h != "" {
					res.halt = h
					res.hist = append(res.hist, fmt.Sprintf("live.checktx len=%d", len(bz)))
				}
			} else {
				_, h := c.DeliverRaw(bz)
				if h != "" {
					res.halt = h
					res.hist = append(res.hist, fmt.Sprintf("live.delivertx len=%d", len(bz)))
				}
			}
		}
		if res.halt != "" {
			break
		}
		// moderate keeper-level activity so that epochs have something to do (amounts < 10^30)
		if rng.Chance(1, 2) {
			s := stakers[rng.Intn(len(stakers))]
			amt := sdkmath.NewIntWithDecimal(int64(1+rng.Intn(1000)), 6+rng.Intn(10)) // < 10^19 base units = 10^13 USD: far from the int64 / 315-bit triggers (F-11f/g)
			_ = c.CachedDo(func(ctx sdk.Context) error {
				if err := c.App.AssetsKeeper.PerformDepositOrWithdraw(ctx, &assetskeeper.DepositWithdrawParams{
					ClientChainLzID: c.LzID, Action: assetstypes.DepositLST, StakerAddress: s.Eth.Bytes(),
					AssetsAddress: common.HexToAddress(cfg.Assets[0].Addr).Bytes(), OpAmount: amt,
				}); err != nil {
					return err
				}
				return c.App.DelegationKeeper.DelegateTo(ctx, &delegationtypes.DelegationOrUndelegationParams{
					ClientChainID: c.LzID, Action: assetstypes.DelegateTo, AssetsAddress: common.HexToAddress(cfg.Assets[0].Addr).Bytes(),
					OperatorAddress: c.Operators[rng.Intn(len(c.Operators))].Acc, StakerAddress: s.Eth.Bytes(), OpAmount: amt,
					LzNonce: uint64(b), TxHash: common.BytesToHash(detBytes(seed, "ltx", b)),
				})
			})
		}
		var d time.Duration
		switch rng.Pick(6, 2, 2) {
		case 0:
			d = time.Duration(1+rng.Intn(10)) * time.Second
		case 1:
			d = time.Hour + time.Second
		case 2:
			d = 24*time.Hour + time.Second
		}
		fault := rng.Pick(5, 3, 2)
		vi := rng.Intn(len(c.ConsKeys))
		r := c.EndAndBeginWith(d, func(req *abci.RequestBeginBlock) {
			var votes []abci.VoteInfo
			for i, k := range c.ConsKeys {
				signed := !(fault == 1 && i == vi)
				votes = append(votes, abci.VoteInfo{Validator: abci.Validator{Address: k.ToConsAddr(), Power: cfg.Powers[i]}, SignedLastBlock: signed})
			}
			req.LastCommitInfo = abci.CommitInfo{Votes: votes}
			if fault == 2 {
				req.ByzantineValidators = []abci.Misbehavior{{
					Type: abci.MisbehaviorType_DUPLICATE_VOTE, Validator: abci.Validator{Address: c.ConsKeys[vi].ToConsAddr(), Power: cfg.Powers[vi]},
					Height: req.Header.Height - 1, Time: req.Header.Time.Add(-d), TotalVotingPower: 351,
				}}
			}
		})
		if fault == 1 {
			down++
		}
		if fault == 2 {
			evid++
		}
		if r.Halt != "" {
			res.halt = r.Halt
			res.hist = append(res.hist, fmt.Sprintf("live.block %d fault=%d validator=%d d=%s", b, fault, vi, d))
		}
	}
	if res.halt == "" {
		if h := tailBlocks(c, tail); h != "" {
			res.halt = h
			res.hist = append(res.hist, "live.tail")
		}
	}
	env.Report.Outcomes["checktx.calls"] += chk
	env.Report.Outcomes["blocks.downtime-vote"] += down
	env.Report.Outcomes["blocks.evidence"] += evid
	res.obs = fmt.Sprintf("halt=%v det(tx=%d ok=%d keeper=%d epochs=%d valupd=%d) abci(evidence=%d downtime=%d)", res.halt != "", st.txs, st.txOK, st.keeperOK, st.epochs, st.valUpdates, evid, down)
	return res
}

// undelegationSlashRun: the native token is registered as a staking asset, the funded account delegates
// it to a validator's operator, undelegates part or all of it, the operator is slashed 1-3 times while
// the undelegation is unbonding (x/slashing's and x/evidence's entry point
// StakingKeeper.SlashWithInfractionReason, infraction height before the undelegation, fractions up to
// 100 %, distinct infraction kinds and heights), then the chain runs until the record matures and the
// delegation EndBlocker pays it out. An LST undelegation of a second staker goes through the same.
// Monitors: after every slash 0 <= ActualCompletedAmount <= Amount for every pending record; no halt;
// the records are gone at the end.
func undelegationSlashRun(env *Env, seed uint64) {
	rng := NewRNG(seed ^ 0x5145)
	op := fmt.Sprintf("uslash.reset seed=%d", seed)
	hist := []string{op}
	env.Op(op, "ok")
	env.Report.Histories++
	c := NewChainFresh(minuteCfg(seed))
	step := func(o string) { hist = append(hist, o) }
	fail := func(mon, sig, what string) {
		env.Violate(mon, sig, what, hist)
		env.Op("uslash.result", "violation "+sig)
	}
	oi := rng.Intn(len(c.Operators))
	operator := c.Operators[oi]
	consAddr := c.ConsKeys[oi].ToConsAddr()
	staker := c.Funded.Acc
	lst := NewActor(seed, "lststaker", 0)
	nativeAddr := common.HexToAddress(assetstypes.ExocoreAssetAddr).Bytes()
	lstAddr := common.HexToAddress(c.Cfg.Assets[0].Addr).Bytes()
	amount := sdkmath.NewIntWithDecimal(int64(1+rng.Intn(9)), 18)
	lstAmount := sdkmath.NewIntWithDecimal(int64(50+rng.Intn(400)), int(c.Cfg.Assets[0].Decimals))
	err := c.CachedDo(func(ctx sdk.Context) error {
		if err := c.App.AssetsKeeper.SetStakingAssetInfo(ctx, &assetstypes.StakingAssetInfo{
			AssetBasicInfo: assetstypes.AssetInfo{Name: "Exocore native token", Symbol: "EXO", Address: assetstypes.ExocoreAssetAddr,
				Decimals: 18, LayerZeroChainID: assetstypes.ExocoreChainLzID, MetaInfo: "native token"},
			StakingTotalAmount: sdkmath.ZeroInt(),
		}); err != nil {
			return err
		}
		if err := c.App.DelegationKeeper.DelegateTo(ctx, &delegationtypes.DelegationOrUndelegationParams{
			ClientChainID: assetstypes.ExocoreChainLzID, Action: assetstypes.DelegateTo, AssetsAddress: nativeAddr, OperatorAddress: operator.Acc,
			StakerAddress: staker.Bytes(), OpAmount: amount, LzNonce: 0, TxHash: common.BytesToHash(detBytes(seed, "us", 0))}); err != nil {
			return fmt.Errorf("native delegate: %w", err)
		}
		if err := c.App.AssetsKeeper.PerformDepositOrWithdraw(ctx, &assetskeeper.DepositWithdrawParams{
			ClientChainLzID: c.LzID, Action: assetstypes.DepositLST, StakerAddress: lst.Eth.Bytes(), AssetsAddress: lstAddr, OpAmount: lstAmount}); err != nil {
			return err
		}
		return c.App.DelegationKeeper.DelegateTo(ctx, &delegationtypes.DelegationOrUndelegationParams{
			ClientChainID: c.LzID, Action: assetstypes.DelegateTo, AssetsAddress: lstAddr, OperatorAddress: operator.Acc,
			StakerAddress: lst.Eth.Bytes(), OpAmount: lstAmount, LzNonce: 1, TxHash: common.BytesToHash(detBytes(seed, "us", 1))})
	})
	step(fmt.Sprintf("uslash.setup native asset registered; delegate %s hua and %s LST to operator[%d]", amount, lstAmount, oi))
	if err != nil {
		env.Op("uslash.result", "setup-rejected "+tailStr(err.Error(), 100))
		env.Outcome("uslash.setup-rejected")
		return
	}
	blk := func(d time.Duration) bool {
		r := c.EndAndBegin(d)
		if r.Halt != "" {
			fail("C11.halt", "halt:"+sigOfHalt(r.Halt), "block processing panicked (a node would stop): "+r.Halt)
			return false
		}
		return true
	}
	if !blk(5 * time.Second) {
		return
	}
	infractionHeight := c.Header.Height
	if !blk(5 * time.Second) {
		return
	}
	uNative := amount
	if rng.Chance(1, 3) {
		uNative = amount.QuoRaw(int64(2 + rng.Intn(3)))
	}
	uLst := lstAmount.QuoRaw(int64(1 + rng.Intn(3)))
	err = c.CachedDo(func(ctx sdk.Context) error {
		if err := c.App.DelegationKeeper.UndelegateFrom(ctx, &delegationtypes.DelegationOrUndelegationParams{
			ClientChainID: assetstypes.ExocoreChainLzID, Action: assetstypes.UndelegateFrom, AssetsAddress: nativeAddr, OperatorAddress: operator.Acc,
			StakerAddress: staker.Bytes(), OpAmount: uNative, LzNonce: 2, TxHash: common.BytesToHash(detBytes(seed, "us", 2))}); err != nil {
			return fmt.Errorf("native undelegate: %w", err)
		}
		return c.App.DelegationKeeper.UndelegateFrom(ctx, &delegationtypes.DelegationOrUndelegationParams{
			ClientChainID: c.LzID, Action: assetstypes.UndelegateFrom, AssetsAddress: lstAddr, OperatorAddress: operator.Acc,
			StakerAddress: lst.Eth.Bytes(), OpAmount: uLst, LzNonce: 3, TxHash: common.BytesToHash(detBytes(seed, "us", 3))})
	})
	step(fmt.Sprintf("uslash.undelegate native %s, LST %s (height %d, infraction height %d)", uNative, uLst, c.Header.Height, infractionHeight))
	if err != nil {
		env.Op("uslash.result", "undelegate-rejected "+tailStr(err.Error(), 100))
		env.Outcome("uslash.undelegate-rejected")
		return
	}
	nStakerID, nAssetID := assetstypes.GetStakerIDAndAssetID(assetstypes.ExocoreChainLzID, staker.Bytes(), nativeAddr)
	lStakerID, lAssetID := assetstypes.GetStakerIDAndAssetID(c.LzID, lst.Eth.Bytes(), lstAddr)
	checkRecords := func(when string) (ok bool, n int) {
		ok = true
		for _, ids := range [][2]string{{nStakerID, nAssetID}, {lStakerID, lAssetID}} {
			recs, err := c.App.DelegationKeeper.GetStakerUndelegationRecords(c.Ctx, ids[0], ids[1])
			if err != nil {
				continue
			}
			for _, r := range recs {
				n++
				env.Eval("C11.undelegation-amount")
				if r.ActualCompletedAmount.IsNegative() || r.ActualCompletedAmount.GT(r.Amount) {
					fail("C11.undelegation-amount", "undelegation-amount-out-of-range",
						fmt.Sprintf("%s: undelegation record of %s has ActualCompletedAmount=%s, Amount=%s (a negative amount panics NewCoin / corrupts the payout when the record matures)", when, ids[1], r.ActualCompletedAmount, r.Amount))
					ok = false
				}
			}
		}
		return
	}
	if !blk(5 * time.Second) {
		return
	}
	nSlash := 1 + rng.Intn(3)
	effective := 0
	for i := 0; i < nSlash; i++ {
		info, err := c.App.OperatorKeeper.CalculateUSDValueForOperator(c.Ctx, true, operator.Acc.String(), nil, nil, nil)
		if err != nil || !info.StakingAndWaitUnbonding.IsPositive() {
			break
		}
		power := info.StakingAndWaitUnbonding.TruncateInt64()
		frac := sdk.NewDecWithPrec([]int64{10, 30, 60, 60, 90, 100}[rng.Intn(6)], 2)
		inf := []stakingtypes.Infraction{stakingtypes.Infraction_INFRACTION_DOUBLE_SIGN, stakingtypes.Infraction_INFRACTION_DOWNTIME, stakingtypes.Infraction_INFRACTION_UNSPECIFIED}[i%3]
		ih := infractionHeight - int64(rng.Intn(2))
		before, _ := c.App.DelegationKeeper.GetStakerUndelegationRecords(c.Ctx, nStakerID, nAssetID)
		halt := ""
		func() {
			defer recoverTo(&halt, "BeginBlock(slashing->dogfood.SlashWithInfractionReason)")
			c.App.StakingKeeper.SlashWithInfractionReason(c.Ctx, consAddr, ih, power, frac, inf)
		}()
		step(fmt.Sprintf("uslash.slash #%d operator[%d] infraction=%s height=%d power=%d fraction=%s", i+1, oi, inf, ih, power, frac))
		if halt != "" {
			fail("C11.halt", "halt:"+sigOfHalt(halt), "slash panicked: "+halt)
			return
		}
		after, _ := c.App.DelegationKeeper.GetStakerUndelegationRecords(c.Ctx, nStakerID, nAssetID)
		if len(before) > 0 && len(after) > 0 && after[0].ActualCompletedAmount.LT(before[0].ActualCompletedAmount) {
			effective++
		}
		checkRecords(fmt.Sprintf("after slash #%d", i+1)) // on a violation keep going: the record still has to mature
		if !blk(5 * time.Second) {
			return
		}
	}
	env.Outcome(fmt.Sprintf("uslash.effective-slashes=%d", effective))
	// until both records matured: completion height = undelegation height + 10, plus the dogfood hold
	for i := 0; i < 8; i++ {
		if !blk(time.Minute + time.Second) {
			return
		}
		for j := 0; j < 2; j++ {
			if !blk(5 * time.Second) {
				return
			}
		}
	}
	_, left := checkRecords("at the end")
	step("uslash.blocks until matured")
	env.Eval("C11.undelegation-released")
	if left != 0 {
		fail("C11.undelegation-released", "undelegation-not-released", fmt.Sprintf("%d undelegation records still pending after 8 epochs / 24 blocks", left))
		return
	}
	env.DistinctKey(fmt.Sprintf("uslash-%d-%d-%d", seed, nSlash, effective))
	env.Op("uslash.result", fmt.Sprintf("ok slashes=%d effective=%d", nSlash, effective))
}

// signerLosesPowerRun: an AVS with two opted-in operators; a task is created and signed by one of them
// only (sometimes by both, sometimes also by an operator that never opted in); before the task's
// statistics are taken (end of epoch start+2) the signer loses all its power — its whole stake is
// undelegated, or it opts out of the AVS, or it is slashed by 100 % — while the other operator keeps the
// AVS total positive (or, in a variant, loses everything too). x/avs AfterEpochEnd then computes
// taskPowerTotal / operatorPowerTotal in BeginBlock behind a guard on both being non-zero. Everything
// runs under recover(); monitor: no halt.
func signerLosesPowerRun(env *Env, seed uint64) {
	rng := NewRNG(seed ^ 0x51617)
	op := fmt.Sprintf("signer.reset seed=%d", seed)
	hist := []string{op}
	env.Op(op, "ok")
	env.Report.Histories++
	cfg := DefaultCfg(seed)
	cfg.NOperators = 3
	cfg.Powers = []int64{101, 100, 150}
	c := NewChainFresh(cfg)
	step := func(o string) { hist = append(hist, o) }
	blk := func(d time.Duration) bool {
		r := c.EndAndBegin(d)
		if r.Halt != "" {
			env.Violate("C11.halt", "halt:"+sigOfHalt(r.Halt), "block processing panicked (a node would stop): "+r.Halt, hist)
			env.Op("signer.result", "violation halt")
			return false
		}
		return true
	}
	signer, other := c.Operators[0], c.Operators[1]
	fx, err := setupAVSFixture(c, seed, 7, []Actor{signer, other})
	step("signer.setup AVS(minute epoch) with operator[0] and operator[1] opted in, BLS keys")
	if err != nil {
		env.Op("signer.result", "setup-rejected "+tailStr(err.Error(), 100))
		return
	}
	// operator[2] gets a BLS key too (it never opts into this AVS)
	_ = c.CachedDo(func(ctx sdk.Context) error {
		sk := detBLS(seed, 4242)
		h := [32]byte{1}
		return c.App.AVSManagerKeeper.RegisterBLSPublicKey(ctx, &avskeeper.BlsParams{Operator: c.Operators[2].Acc.String(), Name: "k", PubKey: sk.PublicKey().Marshal(),
			PubkeyRegistrationSignature: sk.Sign(h[:]).Marshal(), PubkeyRegistrationMessageHash: h[:]})
	})
	for i := 0; i < 2; i++ {
		if !blk(time.Minute + time.Second) {
			return
		}
	}
	signers := []Actor{signer}
	who := "operator[0]"
	switch rng.Intn(4) {
	case 0:
		signers = append(signers, other)
		who += "+operator[1]"
	case 1:
		signers = append(signers, c.Operators[2]) // registered operator that never opted into this AVS
		who += "+operator[2](not opted in)"
	}
	id, err := createTaskWithResults(c, fx, signers)
	step(fmt.Sprintf("signer.task id=%d signed in phase one by %s", id, who))
	if err != nil {
		env.Op("signer.result", "task-rejected "+tailStr(err.Error(), 100))
		env.Outcome("signer.task-rejected")
		return
	}
	asset := common.HexToAddress(c.Cfg.Assets[0].Addr).Bytes()
	undelegateAll := func(o Actor, pw int64, nonce uint64) error {
		return c.CachedDo(func(ctx sdk.Context) error {
			return c.App.DelegationKeeper.UndelegateFrom(ctx, &delegationtypes.DelegationOrUndelegationParams{
				ClientChainID: c.LzID, Action: assetstypes.UndelegateFrom, AssetsAddress: asset, OperatorAddress: o.Acc, StakerAddress: o.Eth.Bytes(),
				OpAmount: sdkmath.NewIntWithDecimal(pw, int(c.Cfg.Assets[0].Decimals)), LzNonce: nonce, TxHash: common.BytesToHash(detBytes(seed, "sl", int(nonce)))})
		})
	}
	// the way the signer loses its power cycles with the run index (every variant within any four
	// consecutive runs); the other choices of the run stay random
	variant := int(seed % 4)
	var verr error
	switch variant {
	case 0:
		verr = undelegateAll(signer, cfg.Powers[0], 500)
		step("signer.lose operator[0]'s whole stake undelegated")
	case 1:
		verr = c.CachedDo(func(ctx sdk.Context) error {
			return c.App.AVSManagerKeeper.OperatorOptAction(ctx, &avskeeper.OperatorOptParams{OperatorAddress: signer.Acc.String(), AvsAddress: fx.Avs, Action: avskeeper.DeRegisterAction})
		})
		step("signer.lose operator[0] opts out of the AVS")
	case 2:
		halt := ""
		func() {
			defer recoverTo(&halt, "BeginBlock(slashing->dogfood.SlashWithInfractionReason)")
			c.App.StakingKeeper.SlashWithInfractionReason(c.Ctx, c.ConsKeys[0].ToConsAddr(), c.Header.Height-1, cfg.Powers[0], sdk.OneDec(), stakingtypes.Infraction_INFRACTION_DOUBLE_SIGN)
		}()
		step("signer.lose operator[0] slashed by 100 %")
		if halt != "" {
			env.Violate("C11.halt", "halt:"+sigOfHalt(halt), "slash panicked: "+halt, hist)
			return
		}
	case 3:
		verr = undelegateAll(signer, cfg.Powers[0], 500)
		if verr == nil {
			verr = undelegateAll(other, cfg.Powers[1], 501)
		}
		step("signer.lose both operators' whole stakes undelegated (AVS total zero as well)")
	}
	if verr != nil {
		step("signer.lose rejected: " + tailStr(verr.Error(), 80))
	}
	for i := 0; i < 5; i++ {
		if !blk(time.Minute + time.Second) {
			return
		}
	}
	note := ""
	if ti, err := c.App.AVSManagerKeeper.GetTaskInfo(c.Ctx, fmt.Sprint(id), fx.Task); err == nil && ti != nil {
		note = fmt.Sprintf("signed=%d nonsigners=%d threshold=%d total=%s", len(ti.SignedOperators), len(ti.NoSignedOperators), ti.ActualThreshold, ti.TaskTotalPower)
	}
	env.Eval("C11.halt")
	env.DistinctKey(fmt.Sprintf("signer-%d-%d-%s", variant, len(signers), note))
	env.Outcome(fmt.Sprintf("signer.variant=%d", variant))
	env.Op("signer.result", fmt.Sprintf("ok variant=%d %s", variant, note))
}

// unpricedAssetSlashRun: an operator holds an asset whose LATEST oracle price string is not a decimal
// integer, and is then slashed for downtime by x/slashing's BeginBlocker (the slash values every asset of
// the operator through GetSpecifiedAssetsPrice -> CalculateUSDValue). Two ways to get such a price, both
// without any misbehaviour beyond what the protocol admits:
//
//	variant 0: a token registered like precompiles/assets RegisterToken does (staking asset + oracle token
//	           + feeder); its first round closes without quorum and the oracle's own EndBlock (GrowRoundID,
//	           no previous price) appends a round with the EMPTY price;
//	variant 1: all validators quote the same non-numeric string for an existing token (MsgCreatePrice
//	           prices are not checked to be numeric), which reaches consensus and is stored.
//
// The signed-blocks window is shrunk to 10 through the slashing genesis params. Monitors: after every
// block the two price getters never return a nil / non-positive Value together with a nil error; no halt;
// the validator ends up jailed and three more blocks are processed.
func unpricedAssetSlashRun(env *Env, seed uint64) {
	rng := NewRNG(seed ^ 0x9A1CE)
	variant := rng.Intn(2)
	op := fmt.Sprintf("unpriced.reset seed=%d variant=%d", seed, variant)
	hist := []string{op}
	env.Op(op, "ok")
	env.Report.Histories++
	cfg := DefaultCfg(seed)
	cfg.NOperators = 3
	cfg.Powers = []int64{101, 100, 150}
	cfg.Mutate = func(c *Chain, gs map[string]json.RawMessage) {
		var sg slashingtypes.GenesisState
		c.App.AppCodec().MustUnmarshalJSON(gs[slashingtypes.ModuleName], &sg)
		sg.Params.SignedBlocksWindow = 10
		gs[slashingtypes.ModuleName] = c.App.AppCodec().MustMarshalJSON(&sg)
	}
	c := NewChainFresh(cfg)
	step := func(o string) { hist = append(hist, o) }
	done := false
	fail := func(mon, sig, what string) {
		env.Violate(mon, sig, what, hist)
		if !done {
			env.Op("unpriced.result", "violation "+sig)
			done = true
		}
	}
	assetIDs := append([]string{}, c.AssetIDs...)
	checkPrices := func(when string) {
		for _, id := range assetIDs {
			env.Eval("C11.price-value")
			func() {
				h := ""
				defer func() {
					if h != "" {
						fail("C11.price-value", "oracle-price-getter-panics", when+": "+h)
					}
				}()
				defer recoverTo(&h, "GetSpecifiedAssetsPrice")
				p, err := c.App.OracleKeeper.GetSpecifiedAssetsPrice(c.Ctx, id)
				if err == nil && (p.Value.IsNil() || !p.Value.IsPositive()) {
					fail("C11.price-value", "oracle-price-nil-without-error", fmt.Sprintf("%s: GetSpecifiedAssetsPrice(%s) returned Value=%v with a nil error (the slash valuation multiplies by it in BeginBlock)", when, id, p.Value))
				}
				ps, err := c.App.OracleKeeper.GetMultipleAssetsPrices(c.Ctx, map[string]interface{}{id: nil})
				if ps != nil {
					if q, ok := ps[id]; ok && (q.Value.IsNil() || !q.Value.IsPositive()) {
						fail("C11.price-value", "oracle-price-nil-in-map", fmt.Sprintf("%s: GetMultipleAssetsPrices(%s) holds Value=%v (err=%v)", when, id, q.Value, err))
					}
				}
			}()
		}
	}
	victim := rng.Intn(len(c.Operators))
	blkWith := func(d time.Duration, absent bool) bool {
		r := c.EndAndBeginWith(d, func(req *abci.RequestBeginBlock) {
			var votes []abci.VoteInfo
			for _, v := range c.App.StakingKeeper.GetAllExocoreValidators(c.Ctx) {
				signed := !(absent && sdk.ConsAddress(v.Address).Equals(c.ConsKeys[victim].ToConsAddr()))
				votes = append(votes, abci.VoteInfo{Validator: abci.Validator{Address: v.Address, Power: v.Power}, SignedLastBlock: signed})
			}
			req.LastCommitInfo = abci.CommitInfo{Votes: votes}
		})
		if r.Halt != "" {
			fail("C11.halt", "halt:"+sigOfHalt(r.Halt), "block processing panicked (a node would stop): "+r.Halt)
			return false
		}
		return true
	}
	staker := NewActor(seed, "unpricedstaker", 0)
	watched := ""
	if variant == 0 {
		newAddr := common.BytesToAddress(detBytes(seed, "newtoken", 0))
		_, newID := assetstypes.GetStakerIDAndAssetIDFromStr(c.LzID, "", newAddr.String())
		amt := sdkmath.NewIntWithDecimal(int64(1+rng.Intn(50)), 6)
		err := c.CachedDo(func(ctx sdk.Context) error {
			if err := c.App.AssetsKeeper.SetStakingAssetInfo(ctx, &assetstypes.StakingAssetInfo{
				AssetBasicInfo:     assetstypes.AssetInfo{Name: "New Token", Symbol: "NEWT", Address: newAddr.String(), Decimals: 6, LayerZeroChainID: c.LzID, MetaInfo: "fresh"},
				StakingTotalAmount: sdkmath.ZeroInt()}); err != nil {
				return err
			}
			oi := oracletypes.OracleInfo{AssetID: newID}
			oi.Chain.Name = "Ethereum"
			oi.Token.Name = "NEWT"
			oi.Token.Decimal = "6"
			oi.Token.Contract = newAddr.String()
			oi.Feeder.Interval = "5"
			if err := c.App.OracleKeeper.RegisterNewTokenAndSetTokenFeeder(ctx, &oi); err != nil {
				return err
			}
			if err := c.App.AssetsKeeper.PerformDepositOrWithdraw(ctx, &assetskeeper.DepositWithdrawParams{
				ClientChainLzID: c.LzID, Action: assetstypes.DepositLST, StakerAddress: staker.Eth.Bytes(), AssetsAddress: newAddr.Bytes(), OpAmount: amt}); err != nil {
				return err
			}
			return c.App.DelegationKeeper.DelegateTo(ctx, &delegationtypes.DelegationOrUndelegationParams{
				ClientChainID: c.LzID, Action: assetstypes.DelegateTo, AssetsAddress: newAddr.Bytes(), OperatorAddress: c.Operators[victim].Acc,
				StakerAddress: staker.Eth.Bytes(), OpAmount: amt, LzNonce: 1, TxHash: common.BytesToHash(detBytes(seed, "unp", 0))})
		})
		step(fmt.Sprintf("unpriced.register new token (staking asset + oracle token + feeder interval 5), deposit %s and delegate to operator[%d]", amt, victim))
		if err != nil {
			env.Op("unpriced.result", "setup-rejected "+tailStr(err.Error(), 120))
			return
		}
		assetIDs = append(assetIDs, newID)
		watched = newID
	} else {
		// all three validators quote "abc" for feeder 1 (asset 0) in its first window (heights 2..4)
		watched = c.AssetIDs[0]
		if !blkWith(5*time.Second, false) {
			return
		}
		bad := []string{"abc", "", "1e5", "0x10", "-5", "0"}[rng.Intn(6)]
		for vi, priv := range c.ConsPrivs {
			bz, err := oraclePriceTx(c, priv, priceMsg(oracleCreator(priv), 1, 1, 1, bad, 0, "1", c.Header.Time))
			if err != nil {
				continue
			}
			r, h := c.DeliverRaw(bz)
			if h != "" {
				fail("C11.halt", "halt:"+sigOfHalt(h), "DeliverTx panicked: "+h)
				return
			}
			step(fmt.Sprintf("unpriced.delivertx oracle price %q for feeder 1 by validator %d -> code %d", bad, vi, r.Code))
			if os.Getenv("DET_DEBUG") != "" {
				fmt.Fprintln(os.Stderr, "DEBUG unpriced quote", bad, vi, r.Code, tailStr(r.Log, 200))
			}
		}
	}
	// until the watched token's latest price is what the variant wants (or 40 blocks)
	latest := "<none>"
	for i := 0; i < 40; i++ {
		if !blkWith(5*time.Second, false) {
			return
		}
		checkPrices(fmt.Sprintf("block %d", c.Header.Height))
		tid := c.App.OracleKeeper.GetParams(c.Ctx).GetTokenIDFromAssetID(watched)
		if p, found := c.App.OracleKeeper.GetPriceTRLatest(c.Ctx, uint64(tid)); found {
			latest = p.Price
			if _, ok := sdkmath.NewIntFromString(p.Price); !ok {
				break
			}
		}
		if variant == 1 && i > 6 {
			break
		}
	}
	step(fmt.Sprintf("unpriced.blocks until the latest stored price of %s is %q", watched, latest))
	// downtime of the victim's validator
	win := c.App.SlashingKeeper.SignedBlocksWindow(c.Ctx)
	jailed := false
	for i := int64(0); i < 3*win+10 && !jailed; i++ {
		if !blkWith(5*time.Second, true) {
			return
		}
		checkPrices(fmt.Sprintf("downtime block %d", c.Header.Height))
		jailed = c.App.StakingKeeper.IsValidatorJailed(c.Ctx, c.ConsKeys[victim].ToConsAddr())
	}
	step(fmt.Sprintf("unpriced.blocks with validator %d absent from LastCommitInfo (window %d) -> jailed=%v", victim, win, jailed))
	for i := 0; i < 3; i++ {
		if !blkWith(5*time.Second, false) {
			return
		}
	}
	env.Eval("C11.halt")
	env.Outcome(fmt.Sprintf("unpriced.variant=%d.jailed=%v", variant, jailed))
	_, numeric := sdkmath.NewIntFromString(latest)
	env.Outcome(fmt.Sprintf("unpriced.latest-price-numeric=%v", numeric))
	env.DistinctKey(fmt.Sprintf("unpriced-%d-%q-%v", variant, latest, jailed))
	if !done {
		env.Op("unpriced.result", fmt.Sprintf("ok variant=%d latest=%q jailed=%v", variant, latest, jailed))
	}
}

// ---------------------------------------------------------------- directed scenarios

func minuteCfg(seed uint64) ChainCfg {
	cfg := DefaultCfg(seed)
	cfg.EpochID = epochstypes.MinuteEpochID
	cfg.EpochsUntilUnbonded = 1
	return cfg
}

func nextMinute(c *Chain) BlockResult { return c.EndAndBegin(time.Minute + time.Second) }

// F-04b: an operator whose whole stake has been undelegated and released keeps its consensus key;
// duplicate-vote evidence for a height at which it was a validator then reaches
// operator.SlashAssets with StakingAndWaitUnbonding == 0: slashUSDValue.Quo(0) panics in BeginBlock.
func scenarioF04b(seed uint64) (string, string, []string) {
	hist := []string{"f04b.reset epoch=minute unbonding=1", "f04b.undelegate operator[1] self-stake 100% (keeper)", "f04b.blocks until released", "f04b.beginblock evidence(duplicate vote, operator[1], height 1)"}
	c := NewChainFresh(minuteCfg(seed))
	op := c.Operators[1]
	amt := sdkmath.NewIntWithDecimal(c.Cfg.Powers[1], int(c.Cfg.Assets[0].Decimals))
	err := c.CachedDo(func(ctx sdk.Context) error {
		return c.App.DelegationKeeper.UndelegateFrom(ctx, &delegationtypes.DelegationOrUndelegationParams{
			ClientChainID: c.LzID, Action: assetstypes.UndelegateFrom, AssetsAddress: common.HexToAddress(c.Cfg.Assets[0].Addr).Bytes(),
			OperatorAddress: op.Acc, StakerAddress: op.Eth.Bytes(), OpAmount: amt, LzNonce: 1, TxHash: common.BytesToHash(detBytes(seed, "f04b", 0)),
		})
	})
	if err != nil {
		return "", "undelegate failed: " + err.Error(), hist
	}
	t1 := c.Header.Time
	for i := 0; i < 14; i++ { // release height = undelegation height + 10 (operator.UnbondingExpiration), then the dogfood hold
		if r := nextMinute(c); r.Halt != "" {
			return "", "unexpected halt before the trigger: " + r.Halt, hist
		}
	}
	info, err := c.App.OperatorKeeper.CalculateUSDValueForOperator(c.Ctx, true, op.Acc.String(), nil, nil, nil)
	if err != nil {
		return "", "usd value: " + err.Error(), hist
	}
	note := "StakingAndWaitUnbonding=" + info.StakingAndWaitUnbonding.String()
	if !info.StakingAndWaitUnbonding.IsZero() {
		return "", note + " (not yet released)", hist
	}
	ca := c.ConsKeys[1].ToConsAddr()
	v := c.App.StakingKeeper.ValidatorByConsAddr(c.Ctx, ca)
	_, pkErr := c.App.SlashingKeeper.GetPubkey(c.Ctx, ca.Bytes())
	note += fmt.Sprintf(" validatorFound=%v pubkeyKnown=%v signingInfo=%v", v != nil, pkErr == nil, c.App.SlashingKeeper.HasValidatorSigningInfo(c.Ctx, ca))
	r := c.EndAndBeginWith(5*time.Second, func(req *abci.RequestBeginBlock) {
		req.ByzantineValidators = []abci.Misbehavior{{
			Type: abci.MisbehaviorType_DUPLICATE_VOTE, Validator: abci.Validator{Address: ca, Power: c.Cfg.Powers[1]},
			Height: 1, Time: t1, TotalVotingPower: 201,
		}}
	})
	if r.Halt != "" {
		return r.Halt, note + " via=abci-evidence", hist
	}
	// x/evidence ignored the evidence (no pubkey relation is ever registered for *genesis* validators, so
	// their double signs go unpunished). Make the very call x/evidence and x/slashing make from their
	// BeginBlockers for a validator whose pubkey relation exists (one that joined after genesis):
	halt := ""
	func() {
		defer recoverTo(&halt, "BeginBlock(slashing->dogfood.SlashWithInfractionReason)")
		c.App.StakingKeeper.SlashWithInfractionReason(c.Ctx, ca, 1, c.Cfg.Powers[1], sdk.NewDecWithPrec(5, 2), stakingtypes.Infraction_INFRACTION_DOUBLE_SIGN)
	}()
	hist = append(hist, "f04b.call dogfood.SlashWithInfractionReason(consAddr(operator[1]), height 1, power, 5%, DOUBLE_SIGN) as x/evidence BeginBlocker does")
	return halt, note + " via=keeper-call(evidence ignored: pubkey relation missing for genesis validators)", hist
}

// joinValidator makes a fresh account a dogfood validator after genesis: register operator, opt in
// with a consensus key, associate its own client-chain address, deposit and self-delegate `usd`
// USDT, then cross an epoch end. ApplyValidatorChanges then calls AfterValidatorBonded (signing info)
// and, from the next power change on, AfterValidatorCreated (pubkey relation).
func joinValidator(c *Chain, seed uint64, idx int, usd int64) (Actor, sdk.ConsAddress, error) {
	a := NewActor(seed, "joiner", idx)
	ck, _ := NewConsKey(seed, "joinercons", idx)
	asset := common.HexToAddress(c.Cfg.Assets[0].Addr).Bytes()
	amt := sdkmath.NewIntWithDecimal(usd, int(c.Cfg.Assets[0].Decimals))
	err := c.CachedDo(func(ctx sdk.Context) error {
		if err := c.App.OperatorKeeper.SetOperatorInfo(ctx, a.Acc.String(), &operatortypes.OperatorInfo{
			EarningsAddr: a.Acc.String(), OperatorMetaInfo: fmt.Sprintf("joiner%d", idx),
			Commission: stakingtypes.NewCommission(sdk.ZeroDec(), sdk.ZeroDec(), sdk.ZeroDec()),
		}); err != nil {
			return fmt.Errorf("register: %w", err)
		}
		if err := c.App.AssetsKeeper.PerformDepositOrWithdraw(ctx, &assetskeeper.DepositWithdrawParams{
			ClientChainLzID: c.LzID, Action: assetstypes.DepositLST, StakerAddress: a.Eth.Bytes(), AssetsAddress: asset, OpAmount: amt,
		}); err != nil {
			return fmt.Errorf("deposit: %w", err)
		}
		if err := c.App.DelegationKeeper.AssociateOperatorWithStaker(ctx, c.LzID, a.Acc, a.Eth.Bytes()); err != nil {
			return fmt.Errorf("associate: %w", err)
		}
		if err := c.App.DelegationKeeper.DelegateTo(ctx, &delegationtypes.DelegationOrUndelegationParams{
			ClientChainID: c.LzID, Action: assetstypes.DelegateTo, AssetsAddress: asset, OperatorAddress: a.Acc,
			StakerAddress: a.Eth.Bytes(), OpAmount: amt, LzNonce: uint64(100 + idx), TxHash: common.BytesToHash(detBytes(seed, "join", idx)),
		}); err != nil {
			return fmt.Errorf("delegate: %w", err)
		}
		if err := c.App.OperatorKeeper.OptInWithConsKey(ctx, a.Acc, c.AVSAddr, ck); err != nil {
			return fmt.Errorf("opt in: %w", err)
		}
		return nil
	})
	return a, ck.ToConsAddr(), err
}

// scenarioEvidenceJoined drives x/evidence and x/slashing through the real ABCI path for validators
// that joined after genesis (for them the pubkey relation and signing info exist, so evidence is not
// ignored): (1) duplicate-vote evidence for a joined validator with stake: slashed, jailed, tombstoned
// in BeginBlock; (2) a second joined validator undelegates everything, the undelegation is released,
// then evidence for a height at which it was bonded arrives: before commit d040c99 this is the
// division by zero of F-04b inside BeginBlock; now it must be a logged error.
func scenarioEvidenceJoined(seed uint64) (string, string, []string) {
	hist := []string{"f04b2.reset epoch=minute unbonding=1", "f04b2.join two validators (keeper: register, deposit, associate, delegate 200/300 USDT, opt in with key)",
		"f04b2.blocks over epoch ends", "f04b2.beginblock evidence(duplicate vote, joiner0, with stake)",
		"f04b2.undelegate joiner1 100% ; blocks until released", "f04b2.beginblock evidence(duplicate vote, joiner1, height when bonded)"}
	c := NewChainFresh(minuteCfg(seed))
	_, ca0, err := joinValidator(c, seed, 0, 200)
	if err != nil {
		return "", "join0: " + tailStr(err.Error(), 160), hist
	}
	j1, ca1, err := joinValidator(c, seed, 1, 300)
	if err != nil {
		return "", "join1: " + tailStr(err.Error(), 160), hist
	}
	for i := 0; i < 3; i++ {
		if r := nextMinute(c); r.Halt != "" {
			return r.Halt, "halt while joining", hist
		}
	}
	// a power change registers the pubkey relation (AfterValidatorCreated runs on updates)
	for idx, a := range []Actor{NewActor(seed, "joiner", 0), j1} {
		_ = c.CachedDo(func(ctx sdk.Context) error {
			amt := sdkmath.NewIntWithDecimal(10, int(c.Cfg.Assets[0].Decimals))
			asset := common.HexToAddress(c.Cfg.Assets[0].Addr).Bytes()
			if err := c.App.AssetsKeeper.PerformDepositOrWithdraw(ctx, &assetskeeper.DepositWithdrawParams{
				ClientChainLzID: c.LzID, Action: assetstypes.DepositLST, StakerAddress: a.Eth.Bytes(), AssetsAddress: asset, OpAmount: amt}); err != nil {
				return err
			}
			return c.App.DelegationKeeper.DelegateTo(ctx, &delegationtypes.DelegationOrUndelegationParams{
				ClientChainID: c.LzID, Action: assetstypes.DelegateTo, AssetsAddress: asset, OperatorAddress: a.Acc,
				StakerAddress: a.Eth.Bytes(), OpAmount: amt, LzNonce: uint64(200 + idx), TxHash: common.BytesToHash(detBytes(seed, "join2", idx))})
		})
	}
	for i := 0; i < 2; i++ {
		if r := nextMinute(c); r.Halt != "" {
			return r.Halt, "halt while joining (2)", hist
		}
	}
	state := func(ca sdk.ConsAddress) string {
		_, pkErr := c.App.SlashingKeeper.GetPubkey(c.Ctx, ca.Bytes())
		_, isVal := c.App.StakingKeeper.GetExocoreValidator(c.Ctx, ca)
		return fmt.Sprintf("validator=%v pubkey=%v signinfo=%v tombstoned=%v", isVal, pkErr == nil, c.App.SlashingKeeper.HasValidatorSigningInfo(c.Ctx, ca), c.App.SlashingKeeper.IsTombstoned(c.Ctx, ca))
	}
	note := "joiner0[" + state(ca0) + "]"
	bondedHeight, bondedTime := c.Header.Height, c.Header.Time
	ev := func(ca sdk.ConsAddress, h int64, t time.Time, power int64) BlockResult {
		return c.EndAndBeginWith(5*time.Second, func(req *abci.RequestBeginBlock) {
			req.ByzantineValidators = []abci.Misbehavior{{Type: abci.MisbehaviorType_DUPLICATE_VOTE,
				Validator: abci.Validator{Address: ca, Power: power}, Height: h, Time: t, TotalVotingPower: 711}}
		})
	}
	// (1a) duplicate-vote evidence: x/evidence drops it for EVERY validator of this app, because
	// operator.ValidatorByConsAddrForChainID builds the validator with stakingtypes.NewValidator, whose
	// status is Unbonded, and HandleEquivocationEvidence returns early on IsUnbonded().
	if v := c.App.StakingKeeper.ValidatorByConsAddr(c.Ctx, ca0); v != nil {
		note += fmt.Sprintf(" ValidatorByConsAddr.IsUnbonded=%v", v.IsUnbonded())
	}
	r0 := ev(ca0, bondedHeight, bondedTime, 210)
	if r0.Halt != "" {
		return r0.Halt, note + " evidence with stake", hist
	}
	// (1b) downtime: joiner0 misses every block of a full signed-blocks window; x/slashing's BeginBlocker
	// slashes and jails it through dogfood.SlashWithInfractionReason -> operator.Slash -> SlashAssets.
	win := c.App.SlashingKeeper.SignedBlocksWindow(c.Ctx)
	before, _ := c.App.OperatorKeeper.CalculateUSDValueForOperator(c.Ctx, true, NewActor(seed, "joiner", 0).Acc.String(), nil, nil, nil)
	for i := int64(0); i < win+12; i++ {
		r := c.EndAndBeginWith(5*time.Second, func(req *abci.RequestBeginBlock) {
			var votes []abci.VoteInfo
			for _, v := range c.App.StakingKeeper.GetAllExocoreValidators(c.Ctx) {
				votes = append(votes, abci.VoteInfo{Validator: abci.Validator{Address: v.Address, Power: v.Power}, SignedLastBlock: !sdk.ConsAddress(v.Address).Equals(ca0)})
			}
			req.LastCommitInfo = abci.CommitInfo{Votes: votes}
		})
		if r.Halt != "" {
			return r.Halt, note + fmt.Sprintf(" downtime block %d", i), hist
		}
	}
	after, _ := c.App.OperatorKeeper.CalculateUSDValueForOperator(c.Ctx, true, NewActor(seed, "joiner", 0).Acc.String(), nil, nil, nil)
	note += fmt.Sprintf(" downtime[window=%d jailed=%v value %s->%s]", win, c.App.StakingKeeper.IsValidatorJailed(c.Ctx, ca0), before.StakingAndWaitUnbonding.TruncateInt(), after.StakingAndWaitUnbonding.TruncateInt())
	note += " after-evidence0[" + state(ca0) + "]"
	// (2) full exit of joiner1, release, then evidence
	info, _ := c.App.OperatorKeeper.CalculateUSDValueForOperator(c.Ctx, true, j1.Acc.String(), nil, nil, nil)
	err = c.CachedDo(func(ctx sdk.Context) error {
		return c.App.DelegationKeeper.UndelegateFrom(ctx, &delegationtypes.DelegationOrUndelegationParams{
			ClientChainID: c.LzID, Action: assetstypes.UndelegateFrom, AssetsAddress: common.HexToAddress(c.Cfg.Assets[0].Addr).Bytes(),
			OperatorAddress: j1.Acc, StakerAddress: j1.Eth.Bytes(), OpAmount: sdkmath.NewIntWithDecimal(310, int(c.Cfg.Assets[0].Decimals)),
			LzNonce: 300, TxHash: common.BytesToHash(detBytes(seed, "exit", 1))})
	})
	if err != nil {
		return "", note + " undelegate joiner1: " + tailStr(err.Error(), 120) + " value=" + info.StakingAndWaitUnbonding.String(), hist
	}
	for i := 0; i < 14; i++ {
		if r := nextMinute(c); r.Halt != "" {
			return r.Halt, note + " halt while waiting for the release", hist
		}
	}
	info, _ = c.App.OperatorKeeper.CalculateUSDValueForOperator(c.Ctx, true, j1.Acc.String(), nil, nil, nil)
	note += " joiner1[value=" + info.StakingAndWaitUnbonding.String() + " " + state(ca1) + "]"
	r := ev(ca1, bondedHeight, bondedTime, 310)
	note += " after-evidence1[" + state(ca1) + "]"
	return r.Halt, note, hist
}

// govProposal submits a text proposal with the minimum deposit through a real DeliverTx and returns its id.
func govProposal(c *Chain) (id uint64, note string, halt string) {
	gp := c.App.GovKeeper.GetParams(c.Ctx)
	dep := sdk.NewCoins(gp.MinDeposit...)
	content := govv1beta1.NewTextProposal("t", "d")
	legacy, err := govv1.NewLegacyContent(content, c.App.GovKeeper.GetGovernanceAccount(c.Ctx).GetAddress().String())
	if err != nil {
		return 0, "legacy content: " + err.Error(), ""
	}
	msg, err := govv1.NewMsgSubmitProposal([]sdk.Msg{legacy}, dep, c.Funded.Acc.String(), "", "title", "summary")
	if err != nil {
		return 0, "msg: " + err.Error(), ""
	}
	bz, err := signedTx(c, c.Funded, 3000000, msg)
	if err != nil {
		return 0, "sign: " + err.Error(), ""
	}
	r, h := c.DeliverRaw(bz)
	if h != "" {
		return 0, "DeliverTx itself panicked", h
	}
	note = fmt.Sprintf("submit code=%d deposit=%s voting=%s", r.Code, dep.String(), gp.VotingPeriod.String())
	if r.Code != 0 {
		return 0, note + " log=" + tailStr(r.Log, 200), ""
	}
	id, _ = c.App.GovKeeper.GetProposalID(c.Ctx)
	return id - 1, note, ""
}

// govVote delivers a MsgVote of `a` (funding the account first if it has no balance for the fee).
func govVote(c *Chain, a Actor, id uint64, opt govv1.VoteOption) (uint32, string) {
	if c.App.BankKeeper.GetBalance(c.Ctx, a.Acc, utils.BaseDenom).Amount.IsZero() {
		bz, err := signedTx(c, c.Funded, 300000, banktypes.NewMsgSend(c.Funded.Acc, a.Acc, sdk.NewCoins(sdk.NewCoin(utils.BaseDenom, sdkmath.NewIntWithDecimal(1, 18)))))
		if err == nil {
			if _, h := c.DeliverRaw(bz); h != "" {
				return 0, h
			}
		}
	}
	bz, err := signedTx(c, a, 1000000, govv1.NewMsgVote(a.Acc, id, opt, ""))
	if err != nil {
		return 99, ""
	}
	r, h := c.DeliverRaw(bz)
	return r.Code, h
}

// F-11a (repaired by fix-F-11a.patch; regression): x/gov's EndBlocker tallies a proposal whose voting
// period ended; the tally asks the staking keeper (= x/dogfood) for TotalBondedTokens and IterateDelegations,
// which used to panic "unimplemented on this keeper". Now: proposal + deposit, a Yes vote by a validator's
// operator account, a No vote by an account without stake, voting period ends => the block is produced
// and the tally is the validator's own power (101 of 201: quorum met, passed).
func scenarioF11a(seed uint64) (string, string, []string) {
	hist := []string{"f11a.reset", "f11a.delivertx gov.MsgSubmitProposal(text) with deposit >= min deposit",
		"f11a.delivertx gov.MsgVote yes by operator[0] (validator, power 101 of 201)", "f11a.delivertx gov.MsgVote no by the funded account (no stake)",
		"f11a.blocks until voting period ends"}
	c := NewChainFresh(DefaultCfg(seed))
	id, note, h := govProposal(c)
	if h != "" || id == 0 {
		return h, note, hist
	}
	c1, h := govVote(c, c.Operators[0], id, govv1.OptionYes)
	if h != "" {
		return h, note + " vote panicked", hist
	}
	c2, h := govVote(c, c.Funded, id, govv1.OptionNo)
	if h != "" {
		return h, note + " vote panicked", hist
	}
	note += fmt.Sprintf(" votes=%d,%d", c1, c2)
	gp := c.App.GovKeeper.GetParams(c.Ctx)
	step := *gp.VotingPeriod/3 + time.Second
	for i := 0; i < 5; i++ {
		if br := c.EndAndBegin(step); br.Halt != "" {
			return br.Halt, note, hist
		}
	}
	p, found := c.App.GovKeeper.GetProposal(c.Ctx, id)
	if !found {
		return "", note + " proposal gone (no halt)", hist
	}
	t := p.FinalTallyResult
	note += fmt.Sprintf(" status=%s tally(yes=%s no=%s abstain=%s veto=%s) totalBonded=%s", p.Status, t.YesCount, t.NoCount, t.AbstainCount, t.NoWithVetoCount, c.App.StakingKeeper.TotalBondedTokens(c.Ctx))
	want := sdk.TokensFromConsensusPower(c.Cfg.Powers[0], sdk.DefaultPowerReduction).String()
	if c1 == 0 && (t.YesCount != want || t.NoCount != "0" || p.Status != govv1.StatusPassed) {
		return "tally: expected yes=" + want + " no=0 and PASSED (101 of 201 voted yes)", note, hist
	}
	return "", note + " (no halt)", hist
}

// F-11h: the tally weighs a validator's vote as shares*tokens/shares with the DelegatorShares the
// staking keeper reports. x/operator fills DelegatorShares from the operator's *current* USD value, which
// is recomputed live once the operator has opted out: a validator that voted, then opted out and
// undelegated everything, is still in the set (power applied at the last epoch) with DelegatorShares = 0,
// and LegacyDec.Quo panics `division by zero` in the gov EndBlocker (before TotalBondedTokens is reached).
func scenarioF11h(seed uint64) (string, string, []string) {
	hist := []string{"f11h.reset dogfood epoch=week", "f11h.delivertx gov.MsgSubmitProposal(text) with deposit", "f11h.delivertx gov.MsgVote yes by operator[1] (validator)",
		"f11h.operator[1] opts out of the dogfood AVS and undelegates its whole stake (keeper)", "f11h.blocks until voting period ends (same dogfood epoch)"}
	cfg := DefaultCfg(seed)
	cfg.EpochID = epochstypes.WeekEpochID
	c := NewChainFresh(cfg)
	id, note, h := govProposal(c)
	if h != "" || id == 0 {
		return h, note, hist
	}
	op := c.Operators[1]
	code, h := govVote(c, op, id, govv1.OptionYes)
	if h != "" {
		return h, note + " vote panicked", hist
	}
	note += fmt.Sprintf(" vote=%d", code)
	if br := c.EndAndBegin(time.Hour); br.Halt != "" {
		return br.Halt, note, hist
	}
	err := c.CachedDo(func(ctx sdk.Context) error {
		if err := c.App.OperatorKeeper.OptOut(ctx, op.Acc, c.AVSAddr); err != nil {
			return fmt.Errorf("opt out: %w", err)
		}
		return c.App.DelegationKeeper.UndelegateFrom(ctx, &delegationtypes.DelegationOrUndelegationParams{
			ClientChainID: c.LzID, Action: assetstypes.UndelegateFrom, AssetsAddress: common.HexToAddress(c.Cfg.Assets[0].Addr).Bytes(),
			OperatorAddress: op.Acc, StakerAddress: op.Eth.Bytes(), OpAmount: sdkmath.NewIntWithDecimal(c.Cfg.Powers[1], int(c.Cfg.Assets[0].Decimals)),
			LzNonce: 77, TxHash: common.BytesToHash(detBytes(seed, "f11h", 0))})
	})
	if err != nil {
		return "", note + " setup: " + tailStr(err.Error(), 160), hist
	}
	if v := c.App.StakingKeeper.ValidatorByConsAddr(c.Ctx, c.ConsKeys[1].ToConsAddr()); v != nil {
		note += " operator-reported shares=" + v.GetDelegatorShares().String()
	}
	gp := c.App.GovKeeper.GetParams(c.Ctx)
	step := *gp.VotingPeriod/3 + time.Second
	for i := 0; i < 4; i++ {
		if br := c.EndAndBegin(step); br.Halt != "" {
			return br.Halt, note, hist
		}
	}
	if p, found := c.App.GovKeeper.GetProposal(c.Ctx, id); found {
		t := p.FinalTallyResult
		note += fmt.Sprintf(" status=%s yes=%s", p.Status, t.YesCount)
	}
	return "", note + " (no halt)", hist
}

// F-11b: a phase-one task result whose BLS signature is present but empty passes
// SetTaskResultInfo (`== nil` check), is stored, and reads back as nil. At the end of the task's
// statistical epoch AfterEpochEnd finds no signed result in the group, keeps taskID=0/taskAddr="",
// ignores the GetTaskInfo error and dereferences the nil task: panic in BeginBlock.
func scenarioF11b(seed uint64) (string, string, []string) {
	hist := []string{"f11b.reset", "f11b.registerAVS(epoch=minute) + operator[0] opt-in + BLS key + createTask(resp=1,stat=1)",
		"f11b.submitTaskResult stage=1 blsSignature=[]byte{} (present, empty)", "f11b.blocks over minute epochs until start+resp+stat ends"}
	c := NewChainFresh(DefaultCfg(seed))
	avsAddr := common.BytesToAddress(detBytes(seed, "avs", 0)).String()
	taskAddr := common.BytesToAddress(detBytes(seed, "task", 0)).String()
	op := c.Operators[0]
	var taskID uint64
	err := c.CachedDo(func(ctx sdk.Context) error {
		k := c.App.AVSManagerKeeper
		if err := k.UpdateAVSInfo(ctx, &avstypes.AVSRegisterOrDeregisterParams{
			AvsName: "x", AvsAddress: avsAddr, TaskAddr: taskAddr, SlashContractAddr: taskAddr, RewardContractAddr: taskAddr,
			AvsOwnerAddress: []string{c.Funded.Acc.String()}, AssetID: []string{c.AssetIDs[0]}, UnbondingPeriod: 2, EpochIdentifier: epochstypes.MinuteEpochID,
			CallerAddress: c.Funded.Acc.String(), Action: avskeeper.RegisterAction, AvsReward: 1, AvsSlash: 1,
		}); err != nil {
			return fmt.Errorf("register avs: %w", err)
		}
		if err := k.OperatorOptAction(ctx, &avskeeper.OperatorOptParams{OperatorAddress: op.Acc.String(), AvsAddress: avsAddr, Action: avskeeper.RegisterAction}); err != nil {
			return fmt.Errorf("opt in: %w", err)
		}
		sk, err := blst.RandKey()
		if err != nil {
			return err
		}
		h := [32]byte{1}
		if err := k.RegisterBLSPublicKey(ctx, &avskeeper.BlsParams{Operator: op.Acc.String(), Name: "k", PubKey: sk.PublicKey().Marshal(),
			PubkeyRegistrationSignature: sk.Sign(h[:]).Marshal(), PubkeyRegistrationMessageHash: h[:]}); err != nil {
			return fmt.Errorf("bls: %w", err)
		}
		return nil
	})
	if err != nil {
		return "", "setup: " + err.Error(), hist
	}
	// the AVS's USD value is computed at the end of its epoch
	for i := 0; i < 2; i++ {
		if r := nextMinute(c); r.Halt != "" {
			return "", "unexpected halt during setup: " + r.Halt, hist
		}
	}
	err = c.CachedDo(func(ctx sdk.Context) error {
		k := c.App.AVSManagerKeeper
		p := &avskeeper.TaskInfoParams{TaskContractAddress: taskAddr, TaskName: "t", Hash: []byte("h"), TaskResponsePeriod: 1, TaskStatisticalPeriod: 1,
			TaskChallengePeriod: 1, ThresholdPercentage: 50, CallerAddress: c.Funded.Acc.String()}
		if err := k.CreateAVSTask(ctx, p); err != nil {
			return fmt.Errorf("create task: %w", err)
		}
		taskID = p.TaskID
		return k.SetTaskResultInfo(ctx, op.Acc.String(), &avstypes.TaskResultInfo{
			OperatorAddress: op.Acc.String(), TaskContractAddress: taskAddr, TaskId: taskID, Stage: avstypes.TwoPhaseCommitOne, BlsSignature: []byte{},
		})
	})
	if err != nil {
		return "", "task/result: " + err.Error(), hist
	}
	note := fmt.Sprintf("taskID=%d", taskID)
	for i := 0; i < 6; i++ {
		if r := nextMinute(c); r.Halt != "" {
			return r.Halt, note, hist
		}
	}
	return "", note + " (no halt)", hist
}

func hugeDepositAndDelegate(c *Chain, seed uint64, exp uint, assetIdx int) error {
	s := NewActor(seed, "whale", assetIdx)
	amt := sdkmath.NewIntFromBigInt(new(big.Int).Lsh(big.NewInt(1), exp))
	addr := common.HexToAddress(c.Cfg.Assets[assetIdx].Addr).Bytes()
	return c.CachedDo(func(ctx sdk.Context) error {
		if err := c.App.AssetsKeeper.PerformDepositOrWithdraw(ctx, &assetskeeper.DepositWithdrawParams{
			ClientChainLzID: c.LzID, Action: assetstypes.DepositLST, StakerAddress: s.Eth.Bytes(), AssetsAddress: addr, OpAmount: amt,
		}); err != nil {
			return err
		}
		return c.App.DelegationKeeper.DelegateTo(ctx, &delegationtypes.DelegationOrUndelegationParams{
			ClientChainID: c.LzID, Action: assetstypes.DelegateTo, AssetsAddress: addr, OperatorAddress: c.Operators[0].Acc,
			StakerAddress: s.Eth.Bytes(), OpAmount: amt, LzNonce: 7, TxHash: common.BytesToHash(detBytes(seed, "whale", assetIdx)),
		})
	})
}

// F-11f: deposit + delegation of 2^100 base units to a validator operator; the next dogfood epoch
// end converts the operator's USD value to an int64 vote power: "Int64() out of bound" in EndBlock.
func scenarioF11f(seed uint64) (string, string, []string) {
	hist := []string{"f11f.reset epoch=minute", "f11f.deposit+delegate 2^100 base units of asset0 to operator[0] (keeper)", "f11f.blocks over an epoch end"}
	c := NewChainFresh(minuteCfg(seed))
	if err := hugeDepositAndDelegate(c, seed, 100, 0); err != nil {
		return "", "deposit/delegate rejected: " + err.Error(), hist
	}
	for i := 0; i < 4; i++ {
		if r := nextMinute(c); r.Halt != "" {
			return r.Halt, "amount=2^100", hist
		}
	}
	return "", "no halt", hist
}

// F-11g: the same with 2^200 base units: the USD value computation at the epoch end overflows
// LegacyDec's 315-bit limit: "Int overflow" in BeginBlock.
func scenarioF11g(seed uint64) (string, string, []string) {
	hist := []string{"f11g.reset epoch=minute", "f11g.deposit+delegate 2^200 base units of asset0 to operator[0] (keeper)", "f11g.blocks over an epoch end"}
	c := NewChainFresh(minuteCfg(seed))
	if err := hugeDepositAndDelegate(c, seed, 200, 0); err != nil {
		return "", "deposit/delegate rejected: " + tailStr(err.Error(), 100), hist
	}
	for i := 0; i < 4; i++ {
		if r := nextMinute(c); r.Halt != "" {
			return r.Halt, "amount=2^200", hist
		}
	}
	return "", "no halt", hist
}
