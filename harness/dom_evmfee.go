package main

// C19 — Ethereum transactions: exact fee, nonce and revert accounting.
//
// Drives signed legacy / access-list / dynamic-fee MsgEthereumTx through the ABCI DeliverTx of the
// real app (baseapp.runTx -> app/ante/evm decorators -> x/evm/keeper ApplyTransaction -> EVM,
// precompiles). For every tx the harness
//   * pre-executes the same message on a discarded cache of the same state with MinGasMultiplier=0
//     (keeper.ApplyMessage) to learn the opaque EVM result (gas consumed after the refund counter,
//     failed flag) that the Lean model takes as an input,
//   * delivers the tx, prints outcome class, gas, sender nonce and the balances of all tracked accounts
//     for the Lean model (Driver/EvmFee.lean) to reproduce, and
//   * evaluates the property's predicates on the real state (monitors), independently of the model.
// Directed scenarios reproduce the deviations of the unchanged code (see known_findings.json).

import (
	"encoding/json"
	"fmt"
	"math/big"
	"strings"
	"time"

	abci "github.com/cometbft/cometbft/abci/types"
	storetypes "github.com/cosmos/cosmos-sdk/store/types"
	sdk "github.com/cosmos/cosmos-sdk/types"
	authtypes "github.com/cosmos/cosmos-sdk/x/auth/types"
	"github.com/ethereum/go-ethereum/accounts/abi"
	"github.com/ethereum/go-ethereum/common"
	"github.com/ethereum/go-ethereum/core"
	ethtypes "github.com/ethereum/go-ethereum/core/types"
	"github.com/ethereum/go-ethereum/crypto"
	evmostypes "github.com/evmos/evmos/v16/types"
	feemarkettypes "github.com/evmos/evmos/v16/x/feemarket/types"

	exocoreapp "github.com/ExocoreNetwork/exocore/app"
	"github.com/ExocoreNetwork/exocore/utils"
	assetstypes "github.com/ExocoreNetwork/exocore/x/assets/types"
)

func init() { register("evmfee", domEvmFee) }

const precompileABI = `[
{"type":"function","name":"depositLST","inputs":[{"name":"clientChainID","type":"uint32"},{"name":"assetsAddress","type":"bytes"},{"name":"stakerAddress","type":"bytes"},{"name":"opAmount","type":"uint256"}],"outputs":[{"type":"bool"},{"type":"uint256"}]},
{"type":"function","name":"delegate","inputs":[{"name":"clientChainID","type":"uint32"},{"name":"lzNonce","type":"uint64"},{"name":"assetsAddress","type":"bytes"},{"name":"stakerAddress","type":"bytes"},{"name":"operatorAddr","type":"bytes"},{"name":"opAmount","type":"uint256"}],"outputs":[{"type":"bool"}]}
]`

// runtime codes of the tiny contracts (raw bytecode)
var (
	rtRevert  = []byte{0x60, 0x00, 0x60, 0x00, 0xfd}                                     // PUSH1 0 PUSH1 0 REVERT
	rtInvalid = []byte{0xfe}                                                             // INVALID
	rtLoop    = []byte{0x5b, 0x60, 0x00, 0x56}                                           // JUMPDEST PUSH1 0 JUMP
	rtStop    = []byte{0x00}                                                             // STOP (accepts value)
	rtStore   = []byte{0x60, 0x00, 0x35, 0x60, 0x00, 0x55, 0x00}                         // slot0 := calldata[0:32]; STOP
	rtLog     = []byte{0x60, 0x00, 0x35, 0x60, 0x00, 0x55, 0x60, 0x00, 0x60, 0x00, 0xa0} // sstore, LOG0, (falls off = STOP)
	// forwarder used as the configured gateway: calldata = mode(1) | target low byte(1) | payload
	//   mode 0: CALL 0x08<target> with payload, STOP          (precompile call, tx succeeds)
	//   mode 1: CALL 0x08<target> with payload, REVERT        (precompile call, then the whole tx reverts)
	//   mode 2: CALL self with mode:=1 (inner frame reverts), STOP   (outer frame succeeds)
	rtGateway = []byte{
		0x36, 0x60, 0x00, 0x60, 0x00, 0x37, // calldatacopy(0,0,size)
		0x60, 0x00, 0x35, 0x60, 0xf8, 0x1c, // mode
		0x80, 0x60, 0x02, 0x14, 0x60, 0x39, 0x57, // if mode==2 goto 0x39
		0x60, 0x00, 0x60, 0x00, // retSize retOff
		0x60, 0x02, 0x36, 0x03, // argSize = size-2
		0x60, 0x02, // argOff
		0x60, 0x00, // value
		0x60, 0x01, 0x35, 0x60, 0xf8, 0x1c, 0x61, 0x08, 0x00, 0x17, // addr = 0x0800 | calldata[1]
		0x5a, 0xf1, 0x50, // gas call pop
		0x60, 0x01, 0x14, 0x60, 0x33, 0x57, // if mode==1 goto 0x33
		0x00,                               // stop
		0x5b, 0x60, 0x00, 0x60, 0x00, 0xfd, // 0x33: revert
		0x5b, 0x60, 0x01, 0x60, 0x00, 0x53, // 0x39: mem[0]=1
		0x60, 0x00, 0x60, 0x00, 0x36, 0x60, 0x00, 0x60, 0x00, 0x30, 0x5a, 0xf1, // call self
		0x00,
	}
)

// initCodeFor wraps a runtime code into a constructor that returns it.
func initCodeFor(rt []byte) []byte {
	n := byte(len(rt))
	// PUSH1 n DUP1 PUSH1 0x0b PUSH1 0 CODECOPY PUSH1 0 RETURN  (11 bytes) + runtime
	return append([]byte{0x60, n, 0x80, 0x60, 0x0b, 0x60, 0x00, 0x39, 0x60, 0x00, 0xf3}, rt...)
}

type evmAcct struct {
	id    int
	name  string
	addr  common.Address
	actor *Actor // nil for non-signing accounts
}

type evmWorld struct {
	c           *Chain
	env         *Env
	rng         *RNG
	hist        []string
	accts       []*evmAcct // index = id
	byAddr      map[common.Address]*evmAcct
	fc          sdk.AccAddress
	mult        sdk.Dec
	minPrice    sdk.Dec
	maxGas      int64
	gwIsCtr     bool
	directed    bool
	pabi        abi.ABI
	lzNonce     uint64
	digKeys     []string
	ref         *refEVM // reference execution world (evmref.go); nil = off
	refOff      bool    // reference switched off for the rest of the history
	refStateOff bool    // code/storage already differ from the reference in this history (reported once)
}

func (w *evmWorld) op(op, obs string) {
	w.env.Op(op, obs)
	w.hist = append(w.hist, op)
}

func (w *evmWorld) add(name string, addr common.Address, actor *Actor) *evmAcct {
	a := &evmAcct{id: len(w.accts), name: name, addr: addr, actor: actor}
	w.accts = append(w.accts, a)
	w.byAddr[addr] = a
	return a
}

func (w *evmWorld) bal(a *evmAcct) *big.Int { return w.c.NativeBalance(a.addr.Bytes()) }
func (w *evmWorld) seq(a *evmAcct) uint64   { return w.c.Sequence(a.addr.Bytes()) }

func (w *evmWorld) syncAcct(a *evmAcct) {
	w.op(fmt.Sprintf("evm.set %d %s %d", a.id, w.bal(a), w.seq(a)), "ok")
}

func (w *evmWorld) baseFee() *big.Int {
	b := w.c.App.FeeMarketKeeper.GetBaseFee(w.c.Ctx)
	if b == nil {
		return new(big.Int)
	}
	return b
}

func (w *evmWorld) envOp() {
	w.op(fmt.Sprintf("evm.env %s %d %s %s 0", w.baseFee(), w.maxGas, w.mult.BigInt(), w.minPrice.BigInt()), "ok")
}

// restaking + evm stores whose content a failed tx must leave untouched
func (w *evmWorld) digest() string { return w.c.StoreDigest(w.digKeys...) }

type preExec struct {
	evmGas    uint64
	failed    bool
	applyErr  bool
	intrinsic uint64
	vmErr     string
}

// preExecute runs the message on a discarded cache context with MinGasMultiplier = 0, after applying the
// ante effects (fee escrow, sequence bump), to obtain the opaque EVM result.
func (w *evmWorld) preExecute(from *evmAcct, s EthTxSpec) (p preExec, ok bool) {
	defer func() {
		if r := recover(); r != nil {
			ok = false
		}
	}()
	c := w.c
	isCreate := s.To == nil
	intr, err := core.IntrinsicGas(s.Data, s.Access, isCreate, true, true)
	if err != nil {
		return p, false
	}
	p.intrinsic = intr
	if !s.Sign || from.actor == nil {
		return p, true
	}
	msg, _, err := c.BuildEthTx(*from.actor, s)
	if err != nil {
		return p, false
	}
	cctx, _ := c.Ctx.CacheContext()
	fp := c.App.FeeMarketKeeper.GetParams(cctx)
	fp.MinGasMultiplier = sdk.ZeroDec()
	if err := c.App.FeeMarketKeeper.SetParams(cctx, fp); err != nil {
		return p, false
	}
	signer := ethtypes.LatestSignerForChainID(c.App.EvmKeeper.ChainID())
	coreMsg, err := msg.AsMessage(signer, w.baseFee())
	if err != nil {
		return p, true // bad signature etc: rejected by the ante handler anyway
	}
	fee := new(big.Int).Mul(coreMsg.GasPrice(), new(big.Int).SetUint64(s.GasLimit))
	if fee.Sign() > 0 {
		if err := c.App.BankKeeper.SendCoinsFromAccountToModule(cctx, from.addr.Bytes(), authtypes.FeeCollectorName,
			sdk.Coins{sdk.NewCoin(utils.BaseDenom, sdk.NewIntFromBigInt(fee))}); err != nil {
			return p, true // cannot pay: rejected anyway
		}
	}
	acc := c.App.AccountKeeper.GetAccount(cctx, from.addr.Bytes())
	if acc == nil {
		return p, true
	}
	_ = acc.SetSequence(acc.GetSequence() + 1)
	c.App.AccountKeeper.SetAccount(cctx, acc)
	cctx = cctx.WithGasMeter(evmostypes.NewInfiniteGasMeterWithLimit(s.GasLimit)).
		WithKVGasConfig(storetypes.GasConfig{}).WithTransientKVGasConfig(storetypes.GasConfig{})
	res, err := c.App.EvmKeeper.ApplyMessage(cctx, coreMsg, nil, true)
	if err != nil {
		p.applyErr = true
		return p, true
	}
	p.evmGas = res.GasUsed
	p.failed = res.Failed()
	p.vmErr = res.VmError
	return p, true
}

func effPrice(ty int, feeCap, tipCap, baseFee *big.Int) *big.Int {
	if ty != 2 {
		return new(big.Int).Set(feeCap)
	}
	x := new(big.Int).Add(tipCap, baseFee)
	if x.Cmp(feeCap) > 0 {
		return new(big.Int).Set(feeCap)
	}
	return x
}

func evmB2i(b bool) int {
	if b {
		return 1
	}
	return 0
}

type txResult struct {
	class    string
	gas      uint64
	abciGas  int64
	vmErr    string
	log      string
	paid     *big.Int // sender balance decrease
	recvd    *big.Int // recipient increase
	digestEq bool
}

// deliver runs one tx through the real DeliverTx, emits the op/obs pair and evaluates the monitors.
func (w *evmWorld) deliver(from *evmAcct, recip *evmAcct, s EthTxSpec, tag string) (r txResult) {
	c := w.c
	env := w.env
	// when the pre-execution itself breaks down (a panic inside keeper.ApplyMessage) the tx is still delivered and
	// judged by the monitors; only the Lean model, which needs the EVM result as an input, is not fed (it is
	// re-synchronised by a block boundary right after the tx)
	pre, modelled := w.preExecute(from, s)
	if !modelled {
		env.Note("preexec-skipped")
	}
	var bz []byte
	var err error
	if from.actor != nil {
		_, bz, err = c.BuildEthTx(*from.actor, s)
	} else {
		err = fmt.Errorf("no key")
	}
	if err != nil {
		env.Note("build-failed")
		return txResult{class: "skipped"}
	}
	tip := s.TipCap
	if tip == nil {
		tip = new(big.Int)
	}
	sigOk := s.Sign && (s.ChainID == nil || s.ChainID.Cmp(c.App.EvmKeeper.ChainID()) == 0)
	opLine := fmt.Sprintf("evm.tx %d %d %d %d %d %s %s %s %d %d %d %d", s.Type, from.id, recip.id, s.Nonce, s.GasLimit,
		s.FeeCap, tip, s.Value, evmB2i(sigOk), pre.intrinsic, pre.evmGas, evmB2i(pre.failed))
	opBase := opLine

	// ---- before
	n := len(w.accts)
	balB := make([]*big.Int, n)
	seqB := make([]uint64, n)
	for i, a := range w.accts {
		balB[i] = w.bal(a)
		seqB[i] = w.seq(a)
	}
	digB := w.digest()
	baseFee := w.baseFee()
	price := effPrice(s.Type, s.FeeCap, tip, baseFee)

	// reference execution of the same message (evmref.go), on the pre-state the ante handler leaves
	var rr refResult
	refRan := false
	if w.ref != nil && !w.refOff && evmRefApplies(tag) && sigOk && s.FeeCap.Sign() >= 0 {
		fee := new(big.Int).Mul(price, new(big.Int).SetUint64(s.GasLimit))
		if w.refSync(balB, seqB, map[int]*big.Int{from.id: fee}, map[int]uint64{from.id: 1}) {
			w.ref.begin()
			var rerr error
			if rr, rerr = w.ref.exec(c, from.addr, s, baseFee); rerr == nil {
				refRan = true
			} else {
				env.Note("ref-error")
			}
		}
	}

	res, halt := c.DeliverRawTx(bz)
	if halt != "" {
		w.hist = append(w.hist, opLine)
		env.Violate("C19.halt", "halt", "DeliverTx panicked out of baseapp: "+halt, w.hist)
		return txResult{class: "halt"}
	}
	// ---- after
	balA := make([]*big.Int, n)
	seqA := make([]uint64, n)
	for i, a := range w.accts {
		balA[i] = w.bal(a)
		seqA[i] = w.seq(a)
	}
	digA := w.digest()
	r.digestEq = digA == digB
	r.abciGas = res.GasUsed
	r.log = res.Log
	changed := false
	for i := range w.accts {
		if balA[i].Cmp(balB[i]) != 0 || seqA[i] != seqB[i] {
			changed = true
		}
	}
	switch {
	case res.Code == 0:
		er, err := c.EthResponse(res)
		if err != nil {
			return txResult{class: "skipped"}
		}
		r.gas = er.GasUsed
		r.vmErr = er.VmError
		if er.Failed() {
			r.class = "vmfail"
		} else {
			r.class = "ok"
		}
	case seqA[from.id] == seqB[from.id] && !changed:
		r.class = "rej"
	case strings.Contains(res.Log, "block gas meter"):
		r.class = "blockgas"
		r.gas = s.GasLimit // charged gas by definition; the reported figure is checked by C19.reported-gas
	default:
		r.class = "apperr"
		r.gas = uint64(res.GasUsed)
	}
	if env.Int("debug", 0) != 0 {
		fmt.Printf("DEBUG %s => %s code=%d gasW=%d gasU=%d log=%.160s\n", opLine, r.class, res.Code, res.GasWanted, res.GasUsed, res.Log)
	}
	// a rejected tx still feeds the context's gas figure into the block gas meter (baseapp's deferred consumeBlockGas)
	if r.class == "rej" {
		opLine = fmt.Sprintf("%s %d", opBase, res.GasUsed)
	} else {
		opLine = opBase + " 0"
	}
	bs := make([]string, n)
	for i := range balA {
		bs[i] = balA[i].String()
	}
	if modelled {
		w.op(opLine, fmt.Sprintf("%s g=%d n=%d b=%s", r.class, r.gas, seqA[from.id], strings.Join(bs, ",")))
	} else {
		w.hist = append(w.hist, "unmodelled:"+opLine)
		defer w.nextBlock(time.Second)
	}
	if w.ref != nil {
		w.ref.settle(r.class == "ok" || r.class == "vmfail")
	}
	env.Outcome(r.class)
	env.Outcome(fmt.Sprintf("type%d", s.Type))
	env.Outcome("kind:" + tag + ":" + r.class)
	if r.vmErr != "" {
		ve := r.vmErr
		if len(ve) > 28 {
			ve = ve[:28]
		}
		env.Outcome("vmerr:" + ve)
	}
	r.paid = new(big.Int).Sub(balB[from.id], balA[from.id])
	r.recvd = new(big.Int).Sub(balA[recip.id], balB[recip.id])

	// ---- monitors on the real state
	included := r.class != "rej"
	// M1: balance deltas over all tracked accounts sum to zero
	env.Eval("C19.sum-zero")
	sum := new(big.Int)
	for i := range balA {
		sum.Add(sum, new(big.Int).Sub(balA[i], balB[i]))
	}
	if sum.Sign() != 0 {
		env.Violate("C19.sum-zero", "sum-nonzero", fmt.Sprintf("%s: balance deltas of sender/recipient/collector/others sum to %s", r.class, sum), w.hist)
	}
	// M2: nonce
	env.Eval("C19.nonce")
	for i, a := range w.accts {
		want := seqB[i]
		if i == from.id && included {
			want++
		}
		if a == recip && s.To == nil && r.class == "ok" {
			continue // a created contract starts with nonce 1 (EIP-161)
		}
		if seqA[i] != want {
			env.Violate("C19.nonce", "nonce", fmt.Sprintf("%s: nonce of %s is %d, want %d", r.class, a.name, seqA[i], want), w.hist)
		}
	}
	// M5: a rejected tx costs nothing
	if !included {
		env.Eval("C19.rejected-free")
		if changed {
			env.Violate("C19.rejected-free", "rejected-costs", "rejected tx changed a balance or nonce", w.hist)
		}
		// admission predicate evaluated independently on the real pre-state
		reason := ""
		lim := new(big.Int).SetUint64(s.GasLimit)
		fee := new(big.Int).Mul(price, lim)
		switch {
		case !sigOk:
			reason = "sig"
		case s.GasLimit == 0 || (s.Type == 2 && tip.Cmp(s.FeeCap) > 0):
			reason = "malformed"
		case s.FeeCap.Cmp(baseFee) < 0:
			reason = "basefee"
		case s.Nonce != seqB[from.id]:
			reason = "nonce"
		case s.Value.Sign() > 0 && balB[from.id].Cmp(s.Value) < 0:
			reason = "value>balance"
		case balB[from.id].Cmp(fee) < 0:
			reason = "fee>balance"
		case balB[from.id].Cmp(new(big.Int).Add(new(big.Int).Mul(s.FeeCap, lim), s.Value)) < 0:
			reason = "cost>balance" // CheckSenderBalance, in DeliverTx since the F-19a repair
		case w.maxGas > 0 && s.GasLimit > uint64(w.maxGas):
			reason = "gas>blocklimit"
		case strings.Contains(res.Log, "no block gas left"):
			reason = "blockgas-exhausted"
		case !w.minPrice.IsZero() && sdk.NewDecFromBigInt(fee).LT(w.minPrice.Mul(sdk.NewDecFromBigInt(lim))):
			reason = "mingasprice" // EthMinGasPriceDecorator: effective fee < MinGasPrice x gas limit
		}
		if reason == "" {
			env.Violate("C19.rejected-free", "spurious-reject", "tx rejected although every admission check passes: "+evmFirstLine(res.Log), w.hist)
		}
		env.Outcome("rej:" + reason)
	}
	// admission at full strength (F-19a repaired): no included tx may cost more than the sender owned
	if included {
		env.Eval("C19.admission")
		cost := new(big.Int).Add(new(big.Int).Mul(s.FeeCap, new(big.Int).SetUint64(s.GasLimit)), s.Value)
		if balB[from.id].Cmp(cost) < 0 {
			env.Violate("C19.admission", "admit-cost-gt-balance", fmt.Sprintf("%s: tx with gasLimit*feeCap+value = %s was included although the sender owned %s", r.class, cost, balB[from.id]), w.hist)
		}
	}
	// M3: exact fee, bounds, collector credit, value transfer iff success
	if included {
		env.Eval("C19.fee-exact")
		lim := new(big.Int).SetUint64(s.GasLimit)
		g := new(big.Int).SetUint64(r.gas)
		minG := w.mult.MulInt(sdk.NewIntFromBigInt(lim)).TruncateInt().BigInt()
		if g.Cmp(lim) > 0 || g.Cmp(minG) < 0 {
			env.Violate("C19.fee-exact", "gas-bounds", fmt.Sprintf("%s: gas used %s outside [%s,%s]", r.class, g, minG, lim), w.hist)
		}
		fee := new(big.Int).Mul(g, price)
		val := new(big.Int)
		if r.class == "ok" {
			val.Set(s.Value)
		}
		want := make([]*big.Int, n)
		for i := range want {
			want[i] = new(big.Int)
		}
		want[from.id].Sub(want[from.id], fee)
		want[from.id].Sub(want[from.id], val)
		want[recip.id].Add(want[recip.id], val)
		want[0].Add(want[0], fee)
		for i, a := range w.accts {
			d := new(big.Int).Sub(balA[i], balB[i])
			if d.Cmp(want[i]) != 0 {
				sig := "fee-exact"
				if r.class == "vmfail" && i == recip.id {
					sig = "failed-transfer"
				}
				env.Violate("C19.fee-exact", sig, fmt.Sprintf("%s: balance of %s changed by %s, want %s (gas %s price %s value %s)", r.class, a.name, d, want[i], g, price, s.Value), w.hist)
			}
		}
		// M6: the gas figure reported to the client prices the fee actually paid
		env.Eval("C19.reported-gas")
		rep := new(big.Int).Mul(big.NewInt(res.GasUsed), price)
		if rep.Cmp(fee) != 0 && r.class == "blockgas" && !w.directed {
			env.Outcome("blockgas:reported<charged") // F-19c, raised by its directed scenario only
		} else if rep.Cmp(fee) != 0 {
			env.Violate("C19.reported-gas", "reported-gas:"+r.class, fmt.Sprintf("%s: DeliverTx reports gas_used=%d but the sender was charged for %s gas", r.class, res.GasUsed, g), w.hist)
		}
		// pre-execution self-check: the EVM result fed to the model is the one the real tx saw
		if (r.class == "ok" || r.class == "vmfail") && (pre.failed != (r.class == "vmfail")) {
			env.Note("preexec-failed-flag-differs")
		}
	}
	// M4: failed / rejected executions leave restaking and contract state untouched
	if r.class != "ok" {
		env.Eval("C19.failed-no-state")
		if !r.digestEq {
			env.Violate("C19.failed-no-state", "failed-state-change", fmt.Sprintf("%s: restaking/evm store digest changed %s -> %s", r.class, digB, digA), w.hist)
		}
	} else if !r.digestEq {
		env.Outcome("ok-state-changed")
	}
	// reference: executed / failed / gas used as on go-ethereum's own state, code and storage afterwards
	if refRan && (r.class == "ok" || r.class == "vmfail" || r.class == "apperr") {
		w.refCheckExec(rr, r.class, r.gas, s, "")
	}
	w.refCheckState(r.class)
	if included {
		env.DistinctKey(fmt.Sprintf("%s/%d/%s/%d/%s", r.class, s.Type, tag, s.GasLimit, s.Value))
	}
	return r
}

func (w *evmWorld) packDeposit(staker common.Address, amount *big.Int) []byte {
	assetAddr := common.HexToAddress(w.c.Cfg.Assets[0].Addr)
	bz, err := w.pabi.Pack("depositLST", uint32(w.c.LzID), common.RightPadBytes(assetAddr.Bytes(), 32), common.RightPadBytes(staker.Bytes(), 32), amount)
	if err != nil {
		panic(err)
	}
	return bz
}

func (w *evmWorld) packDelegate(staker common.Address, op sdk.AccAddress, amount *big.Int) []byte {
	assetAddr := common.HexToAddress(w.c.Cfg.Assets[0].Addr)
	w.lzNonce++
	bz, err := w.pabi.Pack("delegate", uint32(w.c.LzID), w.lzNonce, common.RightPadBytes(assetAddr.Bytes(), 32), common.RightPadBytes(staker.Bytes(), 32), []byte(op.String()), amount)
	if err != nil {
		panic(err)
	}
	return bz
}

func (w *evmWorld) nextBlock(d time.Duration) bool {
	r := w.c.EndAndBegin(d)
	if r.Halt != "" {
		w.env.Violate("C19.halt", "halt", "block processing panicked: "+r.Halt, w.hist)
		return false
	}
	w.envOp()
	// Begin/EndBlock are outside C19 (fee distribution moves the collector's balance): re-read every account
	for _, a := range w.accts {
		w.syncAcct(a)
	}
	return true
}

// newEvmWorld boots a chain for one history and deploys the helper contracts.
func newEvmWorld(env *Env, rng *RNG, seed uint64, mult, minPrice sdk.Dec, baseFee int64, maxGas int64, gwIsContract bool) (*evmWorld, error) {
	cfg := DefaultCfg(seed)
	w := &evmWorld{env: env, rng: rng, byAddr: map[common.Address]*evmAcct{}, mult: mult, minPrice: minPrice, maxGas: maxGas, gwIsCtr: gwIsContract}
	pabi, err := abi.JSON(strings.NewReader(precompileABI))
	if err != nil {
		return nil, err
	}
	w.pabi = pabi
	funded := NewActor(seed, "funded", 0)
	// the gateway contract is the 7th contract deployed by `funded` (nonce 6)
	gwAddr := crypto.CreateAddress(funded.Eth, 6)
	cfg.Mutate = func(c *Chain, gs map[string]json.RawMessage) {
		cdc := c.App.AppCodec()
		var fg feemarkettypes.GenesisState
		cdc.MustUnmarshalJSON(gs[feemarkettypes.ModuleName], &fg)
		fg.Params.MinGasMultiplier = mult
		fg.Params.MinGasPrice = minPrice
		fg.Params.BaseFee = sdk.NewInt(baseFee)
		gs[feemarkettypes.ModuleName] = cdc.MustMarshalJSON(&fg)
		if gwIsContract {
			var ag assetstypes.GenesisState
			cdc.MustUnmarshalJSON(gs[assetstypes.ModuleName], &ag)
			ag.Params.ExocoreLzAppAddress = gwAddr.String()
			gs[assetstypes.ModuleName] = cdc.MustMarshalJSON(&ag)
		}
	}
	old := exocoreapp.DefaultConsensusParams.Block.MaxGas
	exocoreapp.DefaultConsensusParams.Block.MaxGas = maxGas
	c, perr := evmNewChainGuarded(cfg)
	if perr != "" {
		// The default genesis cannot be initialised (dogfood's InitGenesis registers its AVS through
		// evmKeeper.SetAccount on an address that has no account yet). C19 is about transactions, so the chain is
		// booted from a genesis in which that account already exists and the transactions are judged there.
		env.Note("initchain-panic:fallback-genesis")
		mut := cfg.Mutate
		cfg.Mutate = func(c *Chain, gs map[string]json.RawMessage) {
			mut(c, gs)
			cdc := c.App.AppCodec()
			var ag authtypes.GenesisState
			cdc.MustUnmarshalJSON(gs[authtypes.ModuleName], &ag)
			accs, err := authtypes.UnpackAccounts(ag.Accounts)
			if err != nil {
				panic(err)
			}
			avs := common.HexToAddress(c.AVSAddr)
			accs = append(accs, &evmostypes.EthAccount{BaseAccount: authtypes.NewBaseAccount(avs.Bytes(), nil, uint64(len(accs)), 0), CodeHash: common.BytesToHash(crypto.Keccak256(nil)).Hex()})
			packed, err := authtypes.PackAccounts(accs)
			if err != nil {
				panic(err)
			}
			ag.Accounts = packed
			gs[authtypes.ModuleName] = cdc.MustMarshalJSON(&ag)
		}
		c, perr = evmNewChainGuarded(cfg)
	}
	exocoreapp.DefaultConsensusParams.Block.MaxGas = old
	if perr != "" {
		return nil, fmt.Errorf("InitChain panics: %s", perr)
	}
	w.c = c
	w.fc = c.App.AccountKeeper.GetModuleAddress(authtypes.FeeCollectorName)
	w.digKeys = []string{"evm", "assets", "delegation", "operator", "dogfood", "avs", "oracle", "feedistribution", "erc20"}
	w.add("collector", common.BytesToAddress(w.fc), nil)
	f := c.Funded
	w.add("funded", f.Eth, &f)
	// EOAs with different wealth
	bf := big.NewInt(baseFee)
	amts := []*big.Int{
		new(big.Int).Mul(big.NewInt(1e18), big.NewInt(100)),
		new(big.Int).Mul(bf, big.NewInt(6000000)), // a few dozen txs worth of fees
		new(big.Int).Mul(bf, big.NewInt(400000)),  // a few transfers
	}
	for i, amt := range amts {
		a := NewActor(seed, "eoa", i)
		ac := a
		if amt.Sign() > 0 {
			err := c.CachedDo(func(ctx sdk.Context) error {
				return c.App.BankKeeper.SendCoins(ctx, f.Acc, a.Acc, sdk.Coins{sdk.NewCoin(utils.BaseDenom, sdk.NewIntFromBigInt(amt))})
			})
			if err != nil {
				return nil, err
			}
		}
		w.add(fmt.Sprintf("eoa%d", i), a.Eth, &ac)
	}
	w.add("sink", common.HexToAddress("0x00000000000000000000000000000000000051ee"), nil)
	// contracts, deployed through real transactions of `funded` (nonces 0..7). The deployments are part of the
	// monitored and modelled history: a creation that is refused, fails, is mis-charged or leaves no code is judged by
	// the same monitors as every later tx (and the history stops there instead of the run breaking down).
	price := new(big.Int).Mul(bf, big.NewInt(4))
	if price.Sign() == 0 {
		price = big.NewInt(1)
	}
	rts := [][]byte{rtRevert, rtInvalid, rtLoop, rtStop, rtStore, rtLog, rtGateway, rtBranch}
	names := []string{"cRevert", "cInvalid", "cLoop", "cStop", "cStore", "cLog", "cGateway", "cBranch"}
	for i := range rts {
		w.add(names[i], crypto.CreateAddress(f.Eth, uint64(i)), nil)
	}
	if gwIsContract && w.byName("cGateway").addr != gwAddr {
		return nil, fmt.Errorf("gateway address mismatch")
	}
	if env.Int("ref", 1) != 0 {
		if w.ref, err = newRefEVM(); err != nil {
			return nil, err
		}
	}
	w.op("evm.reset", "ok")
	if !w.nextBlock(time.Second) {
		return nil, fmt.Errorf("halt")
	}
	for i, rt := range rts {
		name := names[i]
		nv := len(env.Report.Violations)
		spec := EthTxSpec{Type: 0, Nonce: uint64(i), GasLimit: 150000, FeeCap: price, Value: new(big.Int), Data: initCodeFor(rt), Sign: true}
		r := w.deliver(w.byName("funded"), w.byName(name), spec, "setup:create:"+name)
		bad := ""
		if r.class != "ok" {
			bad = fmt.Sprintf("deploy %s: %s %s %s", name, r.class, r.vmErr, r.log)
		} else if code, _ := chainContract(c, w.byName(name).addr); len(code) != len(rt) {
			bad = fmt.Sprintf("deploy %s: code length %d, want %d", name, len(code), len(rt))
		}
		if bad != "" {
			if len(env.Report.Violations) > nv {
				return nil, errEvmSetupViolated // reported with its history by a monitor
			}
			return nil, fmt.Errorf("%s", bad)
		}
		if maxGas > 0 && !w.nextBlock(time.Second) {
			return nil, fmt.Errorf("halt")
		}
	}
	if !w.nextBlock(time.Second) {
		return nil, fmt.Errorf("halt")
	}
	return w, nil
}

// errEvmSetupViolated: a deployment of the helper contracts already violated the property (the violation, with its
// history, is in the report); the history ends there.
var errEvmSetupViolated = fmt.Errorf("setup violated")

func evmFirstLine(s string) string {
	if i := strings.IndexByte(s, '\n'); i >= 0 {
		s = s[:i]
	}
	if len(s) > 240 {
		s = s[:240]
	}
	return s
}

func evmNewChainGuarded(cfg ChainCfg) (c *Chain, perr string) {
	defer recoverTo(&perr, "InitChain")
	return NewChain(cfg), ""
}

func (w *evmWorld) byName(n string) *evmAcct {
	for _, a := range w.accts {
		if a.name == n {
			return a
		}
	}
	return nil
}

func abciCheck(bz []byte) abci.RequestCheckTx {
	return abci.RequestCheckTx{Tx: bz, Type: abci.CheckTxType_New}
}
