package main

// C18 — multi-asset worlds of the genesis domain.
//
// The exporter of x/assets groups the staker rows per staker (AllDeposits) and the pool rows per operator
// (AllOperatorAssets) while it walks the prefix store; Validate rejects a document that names a staker or an operator
// twice, and InitGenesis re-adds every row and every token (SetStakingAssetInfo, with its guards on the staking total).
// None of that is exercised by a world with one LST, where every staker has exactly one row. The multi-asset world has
// three LSTs (6, 8 and 18 decimals; in store-key order the second and third sort BEFORE the first), genesis holders of
// the second and third one (so that the world boots whatever the importer thinks of a zero staking total), stakers that
// hold two or three of them, operators that pool two of them (plus the native token), all interleaved in key order, and
// a token whose only holder withdraws everything (staking total back at zero, rows of zeros left behind).
//
// It also carries the guard that turns a panic of InitChain on the harness's own genesis document (which passes every
// module's Validate) into a violation of the scenario instead of a crashed run.

import (
	"encoding/json"
	"fmt"
	"strings"
	"time"

	"cosmossdk.io/math"

	assetstypes "github.com/ExocoreNetwork/exocore/x/assets/types"
)

// genMulti, when set, makes the next world a multi-asset one (same convention as genForceUnbond)
var genMulti bool

const (
	genAsset1Hex = "0x2260fac5e5542a773aa44fbcfedf7c193bc2c599" // 8 decimals
	genAsset2Hex = "0x6b175474e89094c44da98b954eedeac495271d0f" // 18 decimals; one genesis holder only
)

// genesis holdings of the further LSTs: (staker index, asset index, amount), all withdrawable
var genMultiHoldings = [][3]int64{{0, 1, 300000000}, {1, 1, 100000000}, {3, 2, 4000000000000000000}}

// genMultiCfg adds the two further LSTs to the configuration and, through cfg.Mutate, their genesis holders.
func genMultiCfg(cfg *ChainCfg, w *genWorld) {
	cfg.Assets = append(cfg.Assets,
		AssetSpec{Addr: genAsset1Hex, Decimals: 8, Price: "3", PriceDec: 0},
		AssetSpec{Addr: genAsset2Hex, Decimals: 18, Price: "1", PriceDec: 0})
	w.genFree = map[[2]int]int64{}
	for _, h := range genMultiHoldings {
		w.genFree[[2]int{int(h[0]), int(h[1])}] = h[2]
	}
	stakers := w.stakers
	prev := cfg.Mutate
	cfg.Mutate = func(c *Chain, gs map[string]json.RawMessage) {
		if prev != nil {
			prev(c, gs)
		}
		cdc := c.App.AppCodec()
		var g assetstypes.GenesisState
		cdc.MustUnmarshalJSON(gs[assetstypes.ModuleName], &g)
		byStaker := map[string]int{}
		for _, h := range genMultiHoldings {
			sid := StakerIDOf(c.LzID, stakers[h[0]])
			aid := c.AssetIDs[h[1]]
			amt := math.NewInt(h[2])
			for i := range g.Tokens {
				if _, id := assetstypes.GetStakerIDAndAssetIDFromStr(g.Tokens[i].AssetBasicInfo.LayerZeroChainID, "", g.Tokens[i].AssetBasicInfo.Address); id == aid {
					g.Tokens[i].StakingTotalAmount = g.Tokens[i].StakingTotalAmount.Add(amt)
				}
			}
			row := assetstypes.DepositByAsset{AssetID: aid, Info: assetstypes.StakerAssetInfo{
				TotalDepositAmount: amt, WithdrawableAmount: amt, PendingUndelegationAmount: math.ZeroInt()}}
			if i, ok := byStaker[sid]; ok {
				g.Deposits[i].Deposits = append(g.Deposits[i].Deposits, row)
			} else {
				byStaker[sid] = len(g.Deposits)
				g.Deposits = append(g.Deposits, assetstypes.DepositsByStaker{StakerID: sid, Deposits: []assetstypes.DepositByAsset{row}})
			}
		}
		if err := g.Validate(); err != nil {
			panic("harness: multi-asset genesis does not pass Validate: " + err.Error())
		}
		gs[assetstypes.ModuleName] = cdc.MustMarshalJSON(&g)
	}
}

// genBootPanic tags a panic of NewChain (InitChain of the harness's own genesis document)
type genBootPanic struct{ cfg, msg string }

func genBoot(cfg ChainCfg) (c *Chain) {
	defer func() {
		if r := recover(); r != nil {
			s := strings.ReplaceAll(fmt.Sprint(r), "\n", " ")
			if strings.HasPrefix(s, "harness:") {
				panic(r)
			}
			if len(s) > 400 {
				s = s[:400]
			}
			var as []string
			for _, a := range cfg.Assets {
				as = append(as, fmt.Sprintf("%s/%d", a.Addr, a.Decimals))
			}
			panic(genBootPanic{cfg: fmt.Sprintf("# boot: InitChain of the harness genesis: seed=%d operators=%d powers=%v assets=[%s] (only the first asset has holders unless the world is multi-asset: every other token has staking total 0) epoch=%s unbonding=%d",
				cfg.Seed, cfg.NOperators, cfg.Powers, strings.Join(as, " "), cfg.EpochID, cfg.EpochsUntilUnbonded), msg: s})
		}
	}()
	return NewChain(cfg)
}

// genScenario runs one directed scenario / random history. If the harness's own genesis document — which passes the
// Validate of every module, and which equals the export of the state it creates — makes InitChain panic, that is reported
// (the document of a reachable state cannot be imported) and only this scenario ends.
func genScenario(env *Env, name string, f func()) {
	defer func() {
		if r := recover(); r != nil {
			bp, ok := r.(genBootPanic)
			if !ok {
				panic(r)
			}
			genNextOpts, genMulti, genForceUnbond = genOpts{}, false, 0 // one-shot options of the world that did not boot
			env.Eval("C18.import")
			env.Outcome("boot-panic:" + name)
			env.Violate("C18.import", "init-panic", "scenario "+name+": InitChain panicked on a genesis document that passes every module's Validate: "+bp.msg, []string{bp.cfg})
		}
	}()
	f()
}

// genDirectedMulti is directed scenario D9.
//
//	stakers 0..3 (S0..S3), operators 0..2 (O0..O2; each holds its genesis self-delegation of asset 0), assets A0 A1 A2
//	genesis:  S0 holds A1, S1 holds A1, S3 is the only holder of A2
//	history:  S0 deposits A0, S1 deposits A0, S2 deposits A1 and A0, S0 deposits A2 -> S0 {A1,A2,A0}, S1 {A1,A0}, S2 {A1,A0}
//	          S0 -> O0 with A0 and with A1; S2 -> O1 with A1; S1 -> O2 with A0; S0 -> O0 with A2
//	                                                                             -> O0 {A1,A2,A0}, O1 {A1,A0}, O2 {A0}
//	          native-token delegation to O1                                      -> O1 {A1,A0,native}
//	          S1 withdraws all of A1: a row of zeros
//	          next epoch: S0 undelegates its A2 from O0 (pending record in the export)
//	          a further token A3 is registered through the precompile and never deposited: staking total 0
//	D10 (genDirectedMultiDrain): a token whose staking total went back to zero through withdrawals
func genDirectedMulti(env *Env, rng *RNG) {
	genMulti = true
	defer func() { genMulti = false }()
	w := newGenWorld(env, rng, env.Report.Seed*1000+909)
	genMulti = false
	c := w.c
	c.EndAndBegin(time.Minute)
	var r []string
	do := func(what string, err error) { r = append(r, what+"="+genErrClass(err)) }
	on := func(ai int) *genWorld { w.asset = ai; return w }
	do("dep", on(0).deposit(0, 5000000))
	do("dep", on(0).deposit(1, 7000000))
	do("dep", on(1).deposit(2, 200000000))
	do("dep", on(0).deposit(2, 1000000))
	do("dep", on(2).deposit(0, 3000000000000000000))
	do("del", on(0).delegate(0, 0, 3000000, false))
	do("del", on(1).delegate(0, 0, 100000000, false))
	do("del", on(1).delegate(2, 1, 100000000, false))
	do("del", on(0).delegate(1, 2, 2000000, false))
	do("del", on(2).delegate(0, 0, 1000000000000000000, false))
	w.asset = 0
	r = append(r, "native="+w.nativeDelegate(1, 12345))
	do("wd-all", on(1).withdraw(1, 100000000))
	c.EndAndBegin(time.Hour + time.Second)
	do("undel", on(2).delegate(0, 0, 1000000000000000000, true))
	w.asset = 0
	w.nextChain++
	r = append(r, "register="+w.registerWideChain(uint32(200+w.nextChain), 20))
	env.Outcome("directed:D9 multi-asset " + strings.Join(r, " "))
	w.runOne(0, true, 6)
}

// genDirectedMultiDrain is directed scenario D10: in the multi-asset world every holder of A2 withdraws everything
// (S3 its genesis holding, S0 a deposit made in this history): the token's published staking total is back at ZERO, the
// two staker rows stay behind as rows of zeros, and the state is exported in that shape. (A token without deposits is
// what registerToken creates; here it is reached by withdrawals, so that the state does not depend on a registration.)
func genDirectedMultiDrain(env *Env, rng *RNG) {
	genMulti = true
	defer func() { genMulti = false }()
	w := newGenWorld(env, rng, env.Report.Seed*1000+910)
	genMulti = false
	c := w.c
	c.EndAndBegin(time.Minute)
	var r []string
	do := func(what string, err error) { r = append(r, what+"="+genErrClass(err)) }
	on := func(ai int) *genWorld { w.asset = ai; return w }
	do("dep", on(2).deposit(0, 3000000000000000000))
	do("dep", on(0).deposit(0, 5000000))
	do("del", on(0).delegate(0, 1, 3000000, false))
	do("wd-all", on(2).withdraw(3, 4000000000000000000))
	do("wd-all", on(2).withdraw(0, 3000000000000000000))
	w.asset = 0
	total := "?"
	if info, err := c.App.AssetsKeeper.GetStakingAssetInfo(c.Ctx, c.AssetIDs[2]); err == nil {
		total = info.StakingTotalAmount.String()
	}
	env.Outcome("directed:D10 drained token " + strings.Join(r, " ") + " staking-total=" + total)
	w.runOne(0, true, 4)
}
