package main

// C08 — determinism, clause "independent of map iteration order", for the ENCODER of stored values.
//
// gogoproto's generated MarshalToSizedBuffer writes a proto `map<K,V>` field with
// `for k := range m.Field` — Go map order — unless the file is generated with the stable
// marshaller. A stored message with such a field holding two or more entries therefore has no
// canonical encoding: two executions of the same blocks write different bytes under the same key
// (different IAVL leaf, different store root, different app hash), although every getter decodes
// the same struct. The map-bearing messages of the repository that are written to a KV store:
//   * x/oracle Params.Sources[i].Entry.{Offchain,Onchain}  (ParamsKey, RecentParams/value/<block>)
//   * x/avs    AVSInfo.AssetRewardAmountEpochBasis          (never populated by the unchanged code)
// (fact protoMapFields, tie C08_tie_proto_map_fields_reviewed).
//
// A case = one seeded step script: a source with 2..8 endpoint entries gets into the oracle params,
// followed by further rewrites of the stored params (a MaxSizePrices update, a chain added, the token
// registration the assets precompile performs: each of them re-marshals the whole Params); an AVS
// supporting two assets is registered on the way. Four variants:
//   genesis         : the source is part of the genesis file (InitGenesis -> SetParams), mainnet chain id;
//                     later updates (no map content) are executed with the governance authority, which is
//                     what x/gov's EndBlocker does with the message of a passed proposal
//   genesis-testnet : the same on a testnet chain id, later updates are signed MsgUpdateParams txs through
//                     DeliverTx (UpdateParams checks the authority on mainnet chain ids only)
//   tx              : testnet chain id, the source itself arrives in a signed MsgUpdateParams. In this SDK
//                     version the tx decoder's unknown-field check rejects every message that carries a
//                     non-empty proto map ("…Endpoint.OffchainEntry does not implement proto.Message", code 2),
//                     also inside a gov proposal's Any: the path is closed today; the case documents that
//                     (outcome not-stored.tx) and is compared like the others should it ever open
//   handler         : the UpdateParams handler executed directly with the governance authority (keeper
//                     level: the only way the message can reach the handler today)
// executed twice by the parent and twice by each of K child processes of this binary. Compared per
// step: the app hash and the raw bytes of every key of the oracle and avs stores. A differing value
// whose two versions DECODE to equal messages is an encoding-order difference; the field is located
// by walking the two wire encodings (proto-map-order:<message.field>).

import (
	"bytes"
	"encoding/hex"
	"encoding/json"
	"fmt"
	"os"
	"os/exec"
	"path/filepath"
	"reflect"
	"sort"
	"strings"
	"sync"
	"time"

	sdk "github.com/cosmos/cosmos-sdk/types"
	authtypes "github.com/cosmos/cosmos-sdk/x/auth/types"
	govtypes "github.com/cosmos/cosmos-sdk/x/gov/types"
	"github.com/cosmos/gogoproto/proto"
	"github.com/ethereum/go-ethereum/common"

	"github.com/ExocoreNetwork/exocore/utils"
	assetstypes "github.com/ExocoreNetwork/exocore/x/assets/types"
	avstypes "github.com/ExocoreNetwork/exocore/x/avs/types"
	oraclekeeper "github.com/ExocoreNetwork/exocore/x/oracle/keeper"
	oracletypes "github.com/ExocoreNetwork/exocore/x/oracle/types"
)

func init() { register("determinism_protomaps", domDetProtoMaps) }

var pmVariants = []string{"genesis", "genesis-testnet", "tx", "handler"}

// pmCase is what the seed decides.
type pmCase struct {
	Variant string
	Sources []*oracletypes.Source
	Follow  []string // later rewrites of the stored params: maxsize | chain | token | idle
}

func pmEndpointMap(rng *RNG, n int, tag string) map[uint64]string {
	if n == 0 {
		return nil
	}
	m := map[uint64]string{}
	// keys are token ids (0 = fallback for all tokens); now and then a boundary value
	for i := 0; len(m) < n; i++ {
		k := uint64(i)
		if rng.Chance(1, 8) {
			k = []uint64{1<<63 - 1, 1 << 63, 1<<64 - 1, 127, 128, 16384}[rng.Intn(6)]
		}
		if _, dup := m[k]; dup {
			continue
		}
		m[k] = fmt.Sprintf("%s://feed-%d.example/%d", tag, rng.Intn(100), k)
	}
	return m
}

func pmGenCase(seed uint64, variant string) pmCase {
	rng := NewRNG(seed ^ 0x08B)
	cs := pmCase{Variant: variant}
	nSrc := 1 + rng.Intn(2)
	for s := 0; s < nSrc; s++ {
		// two to eight entries on at least one side (one entry or none has a single encoding)
		nOff, nOn := 0, 0
		switch rng.Intn(3) {
		case 0:
			nOff = 2 + rng.Intn(7)
		case 1:
			nOn = 2 + rng.Intn(7)
		default:
			nOff, nOn = 2+rng.Intn(7), 1+rng.Intn(8)
		}
		cs.Sources = append(cs.Sources, &oracletypes.Source{
			Name: fmt.Sprintf("src%d-%d", seed%1000, s), Valid: true, Deterministic: rng.Bool(),
			Entry: &oracletypes.Endpoint{Offchain: pmEndpointMap(rng, nOff, "https"), Onchain: pmEndpointMap(rng, nOn, "eth")},
		})
	}
	all := []string{"maxsize", "chain", "token", "idle"}
	for i := 0; i < 3; i++ {
		cs.Follow = append(cs.Follow, all[rng.Intn(len(all))])
	}
	return cs
}

func pmDescribeSources(ss []*oracletypes.Source) string {
	var parts []string
	for _, s := range ss {
		parts = append(parts, fmt.Sprintf("%s{offchain:%s onchain:%s}", s.Name, pmSortedMap(s.Entry.Offchain), pmSortedMap(s.Entry.Onchain)))
	}
	return strings.Join(parts, " ")
}

func pmSortedMap(m map[uint64]string) string {
	ks := make([]uint64, 0, len(m))
	for k := range m {
		ks = append(ks, k)
	}
	sort.Slice(ks, func(i, j int) bool { return ks[i] < ks[j] })
	var parts []string
	for _, k := range ks {
		parts = append(parts, fmt.Sprintf("%d=%s", k, m[k]))
	}
	return "[" + strings.Join(parts, ",") + "]"
}

// pmStep is one observation point: the committed app hash and the raw content of the two stores that
// hold map-bearing messages.
type pmStep struct {
	Name   string            `json:"name"`
	Result string            `json:"result"` // ok | rej | code of the delivered tx
	App    string            `json:"app"`
	KV     map[string]string `json:"kv"` // "<store>/<hex key>" -> hex value
}

func pmDumpStores(c *Chain) map[string]string {
	out := map[string]string{}
	for _, name := range []string{oracletypes.StoreKey, avstypes.StoreKey} {
		it := c.Ctx.KVStore(c.App.GetKey(name)).Iterator(nil, nil)
		for ; it.Valid(); it.Next() {
			out[name+"/"+hex.EncodeToString(it.Key())] = hex.EncodeToString(it.Value())
		}
		it.Close()
	}
	return out
}

// runProtoMapCase executes the case on a fresh application.
func runProtoMapCase(seed uint64, cs pmCase) (steps []pmStep, halt string) {
	cfg := DefaultCfg(seed)
	cfg.Assets = append(cfg.Assets, AssetSpec{Addr: "0xB8c77482e45F1F44dE1745F52C74426C631bDD52", Decimals: 18, Price: "300", PriceDec: 0})
	testnet := cs.Variant == "tx" || cs.Variant == "genesis-testnet"
	inGenesis := strings.HasPrefix(cs.Variant, "genesis")
	if testnet {
		cfg.ChainID = utils.TestnetChainID + "-1"
	}
	if inGenesis {
		cfg.Mutate = func(c *Chain, gs map[string]json.RawMessage) {
			var og oracletypes.GenesisState
			c.App.AppCodec().MustUnmarshalJSON(gs[oracletypes.ModuleName], &og)
			og.Params.Sources = append(og.Params.Sources, cs.Sources...)
			gs[oracletypes.ModuleName] = c.App.AppCodec().MustMarshalJSON(&og)
		}
	}
	c := NewChainFresh(cfg)
	ms := oraclekeeper.NewMsgServerImpl(c.App.OracleKeeper)
	govAuthority := authtypes.NewModuleAddress(govtypes.ModuleName).String()
	// an oracle MsgUpdateParams: signed tx where the chain id admits it, else the gov-authority execution
	update := func(p oracletypes.Params) string {
		if testnet {
			bz, err := signedTx(c, c.Funded, 3000000, &oracletypes.MsgUpdateParams{Authority: c.Funded.Acc.String(), Params: p})
			if err != nil {
				return "build-err"
			}
			r, h := c.DeliverRaw(bz)
			if h != "" {
				halt = h
				return "halt"
			}
			if os.Getenv("DET_DEBUG") != "" && r.Code != 0 {
				fmt.Fprintln(os.Stderr, "DEBUG update-params tx:", r.Code, r.Codespace, tailStr(r.Log, 400))
			}
			return fmt.Sprintf("code=%d/%s", r.Code, r.Codespace)
		}
		return shortErr(c.CachedDo(func(ctx sdk.Context) error {
			_, err := ms.UpdateParams(sdk.WrapSDKContext(ctx), &oracletypes.MsgUpdateParams{Authority: govAuthority, Params: p})
			return err
		}))
	}
	commit := func(name, result string) bool {
		r := c.EndAndBegin(5 * time.Second)
		if r.Halt != "" {
			halt = r.Halt
			return false
		}
		steps = append(steps, pmStep{Name: name, Result: result, App: hex.EncodeToString(r.AppHash), KV: pmDumpStores(c)})
		return halt == ""
	}
	if !commit("boot", "ok") {
		return
	}
	// an AVS supporting both staking assets (AVSInfo carries a proto map keyed by asset id)
	_, err := setupAVSFixture(c, seed, 0, nil)
	if !commit("avs.register assets=2", shortErr(err)) {
		return
	}
	if !inGenesis {
		res := update(oracletypes.Params{Sources: cs.Sources})
		if !commit("oracle.update-params add-sources "+pmDescribeSources(cs.Sources), res) {
			return
		}
	}
	for i, f := range cs.Follow {
		res := "ok"
		switch f {
		case "maxsize":
			res = update(oracletypes.Params{MaxSizePrices: c.App.OracleKeeper.GetParams(c.Ctx).MaxSizePrices + 1})
		case "chain":
			res = update(oracletypes.Params{Chains: []*oracletypes.Chain{{Name: fmt.Sprintf("chain%d", i), Desc: "-"}}})
		case "token":
			// what the assets precompile's token registration does to the oracle params
			addr := common.BytesToAddress(detBytes(seed, "pmtoken", i))
			_, id := assetstypes.GetStakerIDAndAssetIDFromStr(c.LzID, "", addr.String())
			oi := oracletypes.OracleInfo{AssetID: id}
			oi.Chain.Name = "Ethereum"
			oi.Token.Name = fmt.Sprintf("PM%d", i)
			oi.Token.Decimal = "6"
			oi.Token.Contract = addr.String()
			oi.Feeder.Interval = "10"
			res = shortErr(c.CachedDo(func(ctx sdk.Context) error { return c.App.OracleKeeper.RegisterNewTokenAndSetTokenFeeder(ctx, &oi) }))
		}
		if halt != "" || !commit("follow."+f, res) {
			return
		}
	}
	return
}

// ---- locating an encoding-order difference in two wire encodings of equal messages

type pmField struct {
	num  uint64
	wt   uint64
	body []byte // payload of a length-delimited field, else the raw field bytes
}

func pmParseFields(b []byte) ([]pmField, bool) {
	var out []pmField
	for len(b) > 0 {
		tag, n := proto.DecodeVarint(b)
		if n == 0 {
			return nil, false
		}
		b = b[n:]
		f := pmField{num: tag >> 3, wt: tag & 7}
		switch f.wt {
		case 0:
			_, n := proto.DecodeVarint(b)
			if n == 0 {
				return nil, false
			}
			f.body, b = b[:n], b[n:]
		case 1:
			if len(b) < 8 {
				return nil, false
			}
			f.body, b = b[:8], b[8:]
		case 5:
			if len(b) < 4 {
				return nil, false
			}
			f.body, b = b[:4], b[4:]
		case 2:
			l, n := proto.DecodeVarint(b)
			if n == 0 || uint64(len(b)-n) < l {
				return nil, false
			}
			f.body, b = b[n:n+int(l)], b[n+int(l):]
		default:
			return nil, false
		}
		out = append(out, f)
	}
	return out, true
}

// pmOrderDiffPath returns the field-number path ("3.2.1") of the innermost message in which the two
// encodings list the same fields in a different order; "" when the difference is of another kind.
func pmOrderDiffPath(a, b []byte) string {
	fa, ok1 := pmParseFields(a)
	fb, ok2 := pmParseFields(b)
	if !ok1 || !ok2 || len(fa) != len(fb) {
		return ""
	}
	for i := range fa {
		if fa[i].num == fb[i].num && fa[i].wt == fb[i].wt && bytes.Equal(fa[i].body, fb[i].body) {
			continue
		}
		if fa[i].num != fb[i].num || fa[i].wt != fb[i].wt {
			return ""
		}
		// same field at the same position with another payload: either this field is an entry of a
		// permuted repeated/map field (the same payload occurs elsewhere on the other side) …
		for j := range fb {
			if j != i && fb[j].num == fa[i].num && bytes.Equal(fb[j].body, fa[i].body) {
				return fmt.Sprint(fa[i].num)
			}
		}
		// … or the difference lies inside it
		if fa[i].wt == 2 {
			if sub := pmOrderDiffPath(fa[i].body, fb[i].body); sub != "" {
				return fmt.Sprintf("%d.%s", fa[i].num, sub)
			}
		}
		return ""
	}
	return ""
}

type pmKind struct {
	store, prefixHex string
	label            string
	mk               func() proto.Message
	fields           map[string]string // wire path of a permuted field -> message.field
}

var pmKinds = []pmKind{
	{oracletypes.StoreKey, hex.EncodeToString(oracletypes.ParamsKey), "oracle/Params", func() proto.Message { return &oracletypes.Params{} },
		map[string]string{"3.2.1": "Endpoint.Offchain", "3.2.2": "Endpoint.Onchain"}},
	{oracletypes.StoreKey, hex.EncodeToString(oracletypes.KeyPrefix(oracletypes.RecentParamsKeyPrefix)), "oracle/RecentParams", func() proto.Message { return &oracletypes.RecentParams{} },
		map[string]string{"2.3.2.1": "Endpoint.Offchain", "2.3.2.2": "Endpoint.Onchain"}},
	{avstypes.StoreKey, hex.EncodeToString(avstypes.KeyPrefixAVSInfo), "avs/AVSInfo", func() proto.Message { return &avstypes.AVSInfo{} },
		map[string]string{"18": "AVSInfo.AssetRewardAmountEpochBasis"}},
}

// pmClassify names the difference of one stored value: (sig, description).
func pmClassify(key, va, vb string) (string, string) {
	store, hexKey, _ := strings.Cut(key, "/")
	a, _ := hex.DecodeString(va)
	b, _ := hex.DecodeString(vb)
	for _, k := range pmKinds {
		if k.store != store || !strings.HasPrefix(hexKey, k.prefixHex) {
			continue
		}
		ma, mb := k.mk(), k.mk()
		if proto.Unmarshal(a, ma) != nil || proto.Unmarshal(b, mb) != nil || !reflect.DeepEqual(ma, mb) {
			break
		}
		path := pmOrderDiffPath(a, b)
		name, found := k.fields[path]
		if !found {
			name = k.label + "@" + path
		}
		sig := "proto-map-order:" + name
		if strings.HasPrefix(name, "Endpoint.") {
			sig = "F-08b:" + sig
		}
		return sig, fmt.Sprintf("the value stored under %s (%s) decodes to the same message in both executions but its bytes differ: the entries of the proto map field %s (wire path %s) are written in Go map iteration order", key, k.label, name, path)
	}
	return "nondeterminism:stored-value:" + store, fmt.Sprintf("the value stored under %s differs between two executions of the same blocks", key)
}

// pmCompare compares an execution with the reference; returns the violations of the first differing step.
type pmFinding struct{ sig, what, step string }

func pmCompare(ref, other []pmStep) []pmFinding {
	var out []pmFinding
	for i := range ref {
		if i >= len(other) {
			return append(out, pmFinding{"nondeterminism:process", fmt.Sprintf("the other execution stopped after %d of %d steps", len(other), len(ref)), ref[i].Name})
		}
		r, o := ref[i], other[i]
		explained := false
		seen := map[string]bool{}
		for _, k := range sortedKeys(r.KV) {
			if ov, ok := o.KV[k]; !ok || ov != r.KV[k] {
				sig, what := "nondeterminism:stored-keys", "key "+k+" is missing in the other execution"
				if ok {
					sig, what = pmClassify(k, r.KV[k], ov)
				}
				explained = true
				if !seen[sig] {
					seen[sig] = true
					out = append(out, pmFinding{sig, fmt.Sprintf("step %d (%s): %s; app hash %s vs %s; ref=%s other=%s", i, r.Name, what, r.App, o.App, tailStr(r.KV[k], 360), tailStr(ov, 360)), r.Name})
				}
			}
		}
		for _, k := range sortedKeys(o.KV) {
			if _, ok := r.KV[k]; !ok && !seen["nondeterminism:stored-keys"] {
				seen["nondeterminism:stored-keys"] = true
				explained = true
				out = append(out, pmFinding{"nondeterminism:stored-keys", fmt.Sprintf("step %d (%s): key %s exists in the other execution only", i, r.Name, k), r.Name})
			}
		}
		if r.Result != o.Result {
			out = append(out, pmFinding{"nondeterminism:result", fmt.Sprintf("step %d (%s): result %s vs %s", i, r.Name, r.Result, o.Result), r.Name})
			explained = true
		}
		if r.App != o.App && !explained {
			out = append(out, pmFinding{"nondeterminism:process", fmt.Sprintf("step %d (%s): app hash %s vs %s while the oracle and avs stores hold the same bytes", i, r.Name, r.App, o.App), r.Name})
		}
		if len(out) > 0 {
			return out // later steps inherit the difference
		}
	}
	return out
}

func pmWrite(path string, steps []pmStep) error {
	bz, err := json.Marshal(steps)
	if err != nil {
		return err
	}
	return os.WriteFile(path, bz, 0o644)
}

func pmRead(path string) ([]pmStep, error) {
	bz, err := os.ReadFile(path)
	if err != nil {
		return nil, err
	}
	var steps []pmStep
	return steps, json.Unmarshal(bz, &steps)
}

func domDetProtoMaps(env *Env) error {
	env.Report.Domain = "determinism_protomaps"
	seed := env.Report.Seed
	hists := env.Int("histories", 1)
	procs := env.Int("procs", 3)
	type job struct {
		idx   int
		sseed uint64
		cs    pmCase
	}
	var jobs []job
	for hi := 0; hi < hists; hi++ {
		for vi, v := range pmVariants {
			sseed := seed*1000 + uint64(hi)*10 + uint64(vi)
			jobs = append(jobs, job{len(jobs), sseed, pmGenCase(sseed, v)})
		}
	}
	if env.Str("role", "parent") == "child" {
		for _, j := range jobs {
			for run := 0; run < 2; run++ {
				steps, _ := runProtoMapCase(j.sseed, j.cs)
				if err := pmWrite(filepath.Join(env.Out, fmt.Sprintf("case%d-run%d.json", j.idx, run)), steps); err != nil {
					return err
				}
			}
		}
		return nil
	}
	// children first (in parallel with the parent's own executions)
	var wg sync.WaitGroup
	errs := make([]error, procs)
	for p := 0; p < procs; p++ {
		wg.Add(1)
		go func(p int) {
			defer wg.Done()
			out := filepath.Join(env.Out, fmt.Sprintf("pmchild-%d", p))
			cmd := exec.Command(os.Args[0], "determinism_protomaps", "out="+out, fmt.Sprintf("seed=%d", seed), fmt.Sprintf("histories=%d", hists), "role=child")
			if o, err := cmd.CombinedOutput(); err != nil {
				errs[p] = fmt.Errorf("child %d: %v: %s", p, err, tailStr(string(o), 400))
			}
		}(p)
	}
	type exec1 struct {
		who   string
		steps []pmStep
	}
	parentRuns := make([][]exec1, len(jobs))
	halts := make([]string, len(jobs))
	for _, j := range jobs {
		for run := 0; run < 2; run++ {
			steps, halt := runProtoMapCase(j.sseed, j.cs)
			if halt != "" {
				halts[j.idx] = halt
			}
			parentRuns[j.idx] = append(parentRuns[j.idx], exec1{fmt.Sprintf("parent run %d", run), steps})
		}
	}
	wg.Wait()
	for _, e := range errs {
		if e != nil {
			return e
		}
	}
	for _, j := range jobs {
		reset := fmt.Sprintf("pm.reset variant=%s seed=%d procs=%d sources=%s follow=%s", j.cs.Variant, j.sseed, procs, pmDescribeSources(j.cs.Sources), strings.Join(j.cs.Follow, ","))
		env.Op(reset, "ok")
		ref := parentRuns[j.idx][0].steps
		hist := []string{reset}
		for i, s := range ref {
			// canonical observation: the step's result and the decoded params (never the raw bytes)
			env.Op(fmt.Sprintf("pm.step %d %s", i, s.Name), s.Result)
			hist = append(hist, fmt.Sprintf("pm.step %d %s -> %s", i, s.Name, s.Result))
			env.Outcome("step." + strings.Fields(s.Name)[0] + "." + strings.SplitN(s.Result, "/", 2)[0])
		}
		if halts[j.idx] != "" {
			env.Violate("C08.halt", "halt:"+sigOfHalt(halts[j.idx]), "the proto-map sequence halted block processing: "+halts[j.idx], hist)
		}
		others := parentRuns[j.idx][1:]
		for p := 0; p < procs; p++ {
			for run := 0; run < 2; run++ {
				steps, err := pmRead(filepath.Join(env.Out, fmt.Sprintf("pmchild-%d", p), fmt.Sprintf("case%d-run%d.json", j.idx, run)))
				if err != nil {
					return err
				}
				others = append(others, exec1{fmt.Sprintf("process %d run %d", p, run), steps})
			}
		}
		reported := map[string]bool{}
		nDiff := 0
		for _, o := range others {
			env.Eval("C08.protomaps")
			fs := pmCompare(ref, o.steps)
			if len(fs) > 0 {
				nDiff++
			}
			for _, f := range fs {
				if reported[f.sig] {
					continue
				}
				reported[f.sig] = true
				h := append([]string{}, hist...)
				h = append(h, fmt.Sprintf("pm.compare %s with parent run 0 at step %q", o.who, f.step))
				env.Violate("C08.protomaps", f.sig, o.who+" vs parent run 0, "+f.what, h)
			}
		}
		env.Op("pm.compare", fmt.Sprintf("executions=%d", len(others)+1))
		env.Report.Outcomes["executions"] += len(others) + 1
		env.Report.Outcomes["executions.differing-from-reference"] += nDiff
		env.Report.Histories++
		// distinct = another variant / entry-count shape whose update was accepted
		nEnt := 0
		for _, s := range j.cs.Sources {
			nEnt += len(s.Entry.Offchain)*10 + len(s.Entry.Onchain)
		}
		accepted := false
		p := oracletypes.Params{}
		if len(ref) > 0 {
			if v, ok := ref[len(ref)-1].KV[oracletypes.StoreKey+"/"+hex.EncodeToString(oracletypes.ParamsKey)]; ok {
				bz, _ := hex.DecodeString(v)
				if proto.Unmarshal(bz, &p) == nil {
					for _, s := range p.Sources {
						if s.Name == j.cs.Sources[0].Name && s.Entry != nil && len(s.Entry.Offchain)+len(s.Entry.Onchain) >= 2 {
							accepted = true
						}
					}
				}
			}
		}
		if accepted {
			env.Outcome("source-with-2+-endpoints.stored." + j.cs.Variant)
			env.DistinctKey(fmt.Sprintf("pm-%s-%d-%d", j.cs.Variant, nEnt, len(j.cs.Sources)))
		} else {
			env.Outcome("source-with-2+-endpoints.not-stored." + j.cs.Variant)
		}
		if j.idx == 0 {
			env.Sample(reset)
		}
	}
	return nil
}
