package main

// C10 — privileged entry points act only for their rightful caller.  Enumerates the
// entry-point × identity product COMPLETELY on the real app (payloads sampled per seed):
//   * gateway-gated precompile methods (assets, delegation) called through the EVM keeper from the
//     gateway, another EOA, an operator, an AVS-registered address, and as a signed MsgEthereumTx,
//   * AVS precompile management / operator opt-in / BLS registration from owner, non-owner, foreign caller,
//   * operator messages and price submissions as cosmos txs through CheckTx+DeliverTx with valid,
//     forged (other key), corrupted and mismatching-pubkey signatures,
//   * UpdateParams of exomint / feedistribution / dogfood / assets on a mainnet chain id and on
//     "exocoretestnet_233-1".
// Observation = accept/reject (+ every custom store byte-identical on reject); the Lean decision
// functions of Model/Auth.lean must reproduce every line.

import (
	"bytes"
	"fmt"
	"math/big"
	"strings"
	"time"

	sdkmath "cosmossdk.io/math"
	cryptotypes "github.com/cosmos/cosmos-sdk/crypto/types"
	sdk "github.com/cosmos/cosmos-sdk/types"
	txtypes "github.com/cosmos/cosmos-sdk/types/tx"
	authtypes "github.com/cosmos/cosmos-sdk/x/auth/types"
	govtypes "github.com/cosmos/cosmos-sdk/x/gov/types"
	stakingtypes "github.com/cosmos/cosmos-sdk/x/staking/types"
	"github.com/ethereum/go-ethereum/common"
	"github.com/ethereum/go-ethereum/crypto"
	"github.com/prysmaticlabs/prysm/v4/crypto/bls/blst"

	"github.com/ExocoreNetwork/exocore/utils"
	assetstypes "github.com/ExocoreNetwork/exocore/x/assets/types"
	avstypes "github.com/ExocoreNetwork/exocore/x/avs/types"
	dogfoodtypes "github.com/ExocoreNetwork/exocore/x/dogfood/types"
	exominttypes "github.com/ExocoreNetwork/exocore/x/exomint/types"
	distrtypes "github.com/ExocoreNetwork/exocore/x/feedistribution/types"
	operatortypes "github.com/ExocoreNetwork/exocore/x/operator/types"
	oracletypes "github.com/ExocoreNetwork/exocore/x/oracle/types"
)

func init() { register("auth", domAuth) }

type authH struct {
	env     *Env
	c       *Chain
	abis    xbABIs
	hist    []string
	lastErr string
	seen    map[string]bool
	rng     *RNG
	mainnet bool
	focus   func(all []string) []string // set by a group whose failing histories need its own selection of steps (dom_auth_ownerlists.go)
}

func b01(b bool) string {
	if b {
		return "1"
	}
	return "0"
}

func (h *authH) ctxFix() { h.c.Ctx = h.c.Ctx.WithLogger(capLogger{last: &h.lastErr}) }

// line records one (entry, identity) evaluation.
type authFacts struct {
	entry                    string
	g, a, o, p, v, eq, au, x bool
	sig                      string
	name, ident              string
	actsForOther             bool // an accepted request changes state for somebody who is neither caller nor signer
	forged                   bool
	nonOwner                 bool // arg0 is not a stored owner of the caller-AVS
	wrongCaller              bool // accepted although the caller is not the rightful one (gateway / governance authority)
}

func (h *authH) line(f authFacts, accepted bool, before Snapshot, allowBank []string) {
	env := h.env
	op := fmt.Sprintf("auth %s %s %s %s %s %s %s %s %s %s %s", f.entry, b01(f.g), b01(f.a), b01(f.o), b01(f.p), b01(f.v), f.sig, b01(f.eq), b01(h.mainnet), b01(f.au), b01(f.x))
	obs := "reject"
	if accepted {
		obs = "accept"
	}
	env.Op(op, obs)
	desc := fmt.Sprintf("%s as %s (mainnet=%v) => %s", f.name, f.ident, h.mainnet, obs)
	h.hist = append(h.hist, desc)
	env.Outcome(f.name + "|" + f.ident + ":" + obs)
	env.DistinctKey(f.name + "|" + f.ident + "|" + b01(h.mainnet))
	env.Eval("C10.reject-changes-nothing")
	if !accepted && before != nil {
		after := xbSnapshot(h.c, h.c.Ctx, true)
		for _, a := range allowBank {
			for _, s := range []Snapshot{before, after} {
				for k := range s["bank"] {
					if strings.Contains(k, a) {
						delete(s["bank"], k)
					}
				}
			}
		}
		// the oracle's per-validator nonce is consumed by the ante handler before the message runs
		if st, det := xbDiff(before, after); len(st) > 0 {
			h.violate("C10.reject-changes-nothing", "reject-dirty:"+f.name+":"+f.ident, fmt.Sprintf("%s rejected but changed %v: %s", desc, st, det))
		}
	}
	env.Eval("C10.acts-only-for-caller")
	if accepted && f.actsForOther {
		h.violate("C10.acts-only-for-caller", "acts-for-argument:"+f.name, desc+": state changed on behalf of an address that is neither the caller nor the signer")
	}
	if accepted && f.nonOwner {
		h.violate("C10.acts-only-for-caller", "non-owner-admitted:"+f.name, desc+": AVS management admitted for an address that is not a stored owner of the AVS")
	}
	if accepted && f.wrongCaller {
		h.violate("C10.acts-only-for-caller", "wrong-caller-admitted:"+f.name, desc+": admitted although the caller is not the rightful one")
	}
	if accepted && f.forged {
		h.violate("C10.acts-only-for-caller", "forged-signature-admitted:"+f.name, desc+": a transaction whose signature does not verify was admitted")
	}
}

func (h *authH) violate(mon, sig, what string) {
	if h.seen[sig] {
		h.env.Note("repeat:" + sig)
		return
	}
	h.seen[sig] = true
	hh := h.hist
	if h.focus != nil {
		hh = h.focus(hh)
	} else if len(hh) > 40 { // the boot line and the first set-up line, then the most recent steps
		hh = append(append([]string{}, hh[:2]...), hh[len(hh)-38:]...)
	}
	h.env.Violate(mon, sig, what, hh)
}

func (h *authH) evmAccept(from, to common.Address, a abiT, method string, args ...interface{}) (bool, Snapshot) {
	data, err := a.Pack(method, args...)
	if err != nil {
		panic(fmt.Sprintf("pack %s: %v", method, err))
	}
	m := a.Methods[method]
	before := xbSnapshot(h.c, h.c.Ctx, true)
	h.lastErr = ""
	r := xbEvmCall(h.c, from, to, data, &m)
	return r.Class() == "ok", before
}

func (h *authH) boot(seed uint64, chainID string) {
	cfg := DefaultCfg(seed)
	cfg.ChainID = chainID
	cfg.Assets = append(cfg.Assets, AssetSpec{Addr: nstAddrHex, Decimals: 18, Price: "1", PriceDec: 0})
	xbResetOracleMem()
	h.c = NewChain(cfg)
	h.c.EndAndBegin(time.Second)
	h.ctxFix()
	h.abis = xbLoadABIs(h.c)
	// "mainnet chain IDs" = every revision of exocore_233 (decided here, not by utils.IsMainnet, which is under test)
	h.mainnet = strings.HasPrefix(chainID, "exocore_233-")
	// fund every account that will sign a cosmos/eth tx and commit, so that CheckTx (which reads the
	// last committed state) knows them
	for _, t := range []string{"eoa", "avsowner", "avsE", "stranger", "attacker", "paramchanger", "avsT"} {
		h.fund(NewActor(seed, t, 0))
	}
	for i := 0; i < 4; i++ {
		h.fund(NewActor(seed, "victimop", i))
	}
	for _, o := range h.c.Operators { // the genesis operators sign task results
		h.fund(o)
	}
	h.c.EndAndBegin(time.Second)
	h.ctxFix()
	h.hist = []string{fmt.Sprintf("boot seed=%d chain=%s", seed, chainID)}
	h.env.Op("auth.reset", "ok")
}

func (h *authH) fund(a Actor) {
	if err := xbFund(h.c, a.Acc, 50); err != nil {
		panic(err)
	}
}

// ---- group G: gateway-gated precompile methods
func (h *authH) gatewayGroup() {
	c := h.c
	seed := c.Cfg.Seed
	staker := NewActor(seed, "staker", 0)
	eoa := NewActor(seed, "eoa", 0)
	avsOwner := NewActor(seed, "avsowner", 0)
	h.fund(eoa)
	h.fund(avsOwner)
	st := pad32(staker.Eth.Bytes())
	usdt := pad32(hexToBytes(c.Cfg.Assets[0].Addr))
	opB := []byte(c.Operators[0].Acc.String())
	lz := uint32(c.LzID)
	amt := func() *big.Int { return big.NewInt(int64(1_000_000 + h.rng.Intn(9_000_000))) }
	// make the stateful payloads satisfiable for the rightful caller
	if ok, _ := h.evmAccept(c.Funded.Eth, xbAssetsAddr, h.abis.assets, "depositLST", lz, usdt, st, big.NewInt(500_000_000)); !ok {
		h.env.Note("gateway-setup-refused:depositLST") // not a reason to stop: the product below shows who IS admitted
		h.setupByKeeper("depositLST", staker)          // dom_auth_setup.go
	}
	if ok, _ := h.evmAccept(c.Funded.Eth, xbAssetsAddr, h.abis.assets, "depositNST", lz, []byte("vpk-0"), st, new(big.Int).Mul(big.NewInt(64), big.NewInt(1e18))); !ok {
		h.env.Note("gateway-setup-refused:depositNST")
		h.setupByKeeper("depositNST", staker)
	}
	if ok, _ := h.evmAccept(c.Funded.Eth, xbDelegAddr, h.abis.deleg, "delegate", lz, uint64(1), usdt, st, opB, big.NewInt(100_000_000)); !ok {
		h.env.Note("gateway-setup-refused:delegate")
		h.setupByKeeper("delegate", staker)
	}
	type ident struct {
		name string
		addr common.Address
	}
	idents := []ident{{"gateway", c.Funded.Eth}, {"eoa", eoa.Eth}, {"operator", c.Operators[0].Eth}, {"avsOwner", avsOwner.Eth},
		{"staker", staker.Eth}, {"precompileSelf", xbAssetsAddr}, {"zero", common.Address{}}}
	n := uint64(100)
	tokenN := 0
	methods := []struct {
		name string
		to   common.Address
		a    abiT
		m    string
		args func() []interface{}
	}{
		{"assets.depositLST", xbAssetsAddr, h.abis.assets, "depositLST", func() []interface{} { return []interface{}{lz, usdt, st, amt()} }},
		{"assets.withdrawLST", xbAssetsAddr, h.abis.assets, "withdrawLST", func() []interface{} { return []interface{}{lz, usdt, st, big.NewInt(1000)} }},
		{"assets.depositNST", xbAssetsAddr, h.abis.assets, "depositNST", func() []interface{} {
			return []interface{}{lz, []byte("vpk-1"), st, new(big.Int).Mul(big.NewInt(32), big.NewInt(1e18))}
		}},
		{"assets.withdrawNST", xbAssetsAddr, h.abis.assets, "withdrawNST", func() []interface{} { return []interface{}{lz, []byte("vpk-0"), st, big.NewInt(1e18)} }},
		{"assets.registerOrUpdateClientChain", xbAssetsAddr, h.abis.assets, "registerOrUpdateClientChain", func() []interface{} {
			return []interface{}{uint32(300), uint8(20), "chainZ", "meta", "sig"}
		}},
		{"assets.registerToken", xbAssetsAddr, h.abis.assets, "registerToken", func() []interface{} {
			tokenN++
			return []interface{}{lz, pad32(NewActor(seed, "newtoken", tokenN).Eth.Bytes()), uint8(8), "NTK", "meta", fmt.Sprintf("NTK%d,chainN,8", tokenN)}
		}},
		{"assets.updateToken", xbAssetsAddr, h.abis.assets, "updateToken", func() []interface{} { return []interface{}{lz, usdt, "meta2"} }},
		{"delegation.delegate", xbDelegAddr, h.abis.deleg, "delegate", func() []interface{} { n++; return []interface{}{lz, n, usdt, st, opB, big.NewInt(1000)} }},
		{"delegation.undelegate", xbDelegAddr, h.abis.deleg, "undelegate", func() []interface{} { n++; return []interface{}{lz, n, usdt, st, opB, big.NewInt(1000)} }},
		{"delegation.associateOperatorWithStaker", xbDelegAddr, h.abis.deleg, "associateOperatorWithStaker", func() []interface{} { return []interface{}{lz, st, opB} }},
		{"delegation.dissociateOperatorFromStaker", xbDelegAddr, h.abis.deleg, "dissociateOperatorFromStaker", func() []interface{} { return []interface{}{lz, st} }},
	}
	for _, m := range methods {
		// wrong callers first (so that the rightful call, which changes state, comes last)
		for i := len(idents) - 1; i >= 0; i-- {
			id := idents[i]
			ok, before := h.evmAccept(id.addr, m.to, m.a, m.m, m.args()...)
			h.line(authFacts{entry: "gateway", g: id.addr == c.Funded.Eth, sig: "valid", eq: true, name: m.name, ident: id.name, wrongCaller: id.addr != c.Funded.Eth}, ok, before, nil)
		}
	}
	// the same through a signed MsgEthereumTx (CheckTx + DeliverTx): the signer is the caller
	for _, who := range []struct {
		name string
		act  Actor
	}{{"eoa-signedEthTx", eoa}, {"gateway-signedEthTx", c.Funded}} {
		data, _ := h.abis.assets.Pack("depositLST", lz, usdt, st, amt())
		bz, err := xbEthTx(c, who.act.Priv, who.act.Eth, xbAssetsAddr, data, 600000)
		if err != nil {
			panic(err)
		}
		before := xbSnapshot(c, c.Ctx, true)
		tot0, _ := c.App.AssetsKeeper.GetStakingAssetInfo(c.Ctx, c.AssetIDs[0])
		r := xbDeliver(c, bz, true)
		tot1, _ := c.App.AssetsKeeper.GetStakingAssetInfo(c.Ctx, c.AssetIDs[0])
		accepted := r.Accepted() && !tot0.StakingTotalAmount.Equal(tot1.StakingTotalAmount)
		feeColl := authtypes.NewModuleAddress(authtypes.FeeCollectorName)
		h.line(authFacts{entry: "gateway", g: who.act.Eth == c.Funded.Eth, sig: "valid", eq: true, name: "assets.depositLST", ident: who.name, wrongCaller: who.act.Eth != c.Funded.Eth}, accepted, before,
			[]string{fmt.Sprintf("%x", who.act.Acc.Bytes()), fmt.Sprintf("%x", feeColl.Bytes())})
	}
}

type abiT = xbABI

// ---- group A/O: AVS precompile
func (h *authH) avsGroup() {
	c := h.c
	seed := c.Cfg.Seed
	avsE := NewActor(seed, "avsE", 0)       // an EOA that registers itself as an AVS (caller = AVS address)
	owner := NewActor(seed, "avsOwnerX", 0) // listed owner of AVS avsE
	stranger := NewActor(seed, "stranger", 0)
	h.fund(avsE)
	h.fund(stranger)
	op0 := c.Operators[0]
	regArgs := func(caller common.Address, owners []string, name string) []interface{} {
		return []interface{}{caller, name, uint64(1), NewActor(seed, "task"+name, 0).Eth, NewActor(seed, "slash", 0).Eth, NewActor(seed, "reward", 0).Eth,
			owners, []string{c.AssetIDs[0]}, uint64(2), uint64(0), "day", []uint64{1, 1, 5, 5}}
	}
	isAVS := func(a common.Address) bool { ok, _ := c.App.AVSManagerKeeper.IsAVS(c.Ctx, a.String()); return ok }
	// registerAVS: arg0 must be in the owner list *argument*; any caller
	ok, before := h.evmAccept(avsE.Eth, xbAvsAddr, h.abis.avs, "registerAVS", regArgs(stranger.Eth, []string{owner.Acc.String()}, "avsE")...)
	h.line(authFacts{entry: "registerAVS", a: isAVS(avsE.Eth) && !ok, x: false, sig: "valid", name: "avs.registerAVS", ident: "caller-not-in-owner-argument"}, ok, before, nil)
	pre := isAVS(avsE.Eth)
	ok, before = h.evmAccept(avsE.Eth, xbAvsAddr, h.abis.avs, "registerAVS", regArgs(owner.Eth, []string{owner.Acc.String()}, "avsE")...)
	h.line(authFacts{entry: "registerAVS", a: pre, x: true, sig: "valid", name: "avs.registerAVS", ident: "anyCaller-listing-arg0"}, ok, before, nil)
	pre = isAVS(avsE.Eth)
	ok, before = h.evmAccept(avsE.Eth, xbAvsAddr, h.abis.avs, "registerAVS", regArgs(owner.Eth, []string{owner.Acc.String()}, "avsE")...)
	h.line(authFacts{entry: "registerAVS", a: pre, x: true, sig: "valid", name: "avs.registerAVS", ident: "already-registered"}, ok, before, nil)
	// updateAVS: caller must be the AVS, arg0 an owner STORED for it — whatever owner list the payload carries
	// (a non-owner naming itself in the new owner list must not be able to take the AVS over)
	storedOwner := func(avs, who common.Address) bool {
		info, err := c.App.AVSManagerKeeper.GetAVSInfo(c.Ctx, avs.String())
		if err != nil || info == nil || info.Info == nil {
			return false
		}
		for _, o := range info.Info.AvsOwnerAddress {
			if o == sdk.AccAddress(who.Bytes()).String() {
				return true
			}
		}
		return false
	}
	for _, t := range []struct {
		ident  string
		from   common.Address
		arg0   common.Address
		owners []string // owner list in the payload
	}{
		{"foreignCaller-ownerArg", stranger.Eth, owner.Eth, []string{owner.Acc.String()}},
		{"avsContract-nonOwnerArg", avsE.Eth, stranger.Eth, []string{owner.Acc.String()}},
		{"avsContract-nonOwnerArg-listsItselfInPayload", avsE.Eth, stranger.Eth, []string{stranger.Acc.String()}},
		{"avsContract-nonOwnerArg-listsItselfAndOwner", avsE.Eth, stranger.Eth, []string{owner.Acc.String(), stranger.Acc.String()}},
		{"avsContract-ownerArg", avsE.Eth, owner.Eth, []string{owner.Acc.String()}},
	} {
		own := storedOwner(t.from, t.arg0)
		ok, before = h.evmAccept(t.from, xbAvsAddr, h.abis.avs, "updateAVS", regArgs(t.arg0, t.owners, "avsE")...)
		h.line(authFacts{entry: "manageAVS", a: isAVS(t.from), o: own, sig: "valid", name: "avs.updateAVS", ident: t.ident, nonOwner: !own}, ok, before, nil)
	}
	// operator opt-in / opt-out for the address given as ARGUMENT
	for _, t := range []struct {
		ident string
		from  common.Address
		arg0  common.Address
		isOp  bool
	}{
		{"nonAVS-caller", stranger.Eth, op0.Eth, true},
		{"avsCaller-nonOperatorArg", avsE.Eth, stranger.Eth, false},
		{"avsCaller-foreignOperatorArg", avsE.Eth, op0.Eth, true},
	} {
		pre := isAVS(t.from)
		ok, before = h.evmAccept(t.from, xbAvsAddr, h.abis.avs, "registerOperatorToAVS", t.arg0)
		h.line(authFacts{entry: "avsOpt", a: pre, p: t.isOp, sig: "valid", name: "avs.registerOperatorToAVS", ident: t.ident, actsForOther: t.arg0 != t.from}, ok, before, nil)
	}
	for _, t := range []struct {
		ident string
		from  common.Address
		arg0  common.Address
		isOp  bool
	}{
		{"nonAVS-caller", stranger.Eth, op0.Eth, true},
		{"avsCaller-foreignOperatorArg", avsE.Eth, op0.Eth, true},
	} {
		pre := isAVS(t.from)
		ok, before = h.evmAccept(t.from, xbAvsAddr, h.abis.avs, "deregisterOperatorFromAVS", t.arg0)
		h.line(authFacts{entry: "avsOpt", a: pre, p: t.isOp, sig: "valid", name: "avs.deregisterOperatorFromAVS", ident: t.ident, actsForOther: t.arg0 != t.from}, ok, before, nil)
	}
	// BLS key registration for the address given as argument, by a stranger holding his own BLS key
	sk, err := blst.RandKey()
	if err != nil {
		panic(err)
	}
	msg := [32]byte{1, 2, 3}
	sig := sk.Sign(msg[:])
	bad := sk.Sign([]byte("another message, 32 bytes long.."))
	hasKey := func() bool { return c.App.AVSManagerKeeper.IsExistPubKey(c.Ctx, op0.Acc.String()) }
	pre = hasKey()
	ok, before = h.evmAccept(stranger.Eth, xbAvsAddr, h.abis.avs, "registerBLSPublicKey", op0.Eth, "op0", sk.PublicKey().Marshal(), bad.Marshal(), msg[:])
	h.line(authFacts{entry: "registerBLS", o: pre, x: false, sig: "valid", name: "avs.registerBLSPublicKey", ident: "stranger-badProof"}, ok, before, nil)
	pre = hasKey()
	ok, before = h.evmAccept(stranger.Eth, xbAvsAddr, h.abis.avs, "registerBLSPublicKey", op0.Eth, "op0", sk.PublicKey().Marshal(), sig.Marshal(), msg[:])
	h.line(authFacts{entry: "registerBLS", o: pre, x: true, sig: "valid", name: "avs.registerBLSPublicKey", ident: "stranger-forOperatorArg", actsForOther: true}, ok, before, nil)
	pre = hasKey()
	ok, before = h.evmAccept(op0.Eth, xbAvsAddr, h.abis.avs, "registerBLSPublicKey", op0.Eth, "op0", sk.PublicKey().Marshal(), sig.Marshal(), msg[:])
	h.line(authFacts{entry: "registerBLS", o: pre, x: true, sig: "valid", name: "avs.registerBLSPublicKey", ident: "operator-himself-afterwards"}, ok, before, nil)
	// deregisterAVS (x/avs/keeper: UpdateAVSInfo, DeRegisterAction): the AVS is the caller, arg0 must be a stored owner
	for _, t := range []struct {
		ident string
		from  common.Address
		arg0  common.Address
	}{
		{"foreignCaller-ownerArg", stranger.Eth, owner.Eth},
		{"avsContract-nonOwnerArg", avsE.Eth, stranger.Eth},
		{"avsContract-ownerArg", avsE.Eth, owner.Eth},
	} {
		own := storedOwner(t.from, t.arg0)
		pre := isAVS(t.from)
		ok, before = h.evmAccept(t.from, xbAvsAddr, h.abis.avs, "deregisterAVS", t.arg0, "avsE")
		h.line(authFacts{entry: "manageAVS", a: pre, o: own, sig: "valid", name: "avs.deregisterAVS", ident: t.ident, nonOwner: !own}, ok, before, nil)
	}
}

// ---- group M: cosmos messages with valid / forged signatures
func (h *authH) sdkMsgGroup() {
	c := h.c
	seed := c.Cfg.Seed
	txCfg := c.App.GetTxConfig()
	fee := sdk.NewCoins(sdk.NewCoin(utils.BaseDenom, sdkmath.NewIntWithDecimal(1, 16)))
	feeColl := fmt.Sprintf("%x", authtypes.NewModuleAddress(authtypes.FeeCollectorName).Bytes())
	attacker := NewActor(seed, "attacker", 0)
	h.fund(attacker)
	mk := func(i int) (Actor, sdk.Msg) {
		v := NewActor(seed, "victimop", i)
		h.fund(v)
		return v, &operatortypes.RegisterOperatorReq{FromAddress: v.Acc.String(), Info: &operatortypes.OperatorInfo{EarningsAddr: v.Acc.String(), ApproveAddr: v.Acc.String(), OperatorMetaInfo: "victim",
			Commission: stakingtypes.NewCommission(sdk.ZeroDec(), sdk.ZeroDec(), sdk.ZeroDec())}}
	}
	cases := []struct {
		ident   string
		sigKind string
		eq      bool
		build   func(v Actor, m sdk.Msg) ([]byte, error)
	}{
		{"forgedSig-otherKeySigns", "forged", true, func(v Actor, m sdk.Msg) ([]byte, error) {
			acc := c.App.AccountKeeper.GetAccount(c.Ctx, v.Acc)
			return xbSignCosmos(c, txCfg, []sdk.Msg{m}, v.Priv.PubKey(), attacker.Priv, acc.GetAccountNumber(), acc.GetSequence(), 400000, fee, false)
		}},
		{"forgedSig-corrupted", "forged", true, func(v Actor, m sdk.Msg) ([]byte, error) {
			acc := c.App.AccountKeeper.GetAccount(c.Ctx, v.Acc)
			return xbSignCosmos(c, txCfg, []sdk.Msg{m}, v.Priv.PubKey(), v.Priv, acc.GetAccountNumber(), acc.GetSequence(), 400000, fee, true)
		}},
		{"noPubKey-attackerKeyClaimed", "nopub", true, func(v Actor, m sdk.Msg) ([]byte, error) {
			acc := c.App.AccountKeeper.GetAccount(c.Ctx, v.Acc)
			return xbSignCosmos(c, txCfg, []sdk.Msg{m}, attacker.Priv.PubKey(), attacker.Priv, acc.GetAccountNumber(), acc.GetSequence(), 400000, fee, false)
		}},
		{"validSig-signer", "valid", true, func(v Actor, m sdk.Msg) ([]byte, error) {
			acc := c.App.AccountKeeper.GetAccount(c.Ctx, v.Acc)
			return xbSignCosmos(c, txCfg, []sdk.Msg{m}, v.Priv.PubKey(), v.Priv, acc.GetAccountNumber(), acc.GetSequence(), 400000, fee, false)
		}},
	}
	for i, cs := range cases {
		v, m := mk(i)
		bz, err := cs.build(v, m)
		if err != nil {
			h.env.Note("sdkmsg-build-error:" + cs.ident)
			continue
		}
		before := xbSnapshot(c, c.Ctx, true)
		r := xbDeliver(c, bz, true)
		accepted := r.Accepted() && c.App.OperatorKeeper.IsOperator(c.Ctx, v.Acc)
		if h.env.Str("debug", "") != "" {
			fmt.Printf("SDKMSG %s: %+v\n", cs.ident, r)
		}
		h.line(authFacts{entry: "sdkMsg", sig: cs.sigKind, eq: cs.eq, name: "operator.RegisterOperator", ident: cs.ident, forged: cs.sigKind != "valid"}, accepted, before,
			[]string{fmt.Sprintf("%x", v.Acc.Bytes()), feeColl})
	}
}

// ---- group P: oracle price submissions (the forged rows are the regression test of F-10a, fixed by 8ec350f:
// they must be rejected; an admitted one is the violation forged-signature-admitted:oracle.CreatePrice)
func (h *authH) oracleGroup() {
	c := h.c
	txCfg := c.App.GetTxConfig()
	// move into the proposal window of round 2 of feeder 1 (start base block 1, interval 10)
	for c.Ctx.BlockHeight() < 12 {
		c.EndAndBegin(time.Second)
		h.ctxFix()
	}
	mkMsg := func(creator sdk.AccAddress, nonce int32, feeder uint64) *oracletypes.MsgCreatePrice {
		return &oracletypes.MsgCreatePrice{Creator: creator.String(), FeederID: feeder, BasedBlock: 11, Nonce: nonce,
			Prices: []*oracletypes.PriceSource{{SourceID: 1, Prices: []*oracletypes.PriceTimeDetID{{Price: "2", Decimal: 0, Timestamp: c.Ctx.BlockTime().UTC().Format("2006-01-02 15:04:05"), DetID: "9"}}}}}
	}
	val0 := c.ConsPrivs[0]
	val1 := c.ConsPrivs[1]
	stranger, _ := NewConsKey(c.Cfg.Seed, "strangercons", 0)
	_ = stranger
	_, strangerPriv := NewConsKey(c.Cfg.Seed, "strangercons", 0)
	nonceOf := func(pk cryptotypes.PubKey, feeder uint64) (uint32, bool) {
		n, found := c.App.OracleKeeper.GetNonce(c.Ctx, sdk.ConsAddress(pk.Address()).String())
		if !found {
			return 0, false
		}
		for _, x := range n.NonceList {
			if x.FeederID == feeder {
				return x.Value, true
			}
		}
		return 0, false
	}
	cases := []struct {
		ident    string
		sigKind  string
		claimPub cryptotypes.PubKey
		signPriv cryptotypes.PrivKey
		creator  cryptotypes.PubKey
		forged   bool
		feeder   uint64
	}{
		{"nonValidator-validSig", "valid", strangerPriv.PubKey(), strangerPriv, strangerPriv.PubKey(), false, 1},
		{"validator-pubkeyOfOtherKey", "nopub", strangerPriv.PubKey(), strangerPriv, val0.PubKey(), false, 1},
		{"validator-validSig", "valid", val0.PubKey(), val0, val0.PubKey(), false, 1},
		{"validator-forgedSig-garbage", "forged", val1.PubKey(), nil, val1.PubKey(), true, 1},
		{"validator-forgedSig-otherKeySigns", "forged", val0.PubKey(), strangerPriv, val0.PubKey(), true, 2},
	}
	for _, cs := range cases {
		creator := sdk.AccAddress(cs.creator.Address())
		n0, isVal := nonceOf(cs.creator, cs.feeder)
		m := mkMsg(creator, int32(n0)+1, cs.feeder)
		bz, err := xbSignCosmos(c, txCfg, []sdk.Msg{m}, cs.claimPub, cs.signPriv, 0, 0, 200000, sdk.NewCoins(), false)
		if err != nil {
			h.env.Note("oracle-build-error:" + cs.ident + ":" + err.Error())
			continue
		}
		before := xbSnapshot(c, c.Ctx, true)
		r := xbDeliver(c, bz, true)
		n1, _ := nonceOf(cs.creator, cs.feeder)
		// admitted by the authorization layer = the ante handler let it through (the validator's nonce
		// was consumed); the message itself may still be refused for its content
		admitted := r.Panic == "" && r.CheckCode == 0 && (r.DeliverCode == 0 || n1 > n0)
		full := r.Accepted()
		h.env.Note(fmt.Sprintf("oracle:%s:check=%d deliver=%d nonce %d->%d", cs.ident, r.CheckCode, r.DeliverCode, n0, n1))
		if env := h.env; env.Str("debug", "") != "" {
			fmt.Printf("ORACLE %s: %+v isVal=%v\n", cs.ident, r, isVal)
		}
		if !admitted {
			h.line(authFacts{entry: "oraclePrice", v: isVal, sig: cs.sigKind, eq: true, name: "oracle.CreatePrice", ident: cs.ident}, false, before, nil)
		} else {
			f := authFacts{entry: "oraclePrice", v: isVal, sig: cs.sigKind, eq: true, name: "oracle.CreatePrice", ident: cs.ident, forged: cs.forged}
			if full {
				f.ident += "-executed"
			}
			h.line(f, true, nil, nil)
		}
	}
	// two price messages in one tx — creator A (signs, first message) and creator B (second message) — with a
	// single signer-info/signature for A plus one filler signature so that the signature COUNT matches the signer count
	{
		a, b := val0, val1
		nA, _ := nonceOf(a.PubKey(), 2)
		nB, isValB := nonceOf(b.PubKey(), 2)
		mA := mkMsg(sdk.AccAddress(a.PubKey().Address()), int32(nA)+1, 2)
		mB := mkMsg(sdk.AccAddress(b.PubKey().Address()), int32(nB)+1, 2)
		bz, err := xbSignCosmos(c, txCfg, []sdk.Msg{mA, mB}, a.PubKey(), a, 0, 0, 200000, sdk.NewCoins(), false)
		if err == nil {
			var raw txtypes.TxRaw
			if e := raw.Unmarshal(bz); e == nil {
				raw.Signatures = append(raw.Signatures, bytes.Repeat([]byte{0x5a}, 64))
				bz, _ = raw.Marshal()
			}
			before := xbSnapshot(c, c.Ctx, true)
			r := xbDeliver(c, bz, true)
			nB1, _ := nonceOf(b.PubKey(), 2)
			admitted := r.Panic == "" && r.CheckCode == 0 && (r.DeliverCode == 0 || nB1 > nB)
			h.env.Note(fmt.Sprintf("oracle:multiMsg-secondCreatorUnsigned:check=%d deliver=%d nonceB %d->%d log=%.80s", r.CheckCode, r.DeliverCode, nB, nB1, r.Log))
			// decision line for creator B: its key is not among the signer infos
			h.line(authFacts{entry: "oraclePrice", v: isValB, sig: "nopub", eq: true, name: "oracle.CreatePrice", ident: "multiMsg-secondCreatorUnsigned", forged: true}, admitted, before, nil)
		} else {
			h.env.Note("oracle-multi-build-error:" + err.Error())
		}
	}
}

// ---- group U: UpdateParams
func (h *authH) paramsGroup() {
	c := h.c
	seed := c.Cfg.Seed
	txCfg := c.App.GetTxConfig()
	fee := sdk.NewCoins(sdk.NewCoin(utils.BaseDenom, sdkmath.NewIntWithDecimal(1, 16)))
	feeColl := fmt.Sprintf("%x", authtypes.NewModuleAddress(authtypes.FeeCollectorName).Bytes())
	gov := authtypes.NewModuleAddress(govtypes.ModuleName)
	other := NewActor(seed, "paramchanger", 0)
	h.fund(other)
	ap, _ := c.App.AssetsKeeper.GetParams(c.Ctx)
	builders := []struct {
		name string
		mk   func(authority string) sdk.Msg
	}{
		{"exomint.UpdateParams", func(a string) sdk.Msg {
			return &exominttypes.MsgUpdateParams{Authority: a, Params: c.App.ExomintKeeper.GetParams(c.Ctx)}
		}},
		{"feedistribution.UpdateParams", func(a string) sdk.Msg {
			return &distrtypes.MsgUpdateParams{Authority: a, Params: c.App.DistrKeeper.GetParams(c.Ctx)}
		}},
		{"dogfood.UpdateParams", func(a string) sdk.Msg {
			return &dogfoodtypes.MsgUpdateParams{Authority: a, Params: c.App.StakingKeeper.GetDogfoodParams(c.Ctx)}
		}},
		{"assets.UpdateParams", func(a string) sdk.Msg { return &assetstypes.MsgUpdateParams{Authority: a, Params: *ap} }},
	}
	for _, b := range builders {
		for _, id := range []struct {
			ident     string
			authority sdk.AccAddress
			sigKind   string
			eq        bool
		}{
			{"other-claimsGovAuthority", gov, "nopub", false},
			{"other-ownAuthority", other.Acc, "valid", true},
		} {
			m := b.mk(id.authority.String())
			acc := c.App.AccountKeeper.GetAccount(c.Ctx, other.Acc)
			bz, err := xbSignCosmos(c, txCfg, []sdk.Msg{m}, other.Priv.PubKey(), other.Priv, acc.GetAccountNumber(), acc.GetSequence(), 400000, fee, false)
			if err != nil {
				h.env.Note("params-build-error:" + b.name)
				continue
			}
			before := xbSnapshot(c, c.Ctx, true)
			r := xbDeliver(c, bz, true)
			h.line(authFacts{entry: "updateParams", sig: id.sigKind, eq: id.eq, au: id.authority.Equals(gov), name: b.name, ident: id.ident, wrongCaller: h.mainnet}, r.Accepted(), before,
				[]string{fmt.Sprintf("%x", other.Acc.Bytes()), feeColl})
		}
	}
}

// ---- group T: task results (MsgSubmitTaskResult → x/avs SetTaskResultInfo), both phases × signer identities; challenge
//
// There is no precompile path for task results: the message server is the only entry point.
func (h *authH) taskLine(name, ident string, phase string, sigKind string, eq, same, isOp, payloadOk bool, accepted bool, before Snapshot, allowBank []string, wrong bool) {
	env := h.env
	op := fmt.Sprintf("auth.task %s %s %s %s %s %s", phase, sigKind, b01(eq), b01(same), b01(isOp), b01(payloadOk))
	obs := "reject"
	if accepted {
		obs = "accept"
	}
	env.Op(op, obs)
	desc := fmt.Sprintf("%s phase %s as %s (mainnet=%v) => %s", name, phase, ident, h.mainnet, obs)
	h.hist = append(h.hist, desc)
	env.Outcome(name + ".phase" + phase + "|" + ident + ":" + obs)
	env.DistinctKey(name + "|" + phase + "|" + ident + "|" + b01(h.mainnet))
	env.Eval("C10.reject-changes-nothing")
	if !accepted && before != nil {
		after := xbSnapshot(h.c, h.c.Ctx, true)
		for _, a := range allowBank {
			for _, sn := range []Snapshot{before, after} {
				for k := range sn["bank"] {
					if strings.Contains(k, a) {
						delete(sn["bank"], k)
					}
				}
			}
		}
		if st, det := xbDiff(before, after); len(st) > 0 {
			h.violate("C10.reject-changes-nothing", "reject-dirty:"+name+":"+ident, fmt.Sprintf("%s rejected but changed %v: %s", desc, st, det))
		}
	}
	env.Eval("C10.acts-only-for-caller")
	if accepted && wrong {
		h.violate("C10.acts-only-for-caller", "wrong-caller-admitted:"+name+".phase"+phase, desc+": a task result was stored for an operator that did not sign the transaction")
	}
}

func (h *authH) taskGroup() {
	c := h.c
	seed := c.Cfg.Seed
	avsT := NewActor(seed, "avsT", 0) // AVS whose task contract is its own address and whose only owner it is
	victim, otherOp := c.Operators[1], c.Operators[0]
	eoa := NewActor(seed, "eoa", 0)
	stranger := NewActor(seed, "stranger", 0)
	feeColl := fmt.Sprintf("%x", authtypes.NewModuleAddress(authtypes.FeeCollectorName).Bytes())
	step := func(d time.Duration) {
		if r := c.EndAndBegin(d); r.Halt != "" {
			h.env.Note("halt-in-taskGroup")
		}
		h.ctxFix()
	}
	must := func(what string, ok bool) bool {
		if !ok {
			h.env.Note("taskGroup-setup-failed:" + what)
		}
		return ok
	}
	ok, _ := h.evmAccept(avsT.Eth, xbAvsAddr, h.abis.avs, "registerAVS", avsT.Eth, "avsT", uint64(1), avsT.Eth,
		NewActor(seed, "slashT", 0).Eth, NewActor(seed, "rewardT", 0).Eth, []string{avsT.Acc.String()}, []string{c.AssetIDs[0]},
		uint64(2), uint64(0), "minute", []uint64{1, 1, 5, 5})
	if !must("registerAVS", ok) {
		return
	}
	for _, o := range []Actor{victim, otherOp} {
		ok, _ = h.evmAccept(avsT.Eth, xbAvsAddr, h.abis.avs, "registerOperatorToAVS", o.Eth)
		must("optIn", ok)
	}
	sk := detBLS(seed, 77)
	m32 := [32]byte{7, 7}
	ok, _ = h.evmAccept(victim.Eth, xbAvsAddr, h.abis.avs, "registerBLSPublicKey", victim.Eth, "victim", sk.PublicKey().Marshal(), sk.Sign(m32[:]).Marshal(), m32[:])
	if !must("bls", ok) {
		return
	}
	// the voting power of the new AVS is computed at the end of its (minute) epoch
	step(61 * time.Second)
	step(61 * time.Second)
	taskHash := []byte("task-hash-T")
	// createTask: the AVS is otherwise admissible now (voting power > 0, epoch known, operators opted in), so for the
	// foreign callers the refusing check is the authorization one — and nothing (no task id either) may be consumed
	vp, _ := c.App.OperatorKeeper.GetAVSUSDValue(c.Ctx, avsT.Eth.String())
	must("votingPower>0", vp.IsPositive())
	isOwnerOf := func(avs, who common.Address) bool {
		info, err := c.App.AVSManagerKeeper.GetAVSInfo(c.Ctx, avs.String())
		if err != nil || info == nil || info.Info == nil {
			return false
		}
		for _, o := range info.Info.AvsOwnerAddress {
			if o == sdk.AccAddress(who.Bytes()).String() {
				return true
			}
		}
		return false
	}
	for _, t := range []struct {
		ident string
		from  common.Address
		arg0  common.Address
	}{
		{"foreignCaller-ownerArg", stranger.Eth, avsT.Eth},
		{"taskContract-nonOwnerArg", avsT.Eth, stranger.Eth},
		{"taskContract-otherOperatorArg", avsT.Eth, otherOp.Eth},
		{"taskContract-ownerArg", avsT.Eth, avsT.Eth},
	} {
		isA, _ := c.App.AVSManagerKeeper.IsAVS(c.Ctx, t.from.String())
		own := isOwnerOf(t.from, t.arg0)
		ok, before := h.evmAccept(t.from, xbAvsAddr, h.abis.avs, "createTask", t.arg0, "taskT", taskHash, uint64(1), uint64(2), uint64(60), uint64(2))
		h.line(authFacts{entry: "manageAVS", a: isA, o: own, sig: "valid", name: "avs.createTask", ident: t.ident, nonOwner: !own}, ok, before, nil)
		if t.ident == "taskContract-ownerArg" && !must("createTask", ok) {
			return
		}
	}
	taskID := uint64(1)
	task, err := c.App.AVSManagerKeeper.GetTaskInfo(c.Ctx, "1", avsT.Eth.String())
	if !must("getTask", err == nil) {
		return
	}
	curEpoch := func() int64 {
		e, _ := c.App.EpochsKeeper.GetEpochInfo(c.Ctx, "minute")
		return e.CurrentEpoch
	}
	resp := respJSON(taskID, 100)
	digest := crypto.Keccak256Hash(resp)
	blsSig := sk.Sign(digest[:]).Marshal()
	info := func(phase string) *avstypes.TaskResultInfo {
		i := &avstypes.TaskResultInfo{TaskContractAddress: avsT.Eth.String(), OperatorAddress: victim.Acc.String(), TaskId: taskID, BlsSignature: blsSig, Stage: phase}
		if phase != avstypes.TwoPhaseCommitOne {
			i.TaskResponse = resp
		}
		return i
	}
	stored := func() string {
		r, e := c.App.AVSManagerKeeper.GetTaskResultInfo(c.Ctx, victim.Acc.String(), avsT.Eth.String(), taskID)
		if e != nil {
			return "-"
		}
		return fmt.Sprintf("%s/%x/%s", r.Stage, r.TaskResponse, r.TaskResponseHash)
	}
	submit := func(phase, ident string, signer Actor, sigKind string, payloadOk bool) {
		msg := &avstypes.SubmitTaskResultReq{FromAddress: signer.Acc.String(), Info: info(phase)}
		acc := c.App.AccountKeeper.GetAccount(c.Ctx, signer.Acc)
		if acc == nil {
			h.env.Note("taskGroup-no-account:" + ident)
			return
		}
		fee := sdk.NewCoins(sdk.NewCoin(utils.BaseDenom, sdkmath.NewIntWithDecimal(1, 16)))
		signPriv := cryptotypes.PrivKey(signer.Priv)
		if sigKind == "forged" { // FromAddress = the operator itself, but somebody else's key signs
			signPriv = stranger.Priv
		}
		bz, err := xbSignCosmos(c, c.App.GetTxConfig(), []sdk.Msg{msg}, signer.Priv.PubKey(), signPriv, acc.GetAccountNumber(), acc.GetSequence(), 600000, fee, false)
		if err != nil {
			h.env.Note("taskGroup-build-error:" + ident)
			return
		}
		before := xbSnapshot(c, c.Ctx, true)
		pre := stored()
		r := xbDeliver(c, bz, true)
		accepted := r.Accepted() && stored() != pre
		same := signer.Acc.Equals(victim.Acc)
		h.taskLine("avs.SubmitTaskResult", ident, phase, sigKind, true, same, true, payloadOk, accepted, before,
			[]string{fmt.Sprintf("%x", signer.Acc.Bytes()), feeColl}, !same || sigKind != "valid")
	}
	// the signers' funding was committed in boot(); CheckTx sees the state of the last commit, so commit the set-up
	step(time.Second)
	// ---- phase one (response window: epoch <= start + responsePeriod)
	if !must("phase1-window", curEpoch() <= int64(task.StartingEpoch)+int64(task.TaskResponsePeriod)) {
		return
	}
	submit(avstypes.TwoPhaseCommitOne, "nonOperator-namesOperator", eoa, "valid", true)
	submit(avstypes.TwoPhaseCommitOne, "otherOperator-namesOperator", otherOp, "valid", true)
	submit(avstypes.TwoPhaseCommitOne, "operatorFrom-forgedSig", victim, "forged", true)
	submit(avstypes.TwoPhaseCommitOne, "operator-itself", victim, "valid", true)
	// ---- phase two (statistical window: start + resp < epoch <= start + resp + stat): the operator's phase-one
	// signature and the response it committed to are public; a foreign signer replays them
	for curEpoch() <= int64(task.StartingEpoch)+int64(task.TaskResponsePeriod) {
		step(61 * time.Second)
	}
	if !must("phase2-window", curEpoch() <= int64(task.StartingEpoch)+int64(task.TaskResponsePeriod)+int64(task.TaskStatisticalPeriod)) {
		return
	}
	submit(avstypes.TwoPhaseCommitTwo, "nonOperator-replaysOperatorCommit", eoa, "valid", true)
	submit(avstypes.TwoPhaseCommitTwo, "otherOperator-replaysOperatorCommit", otherOp, "valid", true)
	submit(avstypes.TwoPhaseCommitTwo, "operatorFrom-forgedSig", victim, "forged", true)
	submit("3", "nonOperator-unknownStage", eoa, "valid", false)
	submit(avstypes.TwoPhaseCommitTwo, "operator-itself", victim, "valid", true)
	// ---- challenge (challenge window: start+resp+stat < epoch <= … + challengePeriod): bound to the calling task
	// contract; the property also asks for a listed owner as sender argument
	for curEpoch() <= int64(task.StartingEpoch)+int64(task.TaskResponsePeriod)+int64(task.TaskStatisticalPeriod) {
		step(61 * time.Second)
	}
	respHash := abiDigest(resp)
	chal := func(ident string, from common.Address, sender common.Address, payloadOk bool, nonOwner bool) {
		ok, before := h.evmAccept(from, xbAvsAddr, h.abis.avs, "challenge", sender, taskHash, taskID, respHash, victim.Acc.String())
		h.env.Op(fmt.Sprintf("auth.challenge %s", b01(payloadOk)), map[bool]string{true: "accept", false: "reject"}[ok])
		desc := fmt.Sprintf("avs.challenge as %s (mainnet=%v) => %v", ident, h.mainnet, ok)
		h.hist = append(h.hist, desc)
		h.env.Outcome("avs.challenge|" + ident + ":" + map[bool]string{true: "accept", false: "reject"}[ok])
		h.env.DistinctKey("avs.challenge|" + ident + "|" + b01(h.mainnet))
		h.env.Eval("C10.acts-only-for-caller")
		if !ok {
			after := xbSnapshot(c, c.Ctx, true)
			if st, det := xbDiff(before, after); len(st) > 0 {
				h.violate("C10.reject-changes-nothing", "reject-dirty:avs.challenge:"+ident, fmt.Sprintf("%s rejected but changed %v: %s", desc, st, det))
			}
		} else if nonOwner {
			h.violate("C10.acts-only-for-caller", "non-owner-admitted:avs.challenge", desc+": a challenge was recorded for a sender that is not a listed owner of the AVS")
		}
	}
	chal("foreignCaller-ownerArg", stranger.Eth, avsT.Eth, false, false) // not the task contract: no such task for that address
	chal("taskContract-nonOwnerArg", avsT.Eth, stranger.Eth, true, true)
}

func domAuth(env *Env) error {
	env.Report.Domain = "auth"
	n := env.Int("histories", 1)
	h := &authH{env: env, seen: map[string]bool{}, rng: NewRNG(env.Report.Seed*31 + 5)}
	for hi := 0; hi < n; hi++ {
		for _, chain := range []string{utils.DefaultChainID, "exocoretestnet_233-1", "exocore_233-2"} {
			h.boot(env.Report.Seed*1000+uint64(hi), chain)
			h.gatewayGroup()
			h.avsGroup()
			h.sdkMsgGroup()
			h.paramsGroup()
			h.oracleGroup()
			h.oracleMultiGroup() // dom_auth_oracle_multi.go
			h.taskGroup()
			h.ownerListGroup()       // dom_auth_ownerlists.go: owner-gated entry points on every owner list an AVS can reach through accepted updates
			h.operatorMsgGroup()     // dom_auth_opmsg.go: on whose record an admitted operator message lands
			h.discardedParamsGroup() // dom_auth_discard.go: params updates on dropped store branches, then the checks again (last: see there)
			// every registered sdk.Msg type as an outsider's signed tx, on a chain of its own (dom_auth_allmsgs.go)
			h.boot(env.Report.Seed*1000+uint64(hi), chain)
			h.allMsgsGroup()
			env.Report.Histories++
			if hi == 0 {
				env.Sample(strings.Join(h.hist[:min(len(h.hist), 12)], " ; "))
			}
		}
	}
	return nil
}
