package main

// C20 — directed scenario for the finding candidate F-20d (Lean: C20_hist_closed_window_stays_closed_fails,
// Props/C20Hist.lean): "phase one only until the response period ends", read over a history.
//
// x/avs/keeper/keeper.go UpdateAVSInfo, UpdateAction: `if params.EpochIdentifier != "" { avs.EpochIdentifier =
// params.EpochIdentifier }` lets an AVS replace its epoch identifier while tasks are in flight. A task's
// StartingEpoch is a number of the OLD identifier's clock; SetTaskResultInfo / RaiseAndResolveChallenge /
// GetTaskStatisticalEpochEndAVSs compare it with the current number of whatever identifier the AVS has NOW.
// Minute -> hour: the response window of a task that was over (phase one refused as too late) is open again.
//
// The scenario drives the real keepers through the avs domain's operations (same op-line vocabulary, so the Lean
// model driver `Avs` replays it line by line) and evaluates its own monitor `C20.window-over-time`.

import (
	"fmt"
	"strconv"
	"time"

	epochstypes "github.com/ExocoreNetwork/exocore/x/epochs/types"
)

func init() { register("avsepochswitch", domAvsEpochSwitch) }

func domAvsEpochSwitch(env *Env) error {
	rng := NewRNG(env.Report.Seed)
	env.Report.Domain = "avsepochswitch"
	h := &avsH{}
	h.start(env, env.Report.Seed*1000+950, 2, rng)
	h.directed = "F-20d"
	avs, ta, o := h.avsPool[0], h.taskPool[0], h.opAddrs[0]
	h.doUpdate(avsUpd{action: 1, addr: avs, name: "n0", taskAddr: ta, owners: []string{h.owners[0]}, assets: []string{h.asset0},
		unbonding: 7, minSelf: 0, epochID: epochstypes.MinuteEpochID, caller: h.owners[0]})
	h.doOpt(false, 1, o, avs)
	h.doBLS(o, 0)
	h.doBlock(61 * time.Second)
	h.doTask(avsTaskP{taskAddr: ta, caller: h.owners[0], name: "t", hash: []byte("req"), resp: 1, stat: 1, chal: 1})
	id := h.taskCount[ta]
	task, err := h.c.App.AVSManagerKeeper.GetTaskInfo(h.c.Ctx, strconv.FormatUint(id, 10), ta)
	if err != nil {
		return fmt.Errorf("avsepochswitch: task not created: %v", err)
	}
	end1 := int64(task.StartingEpoch) + int64(task.TaskResponsePeriod)
	// the minute clock runs past the response period
	for i := 0; i < 4 && !h.halted; i++ {
		h.doBlock(61 * time.Second)
	}
	curMin, _ := h.curEpoch(epochstypes.MinuteEpochID)
	curHour, _ := h.curEpoch(epochstypes.HourEpochID)
	sig := h.signResp(o, respJSON(id, 100))
	before := h.doSubmit(avsSub{from: o, op: o, taskAddr: ta, id: id, stage: "1", sig: sig})
	h.env.Note("F-20d.phase1-before-switch." + before)
	// the AVS replaces its epoch identifier; nothing else changes (empty name / task address, nil owners / assets)
	upd := h.doUpdate(avsUpd{action: 3, addr: avs, epochID: epochstypes.HourEpochID, minSelf: 0, caller: h.owners[0]})
	h.env.Note("F-20d.switch-to-hour." + upd)
	after := h.doSubmit(avsSub{from: o, op: o, taskAddr: ta, id: id, stage: "1", sig: sig})
	h.env.Note("F-20d.phase1-after-switch." + after)
	h.dumpOp()
	// monitor: the response period was over (by the clock the task was created under, and the keeper said so);
	// no block has passed since; phase one must not be accepted
	h.env.Eval("C20.window-over-time")
	if curMin > end1 && before == "ErrSubmitTooLateError" && after == "ok" {
		h.violate("C20.window-over-time", "phase1-reopened-by-epoch-switch", fmt.Sprintf(
			"task %s#%d: response period ended with minute epoch %d; at minute epoch %d phase one was refused (%s); after UpdateAVSInfo(EpochIdentifier=hour, hour epoch %d) the same phase-one submission was accepted",
			ta, id, end1, curMin, before, curHour))
		h.env.Note("F-20d.reproduced")
	}
	h.directed = ""
	env.Report.Histories++
	env.DistinctKey(fmt.Sprintf("epochswitch-%s-%s-%s", before, upd, after))
	env.Outcome(fmt.Sprintf("epochswitch.%s.%s.%s", before, upd, after))
	env.Sample(fmt.Sprintf("minute=%d hour=%d end1=%d before=%s update=%s after=%s", curMin, curHour, end1, before, upd, after))
	return nil
}
