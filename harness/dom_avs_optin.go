package main

// C20 — the opt-in eligibility clause ("opting in requires a registered operator whose self-delegated
// value meets the AVS's minimum"), second file of the avs domain.
//
//   * ledger operations that change an operator's self-delegated USD value between opt-in attempts:
//     self-delegation / third-party delegation / undelegation through the assets and delegation keepers,
//     a slash through OperatorKeeper.Slash, a price change through the oracle keeper. They are
//     environment changes for the Lean model (op lines `avs.note …`, answered "ok").
//   * the property's own formula for the self-delegated USD value (the C05 formula), evaluated with
//     big.Int arithmetic from the operator's pools (x/assets OperatorAssetInfo), the asset records
//     (decimals) and the raw oracle price store — nothing of x/operator is called;
//   * `tune`: moves an operator's self value to a boundary-biased target around an AVS's minimum m:
//     m, m ± 10^-18, m − 1/2 (± 10^-18), m − 1, a random point of (m − 1/2, m), … ;
//   * `optinSweepHistory`: one AVS with a non-zero minimum (1 … 2^63−1) and an asset list over the
//     6/8/18-decimal assets; every boundary target is visited, reached alternately by delegation,
//     undelegation, slash and price change, each followed by an opt-in attempt (direct and through
//     OperatorOptAction), opt-out and re-attempt below the minimum.

import (
	"fmt"
	"math/big"

	sdkmath "cosmossdk.io/math"
	sdk "github.com/cosmos/cosmos-sdk/types"

	avstypes "github.com/ExocoreNetwork/exocore/x/avs/types"
	epochstypes "github.com/ExocoreNetwork/exocore/x/epochs/types"
	operatortypes "github.com/ExocoreNetwork/exocore/x/operator/types"
	oracletypes "github.com/ExocoreNetwork/exocore/x/oracle/types"
)

var avsHalf = new(big.Int).Div(bigPrec, big.NewInt(2))

// avsMinRaw: the AVS minimum as a raw 18-decimal value
func avsMinRaw(m uint64) *big.Int { return new(big.Int).Mul(new(big.Int).SetUint64(m), bigPrec) }

// ---------- the property's formula on the real pools and the raw price store

type avsAssetView struct {
	known  bool // the asset is registered in x/assets
	usable bool // the oracle has a positive latest price for it
	price  *big.Int
	pdec   int
	dec    int
}

func (h *avsH) assetView(assetID string) avsAssetView {
	ctx := h.c.Ctx
	v := avsAssetView{price: big.NewInt(oracletypes.DefaultPriceValue), pdec: oracletypes.DefaultPriceDecimal}
	ai, err := h.c.App.AssetsKeeper.GetStakingAssetInfo(ctx, assetID)
	if err != nil {
		return v
	}
	v.known = true
	v.dec = int(ai.AssetBasicInfo.Decimals)
	if tid := h.c.App.OracleKeeper.GetParams(ctx).GetTokenIDFromAssetID(assetID); tid > 0 {
		if tr, found := h.c.App.OracleKeeper.GetPriceTRLatest(ctx, uint64(tid)); found {
			if p, ok := new(big.Int).SetString(tr.Price, 10); ok && p.Sign() > 0 {
				v.price, v.pdec, v.usable = p, int(uint8(tr.Decimal)), true
			}
		}
	}
	return v
}

// amount × price / 10^(asset decimals + price decimals), 18 decimals, rounded toward zero
func (v avsAssetView) usd(amount *big.Int) *big.Int {
	x := new(big.Int).Mul(amount, v.price)
	x.Mul(x, bigPrec)
	return x.Quo(x, pow10(v.dec+v.pdec))
}

// smallest token amount whose value is at least `want` (raw)
func (v avsAssetView) tokensFor(want *big.Int) *big.Int {
	if want.Sign() <= 0 {
		return new(big.Int)
	}
	n := new(big.Int).Mul(want, pow10(v.dec+v.pdec))
	d := new(big.Int).Mul(v.price, bigPrec)
	q, r := new(big.Int).QuoRem(n, d, new(big.Int))
	if r.Sign() != 0 {
		q.Add(q, big.NewInt(1))
	}
	return q
}

// pool of (operator, asset): total amount and the token equivalent of the operator's own share,
// floor(operatorShare × totalAmount / totalShare)
func (h *avsH) pool(op, assetID string) (total, self *big.Int) {
	total, self = new(big.Int), new(big.Int)
	acc, ok := h.accOf[op]
	if !ok {
		return
	}
	info, err := h.c.App.AssetsKeeper.GetOperatorSpecifiedAssetInfo(h.c.Ctx, acc, assetID)
	if err != nil || info == nil {
		return
	}
	total = info.TotalAmount.BigInt()
	ts, os := info.TotalShare.BigInt(), info.OperatorShare.BigInt()
	if ts.Sign() > 0 {
		self = new(big.Int).Mul(os, total)
		self.Quo(self, ts)
	}
	return
}

// specUSD: self-delegated and total USD value of `op` over the asset list `assets` (raw, 18 decimals).
// priced = every listed asset is registered and has a usable oracle price.
func (h *avsH) specUSD(op string, assets []string) (self, total *big.Int, priced bool) {
	self, total, priced = new(big.Int), new(big.Int), true
	seen := map[string]bool{}
	for _, a := range assets {
		if seen[a] {
			continue
		}
		seen[a] = true
		v := h.assetView(a)
		if !v.known || !v.usable {
			priced = false
		}
		if !v.known {
			continue
		}
		t, s := h.pool(op, a)
		total.Add(total, v.usd(t))
		self.Add(self, v.usd(s))
	}
	return
}

// classify a self value relative to the minimum (both raw): the label of the boundary case
func avsClassify(self, min *big.Int) string {
	d := new(big.Int).Sub(self, min)
	lo := new(big.Int).Neg(avsHalf)
	switch {
	case d.Sign() == 0:
		return "eq"
	case d.Cmp(big.NewInt(1)) == 0:
		return "eq+ulp"
	case d.Sign() > 0:
		return "above"
	case d.Cmp(big.NewInt(-1)) == 0:
		return "eq-ulp"
	case d.Cmp(lo) > 0:
		return "upper-half-below" // (m − 1/2, m): rounds to m
	case d.Cmp(lo) == 0:
		return "half-below"
	case d.Cmp(new(big.Int).Sub(lo, big.NewInt(1))) == 0:
		return "half-below-ulp"
	case d.Cmp(new(big.Int).Neg(bigPrec)) >= 0:
		return "lower-half-below"
	}
	return "far-below"
}

// ---------- ledger operations (environment of the model)

func (h *avsH) note(f string, a ...interface{}) { h.op("avs.note "+fmt.Sprintf(f, a...), "ok") }

func (h *avsH) assetIdx(assetID string) int {
	for i, a := range h.c.AssetIDs {
		if a == assetID {
			return i
		}
	}
	return -1
}

// staker = the operator's own (associated) staker when self, a third party otherwise
func (h *avsH) doDelegate(oi, ai int, amt *big.Int, self bool) bool {
	st := h.c.Operators[oi]
	who := "self"
	if !self {
		st = NewActor(h.c.Cfg.Seed, "avs-staker", oi)
		who = "other"
	}
	if amt.Sign() <= 0 {
		return false
	}
	err := distrDepositDelegate(h.c, st, ai, oi, amt)
	h.note("delegate %s op=%d asset=%d amt=%s ok=%v", who, oi, ai, amt, err == nil)
	h.env.Outcome(fmt.Sprintf("ledger.delegate.%s:%v", who, err == nil))
	return err == nil
}

func (h *avsH) doUndelegate(oi, ai int, amt *big.Int, self bool) bool {
	st := h.c.Operators[oi]
	who := "self"
	if !self {
		st = NewActor(h.c.Cfg.Seed, "avs-staker", oi)
		who = "other"
	}
	if amt.Sign() <= 0 {
		return false
	}
	h.nonce++
	err := vpUndelegate(h.c, st, ai, oi, amt, h.nonce)
	h.note("undelegate %s op=%d asset=%d amt=%s ok=%v", who, oi, ai, amt, err == nil)
	h.env.Outcome(fmt.Sprintf("ledger.undelegate.%s:%v", who, err == nil))
	return err == nil
}

func (h *avsH) doPrice(ai int, price string, pd int32) bool {
	tid := uint64(ai + 1)
	err := h.c.CachedDo(func(ctx sdk.Context) error {
		next := h.c.App.OracleKeeper.GetNextRoundID(ctx, tid)
		if !h.c.App.OracleKeeper.AppendPriceTR(ctx, tid, oracletypes.PriceTimeRound{Price: price, Decimal: pd, RoundID: next}) {
			return fmt.Errorf("round mismatch")
		}
		return nil
	})
	h.note("price asset=%d price=%s dec=%d ok=%v", ai, price, pd, err == nil)
	h.env.Outcome(fmt.Sprintf("ledger.price:%v", err == nil))
	return err == nil
}

// a dogfood slash of `power` USD × proportion: every pool of the operator is cut by the same
// fraction, the shares stay, so the share→token conversion stops being 1:1
func (h *avsH) doSlash(oi int, power int64, propPct int64) bool {
	h.nSlash++
	p := &operatortypes.SlashInputInfo{IsDogFood: true, Power: power, SlashType: 1, Operator: h.c.Operators[oi].Acc, AVSAddr: h.c.AVSAddr,
		SlashContract: "", SlashID: fmt.Sprintf("avs-h-%d", h.nSlash), SlashEventHeight: h.c.Ctx.BlockHeight(),
		SlashProportion: sdkmath.LegacyNewDecWithPrec(propPct, 2)}
	err := h.c.CachedDo(func(ctx sdk.Context) error { return h.c.App.OperatorKeeper.Slash(ctx, p) })
	h.note("slash op=%d power=%d pct=%d ok=%v", oi, power, propPct, err == nil)
	h.env.Outcome(fmt.Sprintf("ledger.slash:%v", err == nil))
	return err == nil
}

func (h *avsH) genPrice(ai int) (string, int32) {
	r := h.rng
	pd := []int{0, 6, 8, 18}[r.Intn(4)]
	switch r.Intn(6) {
	case 0:
		return pow10(pd).String(), int32(pd) // exactly 1 USD
	case 1:
		return new(big.Int).Add(pow10(pd), big.NewInt(1)).String(), int32(pd)
	case 2:
		if pd > 0 {
			return new(big.Int).Sub(pow10(pd), big.NewInt(1)).String(), int32(pd)
		}
		return "3", 0
	case 3: // between 0.5 and 2 USD
		return new(big.Int).Add(new(big.Int).Div(pow10(pd), big.NewInt(2)), r.BigBelow(new(big.Int).Add(pow10(pd), big.NewInt(1)))).String(), int32(pd)
	case 4: // up to 100 000 USD
		return new(big.Int).Add(r.BigBelow(pow10(pd+5)), big.NewInt(1)).String(), int32(pd)
	}
	return fmt.Sprint(1 + r.Intn(5000)), 0
}

// one random ledger step
func (h *avsH) genLedger() {
	r := h.rng
	oi := r.Intn(len(h.opAddrs))
	ai := r.Intn(len(h.c.AssetIDs))
	dec := int(h.c.Cfg.Assets[ai].Decimals)
	switch r.Pick(4, 2, 3, 2, 2) {
	case 0:
		h.doDelegate(oi, ai, vpAmount(r, dec), true)
	case 1:
		h.doDelegate(oi, ai, vpAmount(r, dec), false)
	case 2:
		_, self := h.pool(h.opAddrs[oi], h.c.AssetIDs[ai])
		amt := vpAmount(r, dec)
		if self.Sign() > 0 && r.Chance(1, 2) {
			amt = new(big.Int).Add(r.BigBelow(self), big.NewInt(1))
		}
		h.doUndelegate(oi, ai, amt, r.Chance(4, 5))
	case 3:
		p, pd := h.genPrice(ai)
		h.doPrice(ai, p, pd)
	case 4:
		h.doSlash(oi, int64(1+r.Intn(20)), int64(1+r.Intn(60)))
	}
}

// tune moves the self-delegated value of operator `oi` over `assets` towards `target` (raw) by
// self-delegating or undelegating on one of the listed assets; returns the value reached.
func (h *avsH) tune(oi int, assets []string, target *big.Int) *big.Int {
	r := h.rng
	op := h.opAddrs[oi]
	var usable []string
	for _, a := range assets {
		if v := h.assetView(a); v.known && v.usable && h.assetIdx(a) >= 0 {
			usable = append(usable, a)
		}
	}
	self, _, _ := h.specUSD(op, assets)
	if len(usable) == 0 {
		return self
	}
	limit := pow10(40)
	for attempt := 0; attempt < 4 && self.Cmp(target) != 0; attempt++ {
		// the finest-grained asset first (smallest value of one base unit), a random one afterwards
		a := usable[0]
		for _, b := range usable[1:] {
			va, vb := h.assetView(a), h.assetView(b)
			// unit value ∝ price / 10^(dec+pdec)
			l := new(big.Int).Mul(vb.price, pow10(va.dec+va.pdec))
			rr := new(big.Int).Mul(va.price, pow10(vb.dec+vb.pdec))
			if l.Cmp(rr) < 0 {
				a = b
			}
		}
		if attempt > 0 || r.Chance(1, 4) {
			a = usable[r.Intn(len(usable))]
		}
		v := h.assetView(a)
		_, selfTok := h.pool(op, a)
		want := new(big.Int).Add(v.usd(selfTok), new(big.Int).Sub(target, self))
		need := v.tokensFor(want)
		delta := new(big.Int).Sub(need, selfTok)
		if delta.CmpAbs(limit) > 0 {
			h.env.Outcome("tune.skip-too-large")
			break
		}
		switch delta.Sign() {
		case 1:
			h.doDelegate(oi, h.assetIdx(a), delta, true)
		case -1:
			h.doUndelegate(oi, h.assetIdx(a), delta.Neg(delta), true)
		default:
			// this asset cannot get closer; try another one
		}
		self, _, _ = h.specUSD(op, assets)
	}
	return self
}

// boundary-biased raw target around the minimum m (raw M)
func (h *avsH) boundaryTarget(M *big.Int, k int) *big.Int {
	r := h.rng
	t := new(big.Int).Set(M)
	switch k {
	case 0: // exactly m
	case 1:
		t.Add(t, big.NewInt(1))
	case 2:
		t.Sub(t, big.NewInt(1))
	case 3: // m − 1/2 + 10^-18
		t.Sub(t, avsHalf).Add(t, big.NewInt(1))
	case 4: // m − 1/2 − 10^-18
		t.Sub(t, avsHalf).Sub(t, big.NewInt(1))
	case 5: // m − 1/2
		t.Sub(t, avsHalf)
	case 6: // m − 1
		t.Sub(t, bigPrec)
	case 7: // a random point of (m − 1/2, m)
		t.Sub(t, new(big.Int).Add(r.BigBelow(new(big.Int).Sub(avsHalf, big.NewInt(1))), big.NewInt(1)))
	case 8: // a random point of (m − 1, m − 1/2)
		t.Sub(t, avsHalf).Sub(t, new(big.Int).Add(r.BigBelow(new(big.Int).Sub(avsHalf, big.NewInt(1))), big.NewInt(1)))
	case 9: // a little above
		t.Add(t, r.BigBelow(bigPrec))
	case 10: // 6-decimal granularity just below: m − 10^-6
		t.Sub(t, pow10(12))
	default: // far below
		t = r.BigBelow(new(big.Int).Add(M, big.NewInt(1)))
	}
	if t.Sign() < 0 {
		t.SetInt64(0)
	}
	return t
}

const avsBoundaryKinds = 12

func (h *avsH) isIn(op, avs string) bool { return h.c.App.OperatorKeeper.IsOptedIn(h.c.Ctx, op, avs) }

// random-history step: pick a registered AVS with a non-zero minimum and an operator that is not opted
// in, move the operator to a boundary target and try to opt in
func (h *avsH) genTuneOpt() {
	r := h.rng
	type cand struct {
		avs    string
		min    uint64
		assets []string
	}
	var cs []cand
	for _, a := range h.avsPool {
		if info, e := h.c.App.AVSManagerKeeper.GetAVSInfo(h.c.Ctx, a); e == nil && info.Info.MinSelfDelegation > 0 &&
			info.Info.MinSelfDelegation <= 1<<63-1 && len(info.Info.AssetIDs) > 0 {
			cs = append(cs, cand{a, info.Info.MinSelfDelegation, info.Info.AssetIDs})
		}
	}
	if len(cs) == 0 {
		h.genLedger()
		return
	}
	c := cs[r.Intn(len(cs))]
	oi := r.Intn(len(h.opAddrs))
	op := h.opAddrs[oi]
	if h.isIn(op, c.avs) {
		h.doOpt(r.Bool(), 2, op, c.avs)
	}
	M := avsMinRaw(c.min)
	got := h.tune(oi, c.assets, h.boundaryTarget(M, r.Intn(avsBoundaryKinds)))
	h.env.Outcome("tune.reached." + avsClassify(got, M))
	h.doOpt(r.Bool(), 1, op, c.avs)
}

var avsSweepMins = []uint64{1, 2, 3, 7, 100, 101, 1000, 1 << 31, 1<<53 + 1, 1<<63 - 1}

// optinSweepHistory: see the header of this file
func (h *avsH) optinSweepHistory(hi int) {
	r := h.rng
	avs, ta := h.avsPool[0], h.taskPool[0]
	sets := [][]int{{0}, {2}, {1, 2}, {0, 1, 2}, {0, 2}, {1}}
	set := sets[(hi/6)%len(sets)]
	var assets []string
	for _, i := range set {
		assets = append(assets, h.c.AssetIDs[i])
	}
	m := avsSweepMins[(hi/6+r.Intn(2)*5)%len(avsSweepMins)]
	h.doUpdate(avsUpd{action: 1, addr: avs, name: "n0", taskAddr: ta, owners: []string{h.owners[0]}, assets: assets,
		unbonding: 7, minSelf: m, epochID: epochstypes.MinuteEpochID, caller: h.owners[0]})
	M := avsMinRaw(m)
	kinds := make([]int, 0, 2*avsBoundaryKinds)
	for k := 0; k < avsBoundaryKinds; k++ {
		kinds = append(kinds, k)
	}
	for i := len(kinds) - 1; i > 0; i-- { // seeded shuffle
		j := r.Intn(i + 1)
		kinds[i], kinds[j] = kinds[j], kinds[i]
	}
	kinds = append(kinds, 7, 3, 0, 2) // the window below the minimum once more, after the ledger has been perturbed
	for step, k := range kinds {
		if h.halted {
			return
		}
		oi := r.Intn(len(h.opAddrs))
		op := h.opAddrs[oi]
		if h.isIn(op, avs) {
			h.doOpt(r.Bool(), 2, op, avs)
		}
		// perturb the ledger first so that the target is reached from a different side / with different
		// share ratios and prices every time
		switch step % 4 {
		case 1:
			h.doSlash(oi, int64(1+r.Intn(10)), int64(1+r.Intn(40)))
		case 2:
			ai := set[r.Intn(len(set))]
			if ai != 0 || r.Chance(1, 2) {
				p, pd := h.genPrice(ai)
				h.doPrice(ai, p, pd)
			}
		case 3:
			ai := set[r.Intn(len(set))]
			h.doDelegate(oi, ai, vpAmount(r, int(h.c.Cfg.Assets[ai].Decimals)), false) // total value > self value
		}
		got := h.tune(oi, assets, h.boundaryTarget(M, k))
		cls := avsClassify(got, M)
		h.env.Outcome("tune.reached." + cls)
		code := h.doOpt(r.Bool(), 1, op, avs)
		h.env.Outcome("optin.at." + cls + "." + code)
		if code == "ok" {
			if r.Chance(1, 3) {
				h.doOpt(r.Bool(), 1, op, avs) // already opted in
			}
			// leave, fall below the minimum by another mechanism, try to come back
			h.doOpt(r.Bool(), 2, op, avs)
			switch r.Intn(3) {
			case 0:
				h.doSlash(oi, int64(5+r.Intn(10)), int64(20+r.Intn(60)))
			case 1:
				ai := set[r.Intn(len(set))]
				_, selfTok := h.pool(op, h.c.AssetIDs[ai])
				if selfTok.Sign() > 0 {
					h.doUndelegate(oi, ai, new(big.Int).Add(r.BigBelow(selfTok), big.NewInt(1)), true)
				}
			default:
				got2 := h.tune(oi, assets, h.boundaryTarget(M, []int{2, 3, 7, 7, 6}[r.Intn(5)]))
				h.env.Outcome("tune.reached." + avsClassify(got2, M))
			}
			self, _, _ := h.specUSD(op, assets)
			code2 := h.doOpt(r.Bool(), 1, op, avs)
			h.env.Outcome("reoptin.at." + avsClassify(self, M) + "." + code2)
		}
		if step%5 == 4 {
			h.doBlock(61e9)
			h.dumpOp()
		}
	}
	h.dumpOp()
}

// directedRoundedMin: the demonstration scenario of a minimum compared on rounded amounts — self value
// 2.6 USD against a minimum of 3, then 3.6 USD. (Regression scenario; no finding is attached to it.)
func (h *avsH) directedFractionBelowMin() {
	avs, o := h.avsPool[0], h.opAddrs[1]
	h.doUpdate(avsUpd{action: 1, addr: avs, name: "n0", taskAddr: h.taskPool[0], owners: []string{h.owners[0]}, assets: []string{h.c.AssetIDs[2]},
		unbonding: 7, minSelf: 3, epochID: epochstypes.MinuteEpochID, caller: h.owners[0]})
	got := h.tune(1, []string{h.c.AssetIDs[2]}, new(big.Int).Mul(big.NewInt(26), pow10(17)))
	h.env.Outcome("tune.reached." + avsClassify(got, avsMinRaw(3)))
	code := h.doOpt(false, 1, o, avs)
	h.env.Note("fraction-below-min.optin." + code)
	got = h.tune(1, []string{h.c.AssetIDs[2]}, new(big.Int).Mul(big.NewInt(36), pow10(17)))
	h.env.Outcome("tune.reached." + avsClassify(got, avsMinRaw(3)))
	code = h.doOpt(false, 1, o, avs)
	h.env.Note("fraction-above-min.optin." + code)
	h.dumpOp()
}

var _ = avstypes.ModuleName
