package main

// Domain `decprims`: conformance of the translator's primitive whitelist (tools/exofacts/translate.go tables
// `methods`, `funcs` and the operators of tr.expr) and of lean/ExoVerif/Basic/Dec.lean with the REAL Go
// operations: cosmossdk.io/math LegacyDec / Int (and their cosmos-sdk `sdk.` aliases), math/big three-address
// methods, Go's sized integers (wrap-around, truncated division) and time.Time.
//
// One op line + one observation per evaluation; the Lean driver Driver/DecPrims.lean evaluates the entry of
// the same name of Generated/Prims.lean (the text the translator inserts) and must print the same line.
// The first op line lists the entries exercised here: the driver answers `ok` only if that is exactly the
// whitelist (closed coverage). Operations that panic in Go are the observation `panic`; a sized-integer
// result that differs from the mathematical one is `wrap`.
//
// Operands: boundary pool (0, ±1, ±2, 10^18±1, half units at the last decimal for both rounding parities,
// 2^63±1, 2^64±1, 2^128, 2^255±1, 2^256−1, 2^315−1 …) mixed with seeded random values of random bit length,
// related pairs (b = a, −a, a±1, 2a) and constructed rounding ties for Mul*/Quo*/RoundInt.
//
// args: n (number of evaluations, default 4000)

import (
	"fmt"
	"math/big"
	"strings"
	"time"

	sdkmath "cosmossdk.io/math"
	sdk "github.com/cosmos/cosmos-sdk/types"
)

// operand kinds: i sdkmath.Int (≤256 bit)   I *big.Int (≤320 bit)   d LegacyDec raw (≤315 bit)   b bool
//                6 int64   U uint64   e small exponent   s sized integer of the op's tag   t time (ns)   u duration (ns)
type primDef struct {
	kinds string
	tags  []string // "-" unless sized / time
	eval  func(tag string, a []*big.Int) string
}

func pDec(raw *big.Int) sdkmath.LegacyDec { return sdkmath.LegacyNewDecFromBigIntWithPrec(raw, sdkmath.LegacyPrecision) }
func pInt(x *big.Int) sdkmath.Int         { return sdkmath.NewIntFromBigInt(x) }
func oI(x *big.Int) string                { return "i " + x.String() }
func oSI(x sdkmath.Int) string            { return "i " + x.BigInt().String() }
func oD(x sdkmath.LegacyDec) string       { return "d " + x.BigInt().String() }
func oB(b bool) string                    { return fmt.Sprintf("b %v", b) }
func pTime(ns *big.Int) time.Time         { return time.Unix(0, ns.Int64()) }

var sizedTags = []string{"i64", "u64", "i32", "u32", "u8"}

func sizedRange(tag string) (lo, hi *big.Int) {
	one := big.NewInt(1)
	switch tag {
	case "i64", "int64", "int":
		return new(big.Int).Neg(new(big.Int).Lsh(one, 63)), new(big.Int).Sub(new(big.Int).Lsh(one, 63), one)
	case "u64", "uint64":
		return big.NewInt(0), new(big.Int).Sub(new(big.Int).Lsh(one, 64), one)
	case "i32", "int32":
		return big.NewInt(-1 << 31), big.NewInt(1<<31 - 1)
	case "u32", "uint32":
		return big.NewInt(0), big.NewInt(1<<32 - 1)
	case "u8", "uint8":
		return big.NewInt(0), big.NewInt(255)
	}
	panic("tag " + tag)
}

type sizedT interface {
	~int64 | ~uint64 | ~int32 | ~uint32 | ~uint8
}

func sizedToBig[T sizedT](v T) *big.Int {
	var zero T
	if zero-1 > zero { // unsigned
		return new(big.Int).SetUint64(uint64(v))
	}
	return big.NewInt(int64(v))
}

func sizedFromBig[T sizedT](x *big.Int) T {
	var zero T
	if zero-1 > zero {
		return T(x.Uint64())
	}
	return T(x.Int64())
}

// sizedOp evaluates a Go operator natively in type T; exact is the mathematical result: a native result that
// differs is the observation `wrap`.
func sizedOp[T sizedT](name string, a []*big.Int) string {
	x := sizedFromBig[T](a[0])
	var y T
	if len(a) > 1 {
		y = sizedFromBig[T](a[1])
	}
	var r T
	exact := new(big.Int)
	switch name {
	case "op.add":
		r, exact = x+y, exact.Add(a[0], a[1])
	case "op.sub":
		r, exact = x-y, exact.Sub(a[0], a[1])
	case "op.mul":
		r, exact = x*y, exact.Mul(a[0], a[1])
	case "op.quo":
		r = x / y // y == 0 panics (recovered by the caller)
		exact.Quo(a[0], a[1])
	case "op.rem":
		r = x % y
		exact.Rem(a[0], a[1])
	case "op.neg":
		r, exact = -x, exact.Neg(a[0])
	case "op.lt":
		return oB(x < y)
	case "op.le":
		return oB(x <= y)
	case "op.gt":
		return oB(x > y)
	case "op.ge":
		return oB(x >= y)
	case "op.eq":
		return oB(x == y)
	case "op.ne":
		return oB(x != y)
	default:
		panic("sized op " + name)
	}
	if sizedToBig(r).Cmp(exact) != 0 {
		return "wrap"
	}
	return oI(exact)
}

func sizedDispatch(name, tag string, a []*big.Int) string {
	switch tag {
	case "i64":
		return sizedOp[int64](name, a)
	case "u64":
		return sizedOp[uint64](name, a)
	case "i32":
		return sizedOp[int32](name, a)
	case "u32":
		return sizedOp[uint32](name, a)
	case "u8":
		return sizedOp[uint8](name, a)
	}
	panic("tag " + tag)
}

// convOp: Go conversion T(x) of a sized value of type `tag` (int64 or uint64 source).
func convOp(target, tag string, a []*big.Int) string {
	var r *big.Int
	conv := func(i int64, u uint64, signed bool) *big.Int {
		switch target {
		case "int":
			if signed {
				return big.NewInt(int64(int(i)))
			}
			return big.NewInt(int64(int(u)))
		case "int64":
			if signed {
				return big.NewInt(int64(i))
			}
			return big.NewInt(int64(u))
		case "uint64":
			if signed {
				return new(big.Int).SetUint64(uint64(i))
			}
			return new(big.Int).SetUint64(uint64(u))
		case "uint32":
			if signed {
				return new(big.Int).SetUint64(uint64(uint32(i)))
			}
			return new(big.Int).SetUint64(uint64(uint32(u)))
		case "int32":
			if signed {
				return big.NewInt(int64(int32(i)))
			}
			return big.NewInt(int64(int32(u)))
		case "uint8":
			if signed {
				return new(big.Int).SetUint64(uint64(uint8(i)))
			}
			return new(big.Int).SetUint64(uint64(uint8(u)))
		}
		panic("conversion " + target)
	}
	if tag == "i64" {
		r = conv(a[0].Int64(), 0, true)
	} else {
		r = conv(0, a[0].Uint64(), false)
	}
	if r.Cmp(a[0]) != 0 {
		return "wrap"
	}
	return oI(r)
}

func primTable() map[string]primDef {
	m := map[string]primDef{}
	big_ := []string{"-"}
	def := func(name, kinds string, tags []string, f func(tag string, a []*big.Int) string) {
		if _, dup := m[name]; dup {
			panic("duplicate primitive " + name)
		}
		m[name] = primDef{kinds, tags, f}
	}
	// ---- sdkmath.Int methods (tag "-"); the same names on time.Time (tag "time")
	intBin := func(name string, f func(x, y sdkmath.Int) string, tf func(x time.Time, a *big.Int) string, tkinds string) {
		tags := big_
		if tf != nil {
			tags = []string{"-", "time"}
		}
		def(name, "ii", tags, func(tag string, a []*big.Int) string {
			if tag == "time" {
				return tf(pTime(a[0]), a[1])
			}
			return f(pInt(a[0]), pInt(a[1]))
		})
		if tf != nil {
			d := m[name]
			d.kinds = "ii|" + tkinds
			m[name] = d
		}
	}
	intBin("Int.Add", func(x, y sdkmath.Int) string { return oSI(x.Add(y)) },
		func(x time.Time, a *big.Int) string { return oI(big.NewInt(x.Add(time.Duration(a.Int64())).UnixNano())) }, "tu")
	intBin("Int.Sub", func(x, y sdkmath.Int) string { return oSI(x.Sub(y)) },
		func(x time.Time, a *big.Int) string { return oI(big.NewInt(int64(x.Sub(pTime(a))))) }, "tt")
	intBin("Int.Mul", func(x, y sdkmath.Int) string { return oSI(x.Mul(y)) }, nil, "")
	intBin("Int.Quo", func(x, y sdkmath.Int) string { return oSI(x.Quo(y)) }, nil, "")
	intBin("Int.GT", func(x, y sdkmath.Int) string { return oB(x.GT(y)) }, nil, "")
	intBin("Int.GTE", func(x, y sdkmath.Int) string { return oB(x.GTE(y)) }, nil, "")
	intBin("Int.LT", func(x, y sdkmath.Int) string { return oB(x.LT(y)) }, nil, "")
	intBin("Int.LTE", func(x, y sdkmath.Int) string { return oB(x.LTE(y)) }, nil, "")
	intBin("Int.Equal", func(x, y sdkmath.Int) string { return oB(x.Equal(y)) }, nil, "")
	def("Int.Cmp", "II", big_, func(_ string, a []*big.Int) string { return oI(big.NewInt(int64(a[0].Cmp(a[1])))) })
	def("Int.Before", "tt", []string{"time"}, func(_ string, a []*big.Int) string { return oB(pTime(a[0]).Before(pTime(a[1]))) })
	def("Int.After", "tt", []string{"time"}, func(_ string, a []*big.Int) string { return oB(pTime(a[0]).After(pTime(a[1]))) })
	def("Int.Unix", "t", []string{"time"}, func(_ string, a []*big.Int) string { return oI(big.NewInt(pTime(a[0]).Unix())) })
	def("Int.UTC", "t", []string{"time"}, func(_ string, a []*big.Int) string { return oI(big.NewInt(pTime(a[0]).UTC().UnixNano())) })
	intUn := func(name string, f func(x sdkmath.Int) string) {
		def(name, "i", big_, func(_ string, a []*big.Int) string { return f(pInt(a[0])) })
	}
	intUn("Int.Neg", func(x sdkmath.Int) string { return oSI(x.Neg()) })
	intUn("Int.Abs", func(x sdkmath.Int) string { return oSI(x.Abs()) })
	intUn("Int.IsZero", func(x sdkmath.Int) string { return oB(x.IsZero()) })
	intUn("Int.IsPositive", func(x sdkmath.Int) string { return oB(x.IsPositive()) })
	intUn("Int.IsNegative", func(x sdkmath.Int) string { return oB(x.IsNegative()) })
	intUn("Int.IsNil", func(x sdkmath.Int) string { return oB(x.IsNil()) })
	intUn("Int.BigInt", func(x sdkmath.Int) string { return oI(x.BigInt()) })
	intUn("Int.Sign", func(x sdkmath.Int) string { return oI(big.NewInt(int64(x.Sign()))) })
	intUn("Int.Int64", func(x sdkmath.Int) string { return oI(big.NewInt(x.Int64())) })
	intUn("Int.Uint64", func(x sdkmath.Int) string { return oI(new(big.Int).SetUint64(x.Uint64())) })
	intUn("Int.IsInt64", func(x sdkmath.Int) string { return oB(x.IsInt64()) })

	// ---- LegacyDec methods
	decBin := func(name string, f func(x, y sdkmath.LegacyDec) string) {
		def(name, "dd", big_, func(_ string, a []*big.Int) string { return f(pDec(a[0]), pDec(a[1])) })
	}
	decBin("Dec.Add", func(x, y sdkmath.LegacyDec) string { return oD(x.Add(y)) })
	decBin("Dec.Sub", func(x, y sdkmath.LegacyDec) string { return oD(x.Sub(y)) })
	decBin("Dec.Mul", func(x, y sdkmath.LegacyDec) string { return oD(x.Mul(y)) })
	decBin("Dec.MulTruncate", func(x, y sdkmath.LegacyDec) string { return oD(x.MulTruncate(y)) })
	decBin("Dec.Quo", func(x, y sdkmath.LegacyDec) string { return oD(x.Quo(y)) })
	decBin("Dec.QuoTruncate", func(x, y sdkmath.LegacyDec) string { return oD(x.QuoTruncate(y)) })
	decBin("Dec.QuoRoundUp", func(x, y sdkmath.LegacyDec) string { return oD(x.QuoRoundUp(y)) })
	decBin("Dec.GT", func(x, y sdkmath.LegacyDec) string { return oB(x.GT(y)) })
	decBin("Dec.GTE", func(x, y sdkmath.LegacyDec) string { return oB(x.GTE(y)) })
	decBin("Dec.LT", func(x, y sdkmath.LegacyDec) string { return oB(x.LT(y)) })
	decBin("Dec.LTE", func(x, y sdkmath.LegacyDec) string { return oB(x.LTE(y)) })
	decBin("Dec.Equal", func(x, y sdkmath.LegacyDec) string { return oB(x.Equal(y)) })
	def("Dec.MulInt", "di", big_, func(_ string, a []*big.Int) string { return oD(pDec(a[0]).MulInt(pInt(a[1]))) })
	def("Dec.QuoInt", "di", big_, func(_ string, a []*big.Int) string { return oD(pDec(a[0]).QuoInt(pInt(a[1]))) })
	def("Dec.MulInt64", "d6", big_, func(_ string, a []*big.Int) string { return oD(pDec(a[0]).MulInt64(a[1].Int64())) })
	def("Dec.QuoInt64", "d6", big_, func(_ string, a []*big.Int) string { return oD(pDec(a[0]).QuoInt64(a[1].Int64())) })
	decUn := func(name string, f func(x sdkmath.LegacyDec) string) {
		def(name, "d", big_, func(_ string, a []*big.Int) string { return f(pDec(a[0])) })
	}
	decUn("Dec.Neg", func(x sdkmath.LegacyDec) string { return oD(x.Neg()) })
	decUn("Dec.TruncateInt", func(x sdkmath.LegacyDec) string { return oSI(x.TruncateInt()) })
	decUn("Dec.RoundInt", func(x sdkmath.LegacyDec) string { return oSI(x.RoundInt()) })
	decUn("Dec.TruncateInt64", func(x sdkmath.LegacyDec) string { return oI(big.NewInt(x.TruncateInt64())) })
	decUn("Dec.IsZero", func(x sdkmath.LegacyDec) string { return oB(x.IsZero()) })
	decUn("Dec.IsPositive", func(x sdkmath.LegacyDec) string { return oB(x.IsPositive()) })
	decUn("Dec.IsNegative", func(x sdkmath.LegacyDec) string { return oB(x.IsNegative()) })
	decUn("Dec.IsNil", func(x sdkmath.LegacyDec) string { return oB(x.IsNil()) })

	// ---- math/big three-address methods: new(big.Int).Op(x, y)
	def("BigRecv.Add", "II", big_, func(_ string, a []*big.Int) string { return oI(new(big.Int).Add(a[0], a[1])) })
	def("BigRecv.Sub", "II", big_, func(_ string, a []*big.Int) string { return oI(new(big.Int).Sub(a[0], a[1])) })
	def("BigRecv.Mul", "II", big_, func(_ string, a []*big.Int) string { return oI(new(big.Int).Mul(a[0], a[1])) })
	def("BigRecv.Div", "II", big_, func(_ string, a []*big.Int) string { return oI(new(big.Int).Div(a[0], a[1])) })
	def("big.NewInt", "6", big_, func(_ string, a []*big.Int) string { return oI(big.NewInt(a[0].Int64())) })

	// ---- constructors and package functions (cosmossdk.io/math and its cosmos-sdk aliases)
	def("sdkmath.NewInt", "6", big_, func(_ string, a []*big.Int) string { return oSI(sdkmath.NewInt(a[0].Int64())) })
	def("math.NewInt", "6", big_, func(_ string, a []*big.Int) string { return oSI(sdkmath.NewInt(a[0].Int64())) })
	def("sdk.NewInt", "6", big_, func(_ string, a []*big.Int) string { return oSI(sdk.NewInt(a[0].Int64())) })
	def("sdkmath.ZeroInt", "", big_, func(string, []*big.Int) string { return oSI(sdkmath.ZeroInt()) })
	def("math.ZeroInt", "", big_, func(string, []*big.Int) string { return oSI(sdkmath.ZeroInt()) })
	def("sdk.ZeroInt", "", big_, func(string, []*big.Int) string { return oSI(sdk.ZeroInt()) })
	def("sdkmath.OneInt", "", big_, func(string, []*big.Int) string { return oSI(sdkmath.OneInt()) })
	def("math.OneInt", "", big_, func(string, []*big.Int) string { return oSI(sdkmath.OneInt()) })
	def("sdk.OneInt", "", big_, func(string, []*big.Int) string { return oSI(sdk.OneInt()) })
	def("sdkmath.NewIntWithDecimal", "6e", big_, func(_ string, a []*big.Int) string {
		return oSI(sdkmath.NewIntWithDecimal(a[0].Int64(), int(a[1].Int64())))
	})
	def("sdkmath.NewIntFromBigInt", "I", big_, func(_ string, a []*big.Int) string { return oSI(sdkmath.NewIntFromBigInt(a[0])) })
	def("sdkmath.NewIntFromUint64", "U", big_, func(_ string, a []*big.Int) string { return oSI(sdkmath.NewIntFromUint64(a[0].Uint64())) })
	def("sdkmath.LegacyNewDecFromBigInt", "I", big_, func(_ string, a []*big.Int) string { return oD(sdkmath.LegacyNewDecFromBigInt(a[0])) })
	def("sdk.NewDecFromBigInt", "I", big_, func(_ string, a []*big.Int) string { return oD(sdk.NewDecFromBigInt(a[0])) })
	def("sdkmath.LegacyNewDecFromInt", "i", big_, func(_ string, a []*big.Int) string { return oD(sdkmath.LegacyNewDecFromInt(pInt(a[0]))) })
	def("sdk.NewDecFromInt", "i", big_, func(_ string, a []*big.Int) string { return oD(sdk.NewDecFromInt(pInt(a[0]))) })
	def("sdkmath.LegacyNewDec", "6", big_, func(_ string, a []*big.Int) string { return oD(sdkmath.LegacyNewDec(a[0].Int64())) })
	def("math.LegacyNewDec", "6", big_, func(_ string, a []*big.Int) string { return oD(sdkmath.LegacyNewDec(a[0].Int64())) })
	def("sdk.NewDec", "6", big_, func(_ string, a []*big.Int) string { return oD(sdk.NewDec(a[0].Int64())) })
	def("sdkmath.LegacyZeroDec", "", big_, func(string, []*big.Int) string { return oD(sdkmath.LegacyZeroDec()) })
	def("sdk.ZeroDec", "", big_, func(string, []*big.Int) string { return oD(sdk.ZeroDec()) })
	def("sdkmath.LegacyOneDec", "", big_, func(string, []*big.Int) string { return oD(sdkmath.LegacyOneDec()) })
	def("sdk.OneDec", "", big_, func(string, []*big.Int) string { return oD(sdk.OneDec()) })
	minD := func(_ string, a []*big.Int) string { return oD(sdkmath.LegacyMinDec(pDec(a[0]), pDec(a[1]))) }
	maxD := func(_ string, a []*big.Int) string { return oD(sdkmath.LegacyMaxDec(pDec(a[0]), pDec(a[1]))) }
	def("sdkmath.LegacyMinDec", "dd", big_, minD)
	def("math.LegacyMinDec", "dd", big_, minD)
	def("sdk.MinDec", "dd", big_, func(_ string, a []*big.Int) string { return oD(sdk.MinDec(pDec(a[0]), pDec(a[1]))) })
	def("sdkmath.LegacyMaxDec", "dd", big_, maxD)
	def("math.LegacyMaxDec", "dd", big_, maxD)
	def("sdk.MaxDec", "dd", big_, func(_ string, a []*big.Int) string { return oD(sdk.MaxDec(pDec(a[0]), pDec(a[1]))) })
	def("sdkmath.MinInt", "ii", big_, func(_ string, a []*big.Int) string { return oSI(sdkmath.MinInt(pInt(a[0]), pInt(a[1]))) })
	def("sdkmath.MaxInt", "ii", big_, func(_ string, a []*big.Int) string { return oSI(sdkmath.MaxInt(pInt(a[0]), pInt(a[1]))) })

	// ---- conversions between sized integers (source type = tag)
	for _, t := range []string{"int", "int64", "uint64", "uint32", "int32", "uint8"} {
		t := t
		def(t, "s", []string{"i64", "u64"}, func(tag string, a []*big.Int) string { return convOp(t, tag, a) })
	}
	// ---- operators of tr.expr on sized integers and booleans
	for _, o := range []string{"op.add", "op.sub", "op.mul", "op.quo", "op.rem", "op.lt", "op.le", "op.gt", "op.ge", "op.eq", "op.ne"} {
		o := o
		def(o, "ss", sizedTags, func(tag string, a []*big.Int) string { return sizedDispatch(o, tag, a) })
	}
	def("op.neg", "s", sizedTags, func(tag string, a []*big.Int) string { return sizedDispatch("op.neg", tag, a) })
	def("op.lit", "s", []string{"i64", "u64"}, func(tag string, a []*big.Int) string {
		if tag == "i64" {
			x := a[0].Int64()
			r := x + 1_000
			if big.NewInt(r).Cmp(new(big.Int).Add(a[0], big.NewInt(1000))) != 0 {
				return "wrap"
			}
			return oI(big.NewInt(r))
		}
		x := a[0].Uint64()
		r := x + 1_000
		if new(big.Int).SetUint64(r).Cmp(new(big.Int).Add(a[0], big.NewInt(1000))) != 0 {
			return "wrap"
		}
		return oI(new(big.Int).SetUint64(r))
	})
	bv := func(x *big.Int) bool { return x.Sign() != 0 }
	def("op.not", "b", big_, func(_ string, a []*big.Int) string { return oB(!bv(a[0])) })
	def("op.and", "bb", big_, func(_ string, a []*big.Int) string { return oB(bv(a[0]) && bv(a[1])) })
	def("op.or", "bb", big_, func(_ string, a []*big.Int) string { return oB(bv(a[0]) || bv(a[1])) })
	def("op.beq", "bb", big_, func(_ string, a []*big.Int) string { return oB(bv(a[0]) == bv(a[1])) })
	def("op.bne", "bb", big_, func(_ string, a []*big.Int) string { return oB(bv(a[0]) != bv(a[1])) })
	return m
}

type primGen struct {
	r    *RNG
	pool []*big.Int
}

func newPrimGen(seed uint64) *primGen {
	g := &primGen{r: NewRNG(seed)}
	add := func(x *big.Int) {
		g.pool = append(g.pool, x, new(big.Int).Neg(x))
	}
	pw := func(b int64, e int) *big.Int { return new(big.Int).Exp(big.NewInt(b), big.NewInt(int64(e)), nil) }
	around := func(x *big.Int) {
		add(x)
		add(new(big.Int).Add(x, big.NewInt(1)))
		add(new(big.Int).Sub(x, big.NewInt(1)))
	}
	for _, s := range []int64{0, 1, 2, 3, 5, 7, 10, 255, 256, 1000, 1<<31 - 1, 1 << 31, 1<<32 - 1, 1 << 32, 1_000_000_000} {
		add(big.NewInt(s))
	}
	for _, e := range []int{9, 17, 18, 19, 27, 36, 54, 77, 78} {
		around(pw(10, e))
	}
	half := new(big.Int).Mul(big.NewInt(5), pw(10, 17))
	for _, k := range []int64{1, 3, 5, 7, 2001, 2003} { // k/2 units: ties with an even / odd truncated part
		around(new(big.Int).Mul(big.NewInt(k), half))
	}
	add(new(big.Int).Mul(big.NewInt(2), pw(10, 18)))
	add(new(big.Int).Mul(big.NewInt(4), pw(10, 18)))
	for _, e := range []uint{63, 64, 127, 128, 192, 255, 256, 300, 314, 315, 320} {
		around(new(big.Int).Lsh(big.NewInt(1), e))
	}
	return g
}

// random value of a random bit length ≤ bits, random sign
func (g *primGen) random(bits int) *big.Int {
	n := 1 + g.r.Intn(bits)
	x := g.r.BigBelow(new(big.Int).Lsh(big.NewInt(1), uint(n)))
	if g.r.Bool() {
		x.Neg(x)
	}
	return x
}

func (g *primGen) bounded(bits int) *big.Int {
	lim := new(big.Int).Lsh(big.NewInt(1), uint(bits))
	for try := 0; try < 50; try++ {
		var x *big.Int
		if g.r.Chance(3, 5) {
			x = g.pool[g.r.Intn(len(g.pool))]
		} else {
			x = g.random(bits)
		}
		if new(big.Int).Abs(x).Cmp(lim) < 0 {
			return new(big.Int).Set(x)
		}
	}
	return big.NewInt(0)
}

func (g *primGen) within(lo, hi *big.Int) *big.Int {
	span := new(big.Int).Sub(hi, lo)
	span.Add(span, big.NewInt(1))
	switch g.r.Pick(3, 3, 2, 4) {
	case 0: // an end of the range
		ends := []*big.Int{lo, hi, new(big.Int).Add(lo, big.NewInt(1)), new(big.Int).Sub(hi, big.NewInt(1))}
		return new(big.Int).Set(ends[g.r.Intn(4)])
	case 1: // a pool value that is in range
		for try := 0; try < 30; try++ {
			x := g.pool[g.r.Intn(len(g.pool))]
			if x.Cmp(lo) >= 0 && x.Cmp(hi) <= 0 {
				return new(big.Int).Set(x)
			}
		}
		return big.NewInt(0).Set(lo)
	case 2: // small
		x := big.NewInt(int64(g.r.Intn(17)) - 8)
		if x.Cmp(lo) < 0 {
			x.Set(lo)
		}
		return x
	}
	return new(big.Int).Add(lo, g.r.BigBelow(span))
}

func (g *primGen) operand(kind byte, tag string) *big.Int {
	switch kind {
	case 'i':
		return g.bounded(256)
	case 'I':
		return g.bounded(321)
	case 'd':
		return g.bounded(315)
	case 'b':
		return big.NewInt(int64(g.r.Intn(2)))
	case '6':
		lo, hi := sizedRange("i64")
		return g.within(lo, hi)
	case 'U':
		lo, hi := sizedRange("u64")
		return g.within(lo, hi)
	case 'e':
		return big.NewInt(int64(g.r.Intn(96)) - 3)
	case 's':
		lo, hi := sizedRange(tag)
		return g.within(lo, hi)
	case 't', 'u': // |ns| < 2^61 so that sums and differences stay representable
		lim := new(big.Int).Lsh(big.NewInt(1), 61)
		lo, hi := new(big.Int).Neg(lim), lim
		x := g.within(lo, hi)
		if g.r.Chance(1, 3) { // instants around whole seconds, before and after the epoch
			sec := int64(g.r.Intn(2_000_000_000)) - 1_000_000_000
			frac := []int64{0, 1, 999_999_999, 500_000_000}[g.r.Intn(4)]
			x = big.NewInt(sec*1_000_000_000 + frac)
		}
		return x
	}
	panic("kind " + string(kind))
}

// related derives a second operand from the first (same kind): equal, opposite, neighbours, double.
func (g *primGen) related(a *big.Int) *big.Int {
	switch g.r.Intn(6) {
	case 0:
		return new(big.Int).Set(a)
	case 1:
		return new(big.Int).Neg(a)
	case 2:
		return new(big.Int).Add(a, big.NewInt(1))
	case 3:
		return new(big.Int).Sub(a, big.NewInt(1))
	case 4:
		return new(big.Int).Mul(a, big.NewInt(2))
	}
	return new(big.Int).Quo(a, big.NewInt(2))
}

// tie constructs operands whose exact result lies exactly between two representable values.
func (g *primGen) tie(name string) []*big.Int {
	odd := big.NewInt(int64(2*g.r.Intn(2000) + 1))
	if g.r.Chance(1, 4) {
		odd = new(big.Int).Or(g.random(120), big.NewInt(1))
		odd.Abs(odd)
	}
	if g.r.Bool() {
		odd.Neg(odd)
	}
	scale := new(big.Int).Exp(big.NewInt(10), big.NewInt(int64(g.r.Intn(10))), nil)
	sgn := big.NewInt(1)
	if g.r.Bool() {
		sgn = big.NewInt(-1)
	}
	e18 := new(big.Int).Exp(big.NewInt(10), big.NewInt(18), nil)
	switch name {
	case "Dec.Quo", "Dec.QuoTruncate", "Dec.QuoRoundUp":
		// (odd·scale) / (2·scale) units: quotient ends in exactly half a unit
		a := new(big.Int).Mul(odd, scale)
		b := new(big.Int).Mul(new(big.Int).Mul(big.NewInt(2), e18), scale)
		return []*big.Int{a, b.Mul(b, sgn)}
	case "Dec.Mul", "Dec.MulTruncate":
		// 0.5/scale × odd·scale units
		a := new(big.Int).Quo(new(big.Int).Mul(big.NewInt(5), new(big.Int).Exp(big.NewInt(10), big.NewInt(17), nil)), scale)
		b := new(big.Int).Mul(odd, scale)
		return []*big.Int{a.Mul(a, sgn), b}
	case "Dec.RoundInt", "Dec.TruncateInt", "Dec.TruncateInt64":
		a := new(big.Int).Mul(odd, new(big.Int).Mul(big.NewInt(5), new(big.Int).Exp(big.NewInt(10), big.NewInt(17), nil)))
		a.Add(a, big.NewInt(int64(g.r.Intn(3))-1))
		return []*big.Int{a}
	}
	return nil
}

func signClass(x *big.Int) string {
	switch {
	case x.Sign() == 0:
		return "0"
	case x.BitLen() <= 64:
		return fmt.Sprintf("%ds", x.Sign())
	case x.BitLen() <= 256:
		return fmt.Sprintf("%dm", x.Sign())
	}
	return fmt.Sprintf("%dl", x.Sign())
}

func domDecPrims(env *Env) error {
	n := env.Int("n", 4000)
	tab := primTable()
	names := sortedKeys(tab)
	env.Op("prims.reset "+strings.Join(names, " "), "ok")
	env.Report.Histories = 1
	g := newPrimGen(env.Report.Seed)
	type entry struct{ name, tag, kinds string }
	var entries []entry
	for _, nm := range names {
		d := tab[nm]
		alts := strings.Split(d.kinds, "|")
		for _, tag := range d.tags {
			k := alts[0]
			if len(alts) > 1 && tag == "time" {
				k = alts[1]
			}
			entries = append(entries, entry{nm, tag, k})
		}
	}
	for it := 0; it < n; it++ {
		e := entries[it%len(entries)]
		d := tab[e.name]
		var args []*big.Int
		tied := false
		if g.r.Chance(1, 4) {
			if t := g.tie(e.name); t != nil {
				args, tied = t, true
			}
		}
		if args == nil {
			for i := 0; i < len(e.kinds); i++ {
				if i == 1 && e.kinds[0] == e.kinds[1] && g.r.Chance(1, 4) {
					x := g.related(args[0])
					ok := true
					switch e.kinds[1] {
					case 'i':
						ok = x.BitLen() <= 256
					case 'd':
						ok = x.BitLen() <= 315
					case 's':
						lo, hi := sizedRange(e.tag)
						ok = x.Cmp(lo) >= 0 && x.Cmp(hi) <= 0
					case 't':
						ok = x.BitLen() <= 62
					case 'b':
						ok = x.Sign() >= 0 && x.BitLen() <= 1
					}
					if ok {
						args = append(args, x)
						continue
					}
				}
				args = append(args, g.operand(e.kinds[i], e.tag))
			}
		}
		var sb strings.Builder
		sb.WriteString(e.name + " " + e.tag)
		key := e.name + "/" + e.tag
		for i, a := range args {
			c := byte('i')
			switch e.kinds[i] {
			case 'd':
				c = 'd'
			case 'b':
				c = 'b'
			}
			sb.WriteString(fmt.Sprintf(" %c:%s", c, a.String()))
			key += "/" + signClass(a)
		}
		obs := func() (o string) {
			defer func() {
				if r := recover(); r != nil {
					o = "panic"
				}
			}()
			return d.eval(e.tag, args)
		}()
		env.Op(sb.String(), obs)
		cls := strings.SplitN(obs, " ", 2)[0]
		switch cls {
		case "i", "d":
			env.Outcome("value")
		case "b":
			env.Outcome("bool")
		default:
			env.Outcome(cls) // panic | wrap
		}
		if tied {
			env.Note("constructed-tie:" + e.name)
		}
		env.DistinctKey(key + "/" + cls)
		if it < len(entries) && (cls == "panic" || cls == "wrap" || tied) {
			env.Sample(sb.String() + " => " + obs)
		}
	}
	return nil
}

func init() { register("decprims", domDecPrims) }
