package main

// C18 — "initialising a fresh chain from it reproduces those modules' state": exports taken AT the block boundary of an
// undelegation record.
//
// The document exported from the state committed by block H is imported at height H+1 (app/export.go returns
// LastBlockHeight()+1, InitChain runs InitGenesis with that height). x/delegation InitGenesis writes the records back through
// SetUndelegationRecords, whose guard compares CompleteBlockNumber with that height and whose error is a panic of InitChain.
// Whether a chain can be restarted from its export therefore depends on where the export falls relative to the completion
// heights of the pending records:
//   * a record that is not held completes 10 blocks after the undelegation: ONE export height in ten has
//     CompleteBlockNumber == import height (the last block before the completion),
//   * a record held by x/dogfood past that height is re-queued by EndBlock for height+1 in every block: from then on EVERY
//     export has CompleteBlockNumber == import height.
// The random histories reach these heights only by the luck of the stream (few of their steps are block advances). This
// file makes the clause decided in every run, independently of the stream:
//   * directed scenarios U1..U7 (own random stream, so that the histories after them do not move): one staker undelegates
//     from a validator (held) and from an operator registered during the history (not opted in: not held) in ONE block, the
//     export is taken one block before the last one, in the last block before the completion height (records due AT the
//     import height), in the block of the completion height (held record re-queued, the other one completed) and three
//     blocks later (re-queued three times); held only / not held only as controls,
//   * every fourth random history is run on with one-second blocks (no random draw) until its earliest pending record is
//     due at the import height (hi%4 == 1) or at the height after it (hi%4 == 3),
//   * the import height is an input of the Lean model (`gen.h`): `gen.roundtrip` is `import-failed` when the model's
//     SetUndelegationRecords rejects a record (Model/GenesisDue.lean),
//   * monitor C18.coverage: a run in which no export point had a held record due at the import height, a record that is not
//     held due at the import height, a re-queued record, and a record due one height later fails (the clause would have
//     gone unjudged on the states it is about).

import (
	"fmt"
	"time"

	delegationtypes "github.com/ExocoreNetwork/exocore/x/delegation/types"
	operatortypes "github.com/ExocoreNetwork/exocore/x/operator/types"
)

type genDueCount struct {
	points     int // export points
	atHeld     int // export points with a HELD record whose CompleteBlockNumber is the import height
	atFree     int // … with a record that is not held and completes at the import height
	requeued   int // … with a record re-queued by EndBlock (CompleteBlockNumber beyond BlockNumber + UnbondingExpiration)
	next       int // … with a record completing at import height + 1
	randomAt   int // export points of random histories with a record due at the import height
	randomNext int
}

var genDue genDueCount

// dueStats classifies the pending records of the committed state by their distance from the import height.
func (w *genWorld) dueStats(directed bool) {
	c := w.c
	ctx := committedCtx(c)
	imp := uint64(c.Header.Height) // = LastBlockHeight()+1
	recs, _ := c.App.DelegationKeeper.AllUndelegations(ctx)
	var atHeld, atFree, requeued, next, overdue int
	for _, r := range recs {
		key := delegationtypes.GetUndelegationRecordKey(r.BlockNumber, r.LzTxNonce, r.TxHash, r.OperatorAddr)
		held := c.App.DelegationKeeper.GetUndelegationHoldCount(ctx, key) > 0
		switch {
		case r.CompleteBlockNumber < imp:
			overdue++
		case r.CompleteBlockNumber == imp && held:
			atHeld++
		case r.CompleteBlockNumber == imp:
			atFree++
		case r.CompleteBlockNumber == imp+1:
			next++
		}
		if r.CompleteBlockNumber > r.BlockNumber+operatortypes.UnbondingExpiration {
			requeued++
		}
	}
	b := func(n int) int { return min(n, 1) }
	genDue.points++
	genDue.atHeld += b(atHeld)
	genDue.atFree += b(atFree)
	genDue.requeued += b(requeued)
	genDue.next += b(next)
	if w.isRandom && w.alignDue == 0 {
		genDue.randomAt += b(atHeld + atFree)
		genDue.randomNext += b(next)
	}
	w.env.Outcome(fmt.Sprintf("state:und-due=at-import-held:%d,at-import-free:%d,requeued:%d,next:%d", b(atHeld), b(atFree), b(requeued), b(next)))
	w.env.Eval("C18.due")
	if overdue > 0 {
		// EndBlock of the committed block left a record whose completion height has passed: no later block looks at it
		w.env.Violate("C18.due", "und-overdue", fmt.Sprintf("%d undelegation record(s) of the committed state complete before height %d, the height of the next block: x/delegation EndBlock only handles the records of the current height, they would never complete", overdue, imp), w.hist)
	}
	if atHeld+atFree > 0 {
		w.env.DistinctKey(fmt.Sprintf("due-h%d-f%d-r%d-n%d", b(atHeld), b(atFree), b(requeued), b(next)))
	}
}

// alignToDue runs the chain on with one-second blocks (nothing is drawn from the random stream) until the export that
// follows is imported at the completion height of the earliest pending record minus `before`. false = the chain halted.
func (w *genWorld) alignToDue(before int) bool {
	c := w.c
	recs, _ := c.App.DelegationKeeper.AllUndelegations(c.Ctx)
	x := uint64(c.Header.Height) // the running block; the export commits it: import height x+1
	var target uint64
	for _, r := range recs {
		// records due in the running block are handled by its EndBlock
		if r.CompleteBlockNumber > x && (target == 0 || r.CompleteBlockNumber < target) {
			target = r.CompleteBlockNumber
		}
	}
	if target == 0 || target < x+1+uint64(before) || target-uint64(before)-(x+1) > operatortypes.UnbondingExpiration {
		w.env.Outcome("align-due:nothing-to-align")
		return true
	}
	n := int(target - uint64(before) - (x + 1))
	w.note("run on %d one-second block(s): the export is imported at height %d, the earliest record completes at %d", n, target-uint64(before), target)
	for i := 0; i < n; i++ {
		if r := c.EndAndBegin(time.Second); r.Halt != "" {
			w.env.Violate("C18.halt", "halt", "block processing panicked: "+r.Halt, w.hist)
			return false
		}
	}
	w.env.Outcome(fmt.Sprintf("align-due:before=%d", before))
	return true
}

// genDueScenarios: directed scenarios U1..U7. off = import height - completion height of the records.
func genDueScenarios(env *Env) {
	rng := NewRNG(env.Report.Seed*7919 + 18) // own stream: the random histories do not depend on these scenarios
	for i, sc := range []struct {
		off        int
		held, free bool
		cont       int
	}{
		{-1, true, true, 4}, // due at import height + 1
		{0, true, true, 4},  // the last block before the completion height: both records due AT the import height
		{1, true, true, 6},  // the block of the completion height: the held record re-queued for the import height, the other one completed
		{3, true, true, 8},  // re-queued three times; the continuation runs over the epoch ends that release the hold
		{0, false, true, 4}, // control: no hold anywhere
		{1, true, false, 4}, // control: held record only, re-queued once
		{0, true, false, 4}, // held record in its last block before the (first) completion height
	} {
		name := fmt.Sprintf("U%d", i+1)
		genScenario(env, name, func() {
			w := newGenWorld(env, rng, env.Report.Seed*1000+930+uint64(i))
			w.directed = name
			c := w.c
			c.EndAndBegin(time.Minute)
			ok := w.deposit(0, 9000000) == nil
			freeOp := -1
			if sc.free {
				// an operator registered during the history: not opted into the chain's AVS, x/dogfood places no hold
				ok = ok && w.registerOperator(false) == nil
				freeOp = len(c.Operators) - 1
				ok = ok && w.delegate(0, freeOp, 4000000, false) == nil
			}
			if sc.held {
				ok = ok && w.delegate(0, 0, 3000000, false) == nil
			}
			c.EndAndBegin(time.Second)
			if sc.free {
				ok = ok && w.delegate(0, freeOp, 2000000, true) == nil
			}
			if sc.held {
				ok = ok && w.delegate(0, 0, 1000000, true) == nil
			}
			recs, _ := c.App.DelegationKeeper.AllUndelegations(c.Ctx)
			want := map[bool]int{true: 1}[sc.free] + map[bool]int{true: 1}[sc.held]
			if !ok || len(recs) != want {
				env.Note("directed-" + name + "-setup-failed")
				env.Outcome(fmt.Sprintf("directed:%s setup failed ok=%v records=%d", name, ok, len(recs)))
				return
			}
			complete := int64(recs[0].CompleteBlockNumber)
			// the export commits the running block: import height = Header.Height + 1
			for c.Header.Height+1 < complete+int64(sc.off) {
				if r := c.EndAndBegin(time.Second); r.Halt != "" {
					env.Violate("C18.halt", "halt", "block processing panicked: "+r.Halt, w.hist)
					return
				}
			}
			w.note("export in block %d (import at %d); the undelegations of block %d complete at %d", c.Header.Height, c.Header.Height+1, recs[0].BlockNumber, complete)
			before := genDue
			w.exportPoint(false, sc.cont)
			env.Outcome(fmt.Sprintf("directed:%s off=%d held=%v free=%v at-import-held=%d at-import-free=%d requeued=%d next=%d", name, sc.off, sc.held, sc.free,
				genDue.atHeld-before.atHeld, genDue.atFree-before.atFree, genDue.requeued-before.requeued, genDue.next-before.next))
		})
	}
}

// genDueCoverage: see the file comment
func genDueCoverage(env *Env, histories int) {
	env.Eval("C18.coverage")
	env.Outcome(fmt.Sprintf("due-coverage:random-at-import=%d,random-next=%d", min(genDue.randomAt, 3), min(genDue.randomNext, 3)))
	if genDue.points == 0 || env.Int("due", 1) == 0 {
		return
	}
	for _, k := range []struct {
		n         int
		sig, what string
	}{
		{genDue.atHeld, "held-record-due-at-import-height", "a record held by x/dogfood whose CompleteBlockNumber is the import height"},
		{genDue.atFree, "unheld-record-due-at-import-height", "a record without a hold whose CompleteBlockNumber is the import height (export in the last block before its completion)"},
		{genDue.requeued, "requeued-record", "a held record that x/delegation EndBlock re-queued for the next height"},
		{genDue.next, "record-due-after-import-height", "a record whose CompleteBlockNumber is the import height + 1"},
	} {
		if k.n == 0 {
			env.Violate("C18.coverage", "coverage:no-export-with-"+k.sig,
				fmt.Sprintf("none of the %d export points of this run had %s: the clause 'a fresh chain can be initialised from the export' went unjudged on the block boundary of the undelegation records", genDue.points, k.what), nil)
		}
	}
}
