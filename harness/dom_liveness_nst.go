package main

// liveness_nst — directed scenario for candidate defect F-11c of C11 (nothing may panic in
// BeginBlock/EndBlock).
//
// x/oracle/keeper/native_token.go: parseBalanceChange(rawData, sl) reads rawData[:32] as a bitmap of
// staker indexes and rawData[32:] as a packed list of balance changes, indexing changes[byteIndex] and
// sl.StakerAddrs[index] without any bounds check; UpdateNSTByBalanceChange only checks
// len(rawData) >= 32 and len(sl.StakerAddrs) != 0 before calling it. The raw data is the STORED PRICE
// STRING of the NST token's oracle round ([]byte(priceTR.Price) in prices.go: AppendPriceTR), and that is
// the base-10 rendering of the aggregated big.Int (aggregator/context.go: FillPrice, finalPrice.String()).
// ASCII digits are 0x30..0x39 = 0011xxxx: every stored price of >= 32 digits is a "bitmap" that flags
// stakers 2,3,10,11,… and whose changes part is what follows the 32nd digit.
//
// AppendPriceTR is reached from DeliverTx (round reaches consensus; a panic only rejects the tx) and from
// x/oracle EndBlock -> GrowRoundID for every token whose round failed (window expired without consensus,
// or forced seal on a validator set change): GrowRoundID re-appends the PREVIOUS stored price, so the
// previous price is parsed again, in EndBlock, where a panic stops the node.
//
// History (variant 0, the default):
//   1. genesis with the NST asset (0xee…ee on client chain 101, 18 decimals) + oracle token 2 + feeder 2
//      (interval 10, rule 1); the feeder's StartRoundID is set to 2 because DefaultCfg presets round 1 of
//      every token in the genesis (with the default StartRoundID 1 the first consensus price would be
//      refused for "roundID mismatch" and the previous price re-appended instead — see note below);
//   2. while the NST staker list is empty, every validator quotes 10^31 ("1" followed by 31 zeros, 32
//      digits) for feeder 2 in real signed MsgCreatePrice txs through BaseApp.DeliverTx; the price reaches
//      consensus, AppendPriceTR stores it (UpdateNSTByBalanceChange returns "staker list is empty", only logged);
//   3. the gateway deposits 32 ETH of NST for one staker through the real assets precompile (depositNST):
//      the staker list becomes non-empty;
//   4. blocks go by without any quote: the next round's window expires, EndBlock -> SealRound(failed) ->
//      GrowRoundID -> AppendPriceTR(10^31) -> UpdateNSTByBalanceChange -> parseBalanceChange: changes is
//      empty, bit 2 of '1' (0x31) is set -> changes[0] -> index out of range.
//
// variant 1 ("stale bitmap after the staker list shrank"): three stakers deposit, two withdraw again (list
//   shrinks to 1), the stored price has 33 digits: changes[0] exists and decodes, sl.StakerAddrs[2] does not.
// variant 2 (b2): a staker exists BEFORE the 32-digit price reaches consensus: the panic happens in
//   DeliverTx (tx rejected, nothing stored, but the in-memory round is sealed); the scenario then runs the
//   following blocks to see what EndBlock does with that.
// The default run executes the three variants, each on a fresh chain; `variant=N` runs exactly one.

import (
	"encoding/json"
	"fmt"
	"math/big"
	"os"
	"strings"
	"time"

	oraclekeeper "github.com/ExocoreNetwork/exocore/x/oracle/keeper"
	oracletypes "github.com/ExocoreNetwork/exocore/x/oracle/types"
)

func init() { register("liveness_nst", domLivenessNst) }

const nstFeederID = 2 // DefaultCfg: asset i gets token i+1 and feeder i+1; the NST asset is asset 1

type nstRun struct {
	env  *Env
	c    *Chain
	hist []string
	abis xbABIs
	id   string // NST asset id
}

func (r *nstRun) step(s string) { r.hist = append(r.hist, s) }

// block ends the current block and begins the next one; returns the halt text (empty = none).
func (r *nstRun) block() string {
	res := r.c.EndAndBegin(5 * time.Second)
	return res.Halt
}

func (r *nstRun) latest() (string, uint64) {
	p, ok := r.c.App.OracleKeeper.GetPriceTRLatest(r.c.Ctx, nstFeederID)
	if !ok {
		return "<none>", 0
	}
	return p.Price, p.RoundID
}

func (r *nstRun) stakers() int {
	return len(r.c.App.OracleKeeper.GetStakerList(r.c.Ctx, r.id).StakerAddrs)
}

// nst drives the real assets precompile from the gateway address like the client chain gateway does.
func (r *nstRun) nst(method string, staker Actor, pubkey string, eth int64) string {
	amt := new(big.Int).Mul(big.NewInt(eth), new(big.Int).Exp(big.NewInt(10), big.NewInt(18), nil))
	data, err := r.abis.assets.Pack(method, uint32(r.c.LzID), []byte(pubkey), pad32(staker.Eth.Bytes()), amt)
	if err != nil {
		return "pack:" + err.Error()
	}
	m := r.abis.assets.Methods[method]
	res := xbEvmCall(r.c, r.c.Funded.Eth, xbAssetsAddr, data, &m)
	cl := res.Class()
	if cl != "ok" {
		cl += ":" + tailStr(res.VMErr+res.Err+res.Panic, 120)
	}
	return cl
}

// quote lets every validator deliver a signed MsgCreatePrice for the NST feeder's current round.
// Returns the DeliverTx codes, the logs of refused txs, and a halt text if DeliverTx itself panicked
// out of BaseApp (it must not: runTx recovers message panics).
func (r *nstRun) quote(price string, based uint64) (codes []uint32, logs []string, halt string) {
	for vi, priv := range r.c.ConsPrivs {
		bz, err := oraclePriceTx(r.c, priv, priceMsg(oracleCreator(priv), nstFeederID, based, 1, price, 0, "1", r.c.Header.Time))
		if err != nil {
			logs = append(logs, fmt.Sprintf("v%d build: %v", vi, err))
			continue
		}
		res, h := r.c.DeliverRaw(bz)
		if h != "" {
			return codes, logs, h
		}
		codes = append(codes, res.Code)
		if res.Code != 0 {
			// the log of a recovered panic carries a stack trace (addresses): keep the message only
			l := strings.ReplaceAll(res.Log, "\n", " ")
			if i := strings.Index(l, " stack:"); i >= 0 {
				l = l[:i]
			}
			logs = append(logs, fmt.Sprintf("v%d: %s", vi, tailStr(l, 200)))
		}
		if os.Getenv("NST_DEBUG") != "" {
			fmt.Fprintf(os.Stderr, "DEBUG quote v%d code=%d log=%s\n", vi, res.Code, tailStr(res.Log, 400))
		}
	}
	return
}

// scenarioF11c returns (halt, note, history). halt != "" only for a panic out of EndBlock/Commit/BeginBlock
// at or after the trigger; anything that stops the scenario earlier is reported through note.
func scenarioF11c(env *Env, seed uint64, variant int) (string, string, []string) {
	digits := 32
	if variant == 1 {
		digits = 33
	}
	price := "1" + strings.Repeat("0", digits-1)
	r := &nstRun{env: env}
	op := fmt.Sprintf("nst.reset seed=%d variant=%d assets=USDT(6),NST(18) operators=2 nstFeeder=%d interval=10 startRound=2", seed, variant, nstFeederID)
	r.hist = []string{op}
	env.Op(op, "ok")

	cfg := DefaultCfg(seed)
	cfg.Assets = append(cfg.Assets, AssetSpec{Addr: nstAddrHex, Decimals: 18, Price: "1", PriceDec: 0})
	cfg.Mutate = func(c *Chain, gs map[string]json.RawMessage) {
		// DefaultCfg stores round 1 of every token in the genesis (NextRoundID 2) but starts the feeders at
		// round 1; make the NST feeder continue at round 2 so that a consensus price is stored under the id
		// the store expects.
		var og oracletypes.GenesisState
		c.App.AppCodec().MustUnmarshalJSON(gs[oracletypes.ModuleName], &og)
		if env.Int("fixround", 1) == 1 { // fixround=0: keep DefaultCfg's mismatch (diagnostic only)
			og.Params.TokenFeeders[nstFeederID].StartRoundID = 2
		}
		gs[oracletypes.ModuleName] = c.App.AppCodec().MustMarshalJSON(&og)
	}
	c := NewChainFresh(cfg)
	r.c = c
	r.abis = xbLoadABIs(c)
	r.id = AssetIDOf(c.LzID, nstAddrHex)
	before := func(h string) (string, string, []string) {
		return "", "unexpected halt before the trigger: " + h, r.hist
	}
	st := []Actor{NewActor(seed, "nststaker", 0), NewActor(seed, "nststaker", 1), NewActor(seed, "nststaker", 2)}
	deposit := func(i int) string {
		cl := r.nst("depositNST", st[i], fmt.Sprintf("validator-pubkey-%02d", i), 32)
		r.step(fmt.Sprintf("nst.evm assets.depositNST gateway=%s staker[%d]=%s 32 ETH => %s (stakers=%d)", c.Funded.Eth.Hex(), i, st[i].Eth.Hex(), cl, r.stakers()))
		return cl
	}

	// block 2: inside the window of the feeder's first round (based block 1, heights 2..4)
	if h := r.block(); h != "" {
		return before(h)
	}
	r.step(fmt.Sprintf("nst.block -> height %d", c.Header.Height))

	if variant == 2 {
		if cl := deposit(0); cl != "ok" {
			return "", "depositNST refused: " + cl, r.hist
		}
	}
	p0, r0 := r.latest()
	codes, logs, h := r.quote(price, 1)
	if h != "" {
		return before(h)
	}
	p1, r1 := r.latest()
	r.step(fmt.Sprintf("nst.delivertx MsgCreatePrice feeder=%d based=1 nonce=1 price=%s (%d digits) detID=1 by all %d validators -> codes %v; latest stored price %s (round %d) -> %s (round %d)",
		nstFeederID, price, digits, len(c.ConsPrivs), codes, p0, r0, p1, r1))
	if variant == 2 {
		// the consensus-reaching tx is expected to be rejected with a recovered panic and nothing stored
		note := fmt.Sprintf("b2: codes=%v stored=%s(round %d) lastLog=%q", codes, p1, r1, strings.Join(logs, " | "))
		mem := oraclekeeper.VerifDumpAgc(func(s string) string { return s })
		r.step("nst.mem after the rejected tx: " + tailStr(strings.ReplaceAll(mem, "\n", " "), 300))
		for i := 0; i < 25; i++ {
			if h := r.block(); h != "" {
				return h, note + fmt.Sprintf(" halted at height %d", c.Header.Height), r.hist
			}
		}
		p2, r2 := r.latest()
		r.step(fmt.Sprintf("nst.blocks 25 without quotes -> height %d latest stored %s (round %d) nextRoundID=%d", c.Header.Height, p2, r2, c.App.OracleKeeper.GetNextRoundID(c.Ctx, nstFeederID)))
		return "", note + fmt.Sprintf(" after25blocks=%s(round %d)", p2, r2), r.hist
	}
	if p1 != price {
		return "", fmt.Sprintf("the %d-digit price was not stored: codes=%v latest=%s(round %d) logs=%q", digits, codes, p1, r1, strings.Join(logs, " | ")), r.hist
	}

	// the staker list becomes non-empty (through the real precompile, in a later block)
	if h := r.block(); h != "" {
		return before(h)
	}
	r.step(fmt.Sprintf("nst.block -> height %d", c.Header.Height))
	if cl := deposit(0); cl != "ok" {
		return "", "depositNST refused: " + cl, r.hist
	}
	if variant == 1 {
		for i := 1; i < 3; i++ {
			if cl := deposit(i); cl != "ok" {
				return "", "depositNST refused: " + cl, r.hist
			}
		}
		for i := 1; i < 3; i++ {
			cl := r.nst("withdrawNST", st[i], fmt.Sprintf("validator-pubkey-%02d", i), 32)
			r.step(fmt.Sprintf("nst.evm assets.withdrawNST staker[%d] 32 ETH => %s (stakers=%d)", i, cl, r.stakers()))
			if cl != "ok" {
				return "", "withdrawNST refused: " + cl, r.hist
			}
		}
	}
	n := r.stakers()
	if n == 0 {
		return "", "staker list still empty after the deposit", r.hist
	}

	// trigger: nobody quotes any more. The next round (based block 11, window 12..14) fails in the EndBlock
	// of height 14; up to 25 blocks are given.
	r.step("nst.blocks without any quote (trigger: EndBlock of the block that closes the next round's window)")
	for i := 0; i < 25; i++ {
		hgt := c.Header.Height
		if h := r.block(); h != "" {
			return h, fmt.Sprintf("variant=%d height=%d stakers=%d storedPrice=%s digits=%d", variant, hgt, n, price, digits), r.hist
		}
	}
	p2, r2 := r.latest()
	return "", fmt.Sprintf("no halt in 25 blocks: variant=%d stakers=%d latest=%s(round %d)", variant, n, p2, r2), r.hist
}

func domLivenessNst(env *Env) error {
	env.Report.Domain = "liveness_nst"
	seed := env.Report.Seed*1000 + 711
	variants := []int{0, 1, 2}
	only := env.Int("variant", -1)
	if only >= 0 {
		variants = []int{only}
	}
	for _, v := range variants {
		halt, note, hist := scenarioF11c(env, seed, v)
		env.Op("nst.directed F-11c", fmt.Sprintf("halt=%v note=%s", halt != "", note))
		env.Eval("C11.directed")
		env.Report.Histories++
		env.Outcome(fmt.Sprintf("directed.F-11c.variant=%d.halt=%v", v, halt != ""))
		env.DistinctKey(fmt.Sprintf("f11c-%d-%v", v, halt != ""))
		env.Sample(strings.Join(hist, " ; "))
		if halt != "" {
			// every variant runs on its own fresh chain: a repair that guards only one of the two unchecked
			// accesses (changes[…] / sl.StakerAddrs[…]) is still caught by the other variant
			env.Violate("C11.directed", "halt:nst-balance-bitmap", "F-11c: "+halt+" ["+note+"]", hist)
		}
		if strings.HasPrefix(note, "unexpected halt before the trigger") {
			env.Note("f11c-halt-before-trigger")
		}
	}
	return nil
}
