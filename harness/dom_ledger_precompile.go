package main

// C01–C03 (ledger domain) — the glue in front of the keepers.
//
// A staker's deposit / withdrawal / delegation / undelegation / association / dissociation never reaches
// the keepers directly: it arrives as a call of the gateway contract to the assets (0x…0804) or delegation
// (0x…0805) precompile, whose Go code decodes the ABI arguments (client chain id, 32-byte padded addresses
// cut to the chain's address length, bech32 operator address as bytes, uint256 amount), chooses the Action
// and the sign of the booking, takes the tx hash from the context, and calls the keeper. For about half of
// the client-chain operations of a history the ledger domain therefore makes the REAL call through the EVM
// (x/evm ApplyMessageWithConfig, caller = the configured gateway), with the same op line for the Lean model
// as the direct keeper call: the model's post-state (model-diff:ledger), the C01 conservation monitor (the
// expected value delta of a deposit is +x, of a withdrawal -x, of everything else 0) and the C02/C03
// monitors then see the precompile's reading of the arguments, not just the keeper's.
//
// `pc=0` switches the routing off (every call goes to the keepers, the behaviour before this file).

import (
	"errors"
	"fmt"
	"math/big"

	sdkmath "cosmossdk.io/math"
	sdk "github.com/cosmos/cosmos-sdk/types"
	"github.com/ethereum/go-ethereum/common"
)

var ledgerABIs = map[*Chain]xbABIs{}

// xbNextTxHash: the tx hash xbEvmCall will give its next call (undelegation records are keyed by it).
func xbNextTxHash() common.Hash {
	var th common.Hash
	binaryPut(th[:], xbTxCounter+1)
	th[0] = 0xEE
	return th
}

// usePC decides whether the next client-chain operation goes through the precompile. The native token
// (client chain 0) has no gateway path (it is delegated by a cosmos message), and the precompiles refuse a
// zero amount that the keepers book as a no-op, so those two cases stay on the keeper path.
func (w *ledgerWorld) usePC(lz uint64, amount *sdkmath.Int) bool {
	if w.env.Int("pc", 1) == 0 || lz != w.c.LzID {
		return false
	}
	if amount != nil && !amount.IsPositive() {
		return false
	}
	if amount != nil && amount.BigInt().BitLen() > 256 {
		return false
	}
	return w.rng.Chance(1, 2)
}

// pc makes one call as the gateway and maps the outcome to the error a keeper call would have given:
// nil for a reported success, an error for `false` / revert / consensus error, "panic: …" for a panic
// (recovered by baseapp in a real tx: nothing is written).
func (w *ledgerWorld) pc(what string, to common.Address, assets bool, method string, args ...interface{}) error {
	c := w.c
	abis, ok := ledgerABIs[c]
	if !ok {
		abis = xbLoadABIs(c)
		ledgerABIs = map[*Chain]xbABIs{c: abis}
	}
	a := abis.deleg
	if assets {
		a = abis.assets
	}
	data, err := a.Pack(method, args...)
	if err != nil {
		return fmt.Errorf("panic: harness could not pack %s: %v", method, err)
	}
	m := a.Methods[method]
	// a transaction starts with a gas meter of its own. The deliver-state context of the harness keeps ONE
	// meter for all the operations of a block, and the precompiles' RunSetup charges what the ambient meter
	// has consumed so far to the call's own budget (`ctx.GasMeter().ConsumeGas(initialGas, …)`): without the
	// reset, the 60th call of a block runs "out of gas" on the gas of the 59 before it.
	c.Ctx = c.Ctx.WithGasMeter(sdk.NewInfiniteGasMeter())
	r := xbEvmCall(c, c.Funded.Eth, to, data, &m)
	w.env.Outcome("via-precompile." + what + "." + r.Class())
	switch r.Class() {
	case "ok":
		return nil
	case "panic":
		return errors.New("panic: " + r.Panic)
	case "false":
		return errors.New("precompile reported false")
	}
	return errors.New("precompile call failed: " + r.Class() + " " + r.VMErr + r.Err)
}

func (w *ledgerWorld) pcDepositOrWithdraw(deposit bool, staker, asset []byte, x sdkmath.Int) error {
	m, what := "withdrawLST", "withdraw"
	if deposit {
		m, what = "depositLST", "deposit"
	}
	return w.pc(what, xbAssetsAddr, true, m, uint32(w.c.LzID), pad32(asset), pad32(staker), new(big.Int).Set(x.BigInt()))
}

func (w *ledgerWorld) pcDelegate(undelegate bool, nonce uint64, staker, asset []byte, op sdk.AccAddress, x sdkmath.Int) error {
	m := "delegate"
	if undelegate {
		m = "undelegate"
	}
	return w.pc(m, xbDelegAddr, false, m, uint32(w.c.LzID), nonce, pad32(asset), pad32(staker), []byte(op.String()), new(big.Int).Set(x.BigInt()))
}

func (w *ledgerWorld) pcAssociate(staker []byte, op sdk.AccAddress) error {
	return w.pc("associate", xbDelegAddr, false, "associateOperatorWithStaker", uint32(w.c.LzID), pad32(staker), []byte(op.String()))
}

func (w *ledgerWorld) pcDissociate(staker []byte) error {
	return w.pc("dissociate", xbDelegAddr, false, "dissociateOperatorFromStaker", uint32(w.c.LzID), pad32(staker))
}
