package main

// C18, export points with SLASHED pending undelegations.
//
// A slash takes its amount out of the operator's pending undelegations first and clamps at zero
// (x/operator/keeper/slash.go SlashFromUndelegation: `undelegation.ActualCompletedAmount = sdkmath.NewInt(0)`;
// x/delegation/keeper/update_native_restaking_balance.go does the same for a native-restaking balance decrease).
// The record stays in the store - and in the export - until its completion block / until x/dogfood releases its hold;
// on completion it credits ActualCompletedAmount (possibly 0). Before this file no history of the genesis domain
// contained a slash, so every exported record had ActualCompletedAmount == Amount.
//
//   * generator: step `slash` = what x/slashing (downtime) and x/evidence (equivocation) do to a validator:
//     StakingKeeper.SlashWithInfractionReason(ctx, consAddr, infractionHeight, power, factor, infraction) on the block's
//     context (x/dogfood impl_sdk.go -> x/operator SlashWithInfractionReason -> Slash -> SlashAssets). Factors 1%, 5%, 50%,
//     100%; power = the validator's own power or far more than the operator is worth (the effective proportion is
//     power*factor/value clamped at 1: a 100% slash); infraction height 1..3 blocks back (an undelegation submitted at or
//     after it is slashed), or the current height (no undelegation is touched: control). Step `nstdecrease` = what the
//     oracle's balance-change report ends in: DelegationKeeper.UpdateNSTBalance(staker, asset, -x) with x up to more than
//     withdrawable + pending.
//     Random "slash worlds" (own random stream: the histories of the other generators are unchanged) interleave
//     deposits, delegations, undelegations, slashes, blocks and epoch ends; directed scenarios
//       S1  one pending undelegation, 100% slash of its operator one block later: ActualCompletedAmount 0, exported pending
//       S2  two undelegations from two operators, 50% then 5% then 50%+50%... repeated partial slashes driving one to 0
//       S3  NST world: deposit through the precompile, delegate, undelegate, balance decrease larger than withdrawable +
//           pending: the record is slashed to 0, the delegated share is cut
//       S4  a slash whose infraction height is the current block (undelegations untouched) + 100% slash of an operator
//           whose undelegation was submitted BEFORE the infraction (untouched as well): control
//     each run on in lock step past the completion of the records on both chains.
//   * model ops `gen.uv <id> <submitted> <complete> <amount> <actual> <pending>` for EVERY exported record of EVERY export
//     point of the domain; observation = the verdict of the real GenesisState.ValidateUndelegations on the one-record
//     document (Model/GenesisDelegation.lean validateUnd must say the same).
//   * monitor C18.slashed, evaluated on the real state at every export point:
//       validate:delegation-slashed-undelegation  the delegation module's own export is rejected by its Validate and the
//                                                 document holds a slashed record (ActualCompletedAmount < Amount)
//       slashed:actual-amount-changed             a record's ActualCompletedAmount differs on the re-imported chain
//       slashed:credit-differs                    after the lock-step continuation the staker's withdrawable amount /
//                                                 pending amount of the record's asset differ between the chains
//       slashed:actual-out-of-range               a stored record with ActualCompletedAmount < 0 or > Amount

import (
	"fmt"
	"math/big"
	"sort"
	"strings"
	"time"

	sdkmath "cosmossdk.io/math"
	assetstypes "github.com/ExocoreNetwork/exocore/x/assets/types"
	delegationtypes "github.com/ExocoreNetwork/exocore/x/delegation/types"
	sdk "github.com/cosmos/cosmos-sdk/types"
	stakingtypes "github.com/cosmos/cosmos-sdk/x/staking/types"
)

type undRec struct {
	id                  string // sha8 of the record key
	staker, asset       string
	submitted, complete uint64
	amount, actual      sdkmath.Int
	pending             bool
	verdict             string // the real ValidateUndelegations on the one-record document
}

func viewUndRecs(c *Chain, ctx sdk.Context) (out []undRec) {
	recs, _ := c.App.DelegationKeeper.AllUndelegations(ctx)
	for _, r := range recs {
		key := delegationtypes.GetUndelegationRecordKey(r.BlockNumber, r.LzTxNonce, r.TxHash, r.OperatorAddr)
		u := undRec{id: fmt.Sprintf("%x", sha8(key)), staker: r.StakerID, asset: r.AssetID, submitted: r.BlockNumber, complete: r.CompleteBlockNumber,
			amount: r.Amount, actual: r.ActualCompletedAmount, pending: r.IsPending}
		u.verdict = "ok"
		func() {
			defer func() {
				if p := recover(); p != nil {
					u.verdict = "panic"
				}
			}()
			if err := (delegationtypes.GenesisState{Undelegations: []delegationtypes.UndelegationRecord{r}}).ValidateUndelegations(); err != nil {
				u.verdict = "rej"
			}
		}()
		out = append(out, u)
	}
	sort.Slice(out, func(i, j int) bool { return out[i].id < out[j].id })
	return
}

func intOrNil(x sdkmath.Int) string {
	if x.IsNil() {
		return "nil"
	}
	return x.String()
}

var genLastUnds = map[*genWorld][]undRec{}

// emitUndRecords: every exported undelegation record as a model op; the observation is the module's own verdict on it.
func (w *genWorld) emitUndRecords() {
	recs := viewUndRecs(w.c, committedCtx(w.c))
	genLastUnds[w] = recs
	nSl, nZero := 0, 0
	for _, u := range recs {
		p := 0
		if u.pending {
			p = 1
		}
		w.op(fmt.Sprintf("gen.uv %s %d %d %s %s %d", u.id, u.submitted, u.complete, intOrNil(u.amount), intOrNil(u.actual), p), u.verdict)
		if !u.actual.IsNil() && !u.amount.IsNil() && u.actual.LT(u.amount) {
			nSl++
			if u.actual.IsZero() {
				nZero++
			}
		}
	}
	w.env.Outcome(fmt.Sprintf("state:slashed-unds=%d,zeroed=%d", min(nSl, 3), min(nZero, 2)))
	if nSl > 0 {
		w.env.DistinctKey(fmt.Sprintf("slashed-%d-%d-%d", len(recs), nSl, nZero))
	}
}

// checkSlashed: monitor C18.slashed (see the header).
func (w *genWorld) checkSlashed(res roundTripResult) {
	env := w.env
	env.Eval("C18.slashed")
	recs := genLastUnds[w]
	delete(genLastUnds, w)
	var slashed []string
	for _, u := range recs {
		if u.actual.IsNil() || u.amount.IsNil() || u.actual.IsNegative() || u.actual.GT(u.amount) {
			env.Violate("C18.slashed", "slashed:actual-out-of-range", fmt.Sprintf("stored undelegation record %s: Amount %s ActualCompletedAmount %s", u.id, intOrNil(u.amount), intOrNil(u.actual)), w.hist)
			continue
		}
		if u.actual.LT(u.amount) || u.actual.IsZero() { // (a record submitted after a 100 % slash is worth 0 of 0)
			slashed = append(slashed, fmt.Sprintf("%s: amount %s, left after the slash %s, completes at height %d", u.id, u.amount, u.actual, u.complete))
		}
	}
	if e := res.validateErr["delegation"]; e != "" && len(slashed) > 0 && !strings.Contains(e, "TxHash isn't a") {
		env.Violate("C18.slashed", "validate:delegation-slashed-undelegation", fmt.Sprintf("a pending undelegation that a slash has reduced (%s) is a state the chain reaches and keeps until the record completes; the delegation module's own export of it fails GenesisState.Validate: %.300s", strings.Join(slashed, "; "), e), w.hist)
	}
	if res.c2 == nil {
		return
	}
	// the records as the re-imported chain stores them right after InitChain are compared by the store / JSON monitors; here:
	// what the stakers are credited once both chains have run on
	c, c2 := w.c, res.c2
	if c.Halted != "" || c2.Halted != "" {
		return
	}
	after1, after2 := map[string]undRec{}, map[string]undRec{}
	for _, u := range viewUndRecs(c, c.Ctx) {
		after1[u.id] = u
	}
	for _, u := range viewUndRecs(c2, c2.Ctx) {
		after2[u.id] = u
	}
	seen := map[string]bool{}
	for _, u := range recs {
		a, in1 := after1[u.id]
		b, in2 := after2[u.id]
		if in1 && in2 && !a.actual.Equal(b.actual) {
			env.Violate("C18.slashed", "slashed:actual-amount-changed", fmt.Sprintf("record %s: ActualCompletedAmount %s on the original chain, %s on the re-imported chain", u.id, a.actual, b.actual), w.hist)
		}
		k := u.staker + " " + u.asset
		if seen[k] {
			continue
		}
		seen[k] = true
		i1, e1 := c.App.AssetsKeeper.GetStakerSpecifiedAssetInfo(c.Ctx, u.staker, u.asset)
		i2, e2 := c2.App.AssetsKeeper.GetStakerSpecifiedAssetInfo(c2.Ctx, u.staker, u.asset)
		if (e1 == nil) != (e2 == nil) {
			env.Violate("C18.slashed", "slashed:credit-differs", fmt.Sprintf("staker %s asset %s: asset info readable on one chain only after the continuation (%v / %v)", u.staker, u.asset, e1, e2), w.hist)
			continue
		}
		if e1 == nil && (!i1.WithdrawableAmount.Equal(i2.WithdrawableAmount) || !i1.PendingUndelegationAmount.Equal(i2.PendingUndelegationAmount) || !i1.TotalDepositAmount.Equal(i2.TotalDepositAmount)) {
			env.Violate("C18.slashed", "slashed:credit-differs", fmt.Sprintf("staker %s asset %s after the lock-step continuation: original total/withdrawable/pending %s/%s/%s, re-imported %s/%s/%s",
				u.staker, u.asset, i1.TotalDepositAmount, i1.WithdrawableAmount, i1.PendingUndelegationAmount, i2.TotalDepositAmount, i2.WithdrawableAmount, i2.PendingUndelegationAmount), w.hist)
		}
	}
}

// slashStateFinding: F-18s. x/operator Slash stores, per slash, one SlashFromUndelegation entry per pending undelegation
// record it went through and one SlashFromAssetsPool entry per pool of the operator - also entries of amount 0 (a small
// record / an empty pool: proportion*amount truncates to 0) and two entries with the same (staker, asset) when a staker
// has two pending undelegations of one asset from the operator. ValidateSlashStates rejects a non-positive amount and a
// repeated (staker, asset): the operator module's own export of such a state fails its Validate.
func (w *genWorld) slashStateFinding(m, e string) bool {
	if m != "operator" {
		return false
	}
	sig, what := "", ""
	switch {
	case strings.Contains(e, "invalid slashing amount from the undelegation"):
		sig, what = "validate:operator-slash-zero-undelegation-amount", "a slash went through a pending undelegation so small that proportion*amount truncates to 0; the stored slash record lists it with amount 0"
	case strings.Contains(e, "invalid slashing amount from the assets pool"):
		sig, what = "validate:operator-slash-zero-pool-amount", "a slash went through a pool of the operator from which nothing could be taken (empty pool, or proportion*total truncates to 0); the stored slash record lists it with amount 0"
	case strings.Contains(e, "duplicate element") && strings.Contains(e, "_0x") && w.slashedTwiceSameStaker():
		sig, what = "validate:operator-slash-duplicate-undelegation", "a slash went through two pending undelegations of the same staker and asset; the stored slash record lists (staker, asset) twice"
	default:
		return false
	}
	w.env.Violate("C18.validate", sig, what+": the operator module's own export fails GenesisState.Validate (ValidateSlashStates): "+e, w.hist)
	return true
}

// isSlashStateErr: the rejection comes from ValidateSlashStates (F-18s). The slash records are not part of the Lean model of
// the operator module; ValidateSlashStates runs after every part the model carries (operators, key records, opted states,
// AVS / operator USD values), so the verdict of the MODELLED part of Validate is "accepted" when this is the error. The
// rejection itself is reported by the monitor C18.validate under the sigs of F-18s.
func isSlashStateErr(e string) bool {
	return strings.Contains(e, "invalid slashing amount from the undelegation") || strings.Contains(e, "invalid slashing amount from the assets pool") ||
		(strings.Contains(e, "duplicate element") && strings.Contains(e, "_0x") && strings.Contains(e, "/0x"))
}

// slashedTwiceSameStaker: some stored slash record lists a (staker, asset) pair twice among its undelegation entries
func (w *genWorld) slashedTwiceSameStaker() bool {
	c := w.c
	states, err := c.App.OperatorKeeper.GetAllSlashStates(committedCtx(c))
	if err != nil {
		return false
	}
	for _, st := range states {
		if st.Info.ExecutionInfo == nil {
			continue
		}
		seen := map[string]bool{}
		for _, u := range st.Info.ExecutionInfo.SlashUndelegations {
			k := u.StakerID + "/" + u.AssetID
			if seen[k] {
				return true
			}
			seen[k] = true
		}
	}
	return false
}

// slash: what x/slashing / x/evidence do to a validator (BeginBlock, on the block's context). pct = slash factor in percent,
// back = how many blocks before the current one the infraction happened.
func (w *genWorld) slash(oi int, pct int64, power int64, back int64, infraction stakingtypes.Infraction) (out string) {
	c := w.c
	cons, inSet := w.consOf(oi)
	if cons == nil {
		return "no-key"
	}
	h := c.Ctx.BlockHeight() - back
	if h < 1 {
		h = 1
	}
	before := viewUndRecs(c, c.Ctx)
	w.note("StakingKeeper.SlashWithInfractionReason operator=%d consAddr=%x (in the validator set: %v) infractionHeight=%d power=%d factor=%d%% infraction=%s",
		oi, []byte(cons), inSet, h, power, pct, infraction)
	defer func() {
		if p := recover(); p != nil {
			w.note("SlashWithInfractionReason panicked: %v", p)
			w.env.Violate("C18.halt", "halt", fmt.Sprintf("SlashWithInfractionReason (called from BeginBlock by x/slashing / x/evidence) panicked: %v", p), w.hist)
			out = "panic"
		}
	}()
	c.App.StakingKeeper.SlashWithInfractionReason(c.Ctx, cons, h, power, sdk.NewDecWithPrec(pct, 2), infraction)
	after := map[string]undRec{}
	for _, u := range viewUndRecs(c, c.Ctx) {
		after[u.id] = u
	}
	cut, zero := 0, 0
	for _, u := range before {
		if a, ok := after[u.id]; ok && a.actual.LT(u.actual) {
			cut++
			if a.actual.IsZero() {
				zero++
			}
		}
	}
	return fmt.Sprintf("pending=%d:cut=%d:zeroed=%d", min(len(before), 3), min(cut, 3), min(zero, 2))
}

// nstDecrease: the end of the oracle's balance-change report for a native-restaking staker.
func (w *genWorld) nstDecrease(si int, amt *big.Int) string {
	c := w.c
	stakerID, assetID := assetstypes.GetStakerIDAndAssetID(c.LzID, w.stakers[si].Bytes(), w.assetAddr())
	w.note("DelegationKeeper.UpdateNSTBalance staker=%d asset=%d amount=-%s", si, w.asset, amt)
	err := c.CachedDo(func(ctx sdk.Context) error {
		return c.App.DelegationKeeper.UpdateNSTBalance(ctx, stakerID, assetID, sdkmath.NewIntFromBigInt(amt).Neg())
	})
	return genErrClass(err)
}

func (w *genWorld) pendingUnds() int {
	recs, _ := w.c.App.DelegationKeeper.AllUndelegations(w.c.Ctx)
	return len(recs)
}

// slashOps: a history of deposits, delegations, undelegations, slashes and blocks.
func (w *genWorld) slashOps(n int) {
	c, r := w.c, w.rng
	deleg := map[[2]int]int64{}
	full := -1 // at most one operator is slashed by 100% (the validator set must not empty)
	nSlash := 0
	for i := 0; i < n && c.Halted == ""; i++ {
		si, oi := r.Intn(len(w.stakers)), r.Intn(c.Cfg.NOperators)
		switch r.Pick(3, 3, 4, 3, 1) {
		case 0:
			amt := int64(1+r.Intn(40)) * 1000000
			if w.deposit(si, amt) == nil && w.delegate(si, oi, amt, false) == nil {
				deleg[[2]int{si, oi}] += amt
			}
		case 1:
			amt := int64(1 + r.Intn(9))
			if r.Chance(1, 2) {
				amt *= 1000000
			}
			if w.deposit(si, amt) == nil && w.delegate(si, oi, amt, false) == nil {
				deleg[[2]int{si, oi}] += amt
			}
		case 2:
			// undelegate a part (boundary: 1 unit, everything). After a slash the share is worth less: a refusal is an outcome
			k := [2]int{si, oi}
			if deleg[k] == 0 {
				for kk, v := range []int{0, 1, 2, 3} {
					_ = kk
					for o2 := 0; o2 < c.Cfg.NOperators; o2++ {
						if deleg[[2]int{v, o2}] > 0 && deleg[k] == 0 {
							k = [2]int{v, o2}
						}
					}
				}
			}
			if deleg[k] == 0 {
				continue
			}
			amt := 1 + r.Int63n(deleg[k])
			switch r.Intn(4) {
			case 0:
				amt = 1
			case 1:
				amt = deleg[k]
			}
			err := w.delegate(k[0], k[1], amt, true)
			if err == nil {
				deleg[k] -= amt
			}
			w.env.Outcome("slashop:undelegate:" + genErrClass(err))
		case 3:
			pct := []int64{1, 5, 50, 100}[r.Intn(4)]
			power := c.Cfg.Powers[oi]
			if r.Chance(1, 2) {
				power = 1 << 40 // more than the operator is worth: the effective proportion is clamped at 1
			}
			if pct == 100 && power > c.Cfg.Powers[oi] {
				if full >= 0 && full != oi {
					pct = 50
					power = c.Cfg.Powers[oi]
				} else {
					full = oi
				}
			} else if power > c.Cfg.Powers[oi] {
				power = c.Cfg.Powers[oi] * 2
			}
			back := int64(r.Intn(4)) // 0: the infraction is of this block, pending undelegations are not touched
			nSlash++
			inf := stakingtypes.Infraction_INFRACTION_DOWNTIME
			if nSlash%2 == 0 {
				inf = stakingtypes.Infraction_INFRACTION_DOUBLE_SIGN
			}
			w.env.Outcome(fmt.Sprintf("slashop:slash:factor=%d:back=%d:%s", pct, back, w.slash(oi, pct, power, back, inf)))
		case 4:
			d := []time.Duration{time.Second, time.Second, time.Minute, time.Hour + time.Second}[r.Intn(4)]
			w.note("next block +%s", d)
			if res := c.EndAndBegin(d); res.Halt != "" {
				w.env.Violate("C18.halt", "halt", "block processing panicked: "+res.Halt, w.hist)
				return
			}
			continue
		}
		// most steps are followed by a block: the slash must come at a later height than the undelegation it hits
		if r.Chance(2, 3) {
			w.note("next block +1s")
			if res := c.EndAndBegin(time.Second); res.Halt != "" {
				w.env.Violate("C18.halt", "halt", "block processing panicked: "+res.Halt, w.hist)
				return
			}
		}
	}
}

// genSlashedScenarios: directed S1..S4 and the random slash worlds (registered in domGenesis by one line).
func genSlashedScenarios(env *Env) {
	rng := NewRNG(env.Report.Seed*7919 + 1818) // own stream: the other generators of the domain draw what they drew before
	seed := env.Report.Seed
	block := func(w *genWorld, d time.Duration) { w.note("next block +%s", d); w.c.EndAndBegin(d) }
	// S1: a pending undelegation, its operator slashed by 100% one block later
	genScenario(env, "S1", func() {
		genForceUnbond = 2
		w := newGenWorld(env, rng, seed*1000+951)
		genForceUnbond = 0
		block(w, time.Minute)
		_ = w.deposit(0, 9000000)
		_ = w.delegate(0, 1, 6000000, false)
		block(w, time.Second)
		_ = w.delegate(0, 1, 2500000, true)
		block(w, time.Second)
		env.Outcome("directed:S1 slash=" + w.slash(1, 100, 1<<40, 1, stakingtypes.Infraction_INFRACTION_DOUBLE_SIGN))
		w.contStep = 31 * time.Minute
		w.runOne(0, true, 12)
	})
	// S2: repeated partial slashes (50%, 5%, then 50% four times): the first record is driven to (nearly) nothing, a record
	// of another operator stays whole
	genScenario(env, "S2", func() {
		w := newGenWorld(env, rng, seed*1000+952)
		block(w, time.Minute)
		_ = w.deposit(1, 30000000)
		_ = w.delegate(1, 0, 10000000, false)
		_ = w.delegate(1, 2, 10000000, false)
		block(w, time.Second)
		_ = w.delegate(1, 0, 3, true)
		_ = w.delegate(1, 0, 4000000, true)
		_ = w.delegate(1, 2, 5000000, true)
		var rs []string
		undH := w.c.Ctx.BlockHeight()
		for i, pct := range []int64{50, 5, 50, 50, 50, 50} {
			block(w, time.Second)
			// the slash id is (infraction, infraction height): six distinct ids at or below the height of the undelegations
			inf := stakingtypes.Infraction_INFRACTION_DOWNTIME
			if i >= 3 {
				inf = stakingtypes.Infraction_INFRACTION_DOUBLE_SIGN
			}
			rs = append(rs, w.slash(0, pct, w.c.Cfg.Powers[0], w.c.Ctx.BlockHeight()-(undH-int64(i%3)), inf))
		}
		env.Outcome("directed:S2 slashes=" + strings.Join(rs, "/"))
		w.runOne(0, true, 12)
	})
	// S3: native restaking: one validator deposited through the precompile, a part delegated, a part of that undelegated,
	// then a balance decrease larger than withdrawable + pending
	genScenario(env, "S3", func() {
		w := newGenWorldCfg(env, rng, seed*1000+953, true)
		block(w, time.Minute)
		r := w.nst("depositNST", 0, "vpk-s")
		w.asset = 1
		e18 := int64(1000000000000000000)
		e1 := w.delegate(0, 1, 5*e18, false)
		block(w, time.Second)
		e2 := w.delegate(0, 1, 2*e18, true)
		block(w, time.Second)
		dec := new(big.Int).Mul(big.NewInt(30), big.NewInt(e18)) // withdrawable 27e18 + pending 2e18 < 30e18
		r2 := w.nstDecrease(0, dec)
		w.asset = 0
		env.Outcome(fmt.Sprintf("directed:S3 deposit=%s delegate=%s undelegate=%s decrease=%s", r, genErrClass(e1), genErrClass(e2), r2))
		w.runOne(0, true, 12)
	})
	// S4 (control): an undelegation submitted BEFORE the infraction height and a slash of the current height: both records whole
	genScenario(env, "S4", func() {
		w := newGenWorld(env, rng, seed*1000+954)
		block(w, time.Minute)
		_ = w.deposit(2, 8000000)
		_ = w.delegate(2, 2, 8000000, false)
		block(w, time.Second)
		_ = w.delegate(2, 2, 1000000, true)
		block(w, time.Second)
		block(w, time.Second)
		a := w.slash(2, 100, 1<<40, 0, stakingtypes.Infraction_INFRACTION_DOUBLE_SIGN)
		env.Outcome("directed:S4 slash-at-current-height=" + a)
		w.runOne(0, true, 6)
	})
	n := env.Int("slashworlds", 4)
	for hi := 0; hi < n; hi++ {
		genScenario(env, fmt.Sprintf("slashed-%d", hi), func() {
			genNextOpts = genOpts{modParams: hi%2 == 1}
			w := newGenWorld(env, rng, seed*1000+960+uint64(hi))
			block(w, time.Minute)
			w.slashOps(8 + rng.Intn(env.Int("ops", 25)))
			if w.c.Halted != "" {
				return
			}
			w.runOne(0, false, env.Int("cont", 6))
		})
	}
}
