package main

// oracle_twods — a token feeder whose rule uses TWO deterministic sources (C11 / C12).
//
// x/oracle/keeper/aggregator/aggregator.go: fillPrice creates a report's slot for a deterministic source with
// `price: nil`; the slot is filled when the calculator confirms a (detID, price) for THAT source
// (confirmDSPrice). aggregator.aggregate() runs as soon as the reporting power exceeds the threshold and ANY
// deterministic source is confirmed (`len(agg.dsPrices) > 0`), and hands each report's slot prices to
// common.BigIntList.Median, whose sort.Sort calls `b[i].Cmp(b[j])`: with one source confirmed and the other not,
// a slot is still nil and Cmp dereferences it.
//
// aggregate() has exactly two callers: AggregatorContext.FillPrice (the message server in DeliverTx — a panic is
// recovered by baseapp.runTx and the tx is rejected — and the replay of the stored message log by
// recacheAggregatorContext on the first BeginBlock after a process restart) and worker.seal (only after
// aggregate() returned a price). SealRound / PrepareRoundEndBlock (EndBlock) never aggregate.
//
// What is configured how (x/oracle/types/params.go): Params.Validate checks of a source only that it has a
// name, AddSources (MsgUpdateParams) only that the new source is flagged valid and its name is new, AddRules
// appends without any check and Validate then requires `id < len(p.Rules)` (sic) of every listed source id: a
// second deterministic source and a rule [1,2] over both are accepted at genesis AND through MsgUpdateParams
// (scenario `update`). CheckRules enforces the list length and the LAST listed source only, so under the rule
// [1,2] a message may carry [1,2], [2,1] or [2,2]; a rule with no SourceIDs (Nom only) lets any list through
// (scenario `nom`: source 1 only / source 2 only / both).
//
// Every scenario runs signed MsgCreatePrice txs through the real DeliverTx / EndBlock / Commit / BeginBlock of a
// 4-validator chain and is replayed line by line by the Lean model (driver Oracle), in which the nil slot is
// inside the model (Model/Oracle.lean: medianN / aggregateN / deliverTxN): the tx result class `panic`, the
// partial in-memory effects of the interrupted aggregate() (reports visited before the panic keep their
// computed price) and everything that follows must agree. Monitors (independent of the model):
//   C11.halt      no BeginBlock / EndBlock / Commit panics at any point of any scenario             sig halt:oracle-median-nil
//   C11.rejected  a DeliverTx that ended in the recovered panic changed no store except the sender's
//                 oracle nonce (written by the ante handler, kept for every failed message)          sig panic-tx-changed-state
//   C11.restart   a process restart right after such a tx (BeginBlock -> recacheAggregatorContext
//                 replays the stored messages through FillPrice) does not panic                      sig halt:oracle-median-nil:recache
import (
	"encoding/hex"
	"fmt"
	"sort"
	"strings"
	"time"

	oracletypes "github.com/ExocoreNetwork/exocore/x/oracle/types"
)

func init() { register("oracle_twods", domOracleTwoDS) }

type tdRun struct {
	o      *orc
	env    *Env
	name   string
	panics int
	finals int
	halted bool
}

func tdSpec(rules [][]uint64, feederRule uint64, sources [][2]bool) orcSpec {
	return orcSpec{Powers: []int64{10, 10, 10, 10}, MaxNonce: 3, ThA: 2, ThB: 3, MaxDetID: 5, MaxSize: 100,
		Sources: sources, Rules: rules, TokenDec: []int32{0},
		Feeders: []orcFeeder{{Token: 1, Rule: feederRule, StartRound: 2, StartBase: 2, Interval: 8}},
		GenNext: []uint64{2}, GenPrice: []string{"1"}}
}

// step ends the block and begins the next one.
func (r *tdRun) step() bool {
	if r.halted {
		return false
	}
	o := r.o
	r.env.Eval("C11.halt")
	if _, h := o.endBlock(); h {
		r.halted = true
		r.env.Violate("C11.halt", "halt:oracle-median-nil", r.name+": EndBlock panicked: "+o.halted, o.hist)
		return false
	}
	if !o.commitBegin(2 * time.Second) {
		r.halted = true
		r.env.Violate("C11.halt", "halt:oracle-median-nil", r.name+": Commit/BeginBlock panicked: "+o.halted, o.hist)
		return false
	}
	return true
}

func (r *tdRun) until(h int64) bool {
	for r.o.c.Header.Height < h {
		if !r.step() {
			return false
		}
	}
	return true
}

func tdSrc(id uint64, det, price string, ts int64) orcSource {
	return orcSource{ID: id, Prices: []orcPrice{{Price: price, Dec: 0, Ts: ts, DetID: det}}}
}

// oracleKeys: key -> value hash of every store the snapshot covers, flattened.
func tdFlat(s Snapshot) map[string]string {
	m := map[string]string{}
	for st, kv := range s {
		for k, v := range kv {
			m[st+"/"+k] = v
		}
	}
	return m
}

// send delivers one single-message tx; for a tx that ended in the recovered panic the stores before and after
// are compared.
func (r *tdRun) send(v int, feeder, based uint64, nonce int32, srcs ...orcSource) string {
	o := r.o
	before := tdFlat(xbSnapshot(o.c, o.ctx(), false))
	pricesBefore := o.showPrices(o.ctx())
	cls := o.deliver(orcTx{Msgs: []orcMsg{{Creator: v, Feeder: feeder, Based: based, Nonce: nonce, Srcs: srcs}}})
	var ids []string
	for _, s := range srcs {
		ids = append(ids, fmt.Sprint(s.ID))
	}
	r.env.Outcome(fmt.Sprintf("twods:%s:[%s]=%s", r.name, strings.Join(ids, ","), cls))
	if cls == "ok" && o.showPrices(o.ctx()) != pricesBefore {
		r.finals++
	}
	if cls != "panic" {
		return cls
	}
	r.panics++
	r.env.Eval("C11.rejected")
	after := tdFlat(xbSnapshot(o.c, o.ctx(), false))
	var changed []string
	for k := range after {
		if before[k] != after[k] {
			changed = append(changed, k)
		}
	}
	for k := range before {
		if _, ok := after[k]; !ok {
			changed = append(changed, k)
		}
	}
	sort.Strings(changed)
	nonceKey := "oracle/" + hex.EncodeToString([]byte(oracletypes.NonceKeyPrefix))
	var other []string
	for _, k := range changed {
		if !strings.HasPrefix(k, nonceKey) {
			other = append(other, k)
		}
	}
	r.env.Outcome(fmt.Sprintf("twods:panic-tx:keys-changed=%d,other-than-nonce=%d", len(changed), len(other)))
	if len(other) > 0 || len(changed) > 1 {
		r.env.Violate("C11.rejected", "panic-tx-changed-state", fmt.Sprintf("%s: the tx of v%02d ended in a recovered panic and changed %v", r.name, v, changed), o.hist)
	}
	return cls
}

func (r *tdRun) restart() bool {
	o := r.o
	r.env.Eval("C11.restart")
	obs := o.restart()
	o.op("orc.restart", obs)
	if obs == "panic" {
		r.halted = true
		r.env.Violate("C11.restart", "halt:oracle-median-nil:recache", r.name+": recacheAggregatorContext panicked after a restart (BeginBlock of a restarted node)", o.hist)
		return false
	}
	return true
}

func (r *tdRun) latest() string {
	pr, _ := r.o.c.App.OracleKeeper.GetPriceTRLatest(r.o.ctx(), 1)
	return fmt.Sprintf("%s@%d", pr.Price, pr.RoundID)
}

func newTd(env *Env, name string, seed uint64, spec orcSpec) *tdRun {
	o := newOrc(env, seed, spec, nil)
	o.emitSetup()
	return &tdRun{o: o, env: env, name: name}
}

func (r *tdRun) done() {
	r.env.Outcome(fmt.Sprintf("twods:%s:panics=%d,finals=%d,halted=%v,latest=%s", r.name, r.panics, r.finals, r.halted, r.latest()))
	r.env.DistinctKey(fmt.Sprintf("twods-%s-%d-%d", r.name, r.panics, r.finals))
	r.env.Report.Histories++
	r.env.Sample(r.name + ": " + strings.Join(r.o.hist[max(0, len(r.o.hist)-14):], " ; "))
}

// scenario `disagree` (rule [1,2], both sources deterministic, configured at genesis): the validators agree on
// source 1 and quote three different round ids for source 2. The third report confirms source 1 while source 2
// is unconfirmed: aggregate() -> Median([100, nil]).
func tdDisagree(env *Env, restartAfterPanic bool) {
	name := "disagree"
	if restartAfterPanic {
		name = "disagree+restart"
	}
	r := newTd(env, name, 770011, tdSpec([][]uint64{{0}, {1, 2}}, 2, [][2]bool{{true, true}, {true, true}}))
	defer r.done()
	if !r.until(3) { // round based at 2 is open in block 3
		return
	}
	ts := r.o.c.Header.Time.Unix()
	r.send(0, 1, 2, 1, tdSrc(1, "9", "100", ts), tdSrc(2, "20", "200", ts))
	r.send(1, 1, 2, 1, tdSrc(1, "9", "100", ts), tdSrc(2, "21", "201", ts))
	r.send(2, 1, 2, 1, tdSrc(1, "9", "100", ts), tdSrc(2, "22", "202", ts)) // tips source 1 over the threshold
	if !r.step() {
		return
	}
	if restartAfterPanic && !r.restart() {
		return
	}
	ts = r.o.c.Header.Time.Unix()
	r.send(3, 1, 2, 1, tdSrc(1, "9", "100", ts), tdSrc(2, "20", "200", ts))
	r.send(0, 1, 2, 2, tdSrc(2, "21", "201", ts), tdSrc(1, "9", "100", ts))
	// the window runs out, EndBlock seals the round as failed (price carried forward), the next round opens at 10
	if !r.until(11) {
		return
	}
	ts = r.o.c.Header.Time.Unix()
	for v := 0; v < 4; v++ { // everybody agrees on both sources: both are confirmed by the same message
		r.send(v, 1, 10, 1, tdSrc(1, "10", "110", ts), tdSrc(2, "30", "210", ts))
	}
	r.until(16)
}

// scenario `nom` (a rule without SourceIDs: any source list is accepted): reports of source 1 only, source 2
// only and both, in both orders; source 1 is confirmed while a report holds nothing but a nil slot for source 2
// (Median of that one-element list returns the nil without comparing; the outer Median then panics, AFTER the
// other reports were given their price), later source 2 is confirmed too and the round is finalized from the
// prices the interrupted aggregate() left behind.
func tdNom(env *Env) {
	r := newTd(env, "nom", 770022, tdSpec([][]uint64{{0}, {}}, 2, [][2]bool{{true, true}, {true, true}}))
	defer r.done()
	if !r.until(3) {
		return
	}
	ts := r.o.c.Header.Time.Unix()
	r.send(0, 1, 2, 1, tdSrc(1, "9", "100", ts))
	r.send(1, 1, 2, 1, tdSrc(1, "9", "100", ts))
	r.send(2, 1, 2, 1, tdSrc(2, "20", "200", ts))
	r.send(3, 1, 2, 1, tdSrc(1, "9", "100", ts)) // source 1 confirmed; v02's only slot is nil
	if !r.step() {
		return
	}
	ts = r.o.c.Header.Time.Unix()
	r.send(0, 1, 2, 2, tdSrc(2, "20", "200", ts))                           // still unconfirmed: panics again
	r.send(1, 1, 2, 2, tdSrc(2, "20", "200", ts), tdSrc(1, "9", "100", ts)) // confirms source 2
	if !r.until(11) {
		return
	}
	ts = r.o.c.Header.Time.Unix()
	r.send(0, 1, 10, 1, tdSrc(2, "30", "210", ts), tdSrc(1, "10", "110", ts))
	r.send(1, 1, 10, 1, tdSrc(1, "10", "110", ts), tdSrc(2, "30", "210", ts))
	r.send(2, 1, 10, 1, tdSrc(2, "30", "210", ts))
	r.send(3, 1, 10, 1, tdSrc(1, "10", "110", ts))
	r.until(16)
}

// scenario `update`: the chain starts with ONE deterministic source; three accepted MsgUpdateParams add a second
// deterministic source, the rule [1,2] and a token with a feeder that uses it; then as `disagree`.
func tdUpdate(env *Env) {
	r := newTd(env, "update", 770033, tdSpec([][]uint64{{0}, {1}}, 2, [][2]bool{{true, true}}))
	defer r.done()
	o := r.o
	if !r.until(3) {
		return
	}
	u := orcUpd{kind: "source"}
	u.addSource("SecondDS", true, true)
	u.apply = func(s *orcSpec) { s.Sources = append(s.Sources, [2]bool{true, true}) }
	c1 := o.updParamsAcc(u)
	u = orcUpd{kind: "rule"}
	u.addRule([]uint64{1, 2})
	u.apply = func(s *orcSpec) { s.Rules = append(s.Rules, []uint64{1, 2}) }
	c2 := o.updParamsAcc(u)
	u = orcUpd{kind: "token+feeder"}
	u.setToken(0, tokName(2), 0)
	f := orcFeeder{Token: 2, Rule: 3, StartRound: 1, StartBase: 6, Interval: 8}
	u.addFeeder(f)
	u.apply = func(s *orcSpec) {
		s.TokenDec = append(s.TokenDec, 0)
		s.GenNext = append(s.GenNext, 0)
		s.GenPrice = append(s.GenPrice, "")
		s.Feeders = append(s.Feeders, f)
	}
	c3 := o.updParamsAcc(u)
	env.Outcome(fmt.Sprintf("twods:update:second-deterministic-source=%s,rule[1,2]=%s,token+feeder=%s", c1, c2, c3))
	if c1 != "ok" || c2 != "ok" || c3 != "ok" {
		return
	}
	if !r.until(7) { // feeder 2: round based at 6
		return
	}
	ts := o.c.Header.Time.Unix()
	r.send(0, 2, 6, 1, tdSrc(1, "9", "100", ts), tdSrc(2, "20", "200", ts))
	r.send(1, 2, 6, 1, tdSrc(2, "21", "201", ts), tdSrc(1, "9", "100", ts))
	r.send(2, 2, 6, 1, tdSrc(1, "9", "100", ts), tdSrc(2, "22", "202", ts))
	r.send(3, 2, 6, 1, tdSrc(2, "20", "200", ts), tdSrc(2, "23", "203", ts))
	r.until(18)
}

// generated histories: 4 validators (equal or skewed powers), two deterministic sources + one non-deterministic
// one, a feeder with the rule [1,2] and one with a Nom-only rule; every validator sends, in every block of a
// window, a random source list with det ids / prices from small pools; restarts at random points.
func tdGenerated(env *Env, rng *RNG, hi int) {
	powers := [][]int64{{10, 10, 10, 10}, {30, 10, 10, 10}, {1, 2, 3, 4}, {10, 10, 10}}[rng.Intn(4)]
	spec := orcSpec{Powers: powers, MaxNonce: 3, ThA: 2, ThB: 3, MaxDetID: int32(2 + rng.Intn(4)), MaxSize: 100,
		Sources: [][2]bool{{true, true}, {true, true}, {true, false}}, Rules: [][]uint64{{0}, {1, 2}, {}}, TokenDec: []int32{0, 0},
		Feeders: []orcFeeder{{Token: 1, Rule: 2, StartRound: 2, StartBase: 2, Interval: 7}, {Token: 2, Rule: 3, StartRound: 2, StartBase: 3, Interval: 8}},
		GenNext: []uint64{2, 2}, GenPrice: []string{"1", "1"}}
	r := newTd(env, fmt.Sprintf("gen%d", hi), env.Report.Seed*1000+uint64(hi)+770100, spec)
	defer r.done()
	o := r.o
	d := newOrcDriver(o, rng)
	lists := [][]uint64{{1, 2}, {2, 1}, {2, 2}, {1}, {2}, {1, 2, 3}, {3, 2}, {2, 3, 1}, {3}, {1, 3}}
	nb := 24 + rng.Intn(16)
	for b := 0; b < nb && !r.halted; b++ {
		h := uint64(o.c.Header.Height)
		for fi := range spec.Feeders {
			base := spec.openBase(fi, h)
			if base == 0 {
				continue
			}
			for v := range powers {
				if rng.Chance(1, 4) {
					continue
				}
				n, has := d.nonceOf(v, uint64(fi+1))
				if !has || n >= spec.MaxNonce {
					continue
				}
				list := lists[rng.Intn(len(lists))]
				if fi == 0 && rng.Chance(2, 3) {
					list = lists[rng.Intn(3)]
				}
				var srcs []orcSource
				for _, sid := range list {
					switch sid {
					case 3:
						srcs = append(srcs, tdSrc(3, "", fmt.Sprint(300+rng.Intn(3)), o.c.Header.Time.Unix()))
					default:
						det := fmt.Sprint(uint64(sid)*10 + base + uint64(rng.Pick(6, 1, 1)))
						srcs = append(srcs, tdSrc(sid, det, fmt.Sprint(100*sid+uint64(rng.Pick(8, 1))), o.c.Header.Time.Unix()))
					}
				}
				r.send(v, uint64(fi+1), base, n+1, srcs...)
			}
		}
		if !r.step() {
			return
		}
		if rng.Chance(1, 9) && !r.restart() {
			return
		}
	}
}

// scenario `leftover` (observation, no monitor): what the rejected tx leaves in process memory. Run twice with the
// same inputs, once continuously and once with a process restart after the block of the panicking tx: the
// report (and reporting power) of the validator whose tx was rejected is counted on the continuous node only —
// the replay log holds accepted messages only (the mechanism of F-09c / F-14a).
func tdLeftover(env *Env, restart bool) (classes []string, hashes []string) {
	name := "leftover"
	if restart {
		name = "leftover+restart"
	}
	r := newTd(env, name, 770044, tdSpec([][]uint64{{0}, {}}, 2, [][2]bool{{true, true}, {true, true}}))
	defer r.done()
	if !r.until(3) {
		return
	}
	note := func(c string) { classes = append(classes, c) }
	ts := r.o.c.Header.Time.Unix()
	note(r.send(0, 1, 2, 1, tdSrc(1, "9", "100", ts)))
	note(r.send(1, 1, 2, 1, tdSrc(1, "9", "100", ts)))
	note(r.send(2, 1, 2, 1, tdSrc(2, "20", "200", ts)))
	note(r.send(3, 1, 2, 1, tdSrc(1, "9", "100", ts))) // panics; v03 stays counted in memory
	if !r.step() {
		return
	}
	hashes = append(hashes, hex.EncodeToString(r.o.c.Header.AppHash))
	if restart && !r.restart() {
		return
	}
	ts = r.o.c.Header.Time.Unix()
	note(r.send(0, 1, 2, 2, tdSrc(2, "20", "200", ts)))
	for i := 0; i < 3; i++ {
		if !r.step() {
			return
		}
		hashes = append(hashes, hex.EncodeToString(r.o.c.Header.AppHash))
	}
	return
}

func domOracleTwoDS(env *Env) error {
	env.Report.Domain = "oracle_twods"
	tdDisagree(env, false)
	tdDisagree(env, true)
	tdNom(env)
	tdUpdate(env)
	c1, h1 := tdLeftover(env, false)
	c2, h2 := tdLeftover(env, true)
	env.Outcome(fmt.Sprintf("twods:leftover:tx-results continuous=%v restarted=%v same=%v", c1, c2, fmt.Sprint(c1) == fmt.Sprint(c2)))
	env.Outcome(fmt.Sprintf("twods:leftover:app-hashes-equal=%v", fmt.Sprint(h1) == fmt.Sprint(h2)))
	if fmt.Sprint(c1) != fmt.Sprint(c2) || fmt.Sprint(h1) != fmt.Sprint(h2) {
		env.Note("twods-restart-divergence-after-rejected-panic-tx")
	}
	rng := NewRNG(env.Report.Seed*7717 + 3)
	for hi := 0; hi < env.Int("histories", 6); hi++ {
		tdGenerated(env, rng, hi)
	}
	return nil
}
