package main

// C01 — "… equals cumulative deposits minus cumulative withdrawals, plus/minus native-restaking balance
// adjustments … Only a deposit or a positive native-restaking adjustment ever increases that sum."
//
// The ledger domain takes the AMOUNT of a native-restaking adjustment as an input. This domain checks where
// that amount comes from: the glue between the assets precompile (depositNST / withdrawNST), x/oracle's
// per-staker record (validator list + effective balance, UpdateNSTValidatorListForStaker) and the balance
// report of an oracle round (UpdateNSTByBalanceChange), which books `reported effective balance - recorded
// balance` through x/delegation UpdateNSTBalance. A wrong sign or a stale record there books value that no
// report ever stated.
//
// Histories: several stakers; depositNST of a new validator (32 tokens, sometimes less / more), withdrawNST
// of one of the staker's validators (the whole remaining balance for the last validator, a part otherwise;
// sometimes an unknown validator, more than the balance, a staker without record), oracle rounds reporting a
// change of the effective balance for a subset of the listed stakers (well-formed bitmap for the on-chain
// list, as a feeder builds it; sometimes a positive change, which the code refuses as a whole), blocks. All
// deposits and withdrawals go through the REAL assets precompile as the gateway.
//
// Observation after every op: `ok|rej` + the ledger dump (as in the ledger domain) + the oracle's records and
// staker list; the Lean model (Model/NstGlue.lean on top of Model/Ledger.lean) reproduces every line.
// Monitors (independent of the model; the harness keeps its own table of what was deposited, withdrawn and
// reported): C01.nst-reported — a staker's deposit figure moves by +x on a deposit of x, by -x on a withdrawal
// of x, and in a round by exactly 10^decimals x (reported effective balance - the effective balance on
// record, i.e. last reported / deposited / withdrawn); a staker that has withdrawn its last validator has no
// balance on record and gets nothing from a round; C01.conservation as in the ledger domain.

import (
	"fmt"
	"math/big"
	"sort"
	"strings"
	"time"

	sdk "github.com/cosmos/cosmos-sdk/types"
	"github.com/ethereum/go-ethereum/common/hexutil"
)

func init() { register("nstglue", domNstGlue) }

type nstRef struct { // the harness's own bookkeeping of one staker (what the property calls reported)
	vals []string // validators deposited and not withdrawn
	eff  int64    // effective balance on record, in whole tokens
}

type nstWorld struct {
	c       *Chain
	env     *Env
	rng     *RNG
	hist    []string
	stakers []Actor
	asset   string
	dec     int
	unit    *big.Int
	ref     map[string]*nstRef // by lower-case hex staker address
	round   uint64
	pkN     int
	// the property's formula: value = deposits - withdrawals + adjustments (reported)
	dep, wd, adj *big.Int
	seen         map[string]bool // one report per failure shape and history
}

func (w *nstWorld) violate(mon, sig, what string) {
	if w.seen[sig] {
		w.env.Note("repeat:" + sig)
		return
	}
	w.seen[sig] = true
	w.env.Violate(mon, sig, what, w.hist)
}

func (w *nstWorld) emit(op, obs string) {
	w.hist = append(w.hist, op)
	w.env.Op(op, obs)
}

func (w *nstWorld) addrOf(a Actor) string { return hexutil.Encode(a.Eth.Bytes()) }

// oracle part of the observation: N{staker=balance:pk,pk;…} NL=[staker,…]
func (w *nstWorld) oracleDump() string {
	ctx := w.c.Ctx
	sl := w.c.App.OracleKeeper.GetStakerList(ctx, w.asset)
	seen := map[string]bool{}
	var recs []string
	add := func(addr string) {
		if seen[addr] {
			return
		}
		seen[addr] = true
		info := w.c.App.OracleKeeper.GetStakerInfo(ctx, w.asset, addr)
		if info.StakerAddr == "" && len(info.BalanceList) == 0 && len(info.ValidatorPubkeyList) == 0 {
			return
		}
		bal := int64(0)
		if n := len(info.BalanceList); n > 0 {
			bal = info.BalanceList[n-1].Balance
		}
		recs = append(recs, fmt.Sprintf("%s=%d:%s", addr, bal, strings.Join(info.ValidatorPubkeyList, ",")))
	}
	for _, a := range sl.StakerAddrs {
		add(a)
	}
	for _, s := range w.stakers {
		add(w.addrOf(s))
	}
	sort.Strings(recs)
	return "N{" + strings.Join(recs, ";") + "} NL=[" + strings.Join(sl.StakerAddrs, ",") + "]"
}

func (w *nstWorld) total(s *ledgerSnap, addr string) *big.Int {
	sid := strings.ToLower(addr) + "_" + hexutil.EncodeUint64(w.c.LzID)
	if row, ok := s.stakers[sid+"/"+w.asset]; ok {
		return row.total
	}
	return new(big.Int)
}

func (w *nstWorld) snap() *ledgerSnap {
	s, err := w.c.ledgerSnap()
	if err != nil {
		w.env.Violate("harness", "snap-error", err.Error(), w.hist)
		return &ledgerSnap{}
	}
	return s
}

// after every op: the ledger invariants, the property's formula and the per-staker figures
func (w *nstWorld) check(what string, after *ledgerSnap) {
	after.checkInvariants(w.env, w.hist, false)
	w.env.Eval("C01.conservation")
	want := new(big.Int).Add(new(big.Int).Sub(w.dep, w.wd), w.adj)
	if got := after.valueOf(w.asset); got.Cmp(want) != 0 {
		w.violate("C01.conservation", "nst-value-vs-reported:"+what,
			fmt.Sprintf("after %s the ledger value of %s is %s; deposits %s - withdrawals %s + reported adjustments %s = %s", what, w.asset, got, w.dep, w.wd, w.adj, want))
	}
	w.env.Eval("C01.nst-reported")
	for _, addr := range sortedKeys(w.ref) {
		r := w.ref[addr]
		want := new(big.Int).Mul(big.NewInt(r.eff), w.unit)
		if got := w.total(after, addr); got.Cmp(want) != 0 {
			w.violate("C01.nst-reported", "nst-deposit-figure-vs-reported:"+what,
				fmt.Sprintf("after %s staker %s has a deposit figure of %s, but what it deposited, withdrew and what the oracle rounds reported adds up to %s (%d validators, effective balance %d)",
					what, addr, got, want, len(r.vals), r.eff))
		}
	}
}

func (w *nstWorld) pcNST(deposit bool, st Actor, pk string, x *big.Int) bool {
	c := w.c
	abis, ok := ledgerABIs[c]
	if !ok {
		abis = xbLoadABIs(c)
		ledgerABIs = map[*Chain]xbABIs{c: abis}
	}
	m := "withdrawNST"
	if deposit {
		m = "depositNST"
	}
	data, err := abis.assets.Pack(m, uint32(c.LzID), []byte(pk), pad32(st.Eth.Bytes()), x)
	if err != nil {
		w.env.Note("nstglue-pack-error")
		return false
	}
	meth := abis.assets.Methods[m]
	r := xbEvmCall(c, c.Funded.Eth, xbAssetsAddr, data, &meth)
	w.env.Outcome("nstglue." + m + "." + r.Class())
	return r.Class() == "ok"
}

func tokens(n int64, unit *big.Int) *big.Int { return new(big.Int).Mul(big.NewInt(n), unit) }

// encodeNSTChanges builds the raw data of a balance report as a price feeder does: a 256-bit index map of the
// flagged positions of the staker list, then per flagged staker 4 bits length, 1 bit sign (1 = negative), and
// the magnitude-1 in `length` bits (x/oracle/keeper/native_token.go parseBalanceChange).
func encodeNSTChanges(changes map[int]int64) []byte {
	raw := make([]byte, 32)
	var bits []byte
	push := func(v uint64, n int) {
		for i := n - 1; i >= 0; i-- {
			bits = append(bits, byte((v>>uint(i))&1))
		}
	}
	idx := make([]int, 0, len(changes))
	for i := range changes {
		idx = append(idx, i)
	}
	sort.Ints(idx)
	for _, i := range idx {
		raw[i/8] |= 1 << uint(7-i%8)
		ch := changes[i]
		sign := uint64(0)
		if ch < 0 {
			sign, ch = 1, -ch
		}
		m := uint64(ch - 1)
		l := 1
		for (m >> uint(l)) != 0 {
			l++
		}
		push(uint64(l), 4)
		push(sign, 1)
		push(m, l)
	}
	for len(bits)%8 != 0 {
		bits = append(bits, 0)
	}
	for i := 0; i < len(bits); i += 8 {
		var b byte
		for j := 0; j < 8; j++ {
			b = b<<1 | bits[i+j]
		}
		raw = append(raw, b)
	}
	// the parser reads one byte ahead when a number ends on a byte boundary
	return append(raw, 0, 0)
}

func (w *nstWorld) step() {
	r, c := w.rng, w.c
	st := w.stakers[r.Intn(len(w.stakers))]
	addr := w.addrOf(st)
	ref := w.ref[addr]
	finish := func(what, opLine string, ok bool) *ledgerSnap {
		after := w.snap()
		res := "rej"
		if ok {
			res = "ok"
		}
		w.emit(opLine, res+" "+after.dump()+" "+w.oracleDump())
		w.env.Outcome("nstglue." + what + "." + res)
		return after
	}
	switch r.Pick(5, 5, 5, 2) {
	case 0: // deposit of a new validator
		w.pkN++
		pk := fmt.Sprintf("vpk-%d", w.pkN)
		// 32 tokens per validator ("deposit should be equal to 32e18 as the max effective balance"), sometimes
		// less (a validator that was already slashed on the client chain)
		n := int64(32)
		if r.Chance(1, 6) {
			n = int64(1 + r.Intn(31))
		}
		x := tokens(n, w.unit)
		ok := w.pcNST(true, st, pk, x)
		if ok {
			w.dep.Add(w.dep, x)
			if ref == nil {
				ref = &nstRef{}
				w.ref[addr] = ref
			}
			ref.vals = append(ref.vals, pk)
			ref.eff += n
		}
		after := finish("deposit", fmt.Sprintf("nst.deposit %s %s %s", addr, hexutil.Encode([]byte(pk)), x), ok)
		w.env.Eval("C01.nst-op-outcome")
		if !ok {
			w.violate("C01.nst-op-outcome", "nst-deposit-refused", fmt.Sprintf("depositNST of %s by the gateway for staker %s refused", x, addr))
		}
		w.check("deposit", after)
	case 1: // withdrawal of a validator
		if ref == nil || len(ref.vals) == 0 {
			// nothing on record: a withdrawal must be refused and change nothing
			x := tokens(int64(1+r.Intn(32)), w.unit)
			ok := w.pcNST(false, st, "vpk-none", x)
			after := finish("withdraw-without-record", fmt.Sprintf("nst.withdraw %s %s %s", addr, hexutil.Encode([]byte("vpk-none")), x), ok)
			if ok {
				w.wd.Add(w.wd, x)
			}
			w.check("withdraw", after)
			return
		}
		vi := r.Intn(len(ref.vals))
		pk := ref.vals[vi]
		var n int64
		if len(ref.vals) == 1 {
			n = w.ledgerTokens(addr) // the whole balance
		} else {
			lim := w.ledgerTokens(addr) - int64(len(ref.vals)-1)
			if lim > 32 {
				lim = 32
			}
			if lim < 1 {
				lim = 1
			}
			n = 1 + int64(r.Intn(int(lim)))
		}
		if n < 1 {
			n = 1
		}
		x := tokens(n, w.unit)
		ok := w.pcNST(false, st, pk, x)
		if ok {
			w.wd.Add(w.wd, x)
			ref.vals = append(ref.vals[:vi:vi], ref.vals[vi+1:]...)
			ref.eff -= n
			if ref.eff <= 0 { // nothing left on record: the remaining validators (if any) are worth nothing
				ref.vals, ref.eff = nil, 0
			}
		}
		after := finish("withdraw", fmt.Sprintf("nst.withdraw %s %s %s", addr, hexutil.Encode([]byte(pk)), x), ok)
		w.check("withdraw", after)
	case 2: // an oracle round
		w.doRound()
	default:
		c.EndAndBegin(time.Duration(5+r.Intn(30)) * time.Second)
		after := w.snap()
		w.emit("nst.endblock", "ok "+after.dump()+" "+w.oracleDump())
		w.check("endblock", after)
	}
}

// ledgerTokens: the staker's deposit figure in whole tokens
func (w *nstWorld) ledgerTokens(addr string) int64 {
	return new(big.Int).Div(w.total(w.snap(), addr), w.unit).Int64()
}

func (w *nstWorld) doRound() {
	r, c := w.rng, w.c
	sl := c.App.OracleKeeper.GetStakerList(c.Ctx, w.asset)
	w.round++
	changes := map[int]int64{}
	positive := false
	for i, a := range sl.StakerAddrs {
		ref := w.ref[a]
		if ref == nil || len(ref.vals) == 0 || !r.Chance(1, 2) {
			continue // not mentioned in the report: effective balance = 32 per validator
		}
		max := int64(32 * len(ref.vals))
		ch := -(1 + int64(r.Intn(int(max-1)))) // effective balance stays positive
		if r.Chance(1, 4) {
			ch = -(1 + int64(r.Intn(3)))
		}
		if r.Chance(1, 25) {
			ch = 1 + int64(r.Intn(3)) // above 32 per validator: the code refuses the whole report
			positive = true
		}
		changes[i] = ch
	}
	raw := encodeNSTChanges(changes)
	var parts []string
	idx := make([]int, 0, len(changes))
	for i := range changes {
		idx = append(idx, i)
	}
	sort.Ints(idx)
	for _, i := range idx {
		parts = append(parts, fmt.Sprintf("%d:%d", i, changes[i]))
	}
	arg := "-"
	if len(parts) > 0 {
		arg = strings.Join(parts, ",")
	}
	err := c.CachedDo(func(ctx sdk.Context) error {
		return c.App.OracleKeeper.UpdateNSTByBalanceChange(ctx, w.asset, raw, w.round)
	})
	// what the report states, for the stakers the harness knows to have validators: 32 per validator + change
	expectOK := len(sl.StakerAddrs) > 0 && !positive
	if err == nil {
		for i, a := range sl.StakerAddrs {
			ref := w.ref[a]
			if ref == nil || len(ref.vals) == 0 {
				continue // nothing on record per the reports: no adjustment is due (checked by the figures)
			}
			eff := int64(32*len(ref.vals)) + changes[i]
			w.adj.Add(w.adj, tokens(eff-ref.eff, w.unit))
			ref.eff = eff
		}
	}
	after := w.snap()
	res := "ok"
	if err != nil {
		res = "rej"
	}
	w.emit(fmt.Sprintf("nst.round %d %s", w.round, arg), res+" "+after.dump()+" "+w.oracleDump())
	w.env.Outcome("nstglue.round." + ledgerErrClass(err))
	w.env.Eval("C01.nst-op-outcome")
	if (err == nil) != expectOK {
		w.env.Note(fmt.Sprintf("nstglue-round-outcome:%v:expected-ok=%v", err == nil, expectOK))
	}
	w.check("round", after)
}

func domNstGlue(env *Env) error {
	n := env.Int("histories", 12)
	maxOps := env.Int("ops", 60)
	rng := NewRNG(env.Report.Seed*7 + 3)
	env.Report.Domain = "nstglue"
	for hi := 0; hi < n; hi++ {
		cfg := DefaultCfg(env.Report.Seed*1000 + uint64(hi))
		cfg.Assets = append(cfg.Assets, AssetSpec{Addr: nstAddrHex, Decimals: 18, Price: "1", PriceDec: 0})
		xbResetOracleMem()
		c := NewChain(cfg)
		w := &nstWorld{c: c, env: env, rng: rng, asset: AssetIDOf(c.LzID, nstAddrHex), dec: 18, unit: bigPow10(18),
			ref: map[string]*nstRef{}, dep: new(big.Int), wd: new(big.Int), adj: new(big.Int), seen: map[string]bool{}}
		ledgerNativeStakers = map[string]sdk.AccAddress{}
		for i := 0; i < 2+rng.Intn(3); i++ {
			w.stakers = append(w.stakers, NewActor(cfg.Seed, "nststaker", i))
		}
		s0 := w.snap()
		w.emit(fmt.Sprintf("nst.reset %d %d %s %d", s0.height, 10, w.asset, w.dec), "ok")
		for _, k := range sortedKeys(s0.totals) {
			w.emit(fmt.Sprintf("nst.asset %s %s", k, s0.totals[k]), "ok")
		}
		w.emit("nst.chain "+hexutil.EncodeUint64(c.LzID), "ok")
		for _, k := range sortedKeys(s0.stakers) {
			f := strings.Split(k, "/")
			v := s0.stakers[k]
			w.emit(fmt.Sprintf("nst.staker %s %s %s %s %s", f[0], f[1], v.total, v.withdrawable, v.pending), "ok")
		}
		for _, k := range sortedKeys(s0.pools) {
			f := strings.Split(k, "/")
			v := s0.pools[k]
			w.emit(fmt.Sprintf("nst.pool %s %s %s %s %s %s", f[0], f[1], v.amount, v.pending, v.totalShare, v.opShare), "ok")
		}
		for _, k := range sortedKeys(s0.deleg) {
			f := strings.Split(k, "/")
			v := s0.deleg[k]
			w.emit(fmt.Sprintf("nst.deleg %s %s %s %s %s", f[0], f[1], f[2], v.share, v.wait), "ok")
		}
		for _, k := range sortedKeys(s0.slist) {
			f := strings.Split(k, "/")
			w.emit(fmt.Sprintf("nst.slist %s %s %s", f[0], f[1], strings.Join(s0.slist[k], ",")), "ok")
		}
		for _, k := range sortedKeys(s0.assoc) {
			w.emit(fmt.Sprintf("nst.assoc %s %s", k, s0.assoc[k]), "ok")
		}
		w.emit(fmt.Sprintf("nst.escrow %s", s0.escrow), "ok")
		w.emit("nst.dump", "ok "+s0.dump()+" "+w.oracleDump())
		nops := 15 + rng.Intn(maxOps)
		for i := 0; i < nops && c.Halted == ""; i++ {
			w.step()
		}
		if c.Halted != "" {
			env.Violate("C11.halt", "halt:"+strings.SplitN(c.Halted, ":", 2)[0], "block processing panicked: "+c.Halted, w.hist)
		}
		env.Report.Histories++
		env.DistinctKey(fmt.Sprintf("h%d:%d:%s:%s:%s", hi, nops, w.dep, w.wd, w.adj))
		if hi < 2 {
			tail := w.hist
			if len(tail) > 10 {
				tail = tail[len(tail)-10:]
			}
			env.Sample(strings.Join(tail, " ; "))
		}
	}
	return nil
}
