package main

// ACCEPTED MsgUpdateParams for the oracle domains (C12 / C13 / C14).
//
// C12's quantifier ends "… and all parameter updates in between"; its retention clause ("no more than
// the configured number of rounds is retained") and C13's counting clause ("its sources and decimals
// match the feeder's rule and token") speak about the values an accepted update wrote. Every field the
// message can change is exercised here — through the real msg server, on a cache context of the deliver
// state that is written when the handler succeeds (what x/gov does with a passed proposal's message;
// x/gov's EndBlocker runs before x/oracle's) — followed by the rounds that depend on the new value:
//
//   maxsize        MaxSizePrices := 1, 2, 3, current±1, 100            (retention of the rounds that follow)
//   ignored        MaxNonce / thresholds / MaxDetId / Mode set in the payload: accepted, nothing changes
//   source         a new (valid) source, deterministic or not
//   rule           a new rule over existing sources
//   token+feeder   a new token with its first feeder (start block next block … +4), rule old or new
//   feeder-end     end block of a running feeder (outside a window, in the future)
//   feeder-resume  a new feeder continuing a stopped one (next round id)
//   feeder-edit    start block / interval of a feeder that has not started
//   decimal        decimals of a token: applied before its first feeder starts, ignored afterwards
//
// The op line `orc.updparams <kind> <payload>` carries the PAYLOAD, not the result: the Lean driver runs
// it through the model's own transcription of AddSources → … → Validate (Model/OracleParamsUpdate.lean)
// and must arrive at the same accept / refuse decision and, from then on, at the same rounds, prices,
// retention and replay log as the real application. The harness's own bookkeeping (o.spec: what the
// honest validators submit, which rounds must exist, how many may be retained) follows the INTENTION of
// the update, not the stored params — so a handler that accepts an update without applying it is caught
// by the monitors as well (retention; params-update-not-applied).

import (
	"fmt"
	"strings"
	"time"

	sdk "github.com/cosmos/cosmos-sdk/types"

	oraclekeeper "github.com/ExocoreNetwork/exocore/x/oracle/keeper"
	oracletypes "github.com/ExocoreNetwork/exocore/x/oracle/types"
)

// orcUpd: one update = payload + what it is meant to do to the harness's spec.
type orcUpd struct {
	kind  string
	in    oracletypes.Params
	apply func(s *orcSpec) // the intention, applied to the harness's spec when the handler accepts
	// model payload
	maxSize int32
	srcs    [][2]bool
	toks    [][2]int64 // existing (0 = new), decimal
	rules   [][]uint64
	feeders []orcFeeder
}

func (u *orcUpd) line() string {
	var sb strings.Builder
	fmt.Fprintf(&sb, "orc.updparams %s %d %d", u.kind, u.maxSize, len(u.srcs))
	for _, s := range u.srcs {
		fmt.Fprintf(&sb, " %d %d", b2i(s[0]), b2i(s[1]))
	}
	fmt.Fprintf(&sb, " %d", len(u.toks))
	for _, t := range u.toks {
		fmt.Fprintf(&sb, " %d %d", t[0], t[1])
	}
	fmt.Fprintf(&sb, " %d", len(u.rules))
	for _, r := range u.rules {
		fmt.Fprintf(&sb, " %s", joinU(r))
	}
	fmt.Fprintf(&sb, " %d", len(u.feeders))
	for _, f := range u.feeders {
		fmt.Fprintf(&sb, " %d %d %d %d %d %d", f.Token, f.Rule, f.StartRound, f.StartBase, f.Interval, f.End)
	}
	return sb.String()
}

func (u *orcUpd) addSource(name string, valid, det bool) {
	u.in.Sources = append(u.in.Sources, &oracletypes.Source{Name: name, Valid: valid, Deterministic: det,
		Entry: &oracletypes.Endpoint{Offchain: map[uint64]string{0: ""}}})
	u.srcs = append(u.srcs, [2]bool{valid, det})
}

func (u *orcUpd) addRule(ids []uint64) {
	u.in.Rules = append(u.in.Rules, &oracletypes.RuleSource{SourceIDs: ids})
	u.rules = append(u.rules, ids)
}

func (u *orcUpd) addFeeder(f orcFeeder) {
	u.in.TokenFeeders = append(u.in.TokenFeeders, &oracletypes.TokenFeeder{TokenID: f.Token, RuleID: f.Rule, StartRoundID: f.StartRound,
		StartBaseBlock: f.StartBase, Interval: f.Interval, EndBlock: f.End})
	u.feeders = append(u.feeders, f)
}

// tokName: the name genesis gave token id k (dom_oracle.go: newOrc) or an update gave it here.
func tokName(k int) string { return fmt.Sprintf("TK%d", k-1) }

func (u *orcUpd) setToken(existing int, name string, dec int32) {
	u.in.Tokens = append(u.in.Tokens, &oracletypes.Token{Name: name, ChainID: 1, ContractAddress: "0x", Decimal: dec, Active: true})
	u.toks = append(u.toks, [2]int64{int64(existing), int64(dec)})
}

// lastFeederOf: index (0-based, into s.Feeders) of the latest feeder of token tok, or -1.
func (s *orcSpec) lastFeederOf(tok uint64) int {
	idx := -1
	for i, f := range s.Feeders {
		if f.Token == tok {
			idx = i
		}
	}
	return idx
}

// validEnd: an end block for feeder f that lies after `after` and outside every window.
func validEnd(f orcFeeder, maxNonce int32, after uint64, rounds uint64, off uint64) uint64 {
	k := uint64(0)
	if after >= f.StartBase {
		k = (after - f.StartBase) / f.Interval
	}
	room := f.Interval - uint64(maxNonce)
	return f.StartBase + (k+1+rounds)*f.Interval + uint64(maxNonce) + off%room
}

// genUpd builds one accepted-by-intention update for the current state; ok=false when the kind does
// not apply now.
func (d *orcDriver) genUpd(kind string) (u orcUpd, ok bool) {
	s := d.spec
	h := uint64(d.c.Header.Height)
	u.kind = kind
	salt := len(d.hist)
	switch kind {
	case "maxsize":
		cands := []int32{1, 2, 3, s.MaxSize + 1, 100}
		if s.MaxSize > 1 {
			cands = append(cands, s.MaxSize-1)
		}
		m := cands[d.rng.Intn(len(cands))]
		u.in.MaxSizePrices, u.maxSize = m, m
		u.apply = func(s *orcSpec) { s.MaxSize = m }
	case "ignored":
		u.in.MaxNonce, u.in.ThresholdA, u.in.ThresholdB, u.in.MaxDetId, u.in.Mode = s.MaxNonce+1, 1, 9, s.MaxDetID+2, 2
		u.apply = func(s *orcSpec) {}
	case "source":
		// deterministic only while no other source is: a report slot of a second deterministic source stays nil
		// until that source has its own consensus and aggregator.aggregate panics on it (outside the model,
		// Model/Oracle.lean: Report.aggregate) — the directed scenario covers a deterministic newcomer
		det := d.rng.Bool()
		for _, x := range s.Sources {
			if x[1] {
				det = false
			}
		}
		u.addSource(fmt.Sprintf("SN%d", salt), true, det)
		u.apply = func(s *orcSpec) { s.Sources = append(s.Sources, [2]bool{true, det}) }
	case "rule":
		// Validate compares a rule's source ids with the number of RULES (reserved entry included)
		nRules := uint64(len(s.Rules) + 1 + 1)
		var ids []uint64
		for id := uint64(1); id <= uint64(len(s.Sources)) && id < nRules; id++ {
			if d.rng.Bool() || len(ids) == 0 {
				ids = append(ids, id)
			}
		}
		if len(ids) == 0 {
			return u, false
		}
		u.addRule(ids)
		u.apply = func(s *orcSpec) { s.Rules = append(s.Rules, ids) }
	case "token+feeder":
		if len(s.TokenDec) >= 5 {
			return u, false
		}
		dec := []int32{0, 6, 8, 18}[d.rng.Intn(4)]
		newTok := uint64(len(s.TokenDec) + 1)
		u.setToken(0, tokName(int(newTok)), dec)
		rule := uint64(1 + d.rng.Intn(len(s.Rules)))
		f := orcFeeder{Token: newTok, Rule: rule, StartRound: 1, StartBase: h + 1 + uint64(d.rng.Intn(4)), Interval: uint64(2*s.MaxNonce) + uint64(d.rng.Intn(4))}
		if d.rng.Chance(1, 4) {
			f.End = validEnd(f, s.MaxNonce, f.StartBase, uint64(d.rng.Intn(2)), uint64(d.rng.Intn(5)))
		}
		u.addFeeder(f)
		u.apply = func(s *orcSpec) {
			s.TokenDec = append(s.TokenDec, dec)
			s.GenNext = append(s.GenNext, 0)
			s.GenPrice = append(s.GenPrice, "")
			s.Feeders = append(s.Feeders, f)
		}
	case "feeder-end":
		var cands []int
		for tok := 1; tok <= len(s.TokenDec); tok++ {
			if i := s.lastFeederOf(uint64(tok)); i >= 0 && s.Feeders[i].StartBase <= h && s.Feeders[i].End == 0 {
				cands = append(cands, i)
			}
		}
		if len(cands) == 0 {
			return u, false
		}
		i := cands[d.rng.Intn(len(cands))]
		f := s.Feeders[i]
		end := validEnd(f, s.MaxNonce, h, uint64(d.rng.Intn(2)), uint64(d.rng.Intn(5)))
		if end <= h {
			return u, false
		}
		u.addFeeder(orcFeeder{Token: f.Token, End: end})
		u.apply = func(s *orcSpec) { s.Feeders[i].End = end }
	case "feeder-resume":
		var cands []int
		for tok := 1; tok <= len(s.TokenDec); tok++ {
			if i := s.lastFeederOf(uint64(tok)); i >= 0 && s.Feeders[i].End > 0 && s.Feeders[i].End <= h {
				cands = append(cands, i)
			}
		}
		if len(cands) == 0 {
			return u, false
		}
		f := s.Feeders[cands[d.rng.Intn(len(cands))]]
		nf := orcFeeder{Token: f.Token, Rule: f.Rule, StartRound: f.StartRound + orcRoundsOpened(f), // the rounds it really opened (dom_oracle_handover.go)
			StartBase: h + 1 + uint64(d.rng.Intn(3)), Interval: uint64(2*s.MaxNonce) + uint64(d.rng.Intn(3))}
		u.addFeeder(nf)
		u.apply = func(s *orcSpec) { s.Feeders = append(s.Feeders, nf) }
	case "feeder-edit":
		var cands []int
		for tok := 1; tok <= len(s.TokenDec); tok++ {
			if i := s.lastFeederOf(uint64(tok)); i >= 0 && s.Feeders[i].StartBase > h {
				cands = append(cands, i)
			}
		}
		if len(cands) == 0 {
			return u, false
		}
		i := cands[d.rng.Intn(len(cands))]
		f := s.Feeders[i]
		nf := f
		e := orcFeeder{Token: f.Token}
		if d.rng.Bool() {
			nf.StartBase = h + 1 + uint64(d.rng.Intn(3))
			e.StartBase = nf.StartBase
		}
		if d.rng.Bool() || e.StartBase == 0 {
			nf.Interval = uint64(2*s.MaxNonce) + uint64(d.rng.Intn(4))
			e.Interval = nf.Interval
		}
		if nf.End > 0 { // keep the end block admissible for the edited schedule
			nf.End = validEnd(nf, s.MaxNonce, nf.StartBase, 1, uint64(d.rng.Intn(3)))
			e.End = nf.End
		}
		u.addFeeder(e)
		u.apply = func(s *orcSpec) { s.Feeders[i] = nf }
	case "decimal":
		if len(s.TokenDec) == 0 {
			return u, false
		}
		tok := 1 + d.rng.Intn(len(s.TokenDec))
		started := false
		for _, f := range s.Feeders {
			if f.Token == uint64(tok) && h >= f.StartBase {
				started = true
			}
		}
		dec := []int32{1, 6, 8}[d.rng.Intn(3)]
		u.setToken(tok, tokName(tok), dec)
		u.kind = "decimal-" + map[bool]string{true: "started", false: "notstarted"}[started]
		u.apply = func(s *orcSpec) {
			if !started {
				s.TokenDec[tok-1] = dec
			}
		}
	default:
		return d.genUpdEdge(kind) // boundary kinds: dom_oracle_handover.go
	}
	return u, true
}

var orcUpdKinds = []string{"maxsize", "maxsize", "ignored", "source", "rule", "token+feeder", "token+feeder", "feeder-end", "feeder-resume", "feeder-edit", "decimal"}

// updParamsAcc delivers u through the real msg server (the writes are kept when the handler accepts) and
// records op + observation; on acceptance the harness's spec follows the intention. Returns the class.
func (o *orc) updParamsAcc(u orcUpd) string {
	k := o.c.App.OracleKeeper
	ctx := o.ctx()
	cctx, write := ctx.CacheContext()
	cls := "rej"
	func() {
		defer func() {
			if rec := recover(); rec != nil {
				cls = "panic"
			}
		}()
		if _, err := oraclekeeper.NewMsgServerImpl(k).UpdateParams(sdk.WrapSDKContext(cctx), &oracletypes.MsgUpdateParams{Authority: orcParamsAuthority(), Params: u.in}); err == nil {
			cls = "ok"
			write()
		}
	}()
	o.op(u.line(), cls+"|"+o.fullObs())
	o.env.Outcome("updparams-acc:" + u.kind + ":" + cls)
	if cls == "ok" {
		o.spec = o.spec.clone() // the spec's slices may be shared with the caller's (and a later run's) spec
		u.apply(&o.spec)
	}
	return cls
}

func (s orcSpec) clone() orcSpec {
	c := s
	c.Powers = append([]int64{}, s.Powers...)
	c.Sources = append([][2]bool{}, s.Sources...)
	c.Rules = nil
	for _, r := range s.Rules {
		c.Rules = append(c.Rules, append([]uint64{}, r...))
	}
	c.TokenDec = append([]int32{}, s.TokenDec...)
	c.Feeders = append([]orcFeeder{}, s.Feeders...)
	c.GenNext = append([]uint64{}, s.GenNext...)
	c.GenPrice = append([]string{}, s.GenPrice...)
	return c
}

// updParams: updParamsAcc + the retention bookkeeping and the params monitor of the round domains.
func (d *orcDriver) updParams(u orcUpd) string {
	oldMax := d.orc.spec.MaxSize
	cls := d.orc.updParamsAcc(u)
	if cls != "ok" {
		return cls
	}
	if d.orc.spec.MaxSize < oldMax {
		d.shrunk = true
	}
	d.paramsMonitor(u)
	return cls
}

// paramsMonitor: what an accepted update was meant to configure is what the store holds (the values the
// properties call "the configured number" / "the feeder's rule and token").
func (d *orcDriver) paramsMonitor(u orcUpd) {
	s := d.spec
	p := d.c.App.OracleKeeper.GetParams(d.ctx())
	d.env.Eval("C12.params")
	bad := ""
	switch {
	case p.MaxSizePrices != s.MaxSize:
		bad = fmt.Sprintf("MaxSizePrices %d, configured %d", p.MaxSizePrices, s.MaxSize)
	case len(p.Sources) != len(s.Sources)+1:
		bad = fmt.Sprintf("%d sources, configured %d", len(p.Sources)-1, len(s.Sources))
	case len(p.Rules) != len(s.Rules)+1:
		bad = fmt.Sprintf("%d rules, configured %d", len(p.Rules)-1, len(s.Rules))
	case len(p.Tokens) != len(s.TokenDec)+1:
		bad = fmt.Sprintf("%d tokens, configured %d", len(p.Tokens)-1, len(s.TokenDec))
	case len(p.TokenFeeders) != len(s.Feeders)+1:
		bad = fmt.Sprintf("%d feeders, configured %d", len(p.TokenFeeders)-1, len(s.Feeders))
	case p.MaxNonce != s.MaxNonce || p.ThresholdA != s.ThA || p.ThresholdB != s.ThB || p.MaxDetId != s.MaxDetID:
		bad = "MaxNonce / thresholds / MaxDetId changed by a parameter update"
	}
	if bad == "" {
		for i, f := range s.Feeders {
			g := p.TokenFeeders[i+1]
			if g.TokenID != f.Token || g.RuleID != f.Rule || g.StartRoundID != f.StartRound || g.StartBaseBlock != f.StartBase || g.Interval != f.Interval || g.EndBlock != f.End {
				bad = fmt.Sprintf("feeder %d stored as %v, configured %+v", i+1, g, f)
				break
			}
		}
	}
	if bad == "" {
		for i, dec := range s.TokenDec {
			if p.Tokens[i+1].Decimal != dec {
				bad = fmt.Sprintf("token %d has %d decimals, configured %d", i+1, p.Tokens[i+1].Decimal, dec)
				break
			}
		}
	}
	if bad == "" {
		for i, r := range s.Rules {
			if joinU(p.Rules[i+1].SourceIDs) != joinU(r) {
				bad = fmt.Sprintf("rule %d stored as %v, configured %v", i+1, p.Rules[i+1].SourceIDs, r)
				break
			}
		}
	}
	if bad != "" {
		d.env.Violate("C12.params", "params-update-not-applied:"+strings.SplitN(u.kind, "-", 2)[0], "an accepted MsgUpdateParams ("+u.kind+") did not configure what it carries: "+bad, d.hist)
	}
}

// maybeUpdate: with probability num/den one accepted update of a random applicable kind.
func (d *orcDriver) maybeUpdate(num, den int) {
	if !d.rng.Chance(num, den) {
		return
	}
	for try := 0; try < 4; try++ {
		if u, ok := d.genUpd(orcUpdKinds[d.rng.Intn(len(orcUpdKinds))]); ok {
			d.updParams(u)
			return
		}
	}
}

// afterEndBlock: retention bookkeeping. When the bound was lowered in this block, the rounds that the
// new bound can never reach (AppendPriceTR deletes exactly the key NextRoundID − MaxSizePrices of each
// append) are recorded as stale: they are finding F-12a, not a failure to apply the new bound.
func (d *orcDriver) afterEndBlock() {
	if !d.shrunk {
		return
	}
	d.shrunk = false
	k := d.c.App.OracleKeeper
	ctx := d.ctx()
	if d.stale == nil {
		d.stale = map[uint64]map[uint64]bool{}
	}
	for ti := range d.spec.TokenDec {
		tok := uint64(ti + 1)
		next := k.GetNextRoundID(ctx, tok)
		for r := uint64(1); r+uint64(d.spec.MaxSize) < next; r++ {
			if _, ok := k.GetPriceTRRoundID(ctx, tok, r); ok {
				if d.stale[tok] == nil {
					d.stale[tok] = map[uint64]bool{}
				}
				d.stale[tok][r] = true
			}
		}
	}
}

// updMaxSize: the explicit form of the "maxsize" kind.
func updMaxSize(m int32) orcUpd {
	u := orcUpd{kind: "maxsize", maxSize: m}
	u.in.MaxSizePrices = m
	u.apply = func(s *orcSpec) { s.MaxSize = m }
	return u
}

// directedParamsUpdates: one chain, three equal validators, one feeder (interval 6, rounds finalized
// by honest submissions), every kind of accepted update at a fixed height, each followed by the
// rounds that depend on it:
//
//	block 26  MaxSizePrices 100 → 2     five rounds are stored: the next finals must leave two (+ the rounds
//	                                    the lowered bound never reaches: finding F-12a)
//	block 38  MaxSizePrices 2 → 1       the boundary value of Validate (`MaxSizePrices < 1`)
//	block 44  payload with MaxNonce / thresholds / MaxDetId / Mode only: accepted, nothing changes
//	block 50  MaxSizePrices 1 → 4       raised again
//	block 52  a new non-deterministic source; block 53 a rule over it and source 1; block 54 a new token
//	          with a feeder judged by that rule (decimals changed at block 55, before it starts, and once
//	          more after it started: ignored)
//	block 70  end block for feeder 1; once it has stopped, a successor feeder with the next round id
func directedParamsUpdates(env *Env, wMon string) {
	spec := orcSpec{Powers: []int64{10, 10, 10}, MaxNonce: 3, ThA: 2, ThB: 3, MaxDetID: 5, MaxSize: 100,
		Sources: [][2]bool{{true, true}}, Rules: [][]uint64{{0}, {1}}, TokenDec: []int32{0},
		Feeders: []orcFeeder{{Token: 1, Rule: 2, StartRound: 2, StartBase: 1, Interval: 6}}, GenNext: []uint64{2}, GenPrice: []string{"1"}}
	o := newOrc(env, 121212, spec, nil)
	o.emitSetup()
	d := newOrcDriver(o, NewRNG(1212))
	d.wMon = wMon
	d.sigTag = ""
	var resumed bool
	for b := 0; b < 100; b++ {
		h := uint64(o.c.Header.Height)
		s := d.spec
		switch h {
		case 26:
			d.updParams(updMaxSize(2))
		case 38:
			d.updParams(updMaxSize(1))
		case 44:
			if u, ok := d.genUpd("ignored"); ok {
				d.updParams(u)
			}
		case 50:
			d.updParams(updMaxSize(4))
		case 52:
			u := orcUpd{kind: "source"}
			u.addSource("SNdirected", true, false)
			u.apply = func(s *orcSpec) { s.Sources = append(s.Sources, [2]bool{true, false}) }
			d.updParams(u)
		case 53:
			u := orcUpd{kind: "rule"}
			u.addRule([]uint64{1, 2})
			u.apply = func(s *orcSpec) { s.Rules = append(s.Rules, []uint64{1, 2}) }
			d.updParams(u)
		case 54:
			u := orcUpd{kind: "token+feeder"}
			u.setToken(0, tokName(2), 8)
			f := orcFeeder{Token: 2, Rule: uint64(len(s.Rules)), StartRound: 1, StartBase: 58, Interval: 7}
			u.addFeeder(f)
			u.apply = func(s *orcSpec) {
				s.TokenDec = append(s.TokenDec, 8)
				s.GenNext = append(s.GenNext, 0)
				s.GenPrice = append(s.GenPrice, "")
				s.Feeders = append(s.Feeders, f)
			}
			d.updParams(u)
		case 55, 66:
			if len(s.TokenDec) > 1 {
				dec := int32(6)
				if h == 66 {
					dec = 18
				}
				u := orcUpd{kind: map[bool]string{true: "decimal-notstarted", false: "decimal-started"}[h == 55]}
				u.setToken(2, tokName(2), dec)
				u.apply = func(s *orcSpec) {
					if h == 55 {
						s.TokenDec[1] = dec
					}
				}
				d.updParams(u)
			}
		case 70:
			if u, ok := d.genUpd("feeder-end"); ok {
				d.updParams(u)
			}
		}
		if !resumed && h > 70 {
			if u, ok := d.genUpd("feeder-resume"); ok {
				resumed = d.updParams(u) == "ok"
			}
		}
		d.block(0)
		if _, halted := d.endBlock(); halted {
			env.Violate("C12.halt", "halt", "EndBlock panicked: "+o.halted, o.hist)
			return
		}
		d.afterEndBlock()
		d.idsMonitor(uint64(o.c.Header.Height), nil)
		if !d.commitBegin(2 * time.Second) {
			env.Violate("C12.halt", "halt", "Commit/BeginBlock panicked: "+o.halted, o.hist)
			return
		}
	}
	env.Outcome(fmt.Sprintf("directed-paramsupd:finals=%d,resumed=%v", d.finals, resumed))
	env.Report.Histories++
}

// c14AcceptedParams (C14: "right after a … parameter change"): block 4 carries three ACCEPTED updates —
// MaxSizePrices 100 → 2, an end block (20) for the running feeder, a second token with its own feeder
// (start 6, interval 7) — the node restarts right after that block / two blocks later (inside the replay
// window, so that recacheAggregatorContext has to pick the params of block 4 for the replayed blocks); both
// feeders' rounds are then reported and finalized, feeder 1 runs into its end block. Continuous and
// restarted node must agree on every result, price, retained round, the params held in memory and the
// application hash.
func c14AcceptedParams(env *Env, base orcSpec) {
	mk := func(d *orcDriver, v int, feeder, based uint64, nonce int32, det, price string) orcTx {
		return orcTx{Msgs: []orcMsg{{Creator: v, Feeder: feeder, Based: based, Nonce: nonce, Srcs: []orcSource{{ID: 1, Prices: []orcPrice{{Price: price, Dec: 0, Ts: d.c.Header.Time.Unix(), DetID: det}}}}}}}
	}
	for _, restartAfter := range []int{3, 5} {
		name := fmt.Sprintf("accepted-params-update-restart-after-%d", restartAfter+1)
		c14DirectedCfg(env, name, ":accepted-params-update", base, 26, restartAfter, nil,
			func(d *orcDriver, h uint64) c14Block {
				blk := c14Block{step: 2 * time.Second}
				switch h {
				case 4:
					blk.pre = func(o *orc) {
						o.updParamsAcc(updMaxSize(2))
						u := orcUpd{kind: "feeder-end"}
						u.addFeeder(orcFeeder{Token: 1, End: 20})
						u.apply = func(s *orcSpec) { s.Feeders[0].End = 20 }
						o.updParamsAcc(u)
						u2 := orcUpd{kind: "token+feeder"}
						u2.setToken(0, tokName(2), 0)
						f := orcFeeder{Token: 2, Rule: 2, StartRound: 1, StartBase: 6, Interval: 7}
						u2.addFeeder(f)
						u2.apply = func(s *orcSpec) {
							if len(s.TokenDec) == 1 {
								s.TokenDec = append(s.TokenDec, 0)
								s.GenNext = append(s.GenNext, 0)
								s.GenPrice = append(s.GenPrice, "")
								s.Feeders = append(s.Feeders, f)
							}
						}
						o.updParamsAcc(u2)
					}
				case 7, 14, 21: // feeder 2: rounds based at 6, 13, 20
					b := h - 1
					blk.txs = []orcTx{mk(d, 0, 2, b, 1, fmt.Sprint(9+h), "3"), mk(d, 1, 2, b, 1, fmt.Sprint(9+h), "3")}
				case 10, 17: // feeder 1: rounds based at 9, 16 (its end block is 20)
					b := h - 1
					blk.txs = []orcTx{mk(d, 0, 1, b, 1, fmt.Sprint(9+h), "2"), mk(d, 1, 1, b, 1, fmt.Sprint(9+h), "2")}
				case 24: // after the end block: refused on both nodes
					blk.txs = []orcTx{mk(d, 0, 1, 23, 1, "40", "2")}
				}
				return blk
			},
			func(a *c14Trace) string {
				if len(a.memP) < 5 || !strings.Contains(a.memP[4], ",2") {
					return ""
				}
				return ""
			})
	}
}
