package main

// C18 — emptied pools, completed undelegations and the readers that depend on them.
//
// An undelegation completes UnbondingExpiration (10) blocks after it was started, and only when x/dogfood no longer holds
// it (EpochsUntilUnbonded epoch ends). Histories of a few dozen steps with one block in five steps never get that far, so
// the states "a pool (operator, asset) everybody has left" — the row {0,0,0,0} stays in x/assets, the zero-share
// delegation rows staker/asset/operator stay in x/delegation, the undelegated amount is withdrawable again — were never
// exported. This file adds
//   * matureAll: the chain runs on until no undelegation record is pending (history step `mature` of the random
//     histories, and the tail of the boundary scenarios B2 / B12..B14),
//   * the delegation rows as an input of the Lean model (`gen.dl`) and the observation `gen.pools`: for every delegation
//     row of the original chain, what the pool reader of x/assets (GetOperatorSpecifiedAssetInfo) and TokensFromShares
//     answer on the RE-IMPORTED chain,
//   * monitor C18.query: "the re-started chain behaves like the original" evaluated on the readers that walk the
//     delegation rows of a staker and look every pool up — GetOperatorSpecifiedAssetInfo, AllDelegatedInfoForStakerAsset,
//     TotalDelegatedAmountForStakerAsset, CalculateUSDValueForStaker (the reward weight of x/feedistribution) — asked on
//     the original chain and on the re-imported one, right after the import and again after the lock-step continuation.

import (
	"errors"
	"fmt"
	"sort"
	"strings"
	"time"

	sdk "github.com/cosmos/cosmos-sdk/types"

	assetstypes "github.com/ExocoreNetwork/exocore/x/assets/types"
	delegationkeeper "github.com/ExocoreNetwork/exocore/x/delegation/keeper"
)

// matureAll runs the chain on until no undelegation record is pending: four blocks that each close an (hour) epoch — the
// x/dogfood holds are released after at most three — then one-second blocks until the completion height has passed.
func (w *genWorld) matureAll() (blocks, left int) {
	c := w.c
	pending := func() int {
		recs, _ := c.App.DelegationKeeper.AllUndelegations(c.Ctx)
		return len(recs)
	}
	left = pending()
	w.note("run on until the %d pending undelegation(s) have completed", left)
	for left > 0 && blocks < 18 {
		d := time.Second
		if blocks < 4 {
			d = EpochDuration(c.Cfg.EpochID) + time.Second
		}
		w.note("next block +%s", d)
		if r := c.EndAndBegin(d); r.Halt != "" {
			w.env.Violate("C18.halt", "halt", "block processing panicked: "+r.Halt, w.hist)
			return
		}
		blocks++
		left = pending()
	}
	return
}

// ---- the delegation rows: input of the model, subject of the readers

type delegRow struct {
	key, staker, asset, operator string
	share, pending               string // raw LegacyDec / Int
}

func viewDelegs(c *Chain, ctx sdk.Context) (rows []delegRow) {
	states, _ := c.App.DelegationKeeper.AllDelegationStates(ctx)
	for _, st := range states {
		p := strings.Split(st.Key, "/")
		if len(p) != 3 {
			continue
		}
		rows = append(rows, delegRow{key: st.Key, staker: p[0], asset: p[1], operator: p[2],
			share: st.States.UndelegatableShare.BigInt().String(), pending: st.States.WaitUndelegationAmount.String()})
	}
	return
}

func (w *genWorld) emitDelegs(rows []delegRow) {
	for _, r := range rows {
		w.op(fmt.Sprintf("gen.dl %s %s %s %s %s", r.staker, r.asset, r.operator, r.share, r.pending), "ok")
	}
}

// poolAnswer: what the pool reader and the share conversion answer for one delegation row on ctx:
// total:pending:totalShare:operatorShare:amount, `missing` when the pool has no row (ErrNoOperatorAssetKey)
func poolAnswer(c *Chain, ctx sdk.Context, r delegRow) (ans string) {
	defer func() {
		if p := recover(); p != nil {
			ans = "panic"
		}
	}()
	acc, err := sdk.AccAddressFromBech32(r.operator)
	if err != nil {
		return "badoperator"
	}
	info, err := c.App.AssetsKeeper.GetOperatorSpecifiedAssetInfo(ctx, acc, r.asset)
	if err != nil {
		if errors.Is(err, assetstypes.ErrNoOperatorAssetKey) {
			return "missing"
		}
		return "err"
	}
	share, ok := sdk.NewIntFromString(r.share)
	amount := "err"
	if ok {
		if a, e := delegationkeeper.TokensFromShares(sdk.NewDecFromBigIntWithPrec(share.BigInt(), sdk.Precision), info.TotalShare, info.TotalAmount); e == nil {
			amount = a.String()
		}
	}
	return fmt.Sprintf("%s:%s:%s:%s:%s", info.TotalAmount, info.PendingUndelegationAmount, info.TotalShare.BigInt(), info.OperatorShare.BigInt(), amount)
}

// poolsObs renders, for the delegation rows `rows` (of the original chain, store order), the answers on `ctx`
func poolsObs(c *Chain, ctx sdk.Context, rows []delegRow) string {
	out := make([]string, len(rows))
	for i, r := range rows {
		out[i] = r.key + "=" + poolAnswer(c, ctx, r)
	}
	return "pools=[" + strings.Join(out, ",") + "]"
}

// ---- monitor C18.query

func errText(err error) string {
	s := strings.ReplaceAll(err.Error(), "\n", " ")
	if len(s) > 160 {
		s = s[:160]
	}
	return "error(" + s + ")"
}

// genQueries asks the readers that walk a staker's delegation rows, for every delegation row present on ctx.
// key = "<reader> <subject>", value = canonical answer (amounts as integers, maps sorted, errors by their text).
func genQueries(c *Chain, ctx sdk.Context) map[string]string {
	q := map[string]string{}
	ask := func(key string, f func() string) {
		if _, done := q[key]; done {
			return
		}
		defer func() {
			if p := recover(); p != nil {
				q[key] = fmt.Sprintf("panic(%.120v)", p)
			}
		}()
		q[key] = f()
	}
	for _, r := range viewDelegs(c, ctx) {
		r := r
		ask("pool "+r.operator+"/"+r.asset, func() string { return poolAnswerNoAmount(c, ctx, r) })
		ask("delegated-info "+r.staker+"/"+r.asset, func() string {
			m, err := c.App.DelegationKeeper.AllDelegatedInfoForStakerAsset(ctx, r.staker, r.asset)
			if err != nil {
				return errText(err)
			}
			var l []string
			for op, a := range m {
				l = append(l, op+":"+a.String())
			}
			sort.Strings(l)
			return strings.Join(l, ",")
		})
		ask("delegated-total "+r.staker+"/"+r.asset, func() string {
			a, err := c.App.DelegationKeeper.TotalDelegatedAmountForStakerAsset(ctx, r.staker, r.asset)
			if err != nil {
				return errText(err)
			}
			return a.String()
		})
		ask("staker-usd-value "+r.staker+"/"+r.operator, func() string {
			acc, err := sdk.AccAddressFromBech32(r.operator)
			if err != nil {
				return "badoperator"
			}
			v, err := c.App.OperatorKeeper.CalculateUSDValueForStaker(ctx, r.staker, c.AVSAddr, acc)
			if err != nil {
				return errText(err)
			}
			return v.BigInt().String()
		})
	}
	return q
}

func poolAnswerNoAmount(c *Chain, ctx sdk.Context, r delegRow) string {
	a := poolAnswer(c, ctx, r)
	if i := strings.LastIndexByte(a, ':'); i >= 0 {
		return a[:i]
	}
	return a
}

// diffQueries lists the questions the two chains answer differently (a question only one chain was asked counts)
func diffQueries(orig, reimp map[string]string, when string) (out []string) {
	keys := map[string]bool{}
	for k := range orig {
		keys[k] = true
	}
	for k := range reimp {
		keys[k] = true
	}
	for _, k := range sortedBoolKeys(keys) {
		a, okA := orig[k]
		b, okB := reimp[k]
		if !okA {
			a = "(no such delegation row)"
		}
		if !okB {
			b = "(no such delegation row)"
		}
		if a != b {
			out = append(out, fmt.Sprintf("%s %s: the original chain answers %s, the re-imported chain answers %s", k, when, a, b))
		}
	}
	return
}

func sortedBoolKeys(m map[string]bool) []string {
	out := make([]string, 0, len(m))
	for k := range m {
		out = append(out, k)
	}
	sort.Strings(out)
	return out
}

// checkQueries raises the differences under sig query:<reader>
func (w *genWorld) checkQueries(diff []string) {
	w.env.Eval("C18.query")
	for _, d := range diff {
		reader := strings.Fields(d)[0]
		what := map[string]string{
			"pool":             "x/assets GetOperatorSpecifiedAssetInfo (gRPC QueOperatorSpecifiedAssetAmount) for the pool of a delegation row",
			"delegated-info":   "x/delegation AllDelegatedInfoForStakerAsset",
			"delegated-total":  "x/delegation TotalDelegatedAmountForStakerAsset",
			"staker-usd-value": "x/operator CalculateUSDValueForStaker for the chain's own AVS (the staker's weight in x/feedistribution AllocateTokensToStakers)",
		}[reader]
		w.env.Violate("C18.query", "query:"+reader, "the re-imported chain does not answer like the original: "+what+": "+d, w.hist)
	}
}

// emptiedPools counts the pool rows of nothing but zeros and the zero-share delegation rows of a state
func emptiedPools(a assetsView, rows []delegRow) (pools, zeroRows int) {
	for _, l := range a.ops {
		f := strings.Fields(l)
		if len(f) == 7 && f[3] == "0" && f[4] == "0" && f[5] == "0" && f[6] == "0" {
			pools++
		}
	}
	for _, r := range rows {
		if r.share == "0" && r.pending == "0" {
			zeroRows++
		}
	}
	return
}

// ---- boundary scenarios B12..B14 (called from genBoundary)

func genBoundaryEmptied(env *Env, world func(tag string, i uint64, o genOpts) *genWorld) {
	// B12: a pool everybody has left. One staker delegates all it holds of the second LST to a validator, undelegates all
	// of it, the undelegation completes: pool row {0,0,0,0}, delegation row with share 0, the amount withdrawable again
	// (not withdrawn). Control (second pass): two stakers, one of them still waits for its undelegation — pending > 0.
	for _, control := range []bool{false, true} {
		genForceUnbond = 1
		w := world("B12", 12, genOpts{lst2: true})
		genForceUnbond = 0
		w.must("deposit", w.onAsset(1, func() error { return w.deposit(1, 3000000) }))
		w.must("delegate-all", w.onAsset(1, func() error { return w.delegate(1, 2, 3000000, false) }))
		if control {
			w.must("deposit-2", w.onAsset(1, func() error { return w.deposit(0, 2000000) }))
			w.must("delegate-2", w.onAsset(1, func() error { return w.delegate(0, 2, 2000000, false) }))
		}
		w.blocks(time.Second)
		w.must("undelegate-all", w.onAsset(1, func() error { return w.delegate(1, 2, 3000000, true) }))
		_, left := w.matureAll()
		if control {
			w.must("undelegate-2", w.onAsset(1, func() error { return w.delegate(0, 2, 2000000, true) }))
		}
		env.Outcome(fmt.Sprintf("boundary:B12:control=%v:left=%d", control, left))
		w.runOne(0, false, 4)
	}

	// B13: the staker keeps a delegation of the FIRST asset with the same validator while its pool of the second asset is
	// emptied: CalculateUSDValueForStaker walks both delegation rows of the staker and looks both pools up (the staker's
	// share of the operator's rewards in x/feedistribution). Run on over several reward epochs.
	genForceUnbond = 1
	w := world("B13", 13, genOpts{lst2: true})
	genForceUnbond = 0
	w.must("deposit-a0", w.deposit(2, 40000000))
	w.must("delegate-a0", w.delegate(2, 1, 40000000, false))
	w.must("deposit-a1", w.onAsset(1, func() error { return w.deposit(2, 25000000) }))
	w.must("delegate-a1", w.onAsset(1, func() error { return w.delegate(2, 1, 25000000, false) }))
	w.blocks(time.Hour+time.Second, time.Second)
	w.must("undelegate-a1-all", w.onAsset(1, func() error { return w.delegate(2, 1, 25000000, true) }))
	_, left := w.matureAll()
	env.Outcome(fmt.Sprintf("boundary:B13:left=%d", left))
	w.runOne(0, false, 6)

	// B14: every pool of the second asset emptied — three stakers, three operators — and everything withdrawn again: the
	// token's staking total is back at zero, staker rows, pool rows and delegation rows of nothing but zeros; one operator
	// registered during the history (no stake of its own, not a validator: no x/dogfood hold) among them
	genForceUnbond = 2
	w = world("B14", 14, genOpts{lst2: true, modParams: true})
	genForceUnbond = 0
	w.must("register", w.registerOperator(false))
	for si := 0; si < 3; si++ {
		oi := []int{0, 2, len(w.c.Operators) - 1}[si]
		w.must("deposit", w.onAsset(1, func() error { return w.deposit(si, 7000000) }))
		w.must("delegate-all", w.onAsset(1, func() error { return w.delegate(si, oi, 7000000, false) }))
	}
	w.blocks(time.Second)
	for si := 0; si < 3; si++ {
		oi := []int{0, 2, len(w.c.Operators) - 1}[si]
		w.must("undelegate-all", w.onAsset(1, func() error { return w.delegate(si, oi, 7000000, true) }))
	}
	_, left = w.matureAll()
	for si := 0; si < 3; si++ {
		w.must("withdraw-all", w.onAsset(1, func() error { return w.withdraw(si, 7000000) }))
	}
	env.Outcome(fmt.Sprintf("boundary:B14:left=%d", left))
	w.runOne(0, false, 4)
}
