package main

// C05 — the recorded values THROUGH THE READERS, for every state of the operator's OptedInfo.
//
// The property speaks about "every opted-in operator's recorded value": what the rest of the system
// sees of a record is what the readers hand out — x/operator GetOperatorOptedUSDValue (used by the
// AVS precompile getOperatorOptedUSDValue, the gRPC query QueryOperatorUSDValue, the x/avs epoch hook
// and x/feedistribution), GetVotePowerForChainID (x/dogfood) and GetAVSUSDValue / QueryAVSUSDValue.
// An operator stays opted in while it is JAILED for the AVS (OptedInfo.Jailed, set by
// Jail / SetJailedState: a downtime or double-sign slash of the chain-type AVS): its entry is still
// recomputed at every epoch end and still counted in the AVS's value, so every reader must still
// return the entry. This file
//   * generates jail / unjail of opted-in operators (own RNG stream; the route x/dogfood Jail ->
//     x/operator SetJailedState for the chain's own AVS, and the flag of a further AVS through
//     HandleOptedInfo, the body of SetJailedState) while epochs end, plus one directed history;
//   * prints, after every block, for every (AVS, operator) what GetOperatorOptedUSDValue returns together
//     with the OptedInfo state it depends on (op vp.read, reproduced by Model/VotingPower.lean: readOpted);
//   * evaluates the monitors C05.reader (reader == raw record for every opted-in operator, jailed or not,
//     through the keeper getter, the gRPC query and — for the chain's own AVS — GetVotePowerForChainID)
//     and C05.reader-sum (the AVS value through its readers == sum of the active values through the
//     operator reader, at every epoch end at which the AVS is evaluated).

import (
	"fmt"
	"math/big"
	"strings"
	"time"

	sdk "github.com/cosmos/cosmos-sdk/types"

	epochstypes "github.com/ExocoreNetwork/exocore/x/epochs/types"
	operatortypes "github.com/ExocoreNetwork/exocore/x/operator/types"
)

// vpOptedState: the OptedInfo fields the readers may look at: "none" (no OptedInfo), "out" (opted out),
// "in" (opted in) and the Jailed flag.
func (r *vpRunner) optedState(avs, op string) (string, bool) {
	info, err := r.c.App.OperatorKeeper.GetOptedInfo(r.c.Ctx, op, avs)
	if err != nil || info == nil {
		return "none", false
	}
	if info.OptedOutHeight != operatortypes.DefaultOptedOutHeight {
		return "out", info.Jailed
	}
	return "in", info.Jailed
}

func vpErrName(err error) string {
	switch {
	case err == nil:
		return "ok"
	case strings.Contains(err.Error(), operatortypes.ErrNoKeyInTheStore.Error()):
		return "ErrNoKeyInTheStore"
	default:
		return "rej"
	}
}

// readers: called at the end of every block. `evaluated` = the AVSs whose epoch ended in this block and
// whose formula was evaluated (priced asset list).
func (r *vpRunner) readers(ins []vpAvsIn, after vpTable, evaluated []string) {
	c, env := r.c, r.env
	ok := r.c.App.OperatorKeeper
	isEval := map[string]bool{}
	for _, a := range evaluated {
		isEval[a] = true
	}
	for _, in := range ins {
		// operators: the chain's operators plus whoever has an entry of this AVS
		ops := map[string]bool{}
		for _, o := range c.Operators {
			ops[o.Acc.String()] = true
		}
		for k := range after.Entries {
			if kf := strings.SplitN(k, "/", 2); kf[0] == in.Avs {
				ops[kf[1]] = true
			}
		}
		sum, sumOK := new(big.Int), true
		for _, op := range sortedKeys(ops) {
			st, jailed := r.optedState(in.Avs, op)
			v, err := ok.GetOperatorOptedUSDValue(c.Ctx, in.Avs, op)
			obs := vpErrName(err)
			if err == nil {
				obs = fmt.Sprintf("%s,%s,%s", v.SelfUSDValue.BigInt(), v.TotalUSDValue.BigInt(), v.ActiveUSDValue.BigInt())
				sum.Add(sum, v.ActiveUSDValue.BigInt())
			} else {
				sumOK = false
			}
			j := 0
			if jailed {
				j = 1
			}
			r.env.Op(fmt.Sprintf("vp.read %s %s %s %d", in.Avs, op, st, j), obs) // not kept in r.hist: observation only
			rec, has := after.Entries[in.Avs+"/"+op]
			if st != "in" || !has {
				continue
			}
			tag := "not-jailed"
			if jailed {
				tag = "jailed"
				env.Note("reader-evals:opted-in-and-jailed")
				if rec[1].Sign() > 0 {
					env.Note("reader-evals:opted-in-and-jailed-with-value")
				}
			}
			// ---- monitor: every reader returns the record of an opted-in operator
			env.Eval("C05.reader")
			if err != nil {
				env.Violate("C05.reader", "reader-error:"+tag, fmt.Sprintf("GetOperatorOptedUSDValue(%s,%s): %v, record %v", in.Avs, op, err, rec), r.hist)
			} else if v.SelfUSDValue.BigInt().Cmp(rec[0]) != 0 || v.TotalUSDValue.BigInt().Cmp(rec[1]) != 0 || v.ActiveUSDValue.BigInt().Cmp(rec[2]) != 0 {
				env.Violate("C05.reader", "reader-differs-from-record:keeper:"+tag, fmt.Sprintf("GetOperatorOptedUSDValue(%s,%s) = %s, recorded %s,%s,%s (opted in, jailed=%v)", in.Avs, op, obs, rec[0], rec[1], rec[2], jailed), r.hist)
			}
			q, qerr := ok.QueryOperatorUSDValue(sdk.WrapSDKContext(c.Ctx), &operatortypes.QueryOperatorUSDValueRequest{OperatorAVSAddress: &operatortypes.OperatorAVSAddress{AvsAddress: in.Avs, OperatorAddr: op}})
			if qerr != nil || q == nil || q.USDValues == nil {
				env.Violate("C05.reader", "reader-error:grpc:"+tag, fmt.Sprintf("QueryOperatorUSDValue(%s,%s): %v", in.Avs, op, qerr), r.hist)
			} else if q.USDValues.SelfUSDValue.BigInt().Cmp(rec[0]) != 0 || q.USDValues.TotalUSDValue.BigInt().Cmp(rec[1]) != 0 || q.USDValues.ActiveUSDValue.BigInt().Cmp(rec[2]) != 0 {
				env.Violate("C05.reader", "reader-differs-from-record:grpc:"+tag, fmt.Sprintf("QueryOperatorUSDValue(%s,%s) = %v, recorded %s,%s,%s (jailed=%v)", in.Avs, op, q.USDValues, rec[0], rec[1], rec[2], jailed), r.hist)
			}
			if strings.EqualFold(in.Avs, c.AVSAddr) {
				acc, aerr := sdk.AccAddressFromBech32(op)
				if aerr == nil {
					env.Eval("C05.reader-votepower")
					want := new(big.Int).Quo(rec[2], bigPrec)
					pw, perr := ok.GetVotePowerForChainID(c.Ctx, []sdk.AccAddress{acc}, c.ChainIDNR)
					if perr != nil || len(pw) != 1 {
						env.Violate("C05.reader", "reader-error:votepower:"+tag, fmt.Sprintf("GetVotePowerForChainID(%s): %v", op, perr), r.hist)
					} else if big.NewInt(pw[0]).Cmp(want) != 0 {
						env.Violate("C05.reader", "reader-differs-from-record:votepower:"+tag, fmt.Sprintf("GetVotePowerForChainID(%s) = %d, recorded active %s (jailed=%v)", op, pw[0], rec[2], jailed), r.hist)
					}
				}
			}
		}
		if !isEval[in.Avs] || !sumOK {
			continue
		}
		// ---- monitor: the AVS's value through its readers is the sum of the active values through the operator reader
		env.Eval("C05.reader-sum")
		got, gerr := ok.GetAVSUSDValue(c.Ctx, in.Avs)
		gq, gqerr := ok.QueryAVSUSDValue(sdk.WrapSDKContext(c.Ctx), &operatortypes.QueryAVSUSDValueRequest{AVSAddress: in.Avs})
		switch {
		case gerr != nil || gqerr != nil:
			if sum.Sign() != 0 {
				env.Violate("C05.reader-sum", "avs-value-unreadable", fmt.Sprintf("avs %s: GetAVSUSDValue %v / query %v, sum of active through the reader %s", in.Avs, gerr, gqerr, sum), r.hist)
			}
		case got.BigInt().Cmp(sum) != 0:
			env.Violate("C05.reader-sum", "avs-value-vs-reader-sum", fmt.Sprintf("avs %s: GetAVSUSDValue %s, sum of the active values GetOperatorOptedUSDValue returns %s", in.Avs, got.BigInt(), sum), r.hist)
		case gq.Amount.BigInt().Cmp(sum) != 0:
			env.Violate("C05.reader-sum", "avs-value-vs-reader-sum:grpc", fmt.Sprintf("avs %s: QueryAVSUSDValue %s, sum %s", in.Avs, gq.Amount.BigInt(), sum), r.hist)
		}
	}
}

// jail sets / clears OptedInfo.Jailed of operator oi for `avs`. For the chain's own AVS through the route a
// downtime / double-sign slash takes (x/dogfood StakingKeeper.Jail / Unjail -> x/operator SetJailedState);
// for a further AVS through HandleOptedInfo (the body of SetJailedState; a chain-type AVS of the
// coordinator reaches it through Jail(consAddr, chainID)).
func (r *vpRunner) jail(avs string, oi int, jailed bool) bool {
	c := r.c
	acc := c.Operators[oi].Acc
	route := "flag"
	if strings.EqualFold(avs, c.AVSAddr) {
		route = "dogfood"
		cons := c.ConsKeys[oi].ToConsAddr()
		if jailed {
			c.App.StakingKeeper.Jail(c.Ctx, cons)
		} else {
			c.App.StakingKeeper.Unjail(c.Ctx, cons)
		}
	} else {
		_ = c.CachedDo(func(ctx sdk.Context) error {
			return c.App.OperatorKeeper.HandleOptedInfo(ctx, acc.String(), avs, func(info *operatortypes.OptedInfo) { info.Jailed = jailed })
		})
	}
	st, now := r.optedState(strings.ToLower(avs), acc.String())
	done := st == "in" && now == jailed
	r.env.Outcome(fmt.Sprintf("jail:%s:set=%v:done=%v", route, jailed, done))
	r.op(fmt.Sprintf("vp.note jail avs=%s op=%d(%s) jailed=%v route=%s state=%s/%v", avs, oi, acc, jailed, route, st, now), "ok")
	return done
}

// vpScenarioJailed: operator 1 (self 100 + 50 delegated) is opted into the chain's own AVS and a further one,
// is jailed for both while epochs end, pools and price change while it is jailed, then it is unjailed.
// Operator 0 stays unjailed (the validator set never becomes empty).
func vpScenarioJailed(env *Env) {
	r := vpScenarioBoot(env, 953, epochstypes.MinuteEpochID, "scenario-jailed")
	c := r.c
	usdt := c.AssetIDs[0]
	avs := "0x0000000000000000000000000000000000003001"
	step := 61 * time.Second
	ok := r.registerAVS(avs, []string{usdt}, 100, epochstypes.MinuteEpochID) == nil &&
		r.optIn(avs, 0) == nil && r.optIn(avs, 1) == nil &&
		r.delegate(NewActor(c.Cfg.Seed, "staker", 0), 0, 1, big.NewInt(50_000_000))
	if !ok {
		env.Outcome("scenario-jailed:setup-failed")
		return
	}
	ok = r.block(step) && r.block(step)
	jailedOK := false
	if ok {
		jailedOK = r.jail(c.AVSAddr, 1, true)
		jailedOK = r.jail(avs, 1, true) && jailedOK
		ok = r.block(step) && r.block(step)
	}
	if ok {
		r.setPrice(0, "3", 0)
		r.delegate(NewActor(c.Cfg.Seed, "staker", 1), 0, 1, big.NewInt(25_000_001))
		ok = r.block(step) && r.block(step) // recomputed while jailed
	}
	if ok {
		r.jail(c.AVSAddr, 1, false)
		r.jail(avs, 1, false)
		ok = r.block(step) && r.block(step)
	}
	env.Report.Histories++
	env.Outcome(fmt.Sprintf("scenario-jailed:ok=%v,jailed=%v", ok, jailedOK))
}

// randomJail: one jail / unjail event of a random history (own RNG stream jr, so the other events of the
// history are what they were): operator 0 is never jailed for the chain's own AVS.
func (r *vpRunner) randomJail(jr *RNG, nOps int, extras []*vpExtra) {
	c := r.c
	avs := c.AVSAddr
	if len(extras) > 0 && jr.Chance(1, 2) {
		avs = extras[jr.Intn(len(extras))].addr
	}
	oi := jr.Intn(nOps)
	if strings.EqualFold(avs, c.AVSAddr) {
		if nOps < 2 {
			return
		}
		oi = 1 + jr.Intn(nOps-1)
	}
	st, jailed := r.optedState(strings.ToLower(avs), c.Operators[oi].Acc.String())
	if st != "in" {
		r.env.Outcome("jail:skipped-not-opted-in")
		return
	}
	// mostly flip; 1 in 5 repeat the state it has
	want := !jailed
	if jr.Chance(1, 5) {
		want = jailed
	}
	r.jail(avs, oi, want)
}
