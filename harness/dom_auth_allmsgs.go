package main

// C10 — "Every other caller is rejected without any state change", for EVERY message type the application can
// be sent. The other groups of the auth domain drive the entry points somebody wrote a scenario for; an entry
// point nobody uses (a handler that is a stub today, a Msg service that is not registered today) is not among
// them, and the day it starts to work it is a new way into the privileged state. This group therefore takes the
// list of entry points from the RUNNING APPLICATION, not from the harness:
//
//   every type url of InterfaceRegistry().ListImplementations("cosmos.base.v1beta1.Msg") — all modules, SDK / IBC /
//   evmos ones included — with MsgServiceRouter().HandlerByTypeURL(url) telling whether it is routed,
//
// and sends each one as a correctly signed cosmos tx (CheckTx + DeliverTx) of an OUTSIDER: a funded account that
// is not the gateway, not an AVS, not a listed owner, not an operator, not a validator, not the authority. The
// payload is built by reflection over the generated struct from a vocabulary of values that are VALID ON THE BOOTED
// CHAIN, chosen by proto field name (addresses of the scenario's actors in the encoding the field uses, existing
// epoch identifiers, registered asset ids, the chain id, non-zero numbers …), the signer field being found by
// probing GetSigners(). Variants: the AVS address field names somebody else's unregistered contract / a registered
// AVS / the signer; owner lists hold the signer / the real owner / both; operator fields name a registered operator
// / the signer; the remaining address fields a victim / the signer — the full product for exocore types, plus
// random draws (encodings flipped, zero numbers, unknown strings as addresses); plus one row per type in which
// the signer field names a VICTIM and the outsider signs with his own key.
//
// Around every tx: a byte snapshot of all custom stores + bank + the oracle's process memory.
//   rejected  ⇒ nothing changed but the fee (C10.reject-changes-nothing)
//   accepted  ⇒ every changed key is attributed to the actors by the addresses it contains (raw, bech32 text,
//               hex text): a key that does not contain the signer's address must be on the short list of
//               counterparty aggregates below, otherwise the message acted on a record that is not its signer's
//               (C10.acts-only-for-caller: outsider-msg-wrote-foreign-record / -global-record). A message type that
//               is not on the list has no allowance at all: a newly activated entry point gets the strictest rule.
//   a message of a non-exocore module never changes a custom store (foreign-module-msg-wrote-exocore-store).
// Op lines `auth.msg <url> <routed> <sig> <eq> <m> <au> <v> <same> <isOp> <h>` → `reject` | `accept:<owners of the
// records written>`; the Lean model (Model/AuthMsgs.lean: msgTable, admitMsg) classifies every /exocore. url itself
// — a url it does not know, or a routed flag that differs from its table, is a model difference — and must
// reproduce every line; `auth.msg.count` closes the enumeration (number of /exocore. types seen = size of the table).

import (
	"encoding/hex"
	"fmt"
	"reflect"
	"sort"
	"strings"
	"time"

	sdkmath "cosmossdk.io/math"
	codectypes "github.com/cosmos/cosmos-sdk/codec/types"
	sdk "github.com/cosmos/cosmos-sdk/types"
	authtypes "github.com/cosmos/cosmos-sdk/x/auth/types"
	govtypes "github.com/cosmos/cosmos-sdk/x/gov/types"

	"github.com/ExocoreNetwork/exocore/utils"
	assetstypes "github.com/ExocoreNetwork/exocore/x/assets/types"
)

// ---- allowances: records that an ADMITTED message of the given type legitimately changes although their key
// does not contain the signer's address. Everything else — and every type that is not listed — has none.
type msgAllowance struct {
	url, store, role, why string
}

var msgAllowances = []msgAllowance{
	{"/exocore.delegation.v1.MsgDelegation", "assets", "operator", "aggregate of the operator the signer delegates TO (open to every holder of the native token)"},
	{"/exocore.delegation.v1.MsgDelegation", "operator", "operator", "voting-power bookkeeping of the operator delegated to"},
	{"/exocore.delegation.v1.MsgDelegation", "delegation", "operator", "delegation bookkeeping of the operator delegated to"},
	{"/exocore.delegation.v1.MsgDelegation", "bank", "global", "the delegated native coins move to the delegation module account"},
	{"/exocore.delegation.v1.MsgDelegation", "assets", "global", "staking total of the native asset"},
	{"/exocore.delegation.v1.MsgUndelegation", "assets", "operator", "aggregate of the operator the signer undelegates FROM"},
	{"/exocore.delegation.v1.MsgUndelegation", "operator", "operator", "voting-power bookkeeping of the operator"},
	{"/exocore.delegation.v1.MsgUndelegation", "delegation", "operator", "delegation bookkeeping of the operator"},
	{"/exocore.delegation.v1.MsgUndelegation", "delegation", "global", "undelegation queue (keyed by completion height / record id)"},
	{"/exocore.delegation.v1.MsgUndelegation", "assets", "global", "staking total of the native asset"},
	{"/exocore.delegation.v1.MsgUndelegation", "dogfood", "operator", "the dogfood module holds the undelegation until the unbonding epoch (record keyed by operator and record id)"},
	{"/exocore.delegation.v1.MsgUndelegation", "dogfood", "global", "list of undelegations maturing at an epoch"},
	{"/exocore.operator.v1.OptIntoAVSReq", "operator", "avs", "aggregate of the AVS the signer opts into (open to every registered operator)"},
	{"/exocore.operator.v1.OptOutOfAVSReq", "operator", "avs", "aggregate of the AVS the signer leaves"},
	{"/exocore.operator.v1.OptIntoAVSReq", "operator", "global", "consensus-key reverse index (keyed by the key the signer submits)"},
	{"/exocore.operator.v1.SetConsKeyReq", "operator", "global", "consensus-key reverse index (keyed by the key the signer submits)"},
	{"/exocore.operator.v1.OptOutOfAVSReq", "operator", "global", "consensus-key removal bookkeeping of the signer's key"},
}

func msgAllowed(url, store, role string, mainnet bool) bool {
	for _, a := range msgAllowances {
		if a.url == url && a.store == store && a.role == role {
			return true
		}
	}
	// parameter changes are open off mainnet (C10_params_open_off_mainnet): the module's own params record
	if !mainnet && role == "global" && strings.HasSuffix(url, ".MsgUpdateParams") {
		if store == msgModuleStore(url) {
			return true
		}
		// x/dogfood mirrors epoch identifier / asset ids / unbonding period of its params into the AVS record of the chain itself
		if url == "/exocore.dogfood.v1.MsgUpdateParams" && store == "avs" {
			return true
		}
	}
	return false
}

// msgModuleStore: snapshot name of the store of the module a /exocore.<module>.v1.X url belongs to
func msgModuleStore(url string) string {
	p := strings.Split(strings.TrimPrefix(url, "/"), ".")
	if len(p) < 2 || p[0] != "exocore" {
		return ""
	}
	if p[1] == "slash" {
		return "exoslash"
	}
	return p[1]
}

// ---- payload construction by reflection
type strSlot struct {
	path string
	v    reflect.Value
}

type msgVariant struct {
	avs         int // AVS / contract address fields: 0 somebody else's unregistered contract, 1 a registered AVS, 2 the signer, 3 the chain's own (dogfood) AVS
	owners      int // owner lists: 0 [signer], 1 [the listed owner], 2 [owner, signer]
	op          int // operator fields: 0 a registered operator, 1 the signer
	other       int // remaining address fields: 0 a victim, 1 the signer
	flip        bool
	zero        bool
	unkAdr      bool
	native      bool // asset id fields: the native token instead of a registered client-chain asset
	maps        bool // fill map fields (a tx holding a non-empty proto map does not pass the tx decoder of this SDK version)
	noKey       bool // leave public-key fields empty
	victimSends bool // the sender field names a victim; the outsider signs with his own key
	name        string
}

type msgFiller struct {
	h        *authH
	rng      *RNG
	vr       msgVariant
	signer   Actor
	avsReg   Actor
	avsOwner Actor
	avsNew   Actor
	victim   Actor
	freshN   int
	slots    []strSlot
	epochs   []string
	inner    sdk.Msg
}

var (
	rtDec      = reflect.TypeOf(sdk.Dec{})
	rtInt      = reflect.TypeOf(sdkmath.Int{})
	rtTime     = reflect.TypeOf(time.Time{})
	rtDuration = reflect.TypeOf(time.Duration(0))
	rtAny      = reflect.TypeOf(codectypes.Any{})
)

func hexAddr(a Actor) string { return strings.ToLower(a.Eth.Hex()) }

func (f *msgFiller) fresh() Actor {
	f.freshN++
	return NewActor(f.h.c.Cfg.Seed, "msgFresh", f.freshN)
}

func (f *msgFiller) num() uint64 {
	if f.vr.zero && f.rng.Chance(1, 3) {
		return 0
	}
	return []uint64{1, 2, 2, 7, 100}[f.rng.Intn(5)]
}

func addrLike(n string) bool {
	for _, w := range []string{"addr", "owner", "operator", "creator", "authority", "sender", "receiver", "recipient", "grantee", "granter",
		"depositor", "voter", "proposer", "signer", "admin", "from", "delegator", "validator"} {
		if strings.Contains(n, w) {
			return true
		}
	}
	return n == "to"
}

func (f *msgFiller) form(a Actor, hexForm bool) string {
	if f.vr.flip {
		hexForm = !hexForm
	}
	if hexForm {
		return hexAddr(a)
	}
	return a.Acc.String()
}

func (f *msgFiller) ownerList() []Actor {
	switch f.vr.owners {
	case 0:
		return []Actor{f.signer}
	case 1:
		return []Actor{f.avsOwner}
	}
	return []Actor{f.avsOwner, f.signer}
}

// addr: the actor an address-typed field names, by the words of its proto name
func (f *msgFiller) addr(n string) string {
	c := f.h.c
	switch {
	case strings.Contains(n, "owner"):
		return f.form(f.ownerList()[0], false)
	case strings.Contains(n, "task") && !strings.Contains(n, "contract"), strings.Contains(n, "slash"), strings.Contains(n, "reward"):
		return f.form(f.fresh(), true)
	case strings.Contains(n, "avs"), strings.Contains(n, "contract"):
		if f.vr.avs == 3 {
			return c.AVSAddr
		}
		return f.form([]Actor{f.avsNew, f.avsReg, f.signer}[f.vr.avs], true)
	case strings.Contains(n, "operator"), strings.Contains(n, "validator"):
		return f.form([]Actor{c.Operators[0], f.signer}[f.vr.op], false)
	case strings.Contains(n, "authority"):
		if f.vr.other == 0 {
			return authtypes.NewModuleAddress(govtypes.ModuleName).String()
		}
		return f.signer.Acc.String()
	}
	return f.form([]Actor{f.victim, f.signer}[f.vr.other], false)
}

// str: the value of a string field, by the words of its proto name `n` (`path` = the names of the fields it is nested in)
func (f *msgFiller) str(n, path string) string {
	c := f.h.c
	switch {
	case strings.Contains(n, "epoch"):
		return f.epochs[f.rng.Intn(len(f.epochs))]
	case strings.Contains(n, "asset"):
		if f.vr.native {
			return assetstypes.ExocoreAssetID
		}
		return c.AssetIDs[0]
	case strings.Contains(n, "chain"):
		return c.ChainIDNR
	case strings.Contains(n, "denom"):
		return utils.BaseDenom
	case strings.Contains(n, "public_key"), strings.Contains(n, "pubkey"):
		if f.vr.noKey {
			return ""
		}
		k, _ := NewConsKey(c.Cfg.Seed, "msgKey", f.rng.Intn(4))
		return k.ToJSON()
	case n == "stage":
		return []string{"1", "2"}[f.rng.Intn(2)]
	case addrLike(n):
		return f.addr(n)
	case (n == "key" || n == "value" || n == "id") && addrLike(path):
		return f.addr(path) // a key/value pair inside a field whose name says whose address it holds (per_operator_amounts[].key)
	}
	if f.vr.unkAdr {
		return c.Operators[0].Acc.String()
	}
	return "x-" + n
}

func protoName(sf reflect.StructField) (string, bool) {
	tag, ok := sf.Tag.Lookup("protobuf")
	if !ok {
		return "", false
	}
	for _, p := range strings.Split(tag, ",") {
		if strings.HasPrefix(p, "name=") {
			return p[5:], true
		}
	}
	return strings.ToLower(sf.Name), true
}

func (f *msgFiller) fill(v reflect.Value, path, name string, depth int) {
	if !v.CanSet() || depth > 12 {
		return
	}
	t := v.Type()
	switch t {
	case rtDec:
		switch {
		case strings.Contains(strings.ToLower(name), "max"):
			v.Set(reflect.ValueOf(sdk.OneDec()))
		case f.vr.zero && f.rng.Chance(1, 3):
			v.Set(reflect.ValueOf(sdk.NewDecWithPrec(int64(f.rng.Intn(30)), 1))) // 0 … 2.9
		default:
			v.Set(reflect.ValueOf(sdk.NewDecWithPrec(1, 1)))
		}
		return
	case rtInt:
		v.Set(reflect.ValueOf(sdkmath.NewIntFromUint64(1000 * f.num())))
		return
	case rtTime:
		v.Set(reflect.ValueOf(f.h.c.Ctx.BlockTime().Add(time.Hour)))
		return
	case rtDuration:
		v.SetInt(int64(time.Hour))
		return
	case rtAny:
		return
	}
	n := strings.ToLower(name)
	switch t.Kind() {
	case reflect.String:
		v.SetString(f.str(n, strings.ToLower(path)))
		f.slots = append(f.slots, strSlot{path, v})
	case reflect.Bool:
		v.SetBool(f.rng.Bool())
	case reflect.Int, reflect.Int32, reflect.Int64:
		if _, isEnum := t.MethodByName("EnumDescriptor"); isEnum {
			v.SetInt(1)
		} else {
			v.SetInt(int64(f.num()))
		}
	case reflect.Uint32, reflect.Uint64, reflect.Uint:
		if strings.Contains(n, "chain") && !f.vr.zero {
			v.SetUint(f.h.c.LzID) // a registered client chain
		} else {
			v.SetUint(f.num())
		}
	case reflect.Float64, reflect.Float32:
		v.SetFloat(0.5)
	case reflect.Slice:
		et := t.Elem()
		if et.Kind() == reflect.Uint8 {
			b := make([]byte, 32)
			for i := range b {
				b[i] = byte(f.rng.Intn(256))
			}
			v.SetBytes(b)
			return
		}
		if et.Kind() == reflect.Ptr && et.Elem() == rtAny {
			// a list of wrapped messages (authz MsgExec, gov MsgSubmitProposal): one message only the authority may send
			if (n == "msgs" || n == "messages") && f.inner != nil {
				if a, err := codectypes.NewAnyWithValue(f.inner); err == nil {
					v.Set(reflect.ValueOf([]*codectypes.Any{a}))
				}
			}
			return
		}
		if depth+2 > 12 {
			return
		}
		cnt := 1
		var owners []Actor
		if et.Kind() == reflect.String && strings.Contains(n, "owner") {
			owners = f.ownerList()
			cnt = len(owners)
		}
		s := reflect.MakeSlice(t, cnt, cnt)
		for i := 0; i < cnt; i++ {
			f.fill(s.Index(i), fmt.Sprintf("%s[%d]", path, i), name, depth+1)
			if owners != nil {
				s.Index(i).SetString(f.form(owners[i], false))
			}
		}
		v.Set(s)
	case reflect.Ptr:
		if t.Elem() == rtAny || t.Elem().Kind() != reflect.Struct {
			return
		}
		p := reflect.New(t.Elem())
		f.fill(p.Elem(), path, name, depth+1)
		v.Set(p)
	case reflect.Struct:
		for i := 0; i < t.NumField(); i++ {
			sf := t.Field(i)
			pn, ok := protoName(sf)
			if !ok || sf.PkgPath != "" {
				continue
			}
			if _, oneof := sf.Tag.Lookup("protobuf_oneof"); oneof {
				continue
			}
			f.fill(v.Field(i), path+"."+pn, pn, depth+1)
		}
	case reflect.Map:
		if t.Key().Kind() != reflect.String || !f.vr.maps {
			return
		}
		m := reflect.MakeMap(t)
		ev := reflect.New(t.Elem()).Elem()
		f.fill(ev, path+"{}", name, depth+1)
		m.SetMapIndex(reflect.ValueOf(f.str(n, strings.ToLower(path))).Convert(t.Key()), ev)
		v.Set(m)
	}
}

func safeSigners(m sdk.Msg) (out []sdk.AccAddress) {
	defer func() {
		if recover() != nil {
			out = nil
		}
	}()
	return m.GetSigners()
}

// signerSlot finds the string field GetSigners() reads: the one that, set to the probe address, makes the
// probe the only signer. Returns the field path and the index of the encoding (addrTextForms) it accepts.
func signerSlot(m sdk.Msg, slots []strSlot, probe Actor) (string, int, bool) {
	for fi, form := range addrTextForms(probe) {
		for _, s := range slots {
			old := s.v.String()
			s.v.SetString(form)
			sg := safeSigners(m)
			s.v.SetString(old)
			if len(sg) == 1 && sg[0].Equals(probe.Acc) {
				return s.path, fi, true
			}
		}
	}
	return "", 0, false
}

// addrTextForms: the textual encodings a message field may hold an account address in
func addrTextForms(a Actor) []string { return []string{a.Acc.String(), hexAddr(a), a.Eth.Hex()} }

// currentParams puts the module's stored parameters into the Params field of the known UpdateParams messages
// (a plausible parameter change re-submits the current record; garbage parameters would only be refused for
// their content, or — off mainnet — wreck the chain the remaining rows run on)
func (h *authH) currentParams(url string, m sdk.Msg) {
	c := h.c
	var p interface{}
	switch url {
	case "/exocore.assets.v1.MsgUpdateParams":
		if ap, err := c.App.AssetsKeeper.GetParams(c.Ctx); err == nil {
			p = *ap
		}
	case "/exocore.dogfood.v1.MsgUpdateParams":
		p = c.App.StakingKeeper.GetDogfoodParams(c.Ctx)
	case "/exocore.exomint.v1.MsgUpdateParams":
		p = c.App.ExomintKeeper.GetParams(c.Ctx)
	case "/exocore.feedistribution.v1.MsgUpdateParams":
		p = c.App.DistrKeeper.GetParams(c.Ctx)
	case "/exocore.oracle.v1.MsgUpdateParams":
		p = c.App.OracleKeeper.GetParams(c.Ctx)
	}
	if p == nil {
		return
	}
	fv := reflect.ValueOf(m).Elem().FieldByName("Params")
	pv := reflect.ValueOf(p)
	if fv.IsValid() && fv.CanSet() && pv.Type().AssignableTo(fv.Type()) {
		fv.Set(pv)
	}
}

// ---- key attribution
type msgRole struct {
	role string
	a    Actor
}

type msgEffect struct {
	signer  bool
	foreign map[string]string // role|store -> first key
	global  map[string]string // store -> first key
}

func msgKeyText(k string) string {
	if bz, err := hex.DecodeString(k); err == nil && xbPrintable(bz) {
		k = string(bz)
	}
	if len(k) > 90 {
		k = k[:90] + "…"
	}
	return k
}

func (h *authH) msgAttribute(before, after Snapshot, roles []msgRole, dropBank []string) msgEffect {
	e := msgEffect{foreign: map[string]string{}, global: map[string]string{}}
	forms := make([][]string, len(roles))
	for i, r := range roles {
		forms[i] = addrForms(r.a)
	}
	stores := map[string]bool{}
	for s := range before {
		stores[s] = true
	}
	for s := range after {
		stores[s] = true
	}
	for _, store := range sortedKeys(stores) {
		if store == "oraclemem" {
			continue
		}
		mb, ma := before[store], after[store]
		keys := map[string]bool{}
		for k := range mb {
			keys[k] = true
		}
		for k := range ma {
			keys[k] = true
		}
	next:
		for _, k := range sortedKeys(keys) {
			if mb[k] == ma[k] {
				continue
			}
			if store == "bank" {
				for _, d := range dropBank {
					if strings.Contains(k, d) {
						continue next
					}
				}
			}
			var hit []string
			for i, r := range roles {
				for _, f := range forms[i] {
					if strings.Contains(k, f) {
						hit = append(hit, r.role)
						break
					}
				}
			}
			isSigner := false
			for _, r := range hit {
				if r == "signer" {
					isSigner = true
				}
			}
			switch {
			case isSigner:
				e.signer = true
			case len(hit) > 0:
				for _, r := range hit {
					if _, ok := e.foreign[r+"|"+store]; !ok {
						e.foreign[r+"|"+store] = msgKeyText(k)
					}
				}
			default:
				if _, ok := e.global[store]; !ok {
					e.global[store] = msgKeyText(k)
				}
			}
		}
	}
	return e
}

// roleKind: the allowance class of a victim role
func roleKind(role string) string {
	switch {
	case strings.HasPrefix(role, "operator"):
		return "operator"
	case strings.HasPrefix(role, "avs"):
		return "avs"
	}
	return role
}

// ---- the group
func (h *authH) allMsgsGroup() {
	c := h.c
	env := h.env
	seed := c.Cfg.Seed
	fee := sdk.NewCoins(sdk.NewCoin(utils.BaseDenom, sdkmath.NewIntWithDecimal(1, 16)))
	feeColl := fmt.Sprintf("%x", authtypes.NewModuleAddress(authtypes.FeeCollectorName).Bytes())
	outsider := NewActor(seed, "msgOutsider", 0)
	victim := NewActor(seed, "msgVictim", 0)
	avsReg := NewActor(seed, "msgAvsReg", 0)
	avsOwner := NewActor(seed, "msgAvsOwner", 0)
	avsNew := NewActor(seed, "msgAvsNew", 0) // somebody else's contract: deployed or about to be, not registered yet
	gov := authtypes.NewModuleAddress(govtypes.ModuleName)
	govActor := Actor{Acc: gov}
	copy(govActor.Eth[:], gov.Bytes())
	for _, a := range []Actor{outsider, victim, avsReg, avsOwner} {
		h.fund(a)
	}
	// a registered AVS owned by somebody else (registered the rightful way: by itself, through the precompile)
	if ok, _ := h.evmAccept(avsReg.Eth, xbAvsAddr, h.abis.avs, "registerAVS", avsOwner.Eth, "msgAvsReg", uint64(1), NewActor(seed, "msgTaskReg", 0).Eth,
		NewActor(seed, "msgSlashReg", 0).Eth, NewActor(seed, "msgRewardReg", 0).Eth, []string{avsOwner.Acc.String()}, []string{c.AssetIDs[0]},
		uint64(2), uint64(0), "day", []uint64{1, 1, 5, 5}); !ok {
		env.Note("allmsgs-setup-failed:registerAVS")
	}
	h.hist = append(h.hist, fmt.Sprintf("all-message group set-up: outsider %s / victim %s / listed owner %s funded by bank send; AVS %s registered by ITSELF through the precompile (owner list [%s], assets [%s], epoch day); %s is somebody else's contract address that is not registered; then one block",
		outsider.Acc, victim.Acc, avsOwner.Acc, hexAddr(avsReg), avsOwner.Acc, c.AssetIDs[0], hexAddr(avsNew)))
	if r := c.EndAndBegin(time.Second); r.Halt != "" { // CheckTx reads the last committed state
		env.Note("halt-in-allMsgsGroup")
		return
	}
	h.ctxFix()
	var epochs []string
	for _, e := range c.App.EpochsKeeper.AllEpochInfos(c.Ctx) {
		epochs = append(epochs, e.Identifier)
	}
	sort.Strings(epochs)
	if len(epochs) == 0 {
		epochs = []string{"day"}
	}
	roles := []msgRole{{"signer", outsider}, {"victim", victim}, {"avsRegistered", avsReg}, {"avsOwner", avsOwner}, {"avsUnregistered", avsNew},
		{"operator0", c.Operators[0]}, {"operator1", c.Operators[1]}, {"gateway", c.Funded}, {"authority", govActor}}

	reg := c.App.InterfaceRegistry()
	urls := reg.ListImplementations(sdk.MsgInterfaceProtoName)
	// parameter changes last: off mainnet they are admitted, and the rows before them should see the booted parameters
	sort.Slice(urls, func(i, j int) bool {
		pi, pj := strings.HasSuffix(urls[i], "UpdateParams"), strings.HasSuffix(urls[j], "UpdateParams")
		if pi != pj {
			return pj
		}
		return urls[i] < urls[j]
	})
	// the message only the authority may send, for the types that wrap other messages
	var inner sdk.Msg
	if ap, err := c.App.AssetsKeeper.GetParams(c.Ctx); err == nil {
		inner = &assetstypes.MsgUpdateParams{Authority: gov.String(), Params: *ap}
	}
	exoN := 0
	probe := NewActor(seed, "msgProbe", 0)
	noSigner := map[string]bool{}
	run := func(url string, variants []msgVariant) {
		exo := strings.HasPrefix(url, "/exocore.")
		routed := c.App.MsgServiceRouter().HandlerByTypeURL(url) != nil
		for _, vr := range variants {
			pm, err := reg.Resolve(url)
			if err != nil {
				env.Note("allmsgs-resolve-error:" + url)
				return
			}
			m, ok := pm.(sdk.Msg)
			if !ok {
				env.Note("allmsgs-not-a-msg:" + url)
				return
			}
			f := &msgFiller{h: h, rng: h.rng, vr: vr, signer: outsider, avsReg: avsReg, avsOwner: avsOwner, avsNew: avsNew, victim: victim, epochs: epochs, inner: inner}
			f.fill(reflect.ValueOf(m).Elem(), "", "", 0)
			h.currentParams(url, m)
			spath, sform, found := signerSlot(m, f.slots, probe) // an address that occurs nowhere in the payload
			if !found {
				// no string field decides the signer (MsgEthereumTx: the signer is recovered from the eth signature — the
				// signed-eth-tx rows of the gateway group are its caller-identity rows; MsgUnjail: a validator-operator address)
				if !noSigner[url] {
					noSigner[url] = true
					env.Op("auth.msg.exempt "+url+" "+b01(routed), "ok")
					env.Outcome("allmsgs|" + url + "|no-string-signer")
				}
				return
			}
			claimed := outsider
			if vr.victimSends {
				claimed = victim
				if strings.Contains(spath, "authority") {
					claimed = govActor
				}
			}
			want := addrTextForms(claimed)[sform]
			for _, s := range f.slots {
				if s.path == spath {
					s.v.SetString(want)
				}
			}
			if sg := safeSigners(m); len(sg) != 1 || !sg[0].Equals(claimed.Acc) {
				env.Note("allmsgs-signer-not-settable:" + url)
				return
			}
			h.msgRow(url, exo, routed, vr, m, f, outsider, claimed, spath, roles, fee, feeColl)
		}
	}
	// ---- pass 1: the outsider holds no role whatsoever; directed product
	for _, url := range urls {
		var variants []msgVariant
		if strings.HasPrefix(url, "/exocore.") {
			exoN++
			for avs := 0; avs < 3; avs++ {
				for own := 0; own < 3; own++ {
					variants = append(variants, msgVariant{avs: avs, owners: own, op: (avs + own) % 2, other: own % 2, native: own == 2, noKey: avs == 1,
						name: fmt.Sprintf("avs%d-owners%d", avs, own)})
				}
			}
			variants = append(variants, msgVariant{avs: 3, owners: 0, op: 1, other: 1, name: "chainAvs-self"})
		} else {
			variants = []msgVariant{{other: 0, name: "victims"}, {avs: 2, owners: 0, op: 1, other: 1, name: "self"}}
		}
		variants = append(variants, msgVariant{avs: 0, owners: 1, op: 0, other: 0, victimSends: true, name: "victimAsSender-outsiderSigns"})
		run(url, variants)
	}
	// ---- pass 2: random draws for the exocore types (by now the outsider may have made itself an operator — by its own
	// registration in pass 1; it still has no title to anybody else's record)
	n2 := env.Int("msgdraws", 5)
	for _, url := range urls {
		if !strings.HasPrefix(url, "/exocore.") {
			continue
		}
		var variants []msgVariant
		for i := 0; i < n2; i++ {
			avs := h.rng.Intn(4)
			variants = append(variants, msgVariant{avs: avs, owners: h.rng.Intn(3), op: h.rng.Intn(2), other: h.rng.Intn(2),
				flip: h.rng.Chance(1, 5), zero: h.rng.Chance(1, 3), unkAdr: h.rng.Bool(), native: h.rng.Bool(), maps: h.rng.Chance(1, 6),
				noKey: (avs != 3) != h.rng.Chance(1, 5), // a consensus key goes with a chain-type AVS only
				name:  fmt.Sprintf("random%d", i)})
		}
		run(url, variants)
	}
	env.Op("auth.msg.count", fmt.Sprint(exoN))
}

func (h *authH) msgRow(url string, exo, routed bool, vr msgVariant, m sdk.Msg, f *msgFiller, outsider, claimed Actor, spath string,
	roles []msgRole, fee sdk.Coins, feeColl string,
) {
	c := h.c
	env := h.env
	acc := c.App.AccountKeeper.GetAccount(c.Ctx, outsider.Acc)
	if acc == nil {
		env.Note("allmsgs-no-account")
		return
	}
	accNum, seq := acc.GetAccountNumber(), acc.GetSequence()
	sigKind := "valid"
	if !claimed.Acc.Equals(outsider.Acc) {
		sigKind = "nopub" // the outsider's key is not the key of the account the message names as its sender
		if ca := c.App.AccountKeeper.GetAccount(c.Ctx, claimed.Acc); ca != nil {
			accNum, seq = ca.GetAccountNumber(), ca.GetSequence()
		}
	}
	bz, err := xbSignCosmos(c, c.App.GetTxConfig(), []sdk.Msg{m}, outsider.Priv.PubKey(), outsider.Priv, accNum, seq, 600000, fee, false)
	if err != nil {
		env.Note("allmsgs-build-error:" + url)
		env.Outcome("allmsgs|" + url + "|build-error")
		return
	}
	js := ""
	if bzj, err := c.App.AppCodec().MarshalInterfaceJSON(m); err == nil {
		js = string(bzj)
		if len(js) > 900 {
			js = js[:900] + "…"
		}
	}
	// the facts the decision model reads
	signerStr := claimed.Acc.String()
	gov := authtypes.NewModuleAddress(govtypes.ModuleName)
	au := claimed.Acc.Equals(gov)
	_, isVal := c.App.OracleKeeper.GetNonce(c.Ctx, sdk.ConsAddress(outsider.Priv.PubKey().Address()).String())
	same, isOp := true, c.App.OperatorKeeper.IsOperator(c.Ctx, claimed.Acc)
	for _, s := range f.slots {
		if strings.Contains(s.path, "operator_address") && s.path != spath {
			same = s.v.String() == signerStr
			if a, err := sdk.AccAddressFromBech32(s.v.String()); err == nil {
				isOp = c.App.OperatorKeeper.IsOperator(c.Ctx, a)
			} else {
				isOp = false
			}
			break
		}
	}
	before := xbSnapshot(c, c.Ctx, true)
	res := xbDeliver(c, bz, true)
	after := xbSnapshot(c, c.Ctx, true)
	accepted := res.Accepted()
	if env.Str("debug", "") != "" {
		fmt.Printf("ALLMSG %s %s: %+v\n   %s\n", url, vr.name, res, js)
	}
	dropBank := []string{fmt.Sprintf("%x", outsider.Acc.Bytes()), feeColl}
	eff := h.msgAttribute(before, after, roles, dropBank)
	name := strings.TrimPrefix(url, "/")
	desc := fmt.Sprintf("cosmos tx [%s] variant %s, signed by the outsider %s, sender field %s = %s (mainnet=%v): %s", name, vr.name, outsider.Acc, strings.TrimPrefix(spath, "."), signerStr, h.mainnet, js)

	if !exo {
		// a message of another module has no business in the custom stores
		var touched []string
		tset := map[string]bool{}
		for k := range eff.foreign {
			tset[strings.SplitN(k, "|", 2)[1]] = true
		}
		for s := range eff.global {
			tset[s] = true
		}
		delete(tset, "bank")
		touched = sortedKeys(tset)
		obs := "untouched"
		if len(touched) > 0 {
			obs = "touched:" + strings.Join(touched, ",")
		}
		env.Op(fmt.Sprintf("auth.msg.foreign %s %s", url, b01(routed)), obs)
		h.hist = append(h.hist, desc+" => "+map[bool]string{true: "accept", false: "reject"}[accepted]+" "+obs)
		env.Outcome("allmsgs|" + name + "|" + vr.name + ":" + map[bool]string{true: "accept", false: "reject"}[accepted])
		env.DistinctKey("allmsgs|" + name + "|" + vr.name + "|" + b01(h.mainnet))
		env.Eval("C10.acts-only-for-caller")
		for _, s := range touched {
			h.violate("C10.acts-only-for-caller", "foreign-module-msg-wrote-exocore-store:"+name+":"+s,
				fmt.Sprintf("%s: a message of a module that is not an exocore module changed the %s store", desc, s))
		}
		if !accepted {
			h.msgRejectClean(name, vr.name, desc, before, after, dropBank)
		}
		return
	}

	// ---- exocore message: decision line + effect
	var owners []string
	if eff.signer {
		owners = append(owners, "signer")
	}
	type bad struct{ kind, role, store, key string }
	var bads []bad
	for _, k := range sortedKeys(eff.foreign) {
		p := strings.SplitN(k, "|", 2)
		if msgAllowed(url, p[1], roleKind(p[0]), h.mainnet) {
			continue
		}
		owners = append(owners, p[0])
		bads = append(bads, bad{"foreign", p[0], p[1], eff.foreign[k]})
	}
	for _, s := range sortedKeys(eff.global) {
		if msgAllowed(url, s, "global", h.mainnet) {
			continue
		}
		owners = append(owners, "global-"+s)
		bads = append(bads, bad{"global", "", s, eff.global[s]})
	}
	sort.Strings(owners)
	owners = dedupStrings(owners)
	obs := "reject"
	if accepted {
		obs = "accept:" + strings.Join(owners, ",")
	}
	env.Op(fmt.Sprintf("auth.msg %s %s %s %s %s %s %s %s %s %s", url, b01(routed), sigKind, b01(sigKind == "valid"), b01(h.mainnet), b01(au), b01(isVal),
		b01(same), b01(isOp), b01(accepted)), obs)
	h.hist = append(h.hist, desc+" => "+obs)
	env.Outcome("allmsgs|" + name + "|" + vr.name + ":" + strings.SplitN(obs, ":", 2)[0])
	env.DistinctKey("allmsgs|" + name + "|" + vr.name + "|" + b01(h.mainnet))
	if !accepted {
		h.msgRejectClean(name, vr.name, desc, before, after, dropBank)
		return
	}
	env.Eval("C10.acts-only-for-caller")
	if sigKind != "valid" {
		h.violate("C10.acts-only-for-caller", "forged-signature-admitted:"+name, desc+": admitted although the key that signed is not the key of the account named as sender")
	}
	for _, b := range bads {
		if b.kind == "foreign" {
			h.violate("C10.acts-only-for-caller", "outsider-msg-wrote-foreign-record:"+name+":"+b.store+":"+b.role,
				fmt.Sprintf("%s: ACCEPTED, and a record of the %s store keyed by the %s address — which signed nothing — changed (key %s); the signer is none of gateway / that contract / listed owner / operator / authority",
					desc, b.store, b.role, b.key))
		} else {
			h.violate("C10.acts-only-for-caller", "outsider-msg-wrote-global-record:"+name+":"+b.store,
				fmt.Sprintf("%s: ACCEPTED, and a record of the %s store that is not keyed by the signer changed (key %s)", desc, b.store, b.key))
		}
	}
}

func dedupStrings(xs []string) []string {
	var out []string
	for i, x := range xs {
		if i == 0 || x != xs[i-1] {
			out = append(out, x)
		}
	}
	return out
}

// msgRejectClean: a rejected tx leaves every custom store, bank (minus fee payer / collector) and the oracle's
// process memory byte-identical
func (h *authH) msgRejectClean(name, variant, desc string, before, after Snapshot, dropBank []string) {
	h.env.Eval("C10.reject-changes-nothing")
	for _, d := range dropBank {
		for _, s := range []Snapshot{before, after} {
			for k := range s["bank"] {
				if strings.Contains(k, d) {
					delete(s["bank"], k)
				}
			}
		}
	}
	if st, det := xbDiff(before, after); len(st) > 0 {
		h.violate("C10.reject-changes-nothing", "reject-dirty:"+name+":"+variant, fmt.Sprintf("%s rejected but changed %v: %s", desc, st, det))
	}
}
