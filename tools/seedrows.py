#!/usr/bin/env python3
"""print DESIGN.md §7.4 table rows (| seed | change | caught by |) for the seeds of the given rounds (letters), from seeded/*/meta.json"""
import glob, json, sys, os
letters = sys.argv[1] if len(sys.argv) > 1 else 'gh'
for L in letters:
    for d in sorted(glob.glob('/verif/seeded/C??-%s' % L)):
        m = json.load(open(d + '/meta.json'))
        ch = (m.get('change') or '').replace('|', '/').replace('\n', ' ')
        cb = (m.get('caught_by') or '').replace('|', '/').replace('\n', ' ')
        fc = m.get('first_contact', '')
        if fc and fc != 'caught' and 'first contact' not in cb:
            cb += ' (first contact: %s)' % fc
        print('| %s | %s | %s |' % (m['id'], ch, cb))
