package main

// C08 facts: where consensus code could pick up nondeterminism from the Go runtime.
//   mapRangeSites      every `range` statement in consensus packages whose operand is a Go map
//                      ("file:Func:operand"); decided syntactically from the declarations in the
//                      repository (goindex_cross.go)
//   mapRangeUnresolved `range` operands whose type could not be decided (kept as a separate,
//                      reviewed list instead of being guessed)
//   ambientUses        time.Now / math/rand / crypto/rand / go statements / select / float
//                      arithmetic in those packages that are NOT arguments of a telemetry call
//   ambientTelemetry   the same inside telemetry.* calls (metrics only; never reach state)
//   oracleCacheWriters functions of x/oracle (non-test) that call a mutating method of the shared
//                      in-memory cache/aggregator singletons, with whether the function guards the
//                      call by ctx.IsCheckTx() (F-08a is "no guard in UpdateParams")

import (
	"fmt"
	"go/ast"
	"go/token"
	"sort"
	"strings"
)

func init() {
	factGens = append(factGens, genDeterminismFacts)
}

func genDeterminismFacts(repo string, emit func(name, leanDef string, err error)) {
	ix, err := loadIndex(repo)
	if err != nil {
		for _, n := range []string{"mapRangeSites", "mapRangeUnresolved", "ambientUses", "ambientTelemetry", "oracleCacheWriters", "oracleUnguardedTxWriters", "oracleGuardedTxWriters", "positionDependentUses", "mapRangeCarriedState", "mapRangePlainAssignments"} {
			emit(n, "", err)
		}
		return
	}
	var sites, unresolved, ambient, ambientTel, carried []string
	seen := map[string]int{}
	uniq := func(s string) string {
		seen[s]++
		if seen[s] > 1 {
			return fmt.Sprintf("%s#%d", s, seen[s])
		}
		return s
	}
	for _, pk := range ix.sortedPkgs() {
		for _, fn := range pk.allFuncs() {
			if !consensusFile(fn.File.Rel) {
				continue
			}
			randAlias := ""
			for a, p := range fn.File.Imports {
				if p == "math/rand" || p == "crypto/rand" || p == "math/rand/v2" {
					randAlias = a
				}
			}
			ix.walkFunc(fn, func(s *xScope, n ast.Node, stack []ast.Node) {
				inTelemetry := func() bool {
					for _, a := range stack {
						if c, ok := a.(*ast.CallExpr); ok && strings.HasPrefix(exprText(c.Fun), "telemetry.") {
							return true
						}
						// a deferred closure that only feeds telemetry: contains telemetry.* calls and
						// no call through the keeper or the context
						if d, ok := a.(*ast.DeferStmt); ok {
							if fl, ok := d.Call.Fun.(*ast.FuncLit); ok {
								tel, other := false, false
								ast.Inspect(fl.Body, func(m ast.Node) bool {
									if c, ok := m.(*ast.CallExpr); ok {
										txt := exprText(c.Fun)
										if strings.HasPrefix(txt, "telemetry.") {
											tel = true
										} else if strings.HasPrefix(txt, "k.") || strings.HasPrefix(txt, "ctx.") {
											other = true
										}
									}
									return true
								})
								if tel && !other {
									return true
								}
							}
						}
					}
					return false
				}
				addAmbient := func(kind string) {
					item := fmt.Sprintf("%s:%s:%s", fn.File.Rel, fn.QName(), kind)
					if inTelemetry() {
						ambientTel = append(ambientTel, item)
					} else {
						ambient = append(ambient, item)
					}
				}
				switch t := n.(type) {
				case *ast.RangeStmt:
					k := s.kind(t.X)
					item := fmt.Sprintf("%s:%s:%s", fn.File.Rel, fn.QName(), srcText(t.X))
					switch k {
					case "map":
						site := uniq(item)
						sites = append(sites, site)
						carried = append(carried, loopCarriedState(site, t)...)
					case "?", "ext", "iface", "other":
						unresolved = append(unresolved, uniq(item))
					}
				case *ast.GoStmt:
					addAmbient("go")
				case *ast.SelectStmt:
					addAmbient("select")
				case *ast.SelectorExpr:
					if id, ok := t.X.(*ast.Ident); ok {
						if id.Name == "time" && (t.Sel.Name == "Now" || t.Sel.Name == "Since" || t.Sel.Name == "Until") {
							if _, isVar := s.vars["time"]; !isVar {
								addAmbient("time." + t.Sel.Name)
							}
						}
						if randAlias != "" && id.Name == randAlias {
							addAmbient("rand." + t.Sel.Name)
						}
					}
				case *ast.Ident:
					if t.Name == "float32" || t.Name == "float64" {
						addAmbient("float")
					}
				case *ast.BasicLit:
					if t.Kind == token.FLOAT {
						addAmbient("float-literal")
					}
				case *ast.CallExpr:
					if sel, ok := t.Fun.(*ast.SelectorExpr); ok && (sel.Sel.Name == "Float64" || sel.Sel.Name == "MustFloat64") {
						addAmbient("float")
					}
				}
			})
		}
	}
	// ---- position-dependent code in functions that range over a map: `if i == len(xs)-1`, `if i == 0`
	// inside `for i, x := range xs` gives the first / last element a special role, which makes the order
	// of xs (possibly derived from the map's iteration order) observable
	var positional []string
	mapFuncs := map[*xFunc]bool{}
	for _, pk := range ix.sortedPkgs() {
		for _, fn := range pk.allFuncs() {
			if !consensusFile(fn.File.Rel) || fn.Decl.Body == nil {
				continue
			}
			hasMapRange := false
			ix.walkFunc(fn, func(s *xScope, n ast.Node, stack []ast.Node) {
				if r, ok := n.(*ast.RangeStmt); ok && s.kind(r.X) == "map" {
					hasMapRange = true
				}
			})
			if hasMapRange {
				mapFuncs[fn] = true
			}
		}
	}
	for _, pk := range ix.sortedPkgs() {
		for _, fn := range pk.allFuncs() {
			if !mapFuncs[fn] {
				continue
			}
			ast.Inspect(fn.Decl.Body, func(n ast.Node) bool {
				r, ok := n.(*ast.RangeStmt)
				if !ok {
					return true
				}
				key, ok := r.Key.(*ast.Ident)
				if !ok || key.Name == "_" {
					return true
				}
				ast.Inspect(r.Body, func(m ast.Node) bool {
					ifs, ok := m.(*ast.IfStmt)
					if !ok {
						return true
					}
					ast.Inspect(ifs.Cond, func(c ast.Node) bool {
						be, ok := c.(*ast.BinaryExpr)
						if !ok {
							return true
						}
						switch be.Op {
						case token.EQL, token.NEQ, token.LSS, token.GTR, token.LEQ, token.GEQ:
							for _, pair := range [][2]ast.Expr{{be.X, be.Y}, {be.Y, be.X}} {
								if id, ok := pair[0].(*ast.Ident); ok && id.Name == key.Name {
									other := srcText(pair[1])
									if other == "0" || strings.HasPrefix(other, "len(") {
										positional = append(positional, fmt.Sprintf("%s:%s:%s", fn.File.Rel, fn.QName(), srcText(be)))
									}
								}
							}
						}
						return true
					})
					return true
				})
				return true
			})
		}
	}
	sort.Strings(positional)
	emit("positionDependentUses", "/-- in functions that range over a Go map: conditions that single out the first / last index of a slice loop -/\ndef positionDependentUses : List String := "+leanStrListNL(positional), nil)
	sort.Strings(carried)
	emit("mapRangeCarriedState", "/-- loop-carried state of every `range` over a map: variables declared OUTSIDE the loop that its body assigns (site|variable|how, how ∈ assign, op<tok>, append, index, field, delete, incdec). An accumulator of a proved commutative shape shows up as op/append/index; a plain `assign` is order sensitive unless justified (first-writer-wins, last-writer-wins). -/\ndef mapRangeCarriedState : List String := "+leanStrListNL(carried), nil)
	var plain []string
	for _, c := range carried {
		if strings.HasSuffix(c, "|assign") {
			plain = append(plain, c)
		}
	}
	emit("mapRangePlainAssignments", "/-- the order-sensitive kind of loop-carried state: plain assignments to an outer variable inside a map range -/\ndef mapRangePlainAssignments : List String := "+leanStrListNL(plain), nil)
	sort.Strings(sites)
	sort.Strings(unresolved)
	sort.Strings(ambient)
	sort.Strings(ambientTel)
	emit("mapRangeSites", "/-- every `range` over a Go map in consensus packages (x/, app/ante/, precompiles/; no tests, CLI, queries, generated code): file:Func:operand -/\ndef mapRangeSites : List String := "+leanStrListNL(sites), nil)
	emit("mapRangeUnresolved", "/-- `range` operands in the same packages whose type the syntactic typer could not decide -/\ndef mapRangeUnresolved : List String := "+leanStrListNL(unresolved), nil)
	emit("ambientUses", "/-- wall clock / randomness / goroutines / select / floats in consensus packages, outside telemetry calls -/\ndef ambientUses : List String := "+leanStrListNL(ambient), nil)
	emit("ambientTelemetry", "/-- the same kinds of uses that occur only as arguments of telemetry.* calls -/\ndef ambientTelemetry : List String := "+leanStrListNL(ambientTel), nil)

	// ---- oracle in-memory singletons: who mutates them, and under which CheckTx guard
	writers, werr := oracleCacheWriters(ix)
	var txWriters, txGuarded []string
	for _, w := range writers {
		if strings.HasPrefix(w, "x/oracle/module.go:AppModule.EndBlock:") || strings.HasPrefix(w, "x/oracle/keeper/single.go:") {
			continue
		}
		if strings.HasSuffix(w, ":unguarded") {
			txWriters = append(txWriters, w)
		} else {
			txGuarded = append(txGuarded, w)
		}
	}
	emit("oracleGuardedTxWriters", "/-- handler-side writers of the oracle singletons that sit inside `if !ctx.IsCheckTx()` (checktx-guarded) or act on the aggregator returned by GetAggregatorContext(ctx), which is the CheckTx copy on the check state (mode-dispatched) -/\ndef oracleGuardedTxWriters : List String := "+leanStrListNL(txGuarded), werr)
	emit("oracleUnguardedTxWriters", "/-- the unguarded writers that are neither the EndBlocker nor the (re)initialisation in single.go, i.e. reachable from a message handler on the check state -/\ndef oracleUnguardedTxWriters : List String := "+leanStrListNL(txWriters), werr)
	emit("oracleCacheWriters", "/-- x/oracle functions calling a mutating method of the shared in-memory cache (`cs`) or aggregator context (`agc`): file:Func:callee:guard, guard ∈ {checktx-guarded, unguarded} -/\ndef oracleCacheWriters : List String := "+leanStrListNL(writers), werr)
}

func leanStrListNL(xs []string) string {
	if len(xs) == 0 {
		return "[]"
	}
	q := make([]string, len(xs))
	for i, x := range xs {
		q[i] = fmt.Sprintf("  %q", x)
	}
	return "[\n" + strings.Join(q, ",\n") + "]"
}

// oracleCacheWriters lists calls `cs.AddCache/RemoveCache/CommitCache/SkipCommit/ResetCaches` and
// `agc.<Set*/Seal*/Prepare*/New*/Fill*/Remove*/Del*>` in x/oracle/keeper (msg servers, module
// end-blocker, keeper helpers) outside the cache/aggregator packages themselves.
func oracleCacheWriters(ix *xIndex) ([]string, error) {
	var out []string
	mut := func(name string) bool {
		for _, p := range []string{"AddCache", "RemoveCache", "CommitCache", "SkipCommit", "ResetCaches", "SetParams", "SetValidatorPowers", "SealRound", "PrepareRoundEndBlock", "PrepareRoundBeginBlock", "NewCreatePrice", "FillPrice", "RemoveWorker", "AppendValidatorUpdate", "ResetAggregatorContextCheckTx", "ResetUpdatedFeederIDs"} {
			if name == p {
				return true
			}
		}
		return false
	}
	found := false
	for _, dir := range []string{"x/oracle/keeper", "x/oracle"} {
		pk := ix.Pkgs[dir]
		if pk == nil {
			continue
		}
		for _, fn := range pk.allFuncs() {
			if !consensusFile(fn.File.Rel) {
				continue
			}
			if fn.Decl.Body == nil {
				continue
			}
			// locals bound to the mode-dispatched aggregator: `agc := GetAggregatorContext(ctx, …)` returns
			// the CheckTx copy when ctx.IsCheckTx()
			dispatched := map[string]bool{}
			ast.Inspect(fn.Decl.Body, func(n ast.Node) bool {
				if as, ok := n.(*ast.AssignStmt); ok && len(as.Lhs) == 1 && len(as.Rhs) == 1 {
					if c, ok := as.Rhs[0].(*ast.CallExpr); ok && strings.HasSuffix(exprText(c.Fun), "GetAggregatorContext") && len(c.Args) >= 1 && exprText(c.Args[0]) == "ctx" {
						if id, ok := as.Lhs[0].(*ast.Ident); ok {
							dispatched[id.Name] = true
						}
					}
				}
				return true
			})
			// per call: guarded iff it sits in the then-branch of an `if` whose condition contains
			// `!ctx.IsCheckTx()` (possibly as a conjunct), at any nesting depth
			var stack []ast.Node
			ast.Inspect(fn.Decl.Body, func(n ast.Node) bool {
				if n == nil {
					stack = stack[:len(stack)-1]
					return true
				}
				stack = append(stack, n)
				c, ok := n.(*ast.CallExpr)
				if !ok {
					return true
				}
				sel, ok := c.Fun.(*ast.SelectorExpr)
				if !ok || !mut(sel.Sel.Name) {
					return true
				}
				recv := exprText(sel.X)
				if recv != "cs" && recv != "agc" && recv != "agcCheckTx" && !strings.HasSuffix(recv, "GetCaches()") && !strings.HasSuffix(recv, "GetAggregatorContext()") {
					return true
				}
				found = true
				g := "unguarded"
				if dispatched[recv] {
					g = "mode-dispatched"
				}
				for i := len(stack) - 2; i >= 0; i-- {
					ifs, ok := stack[i].(*ast.IfStmt)
					if !ok || i+1 >= len(stack) || stack[i+1] != ast.Node(ifs.Body) {
						continue
					}
					if condHasNotCheckTx(ifs.Cond) {
						g = "checktx-guarded"
					}
				}
				out = append(out, fmt.Sprintf("%s:%s:%s.%s:%s", fn.File.Rel, fn.QName(), recv, sel.Sel.Name, g))
				return true
			})
		}
	}
	if !found {
		return nil, fmt.Errorf("no mutating calls on the oracle cache/aggregator singletons found (names changed?)")
	}
	sort.Strings(out)
	// de-duplicate
	var d []string
	for i, s := range out {
		if i == 0 || s != out[i-1] {
			d = append(d, s)
		}
	}
	return d, nil
}

// condHasNotCheckTx: the condition is `!ctx.IsCheckTx()` or a conjunction containing it.
func condHasNotCheckTx(e ast.Expr) bool {
	switch t := e.(type) {
	case *ast.ParenExpr:
		return condHasNotCheckTx(t.X)
	case *ast.UnaryExpr:
		if t.Op == token.NOT {
			if c, ok := t.X.(*ast.CallExpr); ok && strings.HasSuffix(exprText(c.Fun), ".IsCheckTx") {
				return true
			}
		}
	case *ast.BinaryExpr:
		if t.Op == token.LAND {
			return condHasNotCheckTx(t.X) || condHasNotCheckTx(t.Y)
		}
	}
	return false
}

// loopCarriedState lists the variables a map-range body assigns although they are declared outside it.
func loopCarriedState(site string, r *ast.RangeStmt) []string {
	declared := map[string]bool{}
	if id, ok := r.Key.(*ast.Ident); ok && r.Tok == token.DEFINE {
		declared[id.Name] = true
	}
	if id, ok := r.Value.(*ast.Ident); ok && r.Tok == token.DEFINE {
		declared[id.Name] = true
	}
	// everything declared anywhere inside the body (flat: a name declared in the body is loop-local)
	ast.Inspect(r.Body, func(n ast.Node) bool {
		switch t := n.(type) {
		case *ast.AssignStmt:
			if t.Tok == token.DEFINE {
				for _, l := range t.Lhs {
					if id, ok := l.(*ast.Ident); ok {
						declared[id.Name] = true
					}
				}
			}
		case *ast.ValueSpec:
			for _, n := range t.Names {
				declared[n.Name] = true
			}
		case *ast.RangeStmt:
			if t.Tok == token.DEFINE {
				if id, ok := t.Key.(*ast.Ident); ok {
					declared[id.Name] = true
				}
				if id, ok := t.Value.(*ast.Ident); ok {
					declared[id.Name] = true
				}
			}
		case *ast.FuncLit:
			for _, f := range t.Type.Params.List {
				for _, n := range f.Names {
					declared[n.Name] = true
				}
			}
		}
		return true
	})
	root := func(e ast.Expr) (string, string) { // root identifier and the access path kind
		how := ""
		for {
			switch t := e.(type) {
			case *ast.Ident:
				return t.Name, how
			case *ast.SelectorExpr:
				if how == "" {
					how = "field"
				}
				e = t.X
			case *ast.IndexExpr:
				if how == "" {
					how = "index"
				}
				e = t.X
			case *ast.StarExpr:
				e = t.X
			case *ast.ParenExpr:
				e = t.X
			default:
				return "", how
			}
		}
	}
	seen := map[string]bool{}
	var out []string
	add := func(v, how string) {
		if v == "" || v == "_" || declared[v] {
			return
		}
		k := site + "|" + v + "|" + how
		if !seen[k] {
			seen[k] = true
			out = append(out, k)
		}
	}
	ast.Inspect(r.Body, func(n ast.Node) bool {
		switch t := n.(type) {
		case *ast.AssignStmt:
			if t.Tok == token.DEFINE {
				// `x, err := …` may re-assign an outer x when at least one name is new: keep those that
				// are not declared in the body by another statement — covered by `declared` (flat).
				return true
			}
			for i, l := range t.Lhs {
				v, how := root(l)
				if t.Tok == token.ASSIGN && i < len(t.Rhs) && (how == "" || how == "field") {
					// x = x.Add(a).Add(b) / x.f = x.f.Add(…): an accumulating sum written as an assignment;
					// x = x + y: the same with an operator
					if isAddChainOf(t.Rhs[i], srcText(l)) {
						add(v, "sum")
						continue
					}
					if be, ok := t.Rhs[i].(*ast.BinaryExpr); ok {
						left := be.X
						for {
							inner, ok := left.(*ast.BinaryExpr)
							if !ok || inner.Op != be.Op {
								break
							}
							left = inner.X
						}
						if srcText(left) == srcText(l) {
							add(v, "op"+be.Op.String())
							continue
						}
					}
				}
				if how == "" {
					how = "assign"
					if t.Tok != token.ASSIGN {
						how = "op" + t.Tok.String()
					} else if i < len(t.Rhs) {
						if c, ok := t.Rhs[i].(*ast.CallExpr); ok {
							if id, ok := c.Fun.(*ast.Ident); ok && id.Name == "append" && len(c.Args) > 0 && srcText(c.Args[0]) == srcText(l) {
								how = "append"
							}
						}
					}
				}
				add(v, how)
			}
		case *ast.IncDecStmt:
			v, how := root(t.X)
			if how == "" {
				how = "incdec"
			}
			add(v, how)
		case *ast.CallExpr:
			if id, ok := t.Fun.(*ast.Ident); ok && id.Name == "delete" && len(t.Args) == 2 {
				v, _ := root(t.Args[0])
				add(v, "delete")
			}
		}
		return true
	})
	return out
}

// isAddChainOf: e is base.Add(…)[.Add(…)|.Sub(…)]* with the given base text.
func isAddChainOf(e ast.Expr, base string) bool {
	n := 0
	for {
		c, ok := e.(*ast.CallExpr)
		if !ok {
			break
		}
		sel, ok := c.Fun.(*ast.SelectorExpr)
		if !ok || (sel.Sel.Name != "Add" && sel.Sel.Name != "Sub") {
			return false
		}
		n++
		e = sel.X
	}
	return n > 0 && srcText(e) == base
}
