package main

// oracleFeederHandoverShape (C12): the statements of x/oracle/types/params.go that decide which end
// blocks a token feeder may have and which round id its successor must start with — the three places
// that COUNT the rounds of a stopped feeder. Model/OracleParamsUpdate.lean (validateFeeders,
// updateTokenFeeder) transcribes them; Props/C12Handover.lean proves, for that transcription, that the
// count equals the rounds PrepareRoundEndBlock really opens (which needs the end-block guard to refuse
// the residue 0 as well as the residues inside the window). Props/C12HandoverTie.lean pins the text.
//
//   validateFeederLoop        Params.Validate: the body of `for fID, feeder := range p.TokenFeeders`,
//                             statement by statement; an `if` as `if <cond> => <what its body does>`
//   validateFeederSuccession  … the body of its `if prev, exists := feeders[feeder.TokenID]; exists`
//   feederValidateBody        TokenFeeder.validate, the same rendering
//   updateTokenFeederResume   Params.UpdateTokenFeeder: the statements after the last but one top-level `if`
//                             (the branch "latest feeder is stopped")
//   updateTokenFeederGuards   … the conditions of its top-level `if`s, in order

import (
	"fmt"
	"go/ast"
	"go/token"
	"strings"
)

func init() { factGens = append(factGens, oracleHandoverFacts) }

// guardText: a statement in full, except an `if`: `if <init;> <cond> => <body>` where the body is rendered as
// `return <error expr head>` / `continue` when it is that single statement, as its statements joined by ` ; ` when it
// is short, and as `{n statements}` otherwise; an else branch is marked.
func guardText(fset *token.FileSet, src []byte, s ast.Stmt) string {
	ifs, ok := s.(*ast.IfStmt)
	if !ok {
		return orcNodeText(fset, src, s)
	}
	h := "if "
	if ifs.Init != nil {
		h += orcNodeText(fset, src, ifs.Init) + "; "
	}
	h += orcNodeText(fset, src, ifs.Cond) + " => "
	switch {
	case len(ifs.Body.List) == 1:
		h += bodyStmt(fset, src, ifs.Body.List[0])
	default:
		h += fmt.Sprintf("{%d statements}", len(ifs.Body.List))
	}
	if ifs.Else != nil {
		h += " else {…}"
	}
	return h
}

func bodyStmt(fset *token.FileSet, src []byte, s ast.Stmt) string {
	switch x := s.(type) {
	case *ast.ReturnStmt:
		// `return ErrInvalidParams.Wrap("…")` → `return ErrInvalidParams.Wrap`, `return p, ErrX.Wrapf(…)` → `return p, ErrX.Wrapf`
		var parts []string
		for _, r := range x.Results {
			if c, ok := r.(*ast.CallExpr); ok {
				parts = append(parts, orcNodeText(fset, src, c.Fun))
			} else {
				parts = append(parts, orcNodeText(fset, src, r))
			}
		}
		return "return " + strings.Join(parts, ", ")
	case *ast.BranchStmt:
		return x.Tok.String()
	case *ast.IfStmt:
		return "{nested: " + guardText(fset, src, x) + "}"
	}
	return orcNodeText(fset, src, s)
}

func oracleHandoverFacts(repo string, emit func(name, leanDef string, err error)) {
	const name = "oracleFeederHandoverShape"
	const file = "x/oracle/types/params.go"
	f, fset, err := parseRepo(repo, file)
	if err != nil {
		emit(name, "", err)
		return
	}
	src, _ := readFile(repo + "/" + file)
	va := findFunc(f, "Params.Validate")
	fv := findFunc(f, "TokenFeeder.validate")
	ut := findFunc(f, "Params.UpdateTokenFeeder")
	if va == nil || fv == nil || ut == nil {
		emit(name, "", fmt.Errorf("params.go: Params.Validate / TokenFeeder.validate / Params.UpdateTokenFeeder not found"))
		return
	}
	// the feeder loop of Validate: the range statement over p.TokenFeeders
	var loop *ast.RangeStmt
	for _, s := range va.Body.List {
		if r, ok := s.(*ast.RangeStmt); ok && exprText(r.X) == "p.TokenFeeders" {
			if loop != nil {
				emit(name, "", fmt.Errorf("Validate: more than one loop over p.TokenFeeders"))
				return
			}
			loop = r
		}
	}
	if loop == nil {
		emit(name, "", fmt.Errorf("Validate: loop over p.TokenFeeders not found"))
		return
	}
	var loopTexts, succTexts []string
	nSucc := 0
	for _, s := range loop.Body.List {
		loopTexts = append(loopTexts, guardText(fset, src, s))
		if ifs, ok := s.(*ast.IfStmt); ok && ifs.Init != nil && strings.Contains(orcNodeText(fset, src, ifs.Init), "feeders[feeder.TokenID]") {
			nSucc++
			for _, b := range ifs.Body.List {
				succTexts = append(succTexts, guardText(fset, src, b))
			}
		}
	}
	if nSucc != 1 {
		emit(name, "", fmt.Errorf("Validate: expected exactly one `if prev, exists := feeders[feeder.TokenID]` in the feeder loop, found %d", nSucc))
		return
	}
	var fvTexts []string
	for _, s := range fv.Body.List {
		fvTexts = append(fvTexts, guardText(fset, src, s))
	}
	// UpdateTokenFeeder: conditions of the top-level ifs, and what follows the last of them
	var utConds, utTail []string
	var ifIdx []int
	for i, s := range ut.Body.List {
		if ifs, ok := s.(*ast.IfStmt); ok {
			ifIdx = append(ifIdx, i)
			utConds = append(utConds, orcNodeText(fset, src, ifs.Cond))
		}
	}
	if len(ifIdx) < 2 {
		emit(name, "", fmt.Errorf("UpdateTokenFeeder: fewer than two top-level ifs"))
		return
	}
	// the resume branch: everything after the `if` of the running feeder (the last but one)
	for _, s := range ut.Body.List[ifIdx[len(ifIdx)-2]+1:] {
		utTail = append(utTail, guardText(fset, src, s))
	}
	var def strings.Builder
	fmt.Fprintf(&def, "/-- %s: Params.Validate, the body of the loop over p.TokenFeeders (an `if` as `if cond => body`) -/\ndef validateFeederLoop : List String := %s\n\n", file, leanStrList(loopTexts))
	fmt.Fprintf(&def, "/-- … the body of `if prev, exists := feeders[feeder.TokenID]; exists` -/\ndef validateFeederSuccession : List String := %s\n\n", leanStrList(succTexts))
	fmt.Fprintf(&def, "/-- %s: TokenFeeder.validate -/\ndef feederValidateBody : List String := %s\n\n", file, leanStrList(fvTexts))
	fmt.Fprintf(&def, "/-- %s: Params.UpdateTokenFeeder, the conditions of its top-level ifs -/\ndef updateTokenFeederGuards : List String := %s\n\n", file, leanStrList(utConds))
	fmt.Fprintf(&def, "/-- … and the statements after the last but one of them (the latest feeder of the token has stopped) -/\ndef updateTokenFeederResume : List String := %s", leanStrList(utTail))
	emit(name, def.String(), nil)
}

var _ = token.NoPos
