module exoverif/exofacts

go 1.21
