package main

// Tie A for C03's first sentence ("a request to undelegate any positive amount within the staker's current
// position is ALWAYS accepted, whatever the operator's opt-in, key, jail or slash state"):
//
//   undelegationRefusals   for every function on the path of an undelegation request — Keeper.UndelegateFrom and
//                          the callees whose error it passes on (ValidateUndelegationAmount, RemoveShare,
//                          RemoveShareFromOperator, TokensFromShares, SharesFromTokens, SetUndelegationRecords), the
//                          hook dispatcher and dogfood's AfterUndelegationStarted — EVERY way the function can
//                          return a non-nil error, in source order, labelled by what decides it:
//                          `if:<condition>`, `err:<callee whose error is passed on>`, `tail:<callee>`
//                          (rendered by avErrPaths of facts_atomic_values.go).
//
// The Lean model's `undelegate` (Model/Ledger.lean) has exactly these refusals, and
// `C03_undelegation_always_accepted` shows that none of them fires for 0 < x <= position in a state of the
// invariant. A refusal ADDED to the path (a cap on the number of pending records, a frozen/jailed-operator
// check, a minimum amount, a cool-down …) is a new entry of this list: Props/C03Tie.lean
// (`C03_tie_undelegation_refusals`) compares the regenerated list with the literal the model was
// transcribed from, so the edit breaks a proof obligation whether or not a test history reaches the state
// in which the new guard fires.

import (
	"fmt"
)

func init() { factGens = append(factGens, genUndelegateFacts) }

func genUndelegateFacts(repo string, emit func(name, leanDef string, err error)) {
	var rows [][2]interface{}
	var ferr error
	for _, f := range []struct{ file, name, recv string }{
		{"x/delegation/keeper/delegation.go", "UndelegateFrom", "Keeper"},
		{"x/delegation/keeper/share.go", "ValidateUndelegationAmount", "Keeper"},
		{"x/delegation/keeper/share.go", "RemoveShare", "Keeper"},
		{"x/delegation/keeper/share.go", "RemoveShareFromOperator", "Keeper"},
		{"x/delegation/keeper/share.go", "TokensFromShares", ""},
		{"x/delegation/keeper/share.go", "SharesFromTokens", ""},
		{"x/delegation/keeper/un_delegation_state.go", "SetUndelegationRecords", "Keeper"},
		{"x/delegation/types/hooks.go", "AfterUndelegationStarted", "MultiDelegationHooks"},
		{"x/dogfood/keeper/impl_delegation_hooks.go", "AfterUndelegationStarted", "DelegationHooksWrapper"},
	} {
		fset, file, err := xbParseGo(repo, f.file)
		if err != nil {
			ferr = err
			continue
		}
		fd := xbFindFunc(file, f.name, f.recv)
		if fd == nil || fd.Body == nil {
			ferr = fmt.Errorf("%s: func %s not found", f.file, f.name)
			continue
		}
		ps, err := avErrPaths(fset, fd)
		if err != nil {
			ferr = err
			continue
		}
		name := f.name
		if f.recv != "" {
			name = f.recv + "." + f.name
		}
		rows = append(rows, [2]interface{}{name, ps})
	}
	emit("undelegationRefusals", "/-- per function on the path of an undelegation request (x/delegation UndelegateFrom, its callees, the hook "+
		"dispatcher, dogfood's hook): every `return …, <non-nil error>` in source order, labelled `if:<condition>` (the condition that "+
		"decides it), `err:<callee>` (the error of that callee is passed on) or `tail:<callee>` -/\ndef undelegationRefusals : List (String × List String) := "+
		leanStrListPairs(rows), ferr)
}
