package main

// Round-3 facts.
//
// C08
//   orderCarryingResults   slices built inside a `range` over a map (append, or slot-by-counter) and what
//                          happens to them: "site|var|fate", fate ∈ returned | returned-after-sort |
//                          sorted-locally | local. A `returned` slice carries the map's iteration order out
//                          of the function.
//   orderCarryingConsumers for every function with a `returned` order-carrying result: the call sites in
//                          consensus code ("Producer <- file:Func").
//   sliceRemovalShapes     every in-place removal of a slice element in consensus code and its idiom:
//                          "file:Func:slice:splice" (append(s[:i], s[i+1:]...): order preserving) or ":swap"
//                          (s[i] = s[last]; s = s[:last]: order destroying).
// C11
//   oraclePriceLiterals    every types.Price{…} composite literal in x/oracle/keeper/prices.go:
//                          "Func|Value=<expr|unset>|with=<error expr or nil or assigned>|guards".
//   priceConsumersOnBlockPaths  call sites of GetSpecifiedAssetsPrice / GetMultipleAssetsPrices.
//   priceValueGuard_<Func>[_n]  Bool kernel of the dominating guards of each literal whose Value is a
//                          variable (parsed from a string): the Lean lemma shows guard ⇒ ¬nil ∧ > 0.

import (
	"fmt"
	"go/ast"
	"go/token"
	"sort"
	"strings"
)

func init() {
	factGens = append(factGens, genOrderFlowFacts, genPriceFacts)
}

func genOrderFlowFacts(repo string, emit func(name, leanDef string, err error)) {
	ix, err := loadIndex(repo)
	if err != nil {
		for _, n := range []string{"orderCarryingResults", "orderCarryingConsumers", "sliceRemovalShapes"} {
			emit(n, "", err)
		}
		return
	}
	var results, removals []string
	producers := map[string]bool{} // method/function names with a returned order-carrying slice
	for _, pk := range ix.sortedPkgs() {
		for _, fn := range pk.allFuncs() {
			if !consensusFile(fn.File.Rel) || fn.Decl.Body == nil {
				continue
			}
			named := map[string]bool{}
			if fn.Decl.Type.Results != nil {
				for _, f := range fn.Decl.Type.Results.List {
					for _, n := range f.Names {
						named[n.Name] = true
					}
				}
			}
			seenSite := map[string]int{}
			ix.walkFunc(fn, func(s *xScope, n ast.Node, stack []ast.Node) {
				switch t := n.(type) {
				case *ast.RangeStmt:
					if s.kind(t.X) != "map" {
						return
					}
					site := fmt.Sprintf("%s:%s:%s", fn.File.Rel, fn.QName(), srcText(t.X))
					seenSite[site]++
					if seenSite[site] > 1 {
						site = fmt.Sprintf("%s#%d", site, seenSite[site])
					}
					for _, c := range loopCarriedState(site, t) {
						f := strings.Split(c, "|")
						if len(f) != 3 || (f[2] != "append" && f[2] != "index") {
							continue
						}
						v := f[1]
						if f[2] == "index" && !isSliceVar(fn, s, v) {
							continue
						}
						fate := fateOf(fn, t, v, named[v])
						results = append(results, site+"|"+v+"|"+fate)
						if fate == "returned" {
							producers[fn.Decl.Name.Name] = true
						}
					}
				case *ast.AssignStmt:
					// s = append(s[:i], s[i+1:]...)
					if len(t.Lhs) == 1 && len(t.Rhs) == 1 {
						if c, ok := t.Rhs[0].(*ast.CallExpr); ok {
							if id, ok := c.Fun.(*ast.Ident); ok && id.Name == "append" && len(c.Args) == 2 && c.Ellipsis != token.NoPos {
								a, ok1 := c.Args[0].(*ast.SliceExpr)
								b, ok2 := c.Args[1].(*ast.SliceExpr)
								if ok1 && ok2 && a.Low == nil && b.High == nil && srcText(a.X) == srcText(t.Lhs[0]) && srcText(b.X) == srcText(t.Lhs[0]) {
									removals = append(removals, fmt.Sprintf("%s:%s:%s:splice", fn.File.Rel, fn.QName(), srcText(t.Lhs[0])))
								}
							}
						}
						// s[i] = s[last…]  (move another element into the freed slot)
						if l, ok := t.Lhs[0].(*ast.IndexExpr); ok {
							if r, ok := t.Rhs[0].(*ast.IndexExpr); ok && srcText(l.X) == srcText(r.X) && srcText(l.Index) != srcText(r.Index) && t.Tok == token.ASSIGN {
								if truncatedLater(fn, srcText(l.X)) {
									removals = append(removals, fmt.Sprintf("%s:%s:%s:swap", fn.File.Rel, fn.QName(), srcText(l.X)))
								}
							}
						}
					}
				}
			})
		}
	}
	// consumers
	var consumers []string
	for _, pk := range ix.sortedPkgs() {
		for _, fn := range pk.allFuncs() {
			if !consensusFile(fn.File.Rel) || fn.Decl.Body == nil {
				continue
			}
			ast.Inspect(fn.Decl.Body, func(n ast.Node) bool {
				c, ok := n.(*ast.CallExpr)
				if !ok {
					return true
				}
				name := ""
				switch f := c.Fun.(type) {
				case *ast.Ident:
					name = f.Name
				case *ast.SelectorExpr:
					name = f.Sel.Name
				}
				if producers[name] {
					consumers = append(consumers, fmt.Sprintf("%s <- %s:%s", name, fn.File.Rel, fn.QName()))
				}
				return true
			})
		}
	}
	results = uniqSorted(results)
	consumers = uniqSorted(consumers)
	removals = uniqSorted(removals)
	emit("orderCarryingResults", "/-- slices built inside a map range and their fate (site|var|fate) -/\ndef orderCarryingResults : List String := "+leanStrListNL(results), nil)
	emit("orderCarryingConsumers", "/-- call sites of the functions that return a map-ordered slice -/\ndef orderCarryingConsumers : List String := "+leanStrListNL(consumers), nil)
	var rerr error
	if len(removals) == 0 {
		rerr = fmt.Errorf("no slice removal idiom found (expected at least the oracle nonce removal)")
	}
	emit("sliceRemovalShapes", "/-- in-place removals of a slice element in consensus code: splice (order preserving) or swap (order destroying) -/\ndef sliceRemovalShapes : List String := "+leanStrListNL(removals), rerr)
}

func uniqSorted(xs []string) []string {
	sort.Strings(xs)
	var out []string
	for i, x := range xs {
		if i == 0 || x != xs[i-1] {
			out = append(out, x)
		}
	}
	return out
}

func isSliceVar(fn *xFunc, s *xScope, v string) bool {
	k := s.kind(&ast.Ident{Name: v})
	return k == "slice" || k == "array"
}

// fateOf: what the function does with the slice `v` after the map range `r`.
func fateOf(fn *xFunc, r *ast.RangeStmt, v string, namedResult bool) string {
	sorted, returned := false, namedResult
	ast.Inspect(fn.Decl.Body, func(n ast.Node) bool {
		if n == nil || n.Pos() < r.End() {
			// only look at code after the loop (but do descend into enclosing nodes)
			if n != nil && n.End() <= r.End() {
				return false
			}
		}
		switch t := n.(type) {
		case *ast.CallExpr:
			if strings.HasPrefix(exprText(t.Fun), "sort.") || strings.HasPrefix(exprText(t.Fun), "slices.Sort") {
				for _, a := range t.Args {
					if srcText(a) == v {
						sorted = true
					}
				}
			}
		case *ast.ReturnStmt:
			for _, e := range t.Results {
				if srcText(e) == v {
					returned = true
				}
			}
		}
		return true
	})
	switch {
	case returned && sorted:
		return "returned-after-sort"
	case returned:
		return "returned"
	case sorted:
		return "sorted-locally"
	}
	return "local"
}

func truncatedLater(fn *xFunc, slice string) bool {
	found := false
	ast.Inspect(fn.Decl.Body, func(n ast.Node) bool {
		if as, ok := n.(*ast.AssignStmt); ok && len(as.Lhs) == 1 && len(as.Rhs) == 1 && srcText(as.Lhs[0]) == slice {
			if se, ok := as.Rhs[0].(*ast.SliceExpr); ok && srcText(se.X) == slice && se.Low == nil && se.High != nil {
				found = true
			}
		}
		return true
	})
	return found
}

// ---------------------------------------------------------------- C11: oracle price literals

func genPriceFacts(repo string, emit func(name, leanDef string, err error)) {
	ix, err := loadIndex(repo)
	if err != nil {
		emit("oraclePriceLiterals", "", err)
		emit("priceConsumersOnBlockPaths", "", err)
		return
	}
	pk := ix.Pkgs["x/oracle/keeper"]
	var lits []string
	type kern struct{ name, def string }
	var kerns []kern
	used := map[string]int{}
	if pk != nil {
		for _, fn := range pk.allFuncs() {
			if fn.File.Rel != "x/oracle/keeper/prices.go" || fn.Decl.Body == nil {
				continue
			}
			ix.walkFunc(fn, func(s *xScope, n ast.Node, stack []ast.Node) {
				cl, ok := n.(*ast.CompositeLit)
				if !ok || !strings.HasSuffix(longText(cl.Type), "Price") {
					return
				}
				value := "unset"
				var valueExpr ast.Expr
				for _, el := range cl.Elts {
					if kv, ok := el.(*ast.KeyValueExpr); ok && longText(kv.Key) == "Value" {
						value = longText(kv.Value)
						valueExpr = kv.Value
					}
				}
				with := "assigned"
				if len(stack) > 0 {
					if r, ok := stack[len(stack)-1].(*ast.ReturnStmt); ok && len(r.Results) == 2 {
						with = longText(r.Results[1])
						if i := strings.Index(with, "("); i > 0 {
							with = with[:i]
						}
					}
				}
				g := dominatingGuards(n, stack)
				gtxt := "none"
				if len(g) > 0 {
					gtxt = strings.Join(g, " ; ")
				}
				lits = append(lits, fmt.Sprintf("%s|Value=%s|with=%s|%s", fn.QName(), value, with, gtxt))
				// a Value that is a plain variable was parsed from a string: regenerate its guards
				if id, ok := valueExpr.(*ast.Ident); ok {
					tr := &guardTr{ints: map[string]bool{}, bools: map[string]bool{}}
					var parts []string
					for _, c := range guardConds(n, stack) {
						tmp := &guardTr{ints: map[string]bool{}, bools: map[string]bool{}}
						x, ok := tmp.cond(c.e)
						if !ok || !mentions(c.e, id.Name) {
							continue // only the conjuncts about the value itself
						}
						for k := range tmp.ints {
							tr.ints[k] = true
						}
						for k := range tmp.bools {
							tr.bools[k] = true
						}
						if c.neg {
							x = "(!" + x + ")"
						}
						parts = append(parts, x)
					}
					base := "priceValueGuard_" + sanitize(fn.Decl.Name.Name)
					used[base]++
					name := base
					if used[base] > 1 {
						name = fmt.Sprintf("%s_%d", base, used[base])
					}
					var ints, bools []string
					for k := range tr.ints {
						ints = append(ints, k)
					}
					for k := range tr.bools {
						bools = append(bools, k)
					}
					sort.Strings(ints)
					sort.Strings(bools)
					params := ""
					if len(ints) > 0 {
						params += " (" + strings.Join(ints, " ") + " : Int)"
					}
					if len(bools) > 0 {
						params += " (" + strings.Join(bools, " ") + " : Bool)"
					}
					body := "true"
					if len(parts) > 0 {
						body = strings.Join(parts, " && ")
					}
					kerns = append(kerns, kern{name, fmt.Sprintf("/-- x/oracle/keeper/prices.go: %s — guards about `%s` that dominate `Price{Value: %s}` -/\ndef %s%s : Bool :=\n  %s",
						fn.QName(), id.Name, id.Name, name, params, body)})
				}
			})
		}
	}
	var lerr error
	if len(lits) == 0 {
		lerr = fmt.Errorf("no types.Price literal found in x/oracle/keeper/prices.go")
	}
	emit("oraclePriceLiterals", "/-- every Price{…} literal of x/oracle/keeper/prices.go: Func|Value|returned with|dominating guards -/\ndef oraclePriceLiterals : List String := "+leanStrListNL(lits), lerr)
	for _, k := range kerns {
		emit(k.name, k.def, nil)
	}
	// consumers
	var cons []string
	for _, p := range ix.sortedPkgs() {
		for _, fn := range p.allFuncs() {
			if !consensusFile(fn.File.Rel) || fn.Decl.Body == nil {
				continue
			}
			ast.Inspect(fn.Decl.Body, func(n ast.Node) bool {
				if c, ok := n.(*ast.CallExpr); ok {
					if sel, ok := c.Fun.(*ast.SelectorExpr); ok && (sel.Sel.Name == "GetSpecifiedAssetsPrice" || sel.Sel.Name == "GetMultipleAssetsPrices") {
						cons = append(cons, fmt.Sprintf("%s <- %s:%s", sel.Sel.Name, fn.File.Rel, fn.QName()))
					}
				}
				return true
			})
		}
	}
	emit("priceConsumersOnBlockPaths", "/-- call sites of the two oracle price getters in consensus code -/\ndef priceConsumersOnBlockPaths : List String := "+leanStrListNL(uniqSorted(cons)), nil)
}

func mentions(e ast.Expr, name string) bool {
	found := false
	ast.Inspect(e, func(n ast.Node) bool {
		if id, ok := n.(*ast.Ident); ok && id.Name == name {
			found = true
		}
		return true
	})
	return found
}
