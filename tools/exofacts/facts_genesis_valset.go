package main

// C18 fact pinning the SHAPE of the validator-set part of x/dogfood InitGenesis (x/dogfood/keeper/genesis.go):
//   dogfoodInitValSet   the statements of the loop `for _, val := range genState.ValSet` in source order — an if
//                       statement rendered as `if <init; cond> => <how its body leaves the iteration: panic | continue |
//                       break | return | falls-through>`, every other statement as its Go text — followed by the
//                       SetLastTotalPower call and the return statement of the function.
// The model (Model/GenesisValSet.lean: initLoop, initVals, codeValCfg) carries exactly these: one guard that panics when no
// operator owns the key, the append of EVERY other entry, LastTotalPower from the document, ApplyValidatorChanges(out). A
// further guard (e.g. one that `continue`s over the entries of jailed operators), a changed source of the total power or a
// different argument of ApplyValidatorChanges changes the fact and breaks C18_tie_valset_init_loop.

import (
	"fmt"
	"go/ast"
	"go/parser"
	"go/token"
)

// bodyExit: how a block leaves the enclosing loop iteration (looking at its direct statements only).
func bodyExit(b *ast.BlockStmt) string {
	for _, st := range b.List {
		switch x := st.(type) {
		case *ast.BranchStmt:
			return x.Tok.String()
		case *ast.ReturnStmt:
			return "return"
		case *ast.ExprStmt:
			if c, ok := x.X.(*ast.CallExpr); ok && exprText(c.Fun) == "panic" {
				return "panic"
			}
		}
	}
	return "falls-through"
}

func genesisValSetGen(repo string, emit func(name, leanDef string, err error)) {
	const name = "dogfoodInitValSet"
	f, err := parser.ParseFile(token.NewFileSet(), repo+"/x/dogfood/keeper/genesis.go", nil, 0)
	if err != nil {
		emit(name, "", err)
		return
	}
	fd := findFunc(f, "Keeper.InitGenesis")
	if fd == nil {
		emit(name, "", fmt.Errorf("x/dogfood Keeper.InitGenesis not found"))
		return
	}
	var rows []string
	loops := 0
	for _, st := range fd.Body.List {
		switch x := st.(type) {
		case *ast.RangeStmt:
			if goSrc(x.X) != "genState.ValSet" {
				continue
			}
			loops++
			rows = append(rows, "for "+goSrc(x.Key)+", "+goSrc(x.Value)+" := range "+goSrc(x.X))
			for _, b := range x.Body.List {
				if is, ok := b.(*ast.IfStmt); ok {
					c := goSrc(is.Cond)
					if is.Init != nil {
						c = goSrc(is.Init) + "; " + c
					}
					r := "if " + c + " => " + bodyExit(is.Body)
					if is.Else != nil {
						r += " else …"
					}
					rows = append(rows, r)
					continue
				}
				rows = append(rows, goSrc(b))
			}
		case *ast.ExprStmt:
			if c, ok := x.X.(*ast.CallExpr); ok && exprText(c.Fun) == "k.SetLastTotalPower" {
				rows = append(rows, goSrc(x))
			}
		case *ast.ReturnStmt:
			rows = append(rows, goSrc(x))
		}
	}
	if loops != 1 {
		emit(name, "", fmt.Errorf("x/dogfood InitGenesis: %d top-level loops over genState.ValSet (want 1)", loops))
		return
	}
	emit(name, "/-- x/dogfood/keeper/genesis.go InitGenesis: the loop over genState.ValSet statement by statement (if statements with the way their body leaves the iteration), the SetLastTotalPower call, the return statement -/\ndef "+name+
		" : List String := "+leanStrListNL(rows), nil)
}

func init() { factGens = append(factGens, genesisValSetGen) }
