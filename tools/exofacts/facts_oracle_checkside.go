package main

// C13 (check-side isolation): how AggregatorContext.Copy4CheckTx builds the context message handlers
// work on when they run on the check state (BaseApp.Simulate). The deliver-side context keeps one
// *roundInfo per feeder; FillPrice writes `agc.rounds[feederID].status = roundStatusClosed` THROUGH that
// pointer, so whether a handler execution on the check side can reach the deliver side is decided by
// which fields of the copy hold the deliver side's own cells. Facts (x/oracle/keeper/aggregator/context.go):
//
//   oracleCheckCopyFieldTypes : the declared types of the pointer-holding map fields of AggregatorContext
//   oracleCheckCopyFields     : every field of the composite literal Copy4CheckTx returns, with the text
//                               of its initialiser (a field that is not listed is left at its zero value)
//   oracleCheckCopyRoundsFill : the statements that fill ret.rounds — header and body of every loop over
//                               agc.rounds, plus every other statement mentioning `rounds`
//   oracleCheckCopyRoundStatusWrites : every assignment to a `.status` of a roundInfo reached through
//                               `agc.rounds[...]` in context.go, as "<func>: <text>" (the writes through the pointer)
//
// Props/C13CheckSideTie.lean pins them to the shapes Model/OracleCheckSide.lean transcribes (fresh map,
// one freshly allocated cell per entry holding a copy of the value).

import (
	"fmt"
	"go/ast"
	"sort"
	"strings"
)

func init() { factGens = append(factGens, oracleCheckSideFacts) }

func oracleCheckSideFacts(repo string, emit func(name, leanDef string, err error)) {
	const file = "x/oracle/keeper/aggregator/context.go"
	names := []string{"oracleCheckCopyFieldTypes", "oracleCheckCopyFields", "oracleCheckCopyRoundsFill", "oracleCheckCopyRoundStatusWrites"}
	fail := func(err error) {
		for _, n := range names {
			emit(n, "", err)
		}
	}
	f, fset, err := parseRepo(repo, file)
	if err != nil {
		fail(err)
		return
	}
	src, err := readFile(repo + "/" + file)
	if err != nil {
		fail(err)
		return
	}
	text := func(n ast.Node) string { return orcNodeText(fset, src, n) }
	pairs := func(rows [][2]string) string {
		q := make([]string, len(rows))
		for i, r := range rows {
			q[i] = fmt.Sprintf("(%q, %q)", r[0], r[1])
		}
		return "[" + strings.Join(q, ", ") + "]"
	}

	// 1. field types of the struct
	var types [][2]string
	ast.Inspect(f, func(n ast.Node) bool {
		ts, ok := n.(*ast.TypeSpec)
		if !ok || ts.Name.Name != "AggregatorContext" {
			return true
		}
		st, ok := ts.Type.(*ast.StructType)
		if !ok {
			return false
		}
		for _, fl := range st.Fields.List {
			mt, ok := fl.Type.(*ast.MapType)
			if !ok {
				continue
			}
			if _, ptr := mt.Value.(*ast.StarExpr); !ptr {
				continue
			}
			for _, nm := range fl.Names {
				types = append(types, [2]string{nm.Name, text(fl.Type)})
			}
		}
		return false
	})
	if len(types) == 0 {
		emit(names[0], "", fmt.Errorf("struct AggregatorContext with map[...]*T fields not found in %s", file))
	} else {
		emit(names[0], "/-- context.go: AggregatorContext — the fields holding pointers to per-feeder cells -/\ndef oracleCheckCopyFieldTypes : List (String × String) := "+pairs(types), nil)
	}

	// 2. the literal Copy4CheckTx returns, 3. how its rounds are filled
	fd := findFunc(f, "AggregatorContext.Copy4CheckTx")
	if fd == nil || fd.Body == nil {
		err := fmt.Errorf("AggregatorContext.Copy4CheckTx not found in %s", file)
		emit(names[1], "", err)
		emit(names[2], "", err)
	} else {
		var lits []*ast.CompositeLit
		ast.Inspect(fd.Body, func(n ast.Node) bool {
			if cl, ok := n.(*ast.CompositeLit); ok {
				if id, ok := cl.Type.(*ast.Ident); ok && id.Name == "AggregatorContext" {
					lits = append(lits, cl)
				}
			}
			return true
		})
		if len(lits) != 1 {
			emit(names[1], "", fmt.Errorf("Copy4CheckTx: expected exactly one AggregatorContext literal, found %d", len(lits)))
		} else {
			var rows [][2]string
			bad := false
			for _, e := range lits[0].Elts {
				kv, ok := e.(*ast.KeyValueExpr)
				if !ok {
					bad = true
					break
				}
				rows = append(rows, [2]string{text(kv.Key), text(kv.Value)})
			}
			if bad {
				emit(names[1], "", fmt.Errorf("Copy4CheckTx: positional composite literal"))
			} else {
				emit(names[1], "/-- context.go: Copy4CheckTx — the fields of the returned context and their initialisers -/\ndef oracleCheckCopyFields : List (String × String) := "+pairs(rows), nil)
			}
		}
		var fill []string
		for _, st := range fd.Body.List {
			switch s := st.(type) {
			case *ast.RangeStmt:
				if strings.Contains(text(s.X), "rounds") {
					hdr := "for " + text(s.Key)
					if s.Value != nil {
						hdr += ", " + text(s.Value)
					}
					hdr += " " + s.Tok.String() + " range " + text(s.X)
					fill = append(fill, hdr)
					for _, b := range s.Body.List {
						fill = append(fill, "  "+text(b))
					}
				}
			case *ast.ReturnStmt:
			default:
				t := text(st)
				if _, isDecl := st.(*ast.AssignStmt); isDecl && strings.HasPrefix(t, "ret := &AggregatorContext{") {
					continue // the literal itself: fact 2
				}
				if strings.Contains(t, "rounds") {
					fill = append(fill, t)
				}
			}
		}
		emit(names[2], "/-- context.go: Copy4CheckTx — the statements filling the copy's rounds -/\ndef oracleCheckCopyRoundsFill : List String := "+leanStrList(fill), nil)
	}

	// 4. writes through the round pointers
	var writes []string
	for _, d := range f.Decls {
		fn, ok := d.(*ast.FuncDecl)
		if !ok || fn.Body == nil {
			continue
		}
		ast.Inspect(fn.Body, func(n ast.Node) bool {
			as, ok := n.(*ast.AssignStmt)
			if !ok {
				return true
			}
			for _, l := range as.Lhs {
				if se, ok := l.(*ast.SelectorExpr); ok && se.Sel.Name == "status" && strings.Contains(text(se.X), "rounds[") {
					writes = append(writes, fn.Name.Name+": "+text(as))
				}
			}
			return true
		})
	}
	sort.Strings(writes)
	emit(names[3], "/-- context.go: assignments to the status of a round reached through `rounds[...]` -/\ndef oracleCheckCopyRoundStatusWrites : List String := "+leanStrList(writes), nil)
}
