package main

// C08 (restart clause): the oracle's process-local state and how it is written.
//
// A node that restarts rebuilds this state from the committed store (x/oracle/keeper/single.go:
// recacheAggregatorContext / initAggregatorContext); a node that keeps running maintains it block by
// block (x/oracle/module.go: EndBlock). Both must hold the same thing. For the parts a restart
// restores BY VALUE (validator powers, total power, params: read from the store and handed to a
// setter) that is the case iff the setter REPLACES what the context held — a setter that merges its
// argument into the existing map keeps whatever the argument no longer mentions (a validator that
// left the set) on the long-running node only.
//
//   oracleMemoryFields   every package-level variable of x/oracle, x/oracle/keeper, …/aggregator,
//                        …/cache, …/common and every field of the container structs
//                        AggregatorContext, Cache, cacheValidator, cacheParams:
//                        "dir:var:name:kind" / "dir:Type.field:kind" (kind = map|slice|ptr|value)
//   oracleMemoryWriters  every statement in a method of those container structs that writes one of
//                        the receiver's fields: (file:Recv.Func, Type.field, shape) with shape ∈
//                          replace:fresh       recv.F = make(…) | &T{…} | T{…} | new(…) | big.NewInt(…) | New…(…)
//                          replace:arg         recv.F = <parameter> | &<parameter>
//                          replace:accumulate:after-fresh | :in-place
//                                              recv.F = <expression reading recv.F>, recv.F op= …, recv.F++ (after-fresh: the
//                                              same function reset recv.F to a fresh value before)
//                          replace:expr        recv.F = <anything else>
//                          set-key:after-fresh recv.F[k] = v, the same function replaced recv.F by a fresh value before
//                          set-key:in-place    recv.F[k] = v into whatever the field held
//                          delete-key          delete(recv.F, k)
//                          elem-mutate         recv.F[k].x = …, recv.F.x = …, recv.F[k].Set(…)
//                          whole:replace       *recv = …
// The list is syntactic (go/ast); it fails when one of the container types or its file disappears.

import (
	"fmt"
	"go/ast"
	"go/token"
	"sort"
	"strings"
)

func init() {
	factGens = append(factGens, genRestartMemoryFacts)
}

var memContainers = map[string][]string{
	"x/oracle/keeper/aggregator": {"AggregatorContext"},
	"x/oracle/keeper/cache":      {"Cache", "cacheValidator", "cacheParams"},
}

var memVarPkgs = []string{"x/oracle", "x/oracle/keeper", "x/oracle/keeper/aggregator", "x/oracle/keeper/cache", "x/oracle/keeper/common"}

func memKind(e ast.Expr) string {
	switch t := e.(type) {
	case *ast.MapType:
		return "map"
	case *ast.ArrayType:
		if t.Len == nil {
			return "slice"
		}
		return "value"
	case *ast.StarExpr:
		return "ptr"
	case *ast.ParenExpr:
		return memKind(t.X)
	}
	return "value"
}

func leanTripleList(xs [][3]string) string {
	if len(xs) == 0 {
		return "[]"
	}
	q := make([]string, len(xs))
	for i, x := range xs {
		q[i] = fmt.Sprintf("  (%q, %q, %q)", x[0], x[1], x[2])
	}
	return "[\n" + strings.Join(q, ",\n") + "]"
}

func genRestartMemoryFacts(repo string, emit func(name, leanDef string, err error)) {
	ix, err := loadIndex(repo)
	if err != nil {
		emit("oracleMemoryFields", "", err)
		emit("oracleMemoryWriters", "", err)
		return
	}
	fields, ferr := oracleMemoryFields(ix)
	emit("oracleMemoryFields", "/-- the oracle's process-local state: package-level variables of the oracle packages and the fields of the container structs (dir:var:name:kind / dir:Type.field:kind) -/\ndef oracleMemoryFields : List String := "+leanStrListNL(fields), ferr)
	writers, werr := oracleMemoryWriters(ix)
	emit("oracleMemoryWriters", "/-- every write of a method of AggregatorContext / Cache / cacheValidator / cacheParams to a field of its receiver: (file:Recv.Func, Type.field, shape) -/\ndef oracleMemoryWriters : List (String × String × String) := "+leanTripleList(writers), werr)
}

func oracleMemoryFields(ix *xIndex) ([]string, error) {
	var out []string
	for _, dir := range memVarPkgs {
		pk := ix.Pkgs[dir]
		if pk == nil {
			return nil, fmt.Errorf("package %s not found", dir)
		}
		for _, xf := range pk.Files {
			if !consensusFile(xf.Rel) {
				continue
			}
			for _, d := range xf.AST.Decls {
				gd, ok := d.(*ast.GenDecl)
				if !ok || gd.Tok != token.VAR {
					continue
				}
				for _, sp := range gd.Specs {
					vs, ok := sp.(*ast.ValueSpec)
					if !ok {
						continue
					}
					for _, n := range vs.Names {
						if n.Name == "_" {
							continue
						}
						k := "value"
						if vs.Type != nil {
							k = memKind(vs.Type)
						}
						out = append(out, fmt.Sprintf("%s:var:%s:%s", dir, n.Name, k))
					}
				}
			}
		}
	}
	for dir, types := range memContainers {
		pk := ix.Pkgs[dir]
		if pk == nil {
			return nil, fmt.Errorf("package %s not found", dir)
		}
		for _, tn := range types {
			td := pk.Types[tn]
			if td == nil {
				return nil, fmt.Errorf("type %s.%s not found", dir, tn)
			}
			st, ok := td.Expr.(*ast.StructType)
			if !ok {
				return nil, fmt.Errorf("type %s.%s is no longer a struct", dir, tn)
			}
			for _, f := range st.Fields.List {
				if len(f.Names) == 0 {
					out = append(out, fmt.Sprintf("%s:%s.%s:%s", dir, tn, exprText(f.Type), "embedded"))
				}
				for _, n := range f.Names {
					out = append(out, fmt.Sprintf("%s:%s.%s:%s", dir, tn, n.Name, memKind(f.Type)))
				}
			}
		}
	}
	sort.Strings(out)
	return out, nil
}

// memLhsPath: recv.F → ("F", ""), recv.F[k] → ("F", "index"), deeper → ("F", "deep"), *recv → ("", "whole")
func memLhsPath(e ast.Expr, recv string) (field, how string, ok bool) {
	switch t := e.(type) {
	case *ast.ParenExpr:
		return memLhsPath(t.X, recv)
	case *ast.StarExpr:
		if id, isID := t.X.(*ast.Ident); isID && id.Name == recv {
			return "", "whole", true
		}
		if f, _, ok2 := memLhsPath(t.X, recv); ok2 {
			return f, "deep", true
		}
	case *ast.SelectorExpr:
		if id, isID := t.X.(*ast.Ident); isID && id.Name == recv {
			return t.Sel.Name, "", true
		}
		if f, _, ok2 := memLhsPath(t.X, recv); ok2 {
			return f, "deep", true
		}
	case *ast.IndexExpr:
		if f, h, ok2 := memLhsPath(t.X, recv); ok2 {
			if h == "" {
				return f, "index", true
			}
			return f, "deep", true
		}
	}
	return "", "", false
}

func memRhsKind(e ast.Expr, recv, field string, params map[string]bool) string {
	switch t := e.(type) {
	case *ast.ParenExpr:
		return memRhsKind(t.X, recv, field, params)
	case *ast.CompositeLit:
		return "fresh"
	case *ast.UnaryExpr:
		if t.Op == token.AND {
			if _, ok := t.X.(*ast.CompositeLit); ok {
				return "fresh"
			}
			if id, ok := t.X.(*ast.Ident); ok && params[id.Name] {
				return "arg"
			}
		}
	case *ast.Ident:
		if params[t.Name] {
			return "arg"
		}
	case *ast.CallExpr:
		fn := exprText(t.Fun)
		base := fn
		if i := strings.LastIndex(fn, "."); i >= 0 {
			base = fn[i+1:]
		}
		if !strings.Contains(srcText(e), recv+"."+field) && (fn == "make" || fn == "new" || strings.HasPrefix(base, "New")) {
			return "fresh"
		}
	}
	if strings.Contains(srcText(e), recv+"."+field) {
		return "accumulate"
	}
	return "expr"
}

func oracleMemoryWriters(ix *xIndex) ([][3]string, error) {
	var out [][3]string
	dirs := make([]string, 0, len(memContainers))
	for d := range memContainers {
		dirs = append(dirs, d)
	}
	sort.Strings(dirs)
	for _, dir := range dirs {
		pk := ix.Pkgs[dir]
		if pk == nil {
			return nil, fmt.Errorf("package %s not found", dir)
		}
		for _, tn := range memContainers[dir] {
			ms := pk.Methods[tn]
			if len(ms) == 0 {
				return nil, fmt.Errorf("type %s.%s has no methods (renamed?)", dir, tn)
			}
			names := make([]string, 0, len(ms))
			for n := range ms {
				names = append(names, n)
			}
			sort.Strings(names)
			for _, mn := range names {
				fn := ms[mn]
				if fn.Decl.Body == nil || fn.Decl.Recv == nil || len(fn.Decl.Recv.List) != 1 || len(fn.Decl.Recv.List[0].Names) != 1 {
					continue
				}
				if !consensusFile(fn.File.Rel) {
					continue
				}
				recv := fn.Decl.Recv.List[0].Names[0].Name
				params := map[string]bool{}
				if fn.Decl.Type.Params != nil {
					for _, p := range fn.Decl.Type.Params.List {
						for _, n := range p.Names {
							params[n.Name] = true
						}
					}
				}
				site := fn.File.Rel + ":" + fn.QName()
				fresh := map[string]bool{} // fields replaced by a fresh value earlier in this function (source order)
				add := func(field, shape string) {
					if shape == "replace:accumulate" {
						if fresh[field] {
							shape += ":after-fresh"
						} else {
							shape += ":in-place"
						}
					}
					if field == "" {
						out = append(out, [3]string{site, tn, shape})
						return
					}
					out = append(out, [3]string{site, tn + "." + field, shape})
				}
				ast.Inspect(fn.Decl.Body, func(n ast.Node) bool {
					switch s := n.(type) {
					case *ast.AssignStmt:
						for i, l := range s.Lhs {
							field, how, ok := memLhsPath(l, recv)
							if !ok {
								continue
							}
							switch how {
							case "whole":
								add("", "whole:replace")
							case "":
								if s.Tok != token.ASSIGN && s.Tok != token.DEFINE {
									add(field, "replace:accumulate")
									continue
								}
								k := "expr"
								if len(s.Rhs) == len(s.Lhs) {
									k = memRhsKind(s.Rhs[i], recv, field, params)
								}
								if k == "fresh" {
									fresh[field] = true
								}
								add(field, "replace:"+k)
							case "index":
								if fresh[field] {
									add(field, "set-key:after-fresh")
								} else {
									add(field, "set-key:in-place")
								}
							default:
								add(field, "elem-mutate")
							}
						}
					case *ast.IncDecStmt:
						if field, how, ok := memLhsPath(s.X, recv); ok {
							if how == "" {
								add(field, "replace:accumulate")
							} else {
								add(field, "elem-mutate")
							}
						}
					case *ast.CallExpr:
						if id, ok := s.Fun.(*ast.Ident); ok && id.Name == "delete" && len(s.Args) == 2 {
							if field, how, ok := memLhsPath(s.Args[0], recv); ok {
								if how == "" {
									add(field, "delete-key")
								} else {
									add(field, "elem-mutate")
								}
							}
						}
						if sel, ok := s.Fun.(*ast.SelectorExpr); ok && sel.Sel.Name == "Set" {
							if field, how, ok := memLhsPath(sel.X, recv); ok && how != "" {
								add(field, "elem-mutate")
							}
						}
					}
					return true
				})
			}
		}
	}
	if len(out) == 0 {
		return nil, fmt.Errorf("no writes to the oracle's in-memory containers found (names changed?)")
	}
	// source order inside a function is kept (it is what after-fresh / in-place means); functions are sorted
	return out, nil
}
