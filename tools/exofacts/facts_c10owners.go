package main

// C10, owner lists: the SHAPE of the owner gates (the whole condition of the `if` that refuses a sender, not only the
// slices.Contains call inside it — a helper that treats some lists specially changes the text) and of the writes of
// AVSInfo.AvsOwnerAddress (which guard, which value), as Model/AuthOwners.lean transcribes them.

import (
	"fmt"
	"go/ast"
	"strings"
)

func init() { factGens = append(factGens, genC10OwnerFacts) }

func genC10OwnerFacts(repo string, emit func(name, leanDef string, err error)) {
	var gates, writes [][2]string
	var oerr error
	for _, m := range [][3]string{
		{"precompiles/avs/tx.go", "RegisterAVS", "Precompile"}, {"precompiles/avs/tx.go", "UpdateAVS", "Precompile"},
		{"precompiles/avs/tx.go", "DeregisterAVS", "Precompile"}, {"precompiles/avs/tx.go", "CreateAVSTask", "Precompile"},
		{"precompiles/avs/tx.go", "Challenge", "Precompile"},
		{"x/avs/keeper/keeper.go", "UpdateAVSInfo", "Keeper"}, {"x/avs/keeper/keeper.go", "CreateAVSTask", "Keeper"},
		{"precompiles/avs/types.go", "GetAVSParamsFromInputs", "Precompile"}, {"precompiles/avs/types.go", "GetAVSParamsFromUpdateInputs", "Precompile"},
	} {
		fset, f, err := xbParseGo(repo, m[0])
		if err != nil {
			oerr = err
			continue
		}
		fd := xbFindFunc(f, m[1], m[2])
		if fd == nil {
			oerr = fmt.Errorf("%s: %s not found", m[0], m[1])
			continue
		}
		name := m[2] + "." + m[1]
		// guards: innermost enclosing if-condition of a node ("" = unconditional)
		var stack []ast.Node
		ast.Inspect(fd.Body, func(n ast.Node) bool {
			if n == nil {
				stack = stack[:len(stack)-1]
				return true
			}
			stack = append(stack, n)
			switch t := n.(type) {
			case *ast.IfStmt:
				cond := xbNodeText(fset, t.Cond)
				body := xbNodeText(fset, t.Body)
				// an owner gate: the condition consults an owner list, or the body refuses the caller as unauthorized
				if strings.Contains(cond, "AvsOwnerAddress") || strings.Contains(cond, "Owner") ||
					strings.Contains(body, "ErrCallerAddressUnauthorized") {
					if !(strings.Contains(cond, "!= nil") && !strings.Contains(body, "return")) { // the write guard is listed below
						gates = append(gates, [2]string{name, cond})
					}
				}
			case *ast.AssignStmt:
				if len(t.Lhs) == 1 && len(t.Rhs) == 1 {
					if sel, ok := t.Lhs[0].(*ast.SelectorExpr); ok && sel.Sel.Name == "AvsOwnerAddress" {
						guard := ""
						for i := len(stack) - 2; i >= 0; i-- {
							if is, ok := stack[i].(*ast.IfStmt); ok {
								guard = xbNodeText(fset, is.Cond)
								break
							}
						}
						writes = append(writes, [2]string{name, "if " + guard + " : " + xbNodeText(fset, t)})
					}
					// the slice the precompile hands over: made non-nil whatever its length
					if id, ok := t.Lhs[0].(*ast.Ident); ok && id.Name == "exoAddresses" {
						writes = append(writes, [2]string{name, xbNodeText(fset, t)})
					}
				}
			case *ast.KeyValueExpr:
				if id, ok := t.Key.(*ast.Ident); ok && id.Name == "AvsOwnerAddress" {
					writes = append(writes, [2]string{name, "literal : " + xbNodeText(fset, t)})
				}
			}
			return true
		})
	}
	// helper functions of the two packages that take an owner list: none exists on the code the model mirrors
	var helpers []string
	for _, rel := range []string{"precompiles/avs/tx.go", "precompiles/avs/types.go", "x/avs/keeper/keeper.go"} {
		_, f, err := xbParseGo(repo, rel)
		if err != nil {
			oerr = err
			continue
		}
		for _, d := range f.Decls {
			fd, ok := d.(*ast.FuncDecl)
			if !ok || fd.Type.Params == nil {
				continue
			}
			for _, p := range fd.Type.Params.List {
				for _, n := range p.Names {
					if strings.Contains(strings.ToLower(n.Name), "owner") {
						helpers = append(helpers, rel+":"+fd.Name.Name)
					}
				}
			}
		}
	}
	emit("avsOwnerGateConds", "/-- every `if` of the AVS precompile methods / keeper entry points whose condition consults an owner list or whose body refuses the caller as unauthorized: the whole condition -/\ndef avsOwnerGateConds : List (String × String) := "+xbLeanPairList(gates, "str"), oerr)
	emit("avsOwnerListWrites", "/-- every write of an AvsOwnerAddress field (with the innermost guarding condition) and every definition of the slice the precompile passes -/\ndef avsOwnerListWrites : List (String × String) := "+xbLeanPairList(writes, "str"), oerr)
	emit("avsOwnerListHelpers", "/-- functions of precompiles/avs and x/avs/keeper/keeper.go with an owner(-list) parameter -/\ndef avsOwnerListHelpers : List String := "+leanStrList(helpers), oerr)
}
