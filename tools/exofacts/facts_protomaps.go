package main

// C08 (map-iteration-order clause, ENCODER side): proto `map<K,V>` fields of the repository's
// generated messages.
//
// protoc-gen-gocosmos writes a map field in MarshalToSizedBuffer with `for k := range m.Field`
// (Go map order) unless the message/file carries gogoproto's stable_marshaler option, in which
// case it emits `keysForField := …; for k := range m.Field { keysForField = append(…) };
// sortkeys.Xs(keysForField); for iNdEx := len(keysForField)-1; …`. A message with an unsorted map
// field holding two or more entries has no canonical encoding; if its bytes reach a KV store (or a
// tx result) the app hash depends on the iteration order.
//
//   protoMapFields        every map field of every x/**/*.pb.go message:
//                         (file, Message.Field, marshaller shape, use)
//                         shape ∈ range-unsorted | sorted-keys | no-marshaller
//                         use   = sorted list, subset of
//                           store      the message, or a message that (transitively) contains it, is the argument
//                                      of a codec Marshal call / the receiver of .Marshal() in consensus code
//                                      (x/…, app/ante, precompiles; not CLI, tests, gRPC query servers)
//                           genesis    contained in the package's GenesisState
//                           msg        contained in a request type of the package's MsgServer
//                           tx-result  contained in a response type of the package's MsgServer
//                           query      contained in a response type of the package's QueryServer
//                         ([] when the message is not used at all)
//   protoMapFieldWriters  every consensus-code site that can put entries into such a field:
//                         (Message.Field, file:Func:shape), shape ∈ assign (x.Field = …), set-key
//                         (x.Field[k] = …), literal:<n> (Message{Field: map[..]..{n entries}}; literal:? when the value is
//                         not a map literal). Name-based (fails towards listing). Entries that arrive by DECODING
//                         (genesis JSON, tx bytes) are not writers in this sense: see `use`.
//   protoMarshalUnresolved  arguments of codec Marshal calls in consensus code whose type the syntactic
//                         typer could not name (reviewed by hand: none of them is a map-bearing message)

import (
	"fmt"
	"go/ast"
	"go/token"
	"sort"
	"strings"
)

func init() { factGens = append(factGens, genProtoMapFacts) }

type pmMsg struct {
	key   string // dir.Name
	dir   string
	name  string
	file  *xFile
	st    *ast.StructType
	inPkg *xPkg
}

type pmFieldRow struct {
	file, field, shape string
	use                []string
}

func leanFieldRows(xs []pmFieldRow) string {
	if len(xs) == 0 {
		return "[]"
	}
	q := make([]string, len(xs))
	for i, x := range xs {
		q[i] = fmt.Sprintf("  (%q, %q, %q, %s)", x.file, x.field, x.shape, leanStrList(x.use))
	}
	return "[\n" + strings.Join(q, ",\n") + "]"
}

func leanPairList(xs [][2]string) string {
	if len(xs) == 0 {
		return "[]"
	}
	q := make([]string, len(xs))
	for i, x := range xs {
		q[i] = fmt.Sprintf("  (%q, %q)", x[0], x[1])
	}
	return "[\n" + strings.Join(q, ",\n") + "]"
}

func isPbFile(rel string) bool {
	return strings.HasPrefix(rel, "x/") && strings.HasSuffix(rel, ".pb.go")
}

func genProtoMapFacts(repo string, emit func(name, leanDef string, err error)) {
	ix, err := loadIndex(repo)
	if err != nil {
		for _, n := range []string{"protoMapFields", "protoMapFieldWriters", "protoMarshalUnresolved"} {
			emit(n, "", err)
		}
		return
	}
	// ---- the generated messages
	msgs := map[string]*pmMsg{}
	for _, pk := range ix.sortedPkgs() {
		for _, xf := range pk.Files {
			if !isPbFile(xf.Rel) {
				continue
			}
			for _, d := range xf.AST.Decls {
				gd, ok := d.(*ast.GenDecl)
				if !ok || gd.Tok != token.TYPE {
					continue
				}
				for _, sp := range gd.Specs {
					ts := sp.(*ast.TypeSpec)
					if st, ok := ts.Type.(*ast.StructType); ok {
						m := &pmMsg{key: pk.Dir + "." + ts.Name.Name, dir: pk.Dir, name: ts.Name.Name, file: xf, st: st, inPkg: pk}
						msgs[m.key] = m
					}
				}
			}
		}
	}
	if len(msgs) == 0 {
		e := fmt.Errorf("no generated message found under x/")
		for _, n := range []string{"protoMapFields", "protoMapFieldWriters", "protoMarshalUnresolved"} {
			emit(n, "", e)
		}
		return
	}
	// named message types mentioned by a field type (through pointers, slices, arrays, map values)
	var mentioned func(e ast.Expr, f *xFile, out *[]string)
	mentioned = func(e ast.Expr, f *xFile, out *[]string) {
		switch t := e.(type) {
		case *ast.StarExpr:
			mentioned(t.X, f, out)
		case *ast.ArrayType:
			mentioned(t.Elt, f, out)
		case *ast.MapType:
			mentioned(t.Value, f, out)
		case *ast.Ident, *ast.SelectorExpr:
			if pk, name := ix.namedOf(xType{e, f}); pk != nil {
				if _, ok := msgs[pk.Dir+"."+name]; ok {
					*out = append(*out, pk.Dir+"."+name)
				}
			}
		}
	}
	parents := map[string][]string{} // contained -> containers
	for _, k := range sortedMsgKeys(msgs) {
		m := msgs[k]
		for _, f := range m.st.Fields.List {
			var inner []string
			mentioned(f.Type, m.file, &inner)
			for _, c := range inner {
				parents[c] = append(parents[c], m.key)
			}
		}
		// oneof wrappers: `isX_Sum` interface fields are implemented by X_Field structs holding the value;
		// the wrapper struct names start with the message name + "_"
	}
	for _, k := range sortedMsgKeys(msgs) {
		m := msgs[k]
		if i := strings.Index(m.name, "_"); i > 0 {
			if owner, ok := msgs[m.dir+"."+m.name[:i]]; ok {
				parents[m.key] = append(parents[m.key], owner.key)
			}
		}
	}
	ancestors := func(k string) map[string]bool {
		seen := map[string]bool{k: true}
		todo := []string{k}
		for len(todo) > 0 {
			c := todo[0]
			todo = todo[1:]
			for _, p := range parents[c] {
				if !seen[p] {
					seen[p] = true
					todo = append(todo, p)
				}
			}
		}
		return seen
	}
	// ---- roots
	storeRoots := map[string]bool{}
	var unresolved []string
	marshalNames := map[string]bool{"MustMarshal": true, "Marshal": true, "MustMarshalLengthPrefixed": true, "MarshalLengthPrefixed": true}
	for _, pk := range ix.sortedPkgs() {
		for _, fn := range pk.allFuncs() {
			if !consensusFile(fn.File.Rel) {
				continue
			}
			ix.walkFunc(fn, func(s *xScope, n ast.Node, _ []ast.Node) {
				c, ok := n.(*ast.CallExpr)
				if !ok {
					return
				}
				sel, ok := c.Fun.(*ast.SelectorExpr)
				if !ok || !marshalNames[sel.Sel.Name] {
					return
				}
				var subject ast.Expr
				switch len(c.Args) {
				case 1:
					subject = c.Args[0] // cdc.MustMarshal(&x)
				case 0:
					subject = sel.X // x.Marshal()
				default:
					return
				}
				// json.Marshal / abi packing etc. are not proto encoders of stored values
				if id, ok := sel.X.(*ast.Ident); ok && len(c.Args) == 1 {
					if path, isImp := s.file.Imports[id.Name]; isImp {
						if _, isVar := s.vars[id.Name]; !isVar && (path == "encoding/json" || strings.HasSuffix(path, "/json")) {
							return
						}
					}
				}
				t := s.typeOf(subject)
				if pkT, name := ix.namedOf(t); pkT != nil {
					storeRoots[pkT.Dir+"."+name] = true
					return
				}
				unresolved = append(unresolved, fmt.Sprintf("%s:%s:%s", fn.File.Rel, fn.QName(), srcText(c)))
			})
		}
	}
	ifaceTypes := func(pk *xPkg, iface string, results bool) map[string]bool {
		out := map[string]bool{}
		td := pk.Types[iface]
		if td == nil {
			return out
		}
		it, ok := td.Expr.(*ast.InterfaceType)
		if !ok {
			return out
		}
		for _, m := range it.Methods.List {
			ft, ok := m.Type.(*ast.FuncType)
			if !ok {
				continue
			}
			fl := ft.Params
			if results {
				fl = ft.Results
			}
			if fl == nil {
				continue
			}
			for _, p := range fl.List {
				if pkT, name := ix.namedOf(xType{p.Type, td.File}); pkT != nil {
					out[pkT.Dir+"."+name] = true
				}
			}
		}
		return out
	}
	// ---- the map fields
	var fields []pmFieldRow
	var fieldNames [][2]string // (Message, Field)
	for _, k := range sortedMsgKeys(msgs) {
		m := msgs[k]
		for _, f := range m.st.Fields.List {
			if _, ok := f.Type.(*ast.MapType); !ok || f.Tag == nil || !strings.Contains(f.Tag.Value, "protobuf_key:") {
				continue
			}
			for _, n := range f.Names {
				shape := pmMarshalShape(m, n.Name)
				anc := ancestors(m.key)
				var use []string
				for a := range anc {
					if storeRoots[a] {
						use = append(use, "store")
						break
					}
				}
				if anc[m.dir+".GenesisState"] {
					use = append(use, "genesis")
				}
				for tag, set := range map[string]map[string]bool{
					"msg":       ifaceTypes(m.inPkg, "MsgServer", false),
					"tx-result": ifaceTypes(m.inPkg, "MsgServer", true),
					"query":     ifaceTypes(m.inPkg, "QueryServer", true),
				} {
					for a := range anc {
						if set[a] {
							use = append(use, tag)
							break
						}
					}
				}
				sort.Strings(use)
				fields = append(fields, pmFieldRow{m.file.Rel, m.name + "." + n.Name, shape, use})
				fieldNames = append(fieldNames, [2]string{m.name, n.Name})
			}
		}
	}
	var ferr error
	if len(fields) == 0 {
		ferr = fmt.Errorf("no proto map field found (generator layout changed?)")
	}
	emit("protoMapFields", "/-- every proto map field of the generated messages under x/: (file, Message.Field, marshaller shape, use) -/\ndef protoMapFields : List (String × String × String × List String) := "+leanFieldRows(fields), ferr)

	// ---- writers
	var writers [][2]string
	for _, pk := range ix.sortedPkgs() {
		for _, fn := range pk.allFuncs() {
			if !consensusFile(fn.File.Rel) || fn.Decl.Body == nil {
				continue
			}
			add := func(mf [2]string, shape string) {
				writers = append(writers, [2]string{mf[0] + "." + mf[1], fmt.Sprintf("%s:%s:%s", fn.File.Rel, fn.QName(), shape)})
			}
			ast.Inspect(fn.Decl.Body, func(n ast.Node) bool {
				switch t := n.(type) {
				case *ast.AssignStmt:
					for _, l := range t.Lhs {
						shape := "assign"
						if ie, ok := l.(*ast.IndexExpr); ok {
							l, shape = ie.X, "set-key"
						}
						if se, ok := l.(*ast.SelectorExpr); ok {
							for _, mf := range fieldNames {
								if se.Sel.Name == mf[1] {
									add(mf, shape)
								}
							}
						}
					}
				case *ast.CompositeLit:
					tn := ""
					switch tt := t.Type.(type) {
					case *ast.Ident:
						tn = tt.Name
					case *ast.SelectorExpr:
						tn = tt.Sel.Name
					}
					for _, el := range t.Elts {
						kv, ok := el.(*ast.KeyValueExpr)
						if !ok {
							continue
						}
						id, ok := kv.Key.(*ast.Ident)
						if !ok {
							continue
						}
						for _, mf := range fieldNames {
							// an elided literal type (inside a slice literal) has tn == "": listed as well
							if id.Name == mf[1] && (tn == mf[0] || tn == "") {
								cnt := "?"
								if ml, ok := kv.Value.(*ast.CompositeLit); ok {
									if _, isMap := ml.Type.(*ast.MapType); isMap {
										cnt = fmt.Sprint(len(ml.Elts))
									}
								}
								add(mf, "literal:"+cnt)
							}
						}
					}
				}
				return true
			})
		}
	}
	sort.Slice(writers, func(i, j int) bool {
		if writers[i][0] != writers[j][0] {
			return writers[i][0] < writers[j][0]
		}
		return writers[i][1] < writers[j][1]
	})
	emit("protoMapFieldWriters", "/-- consensus-code sites that put entries into a proto map field: (Message.Field, file:Func:shape) -/\ndef protoMapFieldWriters : List (String × String) := "+leanPairList(writers), ferr)
	sort.Strings(unresolved)
	emit("protoMarshalUnresolved", "/-- codec Marshal calls in consensus code whose argument type the syntactic typer could not name -/\ndef protoMarshalUnresolved : List String := "+leanStrListNL(unresolved), nil)
}

func sortedMsgKeys(m map[string]*pmMsg) []string {
	ks := make([]string, 0, len(m))
	for k := range m {
		ks = append(ks, k)
	}
	sort.Strings(ks)
	return ks
}

// pmMarshalShape reads (m *Msg) MarshalToSizedBuffer: how is m.<field> enumerated?
func pmMarshalShape(m *pmMsg, field string) string {
	fn := m.inPkg.Methods[m.name]["MarshalToSizedBuffer"]
	if fn == nil || fn.Decl.Body == nil {
		return "no-marshaller"
	}
	recv := "m"
	if fn.Decl.Recv != nil && len(fn.Decl.Recv.List) == 1 && len(fn.Decl.Recv.List[0].Names) == 1 {
		recv = fn.Decl.Recv.List[0].Names[0].Name
	}
	shape := "no-marshaller"
	keysVar := ""
	ast.Inspect(fn.Decl.Body, func(n ast.Node) bool {
		r, ok := n.(*ast.RangeStmt)
		if !ok {
			return true
		}
		se, ok := r.X.(*ast.SelectorExpr)
		if !ok || se.Sel.Name != field {
			return true
		}
		if id, ok := se.X.(*ast.Ident); !ok || id.Name != recv {
			return true
		}
		shape = "range-unsorted"
		// the stable marshaller's loop only collects the keys
		if len(r.Body.List) == 1 {
			if as, ok := r.Body.List[0].(*ast.AssignStmt); ok && len(as.Lhs) == 1 && len(as.Rhs) == 1 {
				if l, ok := as.Lhs[0].(*ast.Ident); ok {
					if c, ok := as.Rhs[0].(*ast.CallExpr); ok {
						if f, ok := c.Fun.(*ast.Ident); ok && f.Name == "append" && len(c.Args) == 2 {
							if a0, ok := c.Args[0].(*ast.Ident); ok && a0.Name == l.Name {
								keysVar = l.Name
							}
						}
					}
				}
			}
		}
		return true
	})
	if keysVar == "" {
		return shape
	}
	// … and the collected keys are sorted before they are used
	sorted := false
	ast.Inspect(fn.Decl.Body, func(n ast.Node) bool {
		c, ok := n.(*ast.CallExpr)
		if !ok || len(c.Args) == 0 {
			return true
		}
		a0, ok := c.Args[0].(*ast.Ident)
		if !ok || a0.Name != keysVar {
			return true
		}
		if sel, ok := c.Fun.(*ast.SelectorExpr); ok {
			if p, ok := sel.X.(*ast.Ident); ok && (strings.Contains(p.Name, "sortkeys") || p.Name == "sort" || p.Name == "slices") {
				sorted = true
			}
		}
		return true
	})
	if sorted {
		return "sorted-keys"
	}
	return shape
}
