package main

// C11: the dominating guards of every Quo / integer-division site on a block path, regenerated as Lean
// Bool kernels (`quoGuard_<Func>`), so that the guard lemmas of Props/C11Tie.lean are statements about the
// guard the Go code really has: `quoGuard_… = true → divisor ≠ 0`. A guard that is weakened (`&&` turned
// into `||`, a negation moved, a conjunct dropped) changes the kernel and the lemma stops being provable.
//
// Supported condition forms (anything else makes that conjunct be left out, which only weakens what the
// lemma may assume): !e, a && b, a || b, (e); X.IsZero() / IsPositive() / IsNegative(); X.GT|GTE|LT|LTE|Equal(Y);
// comparisons == != < <= > >= between integer atoms (identifier, field path, len(atom), integer literal);
// comparison of an atom with nil and bare identifiers become Bool parameters.

import (
	"fmt"
	"go/ast"
	"go/token"
	"sort"
	"strings"
)

type guardTr struct {
	ints  map[string]bool
	bools map[string]bool
	nilOf []string // variables that also occur through IsNil(): keep them as Int parameters too
}

func sanitize(s string) string {
	var b strings.Builder
	for _, r := range s {
		switch {
		case r >= 'a' && r <= 'z', r >= 'A' && r <= 'Z', r >= '0' && r <= '9':
			b.WriteRune(r)
		default:
			b.WriteByte('_')
		}
	}
	out := strings.Trim(b.String(), "_")
	for strings.Contains(out, "__") {
		out = strings.ReplaceAll(out, "__", "_")
	}
	if out == "" || (out[0] >= '0' && out[0] <= '9') {
		out = "v" + out
	}
	return out
}

func (g *guardTr) atom(e ast.Expr) (string, bool) {
	switch t := e.(type) {
	case *ast.ParenExpr:
		return g.atom(t.X)
	case *ast.BasicLit:
		if t.Kind == token.INT {
			return "(" + t.Value + " : Int)", true
		}
	case *ast.Ident:
		if t.Name == "nil" || t.Name == "true" || t.Name == "false" {
			return "", false
		}
		n := sanitize(t.Name)
		g.ints[n] = true
		return n, true
	case *ast.SelectorExpr:
		if _, ok := g.atom(t.X); ok {
			// a field path: one variable named after the whole path
			n := sanitize(longText(t))
			g.ints[n] = true
			delete(g.ints, sanitize(longText(t.X)))
			return n, true
		}
	case *ast.CallExpr:
		if len(t.Args) == 0 {
			switch txt := exprText(t.Fun); {
			case strings.HasSuffix(txt, ".ZeroInt"), strings.HasSuffix(txt, ".ZeroDec"), strings.HasSuffix(txt, ".LegacyZeroDec"):
				return "(0 : Int)", true
			case strings.HasSuffix(txt, ".OneInt"):
				return "(1 : Int)", true
			}
		}
		if id, ok := t.Fun.(*ast.Ident); ok && id.Name == "len" && len(t.Args) == 1 {
			n := "len_" + sanitize(longText(t.Args[0]))
			g.ints[n] = true
			return n, true
		}
	}
	return "", false
}

func isNil(e ast.Expr) bool {
	id, ok := e.(*ast.Ident)
	return ok && id.Name == "nil"
}

func (g *guardTr) cond(e ast.Expr) (string, bool) {
	switch t := e.(type) {
	case *ast.ParenExpr:
		return g.cond(t.X)
	case *ast.UnaryExpr:
		if t.Op == token.NOT {
			if x, ok := g.cond(t.X); ok {
				return "(!" + x + ")", true
			}
		}
	case *ast.Ident:
		if t.Name == "true" || t.Name == "false" {
			return t.Name, true
		}
		n := sanitize(t.Name) + "_flag"
		g.bools[n] = true
		return n, true
	case *ast.BinaryExpr:
		switch t.Op {
		case token.LAND, token.LOR:
			a, ok1 := g.cond(t.X)
			b, ok2 := g.cond(t.Y)
			if ok1 && ok2 {
				op := " && "
				if t.Op == token.LOR {
					op = " || "
				}
				return "(" + a + op + b + ")", true
			}
		case token.EQL, token.NEQ, token.LSS, token.LEQ, token.GTR, token.GEQ:
			if isNil(t.Y) || isNil(t.X) {
				x := t.X
				if isNil(t.X) {
					x = t.Y
				}
				n := sanitize(longText(x)) + "_isNil"
				g.bools[n] = true
				if t.Op == token.EQL {
					return n, true
				}
				if t.Op == token.NEQ {
					return "(!" + n + ")", true
				}
				return "", false
			}
			a, ok1 := g.atom(t.X)
			b, ok2 := g.atom(t.Y)
			if ok1 && ok2 {
				switch t.Op {
				case token.EQL:
					return "(" + a + " == " + b + ")", true
				case token.NEQ:
					return "(" + a + " != " + b + ")", true
				case token.LSS:
					return "(decide (" + a + " < " + b + "))", true
				case token.LEQ:
					return "(decide (" + a + " ≤ " + b + "))", true
				case token.GTR:
					return "(decide (" + b + " < " + a + "))", true
				case token.GEQ:
					return "(decide (" + b + " ≤ " + a + "))", true
				}
			}
		}
	case *ast.CallExpr:
		sel, ok := t.Fun.(*ast.SelectorExpr)
		if !ok {
			return "", false
		}
		x, ok := g.atom(sel.X)
		if !ok {
			return "", false
		}
		switch sel.Sel.Name {
		case "IsNil":
			if len(t.Args) == 0 {
				n := x + "_isNil"
				g.bools[n] = true
				delete(g.ints, x)
				g.nilOf = append(g.nilOf, x)
				return n, true
			}
		case "IsZero":
			if len(t.Args) == 0 {
				return "(" + x + " == 0)", true
			}
		case "IsPositive":
			if len(t.Args) == 0 {
				return "(decide (0 < " + x + "))", true
			}
		case "IsNegative":
			if len(t.Args) == 0 {
				return "(decide (" + x + " < 0))", true
			}
		case "GT", "GTE", "LT", "LTE", "Equal":
			if len(t.Args) == 1 {
				if y, ok := g.atom(t.Args[0]); ok {
					switch sel.Sel.Name {
					case "GT":
						return "(decide (" + y + " < " + x + "))", true
					case "GTE":
						return "(decide (" + y + " ≤ " + x + "))", true
					case "LT":
						return "(decide (" + x + " < " + y + "))", true
					case "LTE":
						return "(decide (" + x + " ≤ " + y + "))", true
					case "Equal":
						return "(" + x + " == " + y + ")", true
					}
				}
			}
		}
	}
	return "", false
}

// guardConds re-walks the ancestors like dominatingGuards but returns (expr, negated) pairs.
func guardConds(n ast.Node, stack []ast.Node) (out []struct {
	e   ast.Expr
	neg bool
}) {
	path := append(append([]ast.Node{}, stack...), n)
	push := func(e ast.Expr, neg bool) {
		out = append(out, struct {
			e   ast.Expr
			neg bool
		}{e, neg})
	}
	for i := 0; i+1 < len(path); i++ {
		child := path[i+1]
		var list []ast.Stmt
		switch t := path[i].(type) {
		case *ast.IfStmt:
			if child == ast.Node(t.Body) {
				push(t.Cond, false)
			} else if t.Else != nil && child == t.Else {
				push(t.Cond, true)
			}
		case *ast.BlockStmt:
			list = t.List
		case *ast.CaseClause:
			list = t.Body
		}
		for _, st := range list {
			if st == child {
				break
			}
			if ifs, ok := st.(*ast.IfStmt); ok && ifs.Else == nil && blockLeaves(ifs.Body) {
				push(ifs.Cond, true)
			}
		}
	}
	return
}

func init() {
	factGens = append(factGens, func(repo string, emit func(name, leanDef string, err error)) {
		type gk struct{ name, def, index string }
		var all []gk
		used := map[string]int{}
		guardSink = func(fn *xFunc, kind string, site ast.Node, _ []string, stack []ast.Node) {
			if kind != "quo" {
				return
			}
			g := &guardTr{ints: map[string]bool{}, bools: map[string]bool{}}
			var parts, dropped []string
			for _, c := range guardConds(site, stack) {
				// translate on a scratch copy so that a failed conjunct leaves no parameters behind
				tmp := &guardTr{ints: map[string]bool{}, bools: map[string]bool{}}
				x, ok := tmp.cond(c.e)
				if !ok {
					dropped = append(dropped, longText(c.e))
					continue
				}
				for k := range tmp.ints {
					g.ints[k] = true
				}
				for k := range tmp.bools {
					g.bools[k] = true
				}
				if c.neg {
					x = "(!" + x + ")"
				}
				parts = append(parts, x)
			}
			base := "quoGuard_" + sanitize(fn.Decl.Name.Name)
			used[base]++
			name := base
			if used[base] > 1 {
				name = fmt.Sprintf("%s_%d", base, used[base])
			}
			var ints, bools []string
			for k := range g.ints {
				ints = append(ints, k)
			}
			for k := range g.bools {
				bools = append(bools, k)
			}
			sort.Strings(ints)
			sort.Strings(bools)
			params := ""
			if len(ints) > 0 {
				params += " (" + strings.Join(ints, " ") + " : Int)"
			}
			if len(bools) > 0 {
				params += " (" + strings.Join(bools, " ") + " : Bool)"
			}
			body := "true"
			if len(parts) > 0 {
				body = strings.Join(parts, " && ")
			}
			divisor := ""
			if c, ok := site.(*ast.CallExpr); ok && len(c.Args) > 0 {
				divisor = longText(c.Args[0])
			}
			doc := fmt.Sprintf("/-- %s: %s — dominating guards of `%s` (divisor `%s`)", fn.File.Rel, fn.QName(), srcText(site), divisor)
			if len(dropped) > 0 {
				doc += "; conjuncts outside the translated subset left out: " + strings.Join(dropped, " | ")
			}
			doc += " -/"
			all = append(all, gk{name, doc + "\ndef " + name + params + " : Bool :=\n  " + body,
				fmt.Sprintf("%s:%s:%s | %s%s | divisor=%s", fn.File.Rel, fn.QName(), srcText(site), name, params, divisor)})
		}
		defer func() { guardSink = nil }()
		// run the liveness walk once more with the sink installed (the site list itself is emitted by
		// genLivenessFacts; here only the kernels are collected)
		genLivenessFacts(repo, func(string, string, error) {})
		var index []string
		for _, k := range all {
			emit(k.name, k.def, nil)
			index = append(index, k.index)
		}
		sort.Strings(index)
		var err error
		if len(all) == 0 {
			err = fmt.Errorf("no guarded Quo site found on block paths")
		}
		emit("quoGuardIndex", "/-- Quo site on a block path | its guard kernel and parameters | the divisor operand -/\ndef quoGuardIndex : List String := "+leanStrListNL(index), err)
	})
}
