package main

// Facts pinning the statement shape of x/delegation/keeper/update_native_restaking_balance.go:
// UpdateNSTBalance and of the two store loops it drives. The Lean model (Model/Ledger.lean: nstUpdate,
// nstDecrease, nstSlashRecords, nstSlashDelegated, nstSlashShares) is a hand transcription of this
// function; Props/C01NstTie.lean compares the regenerated skeletons with the literals the model was
// transcribed from, so an edit of the Go function (a dropped cap, a forgotten TotalDepositAmount, a
// reordered phase, a different isUndelegation flag, a write-back moved behind the break) breaks the tie.

import (
	"fmt"
	"go/ast"
	"go/token"
	"strings"
)

func init() {
	factGens = append(factGens, nstFacts)
}

// skeleton renders, in source order, the control-relevant statements of a function body:
//
//	if <cond>                      every if condition except `err != nil`
//	assign <lhs> <tok> <rhs>       assignments to the watched variables
//	call <Name>(<selected args>)   calls of the watched functions; composite-literal arguments are
//	                               rendered as Field=value lists
//	break / return <results>       loop exits and non-error returns
func skeleton(fset *token.FileSet, body ast.Node, watchVars map[string]bool, watchCalls map[string][]int) []string {
	var out []string
	txt := func(n ast.Node) string { return strings.ReplaceAll(nodeText(fset, n), " ", "") }
	argText := func(e ast.Expr) string {
		if cl, ok := e.(*ast.CompositeLit); ok {
			var fs []string
			for _, el := range cl.Elts {
				if kv, ok := el.(*ast.KeyValueExpr); ok {
					fs = append(fs, txt(kv.Key)+"="+txt(kv.Value))
				} else {
					fs = append(fs, txt(el))
				}
			}
			return "{" + strings.Join(fs, ",") + "}"
		}
		if _, ok := e.(*ast.FuncLit); ok {
			return "func"
		}
		return txt(e)
	}
	ast.Inspect(body, func(n ast.Node) bool {
		switch t := n.(type) {
		case *ast.IfStmt:
			if c := txt(t.Cond); c != "err!=nil" {
				out = append(out, "if "+c)
			}
		case *ast.AssignStmt:
			for i, l := range t.Lhs {
				if watchVars[txt(l)] && i < len(t.Rhs) {
					out = append(out, "assign "+txt(l)+" "+t.Tok.String()+" "+txt(t.Rhs[i]))
				}
			}
		case *ast.BranchStmt:
			out = append(out, t.Tok.String())
		case *ast.ReturnStmt:
			var rs []string
			for _, r := range t.Results {
				rs = append(rs, txt(r))
			}
			if s := strings.Join(rs, ","); !strings.Contains(s, "err") {
				out = append(out, "return "+s)
			}
		case *ast.CallExpr:
			name := ""
			switch f := t.Fun.(type) {
			case *ast.SelectorExpr:
				name = f.Sel.Name
			case *ast.Ident:
				name = f.Name
			}
			if idx, ok := watchCalls[name]; ok {
				var as []string
				for _, i := range idx {
					if i < len(t.Args) {
						as = append(as, argText(t.Args[i]))
					}
				}
				out = append(out, "call "+name+"("+strings.Join(as, ",")+")")
			}
		}
		return true
	})
	return out
}

func nstFacts(repo string, emit func(name, leanDef string, err error)) {
	const file = "x/delegation/keeper/update_native_restaking_balance.go"
	f, fset, err := parseRepoFile(repo, file)
	if err != nil {
		emit("nstMaxSlashProportion", "", err)
		emit("nstUpdateSkeleton", "", err)
	} else {
		// const MaxSlashProportion = 1
		val := ""
		ast.Inspect(f, func(n ast.Node) bool {
			vs, ok := n.(*ast.ValueSpec)
			if !ok {
				return true
			}
			for i, nm := range vs.Names {
				if nm.Name == "MaxSlashProportion" && i < len(vs.Values) {
					if bl, ok := vs.Values[i].(*ast.BasicLit); ok && bl.Kind == token.INT {
						val = bl.Value
					}
				}
			}
			return true
		})
		if val == "" {
			emit("nstMaxSlashProportion", "", fmt.Errorf("constant MaxSlashProportion not found as an integer literal"))
		} else {
			emit("nstMaxSlashProportion", "/-- "+file+": MaxSlashProportion -/\ndef nstMaxSlashProportion : Int := "+val, nil)
		}
		fd := findFunc(f, "Keeper.UpdateNSTBalance")
		if fd == nil {
			emit("nstUpdateSkeleton", "", fmt.Errorf("Keeper.UpdateNSTBalance not found"))
		} else {
			sk := skeleton(fset, fd.Body,
				map[string]bool{"slashFromWithdrawable": true, "pendingSlashAmount": true, "slashAmount": true,
					"undelegation.ActualCompletedAmount": true, "slashProportion": true, "slashShare": true, "totalDelegatedAmount": true},
				map[string][]int{
					"GetStakerSpecifiedAssetInfo":          {1, 2},
					"UpdateStakerAssetState":               {1, 2, 3},
					"IterateUndelegationsByStakerAndAsset": {1, 2, 3, 4},
					"TotalDelegatedAmountForStakerAsset":   {1, 2},
					"IterateDelegationsForStakerAndAsset":  {1, 2, 3},
					"RemoveShare":                          {1, 3, 4, 5},
				})
			emit("nstUpdateSkeleton", "/-- "+file+": UpdateNSTBalance — conditions, watched assignments and keeper calls in source order -/\ndef nstUpdateSkeleton : List String := "+leanStrList(sk), nil)
		}
	}
	// the loop of IterateUndelegationsByStakerAndAsset: read through the index, opFunc, write back, break
	func() {
		const file = "x/delegation/keeper/un_delegation_state.go"
		name := "nstRecordLoopSkeleton"
		f, fset, err := parseRepoFile(repo, file)
		if err != nil {
			emit(name, "", err)
			return
		}
		fd := findFunc(f, "Keeper.IterateUndelegationsByStakerAndAsset")
		if fd == nil {
			emit(name, "", fmt.Errorf("Keeper.IterateUndelegationsByStakerAndAsset not found"))
			return
		}
		sk := skeleton(fset, fd.Body, map[string]bool{"store": true, "iterator": true, "undelegationInfoStore": true, "infoValue": true},
			map[string][]int{"opFunc": {0, 1}, "Set": {0}, "IteratorPrefixForStakerAsset": {0, 1}})
		emit(name, "/-- "+file+": IterateUndelegationsByStakerAndAsset — stores, prefix, per-entry statements in source order -/\ndef "+name+" : List String := "+leanStrList(sk), nil)
	}()
	// the loop of IterateDelegations and the prefix used by IterateDelegationsForStakerAndAsset
	func() {
		const file = "x/delegation/keeper/delegation_state.go"
		name := "nstDelegationLoopSkeleton"
		f, fset, err := parseRepoFile(repo, file)
		if err != nil {
			emit(name, "", err)
			return
		}
		fd, fd2 := findFunc(f, "Keeper.IterateDelegations"), findFunc(f, "Keeper.IterateDelegationsForStakerAndAsset")
		if fd == nil || fd2 == nil {
			emit(name, "", fmt.Errorf("Keeper.IterateDelegations / IterateDelegationsForStakerAndAsset not found"))
			return
		}
		watch := map[string][]int{"opFunc": {0, 1}, "Set": {0}, "IterateDelegations": {1, 2}, "IteratorPrefixForStakerAsset": {0, 1}}
		sk := append(skeleton(fset, fd2.Body, map[string]bool{}, watch), skeleton(fset, fd.Body, map[string]bool{"store": true, "iterator": true}, watch)...)
		emit(name, "/-- "+file+": IterateDelegationsForStakerAndAsset + IterateDelegations — prefix and per-entry statements in source order -/\ndef "+name+" : List String := "+leanStrList(sk), nil)
	}()
	// the iterator prefix ends with the key separator (otherwise "…/0x1" would also match asset "…/0x10")
	func() {
		const file = "x/delegation/types/keys.go"
		name := "nstIteratorPrefix"
		f, fset, err := parseRepoFile(repo, file)
		if err != nil {
			emit(name, "", err)
			return
		}
		fd := findFunc(f, "IteratorPrefixForStakerAsset")
		if fd == nil {
			emit(name, "", fmt.Errorf("IteratorPrefixForStakerAsset not found"))
			return
		}
		var lines []string
		for _, st := range fd.Body.List {
			lines = append(lines, strings.ReplaceAll(nodeText(fset, st), " ", ""))
		}
		emit(name, "/-- "+file+": IteratorPrefixForStakerAsset, statement by statement -/\ndef "+name+" : List String := "+leanStrList(lines), nil)
	}()
}
