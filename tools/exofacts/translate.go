package main

// GoLite -> Lean translator for the arithmetic / decision kernels the property theorems are
// stated about. It accepts a small, explicitly whitelisted subset of Go (see DESIGN §1.3) and
// FAILS CLOSED on anything else: an unknown statement, method, function or type aborts the
// kernel with an error that ./check reports as a broken obligation.
//
// Supported: parameters / locals of type sdkmath.Int, *big.Int, sized ints (-> Int),
// sdkmath.LegacyDec (-> ExoVerif.Dec), bool, string, time.Time / time.Duration (-> Int, ns),
// whitelisted struct values (field read / field assignment); `:=`, `=`, `+=`, `-=`, `++`;
// if / else-if / else with an optional `err := call()` initialiser; early `return`;
// expression statements that are either whitelisted "effects" (appended to an event list) or
// whitelisted no-ops (logging, event emission). Control flow is translated in
// continuation-passing style: the statements after an `if` are duplicated into both branches,
// which is always semantics-preserving for this subset (no loops, no goto).

import (
	"fmt"
	"go/ast"
	"go/parser"
	"go/token"
	"strconv"
	"strings"
)

type fieldInfo struct {
	lean string // lean field name
	ty   string
}

type callRule struct {
	// lean template: $r receiver, $1..$n args
	tmpl string
	ty   string
}

type Kernel struct {
	Name     string   // lean def name
	File     string   // repo-relative
	Func     string   // function name, or Recv.Method
	Closure  bool     // translate the first func literal found inside Func instead of Func itself
	Params   []string // lean binder text, e.g. "(e : ExoVerif.Epochs.EpochInfo)"
	RetType  string
	Vars     map[string]string // go var -> lean type at entry (the go name is kept as lean name unless renamed)
	Rename   map[string]string // go var -> lean name
	Prelude  []string          // lean `let` lines inserted first
	RetMode  string            // value | valueErr | errOnly | custom
	RetExpr  string            // errOnly / custom: lean expression returned on success (may mention vars)
	RetNil   string            // custom: lean expression for `return nil` (default: RetExpr)
	FallThru string            // what falling off the end returns (lean expr); default = RetExpr
	Effects  map[string]string // call selector text -> lean template pushed on `evs`
	Skips    []string          // call selector prefixes translated to nothing
	Calls    map[string]callRule
	ErrCalls map[string]string // `err := X(..)` initialisers: selector text -> lean Bool expr "call failed"
	Stores   map[string]string // call selector text -> "var := $1" style store effects: lean var to assign from arg index
}

type trErr struct{ msg string }

func (e trErr) Error() string { return e.msg }

func failf(f string, a ...interface{}) { panic(trErr{fmt.Sprintf(f, a...)}) }

type tr struct {
	k      *Kernel
	fset   *token.FileSet
	ty     map[string]string // lean var name -> type
	rename map[string]string
	big    map[string]bool // lean var name -> holds an sdkmath.Int / *big.Int / time.Time (see isBig)
}

var structs = map[string]map[string]fieldInfo{
	"ExoVerif.Epochs.EpochInfo": {
		"Identifier":              {"identifier", "String"},
		"StartTime":               {"startTime", "Int"},
		"Duration":                {"duration", "Int"},
		"CurrentEpoch":            {"currentEpoch", "Int"},
		"CurrentEpochStartTime":   {"currentEpochStartTime", "Int"},
		"EpochCountingStarted":    {"epochCountingStarted", "Bool"},
		"CurrentEpochStartHeight": {"currentEpochStartHeight", "Int"},
	},
}

// methods by receiver type
var methods = map[string]map[string]callRule{
	"Int": {
		"Add": {"($r + $1)", "Int"}, "Sub": {"($r - $1)", "Int"}, "Mul": {"($r * $1)", "Int"},
		"Quo": {"(Int.tdiv $r $1)", "Int"}, "Neg": {"(- $r)", "Int"}, "Abs": {"(Int.ofNat (Int.natAbs $r))", "Int"},
		"IsZero": {"($r == 0)", "Bool"}, "IsPositive": {"(decide (0 < $r))", "Bool"}, "IsNegative": {"(decide ($r < 0))", "Bool"},
		"GT": {"(decide ($1 < $r))", "Bool"}, "GTE": {"(decide ($1 ≤ $r))", "Bool"}, "LT": {"(decide ($r < $1))", "Bool"},
		"LTE": {"(decide ($r ≤ $1))", "Bool"}, "Equal": {"($r == $1)", "Bool"}, "BigInt": {"$r", "Int"}, "IsNil": {"false", "Bool"},
		"Cmp": {"(if $r < $1 then (-1 : Int) else if $r == $1 then 0 else 1)", "Int"},
		"Sign": {"(if $r < 0 then (-1 : Int) else if $r == 0 then 0 else 1)", "Int"},
		"Int64": {"$r", "Int"}, "Uint64": {"$r", "Int"},
		"IsInt64": {"(decide ((-9223372036854775808 : Int) ≤ $r ∧ $r ≤ (9223372036854775807 : Int)))", "Bool"},
		// time.Time / Duration share the Int representation
		"Before": {"(decide ($r < $1))", "Bool"}, "After": {"(decide ($1 < $r))", "Bool"},
		"Unix": {"($r / 1000000000)", "Int"}, // floor: Time.Unix() of a pre-1970 instant rounds down (Int `/` is Euclidean)
	},
	"Dec": {
		"Add": {"(ExoVerif.Dec.add $r $1)", "Dec"}, "Sub": {"(ExoVerif.Dec.sub $r $1)", "Dec"},
		"Mul": {"(ExoVerif.Dec.mul $r $1)", "Dec"}, "MulTruncate": {"(ExoVerif.Dec.mulTruncate $r $1)", "Dec"},
		"MulInt": {"(ExoVerif.Dec.mulInt $r $1)", "Dec"}, "MulInt64": {"(ExoVerif.Dec.mulInt $r $1)", "Dec"},
		"Quo": {"(ExoVerif.Dec.quo $r $1)", "Dec"}, "QuoTruncate": {"(ExoVerif.Dec.quoTruncate $r $1)", "Dec"},
		"QuoRoundUp": {"(ExoVerif.Dec.quoRoundUp $r $1)", "Dec"},
		"QuoInt": {"(ExoVerif.Dec.quoInt $r $1)", "Dec"}, "QuoInt64": {"(ExoVerif.Dec.quoInt $r $1)", "Dec"},
		"Neg": {"(ExoVerif.Dec.neg $r)", "Dec"}, "TruncateInt": {"(ExoVerif.Dec.truncateInt $r)", "Int"},
		"RoundInt": {"(ExoVerif.Dec.roundInt $r)", "Int"}, "TruncateInt64": {"(ExoVerif.Dec.truncateInt $r)", "Int"},
		"IsZero": {"(ExoVerif.Dec.isZero $r)", "Bool"}, "IsPositive": {"(ExoVerif.Dec.isPositive $r)", "Bool"},
		"IsNegative": {"(ExoVerif.Dec.isNegative $r)", "Bool"}, "IsNil": {"false", "Bool"},
		"GT": {"(ExoVerif.Dec.gt $r $1)", "Bool"}, "GTE": {"(ExoVerif.Dec.gte $r $1)", "Bool"},
		"LT": {"(ExoVerif.Dec.lt $r $1)", "Bool"}, "LTE": {"(ExoVerif.Dec.lte $r $1)", "Bool"},
		"Equal": {"(ExoVerif.Dec.eq $r $1)", "Bool"},
	},
}

// package-level functions
var funcs = map[string]callRule{
	"sdkmath.NewInt": {"$1", "Int"}, "math.NewInt": {"$1", "Int"}, "sdk.NewInt": {"$1", "Int"},
	"sdkmath.ZeroInt": {"(0 : Int)", "Int"}, "sdkmath.OneInt": {"(1 : Int)", "Int"}, "math.ZeroInt": {"(0 : Int)", "Int"}, "math.OneInt": {"(1 : Int)", "Int"},
	"sdk.ZeroInt": {"(0 : Int)", "Int"}, "sdk.OneInt": {"(1 : Int)", "Int"},
	"sdkmath.NewIntWithDecimal": {"($1 * (10 : Int) ^ (Int.toNat $2))", "Int"},
	"sdkmath.NewIntFromBigInt":  {"$1", "Int"}, "sdkmath.NewIntFromUint64": {"$1", "Int"},
	"sdkmath.LegacyNewDecFromBigInt": {"(ExoVerif.Dec.ofInt $1)", "Dec"}, "sdkmath.LegacyNewDecFromInt": {"(ExoVerif.Dec.ofInt $1)", "Dec"},
	"sdk.NewDecFromInt": {"(ExoVerif.Dec.ofInt $1)", "Dec"}, "sdk.NewDecFromBigInt": {"(ExoVerif.Dec.ofInt $1)", "Dec"},
	"sdkmath.LegacyNewDec": {"(ExoVerif.Dec.ofInt $1)", "Dec"}, "sdk.NewDec": {"(ExoVerif.Dec.ofInt $1)", "Dec"},
	"sdkmath.LegacyZeroDec": {"ExoVerif.Dec.zero", "Dec"}, "sdkmath.LegacyOneDec": {"ExoVerif.Dec.one", "Dec"},
	"sdk.ZeroDec": {"ExoVerif.Dec.zero", "Dec"}, "sdk.OneDec": {"ExoVerif.Dec.one", "Dec"},
	"sdkmath.LegacyMinDec": {"(ExoVerif.Dec.minDec $1 $2)", "Dec"}, "sdkmath.LegacyMaxDec": {"(ExoVerif.Dec.maxDec $1 $2)", "Dec"},
	"sdk.MinDec": {"(ExoVerif.Dec.minDec $1 $2)", "Dec"}, "sdk.MaxDec": {"(ExoVerif.Dec.maxDec $1 $2)", "Dec"},
	"sdkmath.MinInt": {"(if $1 < $2 then $1 else $2)", "Int"}, "sdkmath.MaxInt": {"(if $1 < $2 then $2 else $1)", "Int"},
	"int": {"$1", "Int"}, "int64": {"$1", "Int"}, "uint64": {"$1", "Int"}, "uint32": {"$1", "Int"}, "int32": {"$1", "Int"}, "uint8": {"$1", "Int"},
}

func goTypeToLean(e ast.Expr) string {
	switch t := e.(type) {
	case *ast.StarExpr:
		return goTypeToLean(t.X)
	case *ast.Ident:
		switch t.Name {
		case "int", "int8", "int16", "int32", "int64", "uint", "uint8", "uint16", "uint32", "uint64":
			return "Int"
		case "bool":
			return "Bool"
		case "string":
			return "String"
		}
	case *ast.SelectorExpr:
		s := exprText(t)
		switch s {
		case "sdkmath.Int", "math.Int", "sdk.Int", "big.Int":
			return "Int"
		case "sdkmath.LegacyDec", "math.LegacyDec", "sdk.Dec":
			return "Dec"
		case "time.Time", "time.Duration":
			return "Int"
		}
	}
	return ""
}

func exprText(e ast.Expr) string {
	switch t := e.(type) {
	case *ast.Ident:
		return t.Name
	case *ast.SelectorExpr:
		return exprText(t.X) + "." + t.Sel.Name
	case *ast.CallExpr:
		return exprText(t.Fun) + "()"
	case *ast.StarExpr:
		return "*" + exprText(t.X)
	case *ast.ParenExpr:
		return exprText(t.X)
	}
	return fmt.Sprintf("<%T>", e)
}

func lowerFirst(s string) string {
	if s == "" {
		return s
	}
	return strings.ToLower(s[:1]) + s[1:]
}

func (t *tr) leanVar(goName string) string {
	if r, ok := t.rename[goName]; ok {
		return r
	}
	return goName
}

func subst(tmpl, recv string, args []string) string {
	out := strings.ReplaceAll(tmpl, "$r", recv)
	for i := len(args); i >= 1; i-- {
		out = strings.ReplaceAll(out, "$"+strconv.Itoa(i), args[i-1])
	}
	if strings.Contains(out, "$") {
		failf("template %q: missing argument", tmpl)
	}
	return out
}

func (t *tr) expr(e ast.Expr) (string, string) {
	switch x := e.(type) {
	case *ast.ParenExpr:
		s, ty := t.expr(x.X)
		return "(" + s + ")", ty
	case *ast.BasicLit:
		switch x.Kind {
		case token.INT:
			v := strings.ReplaceAll(x.Value, "_", "")
			return "(" + v + " : Int)", "Int"
		case token.STRING:
			return x.Value, "String"
		}
		failf("literal %s", x.Value)
	case *ast.Ident:
		switch x.Name {
		case "true", "false":
			return x.Name, "Bool"
		case "nil":
			return "nil", "Nil"
		}
		v := t.leanVar(x.Name)
		ty, ok := t.ty[v]
		if !ok {
			failf("unknown variable %s", x.Name)
		}
		return v, ty
	case *ast.StarExpr:
		return t.expr(x.X)
	case *ast.UnaryExpr:
		s, ty := t.expr(x.X)
		switch x.Op {
		case token.NOT:
			if ty != "Bool" {
				failf("! on %s", ty)
			}
			return "(!" + s + ")", "Bool"
		case token.SUB:
			return "(- " + s + ")", ty
		case token.AND:
			return s, ty
		}
		failf("unary %s", x.Op)
	case *ast.BinaryExpr:
		a, ta := t.expr(x.X)
		b, tb := t.expr(x.Y)
		if ta == "Nil" || tb == "Nil" { // pointer nil checks on value-modelled pointers
			if ta == "Nil" && tb == "Nil" {
				failf("nil == nil")
			}
			switch x.Op {
			case token.EQL:
				return "false", "Bool"
			case token.NEQ:
				return "true", "Bool"
			}
			failf("nil comparison %s", x.Op)
		}
		if ta != tb {
			failf("binary %s on %s and %s (%s)", x.Op, ta, tb, exprText(x.X))
		}
		if ta == "Int" && (x.Op == token.EQL || x.Op == token.NEQ) && (t.isBig(x.X) || t.isBig(x.Y)) {
			failf("%s on sdkmath.Int / *big.Int / time.Time values compares pointers; use Equal / Cmp", x.Op)
		}
		if ta == "Dec" && (x.Op == token.EQL || x.Op == token.NEQ) {
			// Go compares the *big.Int pointers of two LegacyDec structs, not their values
			failf("%s on LegacyDec compares pointers; use Equal", x.Op)
		}
		switch x.Op {
		case token.LAND:
			return "(" + a + " && " + b + ")", "Bool"
		case token.LOR:
			return "(" + a + " || " + b + ")", "Bool"
		case token.EQL:
			return "(" + a + " == " + b + ")", "Bool"
		case token.NEQ:
			return "(" + a + " != " + b + ")", "Bool"
		}
		if ta != "Int" {
			failf("arithmetic/comparison %s on %s", x.Op, ta)
		}
		switch x.Op {
		case token.LSS:
			return "(decide (" + a + " < " + b + "))", "Bool"
		case token.LEQ:
			return "(decide (" + a + " ≤ " + b + "))", "Bool"
		case token.GTR:
			return "(decide (" + b + " < " + a + "))", "Bool"
		case token.GEQ:
			return "(decide (" + b + " ≤ " + a + "))", "Bool"
		case token.ADD:
			return "(" + a + " + " + b + ")", "Int"
		case token.SUB:
			return "(" + a + " - " + b + ")", "Int"
		case token.MUL:
			return "(" + a + " * " + b + ")", "Int"
		case token.QUO:
			return "(Int.tdiv " + a + " " + b + ")", "Int"
		case token.REM:
			return "(Int.tmod " + a + " " + b + ")", "Int"
		}
		failf("binary op %s", x.Op)
	case *ast.SelectorExpr:
		// struct field read, or a whitelisted constant
		txt := exprText(x)
		if r, ok := t.k.Calls[txt]; ok {
			return r.tmpl, r.ty
		}
		s, ty := t.expr(x.X)
		fs, ok := structs[ty]
		if !ok {
			failf("field %s of non-struct %s", x.Sel.Name, ty)
		}
		fi, ok := fs[x.Sel.Name]
		if !ok {
			failf("unknown field %s.%s", ty, x.Sel.Name)
		}
		return s + "." + fi.lean, fi.ty
	case *ast.CallExpr:
		return t.call(x)
	}
	failf("unsupported expression %T (%s)", e, exprText(e))
	return "", ""
}

func (t *tr) call(c *ast.CallExpr) (string, string) {
	txt := exprText(c.Fun)
	var args []string
	argsOf := func() []string {
		if args == nil {
			for _, a := range c.Args {
				s, _ := t.expr(a)
				args = append(args, s)
			}
		}
		return args
	}
	if r, ok := t.k.Calls[txt]; ok {
		return subst(r.tmpl, "", argsOf()), r.ty
	}
	if r, ok := funcs[txt]; ok {
		checkArity(txt, r.tmpl, len(c.Args))
		return subst(r.tmpl, "", argsOf()), r.ty
	}
	if sel, ok := c.Fun.(*ast.SelectorExpr); ok {
		recv, rty := t.expr(sel.X)
		if ms, ok := methods[rty]; ok {
			if r, ok := ms[sel.Sel.Name]; ok {
				checkArity(rty+"."+sel.Sel.Name, r.tmpl, len(c.Args))
				return subst(r.tmpl, recv, argsOf()), r.ty
			}
		}
		failf("unknown method %s.%s", rty, sel.Sel.Name)
	}
	failf("unknown function %s", txt)
	return "", ""
}

// checkArity: a table template mentions exactly its arguments $1..$n; a call with another number of arguments
// is a different Go function of the same name (x.Add(a) of sdkmath.Int vs z.Add(x, y) of *big.Int).
func checkArity(name, tmpl string, got int) {
	want := 0
	for i := 1; i <= 9; i++ {
		if strings.Contains(tmpl, "$"+strconv.Itoa(i)) {
			want = i
		}
	}
	if want != got {
		failf("%s takes %d argument(s) in the whitelist, called with %d", name, want, got)
	}
}

func (t *tr) isSkip(txt string) bool {
	for _, p := range t.k.Skips {
		if strings.HasPrefix(txt, p) {
			return true
		}
	}
	return false
}

// errName extracts the sentinel from `pkg.ErrX`, `errorsmod.Wrap(pkg.ErrX, …)`, `errors.New("…")`.
func errName(e ast.Expr) string {
	switch x := e.(type) {
	case *ast.SelectorExpr:
		return x.Sel.Name
	case *ast.Ident:
		return x.Name
	case *ast.CallExpr:
		f := exprText(x.Fun)
		if (strings.HasSuffix(f, ".Wrap") || strings.HasSuffix(f, ".Wrapf")) && len(x.Args) > 0 {
			return errName(x.Args[0])
		}
		if (f == "errors.New" || f == "fmt.Errorf") && len(x.Args) > 0 {
			if bl, ok := x.Args[0].(*ast.BasicLit); ok {
				s, _ := strconv.Unquote(bl.Value)
				return s
			}
		}
	}
	failf("unsupported error expression %s", exprText(e))
	return ""
}

func (t *tr) clone() *tr {
	n := &tr{k: t.k, fset: t.fset, ty: map[string]string{}, rename: t.rename}
	for k, v := range t.ty {
		n.ty[k] = v
	}
	if t.big != nil {
		n.big = map[string]bool{}
		for k, v := range t.big {
			n.big[k] = v
		}
	}
	return n
}

// isBigType: Go types that the translator models as Int but whose values are structs / pointers around a
// *big.Int (or a time.Time): Go's `==` on them compares pointers, not numbers.
func isBigType(e ast.Expr) bool {
	if st, ok := e.(*ast.StarExpr); ok {
		e = st.X
	}
	if sel, ok := e.(*ast.SelectorExpr); ok {
		switch exprText(sel) {
		case "sdkmath.Int", "math.Int", "sdk.Int", "big.Int", "time.Time":
			return true
		}
	}
	return false
}

// isBig: is this Int-typed expression syntactically known to be such a value (a variable declared or assigned
// as one, a constructor of the math packages, an arithmetic method result)?
func (t *tr) isBig(e ast.Expr) bool {
	switch x := e.(type) {
	case *ast.ParenExpr:
		return t.isBig(x.X)
	case *ast.StarExpr:
		return t.isBig(x.X)
	case *ast.UnaryExpr:
		return x.Op == token.AND && t.isBig(x.X)
	case *ast.Ident:
		return t.big[t.leanVar(x.Name)]
	case *ast.CallExpr:
		txt := exprText(x.Fun)
		if r, ok := funcs[txt]; ok && r.ty == "Int" {
			for _, p := range []string{"sdkmath.", "math.", "sdk.", "big."} {
				if strings.HasPrefix(txt, p) {
					return true
				}
			}
			return false
		}
		if sel, ok := x.Fun.(*ast.SelectorExpr); ok {
			switch sel.Sel.Name {
			case "Add", "Sub", "Mul", "Quo", "Div", "Neg", "Abs", "BigInt", "TruncateInt", "RoundInt", "UTC":
				return true
			}
		}
	}
	return false
}

func (t *tr) setBig(lhs ast.Expr, big bool) {
	if st, ok := lhs.(*ast.StarExpr); ok {
		lhs = st.X
	}
	if id, ok := lhs.(*ast.Ident); ok && id.Name != "_" {
		if t.big == nil {
			t.big = map[string]bool{}
		}
		t.big[t.leanVar(id.Name)] = big
	}
}

func ind(n int) string { return strings.Repeat("  ", n) }

// stmts translates a statement list followed by continuation `rest` (more statement lists,
// innermost first). Returns a Lean expression.
func (t *tr) stmts(list []ast.Stmt, rest [][]ast.Stmt, d int) string {
	if len(list) == 0 {
		if len(rest) == 0 {
			return ind(d) + t.fallThrough()
		}
		return t.stmts(rest[0], rest[1:], d)
	}
	s := list[0]
	tail := list[1:]
	switch x := s.(type) {
	case *ast.ReturnStmt:
		return ind(d) + t.ret(x)
	case *ast.DeclStmt:
		gd, ok := x.Decl.(*ast.GenDecl)
		if !ok || gd.Tok != token.VAR {
			failf("unsupported declaration")
		}
		var lets string
		for _, sp := range gd.Specs {
			vs := sp.(*ast.ValueSpec)
			ty := goTypeToLean(vs.Type)
			for i, n := range vs.Names {
				if i < len(vs.Values) {
					v, vty := t.expr(vs.Values[i])
					t.setBig(n, (vs.Type != nil && isBigType(vs.Type)) || t.isBig(vs.Values[i]))
					t.ty[t.leanVar(n.Name)] = vty
					lets += ind(d) + "let " + t.leanVar(n.Name) + " := " + v + "\n"
				} else {
					if ty == "" {
						failf("var %s: unsupported type", n.Name)
					}
					t.setBig(n, isBigType(vs.Type))
					zero := map[string]string{"Int": "(0 : Int)", "Dec": "ExoVerif.Dec.zero", "Bool": "false", "String": "\"\""}[ty]
					t.ty[t.leanVar(n.Name)] = ty
					lets += ind(d) + "let " + t.leanVar(n.Name) + " : " + leanTy(ty) + " := " + zero + "\n"
				}
			}
		}
		return lets + t.stmts(tail, rest, d)
	case *ast.AssignStmt:
		return t.assign(x, d) + t.stmts(tail, rest, d)
	case *ast.IncDecStmt:
		one := "1"
		op := " + "
		if x.Tok == token.DEC {
			op = " - "
		}
		cur, _ := t.expr(x.X)
		return t.assignTo(x.X, "("+cur+op+one+")", "Int", d) + t.stmts(tail, rest, d)
	case *ast.ExprStmt:
		c, ok := x.X.(*ast.CallExpr)
		if !ok {
			failf("expression statement %s", exprText(x.X))
		}
		txt := exprText(c.Fun)
		if tmpl, ok := t.k.Effects[txt]; ok {
			var args []string
			for _, a := range c.Args {
				if id, ok := a.(*ast.Ident); ok && id.Name == "ctx" {
					args = append(args, "ctx")
					continue
				}
				sv, _ := t.expr(a)
				args = append(args, sv)
			}
			return ind(d) + "let evs := evs ++ [" + subst(tmpl, "", args) + "]\n" + t.stmts(tail, rest, d)
		}
		if st, ok := t.k.Stores[txt]; ok {
			// "dst=argIndex"
			parts := strings.Split(st, "=")
			idx, _ := strconv.Atoi(parts[1])
			sv, sty := t.expr(c.Args[idx])
			t.ty[parts[0]] = sty
			return ind(d) + "let " + parts[0] + " := " + sv + "\n" + t.stmts(tail, rest, d)
		}
		if t.isSkip(txt) {
			return t.stmts(tail, rest, d)
		}
		failf("call statement %s is neither an effect nor a whitelisted no-op", txt)
	case *ast.IfStmt:
		return t.ifStmt(x, tail, rest, d)
	case *ast.BlockStmt:
		return t.stmts(x.List, append([][]ast.Stmt{tail}, rest...), d)
	case *ast.DeferStmt:
		c := exprText(x.Call.Fun)
		if t.isSkip(c) {
			return t.stmts(tail, rest, d)
		}
		failf("defer %s", c)
	}
	failf("unsupported statement %T", s)
	return ""
}

func leanTy(ty string) string {
	if ty == "Dec" {
		return "ExoVerif.Dec"
	}
	return ty
}

func (t *tr) ifStmt(x *ast.IfStmt, tail []ast.Stmt, rest [][]ast.Stmt, d int) string {
	var cond string
	if x.Init != nil {
		as, ok := x.Init.(*ast.AssignStmt)
		if !ok || len(as.Lhs) != 1 || len(as.Rhs) != 1 {
			failf("unsupported if-initialiser")
		}
		call, ok := as.Rhs[0].(*ast.CallExpr)
		lhs, ok2 := as.Lhs[0].(*ast.Ident)
		if !ok || !ok2 {
			failf("unsupported if-initialiser")
		}
		failed, ok := t.k.ErrCalls[exprText(call.Fun)]
		if !ok {
			failf("if-initialiser call %s not whitelisted", exprText(call.Fun))
		}
		// condition must be `err != nil` / `err == nil`
		be, ok := x.Cond.(*ast.BinaryExpr)
		if !ok || exprText(be.X) != lhs.Name || exprText(be.Y) != "nil" {
			failf("unsupported condition after if-initialiser")
		}
		var args []string
		for _, a := range call.Args {
			sv, _ := t.expr(a)
			args = append(args, sv)
		}
		recv := ""
		if sel, ok := call.Fun.(*ast.SelectorExpr); ok {
			if id, ok := sel.X.(*ast.Ident); ok {
				if _, known := t.ty[t.leanVar(id.Name)]; known {
					recv = t.leanVar(id.Name)
				}
			}
		}
		c := subst(failed, recv, args)
		if be.Op == token.NEQ {
			cond = c
		} else if be.Op == token.EQL {
			cond = "(!" + c + ")"
		} else {
			failf("unsupported condition after if-initialiser")
		}
	} else {
		c, ty := t.expr(x.Cond)
		if ty != "Bool" {
			failf("if condition of type %s", ty)
		}
		cond = c
	}
	cont := append([][]ast.Stmt{tail}, rest...)
	thenT := t.clone()
	thenS := thenT.stmts(x.Body.List, cont, d+1)
	elseT := t.clone()
	var elseS string
	switch e := x.Else.(type) {
	case nil:
		elseS = elseT.stmts(nil, cont, d+1)
	case *ast.BlockStmt:
		elseS = elseT.stmts(e.List, cont, d+1)
	case *ast.IfStmt:
		elseS = elseT.ifStmt(e, tail, rest, d+1)
	default:
		failf("unsupported else")
	}
	return ind(d) + "if " + cond + " then\n" + thenS + "\n" + ind(d) + "else\n" + elseS
}

func (t *tr) assignTo(lhs ast.Expr, val, vty string, d int) string {
	switch l := lhs.(type) {
	case *ast.Ident:
		if l.Name == "_" {
			return ""
		}
		v := t.leanVar(l.Name)
		t.ty[v] = vty
		return ind(d) + "let " + v + " := " + val + "\n"
	case *ast.StarExpr:
		return t.assignTo(l.X, val, vty, d)
	case *ast.SelectorExpr:
		base, bty := t.expr(l.X)
		fs, ok := structs[bty]
		if !ok {
			failf("field assignment on %s", bty)
		}
		fi, ok := fs[l.Sel.Name]
		if !ok {
			failf("unknown field %s", l.Sel.Name)
		}
		if fi.ty != vty {
			failf("assigning %s to field %s of type %s", vty, l.Sel.Name, fi.ty)
		}
		if _, isIdent := l.X.(*ast.Ident); !isIdent {
			failf("nested field assignment")
		}
		return ind(d) + "let " + base + " := { " + base + " with " + fi.lean + " := " + val + " }\n"
	}
	failf("unsupported assignment target %s", exprText(lhs))
	return ""
}

func (t *tr) assign(x *ast.AssignStmt, d int) string {
	if len(x.Lhs) != len(x.Rhs) {
		failf("multi-value assignment")
	}
	if len(x.Lhs) != 1 {
		// Go evaluates every right-hand side before it assigns (a, b = b, a swaps); sequential lets would not
		failf("parallel assignment")
	}
	out := ""
	for i := range x.Lhs {
		v, vty := t.expr(x.Rhs[i])
		if x.Tok == token.DEFINE || x.Tok == token.ASSIGN {
			t.setBig(x.Lhs[i], vty == "Int" && t.isBig(x.Rhs[i]))
		}
		switch x.Tok {
		case token.DEFINE, token.ASSIGN:
		case token.ADD_ASSIGN, token.SUB_ASSIGN, token.MUL_ASSIGN:
			cur, cty := t.expr(x.Lhs[i])
			if cty != "Int" || vty != "Int" {
				failf("compound assignment on %s", cty)
			}
			op := map[token.Token]string{token.ADD_ASSIGN: " + ", token.SUB_ASSIGN: " - ", token.MUL_ASSIGN: " * "}[x.Tok]
			v = "(" + cur + op + v + ")"
		default:
			failf("assignment op %s", x.Tok)
		}
		out += t.assignTo(x.Lhs[i], v, vty, d)
	}
	return out
}

func (t *tr) fallThrough() string {
	if t.k.FallThru != "" {
		return t.k.FallThru
	}
	if t.k.RetMode == "errOnly" || t.k.RetMode == "custom" {
		return t.retOK()
	}
	failf("function may fall off its end")
	return ""
}

func (t *tr) retOK() string {
	switch t.k.RetMode {
	case "errOnly":
		return "Except.ok " + t.k.RetExpr
	case "custom":
		return t.k.RetExpr
	}
	failf("retOK in mode %s", t.k.RetMode)
	return ""
}

func (t *tr) ret(r *ast.ReturnStmt) string {
	switch t.k.RetMode {
	case "value":
		if len(r.Results) != 1 {
			failf("return arity")
		}
		v, _ := t.expr(r.Results[0])
		return v
	case "valueErr":
		if len(r.Results) != 2 {
			failf("return arity (want value, error)")
		}
		if exprText(r.Results[1]) == "nil" {
			v, _ := t.expr(r.Results[0])
			return "Except.ok " + v
		}
		return "Except.error \"" + errName(r.Results[1]) + "\""
	case "errOnly":
		if len(r.Results) != 1 {
			failf("return arity (want error)")
		}
		if exprText(r.Results[0]) == "nil" {
			return t.retOK()
		}
		return "Except.error \"" + errName(r.Results[0]) + "\""
	case "custom":
		if t.k.RetNil != "" && len(r.Results) == 1 && exprText(r.Results[0]) == "nil" {
			return t.k.RetNil
		}
		return t.retOK()
	}
	failf("unknown return mode %s", t.k.RetMode)
	return ""
}

// checkNoShadowing rejects a `:=` / `var` in a nested block that re-declares a name of an enclosing scope.
// The continuation-passing translation turns every declaration into a `let` that stays visible in the
// duplicated continuation, which is only right when the name is new (Go would restore the outer variable at
// the end of the block).
func checkNoShadowing(body *ast.BlockStmt, outer []string) {
	type scope map[string]bool
	var walk func(list []ast.Stmt, scopes []scope)
	declare := func(name string, scopes []scope) {
		if name == "_" {
			return
		}
		for _, sc := range scopes[:len(scopes)-1] {
			if sc[name] {
				failf("declaration of %s shadows a variable of an enclosing scope", name)
			}
		}
		scopes[len(scopes)-1][name] = true
	}
	var stmt func(s ast.Stmt, scopes []scope)
	stmt = func(s ast.Stmt, scopes []scope) {
		switch x := s.(type) {
		case *ast.AssignStmt:
			if x.Tok == token.DEFINE {
				for _, l := range x.Lhs {
					if id, ok := l.(*ast.Ident); ok {
						declare(id.Name, scopes)
					}
				}
			}
		case *ast.DeclStmt:
			if gd, ok := x.Decl.(*ast.GenDecl); ok {
				for _, sp := range gd.Specs {
					if vs, ok := sp.(*ast.ValueSpec); ok {
						for _, n := range vs.Names {
							declare(n.Name, scopes)
						}
					}
				}
			}
		case *ast.BlockStmt:
			walk(x.List, append(scopes, scope{}))
		case *ast.IfStmt:
			inner := append(scopes, scope{})
			if x.Init != nil {
				stmt(x.Init, inner)
			}
			walk(x.Body.List, append(inner, scope{}))
			switch e := x.Else.(type) {
			case *ast.BlockStmt:
				walk(e.List, append(inner, scope{}))
			case *ast.IfStmt:
				stmt(e, inner)
			}
		}
	}
	walk = func(list []ast.Stmt, scopes []scope) {
		for _, s := range list {
			stmt(s, scopes)
		}
	}
	top := scope{}
	for _, n := range outer {
		top[n] = true
	}
	// the function body is its own block: a top-level `x := …` of a parameter name does not compile in Go
	// (no new variable), so parameters and top-level locals share one scope here
	walk(body.List, []scope{top})
}

func findFunc(f *ast.File, name string) *ast.FuncDecl {
	recv, fn := "", name
	if i := strings.IndexByte(name, '.'); i >= 0 {
		recv, fn = name[:i], name[i+1:]
	}
	for _, d := range f.Decls {
		fd, ok := d.(*ast.FuncDecl)
		if !ok || fd.Name.Name != fn {
			continue
		}
		if recv == "" && fd.Recv == nil {
			return fd
		}
		if recv != "" && fd.Recv != nil && len(fd.Recv.List) == 1 {
			t := exprText(fd.Recv.List[0].Type)
			t = strings.TrimPrefix(t, "*")
			if t == recv {
				return fd
			}
		}
	}
	return nil
}

// Translate returns the Lean definition text for one kernel.
func Translate(repo string, k *Kernel) (out string, err error) {
	defer func() {
		if r := recover(); r != nil {
			if te, ok := r.(trErr); ok {
				err = fmt.Errorf("kernel %s (%s:%s): %s", k.Name, k.File, k.Func, te.msg)
				return
			}
			panic(r)
		}
	}()
	fset := token.NewFileSet()
	f, perr := parser.ParseFile(fset, repo+"/"+k.File, nil, 0)
	if perr != nil {
		return "", fmt.Errorf("kernel %s: %v", k.Name, perr)
	}
	fd := findFunc(f, k.Func)
	if fd == nil {
		return "", fmt.Errorf("kernel %s: function %s not found in %s", k.Name, k.Func, k.File)
	}
	body := fd.Body
	var closureParams []string
	if k.Closure {
		var lit *ast.FuncLit
		ast.Inspect(fd.Body, func(n ast.Node) bool {
			if l, ok := n.(*ast.FuncLit); ok && lit == nil {
				lit = l
				return false
			}
			return true
		})
		if lit == nil {
			return "", fmt.Errorf("kernel %s: no closure in %s", k.Name, k.Func)
		}
		body = lit.Body
		for _, p := range lit.Type.Params.List {
			for _, n := range p.Names {
				closureParams = append(closureParams, n.Name)
			}
		}
	}
	outer := closureParams
	for g := range k.Vars {
		outer = append(outer, g)
	}
	for _, p := range fd.Type.Params.List {
		for _, n := range p.Names {
			outer = append(outer, n.Name)
		}
	}
	checkNoShadowing(body, outer)
	t := &tr{k: k, fset: fset, ty: map[string]string{}, rename: k.Rename}
	if t.rename == nil {
		t.rename = map[string]string{}
	}
	for g, ty := range k.Vars {
		t.ty[t.leanVar(g)] = ty
	}
	// parameters of the Go function get their types from the signature unless bound in Vars
	if !k.Closure {
		for _, p := range fd.Type.Params.List {
			lt := goTypeToLean(p.Type)
			for _, n := range p.Names {
				t.setBig(n, isBigType(p.Type))
				if _, ok := t.ty[t.leanVar(n.Name)]; ok {
					continue
				}
				if lt == "" {
					return "", fmt.Errorf("kernel %s: parameter %s has unsupported type %s", k.Name, n.Name, exprText(p.Type))
				}
				t.ty[t.leanVar(n.Name)] = lt
			}
		}
	}
	var sb strings.Builder
	params := k.Params
	if params == nil {
		for _, p := range fd.Type.Params.List {
			for _, n := range p.Names {
				params = append(params, "("+t.leanVar(n.Name)+" : "+leanTy(t.ty[t.leanVar(n.Name)])+")")
			}
		}
	}
	sb.WriteString("/-- generated from " + k.File + ": " + k.Func + " -/\n")
	sb.WriteString("def " + k.Name + " " + strings.Join(params, " ") + " : " + k.RetType + " :=\n")
	for _, l := range k.Prelude {
		sb.WriteString("  " + l + "\n")
	}
	sb.WriteString(t.stmts(body.List, nil, 1))
	sb.WriteString("\n")
	return sb.String(), nil
}
