package main

// Oracle ante facts, part 2 (C10 / C13): the SHAPE of the two oracle branches that decide admission
// per transaction, not per message / per first signer:
//
//   oracleSigLoopShape   app/ante/cosmos/sigverify.go, SigVerificationDecorator.AnteHandle, oracle
//                        branch: the loop that verifies the signatures — what it ranges over, every
//                        way out of its body (each must be a return of a non-nil error), whether the
//                        VerifySignature guard is a top-level statement of the body (not nested under
//                        another condition), and the statement that follows the loop (`return next(…)`).
//                        A `return next(…)` / `break` / `continue` inside the body, a second loop, or a
//                        guard moved under an `if i == 0` changes a literal.
//   oracleTxSizeGuard    app/ante/cosmos/txsize_gas.go, ConsumeTxSizeGasDecorator.AnteHandle, oracle
//                        branch: must be exactly `if COND { return ctx, <error> }; return next(…)`;
//                        COND is translated by the GoLite translator into
//                        `oracleTxTooLarge (txBytesLen txSizeLimit : Int) : Bool` with
//                        len(ctx.TxBytes()) ↦ txBytesLen and anteutils.TxSizeLimit ↦ txSizeLimit —
//                        anything else in the condition (a local limit, len(tx.GetMsgs()), a factor)
//                        fails closed.

import (
	"fmt"
	"go/ast"
	"go/token"
	"strings"
)

func init() { factGens = append(factGens, oracleAnteFacts) }

// oracleBranch returns the body of the top-level `if …IsOracleCreatePriceTx(tx) {…}` of fd.
func oracleBranch(fd *ast.FuncDecl) *ast.BlockStmt {
	for _, st := range fd.Body.List {
		if ifs, ok := st.(*ast.IfStmt); ok && ifs.Init == nil && ifs.Else == nil && strings.HasSuffix(exprText(ifs.Cond), "IsOracleCreatePriceTx()") {
			return ifs.Body
		}
	}
	return nil
}

// isErrorReturn: `return ctx, E` where E is certainly a non-nil error: a Wrap/Wrapf of a registered
// sdk error, or the variable `err` directly under `if err != nil`.
func isErrorReturn(r *ast.ReturnStmt, enclosing *ast.IfStmt) bool {
	if len(r.Results) != 2 || exprText(r.Results[0]) != "ctx" {
		return false
	}
	switch e := r.Results[1].(type) {
	case *ast.Ident:
		if e.Name != "err" || enclosing == nil {
			return false
		}
		be, ok := enclosing.Cond.(*ast.BinaryExpr)
		return ok && be.Op == token.NEQ && exprText(be.X) == "err" && exprText(be.Y) == "nil"
	case *ast.CallExpr:
		f := exprText(e.Fun)
		return strings.HasPrefix(f, "sdkerrors.Err") && (strings.HasSuffix(f, ".Wrap()") || strings.HasSuffix(f, ".Wrapf()") || strings.HasSuffix(f, ".Wrap") || strings.HasSuffix(f, ".Wrapf"))
	}
	return false
}

func oracleAnteFacts(repo string, emit func(name, leanDef string, err error)) {
	// ---- 1. the signature loop
	func() {
		const name = "oracleSigLoopShape"
		const file = "app/ante/cosmos/sigverify.go"
		f, fset, err := parseRepo(repo, file)
		if err != nil {
			emit(name, "", err)
			return
		}
		src, _ := readFile(repo + "/" + file)
		fd := findFunc(f, "SigVerificationDecorator.AnteHandle")
		if fd == nil {
			emit(name, "", fmt.Errorf("SigVerificationDecorator.AnteHandle not found"))
			return
		}
		br := oracleBranch(fd)
		if br == nil {
			emit(name, "", fmt.Errorf("oracle branch of SigVerificationDecorator.AnteHandle not found"))
			return
		}
		// what `sigs` is assigned from
		sigsSrc := ""
		var loops []ast.Stmt
		ast.Inspect(br, func(n ast.Node) bool {
			switch x := n.(type) {
			case *ast.AssignStmt:
				if len(x.Lhs) >= 1 && exprText(x.Lhs[0]) == "sigs" && len(x.Rhs) == 1 {
					if sigsSrc != "" {
						sigsSrc += " ; "
					}
					sigsSrc += orcNodeText(fset, src, x.Rhs[0])
				}
			case *ast.RangeStmt:
				loops = append(loops, x)
			case *ast.ForStmt:
				loops = append(loops, x)
			case *ast.FuncLit:
				return false
			}
			return true
		})
		header, follow := "", ""
		var exits []string
		guardTop, guards := false, 0
		if len(loops) == 1 {
			if rs, ok := loops[0].(*ast.RangeStmt); ok {
				header = "for " + orcNodeText(fset, src, rs.Key)
				if rs.Value != nil {
					header += ", " + orcNodeText(fset, src, rs.Value)
				}
				header += " " + rs.Tok.String() + " range " + orcNodeText(fset, src, rs.X)
				// every way out of the body
				var walk func(n ast.Node, encl *ast.IfStmt)
				walk = func(n ast.Node, encl *ast.IfStmt) {
					switch x := n.(type) {
					case nil:
						return
					case *ast.BlockStmt:
						for _, s := range x.List {
							walk(s, encl)
						}
					case *ast.IfStmt:
						if x.Init != nil {
							walk(x.Init, encl)
						}
						for _, s := range x.Body.List {
							walk(s, x)
						}
						if x.Else != nil {
							exits = append(exits, "else") // not the transcribed shape: report it
							walk(x.Else, nil)
						}
					case *ast.ReturnStmt:
						if isErrorReturn(x, encl) {
							exits = append(exits, "return-error")
						} else {
							exits = append(exits, "return:"+orcNodeText(fset, src, x))
						}
					case *ast.BranchStmt:
						exits = append(exits, x.Tok.String())
					case *ast.LabeledStmt:
						exits = append(exits, "label")
						walk(x.Stmt, encl)
					case *ast.ForStmt, *ast.RangeStmt, *ast.SwitchStmt, *ast.TypeSwitchStmt, *ast.SelectStmt, *ast.GoStmt, *ast.DeferStmt:
						exits = append(exits, fmt.Sprintf("%T", x))
					case *ast.ExprStmt:
						if c, ok := x.X.(*ast.CallExpr); ok && exprText(c.Fun) == "panic" {
							exits = append(exits, "panic")
						}
					}
				}
				walk(rs.Body, nil)
				// the VerifySignature guard: a top-level statement of the loop body
				for _, s := range rs.Body.List {
					if ifs, ok := s.(*ast.IfStmt); ok && strings.Contains(orcNodeText(fset, src, ifs.Cond), ".VerifySignature(") {
						guards++
						if len(ifs.Body.List) == 1 {
							if r, ok := ifs.Body.List[0].(*ast.ReturnStmt); ok && isErrorReturn(r, ifs) {
								guardTop = true
							}
						}
					}
				}
				if guards != 1 {
					guardTop = false
				}
				// the statement right after the loop, in the branch's own statement list
				for i, s := range br.List {
					if s == loops[0] && i+1 < len(br.List) {
						follow = orcNodeText(fset, src, br.List[i+1])
						if i+2 != len(br.List) {
							follow += " …"
						}
					}
				}
			}
		}
		def := fmt.Sprintf("/-- %s: SigVerificationDecorator.AnteHandle, oracle branch — number of loops -/\ndef oracleSigLoopCount : Nat := %d\n\n", file, len(loops))
		def += fmt.Sprintf("/-- … the loop header, and what `sigs` is assigned from -/\ndef oracleSigLoopHeader : String := %q\n\ndef oracleSigLoopSigsSource : String := %q\n\n", header, sigsSrc)
		def += fmt.Sprintf("/-- … every way out of the loop body, in source order (`return-error` = `return ctx, <non-nil error>`) -/\ndef oracleSigLoopExits : List String := %s\n\n", leanStrList(exits))
		def += fmt.Sprintf("/-- … the `if … VerifySignature(…) { return ctx, <error> }` guard is a statement of the loop body itself (not nested under another condition), exactly once -/\ndef oracleSigLoopGuardTopLevel : Bool := %v\n\n", guardTop)
		def += fmt.Sprintf("/-- … the statement that follows the loop (last statement of the branch) -/\ndef oracleSigLoopFollowedBy : String := %q", follow)
		emit(name, def, nil)
	}()
	// ---- 2. the size guard
	func() {
		const name = "oracleTxSizeGuard"
		const file = "app/ante/cosmos/txsize_gas.go"
		f, fset, err := parseRepo(repo, file)
		if err != nil {
			emit(name, "", err)
			return
		}
		src, _ := readFile(repo + "/" + file)
		fd := findFunc(f, "ConsumeTxSizeGasDecorator.AnteHandle")
		if fd == nil {
			emit(name, "", fmt.Errorf("ConsumeTxSizeGasDecorator.AnteHandle not found"))
			return
		}
		br := oracleBranch(fd)
		if br == nil {
			emit(name, "", fmt.Errorf("oracle branch of ConsumeTxSizeGasDecorator.AnteHandle not found"))
			return
		}
		if len(br.List) != 2 {
			emit(name, "", fmt.Errorf("oracle branch of ConsumeTxSizeGasDecorator.AnteHandle has %d statements; the model transcribes `if len(ctx.TxBytes()) > anteutils.TxSizeLimit { return ctx, err }; return next(ctx, tx, simulate)` (re-validate the model's size rule)", len(br.List)))
			return
		}
		ifs, ok := br.List[0].(*ast.IfStmt)
		if !ok || ifs.Init != nil || ifs.Else != nil || len(ifs.Body.List) != 1 {
			emit(name, "", fmt.Errorf("oracle branch of ConsumeTxSizeGasDecorator.AnteHandle: first statement is not a plain `if COND { return … }`"))
			return
		}
		ret, ok := ifs.Body.List[0].(*ast.ReturnStmt)
		tooLarge := false
		if ok && isErrorReturn(ret, ifs) {
			if ce, isCall := ret.Results[1].(*ast.CallExpr); isCall {
				tooLarge = strings.HasPrefix(exprText(ce.Fun), "sdkerrors.ErrTxTooLarge.")
			}
		}
		if !tooLarge {
			emit(name, "", fmt.Errorf("oracle branch of ConsumeTxSizeGasDecorator.AnteHandle: the size guard does not return ErrTxTooLarge"))
			return
		}
		last := orcNodeText(fset, src, br.List[1])
		condS, terr := func() (out string, err error) {
			defer func() {
				if r := recover(); r != nil {
					if te, ok := r.(trErr); ok {
						err = fmt.Errorf("size guard condition `%s`: %s", orcNodeText(fset, src, ifs.Cond), te.msg)
						return
					}
					panic(r)
				}
			}()
			k := &Kernel{Name: name, Calls: map[string]callRule{
				"ctx.TxBytes":           {"txBytesLen", "Bytes"},
				"len":                   {"$1", "Int"},
				"anteutils.TxSizeLimit": {"txSizeLimit", "Int"},
			}}
			t := &tr{k: k, ty: map[string]string{}, rename: map[string]string{}}
			s, ty := t.expr(ifs.Cond)
			if ty != "Bool" {
				failf("condition has type %s", ty)
			}
			return s, nil
		}()
		if terr != nil {
			emit(name, "", terr)
			return
		}
		def := fmt.Sprintf("/-- %s: ConsumeTxSizeGasDecorator.AnteHandle, oracle branch — the rejection condition, translated (len(ctx.TxBytes()) ↦ txBytesLen, anteutils.TxSizeLimit ↦ txSizeLimit) -/\ndef oracleTxTooLarge (txBytesLen txSizeLimit : Int) : Bool :=\n  %s\n\n", file, condS)
		def += fmt.Sprintf("/-- … the branch is `if <that condition> { return ctx, ErrTxTooLarge… }` followed by exactly this statement -/\ndef oracleTxSizeBranchTail : String := %q\n\n/-- … the condition as written -/\ndef oracleTxSizeGuardCond : String := %q", last, orcNodeText(fset, src, ifs.Cond))
		emit(name, def, nil)
	}()
}
