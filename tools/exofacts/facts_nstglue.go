package main

// Facts pinning the glue that decides the AMOUNT of a native-restaking balance adjustment (C01, Model/NstGlue.lean):
//   nstGlueDepositOrWithdrawSkeleton   precompiles/assets/tx.go: Precompile.DepositOrWithdraw — the booking in x/assets, then,
//                                      for DepositNST / WithdrawNST, the amount handed to the oracle's per-staker record:
//                                      NEGATED for a withdrawal
//   nstGlueValidatorListSkeleton       x/oracle/keeper/native_token.go: Keeper.UpdateNSTValidatorListForStaker — validator list,
//                                      recorded balance (+32 for a full deposit, else amount / 10^decimals), staker list
//   nstGlueBalanceChangeSkeleton       x/oracle/keeper/native_token.go: Keeper.UpdateNSTByBalanceChange — per listed staker:
//                                      32 x validators + change, range check, delta to the record, UpdateNSTBalance(delta x 10^decimals)
// rendered by `skeleton` (facts_nst.go): if conditions, watched assignments, watched calls, loop exits, in source order.
// Props/C01NstGlueTie.lean compares them with the literals the model was transcribed from.

import (
	"fmt"
)

func init() {
	factGens = append(factGens, nstGlueFacts)
}

func nstGlueFacts(repo string, emit func(name, leanDef string, err error)) {
	one := func(fact, file, fn string, vars map[string]bool, calls map[string][]int) {
		f, fset, err := parseRepoFile(repo, file)
		if err != nil {
			emit(fact, "", err)
			return
		}
		fd := findFunc(f, fn)
		if fd == nil {
			emit(fact, "", fmt.Errorf("%s not found in %s", fn, file))
			return
		}
		sk := skeleton(fset, fd.Body, vars, calls)
		emit(fact, "/-- "+file+": "+fn+" — conditions, watched assignments and calls in source order -/\ndef "+fact+" : List String := "+leanStrList(sk), nil)
	}
	one("nstGlueDepositOrWithdrawSkeleton", "precompiles/assets/tx.go", "Precompile.DepositOrWithdraw",
		map[string]bool{"opAmount": true},
		map[string][]int{"CheckExocoreGatewayAddr": {1}, "PerformDepositOrWithdraw": {1}, "UpdateNSTValidatorListForStaker": {1, 2, 3, 4},
			"CacheContext": {}, "writeFunc": {}})
	one("nstGlueValidatorListSkeleton", "x/oracle/keeper/native_token.go", "Keeper.UpdateNSTValidatorListForStaker",
		map[string]bool{"stakerInfo": true, "stakerInfo.ValidatorPubkeyList": true, "newBalance": true, "newBalance.Balance": true,
			"efbUnit": true, "stakerList.StakerAddrs": true, "exists": true, "stakerInfo.BalanceList": true},
		map[string][]int{"Delete": {0}, "Set": {0}, "NewStakerInfo": {0, 1}})
	one("nstGlueBalanceChangeSkeleton", "x/oracle/keeper/native_token.go", "Keeper.UpdateNSTByBalanceChange",
		map[string]bool{"change": true, "maxBalance": true, "balance": true, "newBalance": true, "newBalance.Balance": true, "delta": true},
		map[string][]int{"GetStakerList": {1}, "parseBalanceChange": {0, 1}, "CacheContext": {}, "UpdateNSTBalance": {1, 2, 3}, "writeFunc": {}, "Append": {0}})
}
