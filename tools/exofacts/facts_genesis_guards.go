package main

// C18 facts pinning the CONDITIONS of the genesis validators and of the operator import (the message lists of
// assetsValidateChecks do not change when `GT` becomes `GTE` or `IsNegative()` becomes `!IsPositive()`):
//   assetsValidateGuards    per Validate* function of x/assets/types/genesis.go: the condition of every `if` (closures
//   operatorValidateGuards  included, an init statement rendered before the condition) whose body returns an error,
//   dogfoodValidateGuards   in source order; same for x/operator/types/genesis.go and x/dogfood/types/genesis.go
//   operatorInitEarnings    x/operator/keeper/genesis.go InitGenesis: (condition, assignment) of the if statement that
//                           assigns op.OperatorInfo.EarningsAddr
//   modParamsExported       x/exomint and x/feedistribution ExportGenesis: the right-hand side assigned to genesis.Params

import (
	"fmt"
	"go/ast"
	"go/parser"
	"go/token"
	"strings"
)

// returnsError: the block contains (directly, not in a nested function literal) a return statement whose last result is
// not the literal nil.
func returnsError(b *ast.BlockStmt) bool {
	found := false
	ast.Inspect(b, func(n ast.Node) bool {
		switch x := n.(type) {
		case *ast.FuncLit:
			return false
		case *ast.ReturnStmt:
			if len(x.Results) > 0 && exprText(x.Results[len(x.Results)-1]) != "nil" {
				found = true
			}
		}
		return true
	})
	return found
}

// errorGuardsDeep: conditions of every if statement of fd (closures included) whose body returns an error, in source order.
func errorGuardsDeep(fd *ast.FuncDecl) []string {
	var out []string
	ast.Inspect(fd.Body, func(n ast.Node) bool {
		is, ok := n.(*ast.IfStmt)
		if !ok {
			return true
		}
		if returnsError(is.Body) {
			c := goSrc(is.Cond)
			if is.Init != nil {
				c = goSrc(is.Init) + "; " + c
			}
			out = append(out, c)
		}
		return true
	})
	return out
}

func genesisGuardsGen(repo string, emit func(name, leanDef string, err error)) {
	fset := token.NewFileSet()
	parse := func(p string) (*ast.File, error) { return parser.ParseFile(fset, repo+"/"+p, nil, 0) }
	for _, m := range []struct {
		name, file string
		fns        []string
	}{
		{"assetsValidateGuards", "x/assets/types/genesis.go", []string{"ValidateClientChains", "ValidateTokens", "ValidateDeposits", "ValidateOperatorAssets"}},
		{"operatorValidateGuards", "x/operator/types/genesis.go", []string{"ValidateOperators", "ValidateOperatorConsKeyRecords", "ValidateOptedStates",
			"ValidateAVSUSDValues", "ValidateOperatorUSDValues", "ValidateSlashStates", "ValidatePrevConsKeys", "ValidateOperatorKeyRemovals", "Validate"}},
		{"dogfoodValidateGuards", "x/dogfood/types/genesis.go", []string{"Validate"}},
	} {
		f, err := parse(m.file)
		if err != nil {
			emit(m.name, "", err)
			continue
		}
		var rows []string
		var ferr error
		for _, fn := range m.fns {
			fd := findFunc(f, "GenesisState."+fn)
			if fd == nil {
				ferr = fmt.Errorf("%s: GenesisState.%s not found", m.file, fn)
				break
			}
			rows = append(rows, fmt.Sprintf("(%q, %s)", fn, leanStrList(errorGuardsDeep(fd))))
		}
		if ferr != nil {
			emit(m.name, "", ferr)
			continue
		}
		emit(m.name, "/-- "+m.file+": per Validate* function the conditions under which it returns an error, in source order -/\ndef "+m.name+
			" : List (String × List String) := [\n  "+strings.Join(rows, ",\n  ")+"]", nil)
	}
	// x/operator InitGenesis: the earnings-address default
	func() {
		const name = "operatorInitEarnings"
		f, err := parse("x/operator/keeper/genesis.go")
		if err != nil {
			emit(name, "", err)
			return
		}
		fd := findFunc(f, "Keeper.InitGenesis")
		if fd == nil {
			emit(name, "", fmt.Errorf("Keeper.InitGenesis not found"))
			return
		}
		var rows []string
		ast.Inspect(fd.Body, func(n ast.Node) bool {
			is, ok := n.(*ast.IfStmt)
			if !ok {
				return true
			}
			for _, st := range is.Body.List {
				if as, ok := st.(*ast.AssignStmt); ok && len(as.Lhs) == 1 && strings.HasSuffix(exprText(as.Lhs[0]), "EarningsAddr") {
					rows = append(rows, fmt.Sprintf("(%q, %q)", goSrc(is.Cond), goSrc(as)))
				}
			}
			return true
		})
		emit(name, "/-- x/operator/keeper/genesis.go InitGenesis: the if statements that assign an operator's EarningsAddr (condition, assignment) -/\ndef "+name+
			" : List (String × String) := ["+strings.Join(rows, ", ")+"]", nil)
	}()
	// x/exomint, x/feedistribution ExportGenesis: genesis.Params = …
	func() {
		const name = "modParamsExported"
		var rows []string
		for _, mod := range []string{"exomint", "feedistribution"} {
			f, err := parse("x/" + mod + "/keeper/genesis.go")
			if err != nil {
				emit(name, "", err)
				return
			}
			fd := findFunc(f, "Keeper.ExportGenesis")
			if fd == nil {
				emit(name, "", fmt.Errorf("x/%s: Keeper.ExportGenesis not found", mod))
				return
			}
			var rhs []string
			ast.Inspect(fd.Body, func(n ast.Node) bool {
				if as, ok := n.(*ast.AssignStmt); ok && len(as.Lhs) == 1 && len(as.Rhs) == 1 && strings.HasSuffix(exprText(as.Lhs[0]), ".Params") {
					rhs = append(rhs, goSrc(as.Rhs[0]))
				}
				return true
			})
			rows = append(rows, fmt.Sprintf("(%q, %s)", mod, leanStrList(rhs)))
		}
		emit(name, "/-- x/exomint, x/feedistribution ExportGenesis: what is assigned to the exported document's Params -/\ndef "+name+
			" : List (String × List String) := ["+strings.Join(rows, ", ")+"]", nil)
	}()
}

func init() { factGens = append(factGens, genesisGuardsGen) }
