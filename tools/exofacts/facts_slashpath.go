package main

// Tie A for C07 "… so that it can still be slashed and jailed": the statement skeleton of the
// functions on the path from the SDK staking interface (called with a consensus address) to the
// operator record —
//   x/dogfood/keeper/impl_sdk.go : SlashWithInfractionReason, Jail, Unjail
//   x/operator/keeper/slash.go   : SlashWithInfractionReason, Jail, Unjail, SetJailedState
// Every top-level statement is rendered; an `if` whose body ends in `return` is rendered with its
// (init and) condition and the returned value, so an additional early return — for instance one that
// looks the key up in the *current* validator store — adds an entry and breaks C07_tie_slash_guards.
// The Lean model's `slashTarget` / `jailTarget` (Model/ConsKeys.lean) assume exactly these guards.

import (
	"fmt"
	"go/ast"
	"strings"
)

func init() { factGens = append(factGens, genSlashPathFacts) }

func skelText(n ast.Node) string {
	s := longText(n)
	s = strings.ReplaceAll(s, "( ", "(")
	s = strings.ReplaceAll(s, ", )", ")")
	s = strings.ReplaceAll(s, "{ ", "{")
	s = strings.ReplaceAll(s, ", }", "}")
	return s
}

// stmtSkeleton renders the top-level statements of a body.
func stmtSkeleton(list []ast.Stmt) []string {
	var out []string
	for _, st := range list {
		switch x := st.(type) {
		case *ast.IfStmt:
			s := "if "
			if x.Init != nil {
				s += skelText(x.Init) + "; "
			}
			s += skelText(x.Cond)
			body := " {…}"
			if n := len(x.Body.List); n > 0 {
				if r, ok := x.Body.List[n-1].(*ast.ReturnStmt); ok {
					var rs []string
					for _, e := range r.Results {
						rs = append(rs, skelText(e))
					}
					body = strings.TrimSpace(" {return "+strings.Join(rs, ", ")) + "}"
					body = " " + body
				}
			}
			s += body
			if x.Else != nil {
				s += " else {…}"
			}
			out = append(out, s)
		case *ast.AssignStmt:
			if len(x.Rhs) == 1 {
				if fl, ok := x.Rhs[0].(*ast.FuncLit); ok {
					var parts []string
					for _, b := range fl.Body.List {
						parts = append(parts, skelText(b))
					}
					var lhs []string
					for _, l := range x.Lhs {
						lhs = append(lhs, skelText(l))
					}
					out = append(out, strings.Join(lhs, ", ")+" "+x.Tok.String()+" func{"+strings.Join(parts, "; ")+"}")
					continue
				}
			}
			out = append(out, skelText(st))
		default:
			out = append(out, skelText(st))
		}
	}
	return out
}

func genSlashPathFacts(repo string, emit func(name, leanDef string, err error)) {
	for _, f := range []struct{ file, fn, name, doc string }{
		{"x/dogfood/keeper/impl_sdk.go", "Keeper.SlashWithInfractionReason", "dogfoodSlashSkeleton", "staking interface, called with a consensus address by x/slashing and x/evidence"},
		{"x/dogfood/keeper/impl_sdk.go", "Keeper.Jail", "dogfoodJailSkeleton", "staking interface"},
		{"x/dogfood/keeper/impl_sdk.go", "Keeper.Unjail", "dogfoodUnjailSkeleton", "staking interface"},
		{"x/operator/keeper/slash.go", "Keeper.SlashWithInfractionReason", "operatorSlashSkeleton", "called with the operator address the dogfood keeper resolved"},
		{"x/operator/keeper/slash.go", "Keeper.Jail", "operatorJailSkeleton", ""},
		{"x/operator/keeper/slash.go", "Keeper.Unjail", "operatorUnjailSkeleton", ""},
		{"x/operator/keeper/slash.go", "Keeper.SetJailedState", "setJailedStateSkeleton", "the reverse lookup, its guards and the write"},
	} {
		_, file, err := vParse(repo, f.file)
		if err != nil {
			emit(f.name, "", err)
			continue
		}
		fd := findFunc(file, f.fn)
		if fd == nil || fd.Body == nil {
			emit(f.name, "", fmt.Errorf("%s not found in %s", f.fn, f.file))
			continue
		}
		doc := f.file + ": " + f.fn + " — top-level statements (if … {return v}: early return)"
		if f.doc != "" {
			doc += "; " + f.doc
		}
		emit(f.name, fmt.Sprintf("/-- %s -/\ndef %s : List String := %s", doc, f.name, leanStrList(stmtSkeleton(fd.Body.List))), nil)
	}
}
