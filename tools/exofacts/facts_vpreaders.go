package main

// C05, the readers of the recorded voting power:
//
//   optedValueReaderGates  for every reader of an operator's recorded USD value — x/operator
//                          Keeper.GetOperatorOptedUSDValue, Keeper.GetVotePowerForChainID,
//                          Keeper.QueryOperatorUSDValue and the AVS precompile's GetOperatorOptedUSDValue —
//                          the predicates on the operator's OptedInfo it consults: every call, anywhere in
//                          its body (conditions, initialisers, closures), of a method named IsOptedIn,
//                          IsActive, IsOperatorJailedForChainID, GetOptedInfo or of a selector `.Jailed`,
//                          as "<reader>:<negated?><name>" in source order. On the unchanged code the only
//                          gate is `!IsOptedIn` in GetOperatorOptedUSDValue: the model's `readOpted` is
//                          `readOptedWith isOptedIn`, a jailed (still opted-in) operator reads its record.

import (
	"fmt"
	"go/ast"
	"go/parser"
	"go/token"
	"strings"
)

func optedValueReaderGates(repo string) ([]string, error) {
	readers := []struct{ tag, file, fn string }{
		{"GetOperatorOptedUSDValue", "x/operator/keeper/usd_value.go", "Keeper.GetOperatorOptedUSDValue"},
		{"GetVotePowerForChainID", "x/operator/keeper/usd_value.go", "Keeper.GetVotePowerForChainID"},
		{"QueryOperatorUSDValue", "x/operator/keeper/grpc_query.go", "Keeper.QueryOperatorUSDValue"},
		{"precompile.GetOperatorOptedUSDValue", "precompiles/avs/query.go", "Precompile.GetOperatorOptedUSDValue"},
	}
	watched := map[string]bool{"IsOptedIn": true, "IsActive": true, "IsOperatorJailedForChainID": true, "GetOptedInfo": true}
	out := []string{}
	for _, rd := range readers {
		fset := token.NewFileSet()
		f, err := parser.ParseFile(fset, repo+"/"+rd.file, nil, 0)
		if err != nil {
			return nil, err
		}
		fd := findFunc(f, rd.fn)
		if fd == nil || fd.Body == nil {
			return nil, fmt.Errorf("%s not found in %s", rd.fn, rd.file)
		}
		negated := map[ast.Node]bool{}
		ast.Inspect(fd.Body, func(n ast.Node) bool {
			switch x := n.(type) {
			case *ast.UnaryExpr:
				if x.Op == token.NOT {
					negated[x.X] = true
				}
			case *ast.CallExpr:
				if sel, ok := x.Fun.(*ast.SelectorExpr); ok && watched[sel.Sel.Name] {
					p := ""
					if negated[x] {
						p = "!"
					}
					out = append(out, rd.tag+":"+p+sel.Sel.Name)
				}
			case *ast.SelectorExpr:
				if x.Sel.Name == "Jailed" {
					out = append(out, rd.tag+":.Jailed")
				}
			}
			return true
		})
	}
	_ = strings.Join
	return out, nil
}

func init() {
	factGens = append(factGens, func(repo string, emit func(name, leanDef string, err error)) {
		g, err := optedValueReaderGates(repo)
		emit("optedValueReaderGates", "/-- the OptedInfo predicates consulted by the readers of an operator's recorded USD value (usd_value.go GetOperatorOptedUSDValue / GetVotePowerForChainID, grpc_query.go QueryOperatorUSDValue, precompiles/avs query.go) -/\ndef optedValueReaderGates : List String := "+leanStrList(g), err)
	})
}
