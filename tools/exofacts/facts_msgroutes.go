package main

// Tie A for C10 "every other caller is rejected": WHICH COSMOS MESSAGES OF THE EXOCORE MODULES ARE ENTRY POINTS AT ALL.
//
//   exocoreMsgRoutes   for every type an x/<module> registers as sdk.Msg (types/codec.go: RegisterImplementations
//                      ((*sdk.Msg)(nil), …) and, through msgservice.RegisterMsgServiceDesc, every request type of the
//                      module's Msg service in types/tx.pb.go), sorted by type url:
//                        "unrouted"    no Msg service method takes it, or the module's RegisterServices does not call
//                                      RegisterMsgServer (the call is commented out in x/reward, x/slash): baseapp
//                                      answers "can't route message"
//                        "panic-stub"  routed; the handler's body is the single statement `panic(…)` (x/avs: RegisterAVS,
//                                      DeRegisterAVS, RegisterAVSTask — baseapp's runTx recovers, the tx fails, no write)
//                        "impl"        routed to a handler with a body
//   exocoreMsgHandlers the handler each routed type reaches: "x/<module>/keeper/<file>: <Recv>.<Method>"
//
// The Lean model (Model/AuthMsgs.lean: msgTable) gives every one of these types a class; C10_tie_msg_routes compares
// the class's route with this list. Implementing a stub, uncommenting a RegisterMsgServer, adding a message to a
// service or registering a new sdk.Msg changes the list and breaks the theorem — the new entry point has to be
// classified (and its decision function written) before the proof obligations are met again.

import (
	"fmt"
	"go/ast"
	"os"
	"path/filepath"
	"sort"
	"strings"
)

func init() { factGens = append(factGens, genMsgRouteFacts) }

type msgSvcMethod struct {
	method, reqType string
}

// pbMsgService: full proto names of the file's types, and the methods of _Msg_serviceDesc with their request types
func pbMsgService(f *ast.File) (full map[string]string, methods []msgSvcMethod) {
	full = map[string]string{}
	handlerReq := map[string]string{} // _Msg_X_Handler -> request type
	for _, d := range f.Decls {
		fd, ok := d.(*ast.FuncDecl)
		if !ok || fd.Body == nil {
			continue
		}
		if fd.Name.Name == "init" {
			ast.Inspect(fd.Body, func(n ast.Node) bool {
				c, ok := n.(*ast.CallExpr)
				if !ok || exprText(c.Fun) != "proto.RegisterType" || len(c.Args) != 2 {
					return true
				}
				lit, ok := c.Args[1].(*ast.BasicLit)
				if !ok {
					return true
				}
				// (*T)(nil)
				if call, ok := c.Args[0].(*ast.CallExpr); ok {
					if p, ok := call.Fun.(*ast.ParenExpr); ok {
						if st, ok := p.X.(*ast.StarExpr); ok {
							full[exprText(st.X)] = strings.Trim(lit.Value, "\"")
						}
					}
				}
				return true
			})
		}
		if strings.HasPrefix(fd.Name.Name, "_Msg_") && strings.HasSuffix(fd.Name.Name, "_Handler") {
			ast.Inspect(fd.Body, func(n ast.Node) bool {
				as, ok := n.(*ast.AssignStmt)
				if !ok || len(as.Lhs) != 1 || len(as.Rhs) != 1 || exprText(as.Lhs[0]) != "in" {
					return true
				}
				if c, ok := as.Rhs[0].(*ast.CallExpr); ok && exprText(c.Fun) == "new" && len(c.Args) == 1 {
					handlerReq[fd.Name.Name] = exprText(c.Args[0])
				}
				return true
			})
		}
	}
	// var _Msg_serviceDesc = grpc.ServiceDesc{ …, Methods: []grpc.MethodDesc{{MethodName: "X", Handler: _Msg_X_Handler}, …} }
	for _, d := range f.Decls {
		gd, ok := d.(*ast.GenDecl)
		if !ok {
			continue
		}
		for _, sp := range gd.Specs {
			vs, ok := sp.(*ast.ValueSpec)
			if !ok || len(vs.Names) != 1 || vs.Names[0].Name != "_Msg_serviceDesc" || len(vs.Values) != 1 {
				continue
			}
			ast.Inspect(vs.Values[0], func(n ast.Node) bool {
				cl, ok := n.(*ast.CompositeLit)
				if !ok {
					return true
				}
				var name, handler string
				for _, e := range cl.Elts {
					kv, ok := e.(*ast.KeyValueExpr)
					if !ok {
						continue
					}
					switch exprText(kv.Key) {
					case "MethodName":
						if l, ok := kv.Value.(*ast.BasicLit); ok {
							name = strings.Trim(l.Value, "\"")
						}
					case "Handler":
						handler = exprText(kv.Value)
					}
				}
				if name != "" && handler != "" {
					methods = append(methods, msgSvcMethod{name, handlerReq[handler]})
				}
				return true
			})
		}
	}
	return
}

// codecMsgTypes: the types passed to RegisterImplementations((*sdk.Msg)(nil), …) and whether
// msgservice.RegisterMsgServiceDesc is called
func codecMsgTypes(f *ast.File) (types []string, svcDesc bool) {
	ast.Inspect(f, func(n ast.Node) bool {
		c, ok := n.(*ast.CallExpr)
		if !ok {
			return true
		}
		switch xbCalleeName(c) {
		case "RegisterMsgServiceDesc":
			svcDesc = true
		case "RegisterImplementations":
			if len(c.Args) < 2 || !strings.Contains(exprText(c.Args[0]), "sdk.Msg") {
				// exprText may not render (*sdk.Msg)(nil): look at the structure
				isMsg := false
				if call, ok := c.Args[0].(*ast.CallExpr); ok {
					if p, ok := call.Fun.(*ast.ParenExpr); ok {
						if st, ok := p.X.(*ast.StarExpr); ok && exprText(st.X) == "sdk.Msg" {
							isMsg = true
						}
					}
				}
				if !isMsg {
					return true
				}
			}
			for _, a := range c.Args[1:] {
				if u, ok := a.(*ast.UnaryExpr); ok {
					if cl, ok := u.X.(*ast.CompositeLit); ok {
						types = append(types, exprText(cl.Type))
					}
				}
			}
		}
		return true
	})
	return
}

// registersMsgServer: RegisterServices of the module calls <types>.RegisterMsgServer(…) (a commented-out call is no call)
func registersMsgServer(f *ast.File) bool {
	found := false
	for _, d := range f.Decls {
		fd, ok := d.(*ast.FuncDecl)
		if !ok || fd.Body == nil || fd.Name.Name != "RegisterServices" {
			continue
		}
		ast.Inspect(fd.Body, func(n ast.Node) bool {
			if c, ok := n.(*ast.CallExpr); ok && xbCalleeName(c) == "RegisterMsgServer" {
				found = true
			}
			return true
		})
	}
	return found
}

// findMsgHandler: the method `name(ctx context.Context, req *…reqType)` with a receiver, in the non-test files of dir
func findMsgHandler(repo, dir, name, reqType string) (where string, fd *ast.FuncDecl) {
	files, _ := filepath.Glob(filepath.Join(repo, dir, "*.go"))
	sort.Strings(files)
	for _, p := range files {
		if strings.HasSuffix(p, "_test.go") {
			continue
		}
		rel, _ := filepath.Rel(repo, p)
		_, f, err := vParse(repo, rel)
		if err != nil {
			continue
		}
		for _, d := range f.Decls {
			x, ok := d.(*ast.FuncDecl)
			if !ok || x.Recv == nil || x.Name.Name != name || x.Type.Params == nil {
				continue
			}
			var ptypes []string
			for _, fl := range x.Type.Params.List {
				n := len(fl.Names)
				if n == 0 {
					n = 1
				}
				for i := 0; i < n; i++ {
					ptypes = append(ptypes, exprText(fl.Type))
				}
			}
			if len(ptypes) != 2 || ptypes[0] != "context.Context" {
				continue
			}
			t := strings.TrimPrefix(ptypes[1], "*")
			if i := strings.LastIndexByte(t, '.'); i >= 0 {
				t = t[i+1:]
			}
			if t != reqType {
				continue
			}
			recv := strings.TrimPrefix(exprText(x.Recv.List[0].Type), "*")
			return rel + ": " + recv + "." + name, x
		}
	}
	return "", nil
}

func isPanicStub(fd *ast.FuncDecl) bool {
	if fd.Body == nil || len(fd.Body.List) != 1 {
		return false
	}
	es, ok := fd.Body.List[0].(*ast.ExprStmt)
	if !ok {
		return false
	}
	c, ok := es.X.(*ast.CallExpr)
	return ok && exprText(c.Fun) == "panic"
}

func genMsgRouteFacts(repo string, emit func(name, leanDef string, err error)) {
	fail := func(err error) {
		emit("exocoreMsgRoutes", "", err)
		emit("exocoreMsgHandlers", "", err)
	}
	mods, err := filepath.Glob(filepath.Join(repo, "x", "*", "types", "tx.pb.go"))
	if err != nil || len(mods) == 0 {
		fail(fmt.Errorf("no x/*/types/tx.pb.go found"))
		return
	}
	sort.Strings(mods)
	routes := map[string]string{}
	handlers := map[string]string{}
	for _, pb := range mods {
		mod := filepath.Base(filepath.Dir(filepath.Dir(pb)))
		_, f, err := vParse(repo, "x/"+mod+"/types/tx.pb.go")
		if err != nil {
			fail(err)
			return
		}
		full, methods := pbMsgService(f)
		var impl []string
		svcDesc := false
		if _, err := os.Stat(filepath.Join(repo, "x", mod, "types", "codec.go")); err == nil {
			_, cf, err := vParse(repo, "x/"+mod+"/types/codec.go")
			if err != nil {
				fail(err)
				return
			}
			impl, svcDesc = codecMsgTypes(cf)
		}
		served := false
		if _, err := os.Stat(filepath.Join(repo, "x", mod, "module.go")); err == nil {
			_, mf, err := vParse(repo, "x/"+mod+"/module.go")
			if err != nil {
				fail(err)
				return
			}
			served = registersMsgServer(mf)
		}
		byReq := map[string]string{} // request type -> method
		for _, m := range methods {
			if m.reqType == "" {
				fail(fmt.Errorf("x/%s: request type of Msg.%s not found", mod, m.method))
				return
			}
			byReq[m.reqType] = m.method
		}
		types := map[string]bool{}
		for _, t := range impl {
			types[t] = true
		}
		if svcDesc {
			for t := range byReq {
				types[t] = true
			}
		}
		for t := range types {
			fn, ok := full[t]
			if !ok {
				fail(fmt.Errorf("x/%s: proto name of %s not found in tx.pb.go", mod, t))
				return
			}
			url := "/" + fn
			method, inSvc := byReq[t]
			switch {
			case !inSvc || !served:
				routes[url] = "unrouted"
			default:
				where, fd := findMsgHandler(repo, "x/"+mod+"/keeper", method, t)
				if fd == nil {
					fail(fmt.Errorf("x/%s: handler %s(ctx, *%s) not found in x/%s/keeper", mod, method, t, mod))
					return
				}
				handlers[url] = where
				if isPanicStub(fd) {
					routes[url] = "panic-stub"
				} else {
					routes[url] = "impl"
				}
			}
		}
	}
	var urls []string
	for u := range routes {
		urls = append(urls, u)
	}
	sort.Strings(urls)
	var rs, hs [][2]string
	for _, u := range urls {
		rs = append(rs, [2]string{u, routes[u]})
		if h, ok := handlers[u]; ok {
			hs = append(hs, [2]string{u, h})
		}
	}
	emit("exocoreMsgRoutes", "/-- x/*/types/codec.go + tx.pb.go + module.go + keeper: every type an exocore module registers as sdk.Msg, with its route (unrouted | panic-stub | impl) -/\ndef exocoreMsgRoutes : List (String × String) := "+leanPairStrList(rs), nil)
	emit("exocoreMsgHandlers", "/-- the handler every routed exocore message type reaches -/\ndef exocoreMsgHandlers : List (String × String) := "+leanPairStrList(hs), nil)
}
