package main

// Tie A for C15 from the genesis list on (Model/EpochsGenesis.lean, Props/C15TieGenesis.lean).
//   epochsFirstTickCond   : x/epochs/keeper/abci.go BeginBlocker — the right-hand side of the one
//                           `isFirstTick := …`, as a Lean function of the atoms epochInfo.EpochCountingStarted /
//                           epochInfo.CurrentEpoch (any other operand fails the translation: closed). The kernel
//                           epochsTick holds the same expression; this fact names the decision "has this identifier
//                           started counting" on its own: the model reads the FLAG, never the number.
//   epochsAddEpochInfo    : x/epochs/keeper/epoch_infos.go AddEpochInfo — the whole body as a Lean function of the
//                           atoms (Validate failed, identifier already stored, start time unset, start time, start
//                           height, block time, block height) returning the error or the (start time, start height)
//                           of the entry written by setEpochInfoUnchecked. An assignment to any other field, a write
//                           before a check, a missing write, another statement: the translation fails.
//   epochsInitGenesisBody : x/epochs/keeper/genesis.go InitGenesis — its statements (AddEpochInfo of every entry in
//                           list order, error dropped)
//   epochsStoreWriters    : every function of x/epochs/keeper (non-test) that assigns a field of an EpochInfo or calls
//                           setEpochInfoUnchecked / store.Set / store.Delete: the model has exactly these writers

import (
	"fmt"
	"go/ast"
	"go/token"
	"os"
	"path/filepath"
	"sort"
	"strings"
)

func init() { factGens = append(factGens, genEpochsFacts) }

var epochInfoFields = map[string]bool{"Identifier": true, "StartTime": true, "Duration": true, "CurrentEpoch": true,
	"CurrentEpochStartTime": true, "EpochCountingStarted": true, "CurrentEpochStartHeight": true}

func genEpochsFacts(repo string, emit func(name, leanDef string, err error)) {
	// ---- isFirstTick
	func() {
		const name = "epochsFirstTickCond"
		fset, f, err := vParse(repo, "x/epochs/keeper/abci.go")
		if err != nil {
			emit(name, "", err)
			return
		}
		fd := findFunc(f, "Keeper.BeginBlocker")
		if fd == nil {
			emit(name, "", fmt.Errorf("Keeper.BeginBlocker not found"))
			return
		}
		var defs []*ast.AssignStmt
		ast.Inspect(fd.Body, func(x ast.Node) bool {
			if as, ok := x.(*ast.AssignStmt); ok {
				for _, l := range as.Lhs {
					if exprText(l) == "isFirstTick" {
						defs = append(defs, as)
					}
				}
			}
			return true
		})
		if len(defs) != 1 || defs[0].Tok != token.DEFINE || len(defs[0].Lhs) != 1 || len(defs[0].Rhs) != 1 {
			emit(name, "", fmt.Errorf("expected exactly one `isFirstTick := <expr>` in BeginBlocker, found %d assignment(s)", len(defs)))
			return
		}
		t := &vtr{fset: fset, atoms: map[string]vAtom{
			"epochInfo.EpochCountingStarted": {"epochCountingStarted", "Bool"},
			"epochInfo.CurrentEpoch":         {"currentEpoch", "Int"},
		}}
		body, e := vGuard(func() string {
			s, ty := t.expr(defs[0].Rhs[0])
			if ty != "Bool" {
				vfail("isFirstTick of type %s", ty)
			}
			return s
		})
		emit(name, "/-- x/epochs/keeper/abci.go: BeginBlocker — `isFirstTick := …` (is this identifier starting for the first time?) -/\ndef "+name+" (epochCountingStarted : Bool) (currentEpoch : Int) : Bool := "+body, e)
	}()

	// ---- AddEpochInfo
	func() {
		const name = "epochsAddEpochInfo"
		fset, f, err := vParse(repo, "x/epochs/keeper/epoch_infos.go")
		if err != nil {
			emit(name, "", err)
			return
		}
		fd := findFunc(f, "Keeper.AddEpochInfo")
		if fd == nil {
			emit(name, "", fmt.Errorf("Keeper.AddEpochInfo not found"))
			return
		}
		t := &vtr{fset: fset, atoms: map[string]vAtom{
			"store.Has([]byte(epochInfo.Identifier))": {"dup", "Bool"},
			"epochInfo.StartTime.IsZero()":            {"startTimeIsZero", "Bool"},
			"epochInfo.StartTime":                     {"startTime", "Int"},
			"epochInfo.CurrentEpochStartHeight":       {"startHeight", "Int"},
			"ctx.BlockTime()":                         {"blockTime", "Int"},
			"ctx.BlockHeight()":                       {"blockHeight", "Int"},
		}}
		const bindStore = "store := prefix.NewStore(ctx.KVStore(k.storeKey), types.KeyPrefixEpoch)"
		assignable := map[string]string{"epochInfo.StartTime": "startTime", "epochInfo.CurrentEpochStartHeight": "startHeight"}
		var walk func(list []ast.Stmt, stored, bound, startAssigned bool) string
		walk = func(list []ast.Stmt, stored, bound, startAssigned bool) string {
			if len(list) == 0 {
				vfail("AddEpochInfo falls off its end")
			}
			s, rest := list[0], list[1:]
			switch x := s.(type) {
			case *ast.ReturnStmt:
				if len(x.Results) != 1 {
					vfail("return arity in AddEpochInfo")
				}
				if exprText(x.Results[0]) != "nil" {
					return "Except.error \"" + errName(x.Results[0]) + "\""
				}
				if !stored {
					vfail("AddEpochInfo returns nil without having written the entry")
				}
				return "Except.ok (startTime, startHeight)"
			case *ast.AssignStmt:
				src := t.src(x)
				if src == bindStore {
					if stored {
						vfail("store re-bound after the write")
					}
					return walk(rest, stored, true, startAssigned)
				}
				if stored {
					vfail("assignment after the entry was written: %s", src)
				}
				if x.Tok != token.ASSIGN || len(x.Lhs) != 1 || len(x.Rhs) != 1 {
					vfail("unsupported assignment in AddEpochInfo: %s", src)
				}
				v, ok := assignable[t.src(x.Lhs[0])]
				if !ok {
					vfail("AddEpochInfo assigns %s (only an unset StartTime / CurrentEpochStartHeight may be filled in)", t.src(x.Lhs[0]))
				}
				val, ty := t.expr(x.Rhs[0])
				if ty != "Int" {
					vfail("assigning %s to %s", ty, v)
				}
				return "(let " + v + " := " + val + "; " + walk(rest, stored, bound, startAssigned || v == "startTime") + ")"
			case *ast.ExprStmt:
				if t.src(x) != "k.setEpochInfoUnchecked(ctx, epochInfo)" {
					vfail("unsupported call statement in AddEpochInfo: %s", t.src(x))
				}
				if stored {
					vfail("the entry is written twice")
				}
				return walk(rest, true, bound, startAssigned)
			case *ast.IfStmt:
				if x.Else != nil {
					vfail("else branch in AddEpochInfo: %s", t.src(x))
				}
				if stored {
					vfail("a condition after the entry was written: %s", t.src(x))
				}
				var cond string
				if x.Init != nil {
					if t.src(x.Init) != "err := epochInfo.Validate()" || t.src(x.Cond) != "err != nil" {
						vfail("unsupported if-initialiser in AddEpochInfo: %s; %s", t.src(x.Init), t.src(x.Cond))
					}
					if len(x.Body.List) != 1 || t.src(x.Body.List[0]) != "return err" {
						vfail("the Validate guard does not return the error")
					}
					return "(if invalid then Except.error \"Validate\" else " + walk(rest, stored, bound, startAssigned) + ")"
				}
				if strings.Contains(t.src(x.Cond), "store.") && !bound {
					vfail("`store` used before %s", bindStore)
				}
				if strings.Contains(t.src(x.Cond), "IsZero") && startAssigned {
					vfail("StartTime.IsZero() read after StartTime was assigned")
				}
				c, ty := t.expr(x.Cond)
				if ty != "Bool" {
					vfail("condition type %s", ty)
				}
				cond = c
				th := walk(append(append([]ast.Stmt{}, x.Body.List...), rest...), stored, bound, startAssigned)
				el := walk(rest, stored, bound, startAssigned)
				return "(if " + cond + " then " + th + " else " + el + ")"
			}
			vfail("unsupported statement in AddEpochInfo: %s", t.src(s))
			return ""
		}
		body, e := vGuard(func() string { return walk(fd.Body.List, false, false, false) })
		emit(name, "/-- x/epochs/keeper/epoch_infos.go: AddEpochInfo — error, or (StartTime, CurrentEpochStartHeight) of the entry written; every other field is written as received -/\ndef "+name+
			" (invalid : Bool) (dup : Bool) (startTimeIsZero : Bool) (startTime : Int) (startHeight : Int) (blockTime : Int) (blockHeight : Int) : Except String (Int × Int) :=\n  "+body, e)
	}()

	// ---- InitGenesis
	func() {
		const name = "epochsInitGenesisBody"
		fset, f, err := vParse(repo, "x/epochs/keeper/genesis.go")
		if err != nil {
			emit(name, "", err)
			return
		}
		fd := findFunc(f, "Keeper.InitGenesis")
		if fd == nil {
			emit(name, "", fmt.Errorf("Keeper.InitGenesis not found"))
			return
		}
		t := &vtr{fset: fset}
		var out []string
		for _, s := range fd.Body.List {
			out = append(out, t.src(s))
		}
		emit(name, "/-- x/epochs/keeper/genesis.go: InitGenesis — statements in source order -/\ndef "+name+" : List String := "+leanStrList(out), nil)
	}()

	// ---- writers
	func() {
		const name = "epochsStoreWriters"
		dir := filepath.Join(repo, "x/epochs/keeper")
		ents, err := os.ReadDir(dir)
		if err != nil {
			emit(name, "", err)
			return
		}
		set := map[string]bool{}
		for _, ent := range ents {
			fn := ent.Name()
			if ent.IsDir() || !strings.HasSuffix(fn, ".go") || strings.HasSuffix(fn, "_test.go") {
				continue
			}
			_, f, err := vParse(repo, "x/epochs/keeper/"+fn)
			if err != nil {
				emit(name, "", err)
				return
			}
			for _, d := range f.Decls {
				fd, ok := d.(*ast.FuncDecl)
				if !ok || fd.Body == nil {
					continue
				}
				note := func(what string) { set[fn+":"+fd.Name.Name+":"+what] = true }
				field := func(e ast.Expr) {
					if sel, ok := e.(*ast.SelectorExpr); ok && epochInfoFields[sel.Sel.Name] {
						note(sel.Sel.Name)
					}
				}
				ast.Inspect(fd.Body, func(x ast.Node) bool {
					switch y := x.(type) {
					case *ast.AssignStmt:
						for _, l := range y.Lhs {
							field(l)
						}
					case *ast.IncDecStmt:
						field(y.X)
					case *ast.UnaryExpr:
						if y.Op == token.AND { // &epochInfo.Field handed to somebody
							field(y.X)
						}
					case *ast.CallExpr:
						if sel, ok := y.Fun.(*ast.SelectorExpr); ok {
							switch sel.Sel.Name {
							case "setEpochInfoUnchecked":
								note("setEpochInfoUnchecked")
							case "Set", "Delete":
								if exprText(sel.X) == "store" {
									note("store." + sel.Sel.Name)
								}
							}
						}
					}
					return true
				})
			}
		}
		var out []string
		for k := range set {
			out = append(out, k)
		}
		sort.Strings(out)
		emit(name, "/-- x/epochs/keeper (non-test): file:func:what for every assignment to an EpochInfo field, every call of setEpochInfoUnchecked and every store.Set / store.Delete -/\ndef "+name+" : List String := "+leanStrList(out), nil)
	}()
}
