package main

// The kernels regenerated on every run. Each entry names the Go function and how its
// parameters/results map to the model's vocabulary.

var commonSkips = []string{"logger.", "ctx.Logger", "ctx.EventManager().EmitEvent", "ctx.EventManager().EmitEvents", "telemetry.", "k.Logger"}

var kernels = []*Kernel{
	{
		Name: "epochInfoValidate", File: "x/epochs/types/genesis.go", Func: "EpochInfo.Validate",
		Params: []string{"(epoch : ExoVerif.Epochs.EpochInfo)"}, RetType: "Except String Unit",
		Vars: map[string]string{"epoch": "ExoVerif.Epochs.EpochInfo"}, RetMode: "errOnly", RetExpr: "()",
	},
	{
		Name: "epochsTick", File: "x/epochs/keeper/abci.go", Func: "Keeper.BeginBlocker", Closure: true,
		Params:  []string{"(epochInfo : ExoVerif.Epochs.EpochInfo)", "(blockTime : Int)", "(blockHeight : Int)"},
		RetType: "ExoVerif.Epochs.EpochInfo × List ExoVerif.Epochs.Ev",
		Vars:    map[string]string{"epochInfo": "ExoVerif.Epochs.EpochInfo"},
		Prelude: []string{"let stored := epochInfo", "let evs : List ExoVerif.Epochs.Ev := []"},
		RetMode: "custom", RetExpr: "(stored, evs)",
		Calls: map[string]callRule{
			"ctx.BlockTime":   {"blockTime", "Int"},
			"ctx.BlockHeight": {"blockHeight", "Int"},
		},
		ErrCalls: map[string]string{"epochInfo.Validate": "(match epochInfoValidate $r with | .ok _ => false | .error _ => true)"},
		Effects: map[string]string{
			"k.Hooks().AfterEpochEnd":    "ExoVerif.Epochs.Ev.epochEnd $2 $3",
			"k.Hooks().BeforeEpochStart": "ExoVerif.Epochs.Ev.epochStart $2 $3",
		},
		Stores: map[string]string{"k.setEpochInfoUnchecked": "stored=1"},
		Skips:  commonSkips,
	},
	{
		Name: "tokensFromShares", File: "x/delegation/keeper/share.go", Func: "TokensFromShares",
		RetType: "Except String Int", RetMode: "valueErr", Skips: commonSkips,
	},
	{
		Name: "sharesFromTokens", File: "x/delegation/keeper/share.go", Func: "SharesFromTokens",
		RetType: "Except String ExoVerif.Dec", RetMode: "valueErr", Skips: commonSkips,
	},
	{
		Name: "calculateUSDValue", File: "x/operator/keeper/common_func.go", Func: "CalculateUSDValue",
		RetType: "ExoVerif.Dec", RetMode: "value", Skips: commonSkips,
	},
	{
		Name: "updateAssetValue", File: "x/assets/types/general.go", Func: "UpdateAssetValue",
		RetType: "Except String Int", RetMode: "errOnly", RetExpr: "valueToUpdate", Skips: commonSkips,
	},
	{
		Name: "updateAssetDecValue", File: "x/assets/types/general.go", Func: "UpdateAssetDecValue",
		RetType: "Except String ExoVerif.Dec", RetMode: "errOnly", RetExpr: "valueToUpdate", Skips: commonSkips,
	},
}
