package main

// C19 kernels: x/evm/keeper/gas.go GasToRefund (whole function, via the kernel table) and the
// minimum-gas expressions of ApplyMessageWithConfig (statement slices, written by facts_evmfee.go into
// Generated/EvmFee.lean because Facts.lean has no imports).

func init() {
	kernels = append(kernels, &Kernel{
		Name: "evmGasToRefund", File: "x/evm/keeper/gas.go", Func: "GasToRefund",
		RetType: "Int", RetMode: "value", Skips: commonSkips,
	})
	funcs["math.LegacyNewDec"] = callRule{"(ExoVerif.Dec.ofInt $1)", "Dec"}
	funcs["math.LegacyMaxDec"] = callRule{"(ExoVerif.Dec.maxDec $1 $2)", "Dec"}
	funcs["math.LegacyMinDec"] = callRule{"(ExoVerif.Dec.minDec $1 $2)", "Dec"}
}
