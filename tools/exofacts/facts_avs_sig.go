package main

// C20 fact `avsPhase2Verify`: the data flow of the phase-two signature check of
// x/avs/keeper/task.go SetTaskResultInfo, regenerated from the Go source on every run.
//
// The guard skeleton (avsSubmitGuards) pins the conditions and their order; it does not say WHAT
// `blst.VerifySignature` is called on. This fact does: in source order
//
//	("verify", <the one call of blst.VerifySignature in the function, must be inside case TwoPhaseCommitTwo>)
//	("parse",  <every call of types.UnmarshalTaskResponse>)
//	("store",  <every store.Set of case TwoPhaseCommitTwo>)
//	("set",    <every assignment to a field of the submitted `info` anywhere in the function>)
//	("def",    <every assignment that defines a local variable the verify / parse / store operands depend on,
//	            transitively (err excluded)>)
//
// so that verifying over another digest (the re-marshalled response, a hash of parsed fields, the hash the
// caller sent), with another key, recording another hash, or storing something else than `info` changes the
// generated list and breaks C20_tie_phase2_verify_dataflow. Anything unexpected fails closed.

import (
	"fmt"
	"go/ast"
	"go/parser"
	"go/token"
	"sort"
	"strings"
)

func init() { factGens = append(factGens, avsSigFacts) }

func avsSigFacts(repo string, emit func(name, leanDef string, err error)) {
	const fact = "avsPhase2Verify"
	fset := token.NewFileSet()
	f, err := parser.ParseFile(fset, repo+"/x/avs/keeper/task.go", nil, 0)
	if err != nil {
		emit(fact, "", err)
		return
	}
	fn := avsFindFunc(f, "SetTaskResultInfo")
	if fn == nil {
		emit(fact, "", fmt.Errorf("x/avs/keeper/task.go: SetTaskResultInfo not found"))
		return
	}
	// the case clause of phase two
	var two *ast.CaseClause
	nSwitch := 0
	ast.Inspect(fn.Body, func(n ast.Node) bool {
		sw, ok := n.(*ast.SwitchStmt)
		if !ok {
			return true
		}
		nSwitch++
		for _, c := range sw.Body.List {
			cc := c.(*ast.CaseClause)
			for _, l := range cc.List {
				if avsSrc(fset, l) == "types.TwoPhaseCommitTwo" {
					two = cc
				}
			}
		}
		return true
	})
	if two == nil || nSwitch != 1 {
		emit(fact, "", fmt.Errorf("SetTaskResultInfo: %d switch statements, case types.TwoPhaseCommitTwo found: %v", nSwitch, two != nil))
		return
	}
	inTwo := func(n ast.Node) bool { return n.Pos() >= two.Pos() && n.End() <= two.End() }
	type item struct {
		pos        token.Pos
		kind, text string
	}
	var items []item
	roots := map[string]bool{}
	addRoots := func(e ast.Node) {
		ast.Inspect(e, func(n ast.Node) bool {
			switch t := n.(type) {
			case *ast.SelectorExpr:
				// x.f: only the root identifier is a variable
				ast.Inspect(t.X, func(m ast.Node) bool {
					if id, ok := m.(*ast.Ident); ok {
						roots[id.Name] = true
					}
					return true
				})
				return false
			case *ast.Ident:
				roots[t.Name] = true
			}
			return true
		})
	}
	nVerify := 0
	var bad error
	ast.Inspect(fn.Body, func(n ast.Node) bool {
		c, ok := n.(*ast.CallExpr)
		if !ok {
			return true
		}
		switch avsSrc(fset, c.Fun) {
		case "blst.VerifySignature":
			nVerify++
			if !inTwo(c) {
				bad = fmt.Errorf("SetTaskResultInfo: blst.VerifySignature is called outside case TwoPhaseCommitTwo")
			}
			items = append(items, item{c.Pos(), "verify", avsSrc(fset, c)})
			for _, a := range c.Args {
				addRoots(a)
			}
		case "types.UnmarshalTaskResponse":
			items = append(items, item{c.Pos(), "parse", avsSrc(fset, c)})
			for _, a := range c.Args {
				addRoots(a)
			}
		case "store.Set":
			if inTwo(c) {
				items = append(items, item{c.Pos(), "store", avsSrc(fset, c)})
				for _, a := range c.Args {
					addRoots(a)
				}
			}
		}
		return true
	})
	if bad != nil || nVerify != 1 {
		if bad == nil {
			bad = fmt.Errorf("SetTaskResultInfo: %d calls of blst.VerifySignature, want exactly 1", nVerify)
		}
		emit(fact, "", bad)
		return
	}
	// parameters and the receiver are not local definitions; `err` carries no data
	skip := map[string]bool{"err": true, "_": true, "nil": true, "true": true, "false": true}
	// assignments of the function, in source order
	type asg struct {
		pos  token.Pos
		lhs  []string
		text string
		rhs  []ast.Expr
	}
	var asgs []asg
	ast.Inspect(fn.Body, func(n ast.Node) bool {
		switch t := n.(type) {
		case *ast.AssignStmt:
			a := asg{pos: t.Pos(), text: avsSrc(fset, t), rhs: t.Rhs}
			for _, l := range t.Lhs {
				a.lhs = append(a.lhs, avsSrc(fset, l))
			}
			asgs = append(asgs, a)
		case *ast.ValueSpec:
			a := asg{pos: t.Pos(), text: "var " + avsSrc(fset, t), rhs: t.Values}
			for _, l := range t.Names {
				a.lhs = append(a.lhs, l.Name)
			}
			asgs = append(asgs, a)
		case *ast.IncDecStmt, *ast.RangeStmt, *ast.FuncLit, *ast.GoStmt, *ast.DeferStmt:
			bad = fmt.Errorf("SetTaskResultInfo: statement form %T is outside what the data-flow fact understands", t)
		}
		return true
	})
	if bad != nil {
		emit(fact, "", bad)
		return
	}
	done := map[int]bool{}
	for changed := true; changed; {
		changed = false
		for i, a := range asgs {
			if done[i] {
				continue
			}
			hit := false
			for _, l := range a.lhs {
				root := l
				if j := strings.IndexAny(l, ".[("); j >= 0 {
					root = l[:j]
				}
				if l != root && root == "info" { // a field of the submitted info is overwritten
					hit = true
				}
				if !skip[root] && roots[root] && root != "info" {
					hit = true
				}
			}
			if !hit {
				continue
			}
			done[i] = true
			changed = true
			kind := "def"
			for _, l := range a.lhs {
				if strings.HasPrefix(l, "info.") || l == "info" {
					kind = "set"
				}
			}
			items = append(items, item{a.pos, kind, a.text})
			for _, r := range a.rhs {
				addRoots(r)
			}
		}
	}
	// `info` itself must never be re-bound
	for _, a := range asgs {
		for _, l := range a.lhs {
			if l == "info" {
				emit(fact, "", fmt.Errorf("SetTaskResultInfo: the parameter info is re-assigned: %s", a.text))
				return
			}
		}
	}
	sort.SliceStable(items, func(i, j int) bool { return items[i].pos < items[j].pos })
	var b strings.Builder
	fmt.Fprintf(&b, "/-- x/avs/keeper/task.go: SetTaskResultInfo — what the phase-two BLS check is called on, what is parsed, what is recorded and stored, and the definitions these operands depend on (source order) -/\ndef %s : List (String × String) := [", fact)
	for i, it := range items {
		if i > 0 {
			b.WriteString(",")
		}
		fmt.Fprintf(&b, "\n  (%q, %q)", it.kind, it.text)
	}
	b.WriteString("]")
	emit(fact, b.String(), nil)
}
