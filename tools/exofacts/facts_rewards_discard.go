package main

// Facts for C17, parameter updates on a dropped branch (Model/DistributionBatch.lean, Props/C17Discard.lean): the
// model lets a dropped branch leave NOTHING behind because the handlers and hooks of x/exomint and x/feedistribution
// reach their parameters only through the KVStore of the context they are given. That needs (a) GetParams / SetParams
// to be the plain store read / write (shape facts shapeMintGetParams … of facts_rewards_params.go) and (b) the
// keepers to hold no process memory a handler could write through: the field list of each Keeper struct
// (name and type as written) and the package-level variables of the keeper packages (non-test files) are emitted
// here; a pointer / map / cache field or a package variable added to carry decoded state breaks
// `C17_tie_mintKeeperFields` / `C17_tie_distrKeeperFields` / `C17_tie_keeperPkgVars`.

import (
	"bytes"
	"fmt"
	"go/ast"
	"go/parser"
	"go/printer"
	"go/token"
	"os"
	"path/filepath"
	"sort"
	"strings"
)

func init() {
	factGens = append(factGens, func(repo string, emit func(name, leanDef string, err error)) {
		var vars []string
		var verr error
		for _, m := range []struct{ name, dir string }{
			{"mintKeeperFields", "x/exomint/keeper"},
			{"distrKeeperFields", "x/feedistribution/keeper"},
		} {
			fields, pv, err := keeperMemory(repo, m.dir)
			emit(m.name, "/-- "+m.dir+": the fields of `type Keeper struct` (name type, as written) -/\ndef "+m.name+" : List String := "+leanStrList(fields), err)
			if err != nil && verr == nil {
				verr = err
			}
			vars = append(vars, pv...)
		}
		emit("keeperPkgVars", "/-- x/exomint/keeper, x/feedistribution/keeper (non-test files): package-level `var` declarations (dir: name type), interface assertions `var _ T = …` aside -/\ndef keeperPkgVars : List String := "+leanStrList(vars), verr)
	})
}

func keeperMemory(repo, dir string) (fields, pkgVars []string, err error) {
	ents, err := os.ReadDir(filepath.Join(repo, dir))
	if err != nil {
		return nil, nil, err
	}
	fset := token.NewFileSet()
	render := func(n ast.Node) string {
		var b bytes.Buffer
		_ = printer.Fprint(&b, fset, n)
		return strings.Join(strings.Fields(b.String()), " ")
	}
	found := false
	var names []string
	for _, e := range ents {
		if !e.IsDir() && strings.HasSuffix(e.Name(), ".go") && !strings.HasSuffix(e.Name(), "_test.go") {
			names = append(names, e.Name())
		}
	}
	sort.Strings(names)
	for _, fn := range names {
		f, perr := parser.ParseFile(fset, filepath.Join(repo, dir, fn), nil, 0)
		if perr != nil {
			return nil, nil, perr
		}
		for _, d := range f.Decls {
			gd, ok := d.(*ast.GenDecl)
			if !ok {
				continue
			}
			for _, sp := range gd.Specs {
				switch s := sp.(type) {
				case *ast.TypeSpec:
					st, isStruct := s.Type.(*ast.StructType)
					if s.Name.Name != "Keeper" || !isStruct {
						continue
					}
					if found {
						return nil, nil, fmt.Errorf("%s: more than one Keeper struct", dir)
					}
					found = true
					for _, fl := range st.Fields.List {
						t := render(fl.Type)
						if len(fl.Names) == 0 {
							fields = append(fields, "(embedded) "+t)
						}
						for _, n := range fl.Names {
							fields = append(fields, n.Name+" "+t)
						}
					}
				case *ast.ValueSpec:
					if gd.Tok != token.VAR {
						continue
					}
					for _, n := range s.Names {
						if n.Name == "_" {
							continue
						}
						t := ""
						if s.Type != nil {
							t = " " + render(s.Type)
						}
						pkgVars = append(pkgVars, dir+"/"+fn+": "+n.Name+t)
					}
				}
			}
		}
	}
	if !found {
		return nil, nil, fmt.Errorf("%s: no `type Keeper struct`", dir)
	}
	return fields, pkgVars, nil
}
