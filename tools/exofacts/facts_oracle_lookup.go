package main

// Oracle look-up facts (C13, "its … decimals match the feeder's … token"): WHICH token's decimals a
// submission for feeder f is compared with.
//
//   oracleCheckDecimal        x/oracle/types/params.go  Params.CheckDecimal, translated into a Lean function over the
//                             two id tables of the params (token id of every feeder, decimals of every token). The
//                             function must consist of single-assignment look-ups `x := <path>` followed by
//                             `return <path> == <path>`, a path being a parameter, a local, `p.TokenFeeders[e]`,
//                             `p.Tokens[e]`, `<feeder>.TokenID`, `<token>.Decimal` or a sized-int conversion of a
//                             path. Everything else (a call of a helper, a branch, a loop, another field) FAILS the
//                             fact: the helper's parameter may be a feeder id where a token id is passed (seed C13-g),
//                             and that is not visible at the call. What regenerates is compared with the model's
//                             `Params.tokenDecimal` by Props/C13DecimalsTie.lean: C13_tie_check_decimal — a second
//                             indirection through the feeder table regenerates but fails that proof.
//                             An index out of range panics in Go; the Lean function reads the default there, and the
//                             tie theorem is stated for indexes in range.
//   oracleDecimalLookupShape  the other places where the decimals of a feeder's token are read or the check is applied,
//                             as source text: checkMsg applies CheckDecimal to EVERY price of EVERY source with the
//                             message's feeder id; GetTokenInfo(feederID) is `Tokens[TokenFeeders[feederID].TokenID]`;
//                             newWorker and FillPrice read the decimals through GetTokenInfo(<feeder id>), FillPrice the
//                             token id through GetTokenFeeder(<feeder id>).

import (
	"fmt"
	"go/ast"
	"go/token"
	"strings"
)

func init() { factGens = append(factGens, oracleLookupFacts) }

type lkVal struct {
	kind string // "nat" | "int" | "feeder" | "token"
	lean string // value expression (nat/int) or index expression (feeder/token)
}

func oracleLookupFacts(repo string, emit func(name, leanDef string, err error)) {
	func() {
		const name = "oracleCheckDecimal"
		const file = "x/oracle/types/params.go"
		f, _, err := parseRepo(repo, file)
		if err != nil {
			emit(name, "", err)
			return
		}
		fd := findFunc(f, "Params.CheckDecimal")
		if fd == nil {
			emit(name, "", fmt.Errorf("Params.CheckDecimal not found in %s", file))
			return
		}
		def, terr := func() (out string, err error) {
			defer func() {
				if r := recover(); r != nil {
					if te, ok := r.(trErr); ok {
						err = fmt.Errorf("Params.CheckDecimal: %s", te.msg)
						return
					}
					panic(r)
				}
			}()
			if len(fd.Recv.List) != 1 || len(fd.Recv.List[0].Names) != 1 {
				failf("receiver not named")
			}
			recv := fd.Recv.List[0].Names[0].Name
			var pnames, ptypes []string
			for _, fl := range fd.Type.Params.List {
				for _, n := range fl.Names {
					pnames = append(pnames, n.Name)
					ptypes = append(ptypes, exprText(fl.Type))
				}
			}
			if len(pnames) != 2 || ptypes[0] != "uint64" || ptypes[1] != "int32" {
				failf("signature is (%s), expected (feederID uint64, decimal int32)", strings.Join(ptypes, ", "))
			}
			if fd.Type.Results == nil || len(fd.Type.Results.List) != 1 || exprText(fd.Type.Results.List[0].Type) != "bool" {
				failf("result type is not bool")
			}
			env := map[string]lkVal{pnames[0]: {"nat", "feederID"}, pnames[1]: {"int", "decimal"}}
			var path func(e ast.Expr) lkVal
			path = func(e ast.Expr) lkVal {
				switch x := e.(type) {
				case *ast.ParenExpr:
					return path(x.X)
				case *ast.Ident:
					v, ok := env[x.Name]
					if !ok {
						failf("unknown name %s", x.Name)
					}
					return v
				case *ast.CallExpr:
					if id, ok := x.Fun.(*ast.Ident); ok && len(x.Args) == 1 && (id.Name == "uint64" || id.Name == "int" || id.Name == "int64") {
						v := path(x.Args[0])
						if v.kind != "nat" {
							failf("conversion %s of a %s", id.Name, v.kind)
						}
						return v
					}
					failf("call %s(…): only field / index look-ups on %s are translated (a helper may take a different kind of id than it is given)", exprText(x.Fun), recv)
				case *ast.IndexExpr:
					idx := path(x.Index)
					if idx.kind != "nat" {
						failf("index of kind %s", idx.kind)
					}
					switch exprText(x.X) {
					case recv + ".TokenFeeders":
						return lkVal{"feeder", idx.lean}
					case recv + ".Tokens":
						return lkVal{"token", idx.lean}
					}
					failf("index into %s", exprText(x.X))
				case *ast.SelectorExpr:
					base := path(x.X)
					switch {
					case base.kind == "feeder" && x.Sel.Name == "TokenID":
						return lkVal{"nat", "(feederTokenID.getD " + base.lean + " 0)"}
					case base.kind == "token" && x.Sel.Name == "Decimal":
						return lkVal{"int", "(tokenDecimal.getD " + base.lean + " 0)"}
					}
					failf("field %s of a %s", x.Sel.Name, base.kind)
				}
				failf("expression %s is not a look-up path", exprText(e))
				return lkVal{}
			}
			body := fd.Body.List
			if len(body) == 0 {
				failf("empty body")
			}
			for _, st := range body[:len(body)-1] {
				as, ok := st.(*ast.AssignStmt)
				if !ok || as.Tok != token.DEFINE || len(as.Lhs) != 1 || len(as.Rhs) != 1 {
					failf("statement is not a single `x := <look-up>` (branches, loops and helper calls are not translated)")
				}
				id, ok := as.Lhs[0].(*ast.Ident)
				if !ok {
					failf("assignment target is not a name")
				}
				if _, dup := env[id.Name]; dup {
					failf("%s assigned twice", id.Name)
				}
				env[id.Name] = path(as.Rhs[0])
			}
			ret, ok := body[len(body)-1].(*ast.ReturnStmt)
			if !ok || len(ret.Results) != 1 {
				failf("last statement is not `return <a> == <b>`")
			}
			be, ok := ret.Results[0].(*ast.BinaryExpr)
			if !ok || be.Op != token.EQL {
				failf("result %s is not an equality", exprText(ret.Results[0]))
			}
			l, r := path(be.X), path(be.Y)
			if l.kind != "int" || r.kind != "int" {
				failf("equality between a %s and a %s", l.kind, r.kind)
			}
			return fmt.Sprintf("/-- %s: Params.CheckDecimal — the look-up as written, over the params' two id tables: `feederTokenID[i]` = TokenFeeders[i].TokenID, `tokenDecimal[t]` = Tokens[t].Decimal (indexes in range; Go panics otherwise) -/\ndef %s (feederTokenID : List Nat) (tokenDecimal : List Int) (feederID : Nat) (decimal : Int) : Bool :=\n  decide (%s = %s)", file, name, l.lean, r.lean), nil
		}()
		emit(name, def, terr)
	}()
	func() {
		const name = "oracleDecimalLookupShape"
		type want struct{ file, fn, frag string }
		wants := []want{
			{"x/oracle/keeper/aggregator/context.go", "AggregatorContext.checkMsg",
				"for _, pSource := range msg.Prices { for _, pTimeDetID := range pSource.Prices { if ok := agc.params.CheckDecimal(msg.FeederID, pTimeDetID.Decimal); !ok { return fmt.Errorf("},
			{"x/oracle/types/params.go", "Params.GetTokenInfo",
				"{ for k, v := range p.TokenFeeders { if uint64(k) == feederID { return p.Tokens[v.TokenID] } } return nil }"},
			{"x/oracle/types/params.go", "Params.GetTokenFeeder",
				"{ for k, v := range p.TokenFeeders { if uint64(k) == feederID { return v } } return nil }"},
			{"x/oracle/keeper/aggregator/worker.go", "newWorker", "decimal: agc.params.GetTokenInfo(feederID).Decimal,"},
			{"x/oracle/keeper/aggregator/context.go", "AggregatorContext.FillPrice", "agc.params.GetTokenFeeder(msg.FeederID).TokenID"},
			{"x/oracle/keeper/aggregator/context.go", "AggregatorContext.FillPrice", "Decimal: agc.params.GetTokenInfo(msg.FeederID).Decimal,"},
		}
		var got []string
		for _, w := range wants {
			f, fset, err := parseRepo(repo, w.file)
			if err != nil {
				emit(name, "", err)
				return
			}
			fd := findFunc(f, w.fn)
			if fd == nil {
				emit(name, "", fmt.Errorf("%s not found in %s", w.fn, w.file))
				return
			}
			src, _ := readFile(repo + "/" + w.file)
			if body := orcNodeText(fset, src, fd.Body); !strings.Contains(body, w.frag) {
				emit(name, "", fmt.Errorf("%s: expected source fragment %q not found (the code changed: re-validate the model)", w.fn, w.frag))
				return
			}
			got = append(got, w.fn+": "+w.frag)
		}
		emit(name, fmt.Sprintf("/-- where the decimals of a feeder's token are read / checked — source fragments the model transcribes (Params.tokenDecimal, Agc.checkMsg, newWorker, Agc.fillPrice) -/\ndef %s : List String := %s", name, leanStrList(got)), nil)
	}()
}
