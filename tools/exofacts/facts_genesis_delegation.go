package main

// C18 fact pinning the CONDITIONS of the x/delegation genesis validation (same extractor as facts_genesis_guards.go):
//   delegationValidateGuards  per Validate* function of x/delegation/types/genesis.go: the condition of every `if`
//                             (closures included) whose body returns an error, in source order.
// Model/GenesisDelegation.lean validateUnd carries the three clauses of ValidateUndelegations behind the TxHash checks; a
// further rejection (e.g. of a record whose ActualCompletedAmount a slash has brought to zero) changes this list.

import (
	"fmt"
	"go/parser"
	"go/token"
	"strings"
)

func genesisDelegationGuardsGen(repo string, emit func(name, leanDef string, err error)) {
	const name, file = "delegationValidateGuards", "x/delegation/types/genesis.go"
	f, err := parser.ParseFile(token.NewFileSet(), repo+"/"+file, nil, 0)
	if err != nil {
		emit(name, "", err)
		return
	}
	var rows []string
	for _, fn := range []string{"ValidateAssociations", "ValidateDelegationStates", "ValidateStakerList", "ValidateUndelegations", "Validate"} {
		fd := findFunc(f, "GenesisState."+fn)
		if fd == nil {
			emit(name, "", fmt.Errorf("%s: GenesisState.%s not found", file, fn))
			return
		}
		rows = append(rows, fmt.Sprintf("(%q, %s)", fn, leanStrList(errorGuardsDeep(fd))))
	}
	emit(name, "/-- "+file+": per Validate* function the conditions under which it returns an error, in source order -/\ndef "+name+
		" : List (String × List String) := [\n  "+strings.Join(rows, ",\n  ")+"]", nil)
}

func init() { factGens = append(factGens, genesisDelegationGuardsGen) }
