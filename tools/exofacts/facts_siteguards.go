package main

// C11: local safety obligations of the panic-capable sites on block paths, regenerated as Lean Bool kernels.
//
// For every site of kind index (x[e], x[a:b]), intdiv (a / b, a % b on Go integers), newcoin (sdk.NewCoin with a
// computed amount) in a function reachable from Begin/EndBlock (facts_liveness.go) the extractor collects the
// LOCAL facts that hold whenever control reaches the site and the condition under which the operation
// does not panic, and emits
//
//	def siteGuard_<Func>_<expr> (ints… : Int) (flags… : Bool) : Bool := h₁ && h₂ && …   -- what is known
//	def siteSafe_<Func>_<expr>  (ints… : Int) (flags… : Bool) : Bool := …              -- what is needed
//
// Props/C11Guards.lean proves `siteGuard … = true → siteSafe … = true` for ALL values of the parameters. A
// weakened / removed guard, a changed loop bound or a changed operand changes the kernels and the lemma stops
// being provable (the index fact `siteGuardIndex` pins which site got which kernel, and why others did not).
//
// Facts (each one only when it is *stable*: no assignment to the variables / containers it mentions between
// the point where it is established and the site, counting the whole body of every loop entered in between):
//
//	guard     conditions of enclosing `if`s / negated conditions of earlier `if … { return|continue|break|panic }`
//	          siblings (facts_liveness.go: dominatingGuards) and of enclosing `for cond` loops
//	range     `for i(, v) := range X` over a slice / array / string: 0 ≤ i < len(X)
//	cmp       the closure passed to sort.Slice / sort.SliceStable(X, func(i, j int) bool): 0 ≤ i, j < len(X)
//	          [contract of package sort]
//	init      `for i := a; …; i++` (i not assigned in the body): a ≤ i
//	exit      `i := c; for ; i < N; i++ { … }` followed by the site: c ≤ i ∧ (i ≤ N ∨ i = c); an
//	          `if g { i-- }` between the loop and the site becomes a new version of i
//	def       `v := e` for a local assigned exactly once: v = e
//	counter   `v := <literal c>` and every other write of v is `v++` / `v += <literal ≥ 0>`: c ≤ v
//	make      `x := make([]T, n)` for a local assigned exactly once: len(x) = n
//	split     `x := strings.Split(s, sep)` with a non-empty constant sep: 1 ≤ len(x)  [contract of package strings]
//	prefix    `it := sdk.KVStorePrefixIterator(store, P)`: len(P) ≤ len(it.Key())  [contract of the store iterator]
//	post      `x, err := F(…)` with F declared in the repository, returning ([]T, error): the disjunction over F's
//	          `return R, nil` statements of the local facts there (arguments substituted for parameters), provided
//	          every other return of F returns an error that is certainly not nil; used when the next statement is
//	          `if err != nil { leave }` (or, otherwise, under the flag err == nil)
//	nonneg    0 ≤ len(…); 0 ≤ v for v of an unsigned type
//
// Go's fixed-width signed arithmetic is modelled in ℤ (index arithmetic on lengths and loop counters does not
// overflow); subtraction on unsigned operands is NOT translated (it wraps). Ordered comparisons are translated
// for integer operands only. Conjuncts outside the translated subset are left out of the guard (which only
// weakens what the lemma may assume) and listed in the kernel's doc comment. Closures: facts established outside
// the innermost enclosing func literal are used only when the literal is passed directly to a sort.* call.
//
// Before a kernel pair is emitted the extractor searches small integer assignments for a counterexample
// (guard true, safe false): if one exists the site is NOT locally safe; no kernel is emitted and the index
// records the assignment (such a site has to be discharged by a state invariant, or is a defect).

import (
	"fmt"
	"go/ast"
	"go/token"
	"sort"
	"strconv"
	"strings"
)

// ---------------------------------------------------------------- expression trees

type sgI struct {
	op   string // atom | lit | + | - | * | / | % | ite
	name string
	v    int64
	a, b *sgI
	c    *sgB
}

type sgB struct {
	op   string // true | flag | not | and | or | == | != | < | <=
	name string
	x, y *sgB
	a, b *sgI
}

func (e *sgI) lean() string {
	switch e.op {
	case "atom":
		return e.name
	case "lit":
		return fmt.Sprintf("(%d : Int)", e.v)
	case "+", "-", "*":
		return "(" + e.a.lean() + " " + e.op + " " + e.b.lean() + ")"
	case "/":
		return "(Int.tdiv " + e.a.lean() + " " + e.b.lean() + ")"
	case "%":
		return "(Int.tmod " + e.a.lean() + " " + e.b.lean() + ")"
	case "ite":
		return "(if " + e.c.lean() + " then " + e.a.lean() + " else " + e.b.lean() + ")"
	}
	return "?"
}

func (e *sgB) lean() string {
	switch e.op {
	case "true":
		return "true"
	case "flag":
		return e.name
	case "not":
		return "(!" + e.x.lean() + ")"
	case "and":
		return "(" + e.x.lean() + " && " + e.y.lean() + ")"
	case "or":
		return "(" + e.x.lean() + " || " + e.y.lean() + ")"
	case "==":
		return "(" + e.a.lean() + " == " + e.b.lean() + ")"
	case "!=":
		return "(" + e.a.lean() + " != " + e.b.lean() + ")"
	case "<":
		return "(decide (" + e.a.lean() + " < " + e.b.lean() + "))"
	case "<=":
		return "(decide (" + e.a.lean() + " ≤ " + e.b.lean() + "))"
	}
	return "?"
}

type sgEnv struct {
	ints  map[string]int64
	flags map[string]bool
}

// eval returns ok=false on a division by zero inside the expression (that assignment is skipped)
func (e *sgI) eval(env *sgEnv) (int64, bool) {
	switch e.op {
	case "atom":
		return env.ints[e.name], true
	case "lit":
		return e.v, true
	case "ite":
		c, ok := e.c.eval(env)
		if !ok {
			return 0, false
		}
		if c {
			return e.a.eval(env)
		}
		return e.b.eval(env)
	}
	a, ok1 := e.a.eval(env)
	b, ok2 := e.b.eval(env)
	if !ok1 || !ok2 {
		return 0, false
	}
	switch e.op {
	case "+":
		return a + b, true
	case "-":
		return a - b, true
	case "*":
		return a * b, true
	case "/":
		if b == 0 {
			return 0, false
		}
		return a / b, true // Go and Int.tdiv both truncate towards zero
	case "%":
		if b == 0 {
			return 0, false
		}
		return a % b, true
	}
	return 0, false
}

func (e *sgB) eval(env *sgEnv) (bool, bool) {
	switch e.op {
	case "true":
		return true, true
	case "flag":
		return env.flags[e.name], true
	case "not":
		x, ok := e.x.eval(env)
		return !x, ok
	case "and", "or":
		x, ok1 := e.x.eval(env)
		y, ok2 := e.y.eval(env)
		if !ok1 || !ok2 {
			return false, false
		}
		if e.op == "and" {
			return x && y, true
		}
		return x || y, true
	}
	a, ok1 := e.a.eval(env)
	b, ok2 := e.b.eval(env)
	if !ok1 || !ok2 {
		return false, false
	}
	switch e.op {
	case "==":
		return a == b, true
	case "!=":
		return a != b, true
	case "<":
		return a < b, true
	case "<=":
		return a <= b, true
	}
	return false, false
}

func (e *sgI) collect(ints, flags map[string]bool) {
	if e == nil {
		return
	}
	if e.op == "atom" {
		ints[e.name] = true
	}
	e.a.collect(ints, flags)
	e.b.collect(ints, flags)
	e.c.collect(ints, flags)
}

func (e *sgB) collect(ints, flags map[string]bool) {
	if e == nil {
		return
	}
	if e.op == "flag" {
		flags[e.name] = true
	}
	e.x.collect(ints, flags)
	e.y.collect(ints, flags)
	e.a.collect(ints, flags)
	e.b.collect(ints, flags)
}

func sgAtom(n string) *sgI            { return &sgI{op: "atom", name: n} }
func sgLit(v int64) *sgI              { return &sgI{op: "lit", v: v} }
func sgBin(op string, a, b *sgI) *sgI { return &sgI{op: op, a: a, b: b} }
func sgCmp(op string, a, b *sgI) *sgB { return &sgB{op: op, a: a, b: b} }
func sgNot(x *sgB) *sgB               { return &sgB{op: "not", x: x} }
func sgAnd(x, y *sgB) *sgB            { return &sgB{op: "and", x: x, y: y} }
func sgOr(x, y *sgB) *sgB             { return &sgB{op: "or", x: x, y: y} }

// ---------------------------------------------------------------- translation of Go expressions

// an atom of the kernel and what it stands for in the Go source
type sgAtomInfo struct {
	path     string // Go source text of the variable / field path / container (for len atoms)
	isLen    bool
	unsigned bool
}

type sgTr struct {
	s      *xScope
	fn     *xFunc
	atoms  map[string]*sgAtomInfo // lean name -> info
	rename map[string]string      // Go identifier -> lean atom name (versions of a loop counter)
}

func newSgTr(s *xScope, fn *xFunc) *sgTr {
	return &sgTr{s: s, fn: fn, atoms: map[string]*sgAtomInfo{}, rename: map[string]string{}}
}

var unsignedNames = map[string]bool{"uint": true, "uint8": true, "uint16": true, "uint32": true, "uint64": true, "uintptr": true, "byte": true}
var intWidth = map[string]int{"int8": 8, "int16": 16, "int32": 32, "int64": 64, "int": 64, "rune": 32,
	"uint8": 8, "byte": 8, "uint16": 16, "uint32": 32, "uint64": 64, "uint": 64, "uintptr": 64}

// goIntType: the predeclared integer type name of an expression, "" when unknown / not an integer
func (t *sgTr) goIntType(e ast.Expr) string {
	ty := t.s.typeOf(e)
	if ty.E == nil {
		return ""
	}
	for depth := 0; depth < 8; depth++ {
		switch x := ty.E.(type) {
		case *ast.Ident:
			if _, ok := intWidth[x.Name]; ok {
				return x.Name
			}
			if ty.F != nil {
				if td := ty.F.Pkg.Types[x.Name]; td != nil {
					ty = xType{td.Expr, td.File}
					continue
				}
			}
			return ""
		case *ast.ParenExpr:
			ty = xType{x.X, ty.F}
			continue
		}
		return ""
	}
	return ""
}

// pathText: identifier / field path / index-free selector chain -> source text; "" otherwise
func pathText(e ast.Expr) string {
	switch t := e.(type) {
	case *ast.Ident:
		if t.Name == "nil" || t.Name == "true" || t.Name == "false" || t.Name == "_" {
			return ""
		}
		return t.Name
	case *ast.ParenExpr:
		return pathText(t.X)
	case *ast.StarExpr:
		return pathText(t.X)
	case *ast.SelectorExpr:
		if p := pathText(t.X); p != "" {
			return p + "." + t.Sel.Name
		}
	}
	return ""
}

func (t *sgTr) atomFor(e ast.Expr) (*sgI, bool) {
	p := pathText(e)
	if p == "" {
		return nil, false
	}
	name := sanitize(p)
	if id, ok := e.(*ast.Ident); ok {
		if r, ok := t.rename[id.Name]; ok {
			name = r
		}
	}
	if leanReserved[name] {
		name = name + "_v"
	}
	if t.atoms[name] == nil {
		t.atoms[name] = &sgAtomInfo{path: p, unsigned: unsignedNames[t.goIntType(e)]}
	}
	return sgAtom(name), true
}

func (t *sgTr) flagFor(path, suffix string) *sgB {
	name := sanitize(path) + suffix
	if t.atoms[name] == nil {
		t.atoms[name] = &sgAtomInfo{path: path}
	}
	return &sgB{op: "flag", name: name}
}

var leanReserved = map[string]bool{"true": true, "false": true, "if": true, "then": true, "else": true, "decide": true, "Int": true, "end": true, "from": true,
	"at": true, "fun": true, "let": true, "do": true, "in": true, "by": true, "have": true, "show": true, "open": true, "where": true, "with": true, "match": true,
	"Type": true, "Prop": true, "Sort": true, "forall": true, "exists": true, "def": true, "theorem": true, "for": true, "return": true, "instance": true,
	"structure": true, "namespace": true, "section": true, "variable": true, "import": true, "mut": true, "then_": true, "Bool": true, "Nat": true, "max": true, "min": true}

func (t *sgTr) lenAtom(container ast.Expr) *sgI {
	txt := longText(container)
	name := "len_" + sanitize(txt)
	if t.atoms[name] == nil {
		t.atoms[name] = &sgAtomInfo{path: txt, isLen: true}
	}
	return sgAtom(name)
}

// constant integer value of a package-level / imported repo constant, when it is declared with an integer literal
func (t *sgTr) constInt(e ast.Expr) (int64, bool) {
	var pk *xPkg
	name := ""
	switch x := e.(type) {
	case *ast.Ident:
		if _, isVar := t.s.vars[x.Name]; isVar {
			return 0, false
		}
		pk, name = t.fn.File.Pkg, x.Name
	case *ast.SelectorExpr:
		id, ok := x.X.(*ast.Ident)
		if !ok {
			return 0, false
		}
		if _, isVar := t.s.vars[id.Name]; isVar {
			return 0, false
		}
		pk, name = t.s.ix.pkgByImport(t.fn.File.Imports[id.Name]), x.Sel.Name
	}
	if pk == nil {
		return 0, false
	}
	if lit := constLiteral(pk, name); lit != nil && lit.Kind == token.INT {
		if v, err := strconv.ParseInt(lit.Value, 0, 64); err == nil {
			return v, true
		}
	}
	return 0, false
}

func constLiteral(pk *xPkg, name string) *ast.BasicLit {
	for _, f := range pk.Files {
		for _, d := range f.AST.Decls {
			gd, ok := d.(*ast.GenDecl)
			if !ok || gd.Tok != token.CONST {
				continue
			}
			for _, sp := range gd.Specs {
				vs := sp.(*ast.ValueSpec)
				for i, n := range vs.Names {
					if n.Name == name && i < len(vs.Values) {
						v := vs.Values[i]
						for {
							if p, ok := v.(*ast.ParenExpr); ok {
								v = p.X
								continue
							}
							if c, ok := v.(*ast.CallExpr); ok && len(c.Args) == 1 { // typed constant: T(lit)
								v = c.Args[0]
								continue
							}
							break
						}
						if bl, ok := v.(*ast.BasicLit); ok {
							return bl
						}
					}
				}
			}
		}
	}
	return nil
}

func (t *sgTr) intExpr(e ast.Expr) (*sgI, bool) {
	switch x := e.(type) {
	case *ast.ParenExpr:
		return t.intExpr(x.X)
	case *ast.BasicLit:
		if x.Kind == token.INT {
			if v, err := strconv.ParseInt(x.Value, 0, 64); err == nil {
				return sgLit(v), true
			}
		}
		return nil, false
	case *ast.Ident, *ast.SelectorExpr:
		if v, ok := t.constInt(e); ok {
			return sgLit(v), true
		}
		k := t.s.kind(e)
		if k == "float" || k == "func" || k == "map" || k == "chan" {
			return nil, false
		}
		return t.atomFor(e)
	case *ast.UnaryExpr:
		if x.Op == token.SUB {
			if a, ok := t.intExpr(x.X); ok {
				return sgBin("-", sgLit(0), a), true
			}
		}
		return nil, false
	case *ast.CallExpr:
		if id, ok := x.Fun.(*ast.Ident); ok {
			if id.Name == "len" && len(x.Args) == 1 {
				if _, shadow := t.s.vars["len"]; !shadow {
					return t.lenAtom(x.Args[0]), true
				}
			}
			// integer conversion T(v): transparent when it cannot change the value
			if w, isInt := intWidth[id.Name]; isInt && len(x.Args) == 1 {
				if _, shadow := t.s.vars[id.Name]; shadow {
					return nil, false
				}
				src := t.goIntType(x.Args[0])
				if _, lit := x.Args[0].(*ast.BasicLit); lit {
					return t.intExpr(x.Args[0])
				}
				if c, ok := x.Args[0].(*ast.CallExpr); ok {
					if f, ok := c.Fun.(*ast.Ident); ok && f.Name == "len" && w >= 32 {
						return t.intExpr(x.Args[0]) // 0 ≤ len(x) < 2^31·…: fits every 32/64-bit integer type
					}
				}
				if src == "" {
					return nil, false
				}
				sw := intWidth[src]
				su, du := unsignedNames[src], unsignedNames[id.Name]
				switch {
				case su == du && w >= sw, su && !du && w > sw:
					return t.intExpr(x.Args[0])
				}
				return nil, false
			}
		}
		if len(x.Args) == 0 {
			switch txt := exprText(x.Fun); {
			case strings.HasSuffix(txt, ".ZeroInt"), strings.HasSuffix(txt, ".ZeroDec"), strings.HasSuffix(txt, ".LegacyZeroDec"):
				return sgLit(0), true
			case strings.HasSuffix(txt, ".OneInt"):
				return sgLit(1), true
			}
		}
		return nil, false
	case *ast.BinaryExpr:
		op := ""
		switch x.Op {
		case token.ADD:
			op = "+"
		case token.SUB:
			op = "-"
		case token.MUL:
			op = "*"
		case token.QUO:
			op = "/"
		case token.REM:
			op = "%"
		default:
			return nil, false
		}
		kx, ky := t.s.kind(x.X), t.s.kind(x.Y)
		for _, k := range []string{kx, ky} {
			if k != "int" && k != "?" {
				return nil, false // strings, floats, Dec …
			}
		}
		if kx == "?" && ky == "?" {
			return nil, false
		}
		if op == "-" && (unsignedNames[t.goIntType(x.X)] || unsignedNames[t.goIntType(x.Y)] || unsignedNames[t.goIntType(e)]) {
			return nil, false // unsigned subtraction wraps
		}
		a, ok1 := t.intExpr(x.X)
		b, ok2 := t.intExpr(x.Y)
		if ok1 && ok2 {
			return sgBin(op, a, b), true
		}
	}
	return nil, false
}

// orderedOK: both operands are Go integers (or literals / len), so that < and ≤ mean the same in ℤ
func (t *sgTr) orderedOK(a, b ast.Expr) bool {
	isInt := func(e ast.Expr) (bool, bool) { // (is integer, is known)
		if _, ok := e.(*ast.BasicLit); ok {
			return true, true
		}
		k := t.s.kind(e)
		if k == "int" {
			return true, true
		}
		if k == "?" {
			return false, false
		}
		return false, true
	}
	ia, ka := isInt(a)
	ib, kb := isInt(b)
	if (ka && !ia) || (kb && !ib) {
		return false
	}
	return ia || ib
}

func (t *sgTr) boolExpr(e ast.Expr) (*sgB, bool) {
	switch x := e.(type) {
	case *ast.ParenExpr:
		return t.boolExpr(x.X)
	case *ast.UnaryExpr:
		if x.Op == token.NOT {
			if b, ok := t.boolExpr(x.X); ok {
				return sgNot(b), true
			}
		}
	case *ast.Ident:
		if x.Name == "true" {
			return &sgB{op: "true"}, true
		}
		if x.Name == "false" {
			return sgNot(&sgB{op: "true"}), true
		}
		return t.flagFor(x.Name, "_flag"), true
	case *ast.BinaryExpr:
		switch x.Op {
		case token.LAND, token.LOR:
			a, ok1 := t.boolExpr(x.X)
			b, ok2 := t.boolExpr(x.Y)
			if ok1 && ok2 {
				if x.Op == token.LAND {
					return sgAnd(a, b), true
				}
				return sgOr(a, b), true
			}
		case token.EQL, token.NEQ, token.LSS, token.LEQ, token.GTR, token.GEQ:
			if isNil(x.X) || isNil(x.Y) {
				v := x.X
				if isNil(x.X) {
					v = x.Y
				}
				p := pathText(v)
				if p == "" {
					return nil, false
				}
				f := t.flagFor(p, "_isNil")
				switch x.Op {
				case token.EQL:
					return f, true
				case token.NEQ:
					return sgNot(f), true
				}
				return nil, false
			}
			if x.Op != token.EQL && x.Op != token.NEQ && !t.orderedOK(x.X, x.Y) {
				return nil, false
			}
			if k := t.s.kind(x.X); k == "float" || k == "string" && (x.Op != token.EQL && x.Op != token.NEQ) {
				return nil, false
			}
			a, ok1 := t.intExpr(x.X)
			b, ok2 := t.intExpr(x.Y)
			if ok1 && ok2 {
				switch x.Op {
				case token.EQL:
					return sgCmp("==", a, b), true
				case token.NEQ:
					return sgCmp("!=", a, b), true
				case token.LSS:
					return sgCmp("<", a, b), true
				case token.LEQ:
					return sgCmp("<=", a, b), true
				case token.GTR:
					return sgCmp("<", b, a), true
				case token.GEQ:
					return sgCmp("<=", b, a), true
				}
			}
		}
	case *ast.CallExpr:
		sel, ok := x.Fun.(*ast.SelectorExpr)
		if !ok {
			return nil, false
		}
		k := t.s.kind(sel.X)
		if k != "dec" && k != "bigint" {
			return nil, false
		}
		r, ok := t.atomFor(sel.X)
		if !ok {
			return nil, false
		}
		switch sel.Sel.Name {
		case "IsZero":
			if len(x.Args) == 0 {
				return sgCmp("==", r, sgLit(0)), true
			}
		case "IsPositive":
			if len(x.Args) == 0 {
				return sgCmp("<", sgLit(0), r), true
			}
		case "IsNegative":
			if len(x.Args) == 0 {
				return sgCmp("<", r, sgLit(0)), true
			}
		case "GT", "GTE", "LT", "LTE", "Equal":
			if len(x.Args) == 1 && t.s.kind(x.Args[0]) == k {
				if y, ok := t.intExpr(x.Args[0]); ok {
					switch sel.Sel.Name {
					case "GT":
						return sgCmp("<", y, r), true
					case "GTE":
						return sgCmp("<=", y, r), true
					case "LT":
						return sgCmp("<", r, y), true
					case "LTE":
						return sgCmp("<=", r, y), true
					case "Equal":
						return sgCmp("==", r, y), true
					}
				}
			}
		}
	}
	return nil, false
}

// ---------------------------------------------------------------- stability (writes between a fact and the site)

// related: a write to path w invalidates a fact about path p (equal, or one is a prefix of the other at a
// field boundary)
func pathsRelated(w, p string) bool {
	if w == p {
		return true
	}
	if strings.HasPrefix(p, w) && (p[len(w)] == '.' || p[len(w)] == '[' || p[len(w)] == '(') {
		return true
	}
	if strings.HasPrefix(w, p) && (w[len(p)] == '.') {
		return true
	}
	return false
}

// pure methods: calling them on x does not change x
var pureMethod = map[string]bool{"IsZero": true, "IsPositive": true, "IsNegative": true, "IsNil": true, "GT": true, "GTE": true, "LT": true, "LTE": true,
	"Equal": true, "String": true, "Len": true, "Less": true, "Cmp": true, "Sign": true, "BigInt": true, "Add": true, "Sub": true, "Mul": true, "Quo": true,
	"QuoInt": true, "MulInt": true, "MulInt64": true, "QuoTruncate": true, "MulTruncate": true, "TruncateInt": true, "TruncateInt64": true, "Int64": true, "Uint64": true,
	"Bytes": true, "Hex": true, "Neg": true, "Abs": true, "ToLegacyDec": true, "Key": true, "Value": true, "Valid": true, "Has": true, "Get": true, "Empty": true,
	"GetList": true, "Logger": true, "Info": true, "Error": true, "Debug": true}

var pureCallPkgs = map[string]bool{"fmt": true, "errors": true, "errorsmod": true, "sdkerrors": true, "strings": true, "strconv": true, "bytes": true, "hexutil": true, "hex": true}
var logMethod = map[string]bool{"Info": true, "Error": true, "Debug": true, "Warn": true, "Wrap": true, "Wrapf": true}

type sgWrite struct {
	pos, end token.Pos
	path     string
	node     ast.Node
	mutate   bool // a call that may change the value behind the path (method call, pointer argument), not a (re)definition
}

// writesIn lists the writes (assignments, ++/--, range variables, &x, calls of non-pure methods on x) inside n
var noWriteBuiltins = map[string]bool{"len": true, "cap": true, "append": true, "copy": true, "delete": true, "make": true, "new": true, "panic": true, "print": true, "println": true, "min": true, "max": true}

func writesIn(s *xScope, n ast.Node) []sgWrite {
	var out []sgWrite
	lhsPath := func(e ast.Expr) string {
		// x[i] = v does not change x itself (nor len(x)): strip trailing index expressions
		for {
			switch t := e.(type) {
			case *ast.IndexExpr:
				return "" // element write
			case *ast.ParenExpr:
				e = t.X
				continue
			}
			break
		}
		return pathText(e)
	}
	ast.Inspect(n, func(m ast.Node) bool {
		switch t := m.(type) {
		case *ast.AssignStmt:
			for _, l := range t.Lhs {
				if p := lhsPath(l); p != "" {
					out = append(out, sgWrite{t.Pos(), t.End(), p, t, false})
				}
			}
		case *ast.IncDecStmt:
			if p := lhsPath(t.X); p != "" {
				out = append(out, sgWrite{t.Pos(), t.End(), p, t, false})
			}
		case *ast.RangeStmt:
			for _, l := range []ast.Expr{t.Key, t.Value} {
				if l != nil {
					if p := lhsPath(l); p != "" {
						out = append(out, sgWrite{t.Pos(), t.Body.Lbrace, p, t, false})
					}
				}
			}
		case *ast.DeclStmt:
			if gd, ok := t.Decl.(*ast.GenDecl); ok && gd.Tok == token.VAR {
				for _, sp := range gd.Specs {
					for _, nm := range sp.(*ast.ValueSpec).Names {
						out = append(out, sgWrite{t.Pos(), t.End(), nm.Name, t, false})
					}
				}
			}
		case *ast.UnaryExpr:
			if t.Op == token.AND {
				if p := pathText(t.X); p != "" {
					out = append(out, sgWrite{t.Pos(), t.End(), p, t, false})
				}
			}
		case *ast.CallExpr:
			if sel, ok := t.Fun.(*ast.SelectorExpr); ok && !pureMethod[sel.Sel.Name] {
				if p := pathText(sel.X); p != "" {
					out = append(out, sgWrite{t.Pos(), t.End(), p, t, true})
				}
			}
			// a pointer (or a value of unknown / interface type) handed to a call may be written through
			if id, ok := t.Fun.(*ast.Ident); ok && noWriteBuiltins[id.Name] {
				return true
			}
			if sel, ok := t.Fun.(*ast.SelectorExpr); ok {
				// formatting, logging, error construction and the read-only std helpers do not write their arguments
				if id, ok := sel.X.(*ast.Ident); ok && pureCallPkgs[id.Name] {
					return true
				}
				if logMethod[sel.Sel.Name] {
					return true
				}
			}
			for _, a := range t.Args {
				p := pathText(a)
				if p == "" {
					continue
				}
				ty := s.typeOf(a)
				_, isPtr := ty.E.(*ast.StarExpr)
				k := s.kind(a)
				if isPtr || ty.E == nil || k == "iface" || k == "?" {
					out = append(out, sgWrite{t.Pos(), t.End(), p, t, true})
				}
			}
		}
		return true
	})
	return out
}

type sgSite struct {
	fn    *xFunc
	site  ast.Node
	stack []ast.Node
	all   []sgWrite // all writes of the function body
}

// unstable: is `path` written between `from` and the site? The region is [from, site) plus the whole body
// (and post statement) of every loop that encloses the site and starts after `from`. Writes listed in
// `except` are ignored.
func (ss *sgSite) unstable(path string, from token.Pos, except map[ast.Node]bool) bool {
	type rng struct{ a, b token.Pos }
	regions := []rng{{from, ss.site.Pos()}}
	for _, n := range ss.stack {
		switch l := n.(type) {
		case *ast.ForStmt:
			if l.Pos() >= from {
				regions = append(regions, rng{l.Body.Pos(), l.End()})
			}
		case *ast.RangeStmt:
			if l.Pos() >= from {
				regions = append(regions, rng{l.Body.Pos(), l.End()})
			}
		}
	}
	for _, w := range ss.all {
		if except[w.node] || !pathsRelated(w.path, path) {
			continue
		}
		for _, r := range regions {
			// a write that contains the site in its right-hand side happens after the site is evaluated
			if w.pos >= r.a && w.pos < r.b && !(w.pos <= ss.site.Pos() && ss.site.End() <= w.end && r == regions[0]) {
				return true
			}
		}
	}
	return false
}

// rootOf: the leading identifier of a path / source text
func rootOf(p string) string {
	for i, r := range p {
		if !(r == '_' || r >= 'a' && r <= 'z' || r >= 'A' && r <= 'Z' || r >= '0' && r <= '9') {
			return p[:i]
		}
	}
	return p
}

// loopWritesOK: inside the loop body the container / variable `path` is not written, except by an assignment
// after which control leaves the loop for good (the assignment's block ends in break / return) and that
// is not executed before the site in the same iteration.
func (ss *sgSite) loopWritesOK(body *ast.BlockStmt, post ast.Stmt, path string, allowPost bool) bool {
	for _, w := range ss.all {
		if w.pos < body.Pos() || w.pos >= body.End() {
			if post != nil && !allowPost && w.pos >= post.Pos() && w.pos < post.End() && pathsRelated(w.path, path) {
				return false
			}
			continue
		}
		if !pathsRelated(w.path, path) {
			continue
		}
		if ss.leavesAfter(body, w) && ss.site.Pos() < w.end {
			continue
		}
		return false
	}
	return true
}

// leavesAfter: w is a statement of a block (inside body) whose last statement is break / return and the site
// does not come after w in that block
func (ss *sgSite) leavesAfter(body *ast.BlockStmt, w sgWrite) bool {
	ok := false
	ast.Inspect(body, func(n ast.Node) bool {
		b, isBlock := n.(*ast.BlockStmt)
		if !isBlock {
			return true
		}
		for i, st := range b.List {
			if st == w.node {
				last := b.List[len(b.List)-1]
				switch l := last.(type) {
				case *ast.ReturnStmt:
					ok = true
				case *ast.BranchStmt:
					if l.Tok == token.BREAK && l.Label == nil && !insideInnerLoop(body, b) {
						ok = true
					}
				}
				for _, later := range b.List[i+1:] {
					if later.Pos() <= ss.site.Pos() && ss.site.End() <= later.End() {
						ok = false
					}
				}
			}
		}
		return true
	})
	return ok
}

// insideInnerLoop: block b lies inside a loop / switch / select nested in body (a bare break would not leave body's loop)
func insideInnerLoop(body *ast.BlockStmt, b *ast.BlockStmt) bool {
	inner := false
	var walk func(n ast.Node, depth int) bool
	walk = func(n ast.Node, depth int) bool {
		found := false
		ast.Inspect(n, func(m ast.Node) bool {
			if found {
				return false
			}
			if m == ast.Node(b) {
				found = true
				if depth > 0 {
					inner = true
				}
				return false
			}
			if m != n {
				switch t := m.(type) {
				case *ast.ForStmt:
					if walk(t.Body, depth+1) {
						found = true
					}
					return false
				case *ast.RangeStmt:
					if walk(t.Body, depth+1) {
						found = true
					}
					return false
				case *ast.SwitchStmt:
					if walk(t.Body, depth+1) {
						found = true
					}
					return false
				case *ast.TypeSwitchStmt:
					if walk(t.Body, depth+1) {
						found = true
					}
					return false
				case *ast.SelectStmt:
					if walk(t.Body, depth+1) {
						found = true
					}
					return false
				}
			}
			return true
		})
		return found
	}
	walk(body, 0)
	return inner
}

// ---------------------------------------------------------------- facts

type sgHyp struct {
	e   *sgB
	why string
}

// pathsOf: the Go paths behind the atoms of an expression (through the translator's atom table)
func (t *sgTr) pathsOf(b *sgB, i *sgI) []string {
	ints, flags := map[string]bool{}, map[string]bool{}
	b.collect(ints, flags)
	i.collect(ints, flags)
	var ps []string
	for n := range ints {
		if a := t.atoms[n]; a != nil {
			ps = append(ps, a.path)
		}
	}
	for n := range flags {
		if a := t.atoms[n]; a != nil {
			ps = append(ps, a.path)
		}
	}
	sort.Strings(ps)
	return ps
}

func syncSortCall(c *ast.CallExpr) bool {
	if sel, ok := c.Fun.(*ast.SelectorExpr); ok {
		if id, ok := sel.X.(*ast.Ident); ok && id.Name == "sort" {
			return true
		}
	}
	return false
}

// analyse one site: hypotheses, the safety condition, what was left out
func analyseSite(ix *xIndex, fn *xFunc, s *xScope, kind string, site ast.Node, stack []ast.Node) (t *sgTr, hyps []sgHyp, safe *sgB, dropped []string, reason string) {
	return analyseSiteWith(ix, fn, s, kind, site, stack, nil, 0)
}

// analyseSiteWith: `preset` (used for the return statements of a callee) replaces the safety condition by a
// formula whose atoms the collected facts should talk about; depth bounds the callee summaries
func analyseSiteWith(ix *xIndex, fn *xFunc, s *xScope, kind string, site ast.Node, stack []ast.Node, preset func(t *sgTr) *sgB, depth int) (t *sgTr, hyps []sgHyp, safe *sgB, dropped []string, reason string) {
	t = newSgTr(s, fn)
	ss := &sgSite{fn: fn, site: site, stack: stack, all: writesIn(s, fn.Decl.Body)}

	// ---- the innermost enclosing closure bounds which outer facts may be used
	closureAt := -1
	closureSync := false
	for i := len(stack) - 1; i >= 0; i-- {
		if _, ok := stack[i].(*ast.FuncLit); ok {
			closureAt = i
			if i > 0 {
				if c, ok := stack[i-1].(*ast.CallExpr); ok && syncSortCall(c) {
					closureSync = true
				}
			}
			break
		}
	}
	outerUsable := func(pos token.Pos) bool {
		if closureAt < 0 || closureSync {
			return true
		}
		return pos >= stack[closureAt].Pos()
	}

	// ---- what must hold for the operation not to panic
	if preset != nil {
		safe = preset(t)
	}
	switch n := site.(type) {
	case *ast.ReturnStmt:
		if preset == nil {
			return t, nil, nil, nil, "no local safety condition for this kind"
		}
	case *ast.IndexExpr:
		idx, ok := t.intExpr(n.Index)
		if !ok {
			return t, nil, nil, nil, "index expression outside the translated subset"
		}
		l := t.lenAtom(n.X)
		safe = sgAnd(sgCmp("<=", sgLit(0), idx), sgCmp("<", idx, l))
	case *ast.SliceExpr:
		if n.Max != nil {
			return t, nil, nil, nil, "3-index slice"
		}
		l := t.lenAtom(n.X)
		lo, hi := sgLit(0), l
		if n.Low != nil {
			x, ok := t.intExpr(n.Low)
			if !ok {
				return t, nil, nil, nil, "slice bound outside the translated subset"
			}
			lo = x
		}
		if n.High != nil {
			x, ok := t.intExpr(n.High)
			if !ok {
				return t, nil, nil, nil, "slice bound outside the translated subset"
			}
			hi = x
		}
		// x[lo:hi] needs 0 ≤ lo ≤ hi ≤ cap(x); hi ≤ len(x) is sufficient
		safe = sgAnd(sgCmp("<=", sgLit(0), lo), sgAnd(sgCmp("<=", lo, hi), sgCmp("<=", hi, l)))
	case *ast.BinaryExpr: // intdiv
		d, ok := t.intExpr(n.Y)
		if !ok {
			return t, nil, nil, nil, "divisor outside the translated subset"
		}
		safe = sgCmp("!=", d, sgLit(0))
	case *ast.AssignStmt: // x /= y
		d, ok := t.intExpr(n.Rhs[0])
		if !ok {
			return t, nil, nil, nil, "divisor outside the translated subset"
		}
		safe = sgCmp("!=", d, sgLit(0))
	case *ast.CallExpr:
		if kind == "newcoin" && len(n.Args) == 2 {
			k := s.kind(n.Args[1])
			var a *sgI
			ok := false
			if k == "bigint" || k == "dec" || k == "int" {
				a, ok = t.intExpr(n.Args[1])
			}
			if !ok {
				return t, nil, nil, nil, "amount outside the translated subset"
			}
			safe = sgCmp("<=", sgLit(0), a)
		} else {
			return t, nil, nil, nil, "no local safety condition for this kind"
		}
	default:
		return t, nil, nil, nil, "no local safety condition for this kind"
	}

	add := func(e *sgB, why string) { hyps = append(hyps, sgHyp{e, why}) }
	drop := func(why, txt string) { dropped = append(dropped, why+": "+txt) }

	// ---- guards (enclosing ifs, earlier leaving ifs)
	for _, c := range guardConds(site, stack) {
		if !outerUsable(c.e.Pos()) {
			drop("outside closure", longText(c.e))
			continue
		}
		b, ok := t.boolExpr(c.e)
		if !ok {
			drop("untranslated", longText(c.e))
			continue
		}
		bad := ""
		for _, p := range t.pathsOf(b, nil) {
			if ss.unstable(p, c.e.End(), nil) {
				bad = p
			}
		}
		if bad != "" {
			drop("unstable("+bad+")", longText(c.e))
			continue
		}
		if c.neg {
			b = sgNot(b)
		}
		add(b, "guard")
	}

	// ---- `if err := F(…); err != nil { leave }` before the site: what F guarantees when it returns nil
	path := append(append([]ast.Node{}, stack...), site)
	if depth < 2 {
		for i, n := range stack {
			var list []ast.Stmt
			switch b := n.(type) {
			case *ast.BlockStmt:
				list = b.List
			case *ast.CaseClause:
				list = b.Body
			default:
				continue
			}
			for _, st := range list {
				if st == path[i+1] {
					break
				}
				ifs, ok := st.(*ast.IfStmt)
				if !ok || ifs.Init == nil || ifs.Else != nil || !blockLeaves(ifs.Body) || !outerUsable(ifs.Pos()) {
					continue
				}
				as, ok := ifs.Init.(*ast.AssignStmt)
				if !ok || as.Tok != token.DEFINE || len(as.Lhs) != 1 || len(as.Rhs) != 1 {
					continue
				}
				call, ok := as.Rhs[0].(*ast.CallExpr)
				if !ok || !hasDisjunct(ifs.Cond, pathText(as.Lhs[0])+" != nil") {
					continue
				}
				post, why, paths := calleeNilFacts(ix, t, call, depth)
				if post == nil {
					continue
				}
				bad := ""
				for _, p := range paths {
					if ss.unstable(p, ifs.End(), nil) {
						bad = p
					}
				}
				if bad != "" {
					drop("unstable("+bad+")", "post of "+exprText(call.Fun))
					continue
				}
				add(post, why)
			}
		}
	}

	// ---- enclosing loops: range facts, loop conditions, init facts; comparator closures
	for i, n := range stack {
		child := path[i+1]
		switch l := n.(type) {
		case *ast.RangeStmt:
			if child != ast.Node(l.Body) || !outerUsable(l.Pos()) {
				continue
			}
			k, ok := l.Key.(*ast.Ident)
			if !ok || k.Name == "_" || l.Tok != token.DEFINE {
				continue
			}
			ck := s.kind(l.X)
			if ck != "slice" && ck != "array" && ck != "string" {
				continue
			}
			cont := longText(l.X)
			if pathText(l.X) == "" {
				continue // ranging over a call result etc.: nothing to relate len() to
			}
			if !ss.loopWritesOK(l.Body, nil, k.Name, false) || !ss.loopWritesOK(l.Body, nil, cont, false) {
				drop("unstable range", "for "+k.Name+" := range "+cont)
				continue
			}
			ka, _ := t.atomFor(k)
			add(sgAnd(sgCmp("<=", sgLit(0), ka), sgCmp("<", ka, t.lenAtom(l.X))), "range "+cont)
		case *ast.ForStmt:
			if child != ast.Node(l.Body) || !outerUsable(l.Pos()) {
				continue
			}
			if l.Cond != nil {
				if b, ok := t.boolExpr(l.Cond); ok {
					okc := true
					for _, p := range t.pathsOf(b, nil) {
						if !ss.loopWritesOK(l.Body, l.Post, p, true) {
							okc = false
						}
					}
					if okc {
						add(b, "loop condition")
					} else {
						drop("unstable loop condition", longText(l.Cond))
					}
				} else {
					drop("untranslated", longText(l.Cond))
				}
			}
			// for i := a; …; i++ / i--
			if as, ok := l.Init.(*ast.AssignStmt); ok && as.Tok == token.DEFINE && len(as.Lhs) == 1 && len(as.Rhs) == 1 {
				if id, ok := as.Lhs[0].(*ast.Ident); ok {
					if inc, ok := l.Post.(*ast.IncDecStmt); ok && pathText(inc.X) == id.Name && ss.loopWritesOK(l.Body, nil, id.Name, false) {
						if a, ok := t.intExpr(as.Rhs[0]); ok {
							stable := true
							for _, p := range t.pathsOf(nil, a) {
								if !ss.loopWritesOK(l.Body, l.Post, p, false) {
									stable = false
								}
							}
							if stable {
								ia, _ := t.atomFor(id)
								if inc.Tok == token.INC {
									add(sgCmp("<=", a, ia), "loop init")
								} else {
									add(sgCmp("<=", ia, a), "loop init")
								}
							}
						}
					}
				}
			}
		case *ast.FuncLit:
			// sort.Slice(X, func(i, j int) bool { … }): 0 ≤ i, j < len(X)
			if i == 0 {
				continue
			}
			c, ok := stack[i-1].(*ast.CallExpr)
			if !ok || len(c.Args) != 2 || c.Args[1] != ast.Expr(l) {
				continue
			}
			sel, ok := c.Fun.(*ast.SelectorExpr)
			if !ok || exprText(sel.X) != "sort" || (sel.Sel.Name != "Slice" && sel.Sel.Name != "SliceStable") {
				continue
			}
			if pathText(c.Args[0]) == "" {
				continue
			}
			var names []string
			for _, f := range l.Type.Params.List {
				for _, nm := range f.Names {
					names = append(names, nm.Name)
				}
			}
			if len(names) != 2 {
				continue
			}
			cont := longText(c.Args[0])
			stable := true
			for _, w := range ss.all {
				if w.pos >= l.Body.Pos() && w.pos < l.Body.End() && (pathsRelated(w.path, cont) || w.path == names[0] || w.path == names[1]) {
					stable = false
				}
			}
			if !stable {
				drop("unstable comparator", cont)
				continue
			}
			for _, nm := range names {
				a, _ := t.atomFor(&ast.Ident{Name: nm})
				add(sgAnd(sgCmp("<=", sgLit(0), a), sgCmp("<", a, t.lenAtom(c.Args[0]))), "sort comparator "+cont)
			}
		}
	}

	// ---- counting loop that ended before the site: i := c; for ; i < N; i++ { … }; [if g { i-- }]; site
	for i, n := range stack {
		blk, ok := n.(*ast.BlockStmt)
		if !ok || !outerUsable(blk.Pos()) {
			continue
		}
		child := path[i+1]
		at := -1
		for j, st := range blk.List {
			if st == child {
				at = j
			}
		}
		for j := 0; j < at; j++ {
			f, ok := blk.List[j].(*ast.ForStmt)
			if !ok || f.Init != nil || f.Cond == nil {
				continue
			}
			inc, ok := f.Post.(*ast.IncDecStmt)
			if !ok || inc.Tok != token.INC {
				continue
			}
			id, ok := inc.X.(*ast.Ident)
			if !ok {
				continue
			}
			cond, ok := f.Cond.(*ast.BinaryExpr)
			if !ok || cond.Op != token.LSS || pathText(cond.X) != id.Name {
				continue
			}
			// the defining `i := c` is an earlier statement of the same block, nothing in between writes i
			var c0 ast.Expr
			defAt := -1
			for d := j - 1; d >= 0; d-- {
				if as, ok := blk.List[d].(*ast.AssignStmt); ok && as.Tok == token.DEFINE && len(as.Lhs) == 1 && len(as.Rhs) == 1 && pathText(as.Lhs[0]) == id.Name {
					c0, defAt = as.Rhs[0], d
					break
				}
			}
			if c0 == nil {
				continue
			}
			clean := true
			for _, w := range ss.all {
				if w.path == id.Name && w.pos >= blk.List[defAt].End() && w.pos < f.Pos() {
					clean = false
				}
			}
			if !clean || !ss.loopWritesOK(f.Body, nil, id.Name, false) {
				continue
			}
			// the loop must not be left by a labelled break / goto; return ends the function (site not reached)
			cv, ok1 := t.intExpr(c0)
			if !ok1 {
				continue
			}
			// versions of i between the loop and the site
			type upd struct {
				cond ast.Expr
				dec  bool
			}
			var upds []upd
			okSeq := true
			for _, st := range blk.List[j+1 : at] {
				touches := false
				for _, w := range ss.all {
					if w.path == id.Name && w.pos >= st.Pos() && w.pos < st.End() {
						touches = true
					}
				}
				if !touches {
					continue
				}
				ifs, ok := st.(*ast.IfStmt)
				if !ok || ifs.Else != nil || ifs.Init != nil || len(ifs.Body.List) != 1 {
					okSeq = false
					break
				}
				ids, ok := ifs.Body.List[0].(*ast.IncDecStmt)
				if !ok || pathText(ids.X) != id.Name {
					okSeq = false
					break
				}
				upds = append(upds, upd{ifs.Cond, ids.Tok == token.DEC})
			}
			// writes to i inside the site's own statement before the site
			for _, w := range ss.all {
				if w.path == id.Name && w.pos >= child.Pos() && w.pos < site.Pos() {
					okSeq = false
				}
			}
			if !okSeq {
				drop("loop exit", "writes to "+id.Name+" between the loop and the site are not of the form `if g { "+id.Name+"-- }`")
				continue
			}
			ver := func(k int) string {
				if k == len(upds) {
					return sanitize(id.Name)
				}
				return fmt.Sprintf("%s_v%d", sanitize(id.Name), k)
			}
			t.rename[id.Name] = ver(0)
			nExpr, ok2 := t.intExpr(cond.Y)
			stableN := ok2
			if ok2 {
				for _, p := range t.pathsOf(nil, nExpr) {
					if !ss.loopWritesOK(f.Body, nil, p, false) || ss.unstable(p, f.End(), nil) {
						stableN = false
					}
				}
			}
			i0, _ := t.atomFor(id)
			add(sgCmp("<=", cv, i0), "loop exit: "+id.Name+" starts at "+longText(c0)+" and only grows")
			if stableN {
				add(sgOr(sgCmp("<=", i0, nExpr), sgCmp("==", i0, cv)), "loop exit: "+longText(f.Cond)+" held before the last increment")
			}
			for k, u := range upds {
				t.rename[id.Name] = ver(k)
				g, okg := t.boolExpr(u.cond)
				cur, _ := t.atomFor(id)
				t.rename[id.Name] = ver(k + 1)
				nxt, _ := t.atomFor(id)
				if !okg {
					// unknown condition: the new version is either the old one or one off
					step := sgBin("+", cur, sgLit(1))
					if u.dec {
						step = sgBin("-", cur, sgLit(1))
					}
					add(sgOr(sgCmp("==", nxt, cur), sgCmp("==", nxt, step)), "update of "+id.Name+" under an untranslated condition")
					continue
				}
				step := sgBin("+", cur, sgLit(1))
				if u.dec {
					step = sgBin("-", cur, sgLit(1))
				}
				add(sgCmp("==", nxt, &sgI{op: "ite", c: g, a: step, b: cur}), "if "+longText(u.cond)+" { "+id.Name+"± }")
			}
			delete(t.rename, id.Name)
		}
	}

	// ---- definitions of the locals that occur (fixpoint): v := e, x := make([]T, n), x := strings.Split(s, sep)
	done := map[string]bool{}
	for round := 0; round < 6; round++ {
		ints, flags := map[string]bool{}, map[string]bool{}
		safe.collect(ints, flags)
		for _, h := range hyps {
			h.e.collect(ints, flags)
		}
		progress := false
		var names []string
		for n := range ints {
			names = append(names, n)
		}
		sort.Strings(names)
		for _, n := range names {
			if done[n] {
				continue
			}
			done[n] = true
			info := t.atoms[n]
			if info == nil {
				continue
			}
			root := info.path
			if info.isLen && strings.HasSuffix(root, ".Key()") && !strings.ContainsAny(strings.TrimSuffix(root, ".Key()"), ".([ *&") {
				// it := sdk.KVStorePrefixIterator(store, P): every key the iterator yields starts with P  [contract of the store]
				itName := strings.TrimSuffix(root, ".Key()")
				if def, defPos := ss.singleDef(itName); def != nil && ss.dominates(def) {
					if c, ok := def.(*ast.CallExpr); ok && exprText(c.Fun) == "sdk.KVStorePrefixIterator" && len(c.Args) == 2 && pathText(c.Args[1]) != "" {
						if !ss.unstable(pathText(c.Args[1]), defPos, nil) {
							add(sgCmp("<=", t.lenAtom(c.Args[1]), sgAtom(n)), "prefix iterator: every key yielded by sdk.KVStorePrefixIterator(_, "+longText(c.Args[1])+") starts with that prefix")
							progress = true
						}
					}
				}
				continue
			}
			if strings.ContainsAny(root, ".([ *&") {
				continue // only plain local identifiers have definitions we follow
			}
			def, defPos := ss.singleDef(root)
			if def == nil {
				// a counter: defined once by `x := <literal>`, every other write is `x++` or `x += <non-negative literal>`
				if c0, ok := ss.counterStart(root); ok && !info.isLen {
					why := "counter: " + root + " starts at " + strconv.FormatInt(c0, 10) + " and only grows"
					if ss.incrementedBefore(root) {
						c0++
						why += "; a `" + root + "++` dominates the site"
					}
					add(sgCmp("<=", sgLit(c0), sgAtom(n)), why)
				}
				continue
			}
			if !ss.dominates(def) {
				continue
			}
			if info.isLen {
				// x := make([]T, n[, cap])  /  x := strings.Split(s, sep)
				c, ok := def.(*ast.CallExpr)
				if !ok {
					continue
				}
				if idx, errName, stmtEnd := ss.multiDefInfo(root); errName != "" && depth < 2 {
					// x, err := F(args…): what F guarantees about len(x) whenever it returns a nil error
					if post, why := calleeLenPost(ix, t, c, idx, sgAtom(n), depth); post != nil {
						// the post-condition speaks about the arguments as they were at the call
						argMoved := ""
						for _, ap := range t.pathsOf(post, nil) {
							if ap != root && ss.unstable(ap, stmtEnd, nil) {
								argMoved = ap
							}
						}
						switch {
						case argMoved != "":
							drop("unstable argument of "+exprText(c.Fun), argMoved)
						case ss.unstable(root, stmtEnd, nil):
							drop("unstable result of "+exprText(c.Fun), root)
						case ss.errCheckedAfter(stmtEnd, errName):
							// the statement is directly followed by `if err != nil { leave }` and the site comes after it
							add(post, why+"; its error is checked by the next statement")
							progress = true
						case !ss.unstable(errName, stmtEnd, nil):
							add(sgOr(sgNot(t.flagFor(errName, "_isNil")), post), why)
							progress = true
						default:
							drop("unstable error of "+exprText(c.Fun), errName)
						}
					}
					continue
				}
				if id, ok := c.Fun.(*ast.Ident); ok && id.Name == "make" && len(c.Args) >= 2 {
					if _, isSlice := c.Args[0].(*ast.ArrayType); isSlice {
						if ne, ok := t.intExpr(c.Args[1]); ok {
							stable := true
							for _, p := range t.pathsOf(nil, ne) {
								if ss.unstable(p, defPos, nil) {
									stable = false
								}
							}
							if stable {
								add(sgCmp("==", sgAtom(n), ne), "make: "+root+" := "+longText(c))
								progress = true
							}
						}
					}
				}
				if exprText(c.Fun) == "strings.Split" && len(c.Args) == 2 {
					if t.nonEmptyStringConst(c.Args[1]) {
						add(sgCmp("<=", sgLit(1), sgAtom(n)), "strings.Split with the non-empty separator "+longText(c.Args[1])+" returns at least one element")
						progress = true
					}
				}
				continue
			}
			if e, ok := def.(ast.Expr); ok {
				if k := s.kind(e); k == "int" || k == "?" {
					if de, ok := t.intExpr(e); ok {
						stable := true
						for _, p := range t.pathsOf(nil, de) {
							if ss.unstable(p, defPos, nil) {
								stable = false
							}
						}
						if stable {
							add(sgCmp("==", sgAtom(n), de), "def: "+root+" := "+longText(e))
							progress = true
						} else {
							drop("unstable def", root+" := "+longText(e))
						}
					}
				}
			}
		}
		if !progress {
			break
		}
	}

	// ---- non-negativity of lengths and unsigned values
	{
		ints, flags := map[string]bool{}, map[string]bool{}
		safe.collect(ints, flags)
		for _, h := range hyps {
			h.e.collect(ints, flags)
		}
		var names []string
		for n := range ints {
			names = append(names, n)
		}
		sort.Strings(names)
		for _, n := range names {
			if info := t.atoms[n]; info != nil && (info.isLen || info.unsigned) {
				why := "length"
				if info.unsigned {
					why = "unsigned"
				}
				add(sgCmp("<=", sgLit(0), sgAtom(n)), why)
			}
		}
	}
	return t, hyps, safe, dropped, ""
}

// singleDef: the identifier is defined exactly once in the function (`v := e` / `var v = e`, also as the
// init statement of an if / switch) and never assigned, incremented, ranged over or address-taken elsewhere;
// returns the defining expression (or the defining node) and its position
func (ss *sgSite) singleDef(name string) (ast.Node, token.Pos) {
	for _, f := range ss.fn.Decl.Type.Params.List {
		for _, n := range f.Names {
			if n.Name == name {
				return nil, 0
			}
		}
	}
	count := 0
	var def ast.Node
	var pos token.Pos
	for _, w := range ss.all {
		if w.path != name || w.mutate {
			continue // mutating calls between the definition and the site are the business of the stability check
		}
		count++
		if as, ok := w.node.(*ast.AssignStmt); ok && as.Tok == token.DEFINE && len(as.Lhs) == len(as.Rhs) {
			for i, l := range as.Lhs {
				if pathText(l) == name {
					def, pos = as.Rhs[i], as.End()
				}
			}
		} else if ok && as.Tok == token.DEFINE && len(as.Rhs) == 1 && len(as.Lhs) == 2 {
			if c, isCall := as.Rhs[0].(*ast.CallExpr); isCall && pathText(as.Lhs[0]) == name {
				def, pos = c, as.End()
			}
		}
	}
	if count != 1 {
		return nil, 0
	}
	return def, pos
}

// counterStart: name is defined exactly once, by `name := <integer literal>` as a statement on the path to the site,
// never address-taken or ranged over, and every other write is `name++` or `name += <non-negative literal>`
func (ss *sgSite) counterStart(name string) (int64, bool) {
	for _, f := range ss.fn.Decl.Type.Params.List {
		for _, n := range f.Names {
			if n.Name == name {
				return 0, false
			}
		}
	}
	var start *ast.BasicLit
	var defNode ast.Node
	neg := false
	for _, w := range ss.all {
		if w.path != name || w.mutate {
			continue
		}
		switch t := w.node.(type) {
		case *ast.AssignStmt:
			switch t.Tok {
			case token.DEFINE:
				if start != nil || len(t.Lhs) != 1 || len(t.Rhs) != 1 {
					return 0, false
				}
				rhs := t.Rhs[0]
				if u, isNeg := rhs.(*ast.UnaryExpr); isNeg && u.Op == token.SUB {
					rhs, neg = u.X, true
				}
				bl, ok := rhs.(*ast.BasicLit)
				if !ok || bl.Kind != token.INT {
					return 0, false
				}
				start, defNode = bl, t.Rhs[0]
			case token.ADD_ASSIGN:
				bl, ok := t.Rhs[0].(*ast.BasicLit)
				if !ok || bl.Kind != token.INT || len(t.Lhs) != 1 {
					return 0, false
				}
			default:
				return 0, false
			}
		case *ast.IncDecStmt:
			if t.Tok != token.INC {
				return 0, false
			}
		default:
			return 0, false
		}
	}
	if start == nil || !ss.dominates(defNode) {
		return 0, false
	}
	v, err := strconv.ParseInt(start.Value, 0, 64)
	if neg {
		v = -v
	}
	return v, err == nil
}

// incrementedBefore: a statement `name++` precedes the site on its path (an earlier sibling in an enclosing block),
// so a counter that only grows has been incremented at least once when control reaches the site
func (ss *sgSite) incrementedBefore(name string) bool {
	path := append(append([]ast.Node{}, ss.stack...), ss.site)
	for i, n := range ss.stack {
		var list []ast.Stmt
		switch b := n.(type) {
		case *ast.BlockStmt:
			list = b.List
		case *ast.CaseClause:
			list = b.Body
		default:
			continue
		}
		for _, st := range list {
			if st == path[i+1] {
				break
			}
			if inc, ok := st.(*ast.IncDecStmt); ok && inc.Tok == token.INC && pathText(inc.X) == name {
				return true
			}
		}
	}
	return false
}

// multiDefInfo: for `x, err := F(…)` defining name: the index of name on the left, the name of the error
// variable and the end of the statement; errName == "" otherwise
func (ss *sgSite) multiDefInfo(name string) (int, string, token.Pos) {
	for _, w := range ss.all {
		if as, ok := w.node.(*ast.AssignStmt); ok && w.path == name && as.Tok == token.DEFINE && len(as.Rhs) == 1 && len(as.Lhs) == 2 {
			if _, isCall := as.Rhs[0].(*ast.CallExpr); isCall && pathText(as.Lhs[0]) == name {
				if e := pathText(as.Lhs[1]); e != "" {
					return 0, e, as.End()
				}
			}
		}
	}
	return 0, "", 0
}

// errCheckedAfter: the statement ending at stmtEnd is a direct child of a block on the path to the site, its next
// sibling is `if err != nil [|| …] { … return|continue|break|panic }` (no init, no else) and the site lies in a
// later sibling
func (ss *sgSite) errCheckedAfter(stmtEnd token.Pos, errName string) bool {
	path := append(append([]ast.Node{}, ss.stack...), ss.site)
	for i, n := range ss.stack {
		var list []ast.Stmt
		switch b := n.(type) {
		case *ast.BlockStmt:
			list = b.List
		case *ast.CaseClause:
			list = b.Body
		default:
			continue
		}
		child := path[i+1]
		for j, st := range list {
			if st.End() != stmtEnd || j+1 >= len(list) {
				continue
			}
			ifs, ok := list[j+1].(*ast.IfStmt)
			if !ok || ifs.Init != nil || ifs.Else != nil || !blockLeaves(ifs.Body) || !hasDisjunct(ifs.Cond, errName+" != nil") {
				return false
			}
			for k := j + 2; k < len(list); k++ {
				if list[k] == child {
					return true
				}
			}
			return false
		}
	}
	return false
}

func hasDisjunct(e ast.Expr, txt string) bool {
	switch t := e.(type) {
	case *ast.ParenExpr:
		return hasDisjunct(t.X, txt)
	case *ast.BinaryExpr:
		if t.Op == token.LOR {
			return hasDisjunct(t.X, txt) || hasDisjunct(t.Y, txt)
		}
	}
	return longText(e) == txt
}

// ---------------------------------------------------------------- callee summaries

func (e *sgI) subst(m map[string]*sgI, pfx string) *sgI {
	if e == nil {
		return nil
	}
	if e.op == "atom" {
		if r, ok := m[e.name]; ok {
			return r
		}
		return sgAtom(pfx + e.name)
	}
	return &sgI{op: e.op, name: e.name, v: e.v, a: e.a.subst(m, pfx), b: e.b.subst(m, pfx), c: e.c.subst(m, pfx)}
}

func (e *sgB) subst(m map[string]*sgI, pfx string) *sgB {
	if e == nil {
		return nil
	}
	if e.op == "flag" {
		return &sgB{op: "flag", name: pfx + e.name}
	}
	return &sgB{op: e.op, name: e.name, x: e.x.subst(m, pfx), y: e.y.subst(m, pfx), a: e.a.subst(m, pfx), b: e.b.subst(m, pfx)}
}

// surelyNonNilError: an error expression that cannot be nil: a sentinel (Err…), a wrap of a sentinel,
// errors.New / fmt.Errorf, or `err` under a dominating `err != nil`
func surelyNonNilError(e ast.Expr, ret ast.Node, stack []ast.Node) bool {
	sentinel := func(x ast.Expr) bool {
		switch t := x.(type) {
		case *ast.Ident:
			return strings.HasPrefix(t.Name, "Err")
		case *ast.SelectorExpr:
			return strings.HasPrefix(t.Sel.Name, "Err")
		}
		return false
	}
	switch t := e.(type) {
	case *ast.Ident, *ast.SelectorExpr:
		if sentinel(e) {
			return true
		}
		if id, ok := e.(*ast.Ident); ok {
			for _, c := range guardConds(ret, stack) {
				if !c.neg && longText(c.e) == id.Name+" != nil" {
					return true
				}
			}
		}
	case *ast.CallExpr:
		txt := exprText(t.Fun)
		switch txt {
		case "errors.New", "fmt.Errorf":
			return true
		case "errorsmod.Wrap", "errorsmod.Wrapf", "sdkerrors.Wrap", "sdkerrors.Wrapf":
			return len(t.Args) > 0 && sentinel(t.Args[0])
		}
		if sel, ok := t.Fun.(*ast.SelectorExpr); ok && (sel.Sel.Name == "Wrap" || sel.Sel.Name == "Wrapf") && sentinel(sel.X) {
			return true
		}
	}
	return false
}

// calleeLenPost: for `x, err := F(args…)` with F declared in the repository as func(…) ([]T, error): a formula
// about `lenX` (the caller's atom for len(x)) and the caller's arguments that holds whenever F returns a nil
// error: the disjunction, over F's `return R, nil` statements, of the local facts at that statement. Every other
// return of F must return an error that is certainly not nil; otherwise no summary.
func calleeLenPost(ix *xIndex, ct *sgTr, call *ast.CallExpr, idx int, lenX *sgI, depth int) (*sgB, string) {
	if idx != 0 {
		return nil, ""
	}
	ft := ct.s.calleeType(call)
	if _, ok := ft.E.(*ast.FuncType); !ok {
		return nil, ""
	}
	// find the declaration (calleeType only gives the type): same resolution by name
	var callee *xFunc
	switch f := call.Fun.(type) {
	case *ast.Ident:
		callee = ct.fn.File.Pkg.Funcs[f.Name]
	case *ast.SelectorExpr:
		if id, ok := f.X.(*ast.Ident); ok {
			if _, isVar := ct.s.vars[id.Name]; !isVar {
				if pk := ix.pkgByImport(ct.fn.File.Imports[id.Name]); pk != nil {
					callee = pk.Funcs[f.Sel.Name]
				}
			}
		}
	}
	if callee == nil || callee.Decl.Body == nil || callee.Decl.Type.Results == nil {
		return nil, ""
	}
	nres := 0
	for _, f := range callee.Decl.Type.Results.List {
		k := len(f.Names)
		if k == 0 {
			k = 1
		}
		nres += k
	}
	if nres != 2 {
		return nil, ""
	}
	var params []string
	for _, f := range callee.Decl.Type.Params.List {
		for _, n := range f.Names {
			params = append(params, n.Name)
		}
	}
	if len(params) != len(call.Args) {
		return nil, ""
	}
	var post *sgB
	ok := true
	nOK := 0
	ix.walkFunc(callee, func(s *xScope, n ast.Node, stack []ast.Node) {
		ret, isRet := n.(*ast.ReturnStmt)
		if !isRet || !ok {
			return
		}
		for _, a := range stack {
			if _, inLit := a.(*ast.FuncLit); inLit {
				return // a return of a nested closure
			}
		}
		if len(ret.Results) != 2 {
			ok = false
			return
		}
		if !isNil(ret.Results[1]) {
			if !surelyNonNilError(ret.Results[1], ret, stack) {
				ok = false
			}
			return
		}
		r := pathText(ret.Results[0])
		if r == "" || strings.Contains(r, ".") {
			ok = false
			return
		}
		var lenR *sgI
		t2, hyps, _, _, reason := analyseSiteWith(ix, callee, s, "ret", ret, stack, func(t *sgTr) *sgB {
			lenR = t.lenAtom(&ast.Ident{Name: r})
			return sgCmp("<=", sgLit(0), lenR)
		}, depth+1)
		if reason != "" {
			ok = false
			return
		}
		// callee atoms -> caller expressions
		m := map[string]*sgI{lenR.name: lenX}
		for i, p := range params {
			if a, okA := ct.intExpr(call.Args[i]); okA {
				if k := ct.s.kind(call.Args[i]); k == "int" || k == "?" {
					m[sanitize(p)] = a
				}
			}
			m["len_"+sanitize(p)] = ct.lenAtom(call.Args[i])
		}
		// a parameter that is written in the callee no longer equals the argument
		for _, w := range writesIn(s, callee.Decl.Body) {
			for _, p := range params {
				if w.path == p {
					delete(m, sanitize(p))
					delete(m, "len_"+sanitize(p))
				}
			}
		}
		_ = t2
		var conj *sgB
		for _, h := range hyps {
			x := h.e.subst(m, sanitize(callee.Decl.Name.Name)+"_")
			if conj == nil {
				conj = x
			} else {
				conj = sgAnd(conj, x)
			}
		}
		if conj == nil {
			conj = &sgB{op: "true"}
		}
		if post == nil {
			post = conj
		} else {
			post = sgOr(post, conj)
		}
		nOK++
	})
	if !ok || nOK == 0 || post == nil {
		return nil, ""
	}
	return post, fmt.Sprintf("post: %s returns a nil error only after these facts (%s)", exprText(call.Fun), callee.File.Rel)
}

// dominates: the definition is a statement (or the init of an if / switch / for) that precedes the site on the
// path from the function body to the site
func (ss *sgSite) dominates(def ast.Node) bool {
	if def == nil {
		return false
	}
	path := append(append([]ast.Node{}, ss.stack...), ss.site)
	contains := func(outer ast.Node) bool { return outer.Pos() <= def.Pos() && def.End() <= outer.End() }
	for i, n := range ss.stack {
		child := path[i+1]
		switch t := n.(type) {
		case *ast.BlockStmt:
			for _, st := range t.List {
				if st == child {
					break
				}
				if as, ok := st.(*ast.AssignStmt); ok && contains(as) {
					return true
				}
				if ds, ok := st.(*ast.DeclStmt); ok && contains(ds) {
					return true
				}
			}
		case *ast.CaseClause:
			for _, st := range t.Body {
				if st == child {
					break
				}
				if as, ok := st.(*ast.AssignStmt); ok && contains(as) {
					return true
				}
			}
		case *ast.IfStmt:
			if t.Init != nil && contains(t.Init) && child != ast.Node(t.Init) {
				return true
			}
		case *ast.SwitchStmt:
			if t.Init != nil && contains(t.Init) && child != ast.Node(t.Init) {
				return true
			}
		}
	}
	return false
}

func (t *sgTr) nonEmptyStringConst(e ast.Expr) bool {
	if bl, ok := e.(*ast.BasicLit); ok && bl.Kind == token.STRING {
		s, err := strconv.Unquote(bl.Value)
		return err == nil && s != ""
	}
	var pk *xPkg
	name := ""
	switch x := e.(type) {
	case *ast.Ident:
		if _, isVar := t.s.vars[x.Name]; isVar {
			return false
		}
		pk, name = t.fn.File.Pkg, x.Name
	case *ast.SelectorExpr:
		id, ok := x.X.(*ast.Ident)
		if !ok {
			return false
		}
		if _, isVar := t.s.vars[id.Name]; isVar {
			return false
		}
		pk, name = t.s.ix.pkgByImport(t.fn.File.Imports[id.Name]), x.Sel.Name
	}
	if pk == nil {
		return false
	}
	if lit := constLiteral(pk, name); lit != nil && lit.Kind == token.STRING {
		s, err := strconv.Unquote(lit.Value)
		return err == nil && s != ""
	}
	return false
}

// ---------------------------------------------------------------- counterexample / witness search

type sgRand struct{ x uint64 }

func (r *sgRand) next() uint64 {
	r.x ^= r.x << 13
	r.x ^= r.x >> 7
	r.x ^= r.x << 17
	return r.x
}

var sgDomain = []int64{-2, -1, 0, 1, 2, 3, 4, 5, 7, 8}

func (e *sgI) lits(out map[int64]bool) {
	if e == nil {
		return
	}
	if e.op == "lit" {
		out[e.v] = true
	}
	e.a.lits(out)
	e.b.lits(out)
	e.c.lits(out)
}

func (e *sgB) lits(out map[int64]bool) {
	if e == nil {
		return
	}
	e.x.lits(out)
	e.y.lits(out)
	e.a.lits(out)
	e.b.lits(out)
}

func sgSearch(guard, safe *sgB, ints, flags []string) (witness, cex string) {
	r := &sgRand{0x9E3779B97F4A7C15}
	lm := map[int64]bool{}
	guard.lits(lm)
	safe.lits(lm)
	sgDomain := append([]int64{}, sgDomain...)
	var ls []int64
	for v := range lm {
		ls = append(ls, v)
	}
	sort.Slice(ls, func(i, j int) bool { return ls[i] < ls[j] })
	for _, v := range ls {
		for _, d := range []int64{-1, 0, 1} {
			dup := false
			for _, x := range sgDomain {
				if x == v+d {
					dup = true
				}
			}
			if !dup {
				sgDomain = append(sgDomain, v+d)
			}
		}
	}
	env := &sgEnv{ints: map[string]int64{}, flags: map[string]bool{}}
	show := func() string {
		var parts []string
		for _, n := range ints {
			parts = append(parts, fmt.Sprintf("%s=%d", n, env.ints[n]))
		}
		for _, n := range flags {
			parts = append(parts, fmt.Sprintf("%s=%v", n, env.flags[n]))
		}
		return strings.Join(parts, " ")
	}
	try := func() {
		g, ok := guard.eval(env)
		if !ok || !g {
			return
		}
		s, ok := safe.eval(env)
		if !ok {
			return
		}
		if s && witness == "" {
			witness = show()
		}
		if !s && cex == "" {
			cex = show()
		}
	}
	// uniform assignments first, then random ones
	for _, v := range sgDomain {
		for _, fv := range []bool{false, true} {
			for _, n := range ints {
				env.ints[n] = v
			}
			for _, n := range flags {
				env.flags[n] = fv
			}
			try()
		}
	}
	for i := 0; i < 200000 && (witness == "" || cex == ""); i++ {
		for _, n := range ints {
			env.ints[n] = sgDomain[r.next()%uint64(len(sgDomain))]
		}
		for _, n := range flags {
			env.flags[n] = r.next()&1 == 1
		}
		try()
	}
	return
}

// ---------------------------------------------------------------- the fact generator

func init() {
	factGens = append(factGens, func(repo string, emit func(name, leanDef string, err error)) {
		type item struct{ name, def, index string }
		var items []item
		var index []string
		used := map[string]int{}
		seen := map[string]int{}
		siteSink = func(ix *xIndex, fn *xFunc, s *xScope, kind string, siteStr string, site ast.Node, stack []ast.Node) {
			seen[siteStr]++
			if seen[siteStr] > 1 {
				siteStr = fmt.Sprintf("%s#%d", siteStr, seen[siteStr])
			}
			if kind != "index" && kind != "intdiv" && kind != "newcoin" {
				return
			}
			if strings.HasPrefix(fn.File.Rel, "x/appchain/") {
				return // not wired into the application
			}
			t, hyps, safe, dropped, reason := analyseSite(ix, fn, s, kind, site, stack)
			if reason != "" {
				index = append(index, siteStr+" | none | "+reason)
				return
			}
			guard := &sgB{op: "true"}
			for i, h := range hyps {
				if i == 0 {
					guard = h.e
				} else {
					guard = sgAnd(guard, h.e)
				}
			}
			im, fm := map[string]bool{}, map[string]bool{}
			guard.collect(im, fm)
			safe.collect(im, fm)
			var ints, flags []string
			for n := range im {
				ints = append(ints, n)
			}
			for n := range fm {
				flags = append(flags, n)
			}
			sort.Strings(ints)
			sort.Strings(flags)
			witness, cex := sgSearch(guard, safe, ints, flags)
			if cex != "" {
				index = append(index, siteStr+" | none | not locally safe: "+cex+" satisfies every local fact ("+guard.lean()+") but not "+safe.lean())
				return
			}
			if witness == "" {
				index = append(index, siteStr+" | none | no assignment satisfying the local facts found (facts: "+guard.lean()+")")
				return
			}
			base := sanitize(fn.Decl.Name.Name) + "_" + sanitize(srcText(site))
			if len(base) > 70 {
				base = base[:70]
			}
			base = strings.TrimRight(base, "_")
			used[base]++
			if used[base] > 1 {
				base = fmt.Sprintf("%s_%d", base, used[base])
			}
			params := ""
			if len(ints) > 0 {
				params += " (" + strings.Join(ints, " ") + " : Int)"
			}
			if len(flags) > 0 {
				params += " (" + strings.Join(flags, " ") + " : Bool)"
			}
			var why []string
			for _, h := range hyps {
				why = append(why, h.why)
			}
			doc := fmt.Sprintf("/-- %s: %s — what is known when control reaches `%s` [%s]", fn.File.Rel, fn.QName(), srcText(site), strings.Join(why, "; "))
			if len(dropped) > 0 {
				doc += "; left out: " + strings.Join(dropped, " | ")
			}
			doc += " -/"
			_ = t
			var lines []string
			for _, h := range hyps {
				lines = append(lines, h.e.lean())
			}
			body := "true"
			if len(lines) > 0 {
				body = strings.Join(lines, " &&\n  ")
			}
			def := doc + "\ndef siteGuard_" + base + params + " : Bool :=\n  " + body + "\n\n" +
				fmt.Sprintf("/-- %s: %s — `%s` does not panic -/\ndef siteSafe_%s%s : Bool :=\n  %s", fn.File.Rel, fn.QName(), srcText(site), base, params, safe.lean())
			items = append(items, item{"siteGuard_" + base, def, ""})
			index = append(index, siteStr+" | siteGuard_"+base+params+" | witness: "+witness)
		}
		defer func() { siteSink = nil }()
		genLivenessFacts(repo, func(string, string, error) {})
		for _, it := range items {
			emit(it.name, it.def, nil)
		}
		sort.Strings(index)
		var err error
		if len(items) == 0 {
			err = fmt.Errorf("no site-guard kernel could be generated")
		}
		emit("siteGuardIndex", "/-- index / intdiv / newcoin site on a block path | its guard + safety kernels and parameters (or `none` and why no kernel was generated) | a satisfying assignment of the guard -/\ndef siteGuardIndex : List String := "+leanStrListNL(index), err)
	})
}

// ---------------------------------------------------------------- slices of functions by variable

// mentionShape: the statements of a function that mention one of the given identifiers, in source order, one
// line each (a compound statement contributes its header when the header mentions a name or something inside it
// was listed; closures passed to calls are walked; return / break / continue / goto are always listed). The hand-written length models of Props/C11Sites.lean
// (parallel slices built in lock step, permuted index slices) are tied to the code through these lists: adding
// or removing a write of one of the slices, or changing a loop over them, changes the list.
func mentionShape(fn *xFunc, names []string) []string {
	want := map[string]bool{}
	for _, n := range names {
		want[n] = true
	}
	mentions := func(n ast.Node) bool {
		if n == nil {
			return false
		}
		found := false
		ast.Inspect(n, func(m ast.Node) bool {
			if _, isLit := m.(*ast.FuncLit); isLit {
				return false
			}
			if id, ok := m.(*ast.Ident); ok && want[id.Name] {
				found = true
			}
			return !found
		})
		return found
	}
	var walk func(list []ast.Stmt) []string
	closures := func(n ast.Node) []string {
		var out []string
		ast.Inspect(n, func(m ast.Node) bool {
			if fl, ok := m.(*ast.FuncLit); ok {
				if inner := walk(fl.Body.List); len(inner) > 0 {
					out = append(out, "func {")
					out = append(out, inner...)
					out = append(out, "}")
				}
				return false
			}
			return true
		})
		return out
	}
	head := func(n ast.Node) string { // text without closure bodies
		var b strings.Builder
		_ = printerFprint(&b, n)
		s := strings.Join(strings.Fields(b.String()), " ")
		if i := strings.Index(s, "func("); i >= 0 {
			if j := strings.Index(s[i:], "{"); j >= 0 {
				s = s[:i+j] + "{…}" + s[strings.LastIndex(s, "}")+1:]
			}
		}
		return s
	}
	walk = func(list []ast.Stmt) []string {
		var out []string
		for _, st := range list {
			switch t := st.(type) {
			case *ast.BlockStmt:
				out = append(out, walk(t.List)...)
			case *ast.IfStmt:
				var inner []string
				inner = append(inner, walk(t.Body.List)...)
				var els []string
				switch e := t.Else.(type) {
				case *ast.BlockStmt:
					els = walk(e.List)
				case *ast.IfStmt:
					els = walk([]ast.Stmt{e})
				}
				h := "if "
				if t.Init != nil {
					h += head(t.Init) + "; "
				}
				h += head(t.Cond) + " {"
				if len(inner) > 0 || len(els) > 0 || mentions(t.Cond) || mentions(t.Init) {
					out = append(out, h)
					out = append(out, inner...)
					if len(els) > 0 {
						out = append(out, "} else {")
						out = append(out, els...)
					}
					out = append(out, "}")
				}
			case *ast.ForStmt:
				inner := walk(t.Body.List)
				h := "for "
				if t.Init != nil {
					h += head(t.Init)
				}
				h += "; "
				if t.Cond != nil {
					h += head(t.Cond)
				}
				h += "; "
				if t.Post != nil {
					h += head(t.Post)
				}
				if len(inner) > 0 || mentions(t.Init) || mentions(t.Cond) || mentions(t.Post) {
					out = append(out, h+" {")
					out = append(out, inner...)
					out = append(out, "}")
				}
			case *ast.RangeStmt:
				inner := walk(t.Body.List)
				h := "for "
				if t.Key != nil {
					h += head(t.Key)
				}
				if t.Value != nil {
					h += ", " + head(t.Value)
				}
				h += " " + t.Tok.String() + " range " + head(t.X) + " {"
				if len(inner) > 0 || mentions(t.X) || mentions(t.Key) || mentions(t.Value) {
					out = append(out, h)
					out = append(out, inner...)
					out = append(out, "}")
				}
			case *ast.SwitchStmt, *ast.TypeSwitchStmt, *ast.SelectStmt:
				if mentions(st) {
					out = append(out, head(st))
				}
			default:
				cl := closures(st)
				_, isBranch := st.(*ast.BranchStmt)
				_, isRet := st.(*ast.ReturnStmt)
				// control transfers are always listed: a `continue` before an append breaks the lock step
				if mentions(st) || len(cl) > 0 || isBranch || isRet {
					out = append(out, head(st))
					out = append(out, cl...)
				}
			}
		}
		return out
	}
	if fn.Decl.Body == nil {
		return nil
	}
	return walk(fn.Decl.Body.List)
}

type sliceShapeSpec struct {
	name, dir, fn string
	vars          []string
}

var sliceShapes = []sliceShapeSpec{
	{"sliceShape_SortByPower", "utils", "SortByPower", []string{"indices", "operatorAddrs", "pubKeys", "powers", "sortedOperatorAddrs", "sortedPubKeys", "sortedPowers"}},
	{"sliceShape_GetOperatorsForChainID", "x/operator/keeper", "Keeper.GetOperatorsForChainID", []string{"addrs", "pubKeys"}},
	{"sliceShape_GetActiveOperatorsForChainID", "x/operator/keeper", "Keeper.GetActiveOperatorsForChainID", []string{"operatorsAddr", "pks", "activeOperator", "activePks"}},
	{"sliceShape_GetVotePowerForChainID", "x/operator/keeper", "Keeper.GetVotePowerForChainID", []string{"ret", "operators"}},
	{"sliceShape_dogfoodEndBlock", "x/dogfood/keeper", "Keeper.EndBlock", []string{"operators", "keys", "powers"}},
}

func init() {
	factGens = append(factGens, func(repo string, emit func(name, leanDef string, err error)) {
		ix, err := loadIndex(repo)
		for _, sp := range sliceShapes {
			if err != nil {
				emit(sp.name, "", err)
				continue
			}
			var fn *xFunc
			if pk := ix.Pkgs[sp.dir]; pk != nil {
				for _, f := range pk.allFuncs() {
					if f.QName() == sp.fn {
						fn = f
					}
				}
			}
			if fn == nil {
				emit(sp.name, "", fmt.Errorf("%s: %s not found", sp.dir, sp.fn))
				continue
			}
			sh := mentionShape(fn, sp.vars)
			var e error
			if len(sh) == 0 {
				e = fmt.Errorf("%s: no statement mentions %v", sp.fn, sp.vars)
			}
			emit(sp.name, fmt.Sprintf("/-- %s: %s — the statements that mention %s -/\ndef %s : List String := ", fn.File.Rel, sp.fn, strings.Join(sp.vars, ", "), sp.name)+leanStrListNL(sh), e)
		}
	})
}

// ---------------------------------------------------------------- validations: what holds when a func(…) error returns nil

// resolveCallee: the repository function / method a call expression names (by the static type of the receiver)
func resolveCallee(ix *xIndex, ct *sgTr, call *ast.CallExpr) (callee *xFunc, recv ast.Expr) {
	switch f := call.Fun.(type) {
	case *ast.Ident:
		if _, isVar := ct.s.vars[f.Name]; !isVar {
			callee = ct.fn.File.Pkg.Funcs[f.Name]
		}
	case *ast.SelectorExpr:
		if id, ok := f.X.(*ast.Ident); ok {
			if _, isVar := ct.s.vars[id.Name]; !isVar {
				if _, isPkgVar := ct.fn.File.Pkg.Vars[id.Name]; !isPkgVar {
					if pk := ix.pkgByImport(ct.fn.File.Imports[id.Name]); pk != nil {
						return pk.Funcs[f.Sel.Name], nil
					}
				}
			}
		}
		rt := ct.s.typeOf(f.X)
		if rt.E != nil {
			if pk, name := ix.namedOf(rt); pk != nil {
				if m := pk.Methods[name][f.Sel.Name]; m != nil {
					return m, f.X
				}
			}
		}
	}
	return callee, nil
}

// nilReturnFacts: for a function whose only result is an error: the disjunction, over its returns that may
// return nil (`return nil`, or a pass-through `return g(…)`), of the local facts at that return. Returns the
// formula over the callee's own atoms and the translator that owns them.
func nilReturnFacts(ix *xIndex, callee *xFunc, depth int) (*sgB, *sgTr) {
	if callee == nil || callee.Decl.Body == nil || callee.Decl.Type.Results == nil {
		return nil, nil
	}
	if len(callee.Decl.Type.Results.List) != 1 || len(callee.Decl.Type.Results.List[0].Names) > 1 || exprText(callee.Decl.Type.Results.List[0].Type) != "error" {
		return nil, nil
	}
	var post *sgB
	var owner *sgTr
	ok := true
	ix.walkFunc(callee, func(s *xScope, n ast.Node, stack []ast.Node) {
		ret, isRet := n.(*ast.ReturnStmt)
		if !isRet || !ok {
			return
		}
		for _, a := range stack {
			if _, inLit := a.(*ast.FuncLit); inLit {
				return
			}
		}
		if len(ret.Results) != 1 {
			ok = false // bare return of a named result
			return
		}
		if !isNil(ret.Results[0]) && surelyNonNilError(ret.Results[0], ret, stack) {
			return
		}
		t2, hyps, _, _, reason := analyseSiteWith(ix, callee, s, "ret", ret, stack, func(t *sgTr) *sgB {
			if owner != nil { // one atom table for all returns of the callee
				t.atoms = owner.atoms
			}
			return &sgB{op: "true"}
		}, depth+1)
		if reason != "" {
			ok = false
			return
		}
		if owner == nil {
			owner = t2
		}
		var conj *sgB
		for _, h := range hyps {
			if conj == nil {
				conj = h.e
			} else {
				conj = sgAnd(conj, h.e)
			}
		}
		if conj == nil {
			conj = &sgB{op: "true"}
		}
		if post == nil {
			post = conj
		} else {
			post = sgOr(post, conj)
		}
	})
	if !ok || post == nil {
		return nil, nil
	}
	return post, owner
}

// calleeNilFacts: nilReturnFacts of the called function with the caller's arguments / receiver substituted for the
// callee's parameters / receiver (by path prefix: callee `f.Interval` becomes caller `feeder.Interval`); atoms of
// the callee that are not rooted at a parameter become fresh variables. Also returns the caller paths the formula
// mentions (for the stability check).
func calleeNilFacts(ix *xIndex, ct *sgTr, call *ast.CallExpr, depth int) (*sgB, string, []string) {
	callee, recv := resolveCallee(ix, ct, call)
	post, owner := nilReturnFacts(ix, callee, depth)
	if post == nil {
		return nil, "", nil
	}
	// parameter / receiver name -> caller expression
	bind := map[string]ast.Expr{}
	i := 0
	for _, f := range callee.Decl.Type.Params.List {
		for _, n := range f.Names {
			if i < len(call.Args) {
				bind[n.Name] = call.Args[i]
			}
			i++
		}
	}
	if i != len(call.Args) {
		return nil, "", nil
	}
	if callee.Decl.Recv != nil && recv != nil && len(callee.Decl.Recv.List) == 1 && len(callee.Decl.Recv.List[0].Names) == 1 {
		bind[callee.Decl.Recv.List[0].Names[0].Name] = recv
	}
	written := map[string]bool{}
	for _, w := range writesIn(owner.s, callee.Decl.Body) {
		written[rootOf(w.path)] = true
	}
	m := map[string]*sgI{}
	fm := map[string]string{}
	var paths []string
	pfx := sanitize(callee.Decl.Name.Name) + "_"
	for name, info := range owner.atoms {
		root := rootOf(info.path)
		arg, bound := bind[root]
		if !bound || written[root] || info.path == "" {
			continue
		}
		rest := info.path[len(root):]
		if ap := pathText(arg); ap != "" && (rest == "" || rest[0] == '.') {
			np := ap + rest
			nn := sanitize(np)
			if info.isLen {
				nn = "len_" + nn
			}
			if leanReserved[nn] {
				nn += "_v"
			}
			if strings.HasSuffix(name, "_flag") || strings.HasSuffix(name, "_isNil") {
				suffix := name[strings.LastIndex(name, "_"):]
				fm[name] = sanitize(np) + suffix
				if ct.atoms[fm[name]] == nil {
					ct.atoms[fm[name]] = &sgAtomInfo{path: np}
				}
				paths = append(paths, np)
				continue
			}
			if ct.atoms[nn] == nil {
				ct.atoms[nn] = &sgAtomInfo{path: np, isLen: info.isLen, unsigned: info.unsigned}
			}
			m[name] = sgAtom(nn)
			paths = append(paths, np)
			continue
		}
		if rest == "" && !info.isLen {
			if k := ct.s.kind(arg); k == "int" || k == "bigint" || k == "dec" || k == "?" {
				if a, ok := ct.intExpr(arg); ok {
					m[name] = a
					paths = append(paths, ct.pathsOf(nil, a)...)
				}
			}
		}
	}
	out := post.subst(m, pfx)
	// flags rooted at a parameter keep their meaning under the caller's name
	var renameFlags func(e *sgB)
	renameFlags = func(e *sgB) {
		if e == nil {
			return
		}
		if e.op == "flag" {
			if nn, ok := fm[strings.TrimPrefix(e.name, pfx)]; ok {
				e.name = nn
			}
		}
		renameFlags(e.x)
		renameFlags(e.y)
	}
	renameFlags(out)
	return out, fmt.Sprintf("post: %s returned nil (%s: %s)", exprText(call.Fun), callee.File.Rel, callee.QName()), paths
}

// validation kernels: what is known when a validating function returns nil / when an iteration of a
// validating loop completes. Props/C11Sites.lean proves that these imply the operand conditions of the sites
// that rely on validated parameters.
type validSpec struct {
	name, dir, fn string
	loopOver      string // "" = the function's nil returns; else: the end of the body of `for … := range <loopOver>`
}

var validSpecs = []validSpec{
	{"validOk_TokenFeeder_validate", "x/oracle/types", "TokenFeeder.validate", ""},
	{"validPass_Params_Validate_TokenFeeders", "x/oracle/types", "Params.Validate", "p.TokenFeeders"},
	{"validOk_ValidateEpochReward", "x/exomint/types", "ValidateEpochReward", ""},
}

func kernelOf(name, doc string, guard *sgB) string {
	im, fm := map[string]bool{}, map[string]bool{}
	guard.collect(im, fm)
	var ints, flags []string
	for n := range im {
		ints = append(ints, n)
	}
	for n := range fm {
		flags = append(flags, n)
	}
	sort.Strings(ints)
	sort.Strings(flags)
	params := ""
	if len(ints) > 0 {
		params += " (" + strings.Join(ints, " ") + " : Int)"
	}
	if len(flags) > 0 {
		params += " (" + strings.Join(flags, " ") + " : Bool)"
	}
	return doc + "\ndef " + name + params + " : Bool :=\n  " + guard.lean()
}

func init() {
	factGens = append(factGens, func(repo string, emit func(name, leanDef string, err error)) {
		ix, err := loadIndex(repo)
		for _, sp := range validSpecs {
			if err != nil {
				emit(sp.name, "", err)
				continue
			}
			var fn *xFunc
			if pk := ix.Pkgs[sp.dir]; pk != nil {
				for _, f := range pk.allFuncs() {
					if f.QName() == sp.fn {
						fn = f
					}
				}
			}
			if fn == nil {
				emit(sp.name, "", fmt.Errorf("%s: %s not found", sp.dir, sp.fn))
				continue
			}
			if sp.loopOver == "" {
				post, _ := nilReturnFacts(ix, fn, 0)
				if post == nil {
					emit(sp.name, "", fmt.Errorf("%s: the facts at its nil returns could not be collected", sp.fn))
					continue
				}
				emit(sp.name, kernelOf(sp.name, fmt.Sprintf("/-- %s: %s — what is known whenever it returns a nil error (disjunction over its returns that may return nil of the conditions that dominate them) -/", fn.File.Rel, sp.fn), post), nil)
				continue
			}
			var guard *sgB
			ix.walkFunc(fn, func(s *xScope, n ast.Node, stack []ast.Node) {
				r, ok := n.(*ast.RangeStmt)
				if !ok || longText(r.X) != sp.loopOver || len(r.Body.List) == 0 || guard != nil {
					return
				}
				last := r.Body.List[len(r.Body.List)-1]
				st := append(append([]ast.Node{}, stack...), r, r.Body)
				_, hyps, _, _, reason := analyseSiteWith(ix, fn, s, "ret", &ast.ReturnStmt{Return: last.Pos()}, st, func(t *sgTr) *sgB { return &sgB{op: "true"} }, 0)
				if reason != "" {
					return
				}
				for _, h := range hyps {
					if guard == nil {
						guard = h.e
					} else {
						guard = sgAnd(guard, h.e)
					}
				}
			})
			if guard == nil {
				emit(sp.name, "", fmt.Errorf("%s: no loop over %s, or its facts could not be collected", sp.fn, sp.loopOver))
				continue
			}
			emit(sp.name, kernelOf(sp.name, fmt.Sprintf("/-- %s: %s — what is known when an iteration of `for … := range %s` reaches its last statement (every earlier check of the body passed) -/", fn.File.Rel, sp.fn, sp.loopOver), guard), nil)
		}
	})
}
