package main

// C04 fact pinning the loop of x/delegation/keeper/un_delegation_state.go: IterateUndelegationsByOperator,
// the iteration SlashAssets uses to reach "each pending undelegation that was started at or after the
// infraction height". The Lean model (Model/Ledger.lean: slashRecords) visits EVERY record of the store
// and cuts those with `k.op = o ∧ infraction ≤ k.height`; that is the Go loop only as long as a record
// below the height filter is skipped (`continue`) and not the end of the iteration, the filter compares
// the start height of the key with `<`, the closure runs on every remaining record and the record is
// written back under its own key when isUpdate. Props/C04LoopTie.lean compares the regenerated skeleton
// (rendered by `skeleton` of facts_nst.go) with the literal the model was transcribed from.

import "fmt"

func init() {
	factGens = append(factGens, slashLoopFacts)
}

func slashLoopFacts(repo string, emit func(name, leanDef string, err error)) {
	const file = "x/delegation/keeper/un_delegation_state.go"
	const name = "slashRecordLoopSkeleton"
	f, fset, err := parseRepoFile(repo, file)
	if err != nil {
		emit(name, "", err)
		return
	}
	fd := findFunc(f, "Keeper.IterateUndelegationsByOperator")
	if fd == nil {
		emit(name, "", fmt.Errorf("Keeper.IterateUndelegationsByOperator not found"))
		return
	}
	sk := skeleton(fset, fd.Body, map[string]bool{"store": true, "iterator": true},
		map[string][]int{"ParseUndelegationRecordKey": {0}, "opFunc": {0}, "Set": {0, 1}})
	emit(name, "/-- "+file+": IterateUndelegationsByOperator — store, prefix, height filter and per-record statements in source order -/\ndef "+name+" : List String := "+leanStrList(sk), nil)
}
