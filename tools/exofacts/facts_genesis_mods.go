package main

// C18 facts for the x/assets, x/exomint, x/feedistribution and x/oracle genesis models.
//   assetsPrefixPairs      per exported collection of x/assets: (exporter, setter InitGenesis uses, store prefix the
//                          exporter iterates, store prefix the setter writes), prefixes evaluated from keys.go
//   assetsStoreKeys        per setter: the Go expression of the store key it writes (one assignment resolved)
//   assetsInitRowsAsDelta  InitGenesis converts the exported rows with types.DeltaStakerSingleAsset /
//                          types.DeltaOperatorSingleAsset and hands them to UpdateStakerAssetState / UpdateOperatorAssetState
//   assetsSetTokenGuards   the conditions under which SetStakingAssetInfo returns an error, and MaxDecimal
//   assetsValidateOrder    the checks GenesisState.Validate runs, in order
//   assetsValidateChecks   per Validate* function: the messages of its ErrInvalidGenesisData rejections, in source order
//   assetsValidateNativeExempt  the "unknown assetID for operator assets" rejection of ValidateOperatorAssets excepts
//                          ExocoreAssetID and the total comparison is guarded by the token's presence (F-18j repair)
//   oracleEmptyStakerListDeleted / oracleStakerIndexShifted  UpdateNSTValidatorListForStaker deletes the list entry when the
//                          list becomes empty / rewrites StakerIndex of the stakers behind the removed one (F-18m / F-18n repairs)
//   genesisStateFields     the fields of the GenesisState message of exomint / feedistribution / oracle (genesis.pb.go)
//   feedistributionStoreKeys  the key prefixes x/feedistribution declares (what its store can hold)
//   oracleKeyPrefixes      the key prefixes x/oracle declares in types/key*.go
//   oracleCollectionPrefixes  per exported oracle collection: (exporter, setter, prefix the exporter iterates / reads,
//                          prefix the setter writes)

import (
	"bytes"
	"fmt"
	"go/ast"
	"go/parser"
	"go/printer"
	"go/token"
	"os"
	"path/filepath"
	"sort"
	"strconv"
	"strings"
)

// srcText prints a node as Go source on one line.
func goSrc(n ast.Node) string {
	var b bytes.Buffer
	_ = printer.Fprint(&b, token.NewFileSet(), n)
	return strings.Join(strings.Fields(b.String()), " ")
}

// firstSelector returns the selector name X of the first pkg.X expression in fd whose X starts with pfx.
func firstSelector(fd *ast.FuncDecl, pfx string) string {
	name := ""
	ast.Inspect(fd.Body, func(n ast.Node) bool {
		se, ok := n.(*ast.SelectorExpr)
		if ok && name == "" && strings.HasPrefix(se.Sel.Name, pfx) {
			if _, isIdent := se.X.(*ast.Ident); isIdent {
				name = se.Sel.Name
			}
		}
		return true
	})
	return name
}

// byteVarOf maps `X = []byte{c}` package variables to the identifier c.
func byteVars(f *ast.File) map[string]string {
	res := map[string]string{}
	for _, d := range f.Decls {
		gd, ok := d.(*ast.GenDecl)
		if !ok || gd.Tok != token.VAR {
			continue
		}
		for _, sp := range gd.Specs {
			vs := sp.(*ast.ValueSpec)
			if len(vs.Names) == 1 && len(vs.Values) == 1 {
				if cl, ok := vs.Values[0].(*ast.CompositeLit); ok && len(cl.Elts) == 1 {
					res[vs.Names[0].Name] = exprText(cl.Elts[0])
				}
			}
		}
	}
	return res
}

// storeSetKey: the first argument of the first store.Set(…) call in fd; an identifier is replaced by the right-hand
// side of its (first) assignment in fd.
func storeSetKey(fd *ast.FuncDecl) string {
	var arg ast.Expr
	ast.Inspect(fd.Body, func(n ast.Node) bool {
		c, ok := n.(*ast.CallExpr)
		if ok && arg == nil && exprText(c.Fun) == "store.Set" && len(c.Args) == 2 {
			arg = c.Args[0]
		}
		return true
	})
	if arg == nil {
		return ""
	}
	resolve := func(id string) string {
		out := ""
		ast.Inspect(fd.Body, func(n ast.Node) bool {
			as, ok := n.(*ast.AssignStmt)
			if !ok || out != "" || len(as.Rhs) != 1 {
				return true
			}
			for _, l := range as.Lhs {
				if exprText(l) == id {
					out = goSrc(as.Rhs[0])
				}
			}
			return true
		})
		return out
	}
	text := goSrc(arg)
	if id, ok := arg.(*ast.Ident); ok {
		if r := resolve(id.Name); r != "" {
			return id.Name + " := " + r
		}
	}
	if c, ok := arg.(*ast.CallExpr); ok && len(c.Args) == 1 {
		if id, ok := c.Args[0].(*ast.Ident); ok {
			if r := resolve(id.Name); r != "" {
				return text + " where " + id.Name + " := " + r
			}
		}
	}
	return text
}

// errorGuards: the conditions of the if statements of fd whose body returns a non-nil error value directly.
func errorGuards(fd *ast.FuncDecl) []string {
	var out []string
	for _, st := range fd.Body.List {
		is, ok := st.(*ast.IfStmt)
		if !ok || is.Init != nil {
			continue
		}
		for _, b := range is.Body.List {
			if r, ok := b.(*ast.ReturnStmt); ok && len(r.Results) == 1 && exprText(r.Results[0]) != "nil" {
				out = append(out, goSrc(is.Cond))
			}
		}
	}
	return out
}

// wrapfMessages: the format strings of errorsmod.Wrapf(ErrInvalidGenesisData, "…", …) calls, in source order.
func wrapfMessages(fd *ast.FuncDecl) []string {
	var out []string
	ast.Inspect(fd.Body, func(n ast.Node) bool {
		c, ok := n.(*ast.CallExpr)
		if !ok || exprText(c.Fun) != "errorsmod.Wrapf" || len(c.Args) < 2 || exprText(c.Args[0]) != "ErrInvalidGenesisData" {
			return true
		}
		if bl, ok := c.Args[1].(*ast.BasicLit); ok {
			if s, err := strconv.Unquote(bl.Value); err == nil {
				out = append(out, s)
			}
		}
		return true
	})
	return out
}

func structFields(f *ast.File, name string) []string {
	var out []string
	for _, d := range f.Decls {
		gd, ok := d.(*ast.GenDecl)
		if !ok || gd.Tok != token.TYPE {
			continue
		}
		for _, sp := range gd.Specs {
			ts := sp.(*ast.TypeSpec)
			st, ok := ts.Type.(*ast.StructType)
			if !ok || ts.Name.Name != name {
				continue
			}
			for _, fl := range st.Fields.List {
				for _, n := range fl.Names {
					out = append(out, n.Name)
				}
			}
		}
	}
	return out
}

// stringConsts: name -> value of the string constants of f (a `A + "lit"` concatenation of an earlier constant is evaluated).
func stringConsts(f *ast.File, into map[string]string) {
	for _, d := range f.Decls {
		gd, ok := d.(*ast.GenDecl)
		if !ok || gd.Tok != token.CONST {
			continue
		}
		for _, sp := range gd.Specs {
			vs := sp.(*ast.ValueSpec)
			if len(vs.Names) != 1 || len(vs.Values) != 1 {
				continue
			}
			switch v := vs.Values[0].(type) {
			case *ast.BasicLit:
				if v.Kind == token.STRING {
					s, _ := strconv.Unquote(v.Value)
					into[vs.Names[0].Name] = s
				}
			case *ast.BinaryExpr:
				if id, ok := v.X.(*ast.Ident); ok && v.Op == token.ADD {
					if bl, ok := v.Y.(*ast.BasicLit); ok && bl.Kind == token.STRING {
						if base, ok := into[id.Name]; ok {
							s, _ := strconv.Unquote(bl.Value)
							into[vs.Names[0].Name] = base + s
						}
					}
				}
			}
		}
	}
}

// firstPrefixConst: the first identifier of fd (or pkg.identifier) that names one of the given string constants.
func firstPrefixConst(fd *ast.FuncDecl, consts map[string]string) string {
	name := ""
	ast.Inspect(fd.Body, func(n ast.Node) bool {
		if name != "" {
			return false
		}
		switch e := n.(type) {
		case *ast.SelectorExpr:
			if _, ok := consts[e.Sel.Name]; ok {
				name = e.Sel.Name
			}
		case *ast.Ident:
			if _, ok := consts[e.Name]; ok {
				name = e.Name
			}
		}
		return true
	})
	return name
}

func genesisModsGen(repo string, emit func(name, leanDef string, err error)) {
	fset := token.NewFileSet()
	parse := func(p string) (*ast.File, error) { return parser.ParseFile(fset, repo+"/"+p, nil, 0) }
	fail := func(err error, names ...string) {
		for _, n := range names {
			emit(n, "", err)
		}
	}
	// ---------------------------------------------------------------- x/assets
	func() {
		names := []string{"assetsPrefixPairs", "assetsStoreKeys", "assetsInitRowsAsDelta", "assetsSetTokenGuards", "assetsValidateOrder", "assetsValidateChecks"}
		keys, err := parse("x/assets/types/keys.go")
		if err != nil {
			fail(err, names...)
			return
		}
		consts := iotaConsts(keys)
		bvars := byteVars(keys)
		files := map[string]*ast.File{}
		for _, p := range []string{"client_chain.go", "client_chain_asset.go", "staker_asset.go", "operator_asset.go", "genesis.go"} {
			f, err := parse("x/assets/keeper/" + p)
			if err != nil {
				fail(err, names...)
				return
			}
			files[p] = f
		}
		prefixOf := func(file, fn string) (int, error) {
			fd := findFunc(files[file], "Keeper."+fn)
			if fd == nil {
				return 0, fmt.Errorf("%s not found in %s", fn, file)
			}
			sel := firstSelector(fd, "KeyPrefix")
			c, ok := bvars[sel]
			v, ok2 := consts[c]
			if sel == "" || !ok || !ok2 {
				return 0, fmt.Errorf("%s: cannot evaluate store prefix %q", fn, sel)
			}
			return v, nil
		}
		cols := []struct{ exporter, iterFn, setter, file string }{
			{"GetAllClientChainInfo", "IterateAllClientChains", "SetClientChainInfo", "client_chain.go"},
			{"GetAllStakingAssetsInfo", "GetAllStakingAssetsInfo", "SetStakingAssetInfo", "client_chain_asset.go"},
			{"AllDeposits", "AllDeposits", "UpdateStakerAssetState", "staker_asset.go"},
			{"AllOperatorAssets", "AllOperatorAssets", "UpdateOperatorAssetState", "operator_asset.go"},
		}
		var pairs, skeys []string
		for _, c := range cols {
			if c.exporter != c.iterFn {
				ex := findFunc(files[c.file], "Keeper."+c.exporter)
				found := false
				if ex != nil {
					ast.Inspect(ex.Body, func(n ast.Node) bool {
						if ce, ok := n.(*ast.CallExpr); ok && exprText(ce.Fun) == "k."+c.iterFn {
							found = true
						}
						return true
					})
				}
				if !found {
					fail(fmt.Errorf("%s does not call %s", c.exporter, c.iterFn), "assetsPrefixPairs", "assetsStoreKeys")
					return
				}
			}
			iv, err1 := prefixOf(c.file, c.iterFn)
			sv, err2 := prefixOf(c.file, c.setter)
			if err1 != nil || err2 != nil {
				fail(fmt.Errorf("%v %v", err1, err2), "assetsPrefixPairs", "assetsStoreKeys")
				return
			}
			pairs = append(pairs, fmt.Sprintf("(%q, %q, %d, %d)", c.exporter, c.setter, iv, sv))
			skeys = append(skeys, fmt.Sprintf("(%q, %q)", c.setter, storeSetKey(findFunc(files[c.file], "Keeper."+c.setter))))
		}
		emit("assetsPrefixPairs", "/-- x/assets: (exporter, setter used by InitGenesis, prefix the exporter iterates, prefix the setter writes) -/\ndef assetsPrefixPairs : List (String × String × Nat × Nat) := ["+strings.Join(pairs, ", ")+"]", nil)
		emit("assetsStoreKeys", "/-- x/assets: the store key each setter writes -/\ndef assetsStoreKeys : List (String × String) := [\n  "+strings.Join(skeys, ",\n  ")+"]", nil)
		// rows as deltas
		ig := findFunc(files["genesis.go"], "Keeper.InitGenesis")
		if ig == nil {
			fail(fmt.Errorf("x/assets InitGenesis not found"), "assetsInitRowsAsDelta")
		} else {
			conv := map[string]bool{}
			passed := map[string]bool{}
			ast.Inspect(ig.Body, func(n ast.Node) bool {
				switch e := n.(type) {
				case *ast.AssignStmt:
					if len(e.Lhs) == 1 && len(e.Rhs) == 1 && exprText(e.Lhs[0]) == "infoAsChange" {
						if c, ok := e.Rhs[0].(*ast.CallExpr); ok {
							conv[exprText(c.Fun)] = true
						}
					}
				case *ast.CallExpr:
					t := exprText(e.Fun)
					if (t == "k.UpdateStakerAssetState" || t == "k.UpdateOperatorAssetState") && len(e.Args) == 4 && exprText(e.Args[3]) == "infoAsChange" {
						passed[t] = true
					}
				}
				return true
			})
			ok := conv["types.DeltaStakerSingleAsset"] && conv["types.DeltaOperatorSingleAsset"] && passed["k.UpdateStakerAssetState"] && passed["k.UpdateOperatorAssetState"]
			emit("assetsInitRowsAsDelta", "/-- x/assets InitGenesis hands every exported row as a change to UpdateStakerAssetState / UpdateOperatorAssetState -/\ndef assetsInitRowsAsDelta : Bool := "+fmt.Sprint(ok), nil)
		}
		// SetStakingAssetInfo guards + MaxDecimal
		gen, err := parse("x/assets/types/general.go")
		st := findFunc(files["client_chain_asset.go"], "Keeper.SetStakingAssetInfo")
		if err != nil || st == nil {
			fail(fmt.Errorf("SetStakingAssetInfo / general.go: %v", err), "assetsSetTokenGuards")
		} else {
			maxDec := ""
			for _, d := range gen.Decls {
				if gd, ok := d.(*ast.GenDecl); ok && gd.Tok == token.CONST {
					for _, sp := range gd.Specs {
						vs := sp.(*ast.ValueSpec)
						for i, n := range vs.Names {
							if n.Name == "MaxDecimal" && i < len(vs.Values) {
								maxDec = goSrc(vs.Values[i])
							}
						}
					}
				}
			}
			if _, err := strconv.Atoi(maxDec); err != nil {
				fail(fmt.Errorf("MaxDecimal not a literal: %q", maxDec), "assetsSetTokenGuards")
			} else {
				emit("assetsSetTokenGuards", "/-- x/assets SetStakingAssetInfo: the conditions that make it return an error; MaxDecimal -/\ndef assetsSetTokenGuards : List String × Nat := ("+leanStrList(errorGuards(st))+", "+maxDec+")", nil)
			}
		}
		// Validate
		g, err := parse("x/assets/types/genesis.go")
		if err != nil {
			fail(err, "assetsValidateOrder", "assetsValidateChecks")
			return
		}
		v := findFunc(g, "GenesisState.Validate")
		if v == nil {
			fail(fmt.Errorf("GenesisState.Validate not found"), "assetsValidateOrder", "assetsValidateChecks")
			return
		}
		var order []string
		ast.Inspect(v.Body, func(n ast.Node) bool {
			if c, ok := n.(*ast.CallExpr); ok && strings.HasPrefix(exprText(c.Fun), "gs.") {
				order = append(order, strings.TrimPrefix(exprText(c.Fun), "gs."))
			}
			return true
		})
		emit("assetsValidateOrder", "/-- x/assets GenesisState.Validate: the checks it runs, in order -/\ndef assetsValidateOrder : List String := "+leanStrList(order), nil)
		var checks []string
		for _, fn := range []string{"ValidateClientChains", "ValidateTokens", "ValidateDeposits", "ValidateOperatorAssets"} {
			fd := findFunc(g, "GenesisState."+fn)
			if fd == nil {
				fail(fmt.Errorf("%s not found", fn), "assetsValidateChecks")
				return
			}
			checks = append(checks, fmt.Sprintf("(%q, %s)", fn, leanStrList(wrapfMessages(fd))))
		}
		// F-18j repair
		if fd := findFunc(g, "GenesisState.ValidateOperatorAssets"); fd != nil {
			exempt, guarded := false, false
			ast.Inspect(fd.Body, func(n ast.Node) bool {
				is, ok := n.(*ast.IfStmt)
				if !ok {
					return true
				}
				cond := goSrc(is.Cond)
				msgs := ""
				ast.Inspect(is.Body, func(m ast.Node) bool {
					if bl, ok := m.(*ast.BasicLit); ok {
						msgs += bl.Value
					}
					return true
				})
				if strings.Contains(msgs, "unknown assetID for operator assets") && cond == "!ok && asset.AssetID != ExocoreAssetID" {
					exempt = true
				}
				if strings.Contains(msgs, "operator's sum amount exceeds") && strings.HasPrefix(cond, "ok && ") {
					guarded = true
				}
				return true
			})
			emit("assetsValidateNativeExempt", "/-- x/assets ValidateOperatorAssets accepts a pool of ExocoreAssetID without a token entry and compares with the token's total only when the entry exists -/\ndef assetsValidateNativeExempt : Bool := "+fmt.Sprint(exempt && guarded), nil)
		} else {
			fail(fmt.Errorf("ValidateOperatorAssets not found"), "assetsValidateNativeExempt")
		}
		emit("assetsValidateChecks", "/-- x/assets: the rejections of each Validate* function (messages of its ErrInvalidGenesisData errors), in source order -/\ndef assetsValidateChecks : List (String × List String) := [\n  "+strings.Join(checks, ",\n  ")+"]", nil)
	}()
	// ---------------------------------------------------------------- genesis messages of mint / feedistribution / oracle
	func() {
		var items []string
		for _, m := range []string{"exomint", "feedistribution", "oracle"} {
			f, err := parse("x/" + m + "/types/genesis.pb.go")
			if err != nil {
				fail(err, "genesisStateFields")
				return
			}
			items = append(items, fmt.Sprintf("(%q, %s)", m, leanStrList(structFields(f, "GenesisState"))))
		}
		emit("genesisStateFields", "/-- the fields of the GenesisState message of each module -/\ndef genesisStateFields : List (String × List String) := [\n  "+strings.Join(items, ",\n  ")+"]", nil)
	}()
	func() {
		f, err := parse("x/feedistribution/types/keys.go")
		if err != nil {
			fail(err, "feedistributionStoreKeys")
			return
		}
		var ks []string
		for _, d := range f.Decls {
			gd, ok := d.(*ast.GenDecl)
			if !ok || gd.Tok != token.VAR {
				continue
			}
			for _, sp := range gd.Specs {
				vs := sp.(*ast.ValueSpec)
				if len(vs.Names) != 1 || len(vs.Values) != 1 {
					continue
				}
				t := goSrc(vs.Values[0])
				if strings.HasPrefix(t, "[]byte{") || strings.HasPrefix(t, "KeyPrefix(") {
					ks = append(ks, vs.Names[0].Name)
				}
			}
		}
		emit("feedistributionStoreKeys", "/-- the store keys / prefixes x/feedistribution declares -/\ndef feedistributionStoreKeys : List String := "+leanStrList(ks), nil)
	}()
	// ---------------------------------------------------------------- x/oracle
	func() {
		names := []string{"oracleKeyPrefixes", "oracleCollectionPrefixes"}
		consts := map[string]string{}
		paths, _ := filepath.Glob(repo + "/x/oracle/types/key*.go")
		sort.Strings(paths)
		for _, p := range paths {
			if strings.HasSuffix(p, "_test.go") {
				continue
			}
			src, err := os.ReadFile(p)
			if err != nil {
				fail(err, names...)
				return
			}
			f, err := parser.ParseFile(fset, p, src, 0)
			if err != nil {
				fail(err, names...)
				return
			}
			stringConsts(f, consts)
		}
		delete(consts, "ModuleName")
		delete(consts, "MemStoreKey")
		var ks []string
		for k, v := range consts {
			if strings.HasSuffix(v, "/") {
				ks = append(ks, fmt.Sprintf("(%q, %q)", k, v))
			}
		}
		sort.Strings(ks)
		emit("oracleKeyPrefixes", "/-- x/oracle: the key prefixes declared in types/key*.go -/\ndef oracleKeyPrefixes : List (String × String) := [\n  "+strings.Join(ks, ",\n  ")+"]", nil)
		cols := []struct{ exporter, efile, setter, sfile string }{
			{"GetAllPrices", "prices.go", "getPriceTRStore", "prices.go"},
			{"GetValidatorUpdateBlock", "validator_update_block.go", "SetValidatorUpdateBlock", "validator_update_block.go"},
			{"GetIndexRecentParams", "index_recent_params.go", "SetIndexRecentParams", "index_recent_params.go"},
			{"GetIndexRecentMsg", "index_recent_msg.go", "SetIndexRecentMsg", "index_recent_msg.go"},
			{"GetAllRecentMsg", "recent_msg.go", "SetRecentMsg", "recent_msg.go"},
			{"GetAllRecentParams", "recent_params.go", "SetRecentParams", "recent_params.go"},
			{"GetAllStakerInfosAssets", "native_token.go", "SetStakerInfos", "native_token.go"},
			{"GetAllStakerListAssets", "native_token.go", "SetStakerList", "native_token.go"},
		}
		// key-building functions of x/oracle/types: name -> prefix constant they mention
		keyFn := map[string]string{}
		for _, p := range paths {
			f, err := parser.ParseFile(fset, p, nil, 0)
			if err != nil {
				continue
			}
			for _, d := range f.Decls {
				if fd, ok := d.(*ast.FuncDecl); ok && fd.Recv == nil && fd.Body != nil {
					if c := firstPrefixConst(fd, consts); c != "" {
						keyFn[fd.Name.Name] = c
					}
				}
			}
		}
		// second pass: key functions defined through another key function
		for _, p := range paths {
			f, err := parser.ParseFile(fset, p, nil, 0)
			if err != nil {
				continue
			}
			for _, d := range f.Decls {
				fd, ok := d.(*ast.FuncDecl)
				if !ok || fd.Recv != nil || fd.Body == nil || keyFn[fd.Name.Name] != "" {
					continue
				}
				ast.Inspect(fd.Body, func(n ast.Node) bool {
					if c, ok := n.(*ast.CallExpr); ok && keyFn[fd.Name.Name] == "" {
						if id, ok := c.Fun.(*ast.Ident); ok && keyFn[id.Name] != "" {
							keyFn[fd.Name.Name] = keyFn[id.Name]
						}
					}
					return true
				})
			}
		}
		prefixUsed := func(file, fn string) string {
			f, err := parse("x/oracle/keeper/" + file)
			if err != nil {
				return ""
			}
			fd := findFunc(f, "Keeper."+fn)
			if fd == nil {
				return ""
			}
			if c := firstPrefixConst(fd, consts); c != "" {
				return c
			}
			// through a types.<KeyFn>(…) call
			out := ""
			ast.Inspect(fd.Body, func(n ast.Node) bool {
				if c, ok := n.(*ast.CallExpr); ok && out == "" {
					if se, ok := c.Fun.(*ast.SelectorExpr); ok && keyFn[se.Sel.Name] != "" {
						out = keyFn[se.Sel.Name]
					}
				}
				return true
			})
			return out
		}
		var items []string
		for _, c := range cols {
			e, s := prefixUsed(c.efile, c.exporter), prefixUsed(c.sfile, c.setter)
			if e == "" || s == "" {
				fail(fmt.Errorf("%s / %s: prefix not found (%q, %q)", c.exporter, c.setter, e, s), "oracleCollectionPrefixes")
				return
			}
			items = append(items, fmt.Sprintf("(%q, %q, %q, %q)", c.exporter, c.setter, e, s))
		}
		// F-18l: GetAllStakerListAssets iterates the module store (no prefix.NewStore) and exports string(iterator.Key())
		func() {
			f, err := parse("x/oracle/keeper/native_token.go")
			if err != nil {
				fail(err, "oracleStakerListExportsFullKey")
				return
			}
			fd := findFunc(f, "Keeper.GetAllStakerListAssets")
			if fd == nil {
				fail(fmt.Errorf("GetAllStakerListAssets not found"), "oracleStakerListExportsFullKey")
				return
			}
			prefixStore, keyAsID := false, false
			ast.Inspect(fd.Body, func(n ast.Node) bool {
				switch e := n.(type) {
				case *ast.CallExpr:
					if exprText(e.Fun) == "prefix.NewStore" {
						prefixStore = true
					}
				case *ast.KeyValueExpr:
					if exprText(e.Key) == "AssetId" && strings.Contains(goSrc(e.Value), "iterator.Key()") {
						keyAsID = true
					}
				}
				return true
			})
			emit("oracleStakerListExportsFullKey", "/-- x/oracle GetAllStakerListAssets exports iterator.Key() of an iterator over the un-prefixed module store as asset id -/\ndef oracleStakerListExportsFullKey : Bool := "+fmt.Sprint(keyAsID && !prefixStore), nil)
		}()
		// F-18m / F-18n repairs in UpdateNSTValidatorListForStaker
		func() {
			f, err := parse("x/oracle/keeper/native_token.go")
			if err != nil {
				fail(err, "oracleEmptyStakerListDeleted", "oracleStakerIndexShifted")
				return
			}
			fd := findFunc(f, "Keeper.UpdateNSTValidatorListForStaker")
			if fd == nil {
				fail(fmt.Errorf("UpdateNSTValidatorListForStaker not found"), "oracleEmptyStakerListDeleted", "oracleStakerIndexShifted")
				return
			}
			deleted, shifted := false, false
			ast.Inspect(fd.Body, func(n ast.Node) bool {
				switch e := n.(type) {
				case *ast.IfStmt:
					if goSrc(e.Cond) == "len(stakerList.StakerAddrs) == 0" {
						ast.Inspect(e.Body, func(m ast.Node) bool {
							if c, ok := m.(*ast.CallExpr); ok && goSrc(c) == "store.Delete(keyStakerList)" {
								deleted = true
							}
							return true
						})
					}
				case *ast.ForStmt:
					if e.Init != nil && goSrc(e.Init) == "i := idx" && e.Cond != nil && goSrc(e.Cond) == "i < len(stakerList.StakerAddrs)" {
						assigns, stores := false, false
						ast.Inspect(e.Body, func(m ast.Node) bool {
							if as, ok := m.(*ast.AssignStmt); ok && len(as.Lhs) == 1 && strings.HasSuffix(goSrc(as.Lhs[0]), ".StakerIndex") && goSrc(as.Rhs[0]) == "int64(i)" {
								assigns = true
							}
							if c, ok := m.(*ast.CallExpr); ok && goSrc(c.Fun) == "store.Set" {
								stores = true
							}
							return true
						})
						shifted = assigns && stores
					}
				}
				return true
			})
			emit("oracleEmptyStakerListDeleted", "/-- x/oracle UpdateNSTValidatorListForStaker deletes the staker list entry when its last staker is removed -/\ndef oracleEmptyStakerListDeleted : Bool := "+fmt.Sprint(deleted), nil)
			emit("oracleStakerIndexShifted", "/-- x/oracle UpdateNSTValidatorListForStaker rewrites the StakerIndex of the stakers behind a removed one -/\ndef oracleStakerIndexShifted : Bool := "+fmt.Sprint(shifted), nil)
		}()
		emit("oracleCollectionPrefixes", "/-- x/oracle: (exporter, setter, key prefix the exporter reads, key prefix the setter writes) -/\ndef oracleCollectionPrefixes : List (String × String × String × String) := [\n  "+strings.Join(items, ",\n  ")+"]", nil)
	}()
}

func init() { factGens = append(factGens, genesisModsGen) }
