package main

// Tie A for C06's hypotheses about the key registry (Props/C06Keys.lean, Props/C06KeysTie.lean):
// x/operator/keeper/consensus_keys.go: setOperatorConsKeyForChainID refuses a consensus key that still
// resolves to an operator — whoever that operator is. The lookup of a replaced validating key is pruned
// EpochsUntilUnbonded epochs later by x/dogfood; if its former owner could take the key back in the
// meantime, the pruning would remove the lookup of an ACTIVE validator key and ApplyValidatorChanges
// would write a new power to the store without handing it to consensus (C06_keys_take_back_would_break_agreement).
//   setConsKeyInUseCond   : the condition of the `if … { return types.ErrConsKeyAlreadyInUse }`, as a Lean
//                           function of the atom `keyInUse` (any other operand fails the translation: closed)
//   setConsKeyInUseLookup : the one statement that defines `keyInUse`: callee, left-hand sides, arguments

import (
	"fmt"
	"go/ast"
	"go/token"
)

func init() { factGens = append(factGens, genKeyGuardFacts) }

func genKeyGuardFacts(repo string, emit func(name, leanDef string, err error)) {
	names := []string{"setConsKeyInUseCond", "setConsKeyInUseLookup"}
	fail := func(err error) {
		for _, n := range names {
			emit(n, "", err)
		}
	}
	fset, f, err := vParse(repo, "x/operator/keeper/consensus_keys.go")
	if err != nil {
		fail(err)
		return
	}
	fd := findFunc(f, "Keeper.setOperatorConsKeyForChainID")
	if fd == nil {
		fail(fmt.Errorf("setOperatorConsKeyForChainID not found"))
		return
	}
	t := &vtr{fset: fset, atoms: map[string]vAtom{"keyInUse": {"keyInUse", "Bool"}}}
	// ---- the guard: every `if` (at any depth) whose body returns ErrConsKeyAlreadyInUse
	var guards []*ast.IfStmt
	ast.Inspect(fd.Body, func(x ast.Node) bool {
		ifs, ok := x.(*ast.IfStmt)
		if !ok {
			return true
		}
		for _, st := range ifs.Body.List {
			if r, isR := st.(*ast.ReturnStmt); isR && len(r.Results) == 1 {
				if sel, isS := r.Results[0].(*ast.SelectorExpr); isS && sel.Sel.Name == "ErrConsKeyAlreadyInUse" {
					guards = append(guards, ifs)
				}
			}
		}
		return true
	})
	topLevel := -1
	for i, st := range fd.Body.List {
		if len(guards) == 1 && st == ast.Stmt(guards[0]) {
			topLevel = i
		}
	}
	switch {
	case len(guards) != 1:
		emit(names[0], "", fmt.Errorf("expected exactly one `if … { return types.ErrConsKeyAlreadyInUse }` in setOperatorConsKeyForChainID, found %d", len(guards)))
	case topLevel < 0:
		emit(names[0], "", fmt.Errorf("the ErrConsKeyAlreadyInUse guard is nested inside another statement"))
	case guards[0].Init != nil || guards[0].Else != nil || len(guards[0].Body.List) != 1:
		emit(names[0], "", fmt.Errorf("the ErrConsKeyAlreadyInUse guard has an initialiser, an else branch or more than the return in its body: %s", t.src(guards[0])))
	default:
		body, e := vGuard(func() string {
			s, ty := t.expr(guards[0].Cond)
			if ty != "Bool" {
				vfail("condition type %s", ty)
			}
			return s
		})
		emit(names[0], "/-- consensus_keys.go: setOperatorConsKeyForChainID — condition under which ErrConsKeyAlreadyInUse is returned (keyInUse = the key's cons-address -> operator lookup exists) -/\ndef setConsKeyInUseCond (keyInUse : Bool) : Bool := "+body, e)
	}
	// ---- what `keyInUse` is: exactly one statement of the function assigns it, before the guard
	var defs []*ast.AssignStmt
	pos := -1
	for i, st := range fd.Body.List {
		as, ok := st.(*ast.AssignStmt)
		if !ok {
			continue
		}
		for _, l := range as.Lhs {
			if exprText(l) == "keyInUse" {
				defs = append(defs, as)
				pos = i
			}
		}
	}
	nested := 0
	ast.Inspect(fd.Body, func(x ast.Node) bool {
		if as, ok := x.(*ast.AssignStmt); ok {
			for _, l := range as.Lhs {
				if exprText(l) == "keyInUse" {
					nested++
				}
			}
		}
		return true
	})
	switch {
	case len(defs) != 1 || nested != 1:
		emit(names[1], "", fmt.Errorf("expected exactly one assignment of keyInUse in setOperatorConsKeyForChainID, found %d (top level %d)", nested, len(defs)))
	case defs[0].Tok != token.DEFINE || len(defs[0].Rhs) != 1:
		emit(names[1], "", fmt.Errorf("keyInUse is not defined by a single `:=` call: %s", t.src(defs[0])))
	case topLevel >= 0 && pos > topLevel:
		emit(names[1], "", fmt.Errorf("keyInUse is assigned after the guard that reads it"))
	default:
		call, ok := defs[0].Rhs[0].(*ast.CallExpr)
		if !ok {
			emit(names[1], "", fmt.Errorf("keyInUse is not the result of a call: %s", t.src(defs[0])))
			return
		}
		var lhs, args []string
		for _, l := range defs[0].Lhs {
			lhs = append(lhs, exprText(l))
		}
		for _, a := range call.Args {
			args = append(args, t.src(a))
		}
		emit(names[1], fmt.Sprintf("/-- consensus_keys.go: setOperatorConsKeyForChainID — the statement defining keyInUse: (callee, left-hand sides, arguments) -/\ndef setConsKeyInUseLookup : String × List String × List String := (%q, %s, %s)",
			t.src(call.Fun), leanStrList(lhs), leanStrList(args)), nil)
	}
}
