package main

// Facts for the oracle message entry points of C09 (refused message leaves the process memory
// untouched) and C14 (a refused parameter update leaves the in-memory params = the stored ones):
//   callSeqOracleCreatePrice   msg_server_create_price.go: CreatePrice        — callee names in source order
//   callSeqOracleNewCreatePrice aggregator/context.go: NewCreatePrice
//   callSeqOracleCheckMsg      aggregator/context.go: checkMsg
//   callSeqOracleFillPrice     aggregator/context.go: FillPrice
//   callSeqOracleWorkerDo      aggregator/worker.go: do
//   callSeqOracleFiltrate      aggregator/filter.go: filtrate
//   callSeqOracleUpdateParams  msg_server_update_params.go: UpdateParams
//   oracleUpdateParamsBase     the expression UpdateParams takes its working copy `p` from, and every
//                              other expression assigned to `p` in the handler
//   oracleGetParamsShape       keeper/params.go: GetParams decodes the stored bytes into a fresh value

import (
	"fmt"
	"go/ast"
	"go/token"
	"strings"
)

func init() { factGens = append(factGens, genOracleAtomicFacts) }

func genOracleAtomicFacts(repo string, emit func(name, leanDef string, err error)) {
	for _, cs := range [][4]string{
		{"callSeqOracleCreatePrice", "x/oracle/keeper/msg_server_create_price.go", "CreatePrice", "msgServer"},
		{"callSeqOracleNewCreatePrice", "x/oracle/keeper/aggregator/context.go", "NewCreatePrice", "AggregatorContext"},
		{"callSeqOracleCheckMsg", "x/oracle/keeper/aggregator/context.go", "checkMsg", "AggregatorContext"},
		{"callSeqOracleFillPrice", "x/oracle/keeper/aggregator/context.go", "FillPrice", "AggregatorContext"},
		{"callSeqOracleWorkerDo", "x/oracle/keeper/aggregator/worker.go", "do", "worker"},
		{"callSeqOracleFiltrate", "x/oracle/keeper/aggregator/filter.go", "filtrate", "filter"},
		{"callSeqOracleUpdateParams", "x/oracle/keeper/msg_server_update_params.go", "UpdateParams", "msgServer"},
	} {
		_, f, err := xbParseGo(repo, cs[1])
		if err != nil {
			emit(cs[0], "", err)
			continue
		}
		fd := xbFindFunc(f, cs[2], cs[3])
		if fd == nil {
			emit(cs[0], "", fmt.Errorf("%s: func %s not found", cs[1], cs[2]))
			continue
		}
		emit(cs[0], fmt.Sprintf("/-- %s: %s — callee names in source order -/\ndef %s : List String := %s", cs[1], cs[2], cs[0], leanStrList(xbCallSeq(fd))), nil)
	}

	// where UpdateParams gets the value it edits from: the right-hand side of the `p := …` definition,
	// and the right-hand sides of every later assignment whose left-hand side starts with `p`
	func() {
		name := "oracleUpdateParamsBase"
		fset, f, err := xbParseGo(repo, "x/oracle/keeper/msg_server_update_params.go")
		if err != nil {
			emit(name, "", err)
			return
		}
		fd := xbFindFunc(f, "UpdateParams", "msgServer")
		if fd == nil {
			emit(name, "", fmt.Errorf("UpdateParams not found"))
			return
		}
		var base []string
		var later []string
		ast.Inspect(fd.Body, func(n ast.Node) bool {
			as, ok := n.(*ast.AssignStmt)
			if !ok || len(as.Lhs) == 0 || len(as.Rhs) != 1 {
				return true
			}
			if id, ok := as.Lhs[0].(*ast.Ident); !ok || id.Name != "p" {
				return true
			}
			rhs := xbNodeText(fset, as.Rhs[0])
			if as.Tok == token.DEFINE {
				base = append(base, rhs)
			} else {
				// the receiver of the call: `p.AddSources(…)` → "p.AddSources"
				if c, ok := as.Rhs[0].(*ast.CallExpr); ok {
					rhs = exprText(c.Fun)
				}
				later = append(later, rhs)
			}
			return true
		})
		if len(base) != 1 {
			emit(name, "", fmt.Errorf("UpdateParams: expected exactly one `p := …`, found %d", len(base)))
			return
		}
		emit(name, fmt.Sprintf("/-- msg_server_update_params.go: UpdateParams — the expression its working copy `p` is defined from -/\ndef oracleUpdateParamsBase : String := %q\n\n/-- … and the functions whose results are assigned to `p` afterwards, in source order -/\ndef oracleUpdateParamsSteps : List String := %s", base[0], leanStrList(later)), nil)
	}()

	// keeper/params.go: GetParams returns a value freshly decoded from the store
	func() {
		name := "oracleGetParamsShape"
		fset, f, err := xbParseGo(repo, "x/oracle/keeper/params.go")
		if err != nil {
			emit(name, "", err)
			return
		}
		fd := xbFindFunc(f, "GetParams", "Keeper")
		if fd == nil {
			emit(name, "", fmt.Errorf("Keeper.GetParams not found"))
			return
		}
		sig := xbNodeText(fset, fd.Type)
		var stmts []string
		for _, st := range fd.Body.List {
			stmts = append(stmts, xbNodeText(fset, st))
		}
		emit(name, fmt.Sprintf("/-- x/oracle/keeper/params.go: GetParams — signature (named result = a fresh zero value per call) and statements -/\ndef oracleGetParamsShape : List String := %s", leanStrList(append([]string{strings.TrimSpace(sig)}, stmts...))), nil)
	}()
}
